import Carquet.Proofs.CursorBatchRun
/-
C02, batch reader: properties of the abstract machine — every batch is aligned, the reader ends
with END_OF_DATA, and the concatenation of the batches is the content of the projected columns.
-/
namespace Carquet.Proofs.Cursor
open Carquet.Spec.Cursor (Row)
open Carquet.Impl.BatchReader

/-! ### content of one batch column -/

theorem spread_rows (maxDef : Nat) (rows : List (Row α)) (pad : List (Option α))
    (hwf : ∀ row ∈ rows, Row.WF maxDef row) :
    spread (rows.map (fun row => decide (row.defLevel < maxDef))) ((rows.filterMap (·.val)).map some ++ pad) =
      rows.map (·.val) := by
  induction rows with
  | nil => simp [spread]
  | cons row rows ih =>
    have hw := hwf row (by simp)
    have ih' := ih (fun x hx => hwf x (by simp [hx]))
    by_cases hd : row.defLevel = maxDef
    · have hs : row.val.isSome := hw.2.2 hd
      cases hv : row.val with
      | none => simp [hv] at hs
      | some v =>
        have : ¬ row.defLevel < maxDef := by omega
        simp only [List.map_cons, this, decide_false, List.filterMap_cons, hv, List.cons_append, spread, ih']
    · have hn : ¬ row.val.isSome := fun hs => hd (hw.2.1 hs)
      cases hv : row.val with
      | some v => simp [hv] at hn
      | none =>
        have : row.defLevel < maxDef := by have := hw.1; omega
        simp only [List.map_cons, this, decide_true, List.filterMap_cons, hv, spread, ih']

theorem nullAt_rows (maxDef : Nat) (rows : List (Row α)) (i : Nat) (hi : i < rows.length) :
    nullAt maxDef (rows.map (fun row => some row.defLevel)) i = decide (rows[i].defLevel < maxDef) := by
  simp [nullAt, List.getElem?_map, List.getElem?_eq_getElem hi]

/-- **A batch column that delivers well-formed rows decodes to exactly those rows.** -/
theorem content_specCol (maxDef rtr : Nat) (rows : List (Row α)) (view : Bool) (hlen : rows.length ≤ rtr)
    (hwf : ∀ row ∈ rows, Row.WF maxDef row) :
    (specCol maxDef rtr rows view).content = rows.map (·.val) := by
  unfold ColData.content specCol
  simp only [Int.toNat_natCast]
  have hflags : (List.range rows.length).map
      (bitmapBit (buildBitmap maxDef (rows.map (fun row => some row.defLevel)) rows.length rtr)) =
      rows.map (fun row => decide (row.defLevel < maxDef)) := by
    apply List.ext_getElem
    · simp
    · intro i h1 h2
      simp only [List.length_map, List.length_range] at h1
      simp only [List.getElem_map, List.getElem_range]
      rw [buildBitmap_bit _ _ _ _ hlen i h1, nullAt_rows _ _ _ h1]
  rw [hflags]
  exact spread_rows maxDef rows _ hwf

/-! ### the abstract run -/

/-- rows of projected column `j` in a list of per-column row lists -/
def colRows (j : Nat) (Ps : List (List (Row α))) : List (Row α) := (Ps[j]?).getD []

/-- the logical content of projected column `j` from the abstract state on -/
def absContent (j : Nat) (s : AbsSt α) : List (Option α) :=
  (colRows j (s.cur.getD [])).map (·.val) ++ s.later.flatMap (fun rg => (colRows j rg).map (·.val))

/-- content of column `j` of a batch -/
def batchCol (j : Nat) (b : Batch α) : List (Option α) := ((b.cols[j]?).map ColData.content).getD []

/-- per-column row lists `Ps` fit the columns `cols`: one list per column, equal lengths, rows well
formed for the column's maximum definition level -/
def RowsOk : List Column → List (List (Row α)) → Prop
  | col :: cols, P :: Ps => (∀ row ∈ P, Row.WF col.maxDef row) ∧ RowsOk cols Ps
  | [], [] => True
  | _, _ => False

structure AbsOk (cols : List Column) (s : AbsSt α) : Prop where
  cur : ∀ Ps, s.cur = some Ps → RowsOk cols Ps ∧ ∀ P ∈ Ps, P.length = headLen Ps
  later : ∀ rg ∈ s.later, RowsOk cols rg ∧ ∀ P ∈ rg, P.length = headLen rg

/-- number of `next` calls still needed (bound) -/
def absMeasure (s : AbsSt α) : Nat :=
  headLen (s.cur.getD []) + (s.later.map (fun rg => headLen rg + 1)).sum

theorem rowsOk_drop (n : Nat) : ∀ (cols : List Column) (Ps : List (List (Row α))),
    RowsOk cols Ps → RowsOk cols (Ps.map (List.drop n))
  | col :: cols, P :: Ps, h => ⟨fun row hrow => h.1 row (List.mem_of_mem_drop hrow), rowsOk_drop n cols Ps h.2⟩
  | [], [], _ => trivial
  | [], _ :: _, h => by cases h
  | _ :: _, [], h => by cases h

theorem sameLen_drop (n : Nat) (Ps : List (List (Row α))) (h : ∀ P ∈ Ps, P.length = headLen Ps) :
    ∀ P ∈ Ps.map (List.drop n), P.length = headLen (Ps.map (List.drop n)) := by
  cases Ps with
  | nil => simp
  | cons P0 Ps =>
    intro P hP
    simp only [List.map_cons, List.mem_cons, List.mem_map] at hP
    simp only [List.map_cons, headLen, List.length_drop]
    rcases hP with rfl | ⟨Q, hQ, rfl⟩
    · simp
    · have := h Q (by simp [hQ])
      simp only [headLen] at this
      simp [this]

theorem absCols_getElem? (rtr j : Nat) : ∀ (cols : List Column) (Ps : List (List (Row α))), RowsOk cols Ps →
    (absCols rtr cols Ps)[j]? =
      match cols[j]?, Ps[j]? with
      | some col, some P => some (specCol col.maxDef rtr (P.take rtr) false)
      | _, _ => none := by
  induction j with
  | zero =>
    intro cols Ps h
    cases cols <;> cases Ps <;> simp_all [absCols, RowsOk]
  | succ j ih =>
    intro cols Ps h
    cases cols with
    | nil => cases Ps <;> simp_all [absCols, RowsOk]
    | cons col cols =>
      cases Ps with
      | nil => simp [absCols]
      | cons P Ps => simpa [absCols] using ih cols Ps h.2

theorem rowsOk_getElem? (j : Nat) : ∀ (cols : List Column) (Ps : List (List (Row α))), RowsOk cols Ps →
    match cols[j]?, Ps[j]? with
    | some col, some P => ∀ row ∈ P, Row.WF col.maxDef row
    | none, none => True
    | _, _ => False := by
  induction j with
  | zero =>
    intro cols Ps h
    cases cols <;> cases Ps <;> simp_all [RowsOk]
  | succ j ih =>
    intro cols Ps h
    cases cols with
    | nil => cases Ps <;> simp_all [RowsOk]
    | cons col cols =>
      cases Ps with
      | nil => simp_all [RowsOk]
      | cons P Ps => simpa using ih cols Ps h.2

/-- what one abstract read contributes to column `j` -/
theorem batchCol_absRead (n : Nat) (cols : List Column) (bs : Nat) (Ps : List (List (Row α))) (j : Nat)
    (hok : RowsOk cols Ps) (_heq : ∀ P ∈ Ps, P.length = headLen Ps) :
    batchCol j (absRead n cols bs Ps).1 ++ (colRows j (absRead n cols bs Ps).2).map (·.val) =
      (colRows j Ps).map (·.val) := by
  unfold absRead
  by_cases hz : min (headLen Ps) bs = 0
  · simp only [hz, if_true]
    have : batchCol j (emptyBatch n : Batch α) = [] := by
      simp only [batchCol, emptyBatch, List.getElem?_replicate]
      split <;> simp [ColData.content, spread]
    rw [this, List.nil_append]
  · simp only [hz, if_false]
    generalize min (headLen Ps) bs = rtr
    simp only [batchCol, colRows, absCols_getElem? rtr j cols Ps hok, List.getElem?_map]
    have hwf := rowsOk_getElem? j cols Ps hok
    cases hc : cols[j]? with
    | none =>
      cases hP : Ps[j]? with
      | none => simp
      | some P => simp [hc, hP] at hwf
    | some col =>
      cases hP : Ps[j]? with
      | none => simp [hc, hP] at hwf
      | some P =>
        simp only [hc, hP] at hwf
        simp only [Option.map_some, Option.getD_some]
        rw [content_specCol _ _ _ _ (by simp [List.length_take]; omega)
          (fun row hrow => hwf row (List.mem_of_mem_take hrow)), ← List.map_append, List.take_append_drop]

theorem absRead_ok (n : Nat) (cols : List Column) (bs : Nat) (Ps : List (List (Row α)))
    (hok : RowsOk cols Ps) (heq : ∀ P ∈ Ps, P.length = headLen Ps) :
    RowsOk cols (absRead n cols bs Ps).2 ∧ (∀ P ∈ (absRead n cols bs Ps).2, P.length = headLen (absRead n cols bs Ps).2) ∧
      headLen (absRead n cols bs Ps).2 = headLen Ps - min (headLen Ps) bs := by
  unfold absRead
  by_cases hz : min (headLen Ps) bs = 0
  · simp only [hz, if_true]; exact ⟨hok, heq, by omega⟩
  · simp only [hz, if_false]
    refine ⟨rowsOk_drop _ cols Ps hok, sameLen_drop _ Ps heq, ?_⟩
    cases Ps with
    | nil => simp [headLen]
    | cons P Ps => simp [headLen]

/-- every batch the abstract machine produces is aligned -/
theorem absRead_aligned (n : Nat) (cols : List Column) (bs : Nat) (Ps : List (List (Row α)))
    (heq : ∀ P ∈ Ps, P.length = headLen Ps) :
    ∀ cd ∈ (absRead n cols bs Ps).1.cols, cd.numValues = (absRead n cols bs Ps).1.numRows := by
  unfold absRead
  by_cases hz : min (headLen Ps) bs = 0
  · simp only [hz, if_true, emptyBatch]
    intro cd hcd
    rw [List.mem_replicate] at hcd
    rw [hcd.2]
  · simp only [hz, if_false]
    exact absCols_numValues _ cols Ps (fun P hP => by rw [heq P hP]; omega)

section run
variable (n : Nat) (cols : List Column) (bs : Nat) (hbs0 : 0 < bs)
include hbs0

/-- one abstract step: a batch with its contribution, a smaller measure; or END_OF_DATA with nothing left -/
theorem absNext_step (s : AbsSt α) (h : AbsOk cols s) :
    (∃ s' b, absNext n cols bs s = (s', .ok, some b) ∧ AbsOk cols s' ∧ absMeasure s' < absMeasure s ∧
      (∀ cd ∈ b.cols, cd.numValues = b.numRows) ∧
      ∀ j, batchCol j b ++ absContent j s' = absContent j s) ∨
    (∃ s', absNext n cols bs s = (s', .endOfData, none) ∧ ∀ j, absContent j s = []) := by
  -- reading from rows `Ps` (current or freshly opened row group)
  have hread : ∀ (Ps : List (List (Row α))), RowsOk cols Ps → (∀ P ∈ Ps, P.length = headLen Ps) →
      ∀ j, batchCol j (absRead n cols bs Ps).1 ++ (colRows j (absRead n cols bs Ps).2).map (·.val) =
        (colRows j Ps).map (·.val) := fun Ps h1 h2 j => batchCol_absRead n cols bs Ps j h1 h2
  have hadv : (∀ Ps, s.cur = some Ps → headLen Ps = 0) →
      (∃ s' b, absAdvance n cols bs s = (s', .ok, some b) ∧ AbsOk cols s' ∧ absMeasure s' < absMeasure s ∧
        (∀ cd ∈ b.cols, cd.numValues = b.numRows) ∧
        ∀ j, batchCol j b ++ absContent j s' = absContent j s) ∨
      (∃ s', absAdvance n cols bs s = (s', .endOfData, none) ∧ ∀ j, absContent j s = []) := by
    intro hcur0
    -- the current group contributes nothing
    have hcurEmpty : ∀ j, (colRows j (s.cur.getD [])).map (·.val) = [] := by
      intro j
      cases hc : s.cur with
      | none => simp [colRows]
      | some Ps =>
        simp only [Option.getD_some, colRows]
        cases hP : Ps[j]? with
        | none => simp
        | some P =>
          have hmem : P ∈ Ps := List.mem_of_getElem? hP
          have := (h.cur Ps hc).2 P hmem
          rw [hcur0 Ps hc] at this
          simp [List.eq_nil_of_length_eq_zero this]
    unfold absAdvance
    cases hl : s.later with
    | nil =>
      right
      refine ⟨s, rfl, fun j => ?_⟩
      simp [absContent, hcurEmpty j, hl]
    | cons rg later =>
      left
      obtain ⟨hrok, hreq⟩ := h.later rg (by rw [hl]; simp)
      obtain ⟨h1, h2, h3⟩ := absRead_ok n cols bs rg hrok hreq
      refine ⟨_, _, rfl, ⟨?_, ?_⟩, ?_, absRead_aligned n cols bs rg hreq, ?_⟩
      · intro Ps hPs
        simp only [Option.some.injEq] at hPs
        subst hPs; exact ⟨h1, h2⟩
      · intro rg' hrg'; exact h.later rg' (by rw [hl]; simp [hrg'])
      · simp only [absMeasure, Option.getD_some, hl, List.map_cons, List.sum_cons, h3]
        have : headLen (s.cur.getD []) = 0 := by
          cases hc : s.cur with
          | none => simp [headLen]
          | some Ps => simpa using hcur0 Ps hc
        omega
      · intro j
        simp only [absContent, Option.getD_some, hl, List.flatMap_cons, hcurEmpty j, List.nil_append]
        rw [← List.append_assoc, hread rg hrok hreq j]
  unfold absNext
  cases hc : s.cur with
  | none =>
    simp only
    exact hadv (fun Ps hPs => by rw [hc] at hPs; cases hPs)
  | some Ps =>
    simp only
    by_cases hpos : headLen Ps > 0
    · simp only [hpos, if_true]
      left
      obtain ⟨hok, heq⟩ := h.cur Ps hc
      obtain ⟨h1, h2, h3⟩ := absRead_ok n cols bs Ps hok heq
      refine ⟨_, _, rfl, ⟨?_, h.later⟩, ?_, absRead_aligned n cols bs Ps heq, ?_⟩
      · intro Ps' hPs'
        simp only [Option.some.injEq] at hPs'
        subst hPs'; exact ⟨h1, h2⟩
      · simp only [absMeasure, Option.getD_some, hc, h3]
        omega
      · intro j
        simp only [absContent, Option.getD_some, hc]
        rw [← List.append_assoc, hread Ps hok heq j]
    · simp only [hpos, if_false]
      exact hadv (fun Ps' hPs' => by rw [hc] at hPs'; cases hPs'; omega)

/-- **The abstract run**: with enough fuel it ends with END_OF_DATA, every batch is aligned, and the
batches concatenate, column by column, to the content of the projected columns. -/
theorem absRun_ok : ∀ (fuel : Nat) (s : AbsSt α), AbsOk cols s → absMeasure s < fuel →
    (absRun n cols bs fuel s).2 = .endOfData ∧
    (∀ b ∈ (absRun n cols bs fuel s).1, ∀ cd ∈ b.cols, cd.numValues = b.numRows) ∧
    ∀ j, (absRun n cols bs fuel s).1.flatMap (batchCol j) = absContent j s := by
  intro fuel
  induction fuel with
  | zero => intro s _ h; omega
  | succ fuel ih =>
    intro s hok hm
    unfold absRun
    rcases absNext_step n cols bs hbs0 s hok with ⟨s', b, heq, hok', hlt, hal, hcont⟩ | ⟨s', heq, hnil⟩
    · rw [heq]
      simp only
      obtain ⟨h1, h2, h3⟩ := ih s' hok' (by omega)
      refine ⟨h1, ?_, ?_⟩
      · intro b' hb'
        simp only [List.mem_cons] at hb'
        rcases hb' with rfl | hb'
        · exact hal
        · exact h2 b' hb'
      · intro j
        simp only [List.flatMap_cons, h3 j, hcont j]
    · rw [heq]
      simp only
      refine ⟨trivial, ?_, ?_⟩
      · intro b hb; cases hb
      · intro j; simp [hnil j]

/-- alignment alone needs no fuel bound -/
theorem absRun_aligned : ∀ (fuel : Nat) (s : AbsSt α), AbsOk cols s →
    ∀ b ∈ (absRun n cols bs fuel s).1, ∀ cd ∈ b.cols, cd.numValues = b.numRows := by
  intro fuel
  induction fuel with
  | zero => intro s _ b hb; cases hb
  | succ fuel ih =>
    intro s hok
    unfold absRun
    rcases absNext_step n cols bs hbs0 s hok with ⟨s', b, heq, hok', _, hal, _⟩ | ⟨s', heq, _⟩
    · rw [heq]
      simp only
      intro b' hb'
      simp only [List.mem_cons] at hb'
      rcases hb' with rfl | hb'
      · exact hal
      · exact ih s' hok' b' hb'
    · rw [heq]
      simp only
      intro b hb; cases hb

end run

end Carquet.Proofs.Cursor
