import Carquet.Proofs.ImplReadsDefs
import Carquet.Proofs.SpecFileCodec
import Carquet.Properties.C10.Snappy
import Carquet.Properties.C10.Lz4
/-
C06, implementation half — stage "stored bodies": what the reference writer stores for a page body
under a compression plan (`compressWith`), the loaders' decompression step (`pageData`:
`decompress_page` with the header's uncompressed_page_size as capacity) turns back into the body —
SNAPPY / LZ4 / LZ4_RAW by C10 (carquet's decompressors accept every stream of the Spec grammars, and
the reference encoders only emit such streams), GZIP / ZSTD by the library contract `LibsDecode`.
-/
namespace Carquet.Proofs.ImplReads
open Carquet.Spec Carquet.Spec.File
open Carquet.Impl
open Carquet.Impl.Reader hiding Bytes

theorem isGzip_gzipStored (k : Nat) (name : Option Bytes) (body : Bytes) :
    isGzip (gzipStored k name body) = true := by
  simp [isGzip, gzipStored]

theorem isZstd_zstdRaw {f : Nat} {zp : List ZBlock} {body comp : Bytes}
    (h : zstdRaw f zp body = some comp) : isZstd comp = true := by
  simp only [zstdRaw] at h
  split at h
  · simp only [Option.some.injEq] at h
    subst h
    simp [isZstd]
  · cases h

theorem gzipDecompress_of_lib (L : CodecWrappers.Lib) (c y : Bytes) (cap : Nat)
    (h : L.decompress c cap = some y) : CodecWrappers.gzipDecompress L c cap = .ok y := by
  simp [CodecWrappers.gzipDecompress, CodecWrappers.gzipDecompressG, List.take_length, h]

theorem zstdDecompress_of_lib (L : CodecWrappers.Lib) (c y : Bytes) (cap : Nat)
    (h : L.decompress c cap = some y) : CodecWrappers.zstdDecompress L c cap = .ok y := by
  simp [CodecWrappers.zstdDecompress, CodecWrappers.zstdDecompressG, List.take_length, h]

theorem pageData_compressWith (L : Libs) (plan : CompPlan) (body comp : Bytes)
    (hc : compressWith plan body = some comp) (hp : planOk plan = true)
    (hL : LibsDecode L (oracleEntry plan comp body)) (hsz : body.length < 2 ^ 31) :
    pageData L (plan.codec : Int) comp body.length = .ok body := by
  cases plan with
  | none =>
    simp only [compressWith, Option.some.injEq] at hc
    subst hc
    simp [pageData, CompPlan.codec]
  | snappy ops =>
    simp only [compressWith] at hc
    split at hc
    · rename_i hrun
      obtain ⟨out, hrun', hstream⟩ := Carquet.Proofs.Snappy.encode_stream hc
      rw [hrun] at hrun'
      cases hrun'
      have := Carquet.Properties.C10.C10_snappy_accepts_valid comp body body.length hstream (Nat.le_refl _)
      simp [pageData, decompressPage, CompPlan.codec, this, mapSnappy]
    · cases hc
  | lz4 tag seqs last =>
    simp only [compressWith] at hc
    split at hc
    · rename_i hexec
      simp only [Option.some.injEq] at hc
      subst hc
      have hb := Carquet.Proofs.Lz4Spec.encode_block hexec
      have hd := Carquet.Properties.C10.C10_lz4_accepts_valid _ _ hb body.length (Nat.le_refl _)
      simp only [planOk, Bool.or_eq_true, beq_iff_eq] at hp
      rcases hp with rfl | rfl <;> simp [pageData, decompressPage, CompPlan.codec, hd, mapLz4]
    · cases hc
  | gzip k name =>
    simp only [compressWith, Option.some.injEq] at hc
    subst hc
    have this : L.gzip.decompress (gzipStored k name body) body.length = some body :=
      hL.gzip (gzipStored k name body, body) (by simp [oracleEntry]) (isGzip_gzipStored k name body)
    simp [pageData, decompressPage, CompPlan.codec, gzipDecompress_of_lib _ _ _ _ this, mapWrap]
  | zstd f zp =>
    simp only [compressWith] at hc
    have this : L.zstd.decompress comp body.length = some body :=
      hL.zstd (comp, body) (by simp [oracleEntry]) (isZstd_zstdRaw hc)
    simp [pageData, decompressPage, CompPlan.codec, zstdDecompress_of_lib _ _ _ _ this, mapWrap]

end Carquet.Proofs.ImplReads
