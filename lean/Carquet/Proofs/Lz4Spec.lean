import Carquet.Spec.Lz4
/-
Lemmas about the LZ4 block Spec: the executable decoder accepts exactly the grammar.
-/
namespace Carquet.Proofs.Lz4Spec
open Carquet.Spec.Lz4

theorem readChain_of_LenChain {n : Nat} {ext : List UInt8} (h : LenChain n ext) :
    ∀ (rest : List UInt8) (acc : Nat), readChain (ext ++ rest) acc = some (acc + n, rest) := by
  induction h with
  | stop b hb => intro rest acc; simp [readChain, hb]
  | cont _ ih => intro rest acc; simp [readChain, ih]; omega

theorem readLen_of_Len {nib len : Nat} {ext : List UInt8} (h : Len nib len ext) (rest : List UInt8) :
    readLen nib (ext ++ rest) = some (len, rest) := by
  cases h with
  | short hn => simp [readLen, hn]
  | long hc => simp [readLen, readChain_of_LenChain hc]

theorem copy1_valid {l : List UInt8} {off : Nat} (h0 : 0 < off) (h1 : off ≤ l.length) :
    ∃ b, l[l.length - off]? = some b ∧ copy1 l off = l ++ [b] := by
  have hlt : l.length - off < l.length := by omega
  refine ⟨l[l.length - off], ?_, ?_⟩
  · simp [hlt]
  · simp [copy1, hlt]

theorem applyMatch_length {off : Nat} (h0 : 0 < off) :
    ∀ (n : Nat) (l : List UInt8), off ≤ l.length → (applyMatch l off n).length = l.length + n := by
  intro n
  induction n with
  | zero => intro l _; simp [applyMatch]
  | succ n ih =>
    intro l h1
    obtain ⟨b, _, hc⟩ := copy1_valid h0 h1
    simp only [applyMatch, hc]
    rw [ih _ (by simp; omega)]
    simp; omega

theorem copyMatch_eq {off : Nat} (h0 : 0 < off) :
    ∀ (n : Nat) (l : List UInt8), off ≤ l.length →
      copyMatch l.toArray off n = (applyMatch l off n).toArray := by
  intro n
  induction n with
  | zero => intro l _; simp [copyMatch, applyMatch]
  | succ n ih =>
    intro l h1
    obtain ⟨b, hb, hc⟩ := copy1_valid h0 h1
    simp only [copyMatch, applyMatch, hc]
    simp only [List.size_toArray, List.getElem?_toArray, hb, List.push_toArray]
    exact ih _ (by simp; omega)

theorem Seqs.length_le {pre bs out : List UInt8} (h : Seqs pre bs out) : pre.length ≤ out.length := by
  induction h with
  | last _ => simp
  | seq _ h0 h1 _ _ ih =>
    rw [applyMatch_length h0 _ _ h1] at ih
    simp at ih; omega

theorem loop_complete {pre bs out : List UInt8} (h : Seqs pre bs out) :
    ∀ (fuel cap : Nat), bs.length < fuel → out.length ≤ cap →
      loop fuel bs pre.toArray cap = .ok out.toArray := by
  induction h with
  | @last pre tok ext lits hl =>
    intro fuel cap hf hc
    cases fuel with
    | zero => omega
    | succ fuel =>
      simp only [loop, step, readLen_of_Len hl, stepLits]
      simp at hc
      simp [stepMatch]
      rw [if_neg (by omega)]
  | @seq pre tok lo hi lext lits mext rest out mcode hl h0 h1 hm hs ih =>
    intro fuel cap hf hc
    cases fuel with
    | zero => omega
    | succ fuel =>
      have hlen := Seqs.length_le hs
      rw [applyMatch_length h0 _ _ h1] at hlen
      simp at hlen h1
      have e1 : lext ++ lits ++ [lo, hi] ++ mext ++ rest = lext ++ (lits ++ (lo :: hi :: (mext ++ rest))) := by simp
      simp only [loop, step, e1, readLen_of_Len hl, stepLits]
      have hz : ¬ (lo.toNat + 256 * hi.toNat = 0) := by omega
      simp [stepMatch, stepOff, readLen_of_Len hm]
      rw [if_neg (by omega), if_neg (by omega), if_neg (by omega), if_neg (by omega)]
      simp only []
      have := copyMatch_eq h0 (mcode + 4) (pre ++ lits) (by simp; omega)
      rw [this]
      apply ih
      · simp at hf; omega
      · exact hc

theorem decode_complete {bs out : List UInt8} (h : Block bs out) {cap : Nat} (hc : out.length ≤ cap) :
    decode bs cap = .ok out := by
  have := loop_complete h (bs.length + 1) cap (by omega) hc
  simp only [List.toArray] at this
  unfold decode
  simp [this]

/-! ### the reference encoder produces blocks of the grammar -/

theorem lenNibble_le (len : Nat) : lenNibble len ≤ 15 := by unfold lenNibble; split <;> omega

theorem token_toNat (a b : Nat) : (token a b).toNat = lenNibble a * 16 + lenNibble b := by
  have := lenNibble_le a; have := lenNibble_le b
  simp only [token, UInt8.toNat_ofNat']
  omega

theorem lenChain_replicate (r : Nat) (hr : r < 255) : ∀ k : Nat,
    LenChain (255 * k + r) (List.replicate k 255 ++ [UInt8.ofNat r]) := by
  intro k
  induction k with
  | zero =>
    have h1 : (UInt8.ofNat r).toNat = r := by simp only [UInt8.toNat_ofNat']; omega
    have h2 : UInt8.ofNat r ≠ 255 := by
      intro h; have := congrArg UInt8.toNat h; rw [h1] at this; simp at this; omega
    have := LenChain.stop (UInt8.ofNat r) h2
    rw [h1] at this
    simpa using this
  | succ k ih =>
    have := LenChain.cont ih
    rw [show 255 * (k + 1) + r = 255 + (255 * k + r) by omega]
    simpa [List.replicate_succ] using this

theorem len_lenExt (len : Nat) : Len (lenNibble len) len (lenExt len) := by
  unfold lenNibble lenExt
  split
  · rename_i h; exact Len.short h
  · rename_i h
    have hc := lenChain_replicate ((len - 15) % 255) (Nat.mod_lt _ (by omega)) ((len - 15) / 255)
    rw [Nat.div_add_mod] at hc
    have := Len.long hc
    rw [show 15 + (len - 15) = len by omega] at this
    exact this

theorem offset_bytes (off : Nat) (h : off ≤ 65535) :
    (UInt8.ofNat (off % 256)).toNat + 256 * (UInt8.ofNat (off / 256)).toNat = off := by
  simp only [UInt8.toNat_ofNat']
  omega

theorem encode_seqs : ∀ (seqs : List Seq) (pre last out : List UInt8),
    exec pre seqs last = some out → Seqs pre (encode seqs last) out := by
  intro seqs
  induction seqs with
  | nil =>
    intro pre last out h
    simp only [exec, Option.some.injEq] at h
    subst h
    simp only [encode, encodeLast]
    apply Seqs.last
    rw [token_toNat]
    have := lenNibble_le last.length
    have h0 : lenNibble 0 = 0 := by simp [lenNibble]
    rw [h0, show (lenNibble last.length * 16 + 0) / 16 = lenNibble last.length by omega]
    exact len_lenExt _
  | cons s r ih =>
    intro pre last out h
    simp only [exec] at h
    split at h
    · rename_i hc
      obtain ⟨h0, h1, h2, h3⟩ := hc
      have hrest := ih _ _ _ h
      have e : encode (s :: r) last =
          token s.lits.length (s.mlen - 4) :: (lenExt s.lits.length ++ s.lits ++
            [UInt8.ofNat (s.off % 256), UInt8.ofNat (s.off / 256)] ++ lenExt (s.mlen - 4) ++ encode r last) := by
        simp [encode, encodeSeq]
      rw [e]
      have hoff := offset_bytes s.off h2
      have hnl := lenNibble_le s.lits.length
      have hnm := lenNibble_le (s.mlen - 4)
      apply Seqs.seq (mcode := s.mlen - 4)
      · rw [token_toNat, show (lenNibble s.lits.length * 16 + lenNibble (s.mlen - 4)) / 16 = lenNibble s.lits.length by omega]
        exact len_lenExt _
      · rw [hoff]; exact h0
      · rw [hoff]; exact h1
      · rw [token_toNat, show (lenNibble s.lits.length * 16 + lenNibble (s.mlen - 4)) % 16 = lenNibble (s.mlen - 4) by omega]
        exact len_lenExt _
      · rw [hoff, show s.mlen - 4 + 4 = s.mlen by omega]; exact hrest
    · cases h

theorem encode_block {seqs : List Seq} {last out : List UInt8} (h : exec [] seqs last = some out) :
    Block (encode seqs last) out := encode_seqs seqs [] last out h

/-! ### what the decoder accepts is in the grammar -/

theorem readChain_inv : ∀ (l : List UInt8) (acc v : Nat) (rest : List UInt8), readChain l acc = some (v, rest) →
    ∃ n ext, v = acc + n ∧ LenChain n ext ∧ l = ext ++ rest := by
  intro l
  induction l with
  | nil => intro acc v rest h; simp [readChain] at h
  | cons b r ih =>
    intro acc v rest h
    simp only [readChain] at h
    split at h
    · rename_i hb
      obtain ⟨n, ext, h1, h2, h3⟩ := ih _ _ _ h
      exact ⟨255 + n, 255 :: ext, by omega, LenChain.cont h2, by rw [hb, h3]; rfl⟩
    · rename_i hb
      simp only [Option.some.injEq, Prod.mk.injEq] at h
      exact ⟨b.toNat, [b], by omega, LenChain.stop b hb, by rw [h.2]; rfl⟩

theorem readLen_inv {nib : Nat} (hn : nib < 16) {l : List UInt8} {len : Nat} {rest : List UInt8}
    (h : readLen nib l = some (len, rest)) : ∃ ext, Len nib len ext ∧ l = ext ++ rest := by
  unfold readLen at h
  split at h
  · rename_i h15
    simp only [Option.some.injEq, Prod.mk.injEq] at h
    obtain ⟨rfl, rfl⟩ := h
    exact ⟨[], Len.short h15, rfl⟩
  · obtain ⟨n, ext, h1, h2, h3⟩ := readChain_inv _ _ _ _ h
    have : nib = 15 := by omega
    subst this; subst h1
    exact ⟨ext, Len.long h2, h3⟩

theorem copyMatch_toList {off : Nat} (h0 : 0 < off) (n : Nat) (out : Array UInt8) (h1 : off ≤ out.size) :
    (copyMatch out off n).toList = applyMatch out.toList off n := by
  obtain ⟨l⟩ := out
  rw [copyMatch_eq h0 n l (by simpa using h1)]

/-- what one decoder step has read when it does not fail -/
theorem step_inv (bs : List UInt8) (out : Array UInt8) (cap : Nat) :
    (∀ o, step bs out cap = .done (.ok o) → ∃ tok ext lits, bs = tok :: (ext ++ lits) ∧
        Len (tok.toNat / 16) lits.length ext ∧ o = out ++ lits) ∧
    (∀ rest o', step bs out cap = .more rest o' → ∃ (tok lo hi : UInt8) (lext lits mext : List UInt8) (mc : Nat),
        bs = tok :: (lext ++ lits ++ [lo, hi] ++ mext ++ rest) ∧ Len (tok.toNat / 16) lits.length lext ∧
        0 < lo.toNat + 256 * hi.toNat ∧ lo.toNat + 256 * hi.toNat ≤ out.size + lits.length ∧
        Len (tok.toNat % 16) mc mext ∧
        o' = copyMatch (out ++ lits) (lo.toNat + 256 * hi.toNat) (mc + 4)) := by
  cases bs with
  | nil => simp [step]
  | cons tok r =>
    have ht16 : tok.toNat / 16 < 16 := by have := tok.toNat_lt; omega
    have ht15 : tok.toNat % 16 < 16 := Nat.mod_lt _ (by omega)
    simp only [step]
    cases hrl : readLen (tok.toNat / 16) r with
    | none => simp
    | some p =>
      obtain ⟨ll, r1⟩ := p
      obtain ⟨lext, hlen, hr⟩ := readLen_inv ht16 hrl
      simp only [stepLits]
      by_cases c1 : (r1.take ll).length < ll
      · rw [if_pos c1]; simp
      · rw [if_neg c1]
        by_cases c2 : cap < out.size + ll
        · rw [if_pos c2]; simp
        · rw [if_neg c2]
          have hll : (r1.take ll).length = ll := by
            have := List.length_take_le ll r1; omega
          have hsplit : r1 = r1.take ll ++ r1.drop ll := (List.take_append_drop ll r1).symm
          rw [← hll] at hlen
          cases hd : r1.drop ll with
          | nil =>
            rw [hd, List.append_nil] at hsplit
            simp only [stepMatch]
            refine ⟨?_, by simp⟩
            intro o ho
            simp only [Step.done.injEq, Except.ok.injEq] at ho
            exact ⟨tok, lext, r1.take ll, by rw [hr, ← hsplit], hlen, ho.symm⟩
          | cons lo t =>
            cases t with
            | nil => simp [stepMatch]
            | cons hi r3 =>
              simp only [stepMatch, stepOff]
              by_cases c3 : lo.toNat + 256 * hi.toNat = 0
              · rw [if_pos c3]; simp
              · rw [if_neg c3]
                by_cases c4 : (out ++ r1.take ll).size < lo.toNat + 256 * hi.toNat
                · rw [if_pos c4]; simp
                · rw [if_neg c4]
                  cases hrm : readLen (tok.toNat % 16) r3 with
                  | none => simp
                  | some q =>
                    obtain ⟨mc, r4⟩ := q
                    obtain ⟨mext, hmlen, hr3⟩ := readLen_inv ht15 hrm
                    simp only
                    by_cases c5 : cap < (out ++ r1.take ll).size + (mc + 4)
                    · rw [if_pos c5]; simp
                    · rw [if_neg c5]
                      refine ⟨by simp, ?_⟩
                      intro rest o' ho
                      simp only [Step.more.injEq] at ho
                      obtain ⟨rfl, rfl⟩ := ho
                      have hsz : (out ++ r1.take ll).size = out.size + (r1.take ll).length := by
                        rw [← Array.length_toList, Array.toList_appendList, List.length_append, Array.length_toList]
                      refine ⟨tok, lo, hi, lext, r1.take ll, mext, mc, ?_, hlen, by omega, by omega, hmlen, rfl⟩
                      have e : r = lext ++ (r1.take ll ++ (lo :: hi :: (mext ++ r4))) := by
                        rw [hr, ← hr3, ← hd, ← hsplit]
                      rw [e]
                      simp

theorem loop_sound : ∀ (fuel : Nat) (bs : List UInt8) (out : Array UInt8) (cap : Nat) (o : Array UInt8),
    loop fuel bs out cap = .ok o → Seqs out.toList bs o.toList := by
  intro fuel
  induction fuel with
  | zero => intro bs out cap o h; simp [loop] at h
  | succ fuel ih =>
    intro bs out cap o h
    simp only [loop] at h
    obtain ⟨hdone, hmore⟩ := step_inv bs out cap
    cases hs : step bs out cap with
    | done r =>
      rw [hs] at h
      simp only at h
      subst h
      obtain ⟨tok, ext, lits, rfl, hlen, rfl⟩ := hdone o hs
      have := Seqs.last (pre := out.toList) (tok := tok) hlen
      simpa using this
    | more rest o' =>
      rw [hs] at h
      simp only at h
      obtain ⟨tok, lo, hi, lext, lits, mext, mc, rfl, hlen, h0, h1, hmlen, rfl⟩ := hmore rest o' hs
      have hrec := ih _ _ _ _ h
      have hsz : (out ++ lits).size = out.size + lits.length := by
        rw [← Array.length_toList, Array.toList_appendList, List.length_append, Array.length_toList]
      rw [copyMatch_toList h0 _ _ (by omega)] at hrec
      simp only [Array.toList_appendList] at hrec
      exact Seqs.seq hlen h0 (by simp only [List.length_append, Array.length_toList]; omega) hmlen hrec

theorem decode_sound {bs out : List UInt8} {cap : Nat} (h : decode bs cap = .ok out) : Block bs out := by
  unfold decode at h
  cases hl : loop (bs.length + 1) bs #[] cap with
  | error e => rw [hl] at h; cases h
  | ok o =>
    rw [hl] at h
    cases h
    have := loop_sound _ _ _ _ _ hl
    simpa [Block] using this

end Carquet.Proofs.Lz4Spec
