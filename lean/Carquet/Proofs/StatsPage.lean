import Carquet.Proofs.StatsBuilder
/-
The page writer's running min/max (after F18a) is the abstract running min/max in the
statistics order; its null count is the number of rows whose definition level is not maximal.
-/
namespace Carquet.Proofs.StatsPage
open Carquet.Spec.Order Carquet.Impl.Stats Carquet.Proofs.StatsOrder Carquet.Proofs.StatsCmp
open Carquet.Proofs.StatsBuilder

theorem sgn3_lt_zero (g l : Bool) : sgn3 g l < 0 ↔ (l = true ∧ g = false) := by
  cases g <;> cases l <;> simp [sgn3]

theorem sgn3_gt_zero (g l : Bool) : sgn3 g l > 0 ↔ (g = true ∧ l = false) := by
  cases g <;> cases l <;> simp [sgn3]

theorem fLt_asymm (f : FFmt) (a b : Nat) (h : fLt f a b = true) : fLt f b a = false := by
  unfold fLt at *
  cases ha : fNan f a <;> cases hb : fNan f b <;> simp_all
  omega

theorem pwLess_float (f : FFmt) (a b : Nat) :
    (fLt f a b || (fNan f b && !fNan f a)) = decide (cmpFloatB f a b < 0) := by
  unfold cmpFloatB
  cases ha : fNan f a <;> cases hb : fNan f b <;> simp [fLt, ha, hb, sgn3_lt_zero]
  intro h; omega

theorem pwGreater_float (f : FFmt) (a b : Nat) :
    (fLt f b a || (fNan f a && !fNan f b)) = decide (cmpFloatB f a b > 0) := by
  unfold cmpFloatB
  cases ha : fNan f a <;> cases hb : fNan f b <;> simp [fLt, ha, hb, sgn3_gt_zero]
  intro h; omega

theorem pwLess_eq (t : PType) (ht : pwTracked t = true) (v c : List UInt8) :
    pwLess t v c = decide (cmpTyped t v c < 0) := by
  cases t <;> simp [pwTracked] at ht
  · simp [pwLess, cmpTyped, cmpI32, sgn3_lt_zero]; intro h; omega
  · simp [pwLess, cmpTyped, cmpI64, sgn3_lt_zero]; intro h; omega
  · simp only [pwLess, cmpTyped]; exact pwLess_float _ _ _
  · simp only [pwLess, cmpTyped]; exact pwLess_float _ _ _

theorem pwGreater_eq (t : PType) (ht : pwTracked t = true) (v c : List UInt8) :
    pwGreater t v c = decide (cmpTyped t v c > 0) := by
  cases t <;> simp [pwTracked] at ht
  · simp [pwGreater, cmpTyped, cmpI32, sgn3_gt_zero]; intro h; omega
  · simp [pwGreater, cmpTyped, cmpI64, sgn3_gt_zero]; intro h; omega
  · simp only [pwGreater, cmpTyped]; exact pwGreater_float _ _ _
  · simp only [pwGreater, cmpTyped]; exact pwGreater_float _ _ _

def mmOfW (w : PageW) : MM := ⟨w.hasMinMax, w.minV, w.maxV⟩

theorem mmOfW_step (t : PType) (ht : pwTracked t = true) (w : PageW) (v : List UInt8) :
    mmOfW (pwStepWith pwLess pwGreater t w v) = (mmOfW w).step t v := by
  unfold pwStepWith MM.step mmOfW
  cases h : w.hasMinMax
  · simp
  · simp [pwLess_eq t ht, pwGreater_eq t ht, cmpTyped_eq]

/-- the statistics-related state of a page writer after the batches described by `rows` -/
structure PInv (t : PType) (md : Int) (w : PageW) (rows : List Row) : Prop where
  ty : w.type = t
  maxDef : w.maxDef = md
  nulls : w.numNulls = (countNulls rows : Int)
  tracked : pwTracked t = true → MM.Inv t (mmOfW w) rows
  untracked : pwTracked t = false → w.hasMinMax = false

theorem pwStep_frame (t : PType) (w : PageW) (v : List UInt8) :
    (pwStepWith pwLess pwGreater t w v).type = w.type ∧ (pwStepWith pwLess pwGreater t w v).maxDef = w.maxDef ∧
    (pwStepWith pwLess pwGreater t w v).numNulls = w.numNulls ∧
    (pwStepWith pwLess pwGreater t w v).numValues = w.numValues := by
  unfold pwStepWith; split <;> simp

theorem pwFold_frame (t : PType) (vals : List (List UInt8)) (w : PageW) :
    (vals.foldl (pwStepWith pwLess pwGreater t) w).type = w.type ∧
    (vals.foldl (pwStepWith pwLess pwGreater t) w).maxDef = w.maxDef ∧
    (vals.foldl (pwStepWith pwLess pwGreater t) w).numNulls = w.numNulls := by
  induction vals generalizing w with
  | nil => simp
  | cons v r ih =>
    have h1 := pwStep_frame t w v
    have h2 := ih (pwStepWith pwLess pwGreater t w v)
    simp only [List.foldl_cons]
    exact ⟨h2.1.trans h1.1, h2.2.1.trans h1.2.1, h2.2.2.trans h1.2.2.1⟩

theorem pwFold_mm (t : PType) (ht : pwTracked t = true) (vals : List (List UInt8)) (w : PageW) (rows : List Row)
    (h : MM.Inv t (mmOfW w) rows) :
    MM.Inv t (mmOfW (vals.foldl (pwStepWith pwLess pwGreater t) w)) (rows ++ vals.map some) := by
  induction vals generalizing w rows with
  | nil => simpa using h
  | cons v r ih =>
    have h1 : MM.Inv t (mmOfW (pwStepWith pwLess pwGreater t w v)) (rows ++ [some v]) := by
      rw [mmOfW_step t ht]; exact MM.step_inv t _ rows v h
    have := ih _ _ h1
    simpa [List.append_assoc] using this

theorem MM.inv_congr (t : PType) (s : MM) (rows rows' : List Row)
    (hm : ∀ x : List UInt8, some x ∈ rows' ↔ some x ∈ rows) (h : MM.Inv t s rows) : MM.Inv t s rows' := by
  refine ⟨fun hh x => by rw [hm]; exact h.1 hh x, fun hh => ?_⟩
  obtain ⟨a, b, c⟩ := h.2 hh
  exact ⟨(hm _).2 a, (hm _).2 b, fun x hx => c x ((hm x).1 hx)⟩

theorem slices_length (vs : Nat) (n : Nat) (d : List UInt8) : (slices vs n d).length = n := by
  induction n generalizing d with
  | zero => rfl
  | succ n ih => simp [slices, ih]

/-- rows placed by definition levels: the values are exactly the dense values, the nulls the rest -/
theorem placeRows_spec (md : Int) (defs : List Int) (vals : List (List UInt8))
    (h : vals.length = (defs.filter (· = md)).length) :
    (∀ x, some x ∈ placeRows md defs vals ↔ x ∈ vals) ∧
    (countNulls (placeRows md defs vals) : Int) = (defs.length : Int) - (vals.length : Int) := by
  induction defs generalizing vals with
  | nil =>
    have : vals = [] := by simpa using h
    subst this; simp [placeRows, countNulls]
  | cons d ds ih =>
    by_cases hd : d = md
    · cases vals with
      | nil => simp [hd] at h
      | cons v vs =>
        have h' : vs.length = (ds.filter (· = md)).length := by simpa [hd] using h
        obtain ⟨i1, i2⟩ := ih vs h'
        refine ⟨fun x => ?_, ?_⟩
        · simp [placeRows, hd, i1]
        · simp only [placeRows, hd, if_true, countNulls, List.length_cons]; omega
    · have h' : vals.length = (ds.filter (· = md)).length := by simpa [hd] using h
      obtain ⟨i1, i2⟩ := ih vals h'
      refine ⟨fun x => ?_, ?_⟩
      · simp [placeRows, hd, i1]
      · simp only [placeRows, hd, if_false, countNulls, List.length_cons]; omega

theorem pinv_add (t : PType) (md : Int) (w : PageW) (rows : List Row) (bt : Batch) (hw : WfBatch bt)
    (h : PInv t md w rows) : PInv t md (pwAdd w bt).2 (rows ++ batchRows w bt) := by
  -- membership of values and the number of nulls in the rows of this batch
  have hrows : (∀ x, some x ∈ batchRows w bt ↔ x ∈ slices (pwWidth w.type) (numNonNull w bt) bt.data) ∧
      (countNulls (batchRows w bt) : Int) = (bt.numValues : Int) - (numNonNull w bt : Int) := by
    unfold batchRows numNonNull
    cases hd : bt.defs with
    | none => simp [countNulls_map_some]
    | some d =>
      by_cases hm : w.maxDef > 0
      · simp only [hm, if_true]
        have hl : d.length = bt.numValues := by simpa [WfBatch, hd] using hw
        have hs := placeRows_spec w.maxDef (d.take bt.numValues)
          (slices (pwWidth w.type) ((d.take bt.numValues).filter (· = w.maxDef)).length bt.data)
          (by rw [slices_length])
        refine ⟨hs.1, ?_⟩
        rw [hs.2, slices_length, List.length_take, hl]; simp
      · simp [hm, countNulls_map_some]
  unfold pwAdd pwAddWith
  refine ⟨?_, ?_, ?_, ?_, ?_⟩
  · show (if pwTracked w.type then _ else w).type = t
    split
    · rw [(pwFold_frame _ _ _).1]; exact h.ty
    · exact h.ty
  · show (if pwTracked w.type then _ else w).maxDef = md
    split
    · rw [(pwFold_frame _ _ _).2.1]; exact h.maxDef
    · exact h.maxDef
  · show w.numNulls + _ = _
    rw [countNulls_append, h.nulls]
    have := hrows.2
    omega
  · intro ht
    have ht' : pwTracked w.type = true := by rw [h.ty]; exact ht
    show MM.Inv t (mmOfW { (if pwTracked w.type then _ else w) with numNulls := _, numValues := _ }) _
    simp only [ht', if_true]
    have hf := pwFold_mm t ht (slices (pwWidth w.type) (numNonNull w bt) bt.data) w rows (h.tracked ht)
    rw [h.ty] at hf ⊢
    refine MM.inv_congr t _ _ _ (fun x => ?_) hf
    simp only [List.mem_append, List.mem_map]
    rw [hrows.1, h.ty]
    constructor
    · rintro (hx | hx)
      · exact Or.inl hx
      · exact Or.inr ⟨x, hx, rfl⟩
    · rintro (hx | ⟨y, hy, hxy⟩)
      · exact Or.inl hx
      · right; cases hxy; exact hy
  · intro ht
    have ht' : pwTracked w.type = false := by rw [h.ty]; exact ht
    show (if pwTracked w.type then _ else w).hasMinMax = false
    simp only [ht']
    exact h.untracked ht

theorem pinv_run (t : PType) (md : Int) (bs : List Batch) (w : PageW) (rows : List Row)
    (hw : ∀ b ∈ bs, WfBatch b) (h : PInv t md w rows) : PInv t md (pwRun w bs) (rows ++ pwRows w bs) := by
  induction bs generalizing w rows with
  | nil => simpa [pwRun, pwRows] using h
  | cons b r ih =>
    have h1 := pinv_add t md w rows b (hw b (by simp)) h
    have := ih (pwAdd w b).2 (rows ++ batchRows w b) (fun b' hb' => hw b' (by simp [hb'])) h1
    simpa [pwRun, pwRows, List.append_assoc] using this

theorem pinv_stats (t : PType) (md : Int) (w : PageW) (rows : List Row) (h : PInv t md w rows) :
    TrueBounds t (pwStats w) rows := by
  unfold pwStats pwGetStatistics
  cases hh : w.hasMinMax
  · simp [TrueBounds]
  · have ht : pwTracked t = true := by
      cases hp : pwTracked t
      · have := h.untracked hp; rw [hh] at this; exact absurd this (by decide)
      · rfl
    obtain ⟨_, _, hall⟩ := (h.tracked ht).2 hh
    simp only [if_true]
    refine ⟨?_, ?_, ?_⟩
    · intro lo hlo x hx; cases hlo; exact (hall x hx).1
    · intro hi hhi x hx; cases hhi; exact (hall x hx).2
    · intro n hn; cases hn; exact h.nulls

end Carquet.Proofs.StatsPage
