import Carquet.Proofs.SpecFileFooter
import Carquet.Proofs.SpecFileExtract
/-
Footer layer in full generality: the metadata structures are extracted back from the Thrift values
the reference writer builds for them WITH unknown fields at every level (footer, schema elements,
row groups, column chunks, column metadata) and with chunk statistics in ColumnMetaData.
-/
namespace Carquet.Proofs.SpecFile
open Carquet.Spec Carquet.Spec.File Carquet.Spec.Thrift Carquet.Spec.ParquetThrift

/-! ### column metadata with statistics -/

theorem columnMetaOf_cm (m : ColumnMeta) (stats : Option Fields) :
    columnMetaOf (cmFields m ++ optField 12 TVal.struct stats) = .ok m := by
  obtain ⟨pt, encs, path, codec, nv, tu, tc, dpo, dict⟩ := m
  unfold columnMetaOf cmFields
  cases dict <;> cases stats <;>
    simp only [optField, List.append_nil, List.cons_append, List.nil_append] <;>
    rw [checkStruct_of _ _ rfl rfl] <;>
    simp [bind, Except.bind, pure, Except.pure, natField, optNatField, getInt, getList, field?, intOf, intsOf_map, binsOf_map,
      natCast_not_neg]

/-- what the footer says about one column chunk -/
structure CcDesc where
  off : Nat
  m : ColumnMeta
  stats : Option Fields
  metaExtra : Fields
  chunkExtra : Fields

def CcDesc.fields (d : CcDesc) : Fields :=
  withExtras [(2, .i64 d.off), (3, .struct (withExtras (cmFields d.m ++ optField 12 TVal.struct d.stats) d.metaExtra))]
    d.chunkExtra

structure CcDesc.Ok (d : CcDesc) : Prop where
  metaExtra : extrasOk columnMetaData d.metaExtra = true
  chunkExtra : extrasOk columnChunk d.chunkExtra = true

theorem columnChunkOf_desc (d : CcDesc) (h : d.Ok) : columnChunkOf d.fields = .ok d.m := by
  unfold CcDesc.fields
  rw [columnChunkOf_we _ _ h.chunkExtra]
  unfold columnChunkOf
  rw [checkStruct_of _ _ rfl rfl]
  simp [bind, Except.bind, getStruct, field?, columnMetaOf_we _ _ h.metaExtra, columnMetaOf_cm]

theorem columnChunksOf_descs : ∀ (ds : List CcDesc), (∀ d ∈ ds, d.Ok) →
    columnChunksOf (ds.map CcDesc.fields) = .ok (ds.map (·.m))
  | [], _ => rfl
  | d :: r, h => by
    have ih := columnChunksOf_descs r (fun x hx => h x (by simp [hx]))
    simp [columnChunksOf, columnChunkOf_desc d (h d (by simp)), ih, bind, Except.bind, pure, Except.pure]

/-! ### row groups -/

structure RgDesc2 where
  chunks : List CcDesc
  totalByteSize : Nat
  numRows : Nat
  extra : Fields

def RgDesc2.fields (g : RgDesc2) : Fields :=
  withExtras [(1, .list .struct (g.chunks.map (fun d => TVal.struct d.fields))), (2, .i64 g.totalByteSize), (3, .i64 g.numRows)]
    g.extra

def RgDesc2.meta' (g : RgDesc2) : RowGroupMeta := ⟨g.chunks.map (·.m), g.totalByteSize, g.numRows⟩

structure RgDesc2.Ok (g : RgDesc2) : Prop where
  extra : extrasOk rowGroup g.extra = true
  chunks : ∀ d ∈ g.chunks, d.Ok

theorem rowGroupOf_desc (g : RgDesc2) (h : g.Ok) : rowGroupOf g.fields = .ok g.meta' := by
  unfold RgDesc2.fields
  rw [rowGroupOf_we _ _ h.extra]
  unfold rowGroupOf
  rw [checkStruct_of _ _ rfl rfl]
  have h1 := structsOf_map "RowGroup.columns" CcDesc.fields g.chunks
  simp [bind, Except.bind, pure, Except.pure, getList, field?, h1, columnChunksOf_descs g.chunks h.chunks, natField, getInt,
    intOf, natCast_not_neg, RgDesc2.meta']

theorem rowGroupsOf_descs : ∀ (gs : List RgDesc2), (∀ g ∈ gs, g.Ok) →
    rowGroupsOf (gs.map RgDesc2.fields) = .ok (gs.map RgDesc2.meta')
  | [], _ => rfl
  | g :: r, h => by
    have ih := rowGroupsOf_descs r (fun x hx => h x (by simp [hx]))
    simp [rowGroupsOf, rowGroupOf_desc g (h g (by simp)), ih, bind, Except.bind, pure, Except.pure]

/-! ### schema elements and the file -/

theorem schemaElementTV_eq_we (e : Schema.Element) (se : Fields) :
    schemaElementTV e se = .struct (withExtras (seFields e) se) := rfl

theorem schemaElementsOf_map_we (se : Fields) (hse : extrasOk schemaElement se = true) : ∀ (es : List Schema.Element),
    schemaElementsOf (es.map (fun e => withExtras (seFields e) se)) = .ok es
  | [] => rfl
  | e :: r => by
    have ih := schemaElementsOf_map_we se hse r
    simp [schemaElementsOf, schemaElementOf_we _ _ hse, schemaElementOf_seFields, ih, bind, Except.bind, pure, Except.pure]

/-- the footer value the reference writer builds, as a field list -/
def fmFields2 (version : Int) (schema : List Schema.Element) (se : Fields) (numRows : Nat) (gs : List RgDesc2)
    (createdBy : Option Bytes) (extra : Fields) : Fields :=
  withExtras
    ([(1, .i32 version), (2, .list .struct (schema.map (fun e => TVal.struct (withExtras (seFields e) se)))), (3, .i64 numRows),
      (4, .list .struct (gs.map (fun g => TVal.struct g.fields)))] ++ optField 6 .binary createdBy) extra

/-- **footer value → metadata structures**, unknown fields everywhere -/
theorem fileMetaOf_fmFields2 (version : Int) (schema : List Schema.Element) (se : Fields) (numRows : Nat) (gs : List RgDesc2)
    (createdBy : Option Bytes) (extra : Fields) (hx : extrasOk fileMetaData extra = true)
    (hse : extrasOk schemaElement se = true) (hgs : ∀ g ∈ gs, g.Ok) :
    fileMetaOf (fmFields2 version schema se numRows gs createdBy extra) =
      .ok ⟨version, schema, numRows, gs.map RgDesc2.meta'⟩ := by
  unfold fmFields2
  rw [fileMetaOf_we _ _ hx]
  unfold fileMetaOf
  have h1 := structsOf_map "FileMetaData.schema" (fun e => withExtras (seFields e) se) schema
  have h2 := structsOf_map "FileMetaData.row_groups" RgDesc2.fields gs
  cases createdBy <;>
    simp only [optField, List.append_nil] <;>
    rw [checkStruct_of _ _ rfl rfl] <;>
    simp [bind, Except.bind, pure, Except.pure, getList, field?, h1, h2, schemaElementsOf_map_we se hse, rowGroupsOf_descs gs hgs,
      natField, getInt, intOf, natCast_not_neg]

/-! ### the announced uncompressed sizes (page headers carry them as i32) -/

theorem chunkUsizeOk_desc (d : CcDesc) (h : d.Ok) (hu : chunkUsizeOk (.struct d.fields) = true) :
    d.m.totalUncompressed < 2 ^ 31 := by
  unfold chunkUsizeOk CcDesc.fields at hu
  simp only at hu
  rw [getStruct_we h.chunkExtra _ 3 (by decide)] at hu
  simp only [getStruct, field?, List.find?_cons] at hu
  simp only [show ((2 : Int) == 3) = false from rfl, show ((3 : Int) == 3) = true from rfl, Option.map_some] at hu
  rw [getInt_we h.metaExtra _ 6 (by decide)] at hu
  simp [cmFields, getInt, field?, intOf] at hu
  omega

theorem rgUsizeOk_withExtras (cols : List TVal) (tb nr : Nat) (extra : Fields) (hx : extrasOk rowGroup extra = true)
    (hu : rgUsizeOk (rowGroupTV cols tb nr extra) = true) : ∀ c ∈ cols, chunkUsizeOk c = true := by
  unfold rgUsizeOk rowGroupTV at hu
  simp only at hu
  rw [getList_we hx _ 1 (by decide)] at hu
  simp [getList, field?] at hu
  exact hu

theorem footerUsizeOk_withExtras (version : Int) (schema : List TVal) (numRows : Nat) (rgs : List TVal)
    (createdBy : Option Bytes) (extra : Fields) (hx : extrasOk fileMetaData extra = true)
    (hu : footerUsizeOk (fileMetaTV version schema numRows rgs createdBy extra) = true) : ∀ g ∈ rgs, rgUsizeOk g = true := by
  unfold footerUsizeOk fileMetaTV at hu
  simp only at hu
  rw [getList_we hx _ 4 (by decide)] at hu
  simp [getList, field?] at hu
  exact hu

end Carquet.Proofs.SpecFile
