import Carquet.Spec.Order
/-
Order facts about the Spec comparisons: every `keyCmp t` and the statistics order `tcmp t` is a
total preorder presented as a three-way comparison (`GoodCmp`: antisymmetric under swap,
transitive).  Everything later (builder invariant, pruning soundness) is derived from these two
laws only.
-/
namespace Carquet.Proofs.StatsOrder
open Carquet.Spec.Order

/-- A three-way comparison of a total preorder. -/
structure GoodCmp {α : Type} (c : α → α → Ordering) : Prop where
  swap : ∀ a b, c b a = (c a b).swap
  trans : ∀ a b d, c a b ≠ .gt → c b d ≠ .gt → c a d ≠ .gt

namespace GoodCmp
variable {α : Type} {c : α → α → Ordering}

theorem refl (h : GoodCmp c) (a : α) : c a a = .eq := by
  have := h.swap a a
  cases hc : c a a <;> rw [hc] at this <;> simp [Ordering.swap] at this ⊢

theorem gt_iff_lt (h : GoodCmp c) (a b : α) : c a b = .gt ↔ c b a = .lt := by
  rw [h.swap a b]; cases c a b <;> simp [Ordering.swap]

theorem lt_iff_gt (h : GoodCmp c) (a b : α) : c a b = .lt ↔ c b a = .gt := by
  rw [h.swap a b]; cases c a b <;> simp [Ordering.swap]

theorem eq_comm (h : GoodCmp c) (a b : α) : c a b = .eq ↔ c b a = .eq := by
  rw [h.swap a b]; cases c a b <;> simp [Ordering.swap]

/-- `a < b ≤ d → a < d` -/
theorem lt_of_lt_of_le (h : GoodCmp c) {a b d : α} (h1 : c a b = .lt) (h2 : c b d ≠ .gt) : c a d = .lt := by
  have hle : c a d ≠ .gt := h.trans a b d (by rw [h1]; decide) h2
  cases hc : c a d with
  | lt => rfl
  | gt => exact absurd hc hle
  | eq =>
    -- then d ≤ a, so b ≤ a, contradicting a < b
    have hda : c d a ≠ .gt := by rw [(h.eq_comm a d).1 hc]; decide
    have hba : c b a ≠ .gt := h.trans b d a h2 hda
    have : c b a = .gt := (h.lt_iff_gt a b).1 h1
    exact absurd this hba

/-- `a ≤ b < d → a < d` -/
theorem lt_of_le_of_lt (h : GoodCmp c) {a b d : α} (h1 : c a b ≠ .gt) (h2 : c b d = .lt) : c a d = .lt := by
  have hle : c a d ≠ .gt := h.trans a b d h1 (by rw [h2]; decide)
  cases hc : c a d with
  | lt => rfl
  | gt => exact absurd hc hle
  | eq =>
    have hda : c d a ≠ .gt := by rw [(h.eq_comm a d).1 hc]; decide
    have hdb : c d b ≠ .gt := h.trans d a b hda h1
    have : c d b = .gt := (h.lt_iff_gt b d).1 h2
    exact absurd this hdb

/-- `a ≤ b` and `b ≤ a` give `eq` -/
theorem eq_of_le_of_ge (h : GoodCmp c) {a b : α} (h1 : c a b ≠ .gt) (h2 : c b a ≠ .gt) : c a b = .eq := by
  cases hc : c a b with
  | eq => rfl
  | gt => exact absurd hc h1
  | lt => exact absurd ((h.lt_iff_gt a b).1 hc) h2

end GoodCmp

/-! ### comparisons through a key -/

theorem cmpInt_good {α : Type} (k : α → Int) : GoodCmp (fun a b => cmpInt (k a) (k b)) where
  swap a b := by
    simp only [cmpInt]
    by_cases h1 : k a < k b <;> by_cases h2 : k b < k a <;> simp [h1, h2, Ordering.swap] <;> omega
  trans a b d := by
    simp only [cmpInt]
    by_cases h1 : k a < k b <;> by_cases h2 : k b < k a <;> by_cases h3 : k b < k d <;> by_cases h4 : k d < k b <;>
      by_cases h5 : k a < k d <;> by_cases h6 : k d < k a <;> simp [h1, h2, h3, h4, h5, h6] <;> omega

theorem cmpNat_eq_cmpInt (a b : Nat) : cmpNat a b = cmpInt (a : Int) (b : Int) := by
  simp only [cmpNat, cmpInt]
  by_cases h1 : a < b <;> by_cases h2 : b < a <;> simp [h1, h2] <;> try omega

theorem cmpNat_good {α : Type} (k : α → Nat) : GoodCmp (fun a b => cmpNat (k a) (k b)) := by
  have := cmpInt_good (fun a => (k a : Int))
  simpa only [cmpNat_eq_cmpInt] using this

theorem cmpSigned_eq (w a b : Nat) :
    cmpSigned w a b = cmpInt (BitVec.ofNat w a).toInt (BitVec.ofNat w b).toInt := by
  simp only [cmpSigned, cmpInt, BitVec.slt_iff_toInt_lt]

theorem cmpSigned_good {α : Type} (w : Nat) (k : α → Nat) : GoodCmp (fun a b => cmpSigned w (k a) (k b)) := by
  have := cmpInt_good (fun a => (BitVec.ofNat w (k a)).toInt)
  simpa only [cmpSigned_eq] using this

/-! ### lexicographic bytes -/

theorem u8_lt_asymm {a b : UInt8} (h : a < b) : ¬ b < a := by
  simp only [UInt8.lt_iff_toNat_lt] at *; omega

theorem u8_eq_of_not_lt {a b : UInt8} (h1 : ¬ a < b) (h2 : ¬ b < a) : a = b := by
  apply UInt8.toNat_inj.1
  simp only [UInt8.lt_iff_toNat_lt] at *; omega

theorem blex_swap : ∀ a b : List UInt8, blex b a = (blex a b).swap
  | [], [] => rfl
  | [], _ :: _ => rfl
  | _ :: _, [] => rfl
  | x :: xs, y :: ys => by
    simp only [blex]
    by_cases h1 : x < y
    · have := u8_lt_asymm h1; simp [h1, this, Ordering.swap]
    · by_cases h2 : y < x
      · simp [h1, h2, Ordering.swap]
      · simp [h1, h2, blex_swap xs ys]

theorem blex_trans : ∀ a b d : List UInt8, blex a b ≠ .gt → blex b d ≠ .gt → blex a d ≠ .gt
  | [], [], _ => by intro _ h; exact h
  | [], _ :: _, [] => by intro _ h; simp [blex] at h
  | [], _ :: _, _ :: _ => by intro _ _; simp [blex]
  | _ :: _, [], _ => by intro h; simp [blex] at h
  | x :: xs, y :: ys, [] => by intro _ h; simp [blex] at h
  | x :: xs, y :: ys, z :: zs => by
    simp only [blex]
    intro h1 h2
    by_cases hxy : x < y
    · by_cases hyz : y < z
      · have : x < z := by simp only [UInt8.lt_iff_toNat_lt] at *; omega
        simp [this]
      · by_cases hzy : z < y
        · simp [hyz, hzy] at h2
        · have := u8_eq_of_not_lt hyz hzy; subst this; simp [hxy]
    · by_cases hyx : y < x
      · simp [hxy, hyx] at h1
      · have := u8_eq_of_not_lt hxy hyx; subst this
        simp only [hxy, if_false] at h1
        by_cases hyz : x < z
        · simp [hyz]
        · by_cases hzy : z < x
          · simp [hyz, hzy] at h2
          · simp only [hyz, hzy, if_false] at h2 ⊢
            exact blex_trans xs ys zs h1 h2

theorem blex_good : GoodCmp blex := ⟨blex_swap, blex_trans⟩

/-! ### every type's comparison, and the statistics order -/

theorem keyCmp_good (t : PType) : GoodCmp (keyCmp t) := by
  cases t
  · exact cmpNat_good (fun a => uval 1 a)
  · exact cmpSigned_good 32 leNat
  · exact cmpSigned_good 64 leNat
  · exact cmpNat_good (fun a => uval 12 a)
  · exact cmpInt_good (fun a => fval f32 (uval 4 a))
  · exact cmpInt_good (fun a => fval f64 (uval 8 a))
  · exact blex_good
  · exact blex_good

theorem tcmp_good (t : PType) : GoodCmp (tcmp t) where
  swap a b := by
    simp only [tcmp]
    cases ha : isNaN t a <;> cases hb : isNaN t b <;> simp [Ordering.swap]
    exact (keyCmp_good t).swap a b
  trans a b d := by
    simp only [tcmp]
    cases ha : isNaN t a <;> cases hb : isNaN t b <;> cases hd : isNaN t d <;> simp
    exact (keyCmp_good t).trans a b d

/-- only FLOAT and DOUBLE have NaNs -/
theorem isNaN_false_of (t : PType) (h : t ≠ .float ∧ t ≠ .double) (a : List UInt8) : isNaN t a = false := by
  cases t <;> simp_all [isNaN]

theorem tcmp_of_not_nan {t : PType} {a b : List UInt8} (ha : isNaN t a = false) (hb : isNaN t b = false) :
    tcmp t a b = keyCmp t a b := by simp [tcmp, ha, hb]

theorem cmpT_of_not_nan {t : PType} {a b : List UInt8} (ha : isNaN t a = false) (hb : isNaN t b = false) :
    cmpT t a b = some (keyCmp t a b) := by simp [cmpT, ha, hb]

theorem tle_refl (t : PType) (a : List UInt8) : tle t a a := by
  unfold tle; rw [(tcmp_good t).refl]; decide

theorem tle_trans {t : PType} {a b d : List UInt8} (h1 : tle t a b) (h2 : tle t b d) : tle t a d :=
  (tcmp_good t).trans a b d h1 h2

theorem tle_total (t : PType) (a b : List UInt8) : tle t a b ∨ tle t b a := by
  unfold tle; rw [(tcmp_good t).swap a b]; cases tcmp t a b <;> simp [Ordering.swap]

end Carquet.Proofs.StatsOrder
