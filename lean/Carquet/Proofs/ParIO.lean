import Carquet.Proofs.Par
/-
C07: the non-interference conditions for the three I/O disciplines (shared-read-only actions,
atomic seek+read sections on a shared stream, one private stream per worker), and what a column
reader obtains from its page loads.
-/
namespace Carquet.Proofs.Par
open Carquet.Impl.Par

theorem mem_getD_mem {α : Type} {ls : List (List α)} {w : Nat} {a : α} (h : a ∈ ls.getD w []) :
    ∃ l ∈ ls, a ∈ l := by
  simp only [List.getD_eq_getElem?_getD] at h
  cases hw : ls[w]? with
  | none => simp [hw] at h
  | some l => simp [hw] at h; exact ⟨l, List.mem_of_getElem? hw, h⟩

/-! ### shared-read-only actions -/

theorem exec_sh_of_readonly (s : List (Worker × Action))
    (hro : ∀ e ∈ s, ∀ sh p, (runSP e.2.prims sh p).1 = sh) (st : State) :
    (exec s st).sh = st.sh := by
  induction s generalizing st with
  | nil => rfl
  | cons e s ih =>
    cases e with
    | mk w a =>
      rw [exec_cons, ih (fun e he => hro e (List.mem_cons_of_mem _ he))]
      simpa using hro (w, a) (List.mem_cons_self ..) st.sh (st.pr w)

theorem ownDet_of_readonly (w : Worker) (a : Action) :
    OwnDet (fun _ sh => sh) w a := by
  intro sh sh' p h
  cases h
  exact ⟨rfl, rfl⟩

theorem othersKept_of_readonly (w : Worker) (a : Action)
    (hro : ∀ sh p, (runSP a.prims sh p).1 = sh) : OthersKept (fun _ sh => sh) w a := by
  intro w' _ sh p
  exact hro sh p

/-! ### atomic sections on a shared stream; view = the immutable bytes -/

theorem reads_det (f : Nat) (rs : List Prim) (hr : rs.all (Prim.isReadOf f) = true)
    (sh sh' : Shared) (p : Priv) (hf : sh.file = sh'.file) (hp : sh.filePos f = sh'.filePos f) :
    (runSP rs sh p).2 = (runSP rs sh' p).2 := by
  induction rs generalizing sh sh' p with
  | nil => rfl
  | cons r rs ih =>
    simp only [List.all_cons, Bool.and_eq_true] at hr
    cases r with
    | read g n =>
      have hg : g = f := by simpa [Prim.isReadOf] using hr.1
      subst hg
      simp only [runSP, stepPrim]
      rw [hf, hp]
      apply ih hr.2
      · rfl
      · simp [setPos]
    | seek _ _ => simp [Prim.isReadOf] at hr
    | load _ _ => simp [Prim.isReadOf] at hr
    | initCell _ _ => simp [Prim.isReadOf] at hr
    | setFlag => simp [Prim.isReadOf] at hr
    | useTable => simp [Prim.isReadOf] at hr

theorem ownDet_of_atomicIO (w : Worker) (a : Action) (ha : a.atomicIO = true) :
    OwnDet (fun _ sh => sh.file) w a := by
  intro sh sh' p hf
  refine ⟨?_, by simp only [runSP_file]; exact hf⟩
  cases a with
  | prim q =>
    cases q with
    | load o n => simp only [Action.prims, runSP, stepPrim]; rw [show sh.file = sh'.file from hf]
    | seek _ _ => simp [Action.atomicIO] at ha
    | read _ _ => simp [Action.atomicIO] at ha
    | initCell _ _ => simp [Action.atomicIO] at ha
    | setFlag => simp [Action.atomicIO] at ha
    | useTable => simp [Action.atomicIO] at ha
  | crit ps =>
    cases ps with
    | nil => simp [Action.atomicIO] at ha
    | cons q rest =>
      cases q with
      | seek f o =>
        simp only [Action.atomicIO] at ha
        simp only [Action.prims, runSP, stepPrim]
        exact reads_det f rest ha _ _ p hf (by simp [setPos])
      | read _ _ => simp [Action.atomicIO] at ha
      | load _ _ => simp [Action.atomicIO] at ha
      | initCell _ _ => simp [Action.atomicIO] at ha
      | setFlag => simp [Action.atomicIO] at ha
      | useTable => simp [Action.atomicIO] at ha

theorem othersKept_file (w : Worker) (a : Action) : OthersKept (fun _ sh => sh.file) w a := by
  intro w' _ sh p
  exact runSP_file _ _ _

/-! ### one private stream per worker; view w = (bytes, position of stream w) -/

def streamView (w : Worker) (sh : Shared) : List UInt8 × Nat := (sh.file, sh.filePos w)

theorem onStream_det (f : Nat) (ps : List Prim) (hs : ps.all (Prim.onStream f) = true)
    (sh sh' : Shared) (p : Priv) (hf : sh.file = sh'.file) (hp : sh.filePos f = sh'.filePos f) :
    (runSP ps sh p).2 = (runSP ps sh' p).2 ∧
    (runSP ps sh p).1.filePos f = (runSP ps sh' p).1.filePos f := by
  induction ps generalizing sh sh' p with
  | nil => exact ⟨rfl, hp⟩
  | cons q ps ih =>
    simp only [List.all_cons, Bool.and_eq_true] at hs
    cases q with
    | seek g o =>
      have hg : g = f := by simpa [Prim.onStream] using hs.1
      subst hg
      simp only [runSP, stepPrim]
      exact ih hs.2 _ _ p hf (by simp [setPos])
    | read g n =>
      have hg : g = f := by simpa [Prim.onStream] using hs.1
      subst hg
      simp only [runSP, stepPrim]
      rw [hf, hp]
      exact ih hs.2 _ _ _ rfl (by simp [setPos])
    | load o n =>
      simp only [runSP, stepPrim]
      rw [hf]
      exact ih hs.2 _ _ _ hf hp
    | initCell _ _ => simp [Prim.onStream] at hs
    | setFlag => simp [Prim.onStream] at hs
    | useTable => simp [Prim.onStream] at hs

theorem onStream_keeps (f g : Nat) (hfg : g ≠ f) (ps : List Prim) (hs : ps.all (Prim.onStream f) = true)
    (sh : Shared) (p : Priv) : (runSP ps sh p).1.filePos g = sh.filePos g := by
  induction ps generalizing sh p with
  | nil => rfl
  | cons q ps ih =>
    simp only [List.all_cons, Bool.and_eq_true] at hs
    cases q with
    | seek k o =>
      have hk : k = f := by simpa [Prim.onStream] using hs.1
      subst hk
      simp only [runSP, stepPrim]
      rw [ih hs.2]; simp [setPos, hfg]
    | read k n =>
      have hk : k = f := by simpa [Prim.onStream] using hs.1
      subst hk
      simp only [runSP, stepPrim]
      rw [ih hs.2]; simp [setPos, hfg]
    | load o n => simp only [runSP, stepPrim]; rw [ih hs.2]
    | initCell _ _ => simp [Prim.onStream] at hs
    | setFlag => simp [Prim.onStream] at hs
    | useTable => simp [Prim.onStream] at hs

theorem ownDet_of_onStream (w : Worker) (a : Action) (ha : a.onStream w = true) :
    OwnDet streamView w a := by
  intro sh sh' p hv
  simp only [streamView, Prod.mk.injEq] at hv
  have := onStream_det w a.prims ha sh sh' p hv.1 hv.2
  refine ⟨this.1, ?_⟩
  simp only [streamView, Prod.mk.injEq, runSP_file]
  exact ⟨hv.1, this.2⟩

theorem othersKept_of_onStream (w : Worker) (a : Action) (ha : a.onStream w = true) :
    OthersKept streamView w a := by
  intro w' hw sh p
  simp only [streamView, Prod.mk.injEq, runSP_file, true_and]
  exact onStream_keeps w w' hw a.prims ha sh p

/-! ### what the page loads deliver -/

theorem solo_chunkMmap (w : Worker) (pages : List (Nat × Nat × Nat)) (st : State) :
    (exec (solo w (chunkMmap pages)) st).pr w = st.pr w ++ chunkBytes st.sh.file pages ∧
    (exec (solo w (chunkMmap pages)) st).sh = st.sh := by
  induction pages generalizing st with
  | nil => simp [chunkMmap, chunkBytes, solo]
  | cons pg pages ih =>
    have e : solo w (chunkMmap (pg :: pages)) =
        (w, Action.prim (.load pg.1 256)) :: (w, Action.prim (.load (pg.1 + pg.2.1) pg.2.2)) ::
          solo w (chunkMmap pages) := by
      simp [solo, chunkMmap, pageLoadMmap]
    rw [e, exec_cons, exec_cons]
    have h := ih ((st.run w (Action.prim (.load pg.1 256)).prims).run w
      (Action.prim (.load (pg.1 + pg.2.1) pg.2.2)).prims)
    refine ⟨?_, ?_⟩
    · rw [h.1]
      simp [Action.prims, runSP, stepPrim, chunkBytes, List.append_assoc]
    · rw [h.2]
      simp [Action.prims, runSP, stepPrim]

theorem solo_chunkFread (w f : Nat) (pages : List (Nat × Nat × Nat)) (st : State) :
    (exec (solo w (chunkFread f pages)) st).pr w = st.pr w ++ chunkBytes st.sh.file pages ∧
    (exec (solo w (chunkFread f pages)) st).sh.file = st.sh.file := by
  induction pages generalizing st with
  | nil => simp [chunkFread, chunkBytes, solo]
  | cons pg pages ih =>
    have e : solo w (chunkFread f (pg :: pages)) =
        (w, Action.crit [.seek f pg.1, .read f 256]) ::
        (w, Action.crit [.seek f (pg.1 + pg.2.1), .read f pg.2.2]) ::
          solo w (chunkFread f pages) := by
      simp [solo, chunkFread, pageLoadFread]
    rw [e, exec_cons, exec_cons]
    have h := ih ((st.run w (Action.crit [.seek f pg.1, .read f 256]).prims).run w
      (Action.crit [.seek f (pg.1 + pg.2.1), .read f pg.2.2]).prims)
    refine ⟨?_, ?_⟩
    · rw [h.1]
      simp [Action.prims, runSP, stepPrim, chunkBytes, List.append_assoc, setPos]
    · rw [h.2]
      simp [Action.prims, runSP, stepPrim]

theorem atomicIO_chunkFread (f : Nat) (pages : List (Nat × Nat × Nat)) :
    ∀ a ∈ chunkFread f pages, a.atomicIO = true := by
  intro a ha
  simp only [chunkFread, List.mem_flatMap, pageLoadFread] at ha
  obtain ⟨pg, _, ha⟩ := ha
  simp at ha
  rcases ha with rfl | rfl <;> simp [Action.atomicIO, Prim.isReadOf]

theorem atomicIO_chunkMmap (pages : List (Nat × Nat × Nat)) :
    ∀ a ∈ chunkMmap pages, a.atomicIO = true := by
  intro a ha
  simp only [chunkMmap, List.mem_flatMap, pageLoadMmap] at ha
  obtain ⟨pg, _, ha⟩ := ha
  simp at ha
  rcases ha with rfl | rfl <;> simp [Action.atomicIO]

theorem readonly_chunkMmap (pages : List (Nat × Nat × Nat)) :
    ∀ a ∈ chunkMmap pages, ∀ sh p, (runSP a.prims sh p).1 = sh := by
  intro a ha sh p
  simp only [chunkMmap, List.mem_flatMap, pageLoadMmap] at ha
  obtain ⟨pg, _, ha⟩ := ha
  simp at ha
  rcases ha with rfl | rfl <;> simp [Action.prims, runSP, stepPrim]

end Carquet.Proofs.Par
