import Carquet.Proofs.BitIOWriter
import Carquet.Proofs.BitPackSpec
/-
Writer followed by reader (C11), and both against the Spec's raw bit packing (C12).
-/
namespace Carquet.Proofs.BitIO
open Carquet.Impl.BitIO Carquet.Impl.Bitpack Carquet.Proofs.NatBits Carquet.Proofs.BitpackImpl

theorem noFlush_of_not_mem : ∀ (ops : List WOp), WOp.flush ∉ ops → NoFlush ops := by
  intro ops
  induction ops with
  | nil => intro _; trivial
  | cons op ops ih =>
    intro h
    have h1 : WOp.flush ∉ ops := fun hm => h (List.mem_cons_of_mem _ hm)
    cases op with
    | flush => exact absurd (List.mem_cons_self) h
    | bit b => exact ih h1
    | bits v n => exact ih h1
    | bits64 v n => exact ih h1

theorem cf_low (w v : Nat) (fs : List (Nat × Nat)) : concatFields ((w, v) :: fs) % 2 ^ w = v % 2 ^ w := by
  simp only [concatFields]
  rw [Nat.add_mul_mod_self_left, Nat.mod_mod]

theorem cf_high (w v : Nat) (fs : List (Nat × Nat)) : concatFields ((w, v) :: fs) >>> w = concatFields fs := by
  simp only [concatFields]
  rw [shr_eq, Nat.add_mul_div_left _ _ (Nat.two_pow_pos w),
    Nat.div_eq_of_lt (Nat.mod_lt _ (Nat.two_pow_pos w)), Nat.zero_add]

/-- the abstract reader, asked for the fields a history wrote, returns them -/
theorem arun_fields : ∀ (ops : List WOp) (A : Nat), NoFlush ops → totalBits ops ≤ A →
    arun (concatFields (fieldsOf ops), A) (readsOf ops) = expectOf ops := by
  intro ops
  induction ops with
  | nil => intro A _ _; rfl
  | cons op ops ih =>
    intro A hn hA
    cases op with
    | flush => exact absurd hn (by simp [NoFlush])
    | bit b =>
      simp only [totalBits, fieldsOf, List.map_cons, List.sum_cons] at hA
      have hA0 : A ≠ 0 := by omega
      simp only [fieldsOf, readsOf, expectOf, arun, astep, hA0, if_false]
      have h1 := cf_low 1 (b % 2) (fieldsOf ops)
      have h2 := cf_high 1 (b % 2) (fieldsOf ops)
      rw [Nat.pow_one] at h1
      rw [h1, h2, Nat.mod_mod, ih (A - 1) hn (by simp only [totalBits]; omega)]
    | bits v n =>
      simp only [totalBits, fieldsOf, List.map_cons, List.sum_cons] at hA
      simp only [fieldsOf, readsOf, expectOf, arun, astep]
      rw [cf_low, cf_high, Nat.mod_mod, ih _ hn (by simp only [totalBits]; omega)]
    | bits64 v n =>
      simp only [totalBits, fieldsOf, List.map_cons, List.sum_cons] at hA
      simp only [fieldsOf, readsOf, expectOf, arun, astep]
      rw [cf_low, cf_high, Nat.mod_mod, ih _ hn (by simp only [totalBits]; omega)]

/-- **round trip**: writes, one flush, enough capacity — the matching reads return what was written -/
theorem roundtrip (cap : Nat) (ops : List WOp) (hn : NoFlush ops) (hcap : (totalBits ops + 7) / 8 ≤ cap) :
    (flush (wrun (Writer.init cap) ops)).out = leBytes ((totalBits ops + 7) / 8) (concatFields (fieldsOf ops)) ∧
    (rrun (Reader.init (flush (wrun (Writer.init cap) ops)).out) (readsOf ops)).1 = expectOf ops := by
  obtain ⟨hout, _⟩ := flush_wrun cap ops hn
  have hfull : (flush (wrun (Writer.init cap) ops)).out =
      leBytes ((totalBits ops + 7) / 8) (concatFields (fieldsOf ops)) := by
    rw [hout, List.take_of_length_le (by rw [leBytes_length]; exact hcap)]
  refine ⟨hfull, ?_⟩
  rw [hfull]
  obtain ⟨r1, _⟩ := rrun_spec (readsOf ops) (Reader.init (leBytes ((totalBits ops + 7) / 8) (concatFields (fieldsOf ops))))
    (RInv_init _)
  rw [r1, stream_init, avail_init, leNat_leBytes, leBytes_length]
  have hlt := concatFields_lt (fieldsOf ops)
  have hmod : concatFields (fieldsOf ops) % 2 ^ (8 * ((totalBits ops + 7) / 8)) = concatFields (fieldsOf ops) :=
    mod_two_pow_of_lt hlt (by unfold totalBits widthSum at *; omega)
  rw [hmod]
  exact arun_fields ops _ hn (by omega)

/-! ### uniform width = the Spec's raw bit packing -/

theorem fields_uniform (w : Nat) (hw : w ≤ 32) (vals : List Nat) :
    concatFields (fieldsOf (vals.map (fun v => WOp.bits v w))) = concat w vals ∧
    totalBits (vals.map (fun v => WOp.bits v w)) = vals.length * w ∧
    NoFlush (vals.map (fun v => WOp.bits v w)) := by
  induction vals with
  | nil => exact ⟨rfl, by simp [totalBits, fieldsOf], trivial⟩
  | cons v vs ih =>
    obtain ⟨a, b, c⟩ := ih
    have hm : min w 32 = w := Nat.min_eq_left hw
    refine ⟨?_, ?_, c⟩
    · simp only [List.map_cons, fieldsOf, concatFields, concat, hm, a, Nat.mod_mod]
    · simp only [totalBits, List.map_cons, fieldsOf, List.sum_cons, hm, List.length_cons] at b ⊢
      rw [b, Nat.add_mul]; omega

/-- reading `n` values of `w ≤ 32` bits on the abstract machine: the fields of the stream -/
theorem arun_uniform (w : Nat) : ∀ (n S A : Nat),
    arun (S, A) (List.replicate n (ROp.bits w)) = (List.range n).map (fun i => RObs.val (nth (min w 32) S i)) := by
  intro n
  induction n with
  | zero => intro S A; rfl
  | succ n ih =>
    intro S A
    rw [List.replicate_succ, List.range_succ_eq_map, List.map_cons, List.map_map]
    simp only [arun, astep]
    rw [ih]
    congr 1
    apply List.map_congr_left
    intro i _
    simp only [Function.comp, nth, shr_shr]
    rw [show min w 32 + min w 32 * i = min w 32 * (i + 1) by rw [Nat.mul_add]; omega]

end Carquet.Proofs.BitIO
