import Carquet.Impl.ErrorApi
/-
Helper lemmas for Properties/C04/Error.lean (model of src/core/error.c).
-/
namespace Carquet.Proofs.ErrorApi
open Carquet.Impl.ErrorApi

theorem store_length (dst : Bytes) (pos : Nat) (w : Bytes) (h : pos + w.length ≤ dst.length) :
    (store dst pos w).length = dst.length := by
  simp only [store, List.length_append, List.length_take, List.length_drop]
  omega

theorem mem_store (dst : Bytes) (pos : Nat) (w : Bytes) (x : UInt8) (h : x ∈ w) : x ∈ store dst pos w := by
  simp only [store, List.mem_append]
  exact Or.inl (Or.inr h)

theorem std_contract : Engine.std.Contract := by
  refine ⟨?_, ?_, ?_⟩
  · intro n text
    simp only [Engine.std]
    split
    · simp
    · simp only [List.length_append, List.length_take, List.length_singleton]; omega
  · intro n text hn
    refine ⟨text.take (n - 1), ?_⟩
    simp only [Engine.std]
    rw [if_neg (by omega)]
  · intro text
    simp [Engine.std]

/-- the fuel of `decNatF` is never what stops it once it is at least the number -/
theorem decNatF_fuel : ∀ (f g n : Nat), n ≤ f → n ≤ g → decNatF f n = decNatF g n := by
  intro f
  induction f with
  | zero =>
    intro g n hf _
    have : n = 0 := by omega
    subst this
    cases g <;> simp [decNatF]
  | succ f ih =>
    intro g n hf hg
    cases g with
    | zero =>
      have : n = 0 := by omega
      subst this; simp [decNatF]
    | succ g =>
      simp only [decNatF]
      split
      · rfl
      · rw [ih g (n / 10) (by omega) (by omega)]

/-- the defining equation of decimal printing -/
theorem decNat_unfold (n : Nat) :
    decNat n = if n < 10 then [UInt8.ofNat (48 + n)] else decNat (n / 10) ++ [UInt8.ofNat (48 + n % 10)] := by
  unfold decNat
  cases n with
  | zero => simp [decNatF]
  | succ n =>
    simp only [decNatF]
    split
    · rfl
    · rw [decNatF_fuel n ((n + 1) / 10) ((n + 1) / 10) (by omega) (Nat.le_refl _)]

/-- a `switch` returns one of its `return` expressions -/
theorem lookup_cases {α : Type} (tbl : List (Int × α)) (d : α) (v : Int) :
    lookup tbl d v = d ∨ ∃ p ∈ tbl, p.1 = v ∧ lookup tbl d v = p.2 := by
  unfold lookup
  cases h : tbl.find? (fun p => p.1 == v) with
  | none => exact Or.inl rfl
  | some p =>
    refine Or.inr ⟨p, List.mem_of_find?_eq_some h, ?_, rfl⟩
    have := List.find?_some h
    simpa using this

theorem lookup_default {α : Type} (tbl : List (Int × α)) (d : α) (v : Int) (h : v ∉ tbl.map (·.1)) :
    lookup tbl d v = d := by
  rcases lookup_cases tbl d v with h1 | ⟨p, hp, hv, _⟩
  · exact h1
  · exact absurd (List.mem_map.mpr ⟨p, hp, hv⟩) h

/-- a property of every entry and of the default holds of every result -/
theorem lookup_all {α : Type} (P : α → Bool) (tbl : List (Int × α)) (d : α) (hd : P d = true)
    (ht : tbl.all (fun p => P p.2) = true) (v : Int) : P (lookup tbl d v) = true := by
  rcases lookup_cases tbl d v with h1 | ⟨p, hp, _, h2⟩
  · rw [h1]; exact hd
  · rw [h2]; exact (List.all_eq_true.mp ht) p hp

/-! ### the message array -/

def MsgOk (m : Bytes) : Prop := m.length = cap ∧ (0 : UInt8) ∈ m

theorem cap_pos : 0 < cap := by decide

theorem setMessage_ok (E : Engine) (hE : E.Contract) (old : Bytes) (hold : old.length = cap) (text : Option Bytes) :
    MsgOk (setMessage E old text) := by
  cases text with
  | none =>
    refine ⟨?_, mem_store _ _ _ _ (by simp)⟩
    simp only [setMessage]
    rw [store_length _ _ _ (by have := cap_pos; simp; omega)]; exact hold
  | some t =>
    obtain ⟨pre, hpre⟩ := hE.terminated cap t cap_pos
    have hb := hE.bounded cap t
    refine ⟨?_, ?_⟩
    · simp only [setMessage]
      rw [store_length _ _ _ (by omega)]; exact hold
    · simp only [setMessage]
      exact mem_store _ _ _ _ (by rw [hpre]; simp)

theorem store_zero_full (dst w : Bytes) (h : w.length = dst.length) : store dst 0 w = w := by
  simp [store, h]

/-- with the standard's rule the array holds exactly the text cut to `cap - 1` bytes -/
theorem cstr_setMessage_std (old : Bytes) (t : Bytes) (ht : (0 : UInt8) ∉ t) :
    cstr (setMessage Engine.std old (some t)) = t.take (cap - 1) := by
  have hc : cap ≠ 0 := by have := cap_pos; omega
  simp only [setMessage, Engine.std, if_neg hc, store, List.take_zero, List.nil_append, cstr, List.append_assoc]
  rw [List.takeWhile_append_of_pos]
  · simp
  · intro x hx
    have : x ∈ t := List.mem_of_mem_take hx
    simp only [ne_eq, decide_eq_true_eq]
    intro h0; exact ht (h0 ▸ this)

/-! ### carquet_error_format -/

/-- state of the output between two pieces -/
structure Good (size : Nat) (st : FmtOut) : Prop where
  len : st.buf.length = size
  lo : 0 ≤ st.ret
  hi : st.ret < size
  writes : ∀ w ∈ st.writes, w.1 + w.2 ≤ size
  nul : (0 : UInt8) ∈ st.buf

theorem piece_good (E : Engine) (hE : E.Contract) (size : Nat) (st : FmtOut) (text : Bytes) (h : Good size st) :
    Good size (piece E size st text) := by
  have hlo := h.lo; have hhi := h.hi
  have hn : st.ret.toNat < size := by omega
  have hb := hE.bounded (size - st.ret.toNat) text
  obtain ⟨pre, hpre⟩ := hE.terminated (size - st.ret.toNat) text (by omega)
  refine ⟨?_, ?_, ?_, ?_, ?_⟩
  · simp only [piece]
    rw [store_length _ _ _ (by rw [h.len]; omega)]; exact h.len
  · simp only [piece]; split <;> omega
  · simp only [piece]; split <;> omega
  · intro w hw
    simp only [piece, List.mem_append, List.mem_singleton] at hw
    rcases hw with hw | hw
    · exact h.writes w hw
    · subst hw; simp only; omega
  · simp only [piece]
    exact mem_store _ _ _ _ (by rw [hpre]; simp)

theorem pieceIf_good (c : Bool) (E : Engine) (hE : E.Contract) (size : Nat) (st : FmtOut) (text : Bytes)
    (h : Good size st) : Good size (pieceIf c E size st text) := by
  unfold pieceIf; split
  · exact piece_good E hE size st text h
  · exact h

theorem hintPiece_good (E : Engine) (hE : E.Contract) (size : Nat) (code : Int) (st : FmtOut)
    (h : Good size st) : Good size (hintPiece E size code st) := by
  unfold hintPiece; split
  · exact piece_good E hE size st _ h
  · exact h

theorem tailPieces_good (E : Engine) (hE : E.Contract) (size : Nat) (e : ErrorT) (st : FmtOut)
    (h : Good size st) : Good size (tailPieces E size e st) := by
  unfold tailPieces
  exact hintPiece_good E hE size _ _ (pieceIf_good _ E hE size _ _ (pieceIf_good _ E hE size _ _
    (pieceIf_good _ E hE size _ _ h)))

theorem headOut_facts (E : Engine) (hE : E.Contract) (b : Bytes) (size : Nat) (hb : b.length = size) (hs : 0 < size)
    (e : ErrorT) :
    (headOut E b size e).buf.length = size ∧ (∀ w ∈ (headOut E b size e).writes, w.1 + w.2 ≤ size) ∧
    (0 : UInt8) ∈ (headOut E b size e).buf := by
  have hbd := hE.bounded size (headText e)
  obtain ⟨pre, hpre⟩ := hE.terminated size (headText e) hs
  refine ⟨?_, ?_, ?_⟩
  · simp only [headOut]; rw [store_length _ _ _ (by omega)]; exact hb
  · intro w hw
    simp only [headOut, List.mem_singleton] at hw
    subst hw; simp only; omega
  · simp only [headOut]; exact mem_store _ _ _ _ (by rw [hpre]; simp)

/-! ### the length rule under the standard's engine -/

theorem store_store_tail (b acc t : Bytes) :
    store (store b 0 (acc ++ [0])) acc.length (t ++ [0]) = store b 0 (acc ++ t ++ [0]) := by
  simp only [store, List.take_zero, List.nil_append, Nat.zero_add, List.length_append, List.length_singleton,
    List.append_assoc]
  rw [List.take_append_of_le_length (Nat.le_refl _), List.take_length]
  congr 1
  congr 1
  congr 1
  rw [List.drop_append, List.drop_of_length_le (by omega), List.nil_append]
  have : acc.length + (t.length + 1) - acc.length = t.length + 1 := by omega
  rw [this, List.drop_append, List.drop_of_length_le (by simp), List.nil_append, List.drop_drop]
  congr 1
  simp; omega

/-- a piece that fits behind what has been written so far extends it -/
theorem piece_std_fits (size : Nat) (b acc t : Bytes) (ws : List (Nat × Nat))
    (h : acc.length + t.length < size) :
    (piece Engine.std size ⟨store b 0 (acc ++ [0]), acc.length, ws⟩ t).buf = store b 0 (acc ++ t ++ [0]) ∧
    (piece Engine.std size ⟨store b 0 (acc ++ [0]), acc.length, ws⟩ t).ret = ((acc ++ t).length : Nat) := by
  have h1 : size - acc.length ≠ 0 := by omega
  have h2 : t.take (size - acc.length - 1) = t := List.take_of_length_le (by omega)
  simp only [piece, Engine.std, Int.toNat_natCast, if_neg h1, h2]
  refine ⟨store_store_tail b acc t, ?_⟩
  by_cases ht : t.length = 0
  · have : t = [] := List.length_eq_zero_iff.mp ht
    subst this; simp
  · rw [if_pos ⟨by omega, by omega⟩]
    simp only [List.length_append]; omega

/-- the buffer holds `acc` and its NUL at the front, the rest is untouched; `ret` = |acc| -/
def Shape (b acc : Bytes) (st : FmtOut) : Prop := st.buf = store b 0 (acc ++ [0]) ∧ st.ret = (acc.length : Nat)

theorem piece_shape (size : Nat) (b acc t : Bytes) (st : FmtOut) (hs : Shape b acc st)
    (h : acc.length + t.length < size) : Shape b (acc ++ t) (piece Engine.std size st t) := by
  obtain ⟨buf, ret, ws⟩ := st
  obtain ⟨h1, h2⟩ := hs
  simp only at h1 h2
  subst h1 h2
  exact piece_std_fits size b acc t ws h

def optText (c : Bool) (t : Bytes) : Bytes := if c then t else []

theorem pieceIf_shape (c : Bool) (size : Nat) (b acc t : Bytes) (st : FmtOut) (hs : Shape b acc st)
    (h : acc.length + (optText c t).length < size) : Shape b (acc ++ optText c t) (pieceIf c Engine.std size st t) := by
  cases c with
  | false => simpa [pieceIf, optText] using hs
  | true => simpa [pieceIf, optText] using piece_shape size b acc t st hs (by simpa [optText] using h)

theorem hintPiece_shape (size : Nat) (code : Int) (b acc : Bytes) (st : FmtOut) (hs : Shape b acc st)
    (h : acc.length + ((hintText code).getD []).length < size) :
    Shape b (acc ++ (hintText code).getD []) (hintPiece Engine.std size code st) := by
  unfold hintPiece
  cases hh : hintText code with
  | none => simpa using hs
  | some t => simpa using piece_shape size b acc t st hs (by simpa [hh] using h)

/-- the complete text `carquet_error_format` is meant to produce -/
def fullText (e : ErrorT) : Bytes :=
  headText e ++ optText (decide (e.offset ≥ 0)) (expand (fmtAt 1) [.i e.offset]) ++
    optText (decide (e.rowGroupIndex ≥ 0)) (expand (fmtAt 2) [.i e.rowGroupIndex]) ++
    optText (decide (e.columnIndex ≥ 0)) (expand (fmtAt 3) [.i e.columnIndex]) ++ (hintText e.code).getD []

theorem tailPieces_shape (size : Nat) (e : ErrorT) (b : Bytes) (st : FmtOut) (hs : Shape b (headText e) st)
    (h : (fullText e).length < size) : Shape b (fullText e) (tailPieces Engine.std size e st) := by
  unfold tailPieces fullText
  simp only [fullText, List.length_append] at h
  refine hintPiece_shape size e.code b _ _ ?_ (by simp only [List.length_append]; omega)
  refine pieceIf_shape _ size b _ _ _ ?_ (by simp only [List.length_append]; omega)
  refine pieceIf_shape _ size b _ _ _ ?_ (by simp only [List.length_append]; omega)
  exact pieceIf_shape _ size b _ _ _ hs (by omega)

theorem headOut_std (b : Bytes) (size : Nat) (hs : 0 < size) (e : ErrorT) :
    (headOut Engine.std b size e).buf = store b 0 ((headText e).take (size - 1) ++ [0]) ∧
    (headOut Engine.std b size e).ret = ((headText e).length : Nat) := by
  simp [headOut, Engine.std, Nat.ne_of_gt hs]

end Carquet.Proofs.ErrorApi
