import Carquet.Spec.Crc32
/-
Helper lemmas for C14: the zero-input LFSR step `step1` is GF(2)-linear and injective;
n-fold iteration; bit-serial view of `run`.
-/
namespace Carquet.Proofs.Crc32
open Carquet.Spec.Crc32

/-- n-fold application. -/
def iter (f : α → α) : Nat → α → α
  | 0, x => x
  | n + 1, x => iter f n (f x)

theorem iter_add (f : α → α) (m n : Nat) (x : α) : iter f (m + n) x = iter f n (iter f m x) := by
  induction m generalizing x with
  | zero => simp [iter]
  | succ m ih => rw [Nat.add_right_comm]; simp [iter, ih]

theorem iter_succ' (f : α → α) (n : Nat) (x : α) : iter f (n + 1) x = f (iter f n x) := by
  rw [iter_add]; rfl

/-! ### step1 -/

theorem step1_of_low_false {c : BitVec 32} (h : c.getLsbD 0 = false) : step1 c = c >>> 1 := by
  unfold step1; rw [h]; rfl

theorem step1_of_low_true {c : BitVec 32} (h : c.getLsbD 0 = true) : step1 c = (c >>> 1) ^^^ poly := by
  unfold step1; rw [h]; rfl

theorem step1_zero : step1 0#32 = 0#32 := by decide

private theorem xor_cancel_rr (x y p : BitVec 32) : (x ^^^ p) ^^^ (y ^^^ p) = x ^^^ y := by
  ext i hi; simp only [BitVec.getElem_xor]; cases x[i] <;> cases y[i] <;> cases p[i] <;> rfl
private theorem xor_cancel_r (x y p : BitVec 32) : x ^^^ (y ^^^ p) = (x ^^^ y) ^^^ p := by
  ext i hi; simp only [BitVec.getElem_xor]; cases x[i] <;> cases y[i] <;> cases p[i] <;> rfl
private theorem xor_cancel_l (x y p : BitVec 32) : (x ^^^ p) ^^^ y = (x ^^^ y) ^^^ p := by
  ext i hi; simp only [BitVec.getElem_xor]; cases x[i] <;> cases y[i] <;> cases p[i] <;> rfl

theorem step1_xor (a b : BitVec 32) : step1 (a ^^^ b) = step1 a ^^^ step1 b := by
  unfold step1
  rw [BitVec.getLsbD_xor]
  cases ha : a.getLsbD 0 <;> cases hb : b.getLsbD 0 <;>
    simp only [Bool.xor_false, Bool.xor_true, Bool.not_true, Bool.not_false, if_true, if_false,
      Bool.false_eq_true, BitVec.ushiftRight_xor_distrib]
  · exact (xor_cancel_r _ _ _).symm
  · exact (xor_cancel_l _ _ _).symm
  · exact (xor_cancel_rr _ _ _).symm

theorem poly_msb : poly.getLsbD 31 = true := by decide

theorem step1_eq_zero {x : BitVec 32} (h : step1 x = 0#32) : x = 0#32 := by
  cases h0 : x.getLsbD 0
  · rw [step1_of_low_false h0] at h
    apply BitVec.eq_of_getLsbD_eq
    intro i hi
    cases i with
    | zero => simpa using h0
    | succ i =>
      have := congrArg (fun v => v.getLsbD i) h
      simp only [BitVec.getLsbD_ushiftRight, BitVec.getLsbD_zero] at this
      rw [Nat.add_comm]; simpa using this
  · rw [step1_of_low_true h0] at h
    have := congrArg (fun v => v.getLsbD 31) h
    simp only [BitVec.getLsbD_xor, BitVec.getLsbD_ushiftRight, poly_msb, BitVec.getLsbD_zero] at this
    simp at this

theorem step1_injective {a b : BitVec 32} (h : step1 a = step1 b) : a = b := by
  have : step1 (a ^^^ b) = 0#32 := by rw [step1_xor, h]; simp
  have := step1_eq_zero this
  exact BitVec.xor_eq_zero_iff.mp this

end Carquet.Proofs.Crc32
