import Carquet.Spec.Delta
/-
Helper lemmas for the delta family: LSB-first bit strings, bit packing round trip.
-/
namespace Carquet.Spec.Delta

@[simp] theorem length_bitsOfNat (w n : Nat) : (bitsOfNat w n).length = w := by
  induction w generalizing n with
  | zero => rfl
  | succ w ih => simp [bitsOfNat, ih]

theorem natOfBits_bitsOfNat (w n : Nat) : natOfBits (bitsOfNat w n) = n % 2 ^ w := by
  induction w generalizing n with
  | zero => simp [bitsOfNat, natOfBits, Nat.mod_one]
  | succ w ih =>
    simp only [bitsOfNat, natOfBits, ih]
    rw [Nat.pow_succ, Nat.mul_comm (2 ^ w) 2, Nat.mod_mul]
    rcases Nat.mod_two_eq_zero_or_one n with h | h <;> simp [h] <;> omega

theorem natOfBits_lt (l : List Bool) : natOfBits l < 2 ^ l.length := by
  induction l with
  | nil => simp [natOfBits]
  | cons b bs ih =>
    simp only [natOfBits, List.length_cons, Nat.pow_succ]
    cases b <;> simp <;> omega

theorem bitsOfNat_natOfBits (w : Nat) (l : List Bool) (h : l.length ≤ w) :
    bitsOfNat w (natOfBits l) = l ++ List.replicate (w - l.length) false := by
  induction w generalizing l with
  | zero =>
    have : l = [] := List.eq_nil_of_length_eq_zero (by omega)
    subst this; rfl
  | succ w ih =>
    cases l with
    | nil =>
      simp only [natOfBits, bitsOfNat, List.length_nil, Nat.sub_zero, List.nil_append, List.replicate_succ]
      have := ih [] (by simp)
      simp only [natOfBits, List.length_nil, Nat.sub_zero, List.nil_append] at this
      simp [this]
    | cons b bs =>
      simp only [List.length_cons] at h
      have h' : bs.length ≤ w := by omega
      simp only [natOfBits, bitsOfNat, List.length_cons, List.cons_append]
      have e1 : ((if b = true then 1 else 0) + 2 * natOfBits bs) / 2 = natOfBits bs := by
        cases b <;> simp <;> omega
      have e2 : (((if b = true then 1 else 0) + 2 * natOfBits bs) % 2 == 1) = b := by
        cases b <;> simp <;> omega
      rw [e1, e2, ih bs h', Nat.add_sub_add_right]

@[simp] theorem length_bytesOfBits (n : Nat) (bits : List Bool) : (bytesOfBits n bits).length = n := by
  induction n generalizing bits with
  | zero => rfl
  | succ n ih => simp [bytesOfBits, ih]

theorem bitsOfBytes_cons (b : UInt8) (bs : List UInt8) :
    bitsOfBytes (b :: bs) = bitsOfNat 8 b.toNat ++ bitsOfBytes bs := by
  simp [bitsOfBytes]

theorem bitsOfBytes_append (a b : List UInt8) : bitsOfBytes (a ++ b) = bitsOfBytes a ++ bitsOfBytes b := by
  simp [bitsOfBytes]

@[simp] theorem length_bitsOfBytes (bs : List UInt8) : (bitsOfBytes bs).length = 8 * bs.length := by
  induction bs with
  | nil => rfl
  | cons b bs ih => rw [bitsOfBytes_cons]; simp [ih]; omega

theorem bitsOfBytes_bytesOfBits (n : Nat) (bits : List Bool) (h : bits.length ≤ 8 * n) :
    bitsOfBytes (bytesOfBits n bits) = bits ++ List.replicate (8 * n - bits.length) false := by
  induction n generalizing bits with
  | zero =>
    have : bits = [] := List.eq_nil_of_length_eq_zero (by omega)
    subst this; rfl
  | succ n ih =>
    simp only [bytesOfBits, bitsOfBytes_cons]
    have hlt : natOfBits (bits.take 8) < 256 := by
      have := natOfBits_lt (bits.take 8)
      have h8 : (bits.take 8).length ≤ 8 := by simp [List.length_take]; omega
      calc natOfBits (bits.take 8) < 2 ^ (bits.take 8).length := this
        _ ≤ 2 ^ 8 := Nat.pow_le_pow_right (by decide) h8
    have e : (UInt8.ofNat (natOfBits (bits.take 8))).toNat = natOfBits (bits.take 8) := by
      simp [UInt8.toNat_ofNat', Nat.mod_eq_of_lt hlt]
    rw [e, bitsOfNat_natOfBits 8 _ (by simp [List.length_take]; omega),
        ih (bits.drop 8) (by simp [List.length_drop]; omega)]
    simp only [List.length_take, List.length_drop]
    by_cases hb : 8 ≤ bits.length
    · rw [Nat.min_eq_left hb]
      simp only [Nat.sub_self, List.replicate_zero, List.append_nil]
      rw [← List.append_assoc, List.take_append_drop]
      congr 2; omega
    · have hb' : bits.length < 8 := by omega
      rw [Nat.min_eq_right (by omega)]
      have t : bits.take 8 = bits := List.take_of_length_le (by omega)
      have d : bits.drop 8 = [] := List.drop_eq_nil_of_le (by omega)
      rw [t, d]
      simp only [List.nil_append, List.append_assoc, List.replicate_append_replicate]
      congr 2; omega

theorem unpackBits_flatMap (w : Nat) (vals : List Nat) (extra : List Bool)
    (h : ∀ v ∈ vals, v < 2 ^ w) :
    unpackBits w vals.length (vals.flatMap (bitsOfNat w) ++ extra) = vals := by
  induction vals with
  | nil => rfl
  | cons v vs ih =>
    simp only [List.length_cons, unpackBits, List.flatMap_cons, List.append_assoc]
    rw [List.take_left' (length_bitsOfNat w v), List.drop_left' (length_bitsOfNat w v)]
    rw [natOfBits_bitsOfNat, Nat.mod_eq_of_lt (h v (by simp)), ih (fun x hx => h x (by simp [hx]))]

theorem unpackBits_flatMap_take (w : Nat) (vals : List Nat) (extra : List Bool) (k : Nat)
    (h : ∀ v ∈ vals, v < 2 ^ w) (hk : k ≤ vals.length) :
    unpackBits w k (vals.flatMap (bitsOfNat w) ++ extra) = vals.take k := by
  induction vals generalizing k with
  | nil =>
    have : k = 0 := by simpa using hk
    subst this; rfl
  | cons v vs ih =>
    cases k with
    | zero => rfl
    | succ k =>
      simp only [unpackBits, List.flatMap_cons, List.append_assoc, List.take_succ_cons]
      rw [List.take_left' (length_bitsOfNat w v), List.drop_left' (length_bitsOfNat w v)]
      rw [natOfBits_bitsOfNat, Nat.mod_eq_of_lt (h v (by simp)),
          ih k (fun x hx => h x (by simp [hx])) (by simpa using hk)]

theorem length_flatMap_bitsOfNat (w : Nat) (vals : List Nat) :
    (vals.flatMap (bitsOfNat w)).length = vals.length * w := by
  induction vals with
  | nil => simp
  | cons v vs ih => simp [List.flatMap_cons, ih, Nat.succ_mul]; omega

@[simp] theorem length_pack (w : Nat) (vals : List Nat) : (pack w vals).length = packedSize w vals.length := by
  simp [pack]

/-- bit-packing round trip, with arbitrary bytes following the packed values -/
theorem unpack_pack (w : Nat) (vals : List Nat) (tail : List UInt8) (h : ∀ v ∈ vals, v < 2 ^ w) :
    unpack w vals.length (pack w vals ++ tail) = vals := by
  unfold unpack pack
  rw [bitsOfBytes_append, bitsOfBytes_bytesOfBits _ _ (by
    rw [length_flatMap_bitsOfNat]; unfold packedSize; omega)]
  rw [List.append_assoc]
  exact unpackBits_flatMap w vals _ h

theorem unpack_take_pack (w : Nat) (vals : List Nat) (tail : List UInt8) (h : ∀ v ∈ vals, v < 2 ^ w) :
    unpack w vals.length ((pack w vals ++ tail).take (packedSize w vals.length)) = vals := by
  rw [List.take_left' (length_pack w vals)]
  have := unpack_pack w vals [] h
  simpa using this

/-- unpacking only the first `k` values -/
theorem unpack_take_pack_prefix (w : Nat) (vals : List Nat) (tail : List UInt8) (k : Nat)
    (h : ∀ v ∈ vals, v < 2 ^ w) (hk : k ≤ vals.length) :
    unpack w k ((pack w vals ++ tail).take (packedSize w vals.length)) = vals.take k := by
  rw [List.take_left' (length_pack w vals)]
  unfold unpack pack
  rw [bitsOfBytes_bytesOfBits _ _ (by rw [length_flatMap_bitsOfNat]; unfold packedSize; omega)]
  exact unpackBits_flatMap_take w vals _ k h hk

@[simp] theorem pack_zero (vals : List Nat) : pack 0 vals = [] := by
  simp [pack, packedSize, bytesOfBits]

end Carquet.Spec.Delta
