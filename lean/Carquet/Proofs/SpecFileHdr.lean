import Carquet.Proofs.SpecFileChain
import Carquet.Proofs.SpecFileExtract
import Carquet.Proofs.SpecFileCodec
/-
Page headers in full generality: data page header with any value-encoding tag, statistics and
unknown fields at all three levels; dictionary page header with `is_sorted` and unknown fields;
well-formedness of the header values from explicit size bounds; and the raw-page stage
(`readRawPage`: header in any form, stored size, CRC, decompression under any plan, uncompressed size).
-/
namespace Carquet.Proofs.SpecFile
open Carquet.Spec Carquet.Spec.File Carquet.Spec.Thrift Carquet.Spec.ParquetThrift

/-! ### extraction -/

theorem statsOf_statsTV_gen (s : StatsMeta) (se : Fields) (hse : extrasOk statistics se = true) :
    ∃ fs, statsTV s se = .struct fs ∧ statsOf fs = .ok s := by
  refine ⟨_, rfl, ?_⟩
  rw [statsOf_we _ _ hse]
  exact statsOf_statsTV s

theorem dataHdrOf_TV_gen (n : Nat) (enc : Int) (st : Option StatsMeta) (se me : Fields)
    (hse : extrasOk statistics se = true) (hme : extrasOk dataPageHeader me = true) :
    ∃ fs, dataHdrTV ⟨n, enc, 3, 3, st⟩ se me = .struct fs ∧ dataHdrOf fs = .ok ⟨n, enc, 3, 3, st⟩ := by
  refine ⟨_, rfl, ?_⟩
  rw [dataHdrOf_we _ _ hme]
  have hn : ¬ ((n : Int) < 0) := by omega
  unfold dataHdrOf
  cases st with
  | none =>
    simp only [optField, List.append_nil]
    rw [checkStruct_ok _ _ rfl rfl]
    simp [bind, Except.bind, pure, Except.pure, getInt, field?, intOf, getStruct, natField, hn]
  | some s =>
    obtain ⟨sfs, hs1, hs2⟩ := statsOf_statsTV_gen s se hse
    simp only [optField, hs1]
    rw [checkStruct_ok _ _ rfl rfl]
    simp [bind, Except.bind, pure, Except.pure, getInt, field?, intOf, getStruct, natField, hn, hs2]

theorem dictHdrOf_TV_gen (n : Nat) (enc : Int) (sorted : Option Bool) (me : Fields)
    (hme : extrasOk dictionaryPageHeader me = true) :
    ∃ fs, dictHdrTV ⟨n, enc⟩ sorted me = .struct fs ∧ dictHdrOf fs = .ok ⟨n, enc⟩ := by
  refine ⟨_, rfl, ?_⟩
  rw [dictHdrOf_we _ _ hme]
  have hn : ¬ ((n : Int) < 0) := by omega
  unfold dictHdrOf
  cases sorted <;>
    simp only [optField, List.append_nil] <;>
    rw [checkStruct_ok _ _ rfl rfl] <;>
    simp [bind, Except.bind, pure, Except.pure, getInt, field?, intOf, natField, hn]

/-- a data page header (type 0, member id 5) -/
theorem pageHdrOf_data (u c : Nat) (crc : Option Int) (dfs : Fields) (dh : DataHdr) (hd : dataHdrOf dfs = .ok dh)
    (extra : Fields) (hx : extrasOk pageHeader extra = true) :
    ∃ fs, pageHdrTV 0 u c crc 5 (.struct dfs) extra = .struct fs ∧
      pageHdrOf fs = .ok ⟨0, u, c, crc, some dh, none⟩ := by
  refine ⟨_, rfl, ?_⟩
  rw [pageHdrOf_we _ _ hx]
  have hu : ¬ ((u : Int) < 0) := by omega
  have hc : ¬ ((c : Int) < 0) := by omega
  unfold pageHdrOf
  cases crc with
  | none =>
    simp only [optField, List.append_nil, List.cons_append, List.nil_append]
    rw [checkStruct_ok _ _ rfl rfl]
    simp [bind, Except.bind, pure, Except.pure, getInt, field?, intOf, getStruct, hu, hc, hd]
  | some x =>
    simp only [optField, List.cons_append, List.nil_append]
    rw [checkStruct_ok _ _ rfl rfl]
    simp [bind, Except.bind, pure, Except.pure, getInt, field?, intOf, getStruct, hu, hc, hd]

/-- a dictionary page header (type 2, member id 7) -/
theorem pageHdrOf_dict (u c : Nat) (crc : Option Int) (kfs : Fields) (kh : DictHdr) (hd : dictHdrOf kfs = .ok kh)
    (extra : Fields) (hx : extrasOk pageHeader extra = true) :
    ∃ fs, pageHdrTV 2 u c crc 7 (.struct kfs) extra = .struct fs ∧
      pageHdrOf fs = .ok ⟨2, u, c, crc, none, some kh⟩ := by
  refine ⟨_, rfl, ?_⟩
  rw [pageHdrOf_we _ _ hx]
  have hu : ¬ ((u : Int) < 0) := by omega
  have hc : ¬ ((c : Int) < 0) := by omega
  unfold pageHdrOf
  cases crc with
  | none =>
    simp only [optField, List.append_nil, List.cons_append, List.nil_append]
    rw [checkStruct_ok _ _ rfl rfl]
    simp [bind, Except.bind, pure, Except.pure, getInt, field?, intOf, getStruct, hu, hc, hd]
  | some x =>
    simp only [optField, List.cons_append, List.nil_append]
    rw [checkStruct_ok _ _ rfl rfl]
    simp [bind, Except.bind, pure, Except.pure, getInt, field?, intOf, getStruct, hu, hc, hd]

/-- a header value in any form is parsed back, and parsing stops at the body -/
theorem parsePageHeader_of (F : ThriftForm) (fs : Fields) (h : PageHdr) (hwf : (TVal.struct fs).wf = true)
    (hp : pageHdrOf fs = .ok h) (rest : Bytes) :
    parsePageHeader (encodeValF F (.struct fs) ++ rest) = .ok (h, rest) := by
  have hd := decode_encodeValF F (.struct fs) hwf rest
  have hty : (TVal.struct fs).ty = .struct := rfl
  rw [hty] at hd
  unfold parsePageHeader
  rw [hd]
  simp only [hp]

/-! ### well-formedness -/

theorem statsTV_wf_gen (s : StatsMeta) (se : Fields) (h : StatsOk (some s)) (hse : wfFields se = true) :
    (statsTV s se).wf = true := by
  have h0 := statsTV_wf s h
  simp only [statsTV, TVal.wf, withExtras_nil] at h0 ⊢
  rw [wfFields_withExtras, h0, hse]; rfl

theorem dataHdrTV_wf (n : Nat) (enc : Int) (st : Option StatsMeta) (se me : Fields) (hn : n < 2 ^ 31)
    (he : inI32 enc) (hst : StatsOk st) (hse : wfFields se = true) (hme : wfFields me = true) :
    (dataHdrTV ⟨n, enc, 3, 3, st⟩ se me).wf = true := by
  have hn' : inI32 (n : Int) := by unfold inI32; omega
  have h3 : inI32 3 := by unfold inI32; omega
  simp only [dataHdrTV, TVal.wf]
  rw [wfFields_withExtras, hme, Bool.and_true]
  cases st with
  | none =>
    simp [optField, TVal.wf, wfFields, inI16, hn', he, h3]
  | some s =>
    have := statsTV_wf_gen s se hst hse
    simp [optField, TVal.wf, wfFields, inI16, hn', he, h3, this]

theorem dictHdrTV_wf (n : Nat) (enc : Int) (sorted : Option Bool) (me : Fields) (hn : n < 2 ^ 31)
    (he : inI32 enc) (hme : wfFields me = true) :
    (dictHdrTV ⟨n, enc⟩ sorted me).wf = true := by
  have hn' : inI32 (n : Int) := by unfold inI32; omega
  simp only [dictHdrTV, TVal.wf]
  rw [wfFields_withExtras, hme, Bool.and_true]
  cases sorted <;> simp [optField, TVal.wf, wfFields, inI16, hn', he]

theorem pageHdrTV_wf (ty : Int) (u c : Nat) (crc : Option Int) (mid : Int) (member : TVal) (extra : Fields)
    (hty : inI32 ty) (hu : u < 2 ^ 31) (hc : c < 2 ^ 31) (hcrc : ∀ x, crc = some x → inI32 x) (hmid : inI16 mid)
    (hm : member.wf = true) (hx : wfFields extra = true) :
    (pageHdrTV ty u c crc mid member extra).wf = true := by
  have hu' : inI32 (u : Int) := by unfold inI32; omega
  have hc' : inI32 (c : Int) := by unfold inI32; omega
  unfold inI16 at hmid
  simp only [pageHdrTV, TVal.wf]
  rw [wfFields_withExtras, hx, Bool.and_true]
  cases crc with
  | none => simp [optField, TVal.wf, wfFields, inI16, hu', hc', hty, hmid, hm]
  | some x =>
    have := hcrc x rfl
    simp [optField, TVal.wf, wfFields, inI16, hu', hc', hty, hmid, hm, this]

/-! ### the raw-page stage -/

/-- header (any form), stored size, checksum, decompression, uncompressed size — for a page whose
header value is `.struct fs` -/
theorem readRawPage_of (cfg : Config) (codec : Nat) (F : ThriftForm) (fs : Fields) (h : PageHdr) (withCrc : Bool)
    (body comp rest : Bytes)
    (hwf : (TVal.struct fs).wf = true) (hp : pageHdrOf fs = .ok h)
    (hty : h.type = 0 ∨ h.type = 2) (hco : h.compressed = comp.length) (hun : h.uncompressed = body.length)
    (hcrc : h.crc = if withCrc then some (crcField comp) else none)
    (hdec : decompress cfg.oracle codec comp body.length = .ok body) :
    readRawPage cfg codec (encodeValF F (.struct fs) ++ comp ++ rest) =
      .ok ⟨h, body, (encodeValF F (.struct fs)).length + comp.length, rest⟩ := by
  have hpp := parsePageHeader_of F fs h hwf hp (comp ++ rest)
  rw [List.append_assoc]
  unfold readRawPage
  simp only [hpp, bind, Except.bind, pure, Except.pure]
  have htake : (comp ++ rest).take comp.length = comp := List.take_left
  have hdrop : (comp ++ rest).drop comp.length = rest := List.drop_left
  have hlt : ¬ (comp.length + rest.length < comp.length) := by omega
  have h13 : ¬ (h.type = 1 ∨ h.type = 3) := by rcases hty with h0 | h0 <;> rw [h0] <;> decide
  have h02 : ¬ (h.type ≠ 0 ∧ h.type ≠ 2) := by rcases hty with h0 | h0 <;> rw [h0] <;> decide
  have hsize : (encodeValF F (.struct fs) ++ (comp ++ rest)).length - (comp ++ rest).length + comp.length =
      (encodeValF F (.struct fs)).length + comp.length := by
    simp only [List.length_append]; omega
  simp only [h13, h02, if_false, hco, hun, List.length_append, hlt, htake, hdrop, hcrc, hdec, ne_eq,
    not_true_eq_false]
  cases withCrc with
  | false => simp
  | true => simp [crcField_check comp]

end Carquet.Proofs.SpecFile
