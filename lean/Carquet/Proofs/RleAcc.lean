import Carquet.Impl.RleAcc
import Carquet.Proofs.RleDecoder
import Carquet.Proofs.BitpackImpl
/-
The access-reporting twins of Impl/RleAcc.lean: (1) they are the decoders (`*_fst`), (2) every access
they report lies between the decoder's position and the end of the input (`*_adv`), (3) the value
counts never exceed the requested counts, (4) the fuels of Impl/Rle.lean are not what stops the loops.
-/
namespace Carquet.Proofs.RleAcc
open Carquet.Impl Carquet.Impl.Rle

/-! ### 1. the twins are the decoders -/

theorem startNewRunAccF_fst (size : Nat) : ∀ (f : Nat) (d : Dec),
    (startNewRunAccF size f d).1 = startNewRunF f d := by
  intro f
  induction f with
  | zero => intro d; rfl
  | succ f ih =>
    intro d
    simp only [startNewRunAccF, startNewRunF]
    by_cases h0 : d.rest.length = 0
    · simp only [h0, if_true]
    · simp only [h0, if_false]
      cases hr : Varint.readVarintRle d.rest with
      | none => rfl
      | some p =>
        obtain ⟨h, rest⟩ := p
        simp only []
        split
        · split
          · rfl
          · split
            · exact ih _
            · rfl
        · split
          · exact ih _
          · rfl

theorem startNewRunAcc_fst (size : Nat) (d : Dec) : (startNewRunAcc size d).1 = startNewRun d :=
  startNewRunAccF_fst size _ d

theorem fillAcc_fst (size : Nat) (d : Dec) : (fillAcc size d).1 = fill d := by
  unfold fillAcc fill
  split
  · rfl
  · split <;> rfl

theorem ensureRunAcc_fst (size : Nat) (d : Dec) : (ensureRunAcc size d).1 = ensureRun d := by
  unfold ensureRunAcc ensureRun
  split
  · exact startNewRunAcc_fst size d
  · rfl

theorem ensureBufAcc_fst (size : Nat) (d : Dec) : (ensureBufAcc size d).1 = ensureBuf d := by
  unfold ensureBufAcc ensureBuf
  split
  · rfl
  · split
    · exact fillAcc_fst size d
    · rfl

theorem prepAcc_fst (size : Nat) (d : Dec) : (prepAcc size d).1 = prep d := by
  unfold prepAcc prep
  rw [ensureRunAcc_fst]
  split
  · exact ensureBufAcc_fst size _
  · rfl

theorem getAcc_fst (size : Nat) (d : Dec) : (getAcc size d).1 = Rle.get d := by
  unfold getAcc Rle.get
  rw [prepAcc_fst]
  split
  · rfl
  · split <;> rfl

theorem batchLoopAcc_fst (size : Nat) : ∀ (f : Nat) (d : Dec) (want : Nat),
    (batchLoopAcc size f d want).1 = batchLoop f d want := by
  intro f
  induction f with
  | zero => intro d want; rfl
  | succ f ih =>
    intro d want
    simp only [batchLoopAcc, batchLoop, prepAcc_fst]
    split
    · rfl
    · split
      · rfl
      · split
        · rfl
        · simp only [ih]

theorem skipLoopAcc_fst (size : Nat) : ∀ (f : Nat) (d : Dec) (want : Nat),
    (skipLoopAcc size f d want).1 = skipLoop f d want := by
  intro f
  induction f with
  | zero => intro d want; rfl
  | succ f ih =>
    intro d want
    simp only [skipLoopAcc, skipLoop, prepAcc_fst]
    split
    · rfl
    · split
      · rfl
      · split
        · rfl
        · simp only [ih]

theorem stepAcc_fst (size : Nat) (d : Dec) (op : Op) : (stepAcc size d op).1 = step d op := by
  cases op with
  | get => simp only [stepAcc, step, getAcc_fst]
  | getBatch k => simp only [stepAcc, step, getBatchAcc, getBatch, batchLoopAcc_fst]
  | skip k => simp only [stepAcc, step, skipAcc, skip, skipLoopAcc_fst]

theorem runOpsAcc_fst (size : Nat) : ∀ (ops : List Op) (d : Dec), (runOpsAcc size d ops).1 = runOps d ops := by
  intro ops
  induction ops with
  | nil => intro d; rfl
  | cons op ops ih =>
    intro d
    simp only [runOpsAcc, runOps, stepAcc_fst, ih]

theorem decodeAllAcc_fst (w : Nat) (bytes : List UInt8) (count : Nat) :
    (decodeAllAcc w bytes count).1.1 = decodeAll w bytes count := by
  unfold decodeAllAcc decodeAll getBatchAcc getBatch
  rw [batchLoopAcc_fst]

theorem levelsGroupsAcc_fst (size w : Nat) : ∀ (g : Nat) (rest : List UInt8) (want : Nat),
    (levelsGroupsAcc size w g rest want).1 = levelsGroups w g rest want := by
  intro g
  induction g with
  | zero => intro rest want; rfl
  | succ g ih =>
    intro rest want
    simp only [levelsGroupsAcc, levelsGroups]
    split
    · rfl
    · split
      · rfl
      · simp only [ih]

theorem levelsLoopAcc_fst (size w : Nat) : ∀ (f : Nat) (bs : List UInt8) (want : Nat),
    (levelsLoopAcc size w f bs want).1.1 = levelsLoop w f bs want := by
  intro f
  induction f with
  | zero => intro bs want; rfl
  | succ f ih =>
    intro bs want
    simp only [levelsLoopAcc, levelsLoop, levelsGroupsAcc_fst]
    split
    · rfl
    · split
      · rfl
      · split
        · split
          · rfl
          · split
            · exact ih _ _
            · simp only [ih]
        · split
          · exact ih _ _
          · split
            · rfl
            · simp only [ih]

theorem decodeLevelsAcc_fst (w : Nat) (bytes : List UInt8) (n : Nat) :
    (decodeLevelsAcc w bytes n).1.1 = decodeLevels w bytes n := by
  unfold decodeLevelsAcc decodeLevels
  split
  · exact levelsLoopAcc_fst _ _ _ _ _
  · rfl

theorem decodeLevelsPrefixedAcc_fst (w : Nat) (bytes : List UInt8) (n : Nat) :
    (decodeLevelsPrefixedAcc w bytes n).1 = decodeLevelsPrefixed w bytes n := by
  unfold decodeLevelsPrefixedAcc decodeLevelsPrefixed
  split
  · rfl
  · split
    · rfl
    · simp only [decodeLevelsAcc_fst]

/-! ### 2. every reported access lies between the decoder's position and the end of the input -/

/-- every access of the list lies in `[lo, size)` -/
def InB (size lo : Nat) (accs : List Acc) : Prop := ∀ a ∈ accs, lo ≤ a.off ∧ a.off + a.len ≤ size

theorem InB.nil (size lo : Nat) : InB size lo [] := fun _ h => by cases h

theorem InB.cons {size lo : Nat} {a : Acc} {l : List Acc} (h1 : lo ≤ a.off ∧ a.off + a.len ≤ size)
    (h2 : InB size lo l) : InB size lo (a :: l) := by
  intro b hb
  rcases List.mem_cons.mp hb with rfl | hb
  · exact h1
  · exact h2 b hb

theorem InB.mono {size lo lo' : Nat} {l : List Acc} (hle : lo ≤ lo') (h : InB size lo' l) : InB size lo l :=
  fun a ha => ⟨Nat.le_trans hle (h a ha).1, (h a ha).2⟩

theorem InB.append {size lo : Nat} {l1 l2 : List Acc} (h1 : InB size lo l1) (h2 : InB size lo l2) :
    InB size lo (l1 ++ l2) := by
  intro a ha
  rcases List.mem_append.mp ha with h | h
  · exact h1 a h
  · exact h2 a h

/-- from `d` to `d'` the decoder only moved forward, reading what `accs` lists -/
def Adv (size : Nat) (d d' : Dec) (accs : List Acc) : Prop :=
  d'.rest <:+ d.rest ∧ InB size (size - d.rest.length) accs

theorem Adv.refl (size : Nat) (d : Dec) : Adv size d d [] := ⟨List.suffix_refl _, InB.nil _ _⟩

theorem Adv.len {size : Nat} {d d' : Dec} {accs : List Acc} (h : Adv size d d' accs) :
    d'.rest.length ≤ d.rest.length := h.1.length_le

theorem Adv.trans {size : Nat} {d d1 d2 : Dec} {a1 a2 : List Acc} (h1 : Adv size d d1 a1) (h2 : Adv size d1 d2 a2) :
    Adv size d d2 (a1 ++ a2) :=
  ⟨h2.1.trans h1.1, h1.2.append (h2.2.mono (by have := h1.len; omega))⟩

theorem Adv.of_rest {size : Nat} {d d1 d2 : Dec} {a : List Acc} (h : Adv size d d1 a) (hr : d2.rest = d1.rest) :
    Adv size d d2 a := ⟨hr ▸ h.1, h.2⟩

theorem headerBytes_le : ∀ (f : Nat) (bs : List UInt8), headerBytes f bs ≤ bs.length := by
  intro f
  induction f with
  | zero => intro bs; simp [headerBytes]
  | succ f ih =>
    intro bs
    cases bs with
    | nil => simp [headerBytes]
    | cons b rest =>
      simp only [headerBytes, List.length_cons]
      split
      · omega
      · have := ih rest; omega

theorem headerLen_le (bs : List UInt8) : headerLen bs ≤ bs.length := headerBytes_le 5 bs

/-- a successful `read_varint` consumed exactly the bytes it examined -/
theorem readLoop_consumed (bits : Nat) : ∀ (f : Nat) (bs : List UInt8) (s r v : Nat) (rest : List UInt8),
    Varint.readLoop bits f s r bs = some (v, rest) →
    rest.length + headerBytes f bs = bs.length ∧ rest <:+ bs := by
  intro f
  induction f with
  | zero => intro bs s r v rest h; simp [Varint.readLoop] at h
  | succ f ih =>
    intro bs s r v rest h
    cases bs with
    | nil => simp [Varint.readLoop] at h
    | cons b tl =>
      simp only [Varint.readLoop] at h
      simp only [headerBytes, List.length_cons]
      split at h
      · rename_i hb
        simp only [Option.some.injEq, Prod.mk.injEq] at h
        obtain ⟨_, rfl⟩ := h
        simp only [hb, if_true]
        exact ⟨trivial, List.suffix_cons _ _⟩
      · rename_i hb
        simp only [hb, if_false]
        obtain ⟨h1, h2⟩ := ih tl _ _ v rest h
        exact ⟨by omega, h2.trans (List.suffix_cons _ _)⟩

theorem readVarintRle_consumed {bs rest : List UInt8} {v : Nat} (h : Varint.readVarintRle bs = some (v, rest)) :
    rest.length + headerLen bs = bs.length ∧ rest <:+ bs :=
  readLoop_consumed 32 5 bs 0 0 v rest h

/-- the header loop of `decode_levels` consumed exactly the bytes it examined -/
theorem readLoopNoFail_consumed : ∀ (f : Nat) (bs : List UInt8) (s r : Nat),
    (Varint.readLoopNoFail f s r bs).2.length + headerBytes f bs = bs.length ∧
    (Varint.readLoopNoFail f s r bs).2 <:+ bs := by
  intro f
  induction f with
  | zero => intro bs s r; simp [Varint.readLoopNoFail, headerBytes]
  | succ f ih =>
    intro bs s r
    cases bs with
    | nil => simp [Varint.readLoopNoFail, headerBytes]
    | cons b tl =>
      simp only [Varint.readLoopNoFail, headerBytes, List.length_cons]
      split
      · exact ⟨rfl, List.suffix_cons _ _⟩
      · obtain ⟨h1, h2⟩ := ih tl (s + 7) (r ||| (((b.toNat &&& 0x7F) <<< s) % 2 ^ 32))
        exact ⟨by omega, h2.trans (List.suffix_cons _ _)⟩

theorem readHeaderLevels_consumed (bs : List UInt8) :
    (Varint.readHeaderLevels bs).2.length + headerLen bs = bs.length ∧ (Varint.readHeaderLevels bs).2 <:+ bs :=
  readLoopNoFail_consumed 5 bs 0 0

theorem startNewRunAccF_adv (size : Nat) : ∀ (f : Nat) (d : Dec), d.rest.length ≤ size →
    Adv size d (startNewRunAccF size f d).1.2 (startNewRunAccF size f d).2 := by
  intro f
  induction f with
  | zero => intro d _; exact Adv.refl size d
  | succ f ih =>
    intro d hsz
    simp only [startNewRunAccF]
    by_cases h0 : d.rest.length = 0
    · simp only [h0, if_true]; exact Adv.refl size d
    · simp only [h0, if_false]
      have hhl := headerLen_le d.rest
      cases hr : Varint.readVarintRle d.rest with
      | none =>
        exact ⟨List.suffix_refl _, InB.cons ⟨Nat.le_refl _, by simp only; omega⟩ (InB.nil _ _)⟩
      | some p =>
        obtain ⟨h, rest⟩ := p
        obtain ⟨hc, hsuf⟩ := readVarintRle_consumed hr
        have hhdr : size - d.rest.length ≤ (⟨size - d.rest.length, headerLen d.rest⟩ : Acc).off ∧
            (⟨size - d.rest.length, headerLen d.rest⟩ : Acc).off + (⟨size - d.rest.length, headerLen d.rest⟩ : Acc).len ≤ size :=
          ⟨Nat.le_refl _, by simp only; omega⟩
        simp only []
        split
        · split
          · exact ⟨hsuf, InB.cons hhdr (InB.nil _ _)⟩
          · rename_i hvb
            have hval : size - d.rest.length ≤ (⟨size - rest.length, valueBytes d.width⟩ : Acc).off ∧
                (⟨size - rest.length, valueBytes d.width⟩ : Acc).off + (⟨size - rest.length, valueBytes d.width⟩ : Acc).len ≤ size :=
              ⟨by simp only; omega, by simp only; omega⟩
            have hdrop : rest.drop (valueBytes d.width) <:+ d.rest := (List.drop_suffix _ _).trans hsuf
            split
            · have hlen : (rest.drop (valueBytes d.width)).length ≤ size := by
                have := hdrop.length_le; omega
              have := ih { d with rest := rest.drop (valueBytes d.width), inRle := true, runRemaining := 0,
                                  rleValue := Bitpack.leNat (rest.take (valueBytes d.width)) &&& valueMask d.width } hlen
              refine ⟨this.1.trans hdrop, InB.cons hhdr (InB.cons hval (this.2.mono ?_))⟩
              have := hdrop.length_le
              simp only
              omega
            · exact ⟨hdrop, InB.cons hhdr (InB.cons hval (InB.nil _ _))⟩
        · split
          · have hlen : rest.length ≤ size := by have := hsuf.length_le; omega
            have := ih { d with rest := rest, inRle := false, runRemaining := 0 } hlen
            refine ⟨this.1.trans hsuf, InB.cons hhdr (this.2.mono ?_)⟩
            have := hsuf.length_le
            simp only
            omega
          · exact ⟨hsuf, InB.cons hhdr (InB.nil _ _)⟩

theorem fillAcc_adv (size : Nat) (d : Dec) (hsz : d.rest.length ≤ size) :
    Adv size d (fillAcc size d).1.2 (fillAcc size d).2 := by
  unfold fillAcc
  split
  · exact Adv.refl size d
  · split
    · exact ⟨List.suffix_refl _, InB.nil _ _⟩
    · exact ⟨List.drop_suffix _ _, InB.cons ⟨Nat.le_refl _, by simp only; omega⟩ (InB.nil _ _)⟩

theorem ensureRunAcc_adv (size : Nat) (d : Dec) (hsz : d.rest.length ≤ size) :
    Adv size d (ensureRunAcc size d).1.2 (ensureRunAcc size d).2 := by
  unfold ensureRunAcc
  split
  · exact startNewRunAccF_adv size _ d hsz
  · exact Adv.refl size d

theorem ensureBufAcc_adv (size : Nat) (d : Dec) (hsz : d.rest.length ≤ size) :
    Adv size d (ensureBufAcc size d).1.2 (ensureBufAcc size d).2 := by
  unfold ensureBufAcc
  split
  · exact Adv.refl size d
  · split
    · exact fillAcc_adv size d hsz
    · exact Adv.refl size d

theorem prepAcc_adv (size : Nat) (d : Dec) (hsz : d.rest.length ≤ size) :
    Adv size d (prepAcc size d).1.2 (prepAcc size d).2 := by
  have h1 := ensureRunAcc_adv size d hsz
  unfold prepAcc
  split
  · exact h1.trans (ensureBufAcc_adv size _ (by have := h1.len; omega))
  · exact h1

theorem pop_rest (d : Dec) : (pop d).2.rest = d.rest := by
  unfold pop; split <;> rfl

theorem chunkDec_rest (d : Dec) (want : Nat) : (chunkDec d want).rest = d.rest := by
  unfold chunkDec; split <;> rfl

theorem getAcc_adv (size : Nat) (d : Dec) (hsz : d.rest.length ≤ size) :
    Adv size d (getAcc size d).1.2 (getAcc size d).2 := by
  have h1 := prepAcc_adv size d hsz
  unfold getAcc
  split
  · exact Adv.refl size d
  · split
    · exact h1.of_rest (pop_rest _)
    · exact h1

theorem batchLoopAcc_adv (size : Nat) : ∀ (f : Nat) (d : Dec) (want : Nat), d.rest.length ≤ size →
    Adv size d (batchLoopAcc size f d want).1.2 (batchLoopAcc size f d want).2 := by
  intro f
  induction f with
  | zero => intro d want _; exact Adv.refl size d
  | succ f ih =>
    intro d want hsz
    have h1 := prepAcc_adv size d hsz
    simp only [batchLoopAcc]
    split
    · exact Adv.refl size d
    · split
      · exact Adv.refl size d
      · split
        · exact h1
        · have h2 : Adv size d (chunkDec (prepAcc size d).1.2 want) (prepAcc size d).2 :=
            h1.of_rest (chunkDec_rest _ _)
          exact h2.trans (ih _ _ (by have := h2.len; omega))

theorem skipLoopAcc_adv (size : Nat) : ∀ (f : Nat) (d : Dec) (want : Nat), d.rest.length ≤ size →
    Adv size d (skipLoopAcc size f d want).1.2 (skipLoopAcc size f d want).2 := by
  intro f
  induction f with
  | zero => intro d want _; exact Adv.refl size d
  | succ f ih =>
    intro d want hsz
    have h1 := prepAcc_adv size d hsz
    simp only [skipLoopAcc]
    split
    · exact Adv.refl size d
    · split
      · exact Adv.refl size d
      · split
        · exact h1
        · have h2 : Adv size d (chunkDec (prepAcc size d).1.2 want) (prepAcc size d).2 :=
            h1.of_rest (chunkDec_rest _ _)
          exact h2.trans (ih _ _ (by have := h2.len; omega))

theorem stepAcc_adv (size : Nat) (d : Dec) (op : Op) (hsz : d.rest.length ≤ size) :
    Adv size d (stepAcc size d op).1.2 (stepAcc size d op).2 := by
  cases op with
  | get => exact getAcc_adv size d hsz
  | getBatch k => exact batchLoopAcc_adv size k d k hsz
  | skip k => exact skipLoopAcc_adv size k d k hsz

theorem runOpsAcc_adv (size : Nat) : ∀ (ops : List Op) (d : Dec), d.rest.length ≤ size →
    Adv size d (runOpsAcc size d ops).2.2 (runOpsAcc size d ops).2.1 := by
  intro ops
  induction ops with
  | nil => intro d _; exact Adv.refl size d
  | cons op ops ih =>
    intro d hsz
    have h1 := stepAcc_adv size d op hsz
    simp only [runOpsAcc]
    exact h1.trans (ih _ (by have := h1.len; omega))

/-- same notion for the level decoder, whose state is just the unread input -/
def AdvL (size : Nat) (bs bs' : List UInt8) (accs : List Acc) : Prop :=
  bs' <:+ bs ∧ InB size (size - bs.length) accs

theorem AdvL.refl (size : Nat) (bs : List UInt8) : AdvL size bs bs [] := ⟨List.suffix_refl _, InB.nil _ _⟩

theorem levelsGroupsAcc_adv (size w : Nat) : ∀ (g : Nat) (rest : List UInt8) (want : Nat), rest.length ≤ size →
    AdvL size rest (levelsGroupsAcc size w g rest want).1.2 (levelsGroupsAcc size w g rest want).2 := by
  intro g
  induction g with
  | zero => intro rest want _; exact AdvL.refl size rest
  | succ g ih =>
    intro rest want hsz
    simp only [levelsGroupsAcc]
    split
    · exact AdvL.refl size rest
    · split
      · exact AdvL.refl size rest
      · have hd : rest.drop w <:+ rest := List.drop_suffix _ _
        have := ih (rest.drop w) (want - min 8 want) (by have := hd.length_le; omega)
        refine ⟨this.1.trans hd, InB.cons ⟨Nat.le_refl _, by simp only; omega⟩ (this.2.mono ?_)⟩
        have := hd.length_le
        omega

theorem headerLen_pos {bs : List UInt8} (h : bs.length ≠ 0) : 0 < headerLen bs := by
  cases bs with
  | nil => simp at h
  | cons b tl => simp only [headerLen, headerBytes]; split <;> omega

theorem levelsLoopAcc_adv (size w : Nat) : ∀ (f : Nat) (bs : List UInt8) (want : Nat), bs.length ≤ size →
    AdvL size bs (levelsLoopAcc size w f bs want).1.2 (levelsLoopAcc size w f bs want).2 := by
  intro f
  induction f with
  | zero => intro bs want _; exact AdvL.refl size bs
  | succ f ih =>
    intro bs want hsz
    obtain ⟨hc, hsuf⟩ := readHeaderLevels_consumed bs
    have hhl := headerLen_le bs
    have hhdr : size - bs.length ≤ (⟨size - bs.length, headerLen bs⟩ : Acc).off ∧
        (⟨size - bs.length, headerLen bs⟩ : Acc).off + (⟨size - bs.length, headerLen bs⟩ : Acc).len ≤ size :=
      ⟨Nat.le_refl _, by simp only; omega⟩
    have hrl : (Varint.readHeaderLevels bs).2.length ≤ bs.length := hsuf.length_le
    simp only [levelsLoopAcc]
    split
    · exact AdvL.refl size bs
    · split
      · exact AdvL.refl size bs
      · split
        · split
          · exact ⟨hsuf, InB.cons hhdr (InB.nil _ _)⟩
          · rename_i hvb
            have hval : size - bs.length ≤ (⟨size - (Varint.readHeaderLevels bs).2.length, valueBytes w⟩ : Acc).off ∧
                (⟨size - (Varint.readHeaderLevels bs).2.length, valueBytes w⟩ : Acc).off +
                  (⟨size - (Varint.readHeaderLevels bs).2.length, valueBytes w⟩ : Acc).len ≤ size :=
              ⟨by simp only; omega, by simp only; omega⟩
            have hdrop : (Varint.readHeaderLevels bs).2.drop (valueBytes w) <:+ bs := (List.drop_suffix _ _).trans hsuf
            have hdl := hdrop.length_le
            split
            · have := ih ((Varint.readHeaderLevels bs).2.drop (valueBytes w)) want (by omega)
              exact ⟨this.1.trans hdrop, InB.cons hhdr (InB.cons hval (this.2.mono (by omega)))⟩
            · have := ih ((Varint.readHeaderLevels bs).2.drop (valueBytes w))
                (want - min ((Varint.readHeaderLevels bs).1 >>> 1) want) (by omega)
              exact ⟨this.1.trans hdrop, InB.cons hhdr (InB.cons hval (this.2.mono (by omega)))⟩
        · split
          · have := ih (Varint.readHeaderLevels bs).2 want (by omega)
            exact ⟨this.1.trans hsuf, InB.cons hhdr (this.2.mono (by omega))⟩
          · have hg := levelsGroupsAcc_adv size w ((Varint.readHeaderLevels bs).1 >>> 1) (Varint.readHeaderLevels bs).2 want
              (by omega)
            have hgl := hg.1.length_le
            split
            · exact ⟨hg.1.trans hsuf, InB.cons hhdr (hg.2.mono (by omega))⟩
            · have := ih (levelsGroupsAcc size w ((Varint.readHeaderLevels bs).1 >>> 1) (Varint.readHeaderLevels bs).2 want).1.2
                (want - (levelsGroupsAcc size w ((Varint.readHeaderLevels bs).1 >>> 1) (Varint.readHeaderLevels bs).2 want).1.1.length)
                (by omega)
              exact ⟨(this.1.trans hg.1).trans hsuf,
                InB.cons hhdr ((hg.2.mono (by omega)).append (this.2.mono (by omega)))⟩

/-- `carquet_rle_decode_levels`: all reads inside the input, final position inside the input -/
theorem decodeLevelsAcc_in (w : Nat) (bytes : List UInt8) (n : Nat) :
    InB bytes.length 0 (decodeLevelsAcc w bytes n).2 ∧ (decodeLevelsAcc w bytes n).1.2 ≤ bytes.length := by
  unfold decodeLevelsAcc
  split
  · have := levelsLoopAcc_adv bytes.length w (bytes.length + 1) bytes n (Nat.le_refl _)
    exact ⟨this.2.mono (Nat.zero_le _), Nat.sub_le _ _⟩
  · exact ⟨InB.nil _ _, Nat.zero_le _⟩

theorem InB.shift {size lo base : Nat} {l : List Acc} (h : InB size lo l) :
    InB (base + size) (base + lo) (shiftAccs base l) := by
  intro a ha
  simp only [shiftAccs, List.mem_map] at ha
  obtain ⟨b, hb, rfl⟩ := ha
  have := h b hb
  simp only
  omega

/-- `carquet_rle_decode_levels_prefixed`: every read is inside the input; a length prefix that reaches
beyond the input is answered with an error after the four prefix bytes alone have been read -/
theorem decodeLevelsPrefixedAcc_in (w : Nat) (bytes : List UInt8) (n : Nat) :
    InB bytes.length 0 (decodeLevelsPrefixedAcc w bytes n).2 := by
  unfold decodeLevelsPrefixedAcc
  split
  · exact InB.nil _ _
  · rename_i h4
    split
    · exact InB.cons ⟨Nat.le_refl _, by simp only; omega⟩ (InB.nil _ _)
    · rename_i hle
      refine InB.cons ⟨Nat.le_refl _, by simp only; omega⟩ ?_
      have hlen : ((bytes.drop 4).take (Bitpack.leNat (bytes.take 4))).length = Bitpack.leNat (bytes.take 4) := by
        rw [List.length_take, List.length_drop]; omega
      have h := (decodeLevelsAcc_in w ((bytes.drop 4).take (Bitpack.leNat (bytes.take 4))) n).1
      rw [hlen] at h
      have h2 := h.shift (base := 4)
      intro a ha
      have := h2 a ha
      omega

/-! ### 3. never more values than requested -/

theorem chunkVals_length (d : Dec) (want : Nat) : (chunkVals d want).length = chunkLen d want := by
  unfold chunkVals
  split
  · simp
  · rename_i h
    rw [List.length_take]
    unfold chunkLen
    rw [if_neg h]
    omega

theorem chunkLen_le (d : Dec) (want : Nat) : chunkLen d want ≤ want := by
  unfold chunkLen; split <;> omega

theorem batchLoop_length_le : ∀ (f : Nat) (d : Dec) (want : Nat), (batchLoop f d want).1.length ≤ want := by
  intro f
  induction f with
  | zero => intro d want; simp [batchLoop]
  | succ f ih =>
    intro d want
    simp only [batchLoop]
    split
    · simp
    · split
      · simp
      · split
        · simp
        · simp only [List.length_append, chunkVals_length]
          have := ih (chunkDec (prep d).2 want) (want - chunkLen (prep d).2 want)
          have := chunkLen_le (prep d).2 want
          omega

theorem skipLoop_le : ∀ (f : Nat) (d : Dec) (want : Nat), (skipLoop f d want).1 ≤ want := by
  intro f
  induction f with
  | zero => intro d want; simp [skipLoop]
  | succ f ih =>
    intro d want
    simp only [skipLoop]
    split
    · simp
    · split
      · simp
      · split
        · simp
        · have := ih (chunkDec (prep d).2 want) (want - chunkLen (prep d).2 want)
          have := chunkLen_le (prep d).2 want
          omega

theorem genOuter_length (w : Nat) (inp : List UInt8) : ∀ (n a b : Nat), (Bitpack.genOuter w inp n a b).length = n := by
  intro n
  induction n with
  | zero => intro a b; rfl
  | succ n ih => intro a b; simp only [Bitpack.genOuter, List.length_cons, ih]

/-- `carquet_bitunpack8_32` stores exactly 8 values whatever the declared width -/
theorem unpack8_length_any (w : Nat) (inp : List UInt8) : (Bitpack.unpack8 w inp).length = 8 := by
  by_cases hw : w ≤ 32
  · exact Proofs.BitpackImpl.unpack8_length hw inp
  · unfold Bitpack.unpack8
    simp only [show w ≠ 0 by omega, show w ≠ 1 by omega, show w ≠ 2 by omega, show w ≠ 3 by omega,
      show w ≠ 4 by omega, show w ≠ 5 by omega, show w ≠ 6 by omega, show w ≠ 7 by omega, show w ≠ 8 by omega,
      if_false]
    exact genOuter_length w inp 8 0 0

theorem storeGroup_length_le (w : Nat) (inp : List UInt8) (want : Nat) :
    (storeGroup (Bitpack.unpack8 w inp) want).length ≤ min 8 want := by
  unfold storeGroup
  split
  · rw [List.length_map, unpack8_length_any]; omega
  · rw [List.length_map, List.length_take, unpack8_length_any]; omega

theorem levelsGroups_length_le (w : Nat) : ∀ (g : Nat) (rest : List UInt8) (want : Nat),
    (levelsGroups w g rest want).1.length ≤ want := by
  intro g
  induction g with
  | zero => intro rest want; simp [levelsGroups]
  | succ g ih =>
    intro rest want
    simp only [levelsGroups]
    split
    · simp
    · split
      · simp
      · simp only [List.length_append]
        have := ih (rest.drop w) (want - min 8 want)
        have := storeGroup_length_le w rest want
        omega

theorem levelsLoop_length_le (w : Nat) : ∀ (f : Nat) (bs : List UInt8) (want : Nat),
    (levelsLoop w f bs want).length ≤ want := by
  intro f
  induction f with
  | zero => intro bs want; simp [levelsLoop]
  | succ f ih =>
    intro bs want
    simp only [levelsLoop]
    split
    · simp
    · split
      · simp
      · split
        · split
          · simp
          · split
            · exact ih _ _
            · simp only [List.length_append, List.length_replicate]
              have := ih ((Varint.readHeaderLevels bs).2.drop (valueBytes w))
                (want - min ((Varint.readHeaderLevels bs).1 >>> 1) want)
              omega
        · split
          · exact ih _ _
          · have hg := levelsGroups_length_le w ((Varint.readHeaderLevels bs).1 >>> 1) (Varint.readHeaderLevels bs).2 want
            split
            · exact hg
            · simp only [List.length_append]
              have := ih (levelsGroups w ((Varint.readHeaderLevels bs).1 >>> 1) (Varint.readHeaderLevels bs).2 want).2
                (want - (levelsGroups w ((Varint.readHeaderLevels bs).1 >>> 1) (Varint.readHeaderLevels bs).2 want).1.length)
              omega

theorem decodeLevels_length_le (w : Nat) (bytes : List UInt8) (n : Nat) : (decodeLevels w bytes n).length ≤ n := by
  unfold decodeLevels
  split
  · exact levelsLoop_length_le _ _ _ _
  · simp

/-! ### 4. the fuels are not what stops the loops -/

/-- `start_new_run`: any fuel above the number of unread bytes gives the same result (every level of
the recursion on empty runs consumes at least the header byte) -/
theorem startNewRunF_fuel : ∀ (f f' : Nat) (d : Dec), d.rest.length < f → d.rest.length < f' →
    startNewRunF f d = startNewRunF f' d := by
  intro f
  induction f with
  | zero => intro f' d h; omega
  | succ f ih =>
    intro f' d h1 h2
    cases f' with
    | zero => omega
    | succ f' =>
      simp only [startNewRunF]
      by_cases h0 : d.rest.length = 0
      · simp only [h0, if_true]
      · simp only [h0, if_false]
        cases hr : Varint.readVarintRle d.rest with
        | none => rfl
        | some p =>
          obtain ⟨h, rest⟩ := p
          have hlt := Proofs.RleDecoder.readVarintRle_rest_lt hr
          simp only []
          split
          · split
            · rfl
            · split
              · apply ih
                · simp only [List.length_drop]; omega
                · simp only [List.length_drop]; omega
              · rfl
          · split
            · apply ih
              · simp only; omega
              · simp only; omega
            · rfl

theorem startNewRunF_true : ∀ (f : Nat) (d : Dec), (startNewRunF f d).1 = true →
    0 < (startNewRunF f d).2.runRemaining := by
  intro f
  induction f with
  | zero => intro d h; simp [startNewRunF] at h
  | succ f ih =>
    intro d
    simp only [startNewRunF]
    by_cases h0 : d.rest.length = 0
    · simp only [h0, if_true]; intro h; cases h
    · simp only [h0, if_false]
      cases hr : Varint.readVarintRle d.rest with
      | none => intro h; cases h
      | some p =>
        obtain ⟨h, rest⟩ := p
        simp only []
        split
        · split
          · intro h; cases h
          · split
            · exact ih _
            · intro _; simp only; omega
        · split
          · exact ih _
          · intro _; simp only; omega

theorem ensureRun_true (d : Dec) (h : (ensureRun d).1 = true) : 0 < (ensureRun d).2.runRemaining := by
  unfold ensureRun at h ⊢
  split
  · rename_i h0
    rw [if_pos h0] at h
    exact startNewRunF_true _ d h
  · rename_i h0
    simp only; omega

theorem ensureBuf_true (x : Dec) (h : (ensureBuf x).1 = true) (hr : 0 < x.runRemaining) :
    0 < (ensureBuf x).2.runRemaining ∧ ((ensureBuf x).2.inRle = true ∨ 0 < (ensureBuf x).2.bp.length) := by
  unfold ensureBuf at h ⊢
  split
  · rename_i hi; exact ⟨hr, Or.inl hi⟩
  · rename_i hi
    rw [if_neg hi] at h
    split
    · rename_i hb
      rw [if_pos hb] at h
      unfold fill at h ⊢
      split
      · rename_i h0; omega
      · rename_i h0
        rw [if_neg h0] at h
        split
        · rename_i hs; rw [if_pos hs] at h; cases h
        · refine ⟨hr, Or.inr ?_⟩
          simp only [unpack8_length_any]; omega
    · rename_i hb
      exact ⟨hr, Or.inr (Nat.pos_of_ne_zero hb)⟩

/-- after a successful `prep` a chunk moves at least one value -/
theorem prep_progress (d : Dec) (want : Nat) (hw : 0 < want) (h : (prep d).1 = true) :
    0 < chunkLen (prep d).2 want := by
  unfold prep at h ⊢
  split
  · rename_i he
    rw [if_pos he] at h
    obtain ⟨h1, h2⟩ := ensureBuf_true _ h (ensureRun_true d he)
    unfold chunkLen
    split
    · omega
    · rename_i hi
      rcases h2 with h2 | h2
      · exact absurd h2 hi
      · omega
  · rename_i he
    rw [if_neg he] at h; cases h

/-- `get_batch`: any fuel ≥ the requested count gives the same result -/
theorem batchLoop_fuel : ∀ (f f' : Nat) (d : Dec) (want : Nat), want ≤ f → want ≤ f' →
    batchLoop f d want = batchLoop f' d want := by
  intro f
  induction f with
  | zero =>
    intro f' d want h1 _
    have : want = 0 := by omega
    subst this
    cases f' <;> simp [batchLoop]
  | succ f ih =>
    intro f' d want h1 h2
    cases f' with
    | zero =>
      have : want = 0 := by omega
      subst this
      simp [batchLoop]
    | succ f' =>
      simp only [batchLoop]
      split
      · rfl
      · rename_i hw0
        split
        · rfl
        · split
          · rfl
          · rename_i hp
            have hp' : (prep d).1 = true := by
              cases hq : (prep d).1 with
              | true => rfl
              | false => exact absurd hq hp
            have := prep_progress d want (by omega) hp'
            rw [ih f' (chunkDec (prep d).2 want) (want - chunkLen (prep d).2 want) (by omega) (by omega)]

/-- `skip`: any fuel ≥ the requested count gives the same result -/
theorem skipLoop_fuel : ∀ (f f' : Nat) (d : Dec) (want : Nat), want ≤ f → want ≤ f' →
    skipLoop f d want = skipLoop f' d want := by
  intro f
  induction f with
  | zero =>
    intro f' d want h1 _
    have : want = 0 := by omega
    subst this
    cases f' <;> simp [skipLoop]
  | succ f ih =>
    intro f' d want h1 h2
    cases f' with
    | zero =>
      have : want = 0 := by omega
      subst this
      simp [skipLoop]
    | succ f' =>
      simp only [skipLoop]
      split
      · rfl
      · rename_i hw0
        split
        · rfl
        · split
          · rfl
          · rename_i hp
            have hp' : (prep d).1 = true := by
              cases hq : (prep d).1 with
              | true => rfl
              | false => exact absurd hq hp
            have := prep_progress d want (by omega) hp'
            rw [ih f' (chunkDec (prep d).2 want) (want - chunkLen (prep d).2 want) (by omega) (by omega)]

theorem levelsGroups_rest_le (w g : Nat) (rest : List UInt8) (want : Nat) :
    (levelsGroups w g rest want).2.length ≤ rest.length := by
  have := (levelsGroupsAcc_adv rest.length w g rest want (Nat.le_refl _)).1.length_le
  rw [levelsGroupsAcc_fst] at this
  exact this

/-- `decode_levels`: any fuel above the input length gives the same result (every iteration of the
outer loop consumes at least the header byte) -/
theorem levelsLoop_fuel (w : Nat) : ∀ (f f' : Nat) (bs : List UInt8) (want : Nat), bs.length < f → bs.length < f' →
    levelsLoop w f bs want = levelsLoop w f' bs want := by
  intro f
  induction f with
  | zero => intro f' bs want h; omega
  | succ f ih =>
    intro f' bs want h1 h2
    cases f' with
    | zero => omega
    | succ f' =>
      simp only [levelsLoop]
      split
      · rfl
      · split
        · rfl
        · rename_i hne
          obtain ⟨hc, _⟩ := readHeaderLevels_consumed bs
          have hpos := headerLen_pos hne
          split
          · split
            · rfl
            · split
              · apply ih
                · simp only [List.length_drop]; omega
                · simp only [List.length_drop]; omega
              · rw [ih f' _ _ (by simp only [List.length_drop]; omega) (by simp only [List.length_drop]; omega)]
          · split
            · apply ih <;> omega
            · split
              · rfl
              · have := levelsGroups_rest_le w ((Varint.readHeaderLevels bs).1 >>> 1) (Varint.readHeaderLevels bs).2 want
                rw [ih f' _ _ (by omega) (by omega)]

end Carquet.Proofs.RleAcc
