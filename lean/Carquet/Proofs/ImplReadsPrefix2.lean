import Carquet.Proofs.ReaderSteps
import Carquet.Proofs.ThriftDec
/-
C06, implementation half — PREFIX MONOTONICITY of the Thrift decoder (code after fix F62), part 1:
the decoder primitives, the field loop and `thrift_skip`.

`Ext x N d d'`: the decoder `d'` is the decoder `d` with the bytes `x` appended to its unread input
(and a ghost loop budget at least as large); neither has an error status.  For every primitive `f`
    Ext x N d d' → (f d).status = none → (f d') returns the same value ∧ Ext x N (f d) (f d')
("if the run on the short input is still error-free after `f`, the run on the long input did the same
thing"), and the status is sticky (`*_st`: no error after `f` → no error before `f`), so an error-free
END of a run on the short input makes every intermediate step error-free.
`N` is the length of the short input: `d.pos + d.rest.length = N` is part of the relation.
-/
namespace Carquet.Proofs.ImplReads.Prefix
open Carquet.Impl Carquet.Impl.Thrift
open Carquet.Proofs.Thrift (lengthGe_iff)

structure Ext (x : List UInt8) (N : Nat) (d d' : Dec) : Prop where
  rest : d'.rest = d.rest ++ x
  pos : d'.pos = d.pos
  lastId : d'.lastId = d.lastId
  bp : d'.boolPending = d.boolPending
  bv : d'.boolValue = d.boolValue
  st : d.status = none
  st' : d'.status = none
  ov : d'.overlay = d.overlay
  bud : d.budget ≤ d'.budget
  len : d.pos + d.rest.length = N

variable {x : List UInt8} {N : Nat}

theorem Ext.elim {d d' : Dec} (h : Ext x N d d') :
    ∃ b, d.budget ≤ b ∧ d' = ⟨d.rest ++ x, d.pos, d.lastId, d.boolPending, d.boolValue, none, d.overlay, b⟩ ∧
      d.status = none ∧ d.pos + d.rest.length = N := by
  obtain ⟨rest', pos', l', bp', bv', st', ov', b'⟩ := d'
  obtain ⟨h1, h2, h3, h4, h5, h6, h7, h8, h9, h10⟩ := h
  simp only at h1 h2 h3 h4 h5 h7 h8 h9
  subst h1 h2 h3 h4 h5 h7 h8
  exact ⟨b', h9, rfl, h6, h10⟩

theorem Ext.intro' (rest : List UInt8) (pos : Nat) (l : List Int) (bp bv ov : Bool) (b b' : Nat) (hb : b ≤ b')
    (hl : pos + rest.length = N) :
    Ext x N ⟨rest, pos, l, bp, bv, none, ov, b⟩ ⟨rest ++ x, pos, l, bp, bv, none, ov, b'⟩ :=
  ⟨rfl, rfl, rfl, rfl, rfl, rfl, rfl, rfl, hb, hl⟩

set_option hygiene false in
/-- destructure `d`, `d'` and the relation: afterwards `d = ⟨rest, pos, l, bp, bv, none, ov, bud⟩` and
`d' = ⟨rest ++ x, pos, l, bp, bv, none, ov, b⟩` with `hb : bud ≤ b`, `hl : pos + rest.length = N` -/
macro "ext_destruct " d:ident hE:ident : tactic =>
  `(tactic| (
    obtain ⟨rest, pos, l, bp, bv, st, ov, bud⟩ := $d
    obtain ⟨b, hb, rfl, hst, hl⟩ := Ext.elim $hE
    simp only at hst hl hb
    subst hst))

/-! ### the status is sticky -/

theorem setError_ne (d : Dec) (e : Err) : (d.setError e).status = none → False := by
  unfold Dec.setError
  split
  · simp
  · rename_i y hy; simp [hy]

theorem readByteRaw_st (d : Dec) (h : (readByteRaw d).2.status = none) : d.status = none := by
  unfold readByteRaw at h
  split at h
  · exact (setError_ne _ _ h).elim
  · exact h

theorem readVarintLoop_st : ∀ (n shift acc : Nat) (d : Dec), (readVarintLoop n shift acc d).2.status = none → d.status = none := by
  intro n
  induction n with
  | zero => intro _ _ d h; exact (setError_ne _ _ h).elim
  | succ n ih =>
    intro shift acc d h
    obtain ⟨rest, pos, l, bp, bv, st, ov, bud⟩ := d
    cases rest with
    | nil => exact (setError_ne _ _ h).elim
    | cons a r =>
      simp only [readVarintLoop] at h
      split at h
      · exact h
      · exact ih _ _ ⟨r, pos + 1, l, bp, bv, st, ov, bud⟩ h

theorem readVarint_st (d : Dec) (h : (readVarint d).2.status = none) : d.status = none := readVarintLoop_st 10 0 0 d h
theorem readI32_st (d : Dec) (h : (readI32 d).2.status = none) : d.status = none := readVarint_st d h
theorem readI64_st (d : Dec) (h : (readI64 d).2.status = none) : d.status = none := readVarint_st d h
theorem readI16_st (d : Dec) (h : (readI16 d).2.status = none) : d.status = none := readVarint_st d h

/-- `readBinaryK` with the length already cast to `int32_t` (the lemmas below are about a variable `i`:
the kernel must never see `(toI32 n).toNat` in a definitional-equality problem) -/
def binK (i : Int) (d : Dec) : Option (List UInt8) × Int × Dec :=
  if i < 0 then (none, 0, d.setError .decode)
  else if d.has i.toNat then (some (d.rest.take i.toNat), i, d.advance i.toNat)
  else (none, 0, d.setError .truncated)

theorem readBinaryK_eq (n : Nat) (d : Dec) : readBinaryK n d = binK (toI32 n) d := rfl

theorem binK_st (i : Int) (d : Dec) (h : (binK i d).2.2.status = none) : d.status = none := by
  unfold binK at h
  split at h
  · exact (setError_ne _ _ h).elim
  · split at h
    · exact h
    · exact (setError_ne _ _ h).elim

theorem readBinaryK_st (n : Nat) (d : Dec) (h : (readBinaryK n d).2.2.status = none) : d.status = none := by
  rw [readBinaryK_eq] at h
  exact binK_st _ d h

theorem readBinary_st (d : Dec) (h : (readBinary d).2.2.status = none) : d.status = none :=
  readVarint_st d (readBinaryK_st _ _ h)

theorem readBool_st (d : Dec) (h : (readBool d).2.status = none) : d.status = none := by
  unfold readBool at h
  split at h
  · exact h
  · exact readByteRaw_st d h

theorem structBegin_st (d : Dec) (h : (structBegin d).status = none) : d.status = none := by
  unfold structBegin at h
  split at h
  · exact (setError_ne _ _ h).elim
  · exact h

theorem notePendingBool_status (ty : Nat) (d : Dec) : (notePendingBool ty d).status = d.status := by
  unfold notePendingBool
  split
  · rfl
  · split <;> rfl

theorem readFieldBeginK_st (h0 : UInt8) (d : Dec) (h : (readFieldBeginK h0 d).dec.status = none) : d.status = none := by
  unfold readFieldBeginK at h
  split at h
  · rw [notePendingBool_status] at h
    exact readI16_st d h
  · rw [notePendingBool_status] at h
    exact h

theorem readFieldBegin_st (d : Dec) (h : (readFieldBegin d).dec.status = none) : d.status = none := by
  unfold readFieldBegin at h
  split at h
  · rename_i e he; rw [he] at h; cases h
  · assumption

theorem listCountChecks_st (et : Nat) (c : Int) (d : Dec) (h : (listCountChecks et c d).dec.status = none) : d.status = none := by
  unfold listCountChecks at h
  split at h
  · exact (setError_ne _ _ h).elim
  · split at h
    · exact (setError_ne _ _ h).elim
    · exact h

theorem readListBegin_st (d : Dec) (h : (readListBegin d).dec.status = none) : d.status = none := by
  unfold readListBegin at h
  split at h
  · exact readByteRaw_st d (readVarint_st _ (listCountChecks_st _ _ _ h))
  · exact readByteRaw_st d (listCountChecks_st _ _ _ h)

theorem readMapBeginK_st (c : Int) (d : Dec) (h : (readMapBeginK c d).dec.status = none) : d.status = none := by
  unfold readMapBeginK at h
  split at h
  · exact (setError_ne _ _ h).elim
  · split at h
    · exact h
    · split at h
      · exact (setError_ne _ _ h).elim
      · exact readByteRaw_st d h

theorem readMapBegin_st (d : Dec) (h : (readMapBegin d).dec.status = none) : d.status = none :=
  readVarint_st d (readMapBeginK_st _ _ h)

theorem repeatOk_st (f : Dec → Dec) (n : Nat) (d : Dec) (h : (repeatOk f n d).status = none) : d.status = none := by
  cases n with
  | zero => exact h
  | succ n =>
    rw [repeatOk] at h
    split at h
    · rename_i e he; rw [he] at h; cases h
    · assumption

theorem skip_st (cfg : Cfg) (stk ty : Nat) (d : Dec) (h : (skip cfg stk ty d).status = none) : d.status = none := by
  cases stk with
  | zero => exact (setError_ne _ _ h).elim
  | succ stk =>
    rw [skip] at h
    split at h
    · rename_i e he; rw [he] at h; cases h
    · assumption

theorem skipField_st (cfg : Cfg) (ty : Nat) (d : Dec) (h : (skipField cfg ty d).status = none) : d.status = none :=
  skip_st cfg _ ty d h

theorem skipElement_st (sk : Nat → Dec → Dec) (ty : Nat) (d : Dec) (h : (skipElement Cfg.fixed sk ty d).status = none) :
    d.status = none := by
  unfold skipElement at h
  simp only [Cfg.fixed, if_true] at h
  split at h
  · rename_i e he; rw [he] at h; cases h
  · assumption

theorem fieldLoop_st {σ : Type} (stop : σ → Bool) (body : Nat → Int → Dec → σ → σ × Dec)
    (f : Nat) (d : Dec) (s : σ) (h : (fieldLoop stop body f d s).2.status = none) : d.status = none := by
  cases f with
  | zero => exact (setError_ne _ _ h).elim
  | succ f =>
    cases hd : d.status with
    | none => rfl
    | some e =>
      have hm : (readFieldBegin d).more = false := by simp [readFieldBegin, hd]
      have hdec : (readFieldBegin d).dec = d := by simp [readFieldBegin, hd]
      rw [ReaderSteps.fieldLoop_succ_false _ _ _ _ _ hm, hdec, hd] at h
      cases h

/-! ### primitives run in lock-step -/

theorem has_ext {d d' : Dec} (hE : Ext x N d d') (n : Nat) (h : d.has n = true) :
    d'.has n = true ∧ d'.rest.take n = d.rest.take n ∧ Ext x N (d.advance n) (d'.advance n) := by
  ext_destruct d hE
  simp only [Dec.has, lengthGe_iff] at h ⊢
  refine ⟨by simp; omega, List.take_append_of_le_length h, ?_⟩
  simp only [Dec.advance, List.drop_append_of_le_length h]
  exact Ext.intro' _ _ _ _ _ _ _ _ hb (by simp; omega)

theorem readByteRaw_ext {d d' : Dec} (hE : Ext x N d d') (hs : (readByteRaw d).2.status = none) :
    (readByteRaw d').1 = (readByteRaw d).1 ∧ Ext x N (readByteRaw d).2 (readByteRaw d').2 := by
  ext_destruct d hE
  cases rest with
  | nil => exact (setError_ne _ _ hs).elim
  | cons a r =>
    simp only [readByteRaw, List.cons_append]
    exact ⟨by trivial, Ext.intro' _ _ _ _ _ _ _ _ hb (by simp at hl ⊢; omega)⟩

theorem readVarintLoop_ext : ∀ (n shift acc : Nat) (d d' : Dec), Ext x N d d' →
    (readVarintLoop n shift acc d).2.status = none →
    (readVarintLoop n shift acc d').1 = (readVarintLoop n shift acc d).1 ∧
      Ext x N (readVarintLoop n shift acc d).2 (readVarintLoop n shift acc d').2 := by
  intro n
  induction n with
  | zero => intro _ _ d _ _ h; exact (setError_ne _ _ h).elim
  | succ n ih =>
    intro shift acc d d' hE hs
    ext_destruct d hE
    cases rest with
    | nil => exact (setError_ne _ _ hs).elim
    | cons a r =>
      simp only [readVarintLoop, List.cons_append] at hs ⊢
      by_cases ha : a.toNat < 128
      · simp only [ha, if_true]
        exact ⟨by trivial, Ext.intro' _ _ _ _ _ _ _ _ hb (by simp at hl ⊢; omega)⟩
      · simp only [ha, if_false] at hs ⊢
        exact ih _ _ _ _ (Ext.intro' _ _ _ _ _ _ _ _ hb (by simp at hl ⊢; omega)) hs

theorem readVarint_ext {d d' : Dec} (hE : Ext x N d d') (hs : (readVarint d).2.status = none) :
    (readVarint d').1 = (readVarint d).1 ∧ Ext x N (readVarint d).2 (readVarint d').2 :=
  readVarintLoop_ext 10 0 0 _ _ hE hs

theorem readI16_ext {d d' : Dec} (hE : Ext x N d d') (hs : (readI16 d).2.status = none) :
    (readI16 d').1 = (readI16 d).1 ∧ Ext x N (readI16 d).2 (readI16 d').2 := by
  obtain ⟨h1, h2⟩ := readVarint_ext hE hs
  exact ⟨by simp only [readI16, readZigzag, h1], h2⟩

theorem readI32_ext {d d' : Dec} (hE : Ext x N d d') (hs : (readI32 d).2.status = none) :
    (readI32 d').1 = (readI32 d).1 ∧ Ext x N (readI32 d).2 (readI32 d').2 := by
  obtain ⟨h1, h2⟩ := readVarint_ext hE hs
  exact ⟨by simp only [readI32, readZigzag, h1], h2⟩

theorem readI64_ext {d d' : Dec} (hE : Ext x N d d') (hs : (readI64 d).2.status = none) :
    (readI64 d').1 = (readI64 d).1 ∧ Ext x N (readI64 d).2 (readI64 d').2 := by
  obtain ⟨h1, h2⟩ := readVarint_ext hE hs
  exact ⟨by simp only [readI64, readZigzag, h1], h2⟩

theorem binK_ext (i : Int) {d d' : Dec} (hE : Ext x N d d') (hs : (binK i d).2.2.status = none) :
    (binK i d').1 = (binK i d).1 ∧ (binK i d').2.1 = (binK i d).2.1 ∧ Ext x N (binK i d).2.2 (binK i d').2.2 := by
  unfold binK at hs ⊢
  by_cases h1 : i < 0
  · simp only [h1, if_true] at hs; exact (setError_ne _ _ hs).elim
  · simp only [h1, if_false] at hs ⊢
    by_cases h2 : d.has i.toNat = true
    · obtain ⟨h3, h4, h5⟩ := has_ext hE _ h2
      simp only [h2, h3, if_true, h4]
      exact ⟨trivial, trivial, h5⟩
    · simp only [h2] at hs; exact (setError_ne _ _ hs).elim

theorem readBinaryK_ext (n : Nat) {d d' : Dec} (hE : Ext x N d d') (hs : (readBinaryK n d).2.2.status = none) :
    (readBinaryK n d').1 = (readBinaryK n d).1 ∧ (readBinaryK n d').2.1 = (readBinaryK n d).2.1 ∧
      Ext x N (readBinaryK n d).2.2 (readBinaryK n d').2.2 := by
  rw [readBinaryK_eq] at hs
  rw [readBinaryK_eq, readBinaryK_eq]
  exact binK_ext _ hE hs

theorem readBinary_ext {d d' : Dec} (hE : Ext x N d d') (hs : (readBinary d).2.2.status = none) :
    (readBinary d').1 = (readBinary d).1 ∧ (readBinary d').2.1 = (readBinary d).2.1 ∧
      Ext x N (readBinary d).2.2 (readBinary d').2.2 := by
  obtain ⟨h1, h2⟩ := readVarint_ext hE (readBinaryK_st _ _ hs)
  unfold readBinary at hs ⊢
  rw [h1]
  exact readBinaryK_ext _ h2 hs

theorem readBool_ext {d d' : Dec} (hE : Ext x N d d') (hs : (readBool d).2.status = none) :
    (readBool d').1 = (readBool d).1 ∧ Ext x N (readBool d).2 (readBool d').2 := by
  unfold readBool at hs ⊢
  rw [hE.bp, hE.bv]
  by_cases hp : d.boolPending = true
  · simp only [hp, if_true]
    refine ⟨by trivial, ?_⟩
    ext_destruct d hE
    exact Ext.intro' _ _ _ _ _ _ _ _ hb hl
  · simp only [hp] at hs ⊢
    obtain ⟨h1, h2⟩ := readByteRaw_ext hE hs
    exact ⟨by simp [h1], h2⟩

theorem Ext.setLastId {d d' : Dec} (hE : Ext x N d d') (l : List Int) :
    Ext x N { d with lastId := l } { d' with lastId := l } := by
  ext_destruct d hE
  exact Ext.intro' _ _ _ _ _ _ _ _ hb hl

theorem Ext.setBoolPending {d d' : Dec} (hE : Ext x N d d') (p : Bool) :
    Ext x N { d with boolPending := p } { d' with boolPending := p } := by
  ext_destruct d hE
  exact Ext.intro' _ _ _ _ _ _ _ _ hb hl

theorem structBegin_ext {d d' : Dec} (hE : Ext x N d d') (hs : (structBegin d).status = none) :
    Ext x N (structBegin d) (structBegin d') := by
  unfold structBegin at hs ⊢
  rw [hE.lastId]
  by_cases h : maxNesting ≤ d.lastId.length
  · simp only [h, if_true] at hs; exact (setError_ne _ _ hs).elim
  · simp only [h, if_false]
    exact hE.setLastId _

theorem structEnd_ext {d d' : Dec} (hE : Ext x N d d') : Ext x N (structEnd d) (structEnd d') := by
  unfold structEnd
  rw [hE.lastId]
  exact hE.setLastId _

theorem notePendingBool_ext (ty : Nat) {d d' : Dec} (hE : Ext x N d d') :
    Ext x N (notePendingBool ty d) (notePendingBool ty d') := by
  ext_destruct d hE
  unfold notePendingBool
  split
  · exact Ext.intro' _ _ _ _ _ _ _ _ hb hl
  · split
    · exact Ext.intro' _ _ _ _ _ _ _ _ hb hl
    · exact Ext.intro' _ _ _ _ _ _ _ _ hb hl

theorem readFieldBeginK_ext (h0 : UInt8) {d d' : Dec} (hE : Ext x N d d') (hs : (readFieldBeginK h0 d).dec.status = none) :
    (readFieldBeginK h0 d').more = (readFieldBeginK h0 d).more ∧ (readFieldBeginK h0 d').ty = (readFieldBeginK h0 d).ty ∧
      (readFieldBeginK h0 d').fid = (readFieldBeginK h0 d).fid ∧ Ext x N (readFieldBeginK h0 d).dec (readFieldBeginK h0 d').dec := by
  unfold readFieldBeginK at hs ⊢
  by_cases h : h0.toNat / 16 = 0
  · simp only [h, if_true] at hs ⊢
    rw [notePendingBool_status] at hs
    obtain ⟨h1, h2⟩ := readI16_ext hE hs
    rw [h1, h2.lastId]
    exact ⟨by trivial, by trivial, by trivial, notePendingBool_ext _ (h2.setLastId _)⟩
  · simp only [h, if_false]
    rw [hE.lastId]
    exact ⟨by trivial, by trivial, by trivial, notePendingBool_ext _ (hE.setLastId _)⟩

theorem readFieldBegin_ext {d d' : Dec} (hE : Ext x N d d') (hs : (readFieldBegin d).dec.status = none) :
    (readFieldBegin d').more = (readFieldBegin d).more ∧ (readFieldBegin d').ty = (readFieldBegin d).ty ∧
      (readFieldBegin d').fid = (readFieldBegin d).fid ∧ Ext x N (readFieldBegin d).dec (readFieldBegin d').dec := by
  ext_destruct d hE
  cases rest with
  | nil => exact (setError_ne _ _ hs).elim
  | cons a r =>
    simp only [readFieldBegin, List.cons_append] at hs ⊢
    have hE1 : Ext x N (⟨r, pos + 1, l, bp, bv, none, ov, bud⟩ : Dec) ⟨r ++ x, pos + 1, l, bp, bv, none, ov, b⟩ :=
      Ext.intro' _ _ _ _ _ _ _ _ hb (by simp at hl ⊢; omega)
    by_cases ha : a = 0
    · simp only [ha, if_true]
      exact ⟨by trivial, by trivial, by trivial, hE1⟩
    · simp only [ha, if_false] at hs ⊢
      exact readFieldBeginK_ext a hE1 hs

theorem listCountChecks_ext (et : Nat) (c : Int) {d d' : Dec} (hE : Ext x N d d')
    (hs : (listCountChecks et c d).dec.status = none) :
    (listCountChecks et c d').elemTy = (listCountChecks et c d).elemTy ∧
      (listCountChecks et c d').count = (listCountChecks et c d).count ∧
      Ext x N (listCountChecks et c d).dec (listCountChecks et c d').dec := by
  unfold listCountChecks at hs ⊢
  by_cases h1 : c < 0
  · simp only [h1, if_true] at hs; exact (setError_ne _ _ hs).elim
  · simp only [h1, if_false] at hs ⊢
    by_cases h2 : d.has c.toNat = true
    · obtain ⟨h3, _, _⟩ := has_ext hE _ h2
      simp only [h2, h3, Bool.not_true, Bool.false_eq_true, if_false]
      exact ⟨by trivial, by trivial, hE⟩
    · simp only [h2, Bool.not_false, if_true] at hs; exact (setError_ne _ _ hs).elim

theorem readListBegin_ext {d d' : Dec} (hE : Ext x N d d') (hs : (readListBegin d).dec.status = none) :
    (readListBegin d').elemTy = (readListBegin d).elemTy ∧ (readListBegin d').count = (readListBegin d).count ∧
      Ext x N (readListBegin d).dec (readListBegin d').dec := by
  have hb0 : (readByteRaw d).2.status = none := by
    unfold readListBegin at hs
    split at hs
    · exact readVarint_st _ (listCountChecks_st _ _ _ hs)
    · exact listCountChecks_st _ _ _ hs
  obtain ⟨h1, h2⟩ := readByteRaw_ext hE hb0
  unfold readListBegin at hs ⊢
  rw [h1]
  by_cases h : (readByteRaw d).1.toNat / 16 = 15
  · simp only [h, if_true] at hs ⊢
    obtain ⟨h3, h4⟩ := readVarint_ext h2 (listCountChecks_st _ _ _ hs)
    rw [h3]
    exact listCountChecks_ext _ _ h4 hs
  · simp only [h, if_false] at hs ⊢
    exact listCountChecks_ext _ _ h2 hs

theorem readMapBeginK_ext (c : Int) {d d' : Dec} (hE : Ext x N d d') (hs : (readMapBeginK c d).dec.status = none) :
    (readMapBeginK c d').keyTy = (readMapBeginK c d).keyTy ∧ (readMapBeginK c d').valTy = (readMapBeginK c d).valTy ∧
      (readMapBeginK c d').count = (readMapBeginK c d).count ∧ Ext x N (readMapBeginK c d).dec (readMapBeginK c d').dec := by
  unfold readMapBeginK at hs ⊢
  by_cases h1 : c < 0
  · simp only [h1, if_true] at hs; exact (setError_ne _ _ hs).elim
  · simp only [h1, if_false] at hs ⊢
    by_cases h0 : c = 0
    · simp only [h0, if_true]; exact ⟨by trivial, by trivial, by trivial, hE⟩
    · simp only [h0, if_false] at hs ⊢
      by_cases h2 : d.has c.toNat = true
      · obtain ⟨h3, _, _⟩ := has_ext hE _ h2
        simp only [h2, h3, Bool.not_true, Bool.false_eq_true, if_false] at hs ⊢
        obtain ⟨h4, h5⟩ := readByteRaw_ext hE hs
        rw [h4]
        exact ⟨by trivial, by trivial, by trivial, h5⟩
      · simp only [h2, Bool.not_false, if_true] at hs; exact (setError_ne _ _ hs).elim

theorem readMapBegin_ext {d d' : Dec} (hE : Ext x N d d') (hs : (readMapBegin d).dec.status = none) :
    (readMapBegin d').keyTy = (readMapBegin d).keyTy ∧ (readMapBegin d').valTy = (readMapBegin d).valTy ∧
      (readMapBegin d').count = (readMapBegin d).count ∧ Ext x N (readMapBegin d).dec (readMapBegin d').dec := by
  obtain ⟨h1, h2⟩ := readVarint_ext hE (readMapBeginK_st _ _ hs)
  unfold readMapBegin at hs ⊢
  rw [h1]
  exact readMapBeginK_ext _ h2 hs

theorem skipFixed_ext {d d' : Dec} (hE : Ext x N d d') (n : Nat) (hs : (d.skipFixed Cfg.fixed n).status = none) :
    Ext x N (d.skipFixed Cfg.fixed n) (d'.skipFixed Cfg.fixed n) := by
  unfold Dec.skipFixed at hs ⊢
  simp only [Cfg.fixed, if_true] at hs ⊢
  by_cases h : d.has n = true
  · obtain ⟨h1, _, h2⟩ := has_ext hE n h
    simp only [h, h1, if_true]
    exact h2
  · simp only [h] at hs; exact (setError_ne _ _ hs).elim

/-! ### loops -/

theorem repeatOk_ext (f : Dec → Dec)
    (hext : ∀ d d', Ext x N d d' → (f d).status = none → Ext x N (f d) (f d')) :
    ∀ (n : Nat) (d d' : Dec), Ext x N d d' → (repeatOk f n d).status = none →
      Ext x N (repeatOk f n d) (repeatOk f n d') := by
  intro n
  induction n with
  | zero => intro d d' hE _; exact hE
  | succ n ih =>
    intro d d' hE hs
    rw [repeatOk] at hs ⊢
    rw [repeatOk]
    simp only [hE.st, hE.st'] at hs ⊢
    exact ih _ _ (hext _ _ hE (repeatOk_st f _ _ hs)) hs

theorem fieldLoop_ext {σ : Type} (stop : σ → Bool) (body : Nat → Int → Dec → σ → σ × Dec)
    (hst : ∀ ty fid d s, (body ty fid d s).2.status = none → d.status = none)
    (hext : ∀ ty fid s d d', Ext x N d d' → (body ty fid d s).2.status = none →
      (body ty fid d' s).1 = (body ty fid d s).1 ∧ Ext x N (body ty fid d s).2 (body ty fid d' s).2) :
    ∀ (f f' : Nat) (d d' : Dec) (s : σ), f ≤ f' → Ext x N d d' → (fieldLoop stop body f d s).2.status = none →
      (fieldLoop stop body f' d' s).1 = (fieldLoop stop body f d s).1 ∧
        Ext x N (fieldLoop stop body f d s).2 (fieldLoop stop body f' d' s).2 := by
  intro f
  induction f with
  | zero => intro _ d _ s _ _ h; exact (setError_ne _ _ h).elim
  | succ f ih =>
    intro f' d d' s hf hE hs
    obtain ⟨f', rfl⟩ : ∃ g, f' = g + 1 := ⟨f' - 1, by omega⟩
    cases hm : (readFieldBegin d).more
    · rw [ReaderSteps.fieldLoop_succ_false _ _ _ _ _ hm] at hs ⊢
      obtain ⟨h1, _, _, h4⟩ := readFieldBegin_ext hE hs
      rw [ReaderSteps.fieldLoop_succ_false _ _ _ _ _ (h1.trans hm)]
      exact ⟨by trivial, h4⟩
    · cases hstop : stop (body (readFieldBegin d).ty (readFieldBegin d).fid (readFieldBegin d).dec s).1
      · rw [ReaderSteps.fieldLoop_succ_go _ _ _ _ _ hm hstop] at hs ⊢
        have hb := fieldLoop_st stop body _ _ _ hs
        obtain ⟨h1, h2, h3, h4⟩ := readFieldBegin_ext hE (hst _ _ _ _ hb)
        obtain ⟨h5, h6⟩ := hext (readFieldBegin d).ty (readFieldBegin d).fid s _ _ h4 hb
        have hstop' : stop (body (readFieldBegin d').ty (readFieldBegin d').fid (readFieldBegin d').dec s).1 = false := by
          rw [h2, h3, h5]; exact hstop
        rw [ReaderSteps.fieldLoop_succ_go _ _ _ _ _ (h1.trans hm) hstop']
        rw [h2, h3, h5]
        exact ih f' _ _ _ (by omega) h6 hs
      · rw [ReaderSteps.fieldLoop_succ_stop _ _ _ _ _ hm hstop] at hs ⊢
        obtain ⟨h1, h2, h3, h4⟩ := readFieldBegin_ext hE (hst _ _ _ _ hs)
        obtain ⟨h5, h6⟩ := hext (readFieldBegin d).ty (readFieldBegin d).fid s _ _ h4 hs
        have hstop' : stop (body (readFieldBegin d').ty (readFieldBegin d').fid (readFieldBegin d').dec s).1 = true := by
          rw [h2, h3, h5]; exact hstop
        rw [ReaderSteps.fieldLoop_succ_stop _ _ _ _ _ (h1.trans hm) hstop']
        rw [h2, h3]
        exact ⟨h5, h6⟩

/-! ### `thrift_skip` -/

theorem skipFields_ext (sk : Nat → Dec → Dec) (hst : ∀ ty d, (sk ty d).status = none → d.status = none)
    (hext : ∀ ty d d', Ext x N d d' → (sk ty d).status = none → Ext x N (sk ty d) (sk ty d'))
    (f f' : Nat) (hf : f ≤ f') {d d' : Dec} (hE : Ext x N d d') (hs : (skipFields sk f d).status = none) :
    Ext x N (skipFields sk f d) (skipFields sk f' d') :=
  (fieldLoop_ext _ _ (fun ty _ d _ h => hst ty d h) (fun ty _ _ d d' hE h => ⟨rfl, hext ty d d' hE h⟩)
    f f' d d' () hf hE hs).2

theorem skipElement_ext (sk : Nat → Dec → Dec)
    (hext : ∀ ty d d', Ext x N d d' → (sk ty d).status = none → Ext x N (sk ty d) (sk ty d'))
    (ty : Nat) {d d' : Dec} (hE : Ext x N d d') (hs : (skipElement Cfg.fixed sk ty d).status = none) :
    Ext x N (skipElement Cfg.fixed sk ty d) (skipElement Cfg.fixed sk ty d') := by
  unfold skipElement at hs ⊢
  simp only [Cfg.fixed, if_true, hE.st, hE.st'] at hs ⊢
  by_cases h : ty = 1 ∨ ty = 2
  · simp only [if_pos h] at hs ⊢; exact (readByteRaw_ext hE hs).2
  · simp only [if_neg h] at hs ⊢; exact hext _ _ _ hE hs

theorem skipListBody_ext (sk : Nat → Dec → Dec)
    (hext : ∀ ty d d', Ext x N d d' → (sk ty d).status = none → Ext x N (sk ty d) (sk ty d'))
    {d d' : Dec} (hE : Ext x N d d') (hs : (skipListBody Cfg.fixed sk d).status = none) :
    Ext x N (skipListBody Cfg.fixed sk d) (skipListBody Cfg.fixed sk d') := by
  unfold skipListBody at hs ⊢
  obtain ⟨h1, h2, h3⟩ := readListBegin_ext hE (repeatOk_st _ _ _ hs)
  rw [h1, h2]
  exact repeatOk_ext _ (fun a a' hA hsA => skipElement_ext sk hext _ hA hsA) _ _ _ h3 hs

theorem skipMapBody_ext (sk : Nat → Dec → Dec)
    (hext : ∀ ty d d', Ext x N d d' → (sk ty d).status = none → Ext x N (sk ty d) (sk ty d'))
    {d d' : Dec} (hE : Ext x N d d') (hs : (skipMapBody Cfg.fixed sk d).status = none) :
    Ext x N (skipMapBody Cfg.fixed sk d) (skipMapBody Cfg.fixed sk d') := by
  unfold skipMapBody at hs ⊢
  obtain ⟨h1, h2, h3, h4⟩ := readMapBegin_ext hE (repeatOk_st _ _ _ hs)
  rw [h1, h2, h3]
  exact repeatOk_ext _
    (fun a a' hA hsA => skipElement_ext sk hext _ (skipElement_ext sk hext _ hA (skipElement_st _ _ _ hsA)) hsA) _ _ _ h4 hs

theorem skipContainer_ext (body : Dec → Dec)
    (hext : ∀ d d', Ext x N d d' → (body d).status = none → Ext x N (body d) (body d'))
    {d d' : Dec} (hE : Ext x N d d') (hs : (skipContainer Cfg.fixed body d).status = none) :
    Ext x N (skipContainer Cfg.fixed body d) (skipContainer Cfg.fixed body d') := by
  unfold skipContainer enterContainer leaveContainer at hs ⊢
  simp only [Cfg.fixed, if_true] at hs ⊢
  rw [hE.lastId]
  by_cases h : maxNesting ≤ d.lastId.length
  · simp only [if_pos h] at hs
    exact (setError_ne _ _ hs).elim
  · simp only [if_neg h, if_true] at hs ⊢
    have h1 := hext _ _ (hE.setLastId (0 :: d.lastId)) hs
    rw [h1.lastId]
    exact h1.setLastId _

theorem skipCase_ext (sk : Nat → Dec → Dec) (hst : ∀ ty d, (sk ty d).status = none → d.status = none)
    (hext : ∀ ty d d', Ext x N d d' → (sk ty d).status = none → Ext x N (sk ty d) (sk ty d'))
    (ty : Nat) {d d' : Dec} (hE : Ext x N d d') (hs : (skipCase Cfg.fixed sk ty d).status = none) :
    Ext x N (skipCase Cfg.fixed sk ty d) (skipCase Cfg.fixed sk ty d') := by
  unfold skipCase at hs ⊢
  by_cases h0 : ty = 0
  · simp only [if_pos h0] at hs; exact (setError_ne _ _ hs).elim
  simp only [if_neg h0] at hs ⊢
  by_cases h1 : ty = 1 ∨ ty = 2
  · simp only [if_pos h1]; exact hE.setBoolPending false
  simp only [if_neg h1] at hs ⊢
  by_cases h3 : ty = 3
  · simp only [if_pos h3] at hs ⊢; exact skipFixed_ext hE 1 hs
  simp only [if_neg h3] at hs ⊢
  by_cases h4 : ty = 4 ∨ ty = 5 ∨ ty = 6
  · simp only [if_pos h4] at hs ⊢; exact (readVarint_ext hE hs).2
  simp only [if_neg h4] at hs ⊢
  by_cases h7 : ty = 7
  · simp only [if_pos h7] at hs ⊢; exact skipFixed_ext hE 8 hs
  simp only [if_neg h7] at hs ⊢
  by_cases h8 : ty = 8
  · simp only [if_pos h8] at hs ⊢; exact (readBinary_ext hE hs).2.2
  simp only [if_neg h8] at hs ⊢
  by_cases h9 : ty = 9 ∨ ty = 10
  · simp only [if_pos h9] at hs ⊢
    exact skipContainer_ext (skipListBody Cfg.fixed sk) (fun a a' hA hsA => skipListBody_ext sk hext hA hsA) hE hs
  simp only [if_neg h9] at hs ⊢
  by_cases h11 : ty = 11
  · simp only [if_pos h11] at hs ⊢
    exact skipContainer_ext (skipMapBody Cfg.fixed sk) (fun a a' hA hsA => skipMapBody_ext sk hext hA hsA) hE hs
  simp only [if_neg h11] at hs ⊢
  by_cases h12 : ty = 12
  · simp only [if_pos h12] at hs ⊢
    have hs' : (skipFields sk d.budget (structBegin d)).status = none := hs
    have hsb : (structBegin d).status = none := fieldLoop_st _ _ _ _ _ hs'
    exact structEnd_ext (skipFields_ext sk hst hext _ _ hE.bud (structBegin_ext hE hsb) hs')
  simp only [if_neg h12] at hs ⊢
  by_cases h13 : ty = 13
  · simp only [if_pos h13] at hs ⊢; exact skipFixed_ext hE 16 hs
  simp only [if_neg h13] at hs
  exact (setError_ne _ _ hs).elim

theorem skip_ext : ∀ (stk ty : Nat) (d d' : Dec), Ext x N d d' → (skip Cfg.fixed stk ty d).status = none →
    Ext x N (skip Cfg.fixed stk ty d) (skip Cfg.fixed stk ty d') := by
  intro stk
  induction stk with
  | zero => intro ty d d' _ hs; exact (setError_ne _ _ hs).elim
  | succ stk ih =>
    intro ty d d' hE hs
    simp only [skip, hE.st, hE.st'] at hs ⊢
    exact skipCase_ext (skip Cfg.fixed stk) (skip_st _ _) ih ty hE hs

theorem skipField_ext (ty : Nat) {d d' : Dec} (hE : Ext x N d d') (hs : (skipField Cfg.fixed ty d).status = none) :
    Ext x N (skipField Cfg.fixed ty d) (skipField Cfg.fixed ty d') :=
  skip_ext _ ty d d' hE hs

end Carquet.Proofs.ImplReads.Prefix
