import Carquet.Proofs.ThriftRoundtripTop
import Carquet.Impl.ThriftParquetReq
import Carquet.Impl.FileReal
/-
`parsePageHeaderC` (the page header as the loaders read it) on the page headers the writers emit:
whatever follows the header in the file, the parse returns the header's fields, the union words
and the header's length.  Built with the Thrift component's table machinery (Proofs/ThriftTable,
ThriftTop): the loop of `pageHdrBody` is described by a table like `tblPageHeader`, with the
member parsers started from the sentinel.
-/
namespace Carquet.Proofs.ReaderHeaderReads
open Carquet.Spec.Thrift Carquet.Spec.ParquetThrift
open Carquet.Impl.Thrift Carquet.Impl.ThriftParquet Carquet.Impl.ThriftParquetReq
open Carquet.Proofs.Thrift

abbrev HState := Top PageHdr

def initHdr : PageHdr := ⟨0, 0, 0, none, 0, 0⟩

def tblPageHdrC (R : Nat) : Table HState :=
  [(1, semI32 (fun s x => { s with val := { s.val with type := x } })),
   (2, semI32 (fun s x => { s with val := { s.val with uncompressed := x } })),
   (3, semI32 (fun s x => { s with val := { s.val with compressed := x } })),
   (4, semI32 (fun s x => { s with val := { s.val with crc := some x } })),
   (5, semStructS (okFields (tblDataPage R) (R + 1))
         (fun _ fs => ofFields (tblDataPage R) ({ numValues := sentinel, encoding := sentinel } : DataPageHeader) fs)
         (fun s m => { s with val := { s.val with word0 := upd s.val.word0 m.numValues, word4 := upd s.val.word4 m.encoding } })),
   (7, semStructS (okFields tblDictPage R)
         (fun _ fs => ofFields tblDictPage ({ numValues := sentinel, encoding := sentinel } : DictionaryPageHeader) fs)
         (fun s m => { s with val := { s.val with word0 := upd s.val.word0 m.numValues, word4 := upd s.val.word4 m.encoding } })),
   (8, semStructS (okFields (tblDataPageV2 R) (R + 1))
         (fun _ fs => ofFields (tblDataPageV2 R) ({ numValues := sentinel, numNulls := sentinel } : DataPageHeaderV2) fs)
         (fun s m => { s with val := { s.val with word0 := upd s.val.word0 m.numValues, word4 := upd s.val.word4 m.numNulls } }))]

theorem parsePageHeaderCX_reads (R : Nat) (hR : R + 3 ≤ maxNesting) (fs : List (Int × TVal)) (bs : List UInt8)
    (henc : Enc (.val (.struct fs)) bs) (hok : okFields (tblPageHdrC R) (R + 2) fs) (r : List UInt8) :
    ∃ res, parsePageHeaderCX (bs ++ r) = res ∧ res.status = none ∧
      res.val = (ofFields (tblPageHdrC R) ⟨initHdr, none⟩ fs).val ∧ res.consumed = bs.length := by
  have key : ∃ res : ParseResult PageHdr, topParse (pageHdrBody Cfg.fixed) initHdr (bs ++ r) = res ∧ res.status = none ∧
      res.val = (ofFields (tblPageHdrC R) ⟨initHdr, none⟩ fs).val ∧ res.consumed = bs.length ∧ res.overlay = false := by
    refine topParse_by_table (tblPageHdrC R) ?_ (pageHdrBody Cfg.fixed) (R + 2) (by omega) ?_ ?_ initHdr fs bs henc hok r
    · intro e he s v hs
      simp only [tblPageHdrC, List.mem_cons, List.not_mem_nil, or_false] at he
      rcases he with rfl | rfl | rfl | rfl | rfl | rfl | rfl <;> exact hs
    · intro e he
      simp only [tblPageHdrC, List.mem_cons, List.not_mem_nil, or_false] at he
      rcases he with rfl | rfl | rfl | rfl | rfl | rfl | rfl
      · apply entry_i32; intro _ d s hs; simp only [pageHdrBody, hs]; rfl
      · apply entry_i32; intro _ d s hs; simp only [pageHdrBody, hs]; rfl
      · apply entry_i32; intro _ d s hs; simp only [pageHdrBody, hs]; rfl
      · apply entry_i32; intro _ d s hs; simp only [pageHdrBody, hs]; rfl
      · apply entry_structS _ _ _ _
          (fun _ d => parseStruct (dataPageHeaderBody Cfg.fixed) ({ numValues := sentinel, encoding := sentinel } : DataPageHeader) d)
        · intro s fs' bs' he' hok'; exact parseDataPage_reads R (by omega) _ fs' bs' he' hok'
        · intro _ d s hs; simp only [pageHdrBody, hs]; rfl
      · apply entry_structS _ _ _ _
          (fun _ d => parseStruct (dictionaryPageHeaderBody Cfg.fixed) ({ numValues := sentinel, encoding := sentinel } : DictionaryPageHeader) d)
        · intro s fs' bs' he' hok'
          exact (parseDictPage_reads R (by omega) _ fs' bs' he' hok').weaken (by omega)
        · intro _ d s hs; simp only [pageHdrBody, hs]; rfl
      · apply entry_structS _ _ _ _
          (fun _ d => parseStruct (dataPageHeaderV2Body Cfg.fixed) ({ numValues := sentinel, numNulls := sentinel } : DataPageHeaderV2) d)
        · intro s fs' bs' he' hok'; exact parseDataPageV2_reads R (by omega) _ fs' bs' he' hok'
        · intro _ d s hs; simp only [pageHdrBody, hs]; rfl
    · intro id hid ty d s hs
      simp [tblPageHdrC] at hid
      simp [pageHdrBody, hs, hid]

  obtain ⟨res, h1, h2, h3, h4, _⟩ := key
  exact ⟨res, h1, h2, h3, h4⟩

/-! ### a data page header as the writers emit it -/

theorem phC_ok (R : Nat) (h : PageHeader) : okFields (tblPageHdrC R) (R + 2) (phFields h) := by
  simp only [phFields, okFields_append]
  refine ⟨⟨⟨⟨?_, ?_⟩, ?_⟩, ?_⟩, ?_⟩
  · exact okFields_f1 _ _ _ _ ⟨_, rfl⟩
  · exact okFields_f1 _ _ _ _ ⟨_, rfl⟩
  · exact okFields_f1 _ _ _ _ ⟨_, rfl⟩
  · exact okFields_fOpt _ _ _ _ _ (fun x _ => ⟨x, rfl⟩)
  · unfold fPageMember
    split
    · exact okFields_f1 _ _ _ _ ⟨_, dataPageHeaderTV_eq _, dp_ok R _⟩
    split
    · exact okFields_f1 _ _ _ _ ⟨_, dataPageHeaderV2TV_eq _, v2_ok R _⟩
    split
    · exact okFields_f1 _ _ _ _ ⟨_, dictionaryPageHeaderTV_eq _, dict_ok R _⟩
    · exact okFields_nil _ _

/-- fields 1 and 2 of a data page header struct are always written: the member parse from the
sentinel ends with the header's value count and encoding -/
theorem dp_of_sentinel (R : Nat) (x : DataPageHeader) :
    (ofFields (tblDataPage R) ({ numValues := sentinel, encoding := sentinel } : DataPageHeader) (dpFields x)).numValues = x.numValues ∧
    (ofFields (tblDataPage R) ({ numValues := sentinel, encoding := sentinel } : DataPageHeader) (dpFields x)).encoding = x.encoding := by
  have e1 : ∀ (s : DataPageHeader) v, stepT (tblDataPage R) s 1 (.i32 v) = { s with numValues := v } := fun _ _ => rfl
  have e2 : ∀ (s : DataPageHeader) v, stepT (tblDataPage R) s 2 (.i32 v) = { s with encoding := v } := fun _ _ => rfl
  have e3 : ∀ (s : DataPageHeader) v, stepT (tblDataPage R) s 3 (.i32 v) = { s with definitionLevelEncoding := v } := fun _ _ => rfl
  have e4 : ∀ (s : DataPageHeader) v, stepT (tblDataPage R) s 4 (.i32 v) = { s with repetitionLevelEncoding := v } := fun _ _ => rfl
  have e5 : ∀ (s : DataPageHeader) (st : Statistics), (stepT (tblDataPage R) s 5 (statisticsTV st)).numValues = s.numValues ∧
      (stepT (tblDataPage R) s 5 (statisticsTV st)).encoding = s.encoding := fun _ _ => ⟨rfl, rfl⟩
  simp only [dpFields, ofFields_append, piece_f1]
  rw [e1, e2, e3, e4]
  cases hst : x.statistics with
  | none => exact ⟨rfl, rfl⟩
  | some st =>
    show (stepT (tblDataPage R) _ 5 (statisticsTV st)).numValues = _ ∧ (stepT (tblDataPage R) _ 5 (statisticsTV st)).encoding = _
    exact e5 _ st

theorem upd_of_i32 (old : Int) (v : Int) (h : isI32 v = true) : upd old v = v := by
  unfold upd sentinel
  simp only [isI32, decide_eq_true_eq] at h
  rw [if_neg (by omega)]

theorem phC_of (R : Nat) (h : PageHeader) (ht : h.type = pageData) (hn : isI32 h.dataPageHeader.numValues = true)
    (he : isI32 h.dataPageHeader.encoding = true) :
    (ofFields (tblPageHdrC R) ⟨initHdr, none⟩ (phFields h)).val =
      ⟨h.type, h.uncompressedPageSize, h.compressedPageSize, h.crc, h.dataPageHeader.numValues, h.dataPageHeader.encoding⟩ := by
  have s1 : stepT (tblPageHdrC R) (⟨initHdr, none⟩ : HState) 1 (.i32 h.type) = ⟨⟨h.type, 0, 0, none, 0, 0⟩, none⟩ := rfl
  have s2 : stepT (tblPageHdrC R) (⟨⟨h.type, 0, 0, none, 0, 0⟩, none⟩ : HState) 2 (.i32 h.uncompressedPageSize) =
      ⟨⟨h.type, h.uncompressedPageSize, 0, none, 0, 0⟩, none⟩ := rfl
  have s3 : stepT (tblPageHdrC R) (⟨⟨h.type, h.uncompressedPageSize, 0, none, 0, 0⟩, none⟩ : HState) 3 (.i32 h.compressedPageSize) =
      ⟨⟨h.type, h.uncompressedPageSize, h.compressedPageSize, none, 0, 0⟩, none⟩ := rfl
  have s4 : ofFields (tblPageHdrC R) (⟨⟨h.type, h.uncompressedPageSize, h.compressedPageSize, none, 0, 0⟩, none⟩ : HState)
      (fOpt 4 TVal.i32 h.crc) = ⟨⟨h.type, h.uncompressedPageSize, h.compressedPageSize, h.crc, 0, 0⟩, none⟩ := by
    cases h.crc <;> rfl
  have s5 : stepT (tblPageHdrC R) (⟨⟨h.type, h.uncompressedPageSize, h.compressedPageSize, h.crc, 0, 0⟩, none⟩ : HState) 5
      (dataPageHeaderTV h.dataPageHeader) =
      ⟨⟨h.type, h.uncompressedPageSize, h.compressedPageSize, h.crc,
        upd 0 (ofFields (tblDataPage R) ({ numValues := sentinel, encoding := sentinel } : DataPageHeader) (dpFields h.dataPageHeader)).numValues,
        upd 0 (ofFields (tblDataPage R) ({ numValues := sentinel, encoding := sentinel } : DataPageHeader) (dpFields h.dataPageHeader)).encoding⟩,
       none⟩ := rfl
  have hmem : fPageMember h = f1 5 (dataPageHeaderTV h.dataPageHeader) := by
    unfold fPageMember; rw [if_pos ht]
  simp only [phFields, hmem, ofFields_append, piece_f1]
  rw [s1, s2, s3, s4, s5]
  obtain ⟨d1, d2⟩ := dp_of_sentinel R h.dataPageHeader
  simp only [d1, d2, upd_of_i32 _ _ hn, upd_of_i32 _ _ he]

/-- **what the loaders read of a data page header written by `parquet_write_page_header`**, with
anything behind it -/
theorem parsePageHeaderC_write (h : PageHeader) (hw : h.wf = true) (ht : h.type = pageData) (r : List UInt8) :
    parsePageHeaderC (writePageHeader h ++ r) =
      .ok (⟨h.type, h.uncompressedPageSize, h.compressedPageSize, h.crc, h.dataPageHeader.numValues, h.dataPageHeader.encoding⟩,
           (writePageHeader h).length) := by
  obtain ⟨hwr, _⟩ := writePageHeader_eq h
  have henc : Enc (.val (.struct (phFields h))) (encode (pageHeaderTV h)) := by
    have := encodes_encode (pageHeaderTV h) (ph_wf h hw)
    rwa [pageHeaderTV_eq] at this
  obtain ⟨res, hres, h1, h2, h3⟩ := parsePageHeaderCX_reads 27 (by simp [maxNesting]) (phFields h) _ henc (phC_ok 27 h) r
  have hwf := hw
  simp only [PageHeader.wf, ht, if_true, Bool.and_eq_true, DataPageHeader.wf] at hwf
  have hn : isI32 h.dataPageHeader.numValues = true := hwf.2.1.1.1.1
  have he : isI32 h.dataPageHeader.encoding = true := hwf.2.1.1.1.2
  rw [phC_of 27 h ht hn he] at h2
  rw [hwr]
  unfold parsePageHeaderC
  rw [hres]
  obtain ⟨st, v, n, ov⟩ := res
  simp only at h1 h2 h3
  subst h1 h2 h3
  rfl

/-! ### the hand-written page header of `carquet_page_writer_finalize` -/

open Carquet.Impl in
/-- the structure whose serialisation `carquet_page_writer_finalize` writes by hand -/
def hdrRec (unc comp crc n : Nat) (stats : Option Writer.PageStats) : PageHeader :=
  { type := 0, uncompressedPageSize := unc, compressedPageSize := comp, crc := some (FileReal.asI32 crc),
    dataPageHeader := { numValues := n, encoding := 0, definitionLevelEncoding := 3, repetitionLevelEncoding := 3,
                        statistics := stats.map (fun s => { nullCount := some (s.nullCount : Int), maxValue := s.max, minValue := s.min }) } }

open Carquet.Impl in
/-- the page writer's header is `parquet_write_page_header` of that structure, provided the
statistics (present for INT32/INT64/FLOAT/DOUBLE pages only) carry non-empty bounds -/
theorem pageHeader_eq_write (unc comp crc n : Nat) (stats : Option Writer.PageStats)
    (hst : ∀ s, stats = some s → s.max ≠ [] ∧ s.min ≠ []) :
    FileReal.pageHeader unc comp crc n stats = writePageHeader (hdrRec unc comp crc n stats) := by
  cases stats with
  | none =>
    simp only [FileReal.pageHeader, writePageHeader, writePageHeaderEnc, hdrRec, wPageMember, pageData, if_true,
      wDataPageHeader, wOptStats, wOptI, Option.map]
  | some s =>
    obtain ⟨h1, h2⟩ := hst s rfl
    have e1 : s.max.isEmpty = false := by cases hm : s.max with | nil => exact absurd hm h1 | cons _ _ => rfl
    have e2 : s.min.isEmpty = false := by cases hm : s.min with | nil => exact absurd hm h2 | cons _ _ => rfl
    simp only [FileReal.pageHeader, writePageHeader, writePageHeaderEnc, hdrRec, wPageMember, pageData, if_true,
      wDataPageHeader, wOptStats, wOptI, Option.map, writeStatistics, wBinNonEmpty, e1, e2, List.isEmpty_nil,
      Bool.false_eq_true, if_false]

open Carquet.Impl in
theorem asI32_isI32 (crc : Nat) (h : crc < 2 ^ 32) : isI32 (FileReal.asI32 crc) = true := by
  unfold isI32 FileReal.asI32
  split <;> simp <;> omega

open Carquet.Impl in
/-- the sizes a page header can carry -/
def HdrFits (unc comp crc n : Nat) (stats : Option Writer.PageStats) : Prop :=
  unc < 2 ^ 31 ∧ comp < 2 ^ 31 ∧ crc < 2 ^ 32 ∧ n < 2 ^ 31 ∧
  ∀ s, stats = some s → s.max ≠ [] ∧ s.min ≠ [] ∧ s.max.length < 2 ^ 31 ∧ s.min.length < 2 ^ 31 ∧ s.nullCount < 2 ^ 63

open Carquet.Impl in
theorem hdrRec_wf (unc comp crc n : Nat) (stats : Option Writer.PageStats) (h : HdrFits unc comp crc n stats) :
    (hdrRec unc comp crc n stats).wf = true := by
  obtain ⟨h1, h2, h3, h4, h5⟩ := h
  have hc := asI32_isI32 crc h3
  simp only [PageHeader.wf, hdrRec, pageData, if_true, Bool.and_eq_true, okOpt, DataPageHeader.wf]
  refine ⟨⟨⟨⟨by decide, ?_⟩, ?_⟩, hc⟩, ⟨⟨⟨⟨?_, by decide⟩, by decide⟩, by decide⟩, ?_⟩⟩
  · simp only [isI32, decide_eq_true_eq]; omega
  · simp only [isI32, decide_eq_true_eq]; omega
  · simp only [isI32, decide_eq_true_eq]; omega
  · cases stats with
    | none => rfl
    | some s =>
      obtain ⟨_, _, m1, m2, m3⟩ := h5 s rfl
      simp only [Option.map, Statistics.wf, okOpt, isBin, isI64, Bool.and_eq_true, decide_eq_true_eq, List.length_nil]
      refine ⟨⟨⟨⟨⟨by omega, by omega⟩, by omega⟩, trivial⟩, m1⟩, m2⟩

open Carquet.Impl in
/-- **what the loaders read of a page header written by the page writer**, with anything behind it -/
theorem parsePageHeaderC_pageWriter (unc comp crc n : Nat) (stats : Option Writer.PageStats)
    (h : HdrFits unc comp crc n stats) (r : List UInt8) :
    parsePageHeaderC (FileReal.pageHeader unc comp crc n stats ++ r) =
      .ok (⟨0, unc, comp, some (FileReal.asI32 crc), n, 0⟩, (FileReal.pageHeader unc comp crc n stats).length) := by
  have heq := pageHeader_eq_write unc comp crc n stats (fun s hs => ⟨(h.2.2.2.2 s hs).1, (h.2.2.2.2 s hs).2.1⟩)
  rw [heq, parsePageHeaderC_write (hdrRec unc comp crc n stats) (hdrRec_wf unc comp crc n stats h) rfl r]
  rfl

end Carquet.Proofs.ReaderHeaderReads
