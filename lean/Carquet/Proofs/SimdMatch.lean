import Carquet.Impl.SimdMore
import Carquet.Spec.Kernels
import Carquet.Proofs.SimdBlocked
import Carquet.Proofs.SimdLevels
/-
C15 helper lemmas: the LZ77 match helpers.  `match_copy`: block copies of `W ≤ offset` bytes and
the pattern fills for offsets 1, 2, 4 all produce what the byte-by-byte overlapping copy produces;
`match_length`: the 16-byte compare / movemask / ctz block finds the first mismatch.
-/
namespace Carquet.Proofs.SimdMatch
open Carquet Carquet.Impl.Simd Carquet.Proofs.SimdBlocked Carquet.Proofs.SimdLevels
open Carquet.Spec.Kernels (matchCopy commonPrefix matchLength)

/-! ### match_copy -/

theorem matchCopy_take : ∀ (n : Nat) (w : List UInt8), n ≤ w.length → matchCopy w n = w.take n
  | 0, w, _ => by cases w <;> rfl
  | n + 1, [], h => by simp at h
  | n + 1, x :: t, h => by
    have hn : n ≤ t.length := by simpa using h
    rw [matchCopy, matchCopy_take n (t ++ [x]) (by simp; omega), List.take_succ_cons,
      List.take_append_of_le_length hn]

theorem copyBytes_add (o a : Nat) : ∀ (b : Nat) (h : List UInt8),
    copyBytes o (a + b) h = copyBytes o b (copyBytes o a h) := by
  induction a with
  | zero => intro b h; simp [copyBytes]
  | succ a ih =>
    intro b h
    rw [Nat.add_right_comm]
    simp only [copyBytes]
    exact ih b _

theorem copyBytes_length_ge (o : Nat) : ∀ (n : Nat) (h : List UInt8), h.length ≤ (copyBytes o n h).length
  | 0, h => Nat.le_refl _
  | n + 1, h => by
    simp only [copyBytes]
    have := copyBytes_length_ge o n (copyByte o h)
    have : h.length ≤ (copyByte o h).length := by simp [copyByte]
    omega

/-- the byte loop appends the overlapping copy of the last `o` bytes -/
theorem copyBytes_spec (o : Nat) (ho : 0 < o) : ∀ (n : Nat) (h : List UInt8), o ≤ h.length →
    copyBytes o n h = h ++ matchCopy (h.drop (h.length - o)) n
  | 0, h, _ => by
    cases hw : h.drop (h.length - o) <;> simp [copyBytes, matchCopy]
  | n + 1, h, hle => by
    have hwlen : (h.drop (h.length - o)).length = o := by rw [List.length_drop]; omega
    cases hw : h.drop (h.length - o) with
    | nil => rw [hw] at hwlen; simp at hwlen; omega
    | cons x t =>
      simp only [copyBytes, copyByte, hw, List.take_succ_cons, List.take_zero, matchCopy]
      rw [copyBytes_spec o ho n (h ++ [x]) (by simp; omega)]
      have ht : t = h.drop (h.length - o + 1) := by
        have := congrArg (List.drop 1) hw
        simpa [List.drop_drop, Nat.add_comm] using this.symm
      have hd : (h ++ [x]).drop ((h ++ [x]).length - o) = t ++ [x] := by
        have e : (h ++ [x]).length - o = h.length - o + 1 := by simp; omega
        rw [e, List.drop_append_of_le_length (by omega), ht]
      rw [hd, List.append_assoc]
      rfl

/-- a block copy of `W ≤ offset` bytes is `W` byte copies -/
theorem copyBlock_eq (W o : Nat) (ho : 0 < o) (hW : W ≤ o) (h : List UInt8) (hle : o ≤ h.length) :
    copyBlock W o h = copyBytes o W h := by
  rw [copyBytes_spec o ho W h hle, matchCopy_take W _ (by rw [List.length_drop]; omega)]
  rfl

theorem copyBlocks_eq (W o : Nat) (ho : 0 < o) (hW : W ≤ o) : ∀ (k : Nat) (h : List UInt8), o ≤ h.length →
    copyBlocks W o k h = copyBytes o (W * k) h
  | 0, h, _ => by simp [copyBlocks, copyBytes]
  | k + 1, h, hle => by
    simp only [copyBlocks]
    rw [copyBlock_eq W o ho hW h hle, copyBlocks_eq W o ho hW k _ (by
      have := copyBytes_length_ge o W h; omega)]
    rw [← copyBytes_add, Nat.mul_succ, Nat.add_comm]

theorem copyBytes_window (w : List UInt8) (hw : 0 < w.length) (n : Nat) :
    (copyBytes w.length n w).drop w.length = matchCopy w n := by
  rw [copyBytes_spec w.length hw n w (Nat.le_refl _)]
  simp

theorem scalar_match_copy (w : List UInt8) (hw : 0 < w.length) (len : Nat) :
    scalarMatchCopy w len = matchCopy w len := by
  unfold scalarMatchCopy
  by_cases h8 : w.length ≥ 8
  · rw [if_pos h8, copyBlocks_eq 8 w.length hw h8 _ w (Nat.le_refl _), ← copyBytes_add]
    have : 8 * (len / 8) + len % 8 = len := Nat.div_add_mod len 8
    rw [this, copyBytes_window w hw]
  · rw [if_neg h8, copyBytes_window w hw]

/-- one full turn of the window -/
theorem matchCopy_period (w : List UInt8) (hw : 0 < w.length) (n : Nat) :
    matchCopy w (w.length + n) = w ++ matchCopy w n := by
  rw [← copyBytes_window w hw, copyBytes_add, ← copyBlock_eq w.length w.length hw (Nat.le_refl _) w (Nat.le_refl _)]
  have e : copyBlock w.length w.length w = w ++ w := by simp [copyBlock]
  rw [e, copyBytes_spec w.length hw n (w ++ w) (by simp)]
  simp

theorem matchCopy_blocks (w : List UInt8) (hw : 0 < w.length) (r : Nat) : ∀ k,
    matchCopy w (w.length * k + r) = storeBlocks w k ++ matchCopy w r
  | 0 => by simp [storeBlocks]
  | k + 1 => by
    have : w.length * (k + 1) + r = w.length + (w.length * k + r) := by rw [Nat.mul_succ]; omega
    rw [this, matchCopy_period w hw, matchCopy_blocks w hw r k]
    simp [storeBlocks]

theorem storeBlocks_add (w : List UInt8) (b : Nat) : ∀ a, storeBlocks w a ++ storeBlocks w b = storeBlocks w (a + b)
  | 0 => by simp [storeBlocks]
  | a + 1 => by
    rw [Nat.add_right_comm]
    simp only [storeBlocks, List.append_assoc]
    rw [storeBlocks_add w b a]

theorem storeBlocks_quad (w : List UInt8) : ∀ k, storeBlocks (w ++ w ++ w ++ w) k = storeBlocks w (4 * k)
  | 0 => rfl
  | k + 1 => by
    have : 4 * (k + 1) = 4 + 4 * k := by omega
    rw [this, ← storeBlocks_add w (4 * k) 4, storeBlocks, storeBlocks_quad w k]
    simp [storeBlocks]

theorem storeBlocks_replicate (v : UInt8) (n : Nat) : ∀ k, storeBlocks (List.replicate n v) k = List.replicate (n * k) v
  | 0 => by simp [storeBlocks]
  | k + 1 => by
    rw [storeBlocks, storeBlocks_replicate v n k, List.replicate_append_replicate, Nat.mul_succ, Nat.add_comm]

theorem matchCopy_single (v : UInt8) : ∀ n, matchCopy [v] n = List.replicate n v
  | 0 => rfl
  | n + 1 => by
    show v :: matchCopy ([] ++ [v]) n = _
    rw [List.nil_append, matchCopy_single v n]; rfl

theorem list_len1 (w : List UInt8) (h : w.length = 1) : w = [w.getD 0 0] := by
  match w, h with
  | [a], _ => rfl

theorem list_len2' (w : List UInt8) (h : w.length = 2) : w = [w.getD 0 0, w.getD 1 0] := by
  match w, h with
  | [a, b], _ => rfl

theorem sse_match_copy (w : List UInt8) (hw : 0 < w.length) (len : Nat) :
    sseMatchCopy w len = matchCopy w len := by
  unfold sseMatchCopy
  by_cases h16 : w.length ≥ 16
  · rw [if_pos h16]
    have hb := copyBlocks_eq 16 w.length hw h16 (len / 16) w (Nat.le_refl _)
    rw [hb]
    have hlen : w.length ≤ (copyBytes w.length (16 * (len / 16)) w).length := copyBytes_length_ge _ _ _
    have hsplit : 16 * (len / 16) + len % 16 = len := Nat.div_add_mod len 16
    by_cases h8 : len % 16 ≥ 8
    · have e : copyBlockIf (decide (len % 16 ≥ 8)) 8 w.length (copyBytes w.length (16 * (len / 16)) w) =
          copyBytes w.length 8 (copyBytes w.length (16 * (len / 16)) w) := by
        simp only [copyBlockIf, h8, decide_true, if_true]
        exact copyBlock_eq 8 w.length hw (by omega) _ hlen
      rw [e, ← copyBytes_add, ← copyBytes_add]
      have : 16 * (len / 16) + (8 + len % 16 % 8) = len := by omega
      rw [this, copyBytes_window w hw]
    · have e : copyBlockIf (decide (len % 16 ≥ 8)) 8 w.length (copyBytes w.length (16 * (len / 16)) w) =
          copyBytes w.length (16 * (len / 16)) w := by
        simp [copyBlockIf, h8]
      rw [e, ← copyBytes_add]
      have : 16 * (len / 16) + len % 16 % 8 = len := by omega
      rw [this, copyBytes_window w hw]
  · rw [if_neg h16]
    by_cases h1 : w.length = 1
    · rw [if_pos h1]
      have hw1 := list_len1 w h1
      generalize w.getD 0 0 = v at *
      subst hw1
      rw [set1, storeBlocks_replicate, List.replicate_append_replicate, matchCopy_single]
      congr 1
      exact Nat.div_add_mod len 16
    · rw [if_neg h1]
      by_cases h2 : w.length = 2
      · rw [if_pos h2, ← list_len2' w h2]
        have hm := matchCopy_blocks w hw (len % 2) (len / 2)
        rw [h2, Nat.div_add_mod] at hm
        rw [hm]
        congr 1
        rcases Nat.mod_two_eq_zero_or_one len with e | e
        · rw [e]; cases w <;> rfl
        · rw [e, matchCopy_take 1 w (by omega)]
          have := list_len2' w h2
          rw [this]; rfl
      · rw [if_neg h2]
        by_cases h4 : w.length = 4
        · rw [if_pos h4, storeBlocks_quad, storeBlocks_add]
          have hm := matchCopy_blocks w hw (len % 4) (4 * (len / 16) + len % 16 / 4)
          have : w.length * (4 * (len / 16) + len % 16 / 4) + len % 4 = len := by rw [h4]; omega
          rw [this] at hm
          rw [hm, matchCopy_take (len % 4) w (by rw [h4]; omega)]
        · rw [if_neg h4, copyBytes_window w hw]

/-! ### match_length -/

theorem commonPrefix_zip : ∀ a b : List UInt8,
    commonPrefix a b = firstIdx (fun pm : UInt8 × UInt8 => pm.1 != pm.2) (a.zip b)
  | [], _ => by simp [commonPrefix, firstIdx]
  | _ :: _, [] => by simp [commonPrefix, firstIdx]
  | x :: xs, y :: ys => by
    simp only [commonPrefix, List.zip_cons_cons, firstIdx]
    by_cases h : x = y
    · simp [h, commonPrefix_zip xs ys]
    · simp [h]

theorem scalar_match_length (buf : List UInt8) (off : Nat) : scalarMatchLength buf off = matchLength buf off := by
  unfold scalarMatchLength matchLength matchPairs
  rw [commonPrefix_zip]

theorem match_mask (pm : List (UInt8 × UInt8)) :
    movemaskEpi8 (cmpeqEpi8 (pm.map (·.1)) (pm.map (·.2))) = pm.map fun q => q.1 == q.2 := by
  induction pm with
  | nil => rfl
  | cons q qs ih =>
    simp only [List.map_cons, cmpeqEpi8, List.zipWith_cons_cons, movemaskEpi8] at *
    rw [ih]
    congr 1
    cases q.1 == q.2 <;> decide

theorem sse_match_block (b : List (UInt8 × UInt8)) (h : b.length = 16) :
    sseMatchBlk b = if firstIdx (fun pm => pm.1 != pm.2) b < 16 then some (firstIdx (fun pm => pm.1 != pm.2) b) else none := by
  unfold sseMatchBlk
  simp only [match_mask, ctzNot, firstIdx_not_map]
  have hall := all_id_map (fun q : UInt8 × UInt8 => q.1 == q.2) b
  rw [h] at hall
  have e : (fun pm : UInt8 × UInt8 => pm.1 != pm.2) = (fun q => !(q.1 == q.2)) := rfl
  by_cases hlt : firstIdx (fun q : UInt8 × UInt8 => !(q.1 == q.2)) b < 16
  · have : ¬ ((b.map fun q => q.1 == q.2).all id = true) := fun e => (hall.mp e) hlt
    rw [e, if_pos hlt, if_neg this]
  · have : (b.map fun q => q.1 == q.2).all id = true := hall.mpr hlt
    rw [e, if_neg hlt, if_pos this]

theorem sse_match_length (buf : List UInt8) (off : Nat) : sseMatchLength buf off = matchLength buf off := by
  unfold sseMatchLength
  rw [blockedSearch_eq 16 sseMatchBlk _ sse_match_block, ← scalar_match_length]
  rfl

end Carquet.Proofs.SimdMatch
