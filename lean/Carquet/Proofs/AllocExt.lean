import Carquet.Impl.AllocExt
import Carquet.Proofs.AllocFlow
import Carquet.Proofs.AllocFlowClean
/-
Helper lemmas for the second wave of C19 models (Impl/AllocExt.lean): metadata builders (Bloom filter,
statistics builder, page index builders with their heap bookkeeping) and the page-by-page column reader.
-/
namespace Carquet.Impl.Alloc.Ext
open Carquet.Impl.Alloc
open Carquet.Impl.Alloc.Flow
open Carquet.Impl.Alloc.Buffer (Buf)

/-! ### Bloom filter, statistics builder, index serialisers -/

theorem clean_bloomCreate : Clean bloomCreate := clean_bind clean_req (fun _ => clean_req)

theorem clean_statsBuilderCreate : Clean statsBuilderCreate := clean_req

theorem clean_indexSerialize (out : Buf) (chunks : List (List UInt8)) : Clean (indexSerialize true out chunks) := by
  simp only [indexSerialize, if_true]; exact clean_encodeChecked out chunks

/-- the copy of one bound followed by code that gives up when the copy could not be made -/
theorem clean_statsCopy {ar : Option Arena.Arena} {len : Nat} {k : Option Arena.Arena × Bool → M α}
    (h1 : ∀ a, Clean (k (a, true))) (h2 : ∀ a, Fails (k (a, false))) : Clean (M.bind (statsCopy ar len) k) := by
  cases ar with
  | none =>
    simp only [statsCopy]
    have : M.bind (M.bind reqU fun got => M.pure (none, got)) k = M.bind reqU (fun got => k (none, got)) := by
      funext o; simp [M.bind, M.pure, reqU]
    rw [this]
    exact clean_reqU (h1 none) (h2 none)
  | some a =>
    simp only [statsCopy]
    have : M.bind (M.bind (arenaU a len 16) fun r => M.pure (some r.1, r.2)) k =
        M.bind (arenaU a len 16) (fun r => k (some r.1, r.2)) := by
      funext o
      simp only [M.bind, M.pure]
      generalize arenaU a len 16 o = r
      obtain ⟨res, o'⟩ := r
      cases res <;> rfl
    rw [this]
    exact clean_arenaU (fun ar' => h1 (some ar')) (fun ar' => h2 (some ar'))

theorem clean_statisticsBuild (ar : Option Arena.Arena) (minLen maxLen : Nat) :
    Clean (statisticsBuild true ar minLen maxLen) := by
  unfold statisticsBuild
  have tail : ∀ (mn : Option Arena.Arena × Bool),
      Clean (M.bind (if maxLen > 0 then statsCopy mn.1 maxLen else M.pure (mn.1, false)) fun mx =>
        guardGot (true && decide (maxLen > 0)) mx.2 <| M.pure (mx.1, (⟨mn.2, mx.2⟩ : BuiltStats))) := by
    intro mn
    by_cases hx : maxLen > 0
    · simp only [hx, if_true, Bool.true_and, decide_true]
      refine clean_statsCopy (fun a => ?_) (fun a => ?_)
      · exact clean_guard_true _ (clean_pure _)
      · exact fails_guard _ (by decide)
    · simp only [hx, if_false, Bool.true_and, decide_false]
      exact clean_bind (clean_pure _) (fun _ => clean_guard_false _ _ (clean_pure _))
  by_cases hn : minLen > 0
  · simp only [hn, if_true, Bool.true_and, decide_true]
    refine clean_statsCopy (fun a => ?_) (fun a => ?_)
    · exact clean_guard_true _ (tail (a, true))
    · exact fails_guard _ (by decide)
  · simp only [hn, if_false, Bool.true_and, decide_false]
    exact clean_bind (clean_pure _) (fun _ => clean_guard_false _ _ (tail _))

end Carquet.Impl.Alloc.Ext

namespace Carquet.Impl.Alloc.Ext
open Carquet.Impl.Alloc
open Carquet.Impl.Alloc.Flow

/-! ### heap bookkeeping of the index builders -/

/-- number of live blocks among some pointer fields -/
def liveCount : List Ptr → Nat
  | [] => 0
  | .live :: ps => liveCount ps + 1
  | _ :: ps => liveCount ps

def NoDangling (ps : List Ptr) : Prop := ∀ p ∈ ps, p ≠ .dangling

theorem noDangling_cons {p : Ptr} {ps : List Ptr} : NoDangling (p :: ps) ↔ p ≠ .dangling ∧ NoDangling ps := by
  simp [NoDangling]

theorem liveCount_append (a b : List Ptr) : liveCount (a ++ b) = liveCount a + liveCount b := by
  induction a with
  | nil => simp [liveCount]
  | cons p ps ih => cases p <;> simp [liveCount, ih] <;> omega

theorem noDangling_append {a b : List Ptr} : NoDangling (a ++ b) ↔ NoDangling a ∧ NoDangling b := by
  simp only [NoDangling, List.mem_append]
  constructor
  · intro h; exact ⟨fun p hp => h p (Or.inl hp), fun p hp => h p (Or.inr hp)⟩
  · rintro ⟨h1, h2⟩ p (hp | hp)
    · exact h1 p hp
    · exact h2 p hp

/-- freeing pointer fields none of which dangles: exactly the live ones are released, nothing is touched twice -/
theorem freeAll_spec (ps : List Ptr) (m : Mem) (hn : NoDangling ps) (hc : m.crashed = false) (hl : liveCount ps ≤ m.liveBlocks) :
    freeAll ps m = ⟨m.liveBlocks - liveCount ps, false⟩ := by
  induction ps generalizing m with
  | nil => cases m; simp_all [freeAll, liveCount]
  | cons p ps ih =>
    obtain ⟨hp, hps⟩ := noDangling_cons.mp hn
    cases p with
    | null =>
      simp only [freeAll, freeP, liveCount] at *
      exact ih m hps hc hl
    | live =>
      simp only [freeAll, freeP, liveCount] at *
      rw [ih _ hps (by simpa using hc) (by simp; omega)]
      simp; omega
    | dangling => exact absurd rfl hp

/-- malloc: one more live block and a live pointer, or NULL and nothing changed -/
theorem mallocP_spec (m : Mem) (o : Oracle) :
    ((mallocP m o).1 = .live ∧ (mallocP m o).2.1 = { m with liveBlocks := m.liveBlocks + 1 }) ∨
    ((mallocP m o).1 = .null ∧ (mallocP m o).2.1 = m) := by
  unfold mallocP
  by_cases hg : o.grant = true <;> simp [hg]

theorem mallocN_spec (n : Nat) (m : Mem) (o : Oracle) :
    NoDangling (mallocN n m o).1 ∧ (mallocN n m o).1.length = n ∧
    (mallocN n m o).2.1 = { m with liveBlocks := m.liveBlocks + liveCount (mallocN n m o).1 } := by
  induction n generalizing m o with
  | zero => simp [mallocN, NoDangling, liveCount]
  | succ n ih =>
    simp only [mallocN]
    obtain ⟨h1, h2, h3⟩ := ih (mallocP m o).2.1 (mallocP m o).2.2
    rcases mallocP_spec m o with ⟨hp, hm⟩ | ⟨hp, hm⟩
    · refine ⟨noDangling_cons.mpr ⟨by rw [hp]; decide, h1⟩, by simp [h2], ?_⟩
      rw [h3, hm, hp]; simp [liveCount]; omega
    · refine ⟨noDangling_cons.mpr ⟨by rw [hp]; decide, h1⟩, by simp [h2], ?_⟩
      rw [h3, hm, hp]; simp [liveCount]

theorem all_live_iff (ps : List Ptr) : ps.all (· == .live) = true ↔ ∀ p ∈ ps, p = .live := by
  simp [List.all_eq_true]

theorem liveCount_all_live (ps : List Ptr) (h : ∀ p ∈ ps, p = .live) : liveCount ps = ps.length := by
  induction ps with
  | nil => rfl
  | cons p ps ih =>
    have hp := h p (by simp); subst hp
    simp [liveCount, ih (fun q hq => h q (by simp [hq]))]

theorem noDangling_of_all_live (ps : List Ptr) (h : ∀ p ∈ ps, p = .live) : NoDangling ps := by
  intro p hp; rw [h p hp]; decide

/-- the builder owns exactly its blocks: the struct, six live arrays, the page copies that exist; nothing dangles;
`base` blocks belong to someone else -/
structure ColIdx.Owns (b : ColIdx) (m : Mem) (base : Nat) : Prop where
  arrays : ∀ p ∈ b.arrays, p = .live
  mins : NoDangling (b.pages.map (·.1))
  maxs : NoDangling (b.pages.map (·.2))
  count : m.liveBlocks = base + 1 + b.arrays.length + liveCount (b.pages.map (·.1)) + liveCount (b.pages.map (·.2))
  clean : m.crashed = false

/-- destroying a builder that owns its blocks frees each of them exactly once -/
theorem colIdxDestroy_owned (b : ColIdx) (m : Mem) (base : Nat) (h : b.Owns m base) : colIdxDestroy b m = ⟨base, false⟩ := by
  unfold colIdxDestroy
  have hc := h.count
  rw [freeAll_spec _ m h.mins h.clean (by omega)]
  rw [freeAll_spec _ _ h.maxs rfl (by simp; omega)]
  rw [freeAll_spec _ _ (noDangling_of_all_live _ h.arrays) rfl (by simp [liveCount_all_live _ h.arrays]; omega)]
  simp [freeP, liveCount_all_live _ h.arrays]
  omega

/-- growing array by array (after F20i): arrays that were live stay live, no block is gained or lost, nothing
dangles — whether or not a request is refused on the way -/
theorem growSeq_spec (ps : List Ptr) (m : Mem) (o : Oracle) (h : ∀ p ∈ ps, p = .live) :
    (∀ p ∈ (growSeq ps m o).1, p = .live) ∧ (growSeq ps m o).1.length = ps.length ∧ (growSeq ps m o).2.2.1 = m := by
  induction ps generalizing m o with
  | nil => simp [growSeq]
  | cons p ps ih =>
    have hp := h p (by simp); subst hp
    have hps : ∀ q ∈ ps, q = Ptr.live := fun q hq => h q (by simp [hq])
    simp only [growSeq]
    by_cases hg : o.grant = true
    · have e1 : (reallocP Ptr.live m o).1 = true := by simp [reallocP, hg]
      have e2 : (reallocP Ptr.live m o).2.1 = m := by simp [reallocP, hg]
      simp only [e1, if_true, e2]
      obtain ⟨h1, h2, h3⟩ := ih m (reallocP Ptr.live m o).2.2 hps
      refine ⟨?_, by simp [h2], h3⟩
      intro q hq
      simp only [List.mem_cons] at hq
      rcases hq with hq | hq
      · exact hq
      · exact h1 q hq
    · have e1 : (reallocP Ptr.live m o).1 = false := by simp [reallocP, hg]
      have e2 : (reallocP Ptr.live m o).2.1 = m := by simp [reallocP, hg]
      simp only [e1, e2]
      exact ⟨by simpa using h, rfl, rfl⟩

theorem colIdxEnsure_owned (b : ColIdx) (m : Mem) (o : Oracle) (base : Nat) (h : b.Owns m base) :
    (colIdxEnsure true b m o).2.1.Owns (colIdxEnsure true b m o).2.2.1 base ∧
    (colIdxEnsure true b m o).2.1.pages = b.pages := by
  unfold colIdxEnsure
  by_cases hcap : b.pages.length < b.capacity
  · simp [hcap]; exact h
  · obtain ⟨g1, g2, g3⟩ := growSeq_spec b.arrays m o h.arrays
    simp only [hcap, if_false, if_true]
    by_cases hall : (growSeq b.arrays m o).2.1 = true
    · simp only [hall, if_true]
      refine ⟨⟨g1, h.mins, h.maxs, ?_, ?_⟩, by trivial⟩
      · show (growSeq b.arrays m o).2.2.1.liveBlocks = base + 1 + (growSeq b.arrays m o).1.length + _ + _
        rw [g3, g2]; exact h.count
      · show (growSeq b.arrays m o).2.2.1.crashed = false
        rw [g3]; exact h.clean
    · simp only [hall]
      refine ⟨⟨g1, h.mins, h.maxs, ?_, ?_⟩, by trivial⟩
      · show (growSeq b.arrays m o).2.2.1.liveBlocks = base + 1 + (growSeq b.arrays m o).1.length + _ + _
        rw [g3, g2]; exact h.count
      · show (growSeq b.arrays m o).2.2.1.crashed = false
        rw [g3]; exact h.clean

theorem liveCount_snoc (ps : List Ptr) (p : Ptr) : liveCount (ps ++ [p]) = liveCount ps + liveCount [p] :=
  liveCount_append ps [p]

theorem owns_push {b : ColIdx} {m : Mem} {base : Nat} (h : b.Owns m base) (mn mx : Ptr) (hmn : mn ≠ .dangling) (hmx : mx ≠ .dangling)
    (m' : Mem) (hc : m'.crashed = false) (hl : m'.liveBlocks = m.liveBlocks + liveCount [mn] + liveCount [mx]) :
    ColIdx.Owns { b with pages := b.pages ++ [(mn, mx)] } m' base := by
  refine ⟨h.arrays, ?_, ?_, ?_, hc⟩
  · simp only [List.map_append, List.map_cons, List.map_nil]
    exact noDangling_append.mpr ⟨h.mins, by intro p hp; simp at hp; subst hp; exact hmn⟩
  · simp only [List.map_append, List.map_cons, List.map_nil]
    exact noDangling_append.mpr ⟨h.maxs, by intro p hp; simp at hp; subst hp; exact hmx⟩
  · simp only [List.map_append, List.map_cons, List.map_nil, liveCount_append]
    have := h.count
    omega

/-- carquet_column_index_add_page after F20i, on a builder that owns its blocks, under every oracle: the builder still
owns exactly its blocks afterwards; a failing call leaves the pages as they were, a succeeding one adds one page -/
theorem colIdxAddPage_owned (b : ColIdx) (hasMin hasMax : Bool) (m : Mem) (o : Oracle) (base : Nat) (h : b.Owns m base) :
    (colIdxAddPage true b hasMin hasMax m o).2.1.Owns (colIdxAddPage true b hasMin hasMax m o).2.2.1 base ∧
    ((colIdxAddPage true b hasMin hasMax m o).1 ≠ .ok → (colIdxAddPage true b hasMin hasMax m o).2.1.pages = b.pages) ∧
    ((colIdxAddPage true b hasMin hasMax m o).1 = .ok →
        (colIdxAddPage true b hasMin hasMax m o).2.1.pages.length = b.pages.length + 1) := by
  obtain ⟨hown, hpages⟩ := colIdxEnsure_owned b m o base h
  unfold colIdxAddPage
  generalize colIdxEnsure true b m o = r at hown hpages
  obtain ⟨st, b1, m1, o1⟩ := r
  simp only at hown hpages
  cases st with
  | oom => simp only; exact ⟨hown, fun _ => hpages, fun hc => by cases hc⟩
  | other => simp only; exact ⟨hown, fun _ => hpages, fun hc => by cases hc⟩
  | ok =>
    simp only
    cases hasMin with
    | false =>
      simp only [Bool.false_and, Bool.false_eq_true, if_false]
      cases hasMax with
      | false =>
        simp only [Bool.false_and, Bool.false_eq_true, if_false]
        refine ⟨owns_push hown .null .null (by decide) (by decide) m1 hown.clean (by simp [liveCount]), fun hc => absurd rfl hc, fun _ => ?_⟩
        simp [hpages]
      | true =>
        simp only [Bool.true_and, if_true]
        rcases mallocP_spec m1 o1 with ⟨hp, hm⟩ | ⟨hp, hm⟩
        · simp only [hp, bne_self_eq_false, Bool.false_eq_true, if_false]
          refine ⟨owns_push hown .null .live (by decide) (by decide) _ (by rw [hm]; exact hown.clean) (by rw [hm]; simp [liveCount]),
                  fun hc => absurd rfl hc, fun _ => ?_⟩
          simp [hpages]
        · have hne : ((mallocP m1 o1).1 != Ptr.live) = true := by rw [hp]; decide
          simp only [hne, if_true]
          refine ⟨?_, fun _ => hpages, fun hc => by cases hc⟩
          show b1.Owns (freeP Ptr.null (mallocP m1 o1).2.1) base
          simp only [freeP, hm]; exact hown
    | true =>
      simp only [Bool.true_and, if_true]
      rcases mallocP_spec m1 o1 with ⟨hp, hm⟩ | ⟨hp, hm⟩
      · -- the minimum was copied
        simp only [hp, bne_self_eq_false, Bool.false_eq_true, if_false]
        cases hasMax with
        | false =>
          simp only [Bool.false_and, Bool.false_eq_true, if_false]
          refine ⟨owns_push hown .live .null (by decide) (by decide) _ (by rw [hm]; exact hown.clean) (by rw [hm]; simp [liveCount]),
                  fun hc => absurd rfl hc, fun _ => ?_⟩
          simp [hpages]
        | true =>
          simp only [Bool.true_and, if_true]
          rcases mallocP_spec (mallocP m1 o1).2.1 (mallocP m1 o1).2.2 with ⟨hp2, hm2⟩ | ⟨hp2, hm2⟩
          · simp only [hp2, bne_self_eq_false, Bool.false_eq_true, if_false]
            refine ⟨owns_push hown .live .live (by decide) (by decide) _ (by rw [hm2, hm]; exact hown.clean)
                      (by rw [hm2, hm]; simp [liveCount]), fun hc => absurd rfl hc, fun _ => ?_⟩
            simp [hpages]
          · have hne : ((mallocP (mallocP m1 o1).2.1 (mallocP m1 o1).2.2).1 != Ptr.live) = true := by rw [hp2]; decide
            simp only [hne, if_true]
            refine ⟨?_, fun _ => hpages, fun hc => by cases hc⟩
            -- the copy of the minimum is released again
            show b1.Owns (freeP Ptr.live (mallocP (mallocP m1 o1).2.1 (mallocP m1 o1).2.2).2.1) base
            rw [hm2, hm]
            refine ⟨hown.arrays, hown.mins, hown.maxs, ?_, ?_⟩
            · simp [freeP]; exact hown.count
            · simp [freeP]; exact hown.clean
      · have hne : ((mallocP m1 o1).1 != Ptr.live) = true := by rw [hp]; decide
        simp only [hne, if_true]
        refine ⟨?_, fun _ => hpages, fun hc => by cases hc⟩
        show b1.Owns (mallocP m1 o1).2.1 base
        rw [hm]; exact hown

/-- a whole session after F20i: pages are added until a call fails, then the builder is destroyed — under every oracle
no freed block is touched and every block is released -/
theorem colIdxSession_safe (pgs : List (Bool × Bool)) (b : ColIdx) (m : Mem) (o : Oracle) (base : Nat) (h : b.Owns m base) :
    (colIdxSession true pgs b m o).2.1 = ⟨base, false⟩ := by
  induction pgs generalizing b m o with
  | nil => simp only [colIdxSession]; exact colIdxDestroy_owned b m base h
  | cons pg pgs ih =>
    simp only [colIdxSession]
    obtain ⟨hown, _, _⟩ := colIdxAddPage_owned b pg.1 pg.2 m o base h
    generalize colIdxAddPage true b pg.1 pg.2 m o = r at hown
    obtain ⟨st, b1, m1, o1⟩ := r
    simp only at hown
    cases st with
    | ok => simp only; exact ih b1 m1 o1 hown
    | oom => simp only; exact colIdxDestroy_owned b1 m1 base hown
    | other => simp only; exact colIdxDestroy_owned b1 m1 base hown

/-- carquet_column_index_builder_create: a builder that owns its blocks, or NULL with nothing left allocated -/
theorem colIdxCreate_spec (base : Nat) (o : Oracle) :
    match colIdxCreate ⟨base, false⟩ o with
    | (some b, m, _) => b.Owns m base ∧ b.pages = []
    | (none, m, _) => m = ⟨base, false⟩ := by
  unfold colIdxCreate
  by_cases hg : o.grant = true
  · simp only [hg, Bool.not_true, Bool.false_eq_true, if_false]
    obtain ⟨h1, h2, h3⟩ := mallocN_spec 6 ⟨base + 1, false⟩ o.rest
    by_cases hall : (mallocN 6 ⟨base + 1, false⟩ o.rest).1.all (· == .live) = true
    · simp only [hall, if_true]
      have hl := (all_live_iff _).mp hall
      refine ⟨⟨hl, by simp [NoDangling], by simp [NoDangling], ?_, ?_⟩, by trivial⟩
      · show (mallocN 6 ⟨base + 1, false⟩ o.rest).2.1.liveBlocks = _
        rw [h3, liveCount_all_live _ hl, h2]; simp [liveCount]
      · show (mallocN 6 ⟨base + 1, false⟩ o.rest).2.1.crashed = false
        rw [h3]
    · simp only [hall]
      -- some array is missing: destroy releases the ones that were obtained, and the struct
      show colIdxDestroy ⟨(mallocN 6 ⟨base + 1, false⟩ o.rest).1, [], 16⟩ (mallocN 6 ⟨base + 1, false⟩ o.rest).2.1 = ⟨base, false⟩
      unfold colIdxDestroy
      simp only [List.map_nil, freeAll]
      rw [freeAll_spec _ _ h1 (by rw [h3]) (by rw [h3]; simp)]
      rw [h3]; simp [freeP]
  · simp [hg]

/-! ### offset index builder -/

structure OffIdx.Owns (b : OffIdx) (m : Mem) (base : Nat) : Prop where
  arrays : ∀ p ∈ b.arrays, p = .live
  unc : b.unc = if b.track then Ptr.live else Ptr.null
  count : m.liveBlocks = base + 1 + b.arrays.length + (if b.track then 1 else 0)
  clean : m.crashed = false

theorem offIdxDestroy_owned (b : OffIdx) (m : Mem) (base : Nat) (h : b.Owns m base) : offIdxDestroy b m = ⟨base, false⟩ := by
  unfold offIdxDestroy
  have hc := h.count
  rw [freeAll_spec _ m (noDangling_of_all_live _ h.arrays) h.clean (by rw [liveCount_all_live _ h.arrays]; omega)]
  rw [h.unc, liveCount_all_live _ h.arrays]
  by_cases htr : b.track = true
  · rw [if_pos htr] at hc ⊢
    simp [freeP]; omega
  · rw [if_neg htr] at hc ⊢
    simp [freeP]; omega

theorem reallocP_live (m : Mem) (o : Oracle) : (reallocP Ptr.live m o).2.1 = m := by
  unfold reallocP; by_cases hg : o.grant = true <;> simp [hg]

theorem growArrays_owned (arrays : List Ptr) (m : Mem) (o : Oracle) (h : ∀ p ∈ arrays, p = .live) :
    (∀ p ∈ (growArrays true arrays m o).2.1, p = .live) ∧ (growArrays true arrays m o).2.1.length = arrays.length ∧
    (growArrays true arrays m o).2.2.1 = m := by
  obtain ⟨g1, g2, g3⟩ := growSeq_spec arrays m o h
  unfold growArrays
  by_cases hall : (growSeq arrays m o).2.1 = true
  · simp only [hall, if_true]; exact ⟨g1, g2, g3⟩
  · simp only [hall, if_true]; exact ⟨g1, g2, g3⟩

theorem offIdxGrow_owned (b : OffIdx) (m : Mem) (o : Oracle) (base : Nat) (h : b.Owns m base) :
    (offIdxGrow true b m o).2.1.Owns (offIdxGrow true b m o).2.2.1 base := by
  obtain ⟨g1, g2, g3⟩ := growArrays_owned b.arrays m o h.arrays
  obtain ⟨arrays, unc, track, np, cap⟩ := b
  have hunc := h.unc
  have hcount := h.count
  have hclean := h.clean
  simp only at hunc hcount g1 g2 g3
  unfold offIdxGrow
  simp only
  generalize growArrays true arrays m o = r at g1 g2 g3
  obtain ⟨st, arrs, m1, o1⟩ := r
  simp only at g1 g2 g3
  subst g3
  rw [← g2] at hcount
  cases st with
  | oom => exact ⟨g1, hunc, hcount, hclean⟩
  | other => exact ⟨g1, hunc, hcount, hclean⟩
  | ok =>
    cases track with
    | false =>
      simp only [Bool.false_eq_true, if_false] at hunc hcount ⊢
      exact ⟨g1, by simpa using hunc, by simpa using hcount, hclean⟩
    | true =>
      simp only [if_true] at hunc hcount ⊢
      subst hunc
      have hre := reallocP_live m1 o1
      by_cases hr : (reallocP Ptr.live m1 o1).1 = true
      · simp only [hr, if_true]
        exact ⟨g1, by simp, by show (reallocP Ptr.live m1 o1).2.1.liveBlocks = _; rw [hre]; simpa using hcount,
               by show (reallocP Ptr.live m1 o1).2.1.crashed = false; rw [hre]; exact hclean⟩
      · simp only [hr]
        exact ⟨g1, by simp, by show (reallocP Ptr.live m1 o1).2.1.liveBlocks = _; rw [hre]; simpa using hcount,
               by show (reallocP Ptr.live m1 o1).2.1.crashed = false; rw [hre]; exact hclean⟩

theorem offIdxAddPage_owned (b : OffIdx) (m : Mem) (o : Oracle) (base : Nat) (h : b.Owns m base) :
    (offIdxAddPage true b m o).2.1.Owns (offIdxAddPage true b m o).2.2.1 base := by
  unfold offIdxAddPage
  by_cases hcap : b.numPages < b.capacity
  · simp only [hcap, if_true]; exact ⟨h.arrays, h.unc, h.count, h.clean⟩
  · simp only [hcap, if_false]
    have hown := offIdxGrow_owned b m o base h
    generalize offIdxGrow true b m o = r at hown
    obtain ⟨st, b1, m1, o1⟩ := r
    simp only at hown
    cases st with
    | ok => simp only; exact ⟨hown.arrays, hown.unc, hown.count, hown.clean⟩
    | oom => simp only; exact hown
    | other => simp only; exact hown

theorem offIdxSession_safe (n : Nat) (b : OffIdx) (m : Mem) (o : Oracle) (base : Nat) (h : b.Owns m base) :
    (offIdxSession true n b m o).2.1 = ⟨base, false⟩ := by
  induction n generalizing b m o with
  | zero => simp only [offIdxSession]; exact offIdxDestroy_owned b m base h
  | succ n ih =>
    simp only [offIdxSession]
    have hown := offIdxAddPage_owned b m o base h
    generalize offIdxAddPage true b m o = r at hown
    obtain ⟨st, b1, m1, o1⟩ := r
    simp only at hown
    cases st with
    | ok => simp only; exact ih b1 m1 o1 hown
    | oom => simp only; exact offIdxDestroy_owned b1 m1 base hown
    | other => simp only; exact offIdxDestroy_owned b1 m1 base hown

/-- carquet_offset_index_builder_create: a builder that owns its blocks, or NULL with nothing left allocated -/
theorem offIdxCreate_spec (track : Bool) (base : Nat) (o : Oracle) :
    match offIdxCreate track ⟨base, false⟩ o with
    | (some b, m, _) => b.Owns m base ∧ b.numPages = 0
    | (none, m, _) => m = ⟨base, false⟩ := by
  unfold offIdxCreate
  by_cases hg : o.grant = true
  · simp only [hg, Bool.not_true, Bool.false_eq_true, if_false]
    obtain ⟨h1, h2, h3⟩ := mallocN_spec 3 ⟨base + 1, false⟩ o.rest
    generalize mallocN 3 ⟨base + 1, false⟩ o.rest = r at h1 h2 h3
    obtain ⟨arrs, m1, o1⟩ := r
    simp only at h1 h2 h3
    subst h3
    cases track with
    | false =>
      simp only [Bool.false_eq_true, if_false, Bool.not_false, Bool.true_or, Bool.and_true]
      by_cases hall : arrs.all (· == .live) = true
      · simp only [hall, if_true]
        have hl := (all_live_iff _).mp hall
        exact ⟨⟨hl, by simp, by simp [liveCount_all_live _ hl, h2], rfl⟩, by trivial⟩
      · simp only [hall]
        show offIdxDestroy ⟨arrs, Ptr.null, false, 0, 16⟩ _ = _
        unfold offIdxDestroy
        rw [freeAll_spec _ _ h1 rfl (by simp)]
        simp [freeP]
    | true =>
      simp only [if_true, Bool.not_true, Bool.false_or]
      rcases mallocP_spec ⟨base + 1 + liveCount arrs, false⟩ o1 with ⟨hp, hm⟩ | ⟨hp, hm⟩
      · by_cases hall : arrs.all (· == .live) = true
        · have hl := (all_live_iff _).mp hall
          simp only [hall, hp, beq_self_eq_true, Bool.and_self, if_true]
          refine ⟨⟨hl, by simp, ?_, ?_⟩, by trivial⟩
          · show (mallocP _ o1).2.1.liveBlocks = _
            rw [hm]; simp [liveCount_all_live _ hl, h2]
          · show (mallocP _ o1).2.1.crashed = false
            rw [hm]
        · simp only [hall, Bool.false_and, Bool.false_eq_true, if_false]
          show offIdxDestroy ⟨arrs, (mallocP _ o1).1, true, 0, 16⟩ (mallocP _ o1).2.1 = _
          unfold offIdxDestroy
          rw [hp, hm, freeAll_spec _ _ h1 rfl (by simp; omega)]
          simp [freeP]; omega
      · have hne : ((mallocP ⟨base + 1 + liveCount arrs, false⟩ o1).1 == Ptr.live) = false := by rw [hp]; decide
        simp only [hne, Bool.and_false, Bool.false_eq_true, if_false]
        show offIdxDestroy ⟨arrs, (mallocP _ o1).1, true, 0, 16⟩ (mallocP _ o1).2.1 = _
        unfold offIdxDestroy
        rw [hp, hm, freeAll_spec _ _ h1 rfl (by simp)]
        simp [freeP]
  · simp [hg]

/-! ### what a successful statistics_build hands out -/

/-- after F20h: a build that reports OK carries every bound the builder has -/
theorem statisticsBuild_complete (ar : Option Arena.Arena) (minLen maxLen : Nat) (o o' : Oracle)
    (r : Option Arena.Arena × BuiltStats) (h : statisticsBuild true ar minLen maxLen o = (.ok r, o')) :
    r.2 = ⟨decide (minLen > 0), decide (maxLen > 0)⟩ := by
  unfold statisticsBuild at h
  obtain ⟨mn, o1, h1, h2⟩ := bind_ok h
  by_cases hn : minLen > 0
  · simp only [hn, decide_true, Bool.and_true] at h2
    cases hmn : mn.2 with
    | false => rw [hmn] at h2; simp [guardGot, fail] at h2
    | true =>
      rw [hmn] at h2
      simp only [guardGot, Bool.not_true, Bool.and_false, Bool.false_eq_true, if_false] at h2
      obtain ⟨mx, o2, h3, h4⟩ := bind_ok h2
      by_cases hx : maxLen > 0
      · simp only [hx, decide_true, Bool.and_true] at h4
        cases hmx : mx.2 with
        | false => rw [hmx] at h4; simp [guardGot, fail] at h4
        | true =>
          rw [hmx] at h4
          simp [guardGot, M.pure] at h4
          rw [← h4.1]; simp [hn, hx, hmx]
      · simp only [hx, decide_false, Bool.and_false, guardGot, Bool.false_and, Bool.false_eq_true, if_false] at h4 h3
        simp [M.pure] at h4 h3
        rw [← h4.1, ← h3.1]; simp [hn, hx]
  · simp only [hn, decide_false, Bool.and_false, guardGot, Bool.false_and, Bool.false_eq_true, if_false] at h2 h1
    simp only [M.pure] at h1
    have hmn : mn = (ar, false) := by
      have := congrArg Prod.fst h1
      simp only [Except.ok.injEq] at this
      exact this.symm
    obtain ⟨mx, o2, h3, h4⟩ := bind_ok h2
    by_cases hx : maxLen > 0
    · simp only [hx, decide_true, Bool.and_true] at h4
      cases hmx : mx.2 with
      | false => rw [hmx] at h4; simp [guardGot, fail] at h4
      | true =>
        rw [hmx] at h4
        simp [guardGot, M.pure] at h4
        rw [← h4.1]; simp [hn, hx, hmn]
    · simp only [hx, decide_false, Bool.and_false, guardGot, Bool.false_and, Bool.false_eq_true, if_false] at h4 h3
      simp [M.pure] at h4 h3
      rw [← h4.1, ← h3.1]; simp [hn, hx, hmn]

end Carquet.Impl.Alloc.Ext
