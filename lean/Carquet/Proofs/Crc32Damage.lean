import Carquet.Spec.Crc32
import Carquet.Impl.Crc32
import Carquet.Proofs.Crc32Slice
import Carquet.Proofs.Crc32Burst
/-
Helper lemmas for the C14 statements: Impl = Spec packaging, and the byte-level damage shapes
(changed run of ≤ 4 bytes, changed byte, flipped bit, xor error pattern) as `BurstDamage`.
-/
namespace Carquet.Proofs.Crc32
open Carquet.Spec.Crc32

theorem impl_update_eq (crc : BitVec 32) (data : List UInt8) :
    Carquet.Impl.Crc32.update crc data = update crc data := by
  simp only [Carquet.Impl.Crc32.update, Carquet.Impl.Crc32.slicingBy8, update, loop_eq_run]

theorem impl_crc32_eq (data : List UInt8) : Carquet.Impl.Crc32.crc32 data = crc32 data := by
  simp only [Carquet.Impl.Crc32.crc32, Carquet.Impl.Crc32.slicingBy8, crc32, loop_eq_run]
  rfl

theorem run_append (c : BitVec 32) (a b : List UInt8) : run c (a ++ b) = run (run c a) b := by
  simp [run, List.foldl_append]

theorem update_append (c : BitVec 32) (a b : List UInt8) :
    update c (a ++ b) = update (update c a) b := by
  simp only [update, run_append, BitVec.not_not]

theorem crc32_append (a b : List UInt8) : crc32 (a ++ b) = update (crc32 a) b := by
  simp only [crc32, update, run_append, BitVec.not_not]

theorem bits_append (a b : List UInt8) : bits (a ++ b) = bits a ++ bits b := by
  simp [bits, List.flatMap_append]

/-- `BurstDamage` with `w ≤ 32` is detected by the Spec checksum. -/
theorem crc32_burst_ne (w : Nat) (hw : w ≤ 32) (d d' : List UInt8) (h : BurstDamage w d d') :
    crc32 d ≠ crc32 d' := by
  obtain ⟨hlen, hne, s, _, hwin⟩ := h
  intro heq
  have hr : run 0xFFFFFFFF#32 d = run 0xFFFFFFFF#32 d' := by
    have := congrArg (~~~ ·) heq
    simpa [crc32] using this
  refine run_burst_ne _ d d' s hlen hne ?_ hr
  intro i hi
  rcases Nat.lt_or_ge i (8 * d.length) with hlt | hge
  · have := hwin i hlt hi; omega
  · exfalso; apply hi
    rw [List.getElem?_eq_none (by rw [length_bits]; exact hge),
      List.getElem?_eq_none (by rw [length_bits, ← hlen]; exact hge)]

/-- Replacing a non-empty run of bytes `m` by a different run `m'` of the same length. -/
theorem burstDamage_of_split (w : Nat) (p m m' q : List UInt8) (hl : m.length = m'.length)
    (hne : m ≠ m') (hw : 8 * m.length ≤ w) : BurstDamage w (p ++ m ++ q) (p ++ m' ++ q) := by
  have hpos : 0 < m.length := by
    cases m with
    | nil => cases m' with
      | nil => exact absurd rfl hne
      | cons _ _ => cases hl
    | cons _ _ => simp
  refine ⟨by simp [hl], ?_, 8 * p.length, ?_, ?_⟩
  · intro h
    rw [List.append_assoc, List.append_assoc] at h
    exact hne (List.append_inj (List.append_cancel_left h) hl).1
  · simp only [List.length_append]; omega
  · intro i _ hi
    simp only [bits_append] at hi
    rcases Nat.lt_or_ge i (8 * p.length) with h1 | h1
    · exfalso; apply hi
      have hp : i < (bits p).length := by rw [length_bits]; exact h1
      rw [List.append_assoc, List.append_assoc, List.getElem?_append_left hp,
        List.getElem?_append_left hp]
    · refine ⟨h1, ?_⟩
      rcases Nat.lt_or_ge i (8 * p.length + 8 * m.length) with h2 | h2
      · omega
      · exfalso; apply hi
        have e1 : (bits p ++ bits m).length = 8 * p.length + 8 * m.length := by
          rw [List.length_append, length_bits, length_bits]
        have e2 : (bits p ++ bits m').length = 8 * p.length + 8 * m.length := by
          rw [List.length_append, length_bits, length_bits, hl]
        rw [List.getElem?_append_right (by rw [e1]; exact h2),
          List.getElem?_append_right (by rw [e2]; exact h2), e1, e2]

/-- Overwriting byte `k` with a different value. -/
theorem burstDamage_set (d : List UInt8) (k : Nat) (hk : k < d.length) (v : UInt8) (hv : v ≠ d[k]) :
    BurstDamage 8 d (d.set k v) := by
  have h1 : d = d.take k ++ [d[k]] ++ d.drop (k + 1) := by
    rw [List.append_assoc, List.singleton_append, ← List.drop_eq_getElem_cons hk,
      List.take_append_drop]
  have h2 : d.set k v = d.take k ++ [v] ++ d.drop (k + 1) := by
    rw [List.set_eq_take_append_cons_drop, if_pos hk, List.append_assoc, List.singleton_append]
  rw [h2]
  conv => arg 2; rw [h1]
  exact burstDamage_of_split 8 _ [d[k]] [v] _ rfl (by simpa using fun h => hv h.symm) (by simp)

theorem bit_mask_ne_zero (j : Fin 8) : (1 : UInt8) <<< j.val.toUInt8 ≠ 0 := by
  revert j; decide

theorem xor_mask_ne (x m : UInt8) (hm : m ≠ 0) : x ^^^ m ≠ x := by
  intro h
  apply hm
  have : x ^^^ (x ^^^ m) = x ^^^ x := by rw [h]
  rw [← UInt8.xor_assoc, UInt8.xor_self, UInt8.zero_xor] at this
  exact this

/-! ### xor error patterns -/

theorem byteBits_xor (a b : UInt8) :
    byteBits (a ^^^ b) = List.zipWith (· ^^ ·) (byteBits a) (byteBits b) := by
  simp [byteBits, UInt8.toBitVec_xor]

theorem bits_xorBytes (d e : List UInt8) (h : d.length = e.length) :
    bits (xorBytes d e) = List.zipWith (· ^^ ·) (bits d) (bits e) := by
  induction d generalizing e with
  | nil => cases e with
    | nil => rfl
    | cons _ _ => cases h
  | cons a d ih => cases e with
    | nil => cases h
    | cons b e =>
      simp only [List.length_cons, Nat.add_right_cancel_iff] at h
      have e1 : bits (xorBytes (a :: d) (b :: e)) = byteBits (a ^^^ b) ++ bits (xorBytes d e) := rfl
      have e2 : bits (a :: d) = byteBits a ++ bits d := rfl
      have e3 : bits (b :: e) = byteBits b ++ bits e := rfl
      rw [e1, e2, e3, List.zipWith_append (by simp [length_byteBits]), byteBits_xor, ih e h]

/-- A non-zero error pattern whose 1-bits fit in a window of `w` bit positions. -/
theorem burstDamage_xor (w : Nat) (d e : List UInt8) (hlen : e.length = d.length) (s : Nat)
    (hnz : ∃ i : Nat, (bits e)[i]? = some true)
    (hwin : ∀ i : Nat, (bits e)[i]? = some true → s ≤ i ∧ i < s + w) :
    BurstDamage w d (xorBytes d e) := by
  have hb := bits_xorBytes d e hlen.symm
  have hdiff : ∀ i : Nat, (bits d)[i]? ≠ (bits (xorBytes d e))[i]? ↔ (bits e)[i]? = some true := by
    intro i
    rw [hb, List.getElem?_zipWith]
    have hl : (bits d).length = (bits e).length := by rw [length_bits, length_bits, hlen]
    rcases Nat.lt_or_ge i (bits d).length with hlt | hge
    · rw [List.getElem?_eq_getElem hlt, List.getElem?_eq_getElem (hl ▸ hlt)]
      cases (bits d)[i] <;> cases (bits e)[i]'(hl ▸ hlt) <;> simp
    · rw [List.getElem?_eq_none hge, List.getElem?_eq_none (hl ▸ hge)]
      simp
  obtain ⟨i0, hi0⟩ := hnz
  have hi0lt : i0 < 8 * d.length := by
    rcases Nat.lt_or_ge i0 (bits e).length with h' | h'
    · rw [length_bits, hlen] at h'; exact h'
    · rw [List.getElem?_eq_none h'] at hi0; cases hi0
  refine ⟨by simp [xorBytes, hlen], ?_, s, ?_, ?_⟩
  · intro h
    have := (hdiff i0).mpr hi0
    rw [← h] at this
    exact this rfl
  · have := (hwin i0 hi0).1; omega
  · intro i _ hi
    exact hwin i ((hdiff i).mp hi)

end Carquet.Proofs.Crc32
