import Carquet.Spec.Xxh64
import Carquet.Impl.Xxh64
/-
Helper lemmas for C20 (XXH64 part): the pointer-style model of `carquet_xxhash64` equals the
specification's XXH64 for every input and seed.
-/
namespace Carquet.Proofs.Xxh64
open Carquet

/-! ### constants and word operations -/

theorem prime1_eq : Impl.Xxh64.prime1 = Spec.Xxh64.PRIME64_1 := by decide
theorem prime2_eq : Impl.Xxh64.prime2 = Spec.Xxh64.PRIME64_2 := by decide
theorem prime3_eq : Impl.Xxh64.prime3 = Spec.Xxh64.PRIME64_3 := by decide
theorem prime4_eq : Impl.Xxh64.prime4 = Spec.Xxh64.PRIME64_4 := by decide
theorem prime5_eq : Impl.Xxh64.prime5 = Spec.Xxh64.PRIME64_5 := by decide

theorem rotl_eq (x : BitVec 64) (r : Nat) (h : r < 64) : Impl.Xxh64.rotl x r = x.rotateLeft r := by
  simp only [Impl.Xxh64.rotl, BitVec.rotateLeft_def, Nat.mod_eq_of_lt h]

theorem round_eq (a b : BitVec 64) : Impl.Xxh64.round a b = Spec.Xxh64.round a b := by
  simp only [Impl.Xxh64.round, Spec.Xxh64.round, rotl_eq _ 31 (by decide), prime1_eq, prime2_eq]

theorem mergeRound_eq (a b : BitVec 64) : Impl.Xxh64.mergeRound a b = Spec.Xxh64.mergeAccumulator a b := by
  simp only [Impl.Xxh64.mergeRound, Spec.Xxh64.mergeAccumulator, round_eq, prime1_eq, prime4_eq]

/-! ### little-endian reads -/

theorem lane_cons (b : UInt8) (bs : List UInt8) :
    Spec.Xxh64.lane (b :: bs) = (Spec.Xxh64.lane bs <<< 8) ||| b.toBitVec.setWidth 64 := rfl

theorem lane_one (b : UInt8) : Spec.Xxh64.lane [b] = b.toBitVec.setWidth 64 := by
  rw [lane_cons]
  show (0#64 <<< 8) ||| _ = _
  rw [BitVec.zero_shiftLeft, BitVec.zero_or]

/- Shifted terms are generalised to atoms before the AC step: comparing two different
`x <<< n` terms up to definitional equality unfolds `Nat.shiftLeft` and does not terminate in
reasonable time. -/
theorem horner8 (x0 x1 x2 x3 x4 x5 x6 x7 : BitVec 64) :
    x0 ||| (x1 <<< 8) ||| (x2 <<< 16) ||| (x3 <<< 24) ||| (x4 <<< 32) ||| (x5 <<< 40) ||| (x6 <<< 48) ||| (x7 <<< 56)
    = (((((((x7 <<< 8 ||| x6) <<< 8 ||| x5) <<< 8 ||| x4) <<< 8 ||| x3) <<< 8 ||| x2) <<< 8 ||| x1) <<< 8 ||| x0) := by
  simp only [BitVec.shiftLeft_or_distrib]
  simp only [← BitVec.shiftLeft_add]
  rw [show (8+8+8+8+8+8+8 : Nat) = 56 from rfl, show (8+8+8+8+8+8 : Nat) = 48 from rfl,
    show (8+8+8+8+8 : Nat) = 40 from rfl, show (8+8+8+8 : Nat) = 32 from rfl,
    show (8+8+8 : Nat) = 24 from rfl, show (8+8 : Nat) = 16 from rfl]
  generalize x7 <<< 56 = y7
  generalize x6 <<< 48 = y6
  generalize x5 <<< 40 = y5
  generalize x4 <<< 32 = y4
  generalize x3 <<< 24 = y3
  generalize x2 <<< 16 = y2
  generalize x1 <<< 8 = y1
  ac_rfl

theorem horner4 (x0 x1 x2 x3 : BitVec 64) :
    x0 ||| (x1 <<< 8) ||| (x2 <<< 16) ||| (x3 <<< 24)
    = (((x3 <<< 8 ||| x2) <<< 8 ||| x1) <<< 8 ||| x0) := by
  simp only [BitVec.shiftLeft_or_distrib]
  simp only [← BitVec.shiftLeft_add]
  rw [show (8+8+8 : Nat) = 24 from rfl, show (8+8 : Nat) = 16 from rfl]
  generalize x3 <<< 24 = y3
  generalize x2 <<< 16 = y2
  generalize x1 <<< 8 = y1
  ac_rfl

theorem read64le_eq (b0 b1 b2 b3 b4 b5 b6 b7 : UInt8) :
    Impl.Xxh64.read64le b0 b1 b2 b3 b4 b5 b6 b7 = Spec.Xxh64.lane [b0, b1, b2, b3, b4, b5, b6, b7] := by
  rw [lane_cons, lane_cons, lane_cons, lane_cons, lane_cons, lane_cons, lane_cons, lane_one]
  exact horner8 _ _ _ _ _ _ _ _

theorem sw0 (b : BitVec 8) : (b.setWidth 32).setWidth 64 = b.setWidth 64 := by
  apply BitVec.eq_of_toNat_eq
  simp only [BitVec.toNat_setWidth]
  have := b.isLt
  omega
theorem sw8 (b : BitVec 8) : (b.setWidth 32 <<< 8).setWidth 64 = b.setWidth 64 <<< 8 := by
  apply BitVec.eq_of_toNat_eq
  simp only [BitVec.toNat_setWidth, BitVec.toNat_shiftLeft, Nat.shiftLeft_eq, Nat.reducePow]
  have := b.isLt
  omega
theorem sw16 (b : BitVec 8) : (b.setWidth 32 <<< 16).setWidth 64 = b.setWidth 64 <<< 16 := by
  apply BitVec.eq_of_toNat_eq
  simp only [BitVec.toNat_setWidth, BitVec.toNat_shiftLeft, Nat.shiftLeft_eq, Nat.reducePow]
  have := b.isLt
  omega
theorem sw24 (b : BitVec 8) : (b.setWidth 32 <<< 24).setWidth 64 = b.setWidth 64 <<< 24 := by
  apply BitVec.eq_of_toNat_eq
  simp only [BitVec.toNat_setWidth, BitVec.toNat_shiftLeft, Nat.shiftLeft_eq, Nat.reducePow]
  have := b.isLt
  omega

/-- the `(uint64_t)` conversion of the 32-bit read is the 4-byte little-endian lane -/
theorem read32le_eq (b0 b1 b2 b3 : UInt8) :
    (Impl.Xxh64.read32le b0 b1 b2 b3).setWidth 64 = Spec.Xxh64.lane [b0, b1, b2, b3] := by
  rw [lane_cons, lane_cons, lane_cons, lane_one]
  simp only [Impl.Xxh64.read32le, Impl.Xxh64.u32, BitVec.setWidth_or, sw0, sw8, sw16, sw24]
  exact horner4 _ _ _ _

/-! ### cutting lists into pieces -/

theorem pieces_short {α} (n : Nat) (l : List α) (h : l.length < n) : Spec.Xxh64.pieces n l = [] := by
  simp only [Spec.Xxh64.pieces, Nat.div_eq_of_lt h, Spec.Xxh64.piecesAux]

theorem leftover_short {α} (n : Nat) (l : List α) (h : l.length < n) : Spec.Xxh64.leftover n l = l := by
  simp only [Spec.Xxh64.leftover, Nat.div_eq_of_lt h, Nat.mul_zero, List.drop_zero]

theorem div_step (m n : Nat) (hn : 0 < n) (h : n ≤ m) : m / n = (m - n) / n + 1 := by
  have e : m = (m - n) + n := by omega
  conv => lhs; rw [e]
  exact Nat.add_div_right _ hn

theorem pieces_long {α} (n : Nat) (l : List α) (hn : 0 < n) (h : n ≤ l.length) :
    Spec.Xxh64.pieces n l = l.take n :: Spec.Xxh64.pieces n (l.drop n) := by
  simp only [Spec.Xxh64.pieces, div_step l.length n hn h, Spec.Xxh64.piecesAux, List.length_drop]

theorem leftover_long {α} (n : Nat) (l : List α) (hn : 0 < n) (h : n ≤ l.length) :
    Spec.Xxh64.leftover n l = Spec.Xxh64.leftover n (l.drop n) := by
  simp only [Spec.Xxh64.leftover, div_step l.length n hn h, List.length_drop, List.drop_drop,
    Nat.mul_add, Nat.mul_one]
  congr 1
  omega

theorem leftover_length_lt {α} (n : Nat) (l : List α) (hn : 0 < n) : (Spec.Xxh64.leftover n l).length < n := by
  simp only [Spec.Xxh64.leftover, List.length_drop]
  have := Nat.mod_lt l.length hn
  have := Nat.div_add_mod l.length n
  omega

/-! ### a list that does not start with k conses is shorter than k -/

theorem lt4_of_not_cons {α} (l : List α)
    (h : ∀ (b0 b1 b2 b3 : α) (rest : List α), l = b0 :: b1 :: b2 :: b3 :: rest → False) : l.length < 4 := by
  iterate 4 (rcases l with _ | ⟨b, l⟩; · simp)
  exact (h _ _ _ _ _ rfl).elim

theorem lt8_of_not_cons {α} (l : List α)
    (h : ∀ (b0 b1 b2 b3 b4 b5 b6 b7 : α) (rest : List α),
      l = b0 :: b1 :: b2 :: b3 :: b4 :: b5 :: b6 :: b7 :: rest → False) : l.length < 8 := by
  iterate 8 (rcases l with _ | ⟨b, l⟩; · simp)
  exact (h _ _ _ _ _ _ _ _ _ rfl).elim

set_option maxRecDepth 100000 in
theorem lt32_of_not_cons {α} (l : List α)
    (h : ∀ (b0 b1 b2 b3 b4 b5 b6 b7 b8 b9 b10 b11 b12 b13 b14 b15 b16 b17 b18 b19 b20 b21 b22 b23 b24 b25 b26 b27 b28 b29 b30 b31 : α) (rest : List α),
      l = b0 :: b1 :: b2 :: b3 :: b4 :: b5 :: b6 :: b7 :: b8 :: b9 :: b10 :: b11 :: b12 :: b13 :: b14 :: b15 :: b16 :: b17 :: b18 :: b19 :: b20 :: b21 :: b22 :: b23 :: b24 :: b25 :: b26 :: b27 :: b28 :: b29 :: b30 :: b31 :: rest → False) : l.length < 32 := by
  iterate 32 (rcases l with _ | ⟨b, l⟩; · simp)
  exact (h _ _ _ _ _ _ _ _ _ _ _ _ _ _ _ _ _ _ _ _ _ _ _ _ _ _ _ _ _ _ _ _ _ rfl).elim

/-! ### the loops -/

set_option maxRecDepth 100000 in
theorem while32_eq {σ : Type} (body : σ → UInt8 → UInt8 → UInt8 → UInt8 → UInt8 → UInt8 → UInt8 → UInt8 → UInt8 → UInt8 → UInt8 → UInt8 → UInt8 → UInt8 → UInt8 → UInt8 → UInt8 → UInt8 → UInt8 → UInt8 → UInt8 → UInt8 → UInt8 → UInt8 → UInt8 → UInt8 → UInt8 → UInt8 → UInt8 → UInt8 → UInt8 → UInt8 → σ) (g : σ → List UInt8 → σ)
    (hg : ∀ s b0 b1 b2 b3 b4 b5 b6 b7 b8 b9 b10 b11 b12 b13 b14 b15 b16 b17 b18 b19 b20 b21 b22 b23 b24 b25 b26 b27 b28 b29 b30 b31, body s b0 b1 b2 b3 b4 b5 b6 b7 b8 b9 b10 b11 b12 b13 b14 b15 b16 b17 b18 b19 b20 b21 b22 b23 b24 b25 b26 b27 b28 b29 b30 b31 = g s [b0, b1, b2, b3, b4, b5, b6, b7, b8, b9, b10, b11, b12, b13, b14, b15, b16, b17, b18, b19, b20, b21, b22, b23, b24, b25, b26, b27, b28, b29, b30, b31])
    (s : σ) (p : List UInt8) :
    (Impl.Xxh64.while32 body s p).1 = (Spec.Xxh64.pieces 32 p).foldl g s ∧
    (Impl.Xxh64.while32 body s p).2 = Spec.Xxh64.leftover 32 p := by
  induction s, p using Impl.Xxh64.while32.induct body with
  | case1 s b0 b1 b2 b3 b4 b5 b6 b7 b8 b9 b10 b11 b12 b13 b14 b15 b16 b17 b18 b19 b20 b21 b22 b23 b24 b25 b26 b27 b28 b29 b30 b31 rest ih =>
    rw [Impl.Xxh64.while32.eq_1]
    have hl : 32 ≤ (b0 :: b1 :: b2 :: b3 :: b4 :: b5 :: b6 :: b7 :: b8 :: b9 :: b10 :: b11 :: b12 :: b13 :: b14 :: b15 :: b16 :: b17 :: b18 :: b19 :: b20 :: b21 :: b22 :: b23 :: b24 :: b25 :: b26 :: b27 :: b28 :: b29 :: b30 :: b31 :: rest).length := by
      simp only [List.length_cons]; omega
    rw [pieces_long 32 _ (by decide) hl, leftover_long 32 _ (by decide) hl, ih.1, ih.2, hg]
    simp only [List.foldl_cons, List.drop_succ_cons, List.drop_zero, List.take_succ_cons,
      List.take_zero, and_self]
  | case2 s short hshort =>
    rw [Impl.Xxh64.while32.eq_2 _ _ _ hshort]
    have hl := lt32_of_not_cons short hshort
    simp only [pieces_short 32 short hl, leftover_short 32 short hl, List.foldl_nil, and_self]

theorem while8_eq {σ : Type} (body : σ → UInt8 → UInt8 → UInt8 → UInt8 → UInt8 → UInt8 → UInt8 → UInt8 → σ) (g : σ → List UInt8 → σ)
    (hg : ∀ s b0 b1 b2 b3 b4 b5 b6 b7, body s b0 b1 b2 b3 b4 b5 b6 b7 = g s [b0, b1, b2, b3, b4, b5, b6, b7])
    (s : σ) (p : List UInt8) :
    (Impl.Xxh64.while8 body s p).1 = (Spec.Xxh64.pieces 8 p).foldl g s ∧
    (Impl.Xxh64.while8 body s p).2 = Spec.Xxh64.leftover 8 p := by
  induction s, p using Impl.Xxh64.while8.induct body with
  | case1 s b0 b1 b2 b3 b4 b5 b6 b7 rest ih =>
    rw [Impl.Xxh64.while8.eq_1]
    have hl : 8 ≤ (b0 :: b1 :: b2 :: b3 :: b4 :: b5 :: b6 :: b7 :: rest).length := by
      simp only [List.length_cons]; omega
    rw [pieces_long 8 _ (by decide) hl, leftover_long 8 _ (by decide) hl, ih.1, ih.2, hg]
    simp only [List.foldl_cons, List.drop_succ_cons, List.drop_zero, List.take_succ_cons,
      List.take_zero, and_self]
  | case2 s short hshort =>
    rw [Impl.Xxh64.while8.eq_2 _ _ _ hshort]
    have hl := lt8_of_not_cons short hshort
    simp only [pieces_short 8 short hl, leftover_short 8 short hl, List.foldl_nil, and_self]

theorem while1_eq {σ : Type} (body : σ → UInt8 → σ) (s : σ) (p : List UInt8) :
    Impl.Xxh64.while1 body s p = p.foldl body s := by
  induction p generalizing s with
  | nil => rfl
  | cons b rest ih => rw [Impl.Xxh64.while1, ih, List.foldl_cons]

def toAccs (v : Impl.Xxh64.V4) : Spec.Xxh64.Accs := ⟨v.v1, v.v2, v.v3, v.v4⟩
def ofAccs (a : Spec.Xxh64.Accs) : Impl.Xxh64.V4 := ⟨a.acc1, a.acc2, a.acc3, a.acc4⟩

theorem stripeBody_eq (v : Impl.Xxh64.V4) (b0 b1 b2 b3 b4 b5 b6 b7 b8 b9 b10 b11 b12 b13 b14 b15 b16 b17 b18 b19 b20 b21 b22 b23 b24 b25 b26 b27 b28 b29 b30 b31 : UInt8) :
    Impl.Xxh64.stripeBody v b0 b1 b2 b3 b4 b5 b6 b7 b8 b9 b10 b11 b12 b13 b14 b15 b16 b17 b18 b19 b20 b21 b22 b23 b24 b25 b26 b27 b28 b29 b30 b31 = ofAccs (Spec.Xxh64.stripe (toAccs v) [b0, b1, b2, b3, b4, b5, b6, b7, b8, b9, b10, b11, b12, b13, b14, b15, b16, b17, b18, b19, b20, b21, b22, b23, b24, b25, b26, b27, b28, b29, b30, b31]) := by
  simp only [Impl.Xxh64.stripeBody, ofAccs, toAccs, Spec.Xxh64.stripe, round_eq, read64le_eq,
    List.take_succ_cons, List.take_zero, List.drop_succ_cons, List.drop_zero]

theorem foldl_ofAccs (l : List (List UInt8)) (a : Spec.Xxh64.Accs) :
    l.foldl (fun v s => ofAccs (Spec.Xxh64.stripe (toAccs v) s)) (ofAccs a) =
      ofAccs (l.foldl Spec.Xxh64.stripe a) := by
  induction l generalizing a with
  | nil => rfl
  | cons s l ih => simp only [List.foldl_cons]; exact ih _

theorem stripeLoop_eq (a : Spec.Xxh64.Accs) (p : List UInt8) :
    (Impl.Xxh64.stripeLoop (ofAccs a) p).1 = ofAccs ((Spec.Xxh64.pieces 32 p).foldl Spec.Xxh64.stripe a) ∧
    (Impl.Xxh64.stripeLoop (ofAccs a) p).2 = Spec.Xxh64.leftover 32 p := by
  have h := while32_eq Impl.Xxh64.stripeBody (fun v s => ofAccs (Spec.Xxh64.stripe (toAccs v) s))
    (fun v b0 b1 b2 b3 b4 b5 b6 b7 b8 b9 b10 b11 b12 b13 b14 b15 b16 b17 b18 b19 b20 b21 b22 b23 b24 b25 b26 b27 b28 b29 b30 b31 => stripeBody_eq v b0 b1 b2 b3 b4 b5 b6 b7 b8 b9 b10 b11 b12 b13 b14 b15 b16 b17 b18 b19 b20 b21 b22 b23 b24 b25 b26 b27 b28 b29 b30 b31) (ofAccs a) p
  rw [foldl_ofAccs] at h
  exact h

theorem tail8_eq (h : BitVec 64) (p : List UInt8) :
    (Impl.Xxh64.tail8 h p).1 = (Spec.Xxh64.pieces 8 p).foldl Spec.Xxh64.consume8 h ∧
    (Impl.Xxh64.tail8 h p).2 = Spec.Xxh64.leftover 8 p := by
  apply while8_eq
  intro s b0 b1 b2 b3 b4 b5 b6 b7
  simp only [Impl.Xxh64.tail8Body, Spec.Xxh64.consume8, round_eq, read64le_eq,
    rotl_eq _ 27 (by decide), prime1_eq, prime4_eq]

theorem tail1_eq (h : BitVec 64) (p : List UInt8) :
    Impl.Xxh64.tail1 h p = p.foldl Spec.Xxh64.consume1 h := by
  rw [Impl.Xxh64.tail1, while1_eq]
  have e : Impl.Xxh64.tail1Body = Spec.Xxh64.consume1 := by
    funext s b
    simp only [Impl.Xxh64.tail1Body, Spec.Xxh64.consume1, Impl.Xxh64.u64, rotl_eq _ 11 (by decide),
      prime1_eq, prime5_eq]
  rw [e]

theorem tail41_eq (h : BitVec 64) (p : List UInt8) :
    Impl.Xxh64.tail1 (Impl.Xxh64.tail4 h p).1 (Impl.Xxh64.tail4 h p).2 =
      if 4 ≤ p.length then (p.drop 4).foldl Spec.Xxh64.consume1 (Spec.Xxh64.consume4 h (p.take 4))
      else p.foldl Spec.Xxh64.consume1 h := by
  induction h, p using Impl.Xxh64.tail4.fun_cases with
  | case1 h b0 b1 b2 b3 rest =>
    rw [Impl.Xxh64.tail4, tail1_eq]
    have hl : 4 ≤ (b0 :: b1 :: b2 :: b3 :: rest).length := by
      simp only [List.length_cons]; omega
    rw [if_pos hl]
    simp only [List.drop_succ_cons, List.drop_zero, List.take_succ_cons, List.take_zero,
      Impl.Xxh64.tail4Body, Spec.Xxh64.consume4, read32le_eq, rotl_eq _ 23 (by decide),
      prime1_eq, prime2_eq, prime3_eq]
  | case2 h short hshort =>
    rw [Impl.Xxh64.tail4.eq_2 _ _ hshort, tail1_eq]
    have hl := lt4_of_not_cons short hshort
    rw [if_neg (by omega)]

theorem finalMix_eq (h : BitVec 64) : Impl.Xxh64.finalMix h = Spec.Xxh64.avalanche h := by
  simp only [Impl.Xxh64.finalMix, Spec.Xxh64.avalanche, Spec.Xxh64.avalanche1, Spec.Xxh64.avalanche2,
    Spec.Xxh64.avalanche3, prime2_eq, prime3_eq]

theorem finish_eq (h : BitVec 64) (p : List UInt8) :
    Impl.Xxh64.finish h p = Spec.Xxh64.avalanche (Spec.Xxh64.consumeRemaining h p) := by
  rw [Impl.Xxh64.finish, finalMix_eq, tail41_eq, (tail8_eq h p).1, (tail8_eq h p).2,
    Spec.Xxh64.consumeRemaining]

theorem mergeAll_eq (a : Spec.Xxh64.Accs) : Impl.Xxh64.mergeAll (ofAccs a) = Spec.Xxh64.converge a := by
  simp only [Impl.Xxh64.mergeAll, Spec.Xxh64.converge, ofAccs, mergeRound_eq,
    rotl_eq _ 1 (by decide), rotl_eq _ 7 (by decide), rotl_eq _ 12 (by decide), rotl_eq _ 18 (by decide)]

theorem init_eq (seed : BitVec 64) :
    (⟨seed + Impl.Xxh64.prime1 + Impl.Xxh64.prime2, seed + Impl.Xxh64.prime2, seed + 0#64,
      seed - Impl.Xxh64.prime1⟩ : Impl.Xxh64.V4) = ofAccs (Spec.Xxh64.initAccs seed) := by
  simp only [ofAccs, Spec.Xxh64.initAccs, prime1_eq, prime2_eq]

theorem start_eq (data : List UInt8) (seed : BitVec 64) :
    (Impl.Xxh64.start data seed).1 = Spec.Xxh64.startAcc data seed ∧
    (Impl.Xxh64.start data seed).2 = Spec.Xxh64.leftover 32 data := by
  by_cases h : 32 ≤ data.length
  · have h' : ¬ data.length < 32 := by omega
    simp only [Impl.Xxh64.start, Spec.Xxh64.startAcc, if_pos h, if_neg h']
    rw [init_eq, (stripeLoop_eq _ data).1, (stripeLoop_eq _ data).2, mergeAll_eq]
    exact ⟨rfl, rfl⟩
  · have h' : data.length < 32 := by omega
    simp only [Impl.Xxh64.start, Spec.Xxh64.startAcc, if_neg h, if_pos h', prime5_eq,
      leftover_short 32 data h', and_self]

/-- The model of `carquet_xxhash64` computes the specification's XXH64. -/
theorem xxh64_eq (data : List UInt8) (seed : BitVec 64) :
    Impl.Xxh64.xxh64 data seed = Spec.Xxh64.xxh64 data seed := by
  rw [Impl.Xxh64.xxh64, finish_eq, (start_eq data seed).1, (start_eq data seed).2, Spec.Xxh64.xxh64]

end Carquet.Proofs.Xxh64
