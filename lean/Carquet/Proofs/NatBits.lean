import Carquet.Impl.Bitpack
/-
Arithmetic of little-endian byte strings and of shift / mask / or on `Nat`, used by the
bit-packing and RLE proofs.
-/
namespace Carquet.Proofs.NatBits
open Carquet.Impl.Bitpack

theorem shl_eq (a b : Nat) : a <<< b = a * 2 ^ b := Nat.shiftLeft_eq a b
theorem shr_eq (a b : Nat) : a >>> b = a / 2 ^ b := Nat.shiftRight_eq_div_pow a b

theorem and_mask (x w : Nat) : x &&& (2 ^ w - 1) = x % 2 ^ w := Nat.and_two_pow_sub_one_eq_mod x w

theorem one_shl (w : Nat) : 1 <<< w = 2 ^ w := by rw [shl_eq]; simp

/-- `b < 2^i → 2^i * a ||| b = 2^i * a + b` -/
theorem or_eq_add (a b i : Nat) (h : b < 2 ^ i) : 2 ^ i * a ||| b = 2 ^ i * a + b :=
  (Nat.two_pow_add_eq_or_of_lt h a).symm

/-- splitting the low `a+b` bits -/
theorem mod_pow_add (x a b : Nat) : x % 2 ^ (a + b) = x % 2 ^ a + 2 ^ a * (x / 2 ^ a % 2 ^ b) := by
  rw [Nat.pow_add, Nat.mod_mul]

/-- `x % 2^a ||| ((x >>> a) % 2^b) <<< a = x % 2^(a+b)` -/
theorem or_low_high (x a b : Nat) : x % 2 ^ a ||| ((x >>> a) % 2 ^ b) <<< a = x % 2 ^ (a + b) := by
  rw [mod_pow_add, shl_eq, shr_eq, Nat.or_comm, Nat.mul_comm _ (2 ^ a),
    or_eq_add _ _ _ (Nat.mod_lt _ (Nat.two_pow_pos a)), Nat.add_comm]

/-- byte-wise reassembly: `(x % 256) <<< s ||| (x >>> 8) <<< (s + 8) = x <<< s` -/
theorem or_byte_rest (x s : Nat) : (x % 256) <<< s ||| (x >>> 8) <<< (s + 8) = x <<< s := by
  rw [shl_eq, shl_eq, shl_eq, shr_eq, Nat.or_comm]
  have h1 : x / 2 ^ 8 * 2 ^ (s + 8) = 2 ^ (s + 8) * (x / 256) := by
    rw [Nat.mul_comm]
  have h2 : x % 256 * 2 ^ s < 2 ^ (s + 8) := by
    rw [Nat.pow_add, Nat.mul_comm]
    exact Nat.mul_lt_mul_of_pos_left (Nat.mod_lt _ (by decide)) (Nat.two_pow_pos s)
  rw [h1, or_eq_add _ _ _ h2]
  have h3 : x = 256 * (x / 256) + x % 256 := (Nat.div_add_mod x 256).symm
  conv => rhs; rw [h3]
  rw [Nat.add_mul, Nat.pow_add]
  congr 1
  rw [Nat.mul_comm (2 ^ s) (2 ^ 8), Nat.mul_assoc, Nat.mul_comm (2 ^ s), ← Nat.mul_assoc]

/-- `(x % 2^a) >>> s % 2^w = x >>> s % 2^w` when the window lies inside the low `a` bits -/
theorem shr_mod_window (x a s w : Nat) (h : s + w ≤ a) :
    ((x % 2 ^ a) >>> s) % 2 ^ w = (x >>> s) % 2 ^ w := by
  apply Nat.eq_of_testBit_eq
  intro i
  simp only [Nat.testBit_mod_two_pow, Nat.testBit_shiftRight]
  by_cases hi : i < w
  · have : s + i < a := by omega
    simp [hi, this]
  · simp [hi]

theorem shr_shr (x a b : Nat) : (x >>> a) >>> b = x >>> (a + b) := (Nat.shiftRight_add x a b).symm

/-! ### little-endian byte strings -/

theorem leBytes_length (n x : Nat) : (leBytes n x).length = n := by
  induction n generalizing x with
  | zero => rfl
  | succ n ih => simp [leBytes, ih]

theorem toNat_ofNat_mod (x : Nat) : (UInt8.ofNat (x % 256)).toNat = x % 256 := by
  simp [UInt8.toNat_ofNat']

theorem ofNat_mod (x : Nat) : UInt8.ofNat (x % 256) = UInt8.ofNat x := by
  apply UInt8.toNat_inj.mp
  simp [UInt8.toNat_ofNat']

theorem leNat_leBytes (n x : Nat) : leNat (leBytes n x) = x % 2 ^ (8 * n) := by
  induction n generalizing x with
  | zero => simp [leBytes, leNat, Nat.mod_one]
  | succ n ih =>
    simp only [leBytes, leNat, ih, toNat_ofNat_mod]
    rw [show 8 * (n + 1) = 8 + 8 * n by omega, mod_pow_add]

theorem leNat_lt (bs : List UInt8) : leNat bs < 2 ^ (8 * bs.length) := by
  induction bs with
  | nil => simp [leNat]
  | cons b bs ih =>
    simp only [leNat, List.length_cons]
    rw [show 8 * (bs.length + 1) = 8 + 8 * bs.length by omega, Nat.pow_add]
    have := b.toNat_lt
    have h8 : (2:Nat) ^ 8 = 256 := by decide
    rw [h8]
    have : 256 * leNat bs + 256 ≤ 256 * 2 ^ (8 * bs.length) := by
      have : leNat bs + 1 ≤ 2 ^ (8 * bs.length) := ih
      calc 256 * leNat bs + 256 = 256 * (leNat bs + 1) := by rw [Nat.mul_add]
        _ ≤ 256 * 2 ^ (8 * bs.length) := Nat.mul_le_mul_left _ this
    omega

theorem leBytes_leNat (bs : List UInt8) : leBytes bs.length (leNat bs) = bs := by
  induction bs with
  | nil => rfl
  | cons b bs ih =>
    simp only [List.length_cons, leBytes, leNat]
    have hb := b.toNat_lt
    have h1 : (b.toNat + 256 * leNat bs) % 256 = b.toNat := by omega
    have h2 : (b.toNat + 256 * leNat bs) / 256 = leNat bs := by omega
    rw [h1, h2, ih]
    simp

theorem leBytes_take (n m x : Nat) (h : m ≤ n) : (leBytes n x).take m = leBytes m x := by
  induction m generalizing n x with
  | zero => simp [leBytes]
  | succ m ih =>
    cases n with
    | zero => omega
    | succ n => simp [leBytes, ih n (x / 256) (by omega)]

theorem leBytes_mod (n x : Nat) : leBytes n (x % 2 ^ (8 * n)) = leBytes n x := by
  induction n generalizing x with
  | zero => rfl
  | succ n ih =>
    simp only [leBytes]
    have e : 8 * (n + 1) = 8 + 8 * n := by omega
    have h8 : (2:Nat) ^ 8 = 256 := by decide
    have h1 : x % 2 ^ (8 * (n + 1)) % 256 = x % 256 := by
      rw [e, Nat.pow_add, h8]
      exact Nat.mod_mul_right_mod x 256 _
    have h2 : x % 2 ^ (8 * (n + 1)) / 256 = (x / 256) % 2 ^ (8 * n) := by
      rw [e, Nat.pow_add, h8, Nat.mod_mul_right_div_self]
    rw [h1, h2, ih]

theorem leNat_append (a b : List UInt8) : leNat (a ++ b) = leNat a + 2 ^ (8 * a.length) * leNat b := by
  induction a with
  | nil => simp [leNat]
  | cons x a ih =>
    simp only [List.cons_append, leNat, ih, List.length_cons]
    rw [show 8 * (a.length + 1) = 8 + 8 * a.length by omega, Nat.pow_add]
    have h8 : (2:Nat) ^ 8 = 256 := by decide
    rw [h8, Nat.mul_add, Nat.mul_assoc]
    omega

theorem leNat_take (bs : List UInt8) (n : Nat) : leNat (bs.take n) = leNat bs % 2 ^ (8 * n) := by
  induction n generalizing bs with
  | zero => simp [leNat, Nat.mod_one]
  | succ n ih =>
    cases bs with
    | nil => simp [leNat]
    | cons b bs =>
      simp only [List.take_succ_cons, leNat, ih]
      have e : 8 * (n + 1) = 8 + 8 * n := by omega
      have h8 : (2:Nat) ^ 8 = 256 := by decide
      rw [e, mod_pow_add, h8]
      have hb := b.toNat_lt
      have h1 : (b.toNat + 256 * leNat bs) % 256 = b.toNat := by omega
      have h2 : (b.toNat + 256 * leNat bs) / 256 = leNat bs := by omega
      rw [h1, h2]

theorem leNat_drop (bs : List UInt8) (n : Nat) : leNat (bs.drop n) = leNat bs >>> (8 * n) := by
  induction n generalizing bs with
  | zero => simp
  | succ n ih =>
    cases bs with
    | nil => simp [leNat]
    | cons b bs =>
      simp only [List.drop_succ_cons, ih, leNat]
      rw [show 8 * (n + 1) = 8 + 8 * n by omega, ← shr_shr]
      congr 1
      rw [shr_eq]
      have hb := b.toNat_lt
      have h8 : (2:Nat) ^ 8 = 256 := by decide
      rw [h8]; omega

/-- `input[k]` in the integer view -/
theorem byteAt_eq (inp : List UInt8) (k : Nat) : byteAt inp k = (leNat inp >>> (8 * k)) % 256 := by
  unfold byteAt
  rw [← leNat_drop]
  induction k generalizing inp with
  | zero =>
    cases inp with
    | nil => simp [leNat]
    | cons b bs =>
      simp only [List.getD_cons_zero, List.drop_zero, leNat]
      have := b.toNat_lt; omega
  | succ k ih =>
    cases inp with
    | nil => simp [leNat]
    | cons b bs => simpa using ih bs

end Carquet.Proofs.NatBits
