import Carquet.Proofs.StatsBuilder
/-
No false negatives: the reader's row-group pruning, the statistics helpers and the column-index
page filter answer "might match" whenever a row satisfying the predicate exists and the
statistics are true bounds; `filter_row_groups` returns exactly the capped ascending list.
-/
namespace Carquet.Proofs.StatsPrune
open Carquet.Spec.Order Carquet.Impl.Stats Carquet.Proofs.StatsOrder Carquet.Proofs.StatsCmp
open Carquet.Proofs.StatsBuilder

/-! ### predicates in terms of the statistics order -/

theorem sat_not_nan {t : PType} {op : Op} {v q : List UInt8} (hop : op ≠ .ne) (h : sat t op v q = true) :
    isNaN t v = false ∧ isNaN t q = false := by
  unfold sat cmpT at h
  cases hv : isNaN t v <;> cases hq : isNaN t q <;> simp [hv, hq] at h ⊢ <;> cases op <;> simp_all [satOrd]

theorem sat_le_tle {t : PType} {v q : List UInt8} (h : sat t .le v q = true) : tle t v q := by
  obtain ⟨hv, hq⟩ := sat_not_nan (by decide) h
  unfold tle; rw [tcmp_of_not_nan hv hq]
  simp only [sat, cmpT_of_not_nan hv hq, satOrd] at h
  cases hc : keyCmp t v q <;> simp_all

theorem sat_ge_tle {t : PType} {v q : List UInt8} (h : sat t .ge v q = true) : tle t q v := by
  obtain ⟨hv, hq⟩ := sat_not_nan (by decide) h
  unfold tle; rw [tcmp_of_not_nan hq hv, (keyCmp_good t).swap v q]
  simp only [sat, cmpT_of_not_nan hv hq, satOrd] at h
  cases hc : keyCmp t v q <;> simp_all [Ordering.swap]

theorem sat_eq_tle {t : PType} {v q : List UInt8} (h : sat t .eq v q = true) : tle t v q ∧ tle t q v := by
  obtain ⟨hv, hq⟩ := sat_not_nan (by decide) h
  unfold tle; rw [tcmp_of_not_nan hq hv, tcmp_of_not_nan hv hq, (keyCmp_good t).swap v q]
  simp only [sat, cmpT_of_not_nan hv hq, satOrd] at h
  cases hc : keyCmp t v q <;> simp_all [Ordering.swap]

/-- a probe strictly below a lower bound is below every bounded value -/
theorem below_lo {t : PType} {q lo v : List UInt8} (hq : tcmp t q lo = .lt) (hlo : tle t lo v) : ¬ tle t v q := by
  intro hvq
  have h1 : tcmp t v lo = .lt := (tcmp_good t).lt_of_le_of_lt hvq hq
  have h2 : tcmp t lo v = .gt := ((tcmp_good t).lt_iff_gt v lo).1 h1
  exact hlo h2

/-- a probe strictly above an upper bound is above every bounded value -/
theorem above_hi {t : PType} {q hi v : List UInt8} (hq : tcmp t q hi = .gt) (hhi : tle t v hi) : ¬ tle t q v := by
  intro hqv
  exact (tle_trans hqv hhi) hq

/-! ### the operator table of row_group_matches -/

theorem opTable_sound (t : PType) (op : Op) (p lo hi v : List UInt8)
    (hp : isNaN t p = false) (hlo : isNaN t lo = false) (hhi : isNaN t hi = false)
    (h1 : tle t lo v) (h2 : tle t v hi) (hs : sat t op v p = true) :
    opTable op (ordInt (keyCmp t p lo)) (ordInt (keyCmp t p hi)) = true := by
  have G := keyCmp_good t
  -- v is not a NaN: it is below the non-NaN upper bound
  have hv : isNaN t v = false := by
    cases hv : isNaN t v
    · rfl
    · exfalso; apply h2; simp [tcmp, hv, hhi]
  have k1 : keyCmp t lo v ≠ .gt := by have := h1; unfold tle at this; rwa [tcmp_of_not_nan hlo hv] at this
  have k2 : keyCmp t v hi ≠ .gt := by have := h2; unfold tle at this; rwa [tcmp_of_not_nan hv hhi] at this
  simp only [sat, cmpT_of_not_nan hv hp] at hs
  cases op
  · -- eq
    have hvp : keyCmp t v p = .eq := by simpa [satOrd] using hs
    have hpv : keyCmp t p v = .eq := (G.eq_comm v p).1 hvp
    simp only [opTable, ordInt_lt_zero, ordInt_gt_zero]
    have a1 : keyCmp t p lo ≠ .lt := by
      intro h
      have := G.lt_of_lt_of_le h k1
      rw [hpv] at this; exact absurd this (by decide)
    have a2 : keyCmp t p hi ≠ .gt := by
      intro h
      have h' : keyCmp t hi p = .lt := (G.gt_iff_lt p hi).1 h
      have := G.lt_of_le_of_lt k2 h'
      rw [hvp] at this; exact absurd this (by decide)
    simp [a1, a2]
  · -- ne
    have hvp : keyCmp t v p ≠ .eq := by simpa [satOrd] using hs
    simp only [opTable, ordInt_eq_zero]
    have : ¬ (keyCmp t p lo = .eq ∧ keyCmp t p hi = .eq) := by
      rintro ⟨e1, e2⟩
      apply hvp
      have p_le_v : keyCmp t p v ≠ .gt := G.trans p lo v (by rw [e1]; decide) k1
      have hi_le_p : keyCmp t hi p ≠ .gt := by rw [(G.eq_comm p hi).1 e2]; decide
      have v_le_p : keyCmp t v p ≠ .gt := G.trans v hi p k2 hi_le_p
      exact G.eq_of_le_of_ge v_le_p p_le_v
    by_cases e1 : keyCmp t p lo = .eq <;> by_cases e2 : keyCmp t p hi = .eq <;> simp_all
  · -- lt
    have hvp : keyCmp t v p = .lt := by simpa [satOrd] using hs
    simp only [opTable, ordInt_le_zero]
    have : ¬ keyCmp t p lo ≠ .gt := by
      intro h
      have p_le_v : keyCmp t p v ≠ .gt := G.trans p lo v h k1
      exact p_le_v ((G.lt_iff_gt v p).1 hvp)
    simp [this]
  · -- le
    have hvp : keyCmp t v p ≠ .gt := by
      cases hc : keyCmp t v p <;> simp_all [satOrd]
    simp only [opTable, ordInt_lt_zero]
    have : keyCmp t p lo ≠ .lt := by
      intro h
      have := G.lt_of_lt_of_le h k1
      exact hvp ((G.lt_iff_gt p v).1 this)
    simp [this]
  · -- gt
    have hvp : keyCmp t v p = .gt := by simpa [satOrd] using hs
    simp only [opTable, ordInt_ge_zero]
    have : ¬ keyCmp t p hi ≠ .lt := by
      intro h
      have hi_le_p : keyCmp t hi p ≠ .gt := by
        rw [G.swap p hi]; cases hc : keyCmp t p hi <;> simp_all [Ordering.swap]
      exact (G.trans v hi p k2 hi_le_p) hvp
    simp [this]
  · -- ge
    have hvp : keyCmp t v p ≠ .lt := by
      cases hc : keyCmp t v p <;> simp_all [satOrd]
    simp only [opTable, ordInt_gt_zero]
    have : keyCmp t p hi ≠ .gt := by
      intro h
      have h' : keyCmp t hi p = .lt := (G.gt_iff_lt p hi).1 h
      exact hvp (G.lt_of_le_of_lt k2 h')
    simp [this]

theorem cmpWidth_none (t : PType) (h : cmpWidth t = none) : t = .byteArray ∨ t = .flba := by
  cases t <;> simp_all [cmpWidth]

theorem decideMatch_sound (t : PType) (op : Op) (p : List UInt8) (st : ColStats) (v : List UInt8)
    (h1 : tle t st.minValue v) (h2 : tle t v st.maxValue) (hs : sat t op v p = true) :
    decideMatch t op p st = true := by
  unfold decideMatch
  cases hw : cmpWidth t with
  | none =>
    have ht := cmpWidth_none t hw
    have hn : ∀ a, isNaN t a = false := fun a => isNaN_false_of t (by rcases ht with h | h <;> subst h <;> decide) a
    simp only [cmpBytes_eq_keyCmp t ht]
    exact opTable_sound t op p _ _ v (hn _) (hn _) (hn _) h1 h2 hs
  | some w =>
    simp only [isNanValue_eq]
    by_cases hl : p.length ≠ w ∨ st.minValue.length ≠ w ∨ st.maxValue.length ≠ w
    · simp [hl]
    · simp only [hl, if_false]
      by_cases hnan : isNaN t p = true ∨ isNaN t st.minValue = true ∨ isNaN t st.maxValue = true
      · simp [hnan]
      · simp only [hnan, if_false]
        have hp : isNaN t p = false := by cases h : isNaN t p <;> simp_all
        have hlo : isNaN t st.minValue = false := by cases h : isNaN t st.minValue <;> simp_all
        have hhi : isNaN t st.maxValue = false := by cases h : isNaN t st.maxValue <;> simp_all
        rw [cmpReader_eq t _ _ hp hlo, cmpReader_eq t _ _ hp hhi]
        exact opTable_sound t op p _ _ v hp hlo hhi h1 h2 hs

/-! ### filter_row_groups -/

theorem filterLoop_spec (pred : Nat → Bool) (max : Nat) (is acc : List Nat) (h : acc.length ≤ max) :
    filterLoop pred max is acc = acc ++ (is.filter pred).take (max - acc.length) := by
  induction is generalizing acc with
  | nil => simp [filterLoop]
  | cons i r ih =>
    unfold filterLoop
    by_cases hlt : acc.length < max
    · simp only [hlt, if_true]
      by_cases hp : pred i = true
      · simp only [hp, if_true, List.filter_cons_of_pos]
        rw [ih (acc ++ [i]) (by simp; omega)]
        have : max - acc.length = (max - (acc ++ [i]).length) + 1 := by simp; omega
        rw [this, List.take_succ_cons]; simp
      · have hp' : pred i = false := by cases h : pred i <;> simp_all
        simp only [hp', List.filter_cons_of_neg, Bool.false_eq_true, if_false, not_false_eq_true]
        exact ih acc h
    · have : max - acc.length = 0 := by omega
      simp [hlt, this]

/-! ### statistics_compare, range_overlaps, page_might_match -/

theorem inRange_parts {t : PType} {qmin qmax : Option (List UInt8)} {v : List UInt8}
    (h : inRange t qmin qmax v = true) :
    (∀ q, qmin = some q → tle t q v) ∧ (∀ q, qmax = some q → tle t v q) := by
  unfold inRange at h
  simp only [Bool.and_eq_true] at h
  constructor
  · intro q hq; subst hq; exact sat_ge_tle h.1
  · intro q hq; subst hq; exact sat_le_tle h.2

theorem statsCompare_sound (s : PStats) (t : PType) (value : List UInt8) (rows : List Row)
    (hb : TrueBounds t { min := present s.minValue, max := present s.maxValue } rows)
    (hm : ∃ v, some v ∈ rows ∧ sat t .eq v value = true) : (statsCompare s t value).2 = 0 := by
  obtain ⟨v, hv, hs⟩ := hm
  obtain ⟨hvq, hqv⟩ := sat_eq_tle hs
  have F1 : ∀ lo, present s.minValue = some lo → ¬ (cmpTyped t value lo < 0) := by
    intro lo hlo; rw [cmpTyped_eq, ordInt_lt_zero]; intro h
    exact below_lo h (hb.1 lo hlo v hv) hvq
  have F2 : ∀ hi, present s.maxValue = some hi → ¬ (cmpTyped t value hi > 0) := by
    intro hi hhi; rw [cmpTyped_eq, ordInt_gt_zero]; intro h
    exact above_hi h (hb.2.1 hi hhi v hv) hqv
  unfold statsCompare
  cases h1 : present s.minValue <;> cases h2 : present s.maxValue <;> simp only []
  all_goals (repeat' split)
  all_goals first | rfl | (exfalso; first | exact F1 _ h1 ‹_› | exact F2 _ h2 ‹_›)

theorem rangeOverlapsWith_sound (cmp : PType → List UInt8 → List UInt8 → Int)
    (s : PStats) (t : PType) (qmin qmax : Option (List UInt8)) (rows : List Row)
    (hc1 : ∀ q lo, qmax = some q → present s.minValue = some lo → cmp t q lo = ordInt (tcmp t q lo))
    (hc2 : ∀ q hi, qmin = some q → present s.maxValue = some hi → cmp t q hi = ordInt (tcmp t q hi))
    (hb : TrueBounds t { min := present s.minValue, max := present s.maxValue } rows)
    (hm : ∃ v, some v ∈ rows ∧ inRange t qmin qmax v = true) :
    (rangeOverlapsWith cmp s t qmin qmax).2 = true := by
  obtain ⟨v, hv, hin⟩ := hm
  obtain ⟨hlo, hhi⟩ := inRange_parts hin
  have F1 : ∀ q lo, qmax = some q → present s.minValue = some lo → ¬ (cmp t q lo < 0) := by
    intro q lo hq hl; rw [hc1 q lo hq hl, ordInt_lt_zero]; intro h
    exact below_lo h (hb.1 lo hl v hv) (hhi q hq)
  have F2 : ∀ q hi, qmin = some q → present s.maxValue = some hi → ¬ (cmp t q hi > 0) := by
    intro q hi hq hh; rw [hc2 q hi hq hh, ordInt_gt_zero]; intro h
    exact above_hi h (hb.2.1 hi hh v hv) (hlo q hq)
  unfold rangeOverlapsWith
  cases h1 : qmax <;> cases h2 : qmin <;> cases h3 : present s.minValue <;> cases h4 : present s.maxValue <;>
    simp_all

theorem cmpRange_eq (t : PType) (a b : List UInt8) (ha : Valid t a) (hb : Valid t b) :
    cmpRange t a b = ordInt (tcmp t a b) := by
  cases t
  case boolean =>
    simp only [cmpRange]
    rw [cmpBytes_bool a b ha hb, tcmp_of_not_nan rfl rfl]
  all_goals simp only [cmpRange, cmpTyped_eq]

theorem pageDecide_sound (t : PType) (p : PageEntry) (qmin qmax : Option (List UInt8)) (rows : List Row)
    (hnull : p.nullPage = true → ∀ x, some x ∉ rows)
    (hb : TrueBounds t { min := p.minV, max := p.maxV } rows)
    (hm : ∃ v, some v ∈ rows ∧ inRange t qmin qmax v = true) :
    pageDecide t p qmin qmax = true := by
  obtain ⟨v, hv, hin⟩ := hm
  obtain ⟨hlo, hhi⟩ := inRange_parts hin
  have hnp : p.nullPage = false := by
    cases h : p.nullPage
    · rfl
    · exact absurd hv (hnull h v)
  have F1 : ∀ q lo, qmax = some q → p.minV = some lo → (boundUsable t lo = false ∨ 0 ≤ cmpTyped t q lo) := by
    intro q lo hq hl; right
    rw [cmpTyped_eq, zero_le_ordInt]; intro h
    exact below_lo h (hb.1 lo hl v hv) (hhi q hq)
  have F2 : ∀ q hi, qmin = some q → p.maxV = some hi → (boundUsable t hi = false ∨ cmpTyped t q hi ≤ 0) := by
    intro q hi hq hh; right
    rw [cmpTyped_eq, ordInt_le_zero]; intro h
    exact above_hi h (hb.2.1 hi hh v hv) (hlo q hq)
  unfold pageDecide
  simp only [hnp, Bool.false_eq_true, if_false]
  cases h1 : qmax <;> cases h2 : qmin <;> cases h3 : p.minV <;> cases h4 : p.maxV <;> simp_all

end Carquet.Proofs.StatsPrune
