import Carquet.Spec.Plain
import Carquet.Impl.Plain
/-
Helper lemmas for the fixed-width PLAIN types (INT32/FLOAT, INT64/DOUBLE, INT96, FLBA):
memory images, the `memcpy` decoders, and the bridge to `Spec.Plain.leBytes/ofLeBytes`.
-/
namespace Carquet.Proofs.Plain
open Carquet.Impl.Plain
open Carquet.Spec.Plain (leBytes ofLeBytes)

/-! ### memory images -/

theorem loadU32_mem (v : UInt32) :
    loadU32 (UInt8.ofNat (v.toNat % 256)) (UInt8.ofNat (v.toNat / 256 % 256))
      (UInt8.ofNat (v.toNat / 65536 % 256)) (UInt8.ofNat (v.toNat / 16777216 % 256)) = v := by
  have h := v.toNat_lt
  simp only [loadU32, UInt8.toNat_ofNat']
  have : v.toNat % 256 % 2^8 + 256 * (v.toNat / 256 % 256 % 2^8) + 65536 * (v.toNat / 65536 % 256 % 2^8)
      + 16777216 * (v.toNat / 16777216 % 256 % 2^8) = v.toNat := by omega
  rw [this]; exact UInt32.ofNat_toNat

theorem loadU64_mem (v : UInt64) :
    loadU64 (UInt8.ofNat (v.toNat % 256)) (UInt8.ofNat (v.toNat / 256 % 256))
      (UInt8.ofNat (v.toNat / 65536 % 256)) (UInt8.ofNat (v.toNat / 16777216 % 256))
      (UInt8.ofNat (v.toNat / 4294967296 % 256)) (UInt8.ofNat (v.toNat / 1099511627776 % 256))
      (UInt8.ofNat (v.toNat / 281474976710656 % 256))
      (UInt8.ofNat (v.toNat / 72057594037927936 % 256)) = v := by
  have h := v.toNat_lt
  simp only [loadU64, UInt8.toNat_ofNat']
  have : v.toNat % 256 % 2^8 + 256 * (v.toNat / 256 % 256 % 2^8) + 65536 * (v.toNat / 65536 % 256 % 2^8)
      + 16777216 * (v.toNat / 16777216 % 256 % 2^8) + 4294967296 * (v.toNat / 4294967296 % 256 % 2^8)
      + 1099511627776 * (v.toNat / 1099511627776 % 256 % 2^8)
      + 281474976710656 * (v.toNat / 281474976710656 % 256 % 2^8)
      + 72057594037927936 * (v.toNat / 72057594037927936 % 256 % 2^8) = v.toNat := by omega
  rw [this]; exact UInt64.ofNat_toNat

theorem memU32_length (v : UInt32) : (memU32 v).length = 4 := rfl
theorem memU64_length (v : UInt64) : (memU64 v).length = 8 := rfl

theorem load32s_mem_append (v : UInt32) (rest : List UInt8) :
    load32s (memU32 v ++ rest) = v :: load32s rest := by
  simp [memU32, load32s, loadU32_mem]

theorem load64s_mem_append (v : UInt64) (rest : List UInt8) :
    load64s (memU64 v ++ rest) = v :: load64s rest := by
  simp [memU64, load64s, loadU64_mem]

theorem load32s_encode (vs : List UInt32) : load32s (vs.flatMap memU32) = vs := by
  induction vs with
  | nil => simp [load32s]
  | cons v vs ih => rw [List.flatMap_cons, load32s_mem_append, ih]

theorem load64s_encode (vs : List UInt64) : load64s (vs.flatMap memU64) = vs := by
  induction vs with
  | nil => simp [load64s]
  | cons v vs ih => rw [List.flatMap_cons, load64s_mem_append, ih]

theorem length_encode32 (vs : List UInt32) : (vs.flatMap memU32).length = vs.length * 4 := by
  induction vs with
  | nil => rfl
  | cons v vs ih => simp [List.flatMap_cons, memU32_length, ih]; omega

theorem length_encode64 (vs : List UInt64) : (vs.flatMap memU64).length = vs.length * 8 := by
  induction vs with
  | nil => rfl
  | cons v vs ih => simp [List.flatMap_cons, memU64_length, ih]; omega

theorem sizeMul_of_lt {n k : Nat} (h : n * k < 2 ^ 64) : sizeMul n k = n * k :=
  Nat.mod_eq_of_lt h

theorem sizeMul_le (n k : Nat) : sizeMul n k ≤ n * k := Nat.mod_le _ _

/-! ### `memcpy` decoders on their own encoder's output (followed by anything) -/

theorem decodeInt32_encode (vs : List UInt32) (extra : List UInt8) (h : vs.length * 4 < 2 ^ 64) :
    decodeInt32 (encodeInt32 vs ++ extra) vs.length = .ok vs (vs.length * 4) := by
  have hl := length_encode32 vs
  simp only [decodeInt32, encodeInt32, Int.toNat_natCast, sizeMul_of_lt h]
  rw [if_neg (by omega), if_neg (by simp [hl])]
  rw [← hl, List.take_left, load32s_encode]

theorem decodeInt64_encode (vs : List UInt64) (extra : List UInt8) (h : vs.length * 8 < 2 ^ 64) :
    decodeInt64 (encodeInt64 vs ++ extra) vs.length = .ok vs (vs.length * 8) := by
  have hl := length_encode64 vs
  simp only [decodeInt64, encodeInt64, Int.toNat_natCast, sizeMul_of_lt h]
  rw [if_neg (by omega), if_neg (by simp [hl])]
  rw [← hl, List.take_left, load64s_encode]

/-! ### INT96 -/

theorem loop96_mem (a b c : UInt32) (n : Nat) (rest : List UInt8) :
    loop96 (n + 1) (memU32 a ++ memU32 b ++ memU32 c ++ rest) =
      match loop96 n rest with
      | some vs => some ((a, b, c) :: vs)
      | none => none := by
  simp only [memU32, List.cons_append, List.nil_append, loop96, loadU32_mem]
  cases loop96 n rest <;> rfl

theorem loop96_encode (vs : List Int96) (extra : List UInt8) :
    loop96 vs.length (encodeInt96 vs ++ extra) = some vs := by
  induction vs with
  | nil => simp [loop96]
  | cons v vs ih =>
    obtain ⟨a, b, c⟩ := v
    have e : encodeInt96 ((a, b, c) :: vs) ++ extra
        = memU32 a ++ memU32 b ++ memU32 c ++ (encodeInt96 vs ++ extra) := by
      simp [encodeInt96, List.flatMap_cons]
    rw [e, List.length_cons, loop96_mem, ih]

theorem length_encode96 (vs : List Int96) : (encodeInt96 vs).length = vs.length * 12 := by
  induction vs with
  | nil => rfl
  | cons v vs ih =>
    simp only [encodeInt96, List.flatMap_cons, List.length_append, memU32_length, List.length_cons] at ih ⊢
    omega

theorem decodeInt96_encode (vs : List Int96) (extra : List UInt8) (h : vs.length * 12 < 2 ^ 64) :
    decodeInt96 (encodeInt96 vs ++ extra) vs.length = .ok vs (vs.length * 12) := by
  have hl := length_encode96 vs
  simp only [decodeInt96, Int.toNat_natCast, sizeMul_of_lt h]
  rw [if_neg (by omega), if_neg (by simp [hl]), loop96_encode]

/-- The element loop stays inside the input whenever the unwrapped size fits. -/
theorem loop96_some_of_le : ∀ (n : Nat) (input : List UInt8), n * 12 ≤ input.length →
    ∃ vs, loop96 n input = some vs ∧ vs.length = n
  | 0, _, _ => ⟨[], rfl, rfl⟩
  | n + 1, input, h => by
    rcases input with _|⟨b0,_|⟨b1,_|⟨b2,_|⟨b3,_|⟨b4,_|⟨b5,_|⟨b6,_|⟨b7,_|⟨b8,_|⟨b9,_|⟨b10,_|⟨b11,rest⟩⟩⟩⟩⟩⟩⟩⟩⟩⟩⟩⟩
    all_goals try (simp only [List.length_cons, List.length_nil] at h; omega)
    have h' : n * 12 ≤ rest.length := by simp only [List.length_cons] at h; omega
    obtain ⟨vs, hv, hlen⟩ := loop96_some_of_le n rest h'
    exact ⟨(loadU32 b0 b1 b2 b3, loadU32 b4 b5 b6 b7, loadU32 b8 b9 b10 b11) :: vs,
      by simp [loop96, hv], by simp [hlen]⟩

/-! ### bridge to the Spec's little-endian numbers -/

theorem memU32_eq_leBytes (v : UInt32) : memU32 v = leBytes 4 v.toNat := by
  simp [memU32, leBytes, Nat.div_div_eq_div_mul]

theorem memU64_eq_leBytes (v : UInt64) : memU64 v = leBytes 8 v.toNat := by
  simp [memU64, leBytes, Nat.div_div_eq_div_mul]

theorem leBytes_length (k n : Nat) : (leBytes k n).length = k := by
  induction k generalizing n with
  | zero => rfl
  | succ k ih => simp [leBytes, ih]

theorem ofLeBytes_leBytes (k n : Nat) : ofLeBytes (leBytes k n) = n % 256 ^ k := by
  induction k generalizing n with
  | zero => simp [leBytes, ofLeBytes, Nat.mod_one]
  | succ k ih =>
    have e : 256 ^ (k + 1) = 256 * 256 ^ k := by rw [Nat.pow_succ, Nat.mul_comm]
    simp only [leBytes, ofLeBytes, ih]
    rw [UInt8.toNat_ofNat', e, Nat.mod_mul]
    have : n % 256 % 2 ^ 8 = n % 256 := by omega
    rw [this]

theorem leBytes_add (j k n : Nat) : leBytes (j + k) n = leBytes j n ++ leBytes k (n / 256 ^ j) := by
  induction j generalizing n with
  | zero => simp [leBytes]
  | succ j ih =>
    rw [Nat.add_right_comm, leBytes, leBytes, ih, Nat.div_div_eq_div_mul, Nat.pow_succ,
      Nat.mul_comm (256 ^ j) 256]
    rfl

theorem leBytes_mod (k n : Nat) : leBytes k (n % 256 ^ k) = leBytes k n := by
  induction k generalizing n with
  | zero => rfl
  | succ k ih =>
    have h1 : n % 256 ^ (k + 1) % 256 = n % 256 := by
      rw [Nat.pow_succ, Nat.mul_comm]; exact Nat.mod_mul_right_mod _ _ _
    have h2 : n % 256 ^ (k + 1) / 256 = n / 256 % 256 ^ k := by
      rw [Nat.pow_succ, Nat.mul_comm, Nat.mod_mul_right_div_self]
    simp only [leBytes, h1, h2, ih]

theorem int96_eq_leBytes (v : Int96) :
    memU32 v.1 ++ memU32 v.2.1 ++ memU32 v.2.2 = leBytes 12 (int96ToNat v) := by
  obtain ⟨a, b, c⟩ := v
  have ha := a.toNat_lt; have hb := b.toNat_lt; have hc := c.toNat_lt
  have e : (12 : Nat) = 4 + (4 + 4) := rfl
  rw [e, leBytes_add, leBytes_add, memU32_eq_leBytes, memU32_eq_leBytes, memU32_eq_leBytes,
    List.append_assoc]
  simp only [int96ToNat]
  have h1 : (a.toNat + 2 ^ 32 * b.toNat + 2 ^ 64 * c.toNat) % 256 ^ 4 = a.toNat := by omega
  have h2 : (a.toNat + 2 ^ 32 * b.toNat + 2 ^ 64 * c.toNat) / 256 ^ 4 % 256 ^ 4 = b.toNat := by omega
  have h3 : (a.toNat + 2 ^ 32 * b.toNat + 2 ^ 64 * c.toNat) / 256 ^ 4 / 256 ^ 4 = c.toNat := by omega
  rw [← leBytes_mod 4 (a.toNat + _ + _), h1, ← leBytes_mod 4 (_ / 256 ^ 4), h2, h3]

theorem int96ToNat_lt (v : Int96) : int96ToNat v < 256 ^ 12 := by
  obtain ⟨a, b, c⟩ := v
  have ha := a.toNat_lt; have hb := b.toNat_lt; have hc := c.toNat_lt
  simp only [int96ToNat]; omega

/-! ### the Spec's own round trip (fixed width) -/

theorem spec_decodeFixed_encode (k : Nat) (ns : List Nat) (rest : List UInt8)
    (h : ∀ n ∈ ns, n < 256 ^ k) :
    Spec.Plain.decodeFixed k ns.length (Spec.Plain.encodeFixed k ns ++ rest) = some (ns, rest) := by
  induction ns with
  | nil => simp [Spec.Plain.decodeFixed, Spec.Plain.encodeFixed]
  | cons n ns ih =>
    have hn : n < 256 ^ k := h n (by simp)
    have ih' := ih (fun m hm => h m (by simp [hm]))
    simp only [Spec.Plain.encodeFixed, List.flatMap_cons, List.length_cons, Spec.Plain.decodeFixed,
      List.append_assoc] at ih' ⊢
    rw [if_neg (by simp [leBytes_length])]
    have hd : List.drop k (leBytes k n ++ (List.flatMap (leBytes k) ns ++ rest))
        = List.flatMap (leBytes k) ns ++ rest := by
      exact List.drop_left' (leBytes_length k n)
    have ht : List.take k (leBytes k n ++ (List.flatMap (leBytes k) ns ++ rest)) = leBytes k n := by
      exact List.take_left' (leBytes_length k n)
    rw [hd, ht, ih', ofLeBytes_leBytes, Nat.mod_eq_of_lt hn]

/-! ### the `memcpy` decoders agree with the Spec decoder on every input -/

theorem spec_decodeFixed_none (k : Nat) : ∀ (n : Nat) (bs : List UInt8), bs.length < n * k →
    Spec.Plain.decodeFixed k n bs = none
  | 0, bs, h => by simp at h
  | n + 1, bs, h => by
    rw [Spec.Plain.decodeFixed]
    by_cases hk : bs.length < k
    · rw [if_pos hk]
    · rw [if_neg hk, spec_decodeFixed_none k n (bs.drop k) (by rw [List.length_drop, ] ; rw [Nat.succ_mul] at h; omega)]

theorem loadU32_eq_ofLe (b0 b1 b2 b3 : UInt8) : loadU32 b0 b1 b2 b3 = UInt32.ofNat (ofLeBytes [b0, b1, b2, b3]) := by
  simp only [loadU32, ofLeBytes]; congr 1; omega

theorem loadU64_eq_ofLe (b0 b1 b2 b3 b4 b5 b6 b7 : UInt8) :
    loadU64 b0 b1 b2 b3 b4 b5 b6 b7 = UInt64.ofNat (ofLeBytes [b0, b1, b2, b3, b4, b5, b6, b7]) := by
  simp only [loadU64, ofLeBytes]; congr 1; omega

theorem load32s_take_spec : ∀ (n : Nat) (input : List UInt8), n * 4 ≤ input.length →
    ∃ ns, Spec.Plain.decodeFixed 4 n input = some (ns, input.drop (n * 4)) ∧
      load32s (input.take (n * 4)) = ns.map UInt32.ofNat
  | 0, input, _ => ⟨[], by simp [Spec.Plain.decodeFixed], by simp [load32s]⟩
  | n + 1, input, h => by
    rcases input with _ | ⟨b0, _ | ⟨b1, _ | ⟨b2, _ | ⟨b3, rest⟩⟩⟩⟩
    all_goals try (simp only [List.length_cons, List.length_nil] at h; omega)
    have hr : n * 4 ≤ rest.length := by simp only [List.length_cons] at h; omega
    obtain ⟨ns, h1, h2⟩ := load32s_take_spec n rest hr
    refine ⟨ofLeBytes [b0, b1, b2, b3] :: ns, ?_, ?_⟩
    · rw [Spec.Plain.decodeFixed, if_neg (by simp)]
      have e : (n + 1) * 4 = n * 4 + 4 := by omega
      simp only [List.drop_succ_cons, List.drop_zero, List.take_succ_cons, List.take_zero, h1, e]
    · have e : (n + 1) * 4 = n * 4 + 4 := by omega
      simp only [e, List.take_succ_cons, load32s, h2, List.map_cons, loadU32_eq_ofLe]

theorem load64s_take_spec : ∀ (n : Nat) (input : List UInt8), n * 8 ≤ input.length →
    ∃ ns, Spec.Plain.decodeFixed 8 n input = some (ns, input.drop (n * 8)) ∧
      load64s (input.take (n * 8)) = ns.map UInt64.ofNat
  | 0, input, _ => ⟨[], by simp [Spec.Plain.decodeFixed], by simp [load64s]⟩
  | n + 1, input, h => by
    rcases input with _ | ⟨b0, _ | ⟨b1, _ | ⟨b2, _ | ⟨b3, _ | ⟨b4, _ | ⟨b5, _ | ⟨b6, _ | ⟨b7, rest⟩⟩⟩⟩⟩⟩⟩⟩
    all_goals try (simp only [List.length_cons, List.length_nil] at h; omega)
    have hr : n * 8 ≤ rest.length := by simp only [List.length_cons] at h; omega
    obtain ⟨ns, h1, h2⟩ := load64s_take_spec n rest hr
    refine ⟨ofLeBytes [b0, b1, b2, b3, b4, b5, b6, b7] :: ns, ?_, ?_⟩
    · rw [Spec.Plain.decodeFixed, if_neg (by simp)]
      have e : (n + 1) * 8 = n * 8 + 8 := by omega
      simp only [List.drop_succ_cons, List.drop_zero, List.take_succ_cons, List.take_zero, h1, e]
    · have e : (n + 1) * 8 = n * 8 + 8 := by omega
      simp only [e, List.take_succ_cons, load64s, h2, List.map_cons, loadU64_eq_ofLe]

end Carquet.Proofs.Plain
