import Carquet.Proofs.RoundtripChunk
/-
C01, file level — stage "loops" and the whole-file statement over the facts of a completed run
(`RunFacts`, Proofs/SpecWriterRun.lean):

* `readRowGroup` (columns `0 … n-1` of one row group) and `readRowGroups` (row groups `0 … n-1`) by
  induction on the counter, each step being `get_column` (stage "open") + one chunk read completely
  (stage "one chunk");
* `readAll` = open (stage "open") + the loops up to `num_row_groups` / `num_columns`, which are the
  lengths of the writer's lists; `num_rows` of the footer is the sum over the row groups of the rows
  of their first column.
-/
namespace Carquet.Proofs.Roundtrip
open Carquet.Impl Carquet.Impl.Reader
open Carquet.Impl.Writer (ChunkMeta RgMeta FooterData PageRec Op readerColOf readerTableOf readerRowGroupsOf readerNumRows tableOf)
open Carquet.Proofs.SpecWriter Carquet.Proofs.WriterTable Carquet.Proofs.WriterPages Carquet.Proofs.WriterLayout
open Carquet.Proofs.ReaderPageRoundtrip

/-- the row group the reader returns for the page records of a written row group -/
def groupRead (cols : List Writer.Col) (g : List (List PageRec)) : List ColumnData :=
  List.zipWith readerColOf cols (g.map pagesData)

theorem take_succ_of_get {α : Type} (l : List α) (n : Nat) (x : α) (h : l[n]? = some x) : l.take (n + 1) = l.take n ++ [x] := by
  rw [List.take_add_one, h]; rfl

/-- the size conditions of the file-level round trip, in their direct form -/
structure ReadSmall (file : List UInt8) (md : FooterData) : Prop where
  fileLen : file.length < 2 ^ 64
  numValues : ∀ g ∈ md.rowGroups, ∀ ch ∈ g.chunks, ch.numValues < 2147483648

theorem allGroups_length (D : Writer.Deps) (codec : Nat) : ∀ (gms : List RgMeta) (gs : List (List (List PageRec))),
    AllGroups D codec gms gs → gms.length = gs.length
  | [], [], _ => rfl
  | _ :: gms, _ :: gs, h => by simp [allGroups_length D codec gms gs h.2]
  | [], _ :: _, h => by simp [AllGroups] at h
  | _ :: _, [], h => by simp [AllGroups] at h

theorem rowsZip_sum (cols : List Writer.Col) : ∀ (gms : List RgMeta) (gs : List (List (List PageRec))), RowsZip cols gms gs →
    (gms.map (·.numRows)).sum = (gs.map (fun g => Writer.firstRecs cols (g.map pagesData))).sum
  | [], [], _ => rfl
  | gm :: gms, g :: gs, h => by simp [h.1, rowsZip_sum cols gms gs h.2]
  | [], _ :: _, h => by simp [RowsZip] at h
  | _ :: _, [], h => by simp [RowsZip] at h

section run
variable (L : Libs) (verify : Bool) (mode : Mode) (codec : Nat) (o : FileReal.Oracle) (hst : StoredOk L o codec)
  (cols : List Writer.Col) (hcols : ∀ c ∈ cols, ColOk c) (ops : List Op) (createdBy : String)
  (file : List UInt8) (md : FooterData) (gs : List (List (List PageRec)))
  (hf : RunFacts (FileReal.deps o) (goodPred o) cols codec createdBy ops file md gs) (hsm : RunSmall md gs)
  (hrs : ReadSmall file md)
include hst hcols hf hsm hrs

/-- **columns of one row group** -/
theorem readRowGroup_written (i : Nat) (gm : RgMeta) (g : List (List PageRec)) (hg : md.rowGroups[i]? = some gm)
    (hgs : gs[i]? = some g) :
    ∀ n, n ≤ cols.length →
      readRowGroup Fixes.all L verify mode file ⟨FileReal.fileMetaData md, leavesOfCols md.cols⟩ i n =
        .ok ((groupRead cols g).take n)
  | 0, _ => by simp [readRowGroup]
  | n + 1, hn => by
    have ih := readRowGroup_written i gm g hg hgs n (by omega)
    obtain ⟨c, hc⟩ : ∃ c, cols[n]? = some c := ⟨cols[n], List.getElem?_eq_getElem (by omega)⟩
    obtain ⟨g', m, ps, h1, h2, h3, hcell⟩ := cell_of_run o codec cols ops createdBy file md gs hf hsm i n gm c hg hc
    rw [hgs] at h1
    simp only [Option.some.injEq] at h1
    subst h1
    have hck := hcols c (List.mem_of_getElem? hc)
    have hcol : md.cols[n]? = some c := by rw [hf.cols_eq]; exact hc
    have hgc := getColumn_written md i n gm m c hck hg h2 hcol hcell.ptype
    have hnv := hrs.numValues gm (List.mem_of_getElem? hg) m (List.mem_of_getElem? h2)
    have hrc := readCell L verify mode codec o hst file c hck m ps hcell hnv hrs.fileLen
    have hget : (groupRead cols g)[n]? = some (readerColOf c (pagesData ps)) := by
      simp [groupRead, List.getElem?_zipWith, hc, List.getElem?_map, h3]
    rw [take_succ_of_get _ n _ hget]
    unfold readRowGroup
    rw [ih]
    simp only [hgc, hrc]

/-- **row groups** -/
theorem readRowGroups_written :
    ∀ n, n ≤ md.rowGroups.length →
      readRowGroups Fixes.all L verify mode file ⟨FileReal.fileMetaData md, leavesOfCols md.cols⟩ n =
        .ok ((gs.map (groupRead cols)).take n)
  | 0, _ => by simp [readRowGroups]
  | n + 1, hn => by
    have ih := readRowGroups_written n (by omega)
    have hlen := allGroups_length (FileReal.deps o) codec md.rowGroups gs hf.allGroups
    obtain ⟨gm, hg⟩ : ∃ gm, md.rowGroups[n]? = some gm := ⟨md.rowGroups[n], List.getElem?_eq_getElem (by omega)⟩
    obtain ⟨g, hgs⟩ : ∃ g, gs[n]? = some g := ⟨gs[n]'(by omega), List.getElem?_eq_getElem (by omega)⟩
    have hnc : (⟨FileReal.fileMetaData md, leavesOfCols md.cols⟩ : Opened).numColumns = cols.length := by
      simp [Opened.numColumns, leavesOfCols, hf.cols_eq]
    have hrg := readRowGroup_written L verify mode codec o hst cols hcols ops createdBy file md gs hf hsm hrs n gm g hg hgs
      cols.length (Nat.le_refl _)
    have hfull : (groupRead cols g).take cols.length = groupRead cols g := by
      apply List.take_of_length_le
      simp only [groupRead, List.length_zipWith]
      omega
    rw [hfull] at hrg
    have hget : (gs.map (groupRead cols))[n]? = some (groupRead cols g) := by simp [List.getElem?_map, hgs]
    rw [take_succ_of_get _ n _ hget]
    unfold readRowGroups
    rw [ih]
    simp only [hnc, hrg]

/-- **whole-file stage**: over the facts of a completed run, carquet's reader model — in any mode,
with or without checksum verification; for any codec tag whose stored bodies the reader's libraries
decompress (`StoredOk`: a theorem for UNCOMPRESSED / SNAPPY / LZ4 / LZ4_RAW, the library contract for
GZIP / ZSTD) — returns the table the history denotes -/
theorem readAll_written (hne : cols ≠ []) :
    readAll Fixes.all L verify mode file = .ok (readerTableOf cols ops) := by
  have hfoot : (FileReal.deps o).footer md = FileReal.footer md := rfl
  have hmdne : md.cols ≠ [] := by rw [hf.cols_eq]; exact hne
  have hopen : openFile mode file = .ok ⟨FileReal.fileMetaData md, leavesOfCols md.cols⟩ := by
    rw [hf.file_eq, hfoot]
    exact openFile_envelope mode _ _ hsm.footerLen _ (parseFooter_written md hsm.footer hmdne)
  have hlen := allGroups_length (FileReal.deps o) codec md.rowGroups gs hf.allGroups
  have hnrg : (⟨FileReal.fileMetaData md, leavesOfCols md.cols⟩ : Opened).numRowGroups = md.rowGroups.length := by
    simp [Opened.numRowGroups, FileReal.fileMetaData]
  have hrgs := readRowGroups_written L verify mode codec o hst cols hcols ops createdBy file md gs hf hsm hrs
    md.rowGroups.length (Nat.le_refl _)
  rw [List.take_of_length_le (by simp [hlen])] at hrgs
  unfold readAll
  rw [hopen]
  simp only [hnrg, hrgs]
  have hrows : ((FileReal.fileMetaData md).numRows : Int) = ((readerNumRows cols ops : Nat) : Int) := by
    show ((md.numRows : Nat) : Int) = _
    rw [hf.numRows_eq, rowsZip_sum cols _ _ hf.rowsZip]
    unfold readerNumRows
    rw [← hf.table, List.map_map]
    rfl
  have hgroups : gs.map (groupRead cols) = readerRowGroupsOf cols ops := by
    unfold readerRowGroupsOf
    rw [← hf.table, List.map_map]
    rfl
  rw [hgroups]
  unfold readerTableOf
  rw [← hrows]

end run

end Carquet.Proofs.Roundtrip
