import Carquet.Spec.File.Read
/-
Schema layer: the depth-first element list of a tree (`Spec.Schema.flatten`) is parsed back to the
tree by `Spec.Schema.parseTree`, provided every group has a child (an element with zero children
*is* a leaf in the format).
-/
namespace Carquet.Proofs.SpecFile
open Carquet.Spec Carquet.Spec.Schema

mutual
def height : Node → Nat
  | .leaf _ => 0
  | .group _ cs => 1 + heightList cs
def heightList : List Node → Nat
  | [] => 0
  | c :: cs => max (height c) (heightList cs)
end

mutual
theorem height_le_size : ∀ c : Node, height c ≤ (flatten c).length
  | .leaf _ => by simp [height, flatten]
  | .group i cs => by
    have := heightList_le_size cs
    simp [height, flatten]; omega
theorem heightList_le_size : ∀ cs : List Node, heightList cs ≤ (flattenList cs).length
  | [] => by simp [heightList]
  | c :: cs => by
    have h1 := height_le_size c
    have h2 := heightList_le_size cs
    simp [heightList, flattenList]; omega
end

mutual
theorem parseNode_flatten : ∀ c : Node, groupsNonEmpty c = true → ∀ (fuel : Nat) (rest : List Element),
    height c < fuel → parseNode fuel (flatten c ++ rest) = some (c, rest)
  | .leaf i, _, fuel, rest, hf => by
    cases fuel with
    | zero => simp at hf
    | succ f => simp [flatten, parseNode]
  | .group i cs, hne, fuel, rest, hf => by
    simp only [groupsNonEmpty, Bool.and_eq_true, Bool.not_eq_eq_eq_not, Bool.not_true] at hne
    have hcs : cs.length ≠ 0 := by
      intro h0; have := List.length_eq_zero_iff.mp h0; simp [this] at hne
    cases fuel with
    | zero => simp at hf
    | succ f =>
      have hnz : ((cs.length : Int) == 0) = false := by simpa using hcs
      have hnn : ¬ ((cs.length : Int) < 0) := by omega
      have hl := parseNodes_flatten cs hne.2 f rest (by simp only [height] at hf; omega)
      simp only [flatten, List.cons_append, parseNode, hnz, hnn, Bool.false_eq_true, if_false, Int.toNat_natCast, hl]
theorem parseNodes_flatten : ∀ cs : List Node, groupsNonEmptyList cs = true → ∀ (fuel : Nat) (rest : List Element),
    heightList cs < fuel → parseNodes fuel cs.length (flattenList cs ++ rest) = some (cs, rest)
  | [], _, fuel, rest, _ => by simp [flattenList, parseNodes]
  | c :: cs, hne, fuel, rest, hf => by
    simp only [groupsNonEmptyList, Bool.and_eq_true] at hne
    simp only [heightList] at hf
    have h1 := parseNode_flatten c hne.1 fuel (flattenList cs ++ rest) (by omega)
    have h2 := parseNodes_flatten cs hne.2 fuel rest (by omega)
    simp only [flattenList, List.append_assoc, List.length_cons, parseNodes, h1, h2]
end

/-- the element list of a tree whose root is a group and whose groups all have children is parsed
back to the tree -/
theorem parseTree_flatten (i : Info) (cs : List Node) (hne : groupsNonEmpty (.group i cs) = true) :
    parseTree (flatten (.group i cs)) = some (.group i cs) := by
  have h := parseNode_flatten (.group i cs) hne ((flatten (.group i cs)).length + 1) []
    (by have := height_le_size (.group i cs); omega)
  simp only [List.append_nil] at h
  simp [parseTree, h]

theorem schemaOf_flatten (i : Info) (cs : List Node) (hne : groupsNonEmpty (.group i cs) = true) :
    File.schemaOf (flatten (.group i cs)) = .ok (.group i cs) := by
  simp [File.schemaOf, parseTree_flatten i cs hne]

end Carquet.Proofs.SpecFile
