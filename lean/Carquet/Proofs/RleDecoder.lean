import Carquet.Impl.Rle
import Carquet.Proofs.BitpackImpl
import Carquet.Proofs.VarintImpl
/-
Refinement of the streaming decoder of Impl/Rle.lean to a list cursor.

`allValues w bytes` is everything the decoder will ever deliver from `bytes` (it stops
silently at the end of the input and at the first malformed or truncated run).
`future d` is what a decoder state `d` will still deliver.  `get`, `getBatch k`, `skip k` are
shown to act on `future d` as `head`, `take k`, `drop k`.
-/
namespace Carquet.Proofs.RleDecoder
open Carquet.Impl Carquet.Impl.Rle Carquet.Proofs.BitpackImpl

/-- values of `g` further groups of the current bit-packed run, then `k` of what follows;
nothing after a truncated group -/
def groupsThen (w : Nat) (k : List UInt8 → List Nat) : Nat → List UInt8 → List Nat
  | 0, rest => k rest
  | g + 1, rest =>
    if rest.length < w then [] else Bitpack.unpack8 w rest ++ groupsThen w k g (rest.drop w)

/-- everything the runs in `bs` deliver (fuel: one unit per run) -/
def valuesOf (w : Nat) : Nat → List UInt8 → List Nat
  | 0, _ => []
  | f + 1, bs =>
    if bs.length = 0 then []
    else
      match Varint.readVarintRle bs with
      | none => []
      | some (h, rest) =>
        if h &&& 1 = 0 then
          if rest.length < valueBytes w then []
          else
            List.replicate (h >>> 1) (Bitpack.leNat (rest.take (valueBytes w)) &&& valueMask w) ++
              valuesOf w f (rest.drop (valueBytes w))
        else groupsThen w (valuesOf w f) (h >>> 1) rest

def allValues (w : Nat) (bs : List UInt8) : List Nat := valuesOf w (bs.length + 1) bs

theorem readLoop_rest_lt (bits : Nat) : ∀ (bs : List UInt8) (f s r v : Nat) (rest : List UInt8),
    Varint.readLoop bits f s r bs = some (v, rest) → rest.length < bs.length := by
  intro bs
  induction bs with
  | nil => intro f s r v rest h; cases f <;> simp [Varint.readLoop] at h
  | cons b tl ih =>
    intro f s r v rest h
    cases f with
    | zero => simp [Varint.readLoop] at h
    | succ f =>
      simp only [Varint.readLoop] at h
      split at h
      · cases h; simp
      · have := ih _ _ _ _ _ h
        simp only [List.length_cons]; omega

theorem readVarintRle_rest_lt {bs rest : List UInt8} {v : Nat}
    (h : Varint.readVarintRle bs = some (v, rest)) : rest.length < bs.length :=
  readLoop_rest_lt 32 bs 5 0 0 v rest h

theorem groupsThen_congr (w : Nat) (k k' : List UInt8 → List Nat) (g : Nat) (rest : List UInt8)
    (h : ∀ l : List UInt8, l.length ≤ rest.length → k l = k' l) :
    groupsThen w k g rest = groupsThen w k' g rest := by
  induction g generalizing rest with
  | zero => exact h rest (Nat.le_refl _)
  | succ g ih =>
    simp only [groupsThen]
    split
    · rfl
    · rw [ih (rest.drop w) (fun l hl => h l (by rw [List.length_drop] at hl; omega))]

/-- enough fuel is enough -/
theorem valuesOf_fuel (w : Nat) : ∀ (f f' : Nat) (bs : List UInt8),
    bs.length < f → bs.length < f' → valuesOf w f bs = valuesOf w f' bs := by
  intro f
  induction f with
  | zero => intro f' bs h; omega
  | succ f ih =>
    intro f' bs h h'
    cases f' with
    | zero => omega
    | succ f' =>
      simp only [valuesOf]
      split
      · rfl
      · cases hrv : Varint.readVarintRle bs with
        | none => rfl
        | some p =>
          obtain ⟨hd, rest⟩ := p
          have hlt := readVarintRle_rest_lt hrv
          simp only
          split
          · split
            · rfl
            · rw [ih f' (rest.drop (valueBytes w)) (by rw [List.length_drop]; omega)
                (by rw [List.length_drop]; omega)]
          · exact groupsThen_congr w _ _ _ _ (fun l hl => ih f' l (by omega) (by omega))

theorem valuesOf_eq_all (w f : Nat) (bs : List UInt8) (h : bs.length < f) :
    valuesOf w f bs = allValues w bs :=
  valuesOf_fuel w f (bs.length + 1) bs h (Nat.lt_succ_self _)

/-- what a decoder state will still deliver -/
def future (d : Dec) : List Nat :=
  if d.status ≠ .ok then []
  else if d.inRle = true then List.replicate d.runRemaining d.rleValue ++ allValues d.width d.rest
  else d.bp ++ groupsThen d.width (allValues d.width) ((d.runRemaining - d.bp.length) / 8) d.rest

/-- invariant of reachable decoder states -/
structure WF (d : Dec) : Prop where
  wle : d.width ≤ 32
  rle : d.inRle = true → d.bp = []
  packed : d.inRle = false → d.bp.length ≤ d.runRemaining ∧ (d.runRemaining - d.bp.length) % 8 = 0

theorem WF_init (w : Nat) (hw : w ≤ 32) (bs : List UInt8) : WF (Dec.init w bs) :=
  ⟨hw, fun h => by simp [Dec.init] at h, fun _ => by simp [Dec.init]⟩

theorem future_init (w : Nat) (hw : w ≤ 32) (bs : List UInt8) : future (Dec.init w bs) = allValues w bs := by
  simp [future, Dec.init, groupsThen, maxWidth, hw]

theorem WF.bp_nil {d : Dec} (hwf : WF d) (h0 : d.runRemaining = 0) : d.bp = [] := by
  by_cases hr : d.inRle = true
  · exact hwf.rle hr
  · have hr' : d.inRle = false := by simpa using hr
    have := hwf.packed hr'
    exact List.eq_nil_of_length_eq_zero (by omega)

/-- between runs the future is the denotation of the unread bytes -/
theorem future_between {d : Dec} (hwf : WF d) (hs : d.status = .ok) (h0 : d.runRemaining = 0) :
    future d = allValues d.width d.rest := by
  unfold future
  simp only [hs, ne_eq, not_true_eq_false, if_false]
  by_cases hr : d.inRle = true
  · simp [hr, h0]
  · have hr' : d.inRle = false := by simpa using hr
    simp [hr', h0, hwf.bp_nil h0, groupsThen]

/-- postcondition of `start_new_run` started between runs on the unread bytes `rest0` -/
structure SNRPost (w f : Nat) (rest0 : List UInt8) (r : Bool × Dec) : Prop where
  wf : WF r.2
  width : r.2.width = w
  ok : r.1 = true → r.2.status = .ok ∧ 0 < r.2.runRemaining ∧ future r.2 = valuesOf w f rest0
  fail : r.1 = false → valuesOf w f rest0 = [] ∧ future r.2 = [] ∧ hasNext r.2 = false

/-- the state in which `start_new_run` recurses after an empty RLE run -/
def afterEmptyRle (d : Dec) (rest : List UInt8) : Dec :=
  { d with rest := rest.drop (valueBytes d.width), inRle := true, runRemaining := 0,
           rleValue := Bitpack.leNat (rest.take (valueBytes d.width)) &&& valueMask d.width }

/-- the state in which `start_new_run` recurses after an empty bit-packed run -/
def afterEmptyPacked (d : Dec) (rest : List UInt8) : Dec :=
  { d with rest := rest, inRle := false, runRemaining := 0 }

theorem SNRPost.mk_fail {w f : Nat} {rest0 : List UInt8} {d' : Dec} (wf : WF d') (width : d'.width = w)
    (hv : valuesOf w f rest0 = []) (hf : future d' = []) (hn : hasNext d' = false) :
    SNRPost w f rest0 (false, d') :=
  ⟨wf, width, fun h => by simp at h, fun _ => ⟨hv, hf, hn⟩⟩

theorem SNRPost.mk_ok {w f : Nat} {rest0 : List UInt8} {d' : Dec} (wf : WF d') (width : d'.width = w)
    (hs : d'.status = .ok) (hpos : 0 < d'.runRemaining) (hfut : future d' = valuesOf w f rest0) :
    SNRPost w f rest0 (true, d') :=
  ⟨wf, width, fun _ => ⟨hs, hpos, hfut⟩, fun h => by simp at h⟩

theorem SNRPost.of_eq {w f f' : Nat} {rest0 rest' : List UInt8} {r : Bool × Dec}
    (h : SNRPost w f rest' r) (hv : valuesOf w f' rest0 = valuesOf w f rest') : SNRPost w f' rest0 r :=
  ⟨h.wf, h.width, fun ht => by rw [hv]; exact h.ok ht, fun hf => by rw [hv]; exact h.fail hf⟩

/-- `start_new_run`: either a run with at least one value is open and nothing was lost, or the
decoder has nothing more to deliver -/
theorem startNewRunF_spec : ∀ (f : Nat) (d : Dec), WF d → d.status = .ok → d.runRemaining = 0 →
    d.rest.length < f → SNRPost d.width f d.rest (startNewRunF f d) := by
  intro f
  induction f with
  | zero => intro d _ _ _ h; omega
  | succ f ih =>
    intro d hwf hs h0 hlen
    have hbp := hwf.bp_nil h0
    simp only [startNewRunF]
    by_cases hnil : d.rest.length = 0
    · simp only [hnil, if_true]
      have hv : valuesOf d.width (f + 1) d.rest = [] := by simp [valuesOf, hnil]
      apply SNRPost.mk_fail hwf rfl hv
      · rw [future_between hwf hs h0, allValues, List.eq_nil_of_length_eq_zero hnil]
        simp [valuesOf]
      · simp [hasNext, hs, h0, hnil]
    · simp only [hnil, if_false]
      cases hrv : Varint.readVarintRle d.rest with
      | none =>
        simp only
        have hv : valuesOf d.width (f + 1) d.rest = [] := by simp only [valuesOf, hnil, hrv, if_false]
        refine SNRPost.mk_fail ?_ rfl hv ?_ ?_
        · exact ⟨hwf.wle, hwf.rle, hwf.packed⟩
        · simp [future]
        · simp [hasNext]
      | some p =>
        obtain ⟨hd, rest⟩ := p
        have hlt := readVarintRle_rest_lt hrv
        simp only
        by_cases hpar : hd &&& 1 = 0
        · simp only [hpar, if_true]
          by_cases htr : rest.length < valueBytes d.width
          · simp only [htr, if_true]
            have hv : valuesOf d.width (f + 1) d.rest = [] := by
              simp only [valuesOf, hnil, hrv, hpar, htr, if_false, if_true]
            refine SNRPost.mk_fail ?_ rfl hv ?_ ?_
            · exact ⟨hwf.wle, fun _ => hbp, fun h => by simp at h⟩
            · simp [future]
            · simp [hasNext]
          · simp only [htr, if_false]
            have hv : valuesOf d.width (f + 1) d.rest =
                List.replicate (hd >>> 1) (Bitpack.leNat (rest.take (valueBytes d.width)) &&& valueMask d.width) ++
                  valuesOf d.width f (rest.drop (valueBytes d.width)) := by
              simp only [valuesOf, hnil, hrv, hpar, htr, if_false, if_true]
            by_cases hz : hd >>> 1 = 0
            · simp only [hz, if_true]
              have h1 := ih (afterEmptyRle d rest) ⟨hwf.wle, fun _ => hbp, fun h => by simp [afterEmptyRle] at h⟩
                hs rfl (by simp only [afterEmptyRle, List.length_drop]; omega)
              refine SNRPost.of_eq h1 ?_
              rw [hv, hz]; simp [afterEmptyRle]
            · simp only [hz, if_false]
              refine SNRPost.mk_ok ?_ rfl hs (Nat.pos_of_ne_zero hz) ?_
              · exact ⟨hwf.wle, fun _ => hbp, fun h => by simp at h⟩
              · rw [hv]
                simp only [future, hs, ne_eq, not_true_eq_false, if_false, if_true]
                rw [valuesOf_eq_all _ _ _ (by simp only [List.length_drop]; omega)]
        · simp only [hpar, if_false]
          have hv : valuesOf d.width (f + 1) d.rest =
              groupsThen d.width (valuesOf d.width f) (hd >>> 1) rest := by
            simp only [valuesOf, hnil, hrv, hpar, if_false]
          by_cases hz : (hd >>> 1) * 8 = 0
          · have hz' : hd >>> 1 = 0 := by omega
            simp only [hz, if_true]
            have h1 := ih (afterEmptyPacked d rest)
              ⟨hwf.wle, fun h => by simp [afterEmptyPacked] at h, fun _ => by simp [afterEmptyPacked, hbp]⟩
              hs rfl (by show rest.length < f; omega)
            refine SNRPost.of_eq h1 ?_
            rw [hv, hz']; rfl
          · simp only [hz, if_false]
            refine SNRPost.mk_ok ?_ rfl hs (Nat.pos_of_ne_zero hz) ?_
            · exact ⟨hwf.wle, fun h => by simp at h, fun _ => by simp⟩
            · rw [hv]
              simp only [future, hs, ne_eq, not_true_eq_false, if_false, List.length_nil, Nat.sub_zero,
                List.nil_append, Nat.mul_div_cancel _ (show 0 < 8 by decide), Bool.false_eq_true]
              exact groupsThen_congr _ _ _ _ _ (fun l hl => (valuesOf_eq_all _ _ _ (by omega)).symm)

theorem startNewRun_spec (d : Dec) (hwf : WF d) (hs : d.status = .ok) (h0 : d.runRemaining = 0) :
    WF (startNewRun d).2 ∧
    ((startNewRun d).1 = true → (startNewRun d).2.status = .ok ∧ 0 < (startNewRun d).2.runRemaining ∧
        future (startNewRun d).2 = future d) ∧
    ((startNewRun d).1 = false → future d = [] ∧ future (startNewRun d).2 = [] ∧
        hasNext (startNewRun d).2 = false) := by
  have h := startNewRunF_spec (d.rest.length + 1) d hwf hs h0 (Nat.lt_succ_self _)
  have hf : future d = valuesOf d.width (d.rest.length + 1) d.rest := future_between hwf hs h0
  unfold startNewRun
  refine ⟨h.wf, fun ht => ?_, fun hf' => ?_⟩
  · obtain ⟨a, b, c⟩ := h.ok ht
    exact ⟨a, b, by rw [c, hf]⟩
  · obtain ⟨a, b, c⟩ := h.fail hf'
    exact ⟨by rw [hf, a], b, c⟩

/-- a state in which the next value can be delivered without reading a header or a group -/
structure Ready (d : Dec) : Prop where
  wf : WF d
  ok : d.status = .ok
  pos : 0 < d.runRemaining
  buf : d.inRle = false → d.bp ≠ []

theorem future_failed {d : Dec} (h : d.status ≠ .ok) : future d = [] := by
  simp [future, h]

/-- `fill_bitpack_buffer` in a bit-packed run with an empty buffer -/
theorem fill_spec (d : Dec) (hwf : WF d) (hs : d.status = .ok) (hr : d.inRle = false)
    (hbp : d.bp = []) (hpos : 0 < d.runRemaining) :
    WF (fill d).2 ∧
    ((fill d).1 = true → Ready (fill d).2 ∧ future (fill d).2 = future d) ∧
    ((fill d).1 = false → future d = [] ∧ future (fill d).2 = [] ∧ hasNext (fill d).2 = false) := by
  have hp := hwf.packed hr
  rw [hbp] at hp
  simp only [List.length_nil, Nat.sub_zero] at hp
  obtain ⟨k, hk⟩ : ∃ k, d.runRemaining / 8 = k + 1 := ⟨d.runRemaining / 8 - 1, by omega⟩
  have hfut : future d = groupsThen d.width (allValues d.width) (k + 1) d.rest := by
    simp [future, hs, hr, hbp, hk]
  unfold fill
  have h0 : ¬ d.runRemaining = 0 := by omega
  simp only [h0, if_false]
  by_cases htr : d.rest.length < d.width
  · simp only [htr, if_true]
    refine ⟨⟨hwf.wle, hwf.rle, hwf.packed⟩, fun h => by simp at h, fun _ => ⟨?_, ?_, ?_⟩⟩
    · rw [hfut]; simp [groupsThen, htr]
    · simp [future]
    · simp [hasNext]
  · simp only [htr, if_false]
    have hlen := unpack8_length hwf.wle d.rest
    have hwf' : WF { d with bp := Bitpack.unpack8 d.width d.rest, rest := d.rest.drop d.width } :=
      ⟨hwf.wle, fun h => by simp [hr] at h, fun _ => by simp only [hlen]; omega⟩
    refine ⟨hwf', fun _ => ⟨⟨hwf', hs, hpos, fun _ => ?_⟩, ?_⟩, fun h => by simp at h⟩
    · intro h
      have h' : Bitpack.unpack8 d.width d.rest = [] := h
      rw [h'] at hlen
      simp at hlen
    · rw [hfut]
      simp only [future, hs, hr, ne_eq, not_true_eq_false, if_false, Bool.false_eq_true, hlen, groupsThen, htr]
      congr 2
      omega

/-- `prep`: open a run and fill the group buffer, or report that nothing more will come -/
theorem prep_spec (d : Dec) (hwf : WF d) (hs : d.status = .ok) :
    WF (prep d).2 ∧
    ((prep d).1 = true → Ready (prep d).2 ∧ future (prep d).2 = future d) ∧
    ((prep d).1 = false → future d = [] ∧ future (prep d).2 = [] ∧ hasNext (prep d).2 = false) := by
  -- after `ensureRun`
  have hrun : WF (ensureRun d).2 ∧
      ((ensureRun d).1 = true → (ensureRun d).2.status = .ok ∧ 0 < (ensureRun d).2.runRemaining ∧
          future (ensureRun d).2 = future d) ∧
      ((ensureRun d).1 = false → future d = [] ∧ future (ensureRun d).2 = [] ∧
          hasNext (ensureRun d).2 = false) := by
    unfold ensureRun
    by_cases h0 : d.runRemaining = 0
    · rw [if_pos h0]
      exact startNewRun_spec d hwf hs h0
    · rw [if_neg h0]
      exact ⟨hwf, fun _ => ⟨hs, Nat.pos_of_ne_zero h0, rfl⟩, fun h => by simp at h⟩
  obtain ⟨hwf1, hok1, hfail1⟩ := hrun
  unfold prep
  by_cases h1 : (ensureRun d).1 = true
  · simp only [h1, if_true]
    obtain ⟨hs1, hpos1, hfut1⟩ := hok1 h1
    unfold ensureBuf
    by_cases hr : (ensureRun d).2.inRle = true
    · simp only [hr, if_true]
      exact ⟨hwf1, fun _ => ⟨⟨hwf1, hs1, hpos1, fun h => by rw [hr] at h; cases h⟩, hfut1⟩, fun h => by simp at h⟩
    · have hr' : (ensureRun d).2.inRle = false := by simpa using hr
      simp only [hr', Bool.false_eq_true, if_false]
      by_cases hb : (ensureRun d).2.bp.length = 0
      · simp only [hb, if_true]
        have hbp : (ensureRun d).2.bp = [] := List.eq_nil_of_length_eq_zero hb
        obtain ⟨a, b, c⟩ := fill_spec _ hwf1 hs1 hr' hbp hpos1
        refine ⟨a, fun ht => ?_, fun hf => ?_⟩
        · obtain ⟨r, e⟩ := b ht
          exact ⟨r, by rw [e, hfut1]⟩
        · obtain ⟨x, y, z⟩ := c hf
          exact ⟨by rw [← hfut1, x], y, z⟩
      · simp only [hb, if_false]
        refine ⟨hwf1, fun _ => ⟨⟨hwf1, hs1, hpos1, fun _ h => hb (by rw [h]; rfl)⟩, hfut1⟩, fun h => by simp at h⟩
  · have h1' : (ensureRun d).1 = false := by simpa using h1
    simp only [h1', Bool.false_eq_true, if_false]
    exact ⟨hwf1, fun h => by simp at h, fun _ => hfail1 h1'⟩

/-- one chunk: at least one value, exactly the next `chunkLen` values of the future -/
theorem chunk_spec (d : Dec) (hr : Ready d) (want : Nat) (hw : 0 < want) :
    0 < chunkLen d want ∧ chunkLen d want ≤ want ∧
    chunkVals d want = (future d).take (chunkLen d want) ∧
    (chunkVals d want).length = chunkLen d want ∧
    future (chunkDec d want) = (future d).drop (chunkLen d want) ∧
    WF (chunkDec d want) ∧ (chunkDec d want).status = .ok := by
  obtain ⟨hwf, hs, hpos, hbuf⟩ := hr
  by_cases hrle : d.inRle = true
  · have hn : chunkLen d want = min want d.runRemaining := by simp [chunkLen, hrle]
    have hle : min want d.runRemaining ≤ d.runRemaining := Nat.min_le_right _ _
    refine ⟨by omega, by omega, ?_, ?_, ?_, ?_, ?_⟩
    · simp only [chunkVals, hrle, if_true, future, hs, ne_eq, not_true_eq_false, if_false, hn]
      rw [List.take_append_of_le_length (by rw [List.length_replicate]; exact hle), List.take_replicate,
        Nat.min_eq_left hle]
    · simp [chunkVals, hrle]
    · simp only [chunkDec, hrle, if_true, future, hs, ne_eq, not_true_eq_false, if_false, hn]
      rw [List.drop_append_of_le_length (by rw [List.length_replicate]; exact hle), List.drop_replicate]
    · simp only [chunkDec, hrle, if_true]
      exact ⟨hwf.wle, fun _ => hwf.rle hrle, fun h => by simp at h⟩
    · simp [chunkDec, hrle, hs]
  · have hrle' : d.inRle = false := by simpa using hrle
    have hp := hwf.packed hrle'
    have hne : 0 < d.bp.length := List.length_pos_iff.mpr (hbuf hrle')
    have hn : chunkLen d want = min want (min d.bp.length d.runRemaining) := by simp [chunkLen, hrle']
    have hle : chunkLen d want ≤ d.bp.length := by rw [hn]; omega
    refine ⟨by omega, by omega, ?_, ?_, ?_, ?_, ?_⟩
    · simp only [chunkVals, hrle', Bool.false_eq_true, if_false, future, hs, ne_eq, not_true_eq_false]
      rw [List.take_append_of_le_length hle]
    · simp only [chunkVals, hrle', Bool.false_eq_true, if_false, List.length_take]
      omega
    · simp only [chunkDec, hrle', Bool.false_eq_true, if_false, future, hs, ne_eq, not_true_eq_false]
      rw [List.drop_append_of_le_length hle, List.length_drop]
      congr 3
      omega
    · simp only [chunkDec, hrle', Bool.false_eq_true, if_false]
      refine ⟨hwf.wle, fun h => by simp at h, fun _ => ?_⟩
      simp only [List.length_drop]
      omega
    · simp [chunkDec, hrle', hs]

theorem hasNext_false_future {d : Dec} (hwf : WF d) (h : hasNext d = false) : future d = [] := by
  by_cases hs : d.status = .ok
  · have h0 : d.runRemaining = 0 := by
      simp only [hasNext, hs, ne_eq, not_true_eq_false, if_false] at h
      split at h
      · cases h
      · omega
    have hr : d.rest = [] := by
      simp only [hasNext, hs, ne_eq, not_true_eq_false, if_false, h0, Nat.lt_irrefl] at h
      exact List.eq_nil_of_length_eq_zero (by simpa using h)
    rw [future_between hwf hs h0, hr]
    simp [allValues, valuesOf]
  · exact future_failed hs

/-- `get_batch`: the next `want` values of the future (fewer only if the future is shorter) -/
theorem batchLoop_spec : ∀ (fuel : Nat) (d : Dec) (want : Nat), WF d → want ≤ fuel →
    (batchLoop fuel d want).1 = (future d).take want ∧
    WF (batchLoop fuel d want).2 ∧
    future (batchLoop fuel d want).2 = (future d).drop want := by
  intro fuel
  induction fuel with
  | zero =>
    intro d want hwf h
    have : want = 0 := by omega
    subst this
    simp [batchLoop, hwf]
  | succ f ih =>
    intro d want hwf hle
    simp only [batchLoop]
    by_cases h0 : want = 0
    · subst h0; simp [hwf]
    rw [if_neg h0]
    by_cases hn : hasNext d = false
    · rw [if_pos hn, hasNext_false_future hwf hn]; simp [hwf]
    rw [if_neg hn]
    have hs : d.status = .ok := by
      by_cases hs : d.status = .ok
      · exact hs
      · exfalso; apply hn; simp [hasNext, hs]
    obtain ⟨hwf1, hok, hfail⟩ := prep_spec d hwf hs
    by_cases hp : (prep d).1 = false
    · rw [if_pos hp]
      obtain ⟨a, b, _⟩ := hfail hp
      rw [a]; simp [hwf1, b]
    · rw [if_neg hp]
      have hp' : (prep d).1 = true := by simpa using hp
      obtain ⟨hready, hfut⟩ := hok hp'
      obtain ⟨c1, c2, c3, c4, c5, c6, c7⟩ := chunk_spec (prep d).2 hready want (Nat.pos_of_ne_zero h0)
      obtain ⟨i1, i2, i3⟩ := ih (chunkDec (prep d).2 want) (want - chunkLen (prep d).2 want) c6 (by omega)
      refine ⟨?_, i2, ?_⟩
      · show chunkVals (prep d).2 want ++ (batchLoop f (chunkDec (prep d).2 want) (want - chunkLen (prep d).2 want)).1
            = (future d).take want
        rw [i1, c3, c5, hfut]
        have : want = chunkLen (prep d).2 want + (want - chunkLen (prep d).2 want) := by omega
        conv => rhs; rw [this, List.take_add]
      · show future (batchLoop f (chunkDec (prep d).2 want) (want - chunkLen (prep d).2 want)).2
            = (future d).drop want
        rw [i3, c5, hfut, List.drop_drop]
        congr 1; omega

theorem getBatch_spec (d : Dec) (k : Nat) (hwf : WF d) :
    (getBatch d k).1 = (future d).take k ∧ WF (getBatch d k).2 ∧
    future (getBatch d k).2 = (future d).drop k :=
  batchLoop_spec k d k hwf (Nat.le_refl _)

/-- `skip` walks exactly like `get_batch` and only counts -/
theorem skipLoop_eq_batchLoop : ∀ (fuel : Nat) (d : Dec) (want : Nat), WF d →
    skipLoop fuel d want = ((batchLoop fuel d want).1.length, (batchLoop fuel d want).2) := by
  intro fuel
  induction fuel with
  | zero => intro d want _; simp [skipLoop, batchLoop]
  | succ f ih =>
    intro d want hwf
    simp only [skipLoop, batchLoop]
    by_cases h0 : want = 0
    · rw [if_pos h0, if_pos h0]; rfl
    rw [if_neg h0, if_neg h0]
    by_cases hn : hasNext d = false
    · rw [if_pos hn, if_pos hn]; rfl
    rw [if_neg hn, if_neg hn]
    have hs : d.status = .ok := by
      by_cases hs : d.status = .ok
      · exact hs
      · exfalso; apply hn; simp [hasNext, hs]
    obtain ⟨hwf1, hok, _⟩ := prep_spec d hwf hs
    by_cases hp : (prep d).1 = false
    · rw [if_pos hp, if_pos hp]; rfl
    · rw [if_neg hp, if_neg hp]
      have hp' : (prep d).1 = true := by simpa using hp
      obtain ⟨hready, _⟩ := hok hp'
      obtain ⟨_, _, _, c4, _, c6, _⟩ := chunk_spec (prep d).2 hready want (Nat.pos_of_ne_zero h0)
      rw [ih _ _ c6]
      simp [c4]

theorem skip_spec (d : Dec) (k : Nat) (hwf : WF d) :
    (skip d k).1 = min k (future d).length ∧ WF (skip d k).2 ∧
    future (skip d k).2 = (future d).drop k := by
  unfold skip
  rw [skipLoop_eq_batchLoop k d k hwf]
  obtain ⟨a, b, c⟩ := batchLoop_spec k d k hwf (Nat.le_refl _)
  exact ⟨by simp [a], b, c⟩

/-- `get`: the head of the future, or 0 when there is none -/
theorem get_spec (d : Dec) (hwf : WF d) :
    (Rle.get d).1 = (future d).headD 0 ∧ WF (Rle.get d).2 ∧ future (Rle.get d).2 = (future d).drop 1 := by
  unfold Rle.get
  by_cases hs : d.status = .ok
  · simp only [hs, ne_eq, not_true_eq_false, if_false]
    obtain ⟨hwf1, hok, hfail⟩ := prep_spec d hwf hs
    by_cases hp : (prep d).1 = true
    · simp only [hp, if_true]
      obtain ⟨⟨w1, s1, p1, b1⟩, hfut⟩ := hok hp
      rw [← hfut]
      unfold pop
      by_cases hr : (prep d).2.inRle = true
      · simp only [hr, if_true]
        obtain ⟨n, hn⟩ : ∃ n, (prep d).2.runRemaining = n + 1 := ⟨(prep d).2.runRemaining - 1, by omega⟩
        refine ⟨?_, ⟨w1.wle, fun _ => w1.rle hr, fun h => by simp at h⟩, ?_⟩
        · simp [future, s1, hr, hn, List.replicate_succ]
        · simp [future, s1, hr, hn, List.replicate_succ]
      · have hr' : (prep d).2.inRle = false := by simpa using hr
        simp only [hr', Bool.false_eq_true, if_false]
        have hp2 := w1.packed hr'
        cases hbp : (prep d).2.bp with
        | nil => exact absurd hbp (b1 hr')
        | cons x xs =>
          rw [hbp] at hp2
          simp only [List.length_cons] at hp2
          refine ⟨?_, ⟨w1.wle, fun h => by simp at h, fun _ => ?_⟩, ?_⟩
          · simp [future, s1, hr', hbp]
          · simp only [List.tail_cons]; omega
          · simp only [future, s1, hr', hbp, ne_eq, not_true_eq_false, if_false, Bool.false_eq_true,
              List.tail_cons, List.length_cons, List.cons_append, List.drop_succ_cons, List.drop_zero]
            congr 3
            omega
    · have hp' : (prep d).1 = false := by simpa using hp
      simp only [hp', Bool.false_eq_true, if_false]
      obtain ⟨a, b, _⟩ := hfail hp'
      rw [a, b]; simp [hwf1]
  · simp only [hs, ne_eq, not_false_eq_true, if_true]
    rw [future_failed hs]; simp [hwf]

/-- **Refinement**: a history of `get` / `get_batch` / `skip` calls on a decoder state shows
the caller exactly what the list cursor shows on the state's future. -/
theorem runOps_eq_cursor (ops : List Op) : ∀ (d : Dec), WF d → runOps d ops = cursorOps (future d) ops := by
  induction ops with
  | nil => intro d _; rfl
  | cons op ops ih =>
    intro d hwf
    cases op with
    | get =>
      obtain ⟨a, b, c⟩ := get_spec d hwf
      simp only [runOps, step, cursorOps, a, ih _ b, c]
    | getBatch k =>
      obtain ⟨a, b, c⟩ := getBatch_spec d k hwf
      simp only [runOps, step, cursorOps, a, ih _ b, c]
    | skip k =>
      obtain ⟨a, b, c⟩ := skip_spec d k hwf
      simp only [runOps, step, cursorOps, a, ih _ b, c]

/-- the one-shot decode is a prefix of everything the bytes denote -/
theorem decodeAll_eq (w : Nat) (hw : w ≤ 32) (bs : List UInt8) (n : Nat) :
    decodeAll w bs n = (allValues w bs).take n := by
  unfold decodeAll
  rw [(getBatch_spec _ n (WF_init w hw bs)).1, future_init w hw]

/-- the cursor does not see beyond what the history asks for -/
theorem cursorOps_take (ops : List Op) : ∀ (l : List Nat) (n : Nat), demand ops ≤ n →
    cursorOps (l.take n) ops = cursorOps l ops := by
  induction ops with
  | nil => intro l n _; rfl
  | cons op ops ih =>
    intro l n h
    cases op with
    | get =>
      simp only [demand] at h
      simp only [cursorOps]
      obtain ⟨m, rfl⟩ : ∃ m, n = m + 1 := ⟨n - 1, by omega⟩
      have h1 : (l.take (m + 1)).headD 0 = l.headD 0 := by cases l <;> simp
      have h2 : (l.take (m + 1)).drop 1 = (l.drop 1).take m := by cases l <;> simp
      rw [h1, h2, ih _ m (by omega)]
    | getBatch k =>
      simp only [demand] at h
      simp only [cursorOps]
      have h1 : (l.take n).take k = l.take k := by rw [List.take_take]; congr 1; omega
      have h2 : (l.take n).drop k = (l.drop k).take (n - k) := by rw [List.drop_take]
      rw [h1, h2, ih _ (n - k) (by omega)]
    | skip k =>
      simp only [demand] at h
      simp only [cursorOps]
      have h1 : min k (l.take n).length = min k l.length := by rw [List.length_take]; omega
      have h2 : (l.take n).drop k = (l.drop k).take (n - k) := by rw [List.drop_take]
      rw [h1, h2, ih _ (n - k) (by omega)]

end Carquet.Proofs.RleDecoder
