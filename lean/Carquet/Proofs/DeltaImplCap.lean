import Carquet.Proofs.DeltaImplEnc
/-
When does the Impl encoder succeed?  `flush_block` asks for `10 + 4 + packed` free bytes, of which
it uses `|varint| + 4 + packed`; so 9 spare bytes beyond the final size (and the 40-byte header
check) are enough.
-/
namespace Carquet.Impl.Delta
open Carquet.Spec.Delta (pack packedSize)

theorem length_miniSlice_le (ds : List (BitVec 64)) (mb : Nat) : (miniSlice ds mb).length ≤ 32 := by
  simp [miniSlice, miniBlockSize, blockSize, miniBlocks, List.length_take]
  omega

theorem length_miniBytes (w : Nat) (min : BitVec 64) (slice : List (BitVec 64)) (h : slice.length ≤ 32) :
    (miniBytes false w min slice).length = miniBytesNeeded false w := by
  unfold miniBytes miniBytesNeeded
  by_cases hw : w = 0
  · simp [hw]
  · rw [if_neg hw, if_neg hw]
    simp only [Bool.false_and, Bool.false_eq_true, if_false]
    rw [packBits_eq, Spec.Delta.length_pack]
    simp only [List.length_map, toPack, List.length_append, List.length_replicate, miniBlockSize, blockSize,
      miniBlocks, packedSize]
    have : slice.length + (128 / 4 - slice.length) = 32 := by omega
    rw [this]
    omega

theorem length_blockBytes (ds : List (BitVec 64)) :
    (blockBytes false ds).length =
      (writeUleb128 (zigzagEncode64 (blockMin ds))).length + miniBlocks + packedBytesNeeded false ds := by
  unfold blockBytes blockBytesMin packedBytesNeeded blockWidths
  simp only [List.length_append, miniIndices_eq, List.length_cons, List.length_nil,
    List.map_cons, List.map_nil, List.flatMap_cons, List.flatMap_nil, List.sum_cons, List.sum_nil,
    length_miniBytes _ _ _ (length_miniSlice_le ds _), miniBlocks]

theorem length_writeUleb128_pos (v : BitVec 64) : 0 < (writeUleb128 v).length := by
  rw [writeUleb128_eq]
  exact List.length_pos_iff.mpr (Spec.Delta.ulebEncode_ne_nil _)

theorem flushBlock_succeeds (e : Enc) (hne : e.deltas ≠ [])
    (hcap : e.out.length + (blockBytes false e.deltas).length + 9 ≤ e.cap) :
    flushBlock false e = .ok { e with out := e.out ++ blockBytes false e.deltas, deltas := [] } := by
  unfold flushBlock
  rw [if_neg hne]
  have := length_blockBytes e.deltas
  have hp := length_writeUleb128_pos (zigzagEncode64 (blockMin e.deltas))
  rw [if_neg (by omega)]

theorem encodeLoop_succeeds (vs : List (BitVec 64)) : ∀ e : Enc, e.deltas.length < 128 →
    (e.out ++ (blocksOf e.deltas (deltasFrom e.last vs)).flatMap (blockBytes false)).length + 9 ≤ e.cap →
    ∃ e1 e2, encodeLoop false vs e = .ok e1 ∧ flushBlock false e1 = .ok e2 := by
  induction vs with
  | nil =>
    intro e _ hcap
    refine ⟨e, ?_⟩
    simp only [encodeLoop, true_and]
    by_cases hd : e.deltas = []
    · exact ⟨e, by simp [flushBlock, hd]⟩
    · refine ⟨_, flushBlock_succeeds e hd ?_⟩
      simp only [deltasFrom, blocksOf, if_neg hd, List.flatMap_cons, List.flatMap_nil, List.append_nil,
        List.length_append] at hcap
      omega
  | cons v vs ih =>
    intro e hlt hcap
    simp only [encodeLoop]
    simp only [deltasFrom, blocksOf] at hcap
    by_cases hfull : e.deltas.length + 1 = blockSize
    · rw [if_pos hfull]
      rw [if_pos (by simpa [blockSize] using hfull)] at hcap
      simp only [List.flatMap_cons, List.length_append] at hcap
      have hfl := flushBlock_succeeds { e with deltas := e.deltas ++ [v - e.last], last := v } (by simp)
        (by simp only; omega)
      rw [hfl]
      simp only
      exact ih _ (by simp) (by simp only [List.length_append]; omega)
    · rw [if_neg hfull]
      rw [if_neg (by simpa [blockSize] using hfull)] at hcap
      exact ih _ (by simp [blockSize] at hfull ⊢; omega) (by simpa using hcap)

/-- the encoder succeeds as soon as the buffer holds the output, 9 spare bytes, and 40 bytes -/
theorem encodeV_succeeds (v : BitVec 64) (rest : List (BitVec 64)) (cap : Nat) (h40 : 40 ≤ cap)
    (hcap : (encodeOut v rest).length + 9 ≤ cap) :
    encodeV false (v :: rest) cap = .ok (encodeOut v rest) := by
  obtain ⟨e1, e2, h1, h2⟩ := encodeLoop_succeeds rest ⟨headerBytes (rest.length + 1) v, cap, v, []⟩ (by simp)
    (by simpa [encodeOut] using hcap)
  have hok : encodeV false (v :: rest) cap = .ok e2.out := by
    simp only [encodeV, if_neg (by omega : ¬ cap < 40), h1, h2]
  rw [hok, encodeV_ok v rest cap e2.out hok]

/-! a crude bound on the output size -/

theorem length_writeUleb128_le (v : BitVec 64) : (writeUleb128 v).length ≤ 10 := by
  rw [writeUleb128_eq]
  exact length_ulebEncode_le _ 10 (by have := v.isLt; omega) (by decide)

theorem miniBytesNeeded_le (w : Nat) (h : w ≤ 64) : miniBytesNeeded false w ≤ 256 := by
  unfold miniBytesNeeded
  simp only [Bool.false_and, Bool.false_eq_true, if_false, miniBlockSize, blockSize, miniBlocks]
  split <;> omega

theorem length_blockBytes_le (ds : List (BitVec 64)) : (blockBytes false ds).length ≤ 1038 := by
  rw [length_blockBytes]
  have h1 := length_writeUleb128_le (zigzagEncode64 (blockMin ds))
  unfold packedBytesNeeded blockWidths
  simp only [miniIndices_eq, List.map_cons, List.map_nil, List.sum_cons, List.sum_nil, miniBlocks]
  have a := miniBytesNeeded_le _ (miniWidth_fits (blockMin ds) (miniSlice ds 0)).1
  have b := miniBytesNeeded_le _ (miniWidth_fits (blockMin ds) (miniSlice ds 1)).1
  have c := miniBytesNeeded_le _ (miniWidth_fits (blockMin ds) (miniSlice ds 2)).1
  have d := miniBytesNeeded_le _ (miniWidth_fits (blockMin ds) (miniSlice ds 3)).1
  omega

theorem length_blocksOf_le (ds : List (BitVec 64)) : ∀ buf : List (BitVec 64), buf.length < 128 →
    (blocksOf buf ds).length ≤ (buf.length + ds.length + 127) / 128 := by
  induction ds with
  | nil =>
    intro buf hb
    simp only [blocksOf]
    by_cases h : buf = []
    · simp [h]
    · rw [if_neg h]
      have : 0 < buf.length := List.length_pos_iff.mpr h
      simp only [List.length_singleton, List.length_nil, Nat.add_zero]
      omega
  | cons d ds ih =>
    intro buf hb
    simp only [blocksOf]
    by_cases hf : buf.length + 1 = 128
    · rw [if_pos hf]
      have := ih [] (by simp)
      simp only [List.length_cons, List.length_nil, Nat.zero_add] at this ⊢
      omega
    · rw [if_neg hf]
      have := ih (buf ++ [d]) (by simp; omega)
      simp only [List.length_append, List.length_cons, List.length_nil] at this ⊢
      omega

theorem length_flatMap_le (f : List (BitVec 64) → List UInt8) (K : Nat) (l : List (List (BitVec 64)))
    (h : ∀ c, (f c).length ≤ K) : (l.flatMap f).length ≤ l.length * K := by
  induction l with
  | nil => simp
  | cons c l ih =>
    simp only [List.flatMap_cons, List.length_append, List.length_cons, Nat.succ_mul]
    have := h c
    omega

theorem length_headerBytes_le (n : Nat) (v : BitVec 64) (h : n ≤ 2147483647) : (headerBytes n v).length ≤ 18 := by
  unfold headerBytes
  simp only [List.length_append]
  have h1 : (writeUleb128 (BitVec.ofNat 64 blockSize)).length = 2 := by decide
  have h2 : (writeUleb128 (BitVec.ofNat 64 miniBlocks)).length = 1 := by decide
  have h3 : (writeUleb128 (BitVec.ofNat 64 n)).length ≤ 5 := by
    rw [writeUleb128_eq]
    have : (BitVec.ofNat 64 n).toNat = n := by rw [BitVec.toNat_ofNat, Nat.mod_eq_of_lt (by omega)]
    rw [this]
    exact length_ulebEncode_le n 5 (by omega) (by decide)
  have h4 := length_writeUleb128_le (zigzagEncode64 v)
  omega

/-- `18 + 1038` bytes per started block of 128 deltas always hold the output -/
theorem length_encodeOut_le (v : BitVec 64) (rest : List (BitVec 64)) (h : rest.length + 1 ≤ 2147483647) :
    (encodeOut v rest).length ≤ 18 + 1038 * ((rest.length + 127) / 128) := by
  unfold encodeOut
  rw [List.length_append]
  have h1 := length_headerBytes_le (rest.length + 1) v h
  have h2 := length_flatMap_le (blockBytes false) 1038 (blocksOf [] (deltasFrom v rest)) length_blockBytes_le
  have h3 := length_blocksOf_le (deltasFrom v rest) [] (by simp)
  simp only [List.length_nil, Nat.zero_add, length_deltasFrom] at h3
  have h4 : (blocksOf [] (deltasFrom v rest)).length * 1038 ≤ (rest.length + 127) / 128 * 1038 :=
    Nat.mul_le_mul_right _ h3
  rw [Nat.mul_comm 1038]
  omega

end Carquet.Impl.Delta
