import Carquet.Spec.File.Read
/-
`Spec.File.chunkUsize` — the independent reader's evaluation of `total_uncompressed_size` (Σ over the pages
of a chunk of page-header length + `uncompressed_page_size`) — follows the pages exactly as `readRawPage`
does: wherever `readRawPage` accepts a page, `chunkUsize` takes the same step.  This is the one lemma the
writer-side proofs (reference writer: Proofs/SpecFile*Full; carquet's writer: Proofs/SpecWriter*) need
about it; everything else is bookkeeping of sums.
-/
namespace Carquet.Proofs.SpecFile
open Carquet.Spec Carquet.Spec.File

/-- what a page that `readRawPage` accepted contributes to `total_uncompressed_size`: its header
(`size` = header + stored body) and the uncompressed size its header states (= the length of the
decompressed page, checked by `readRawPage`) -/
def RawPage.usize (p : RawPage) : Nat := (p.size - p.hdr.compressed) + p.hdr.uncompressed

theorem chunkUsize_of_raw (cfg : Config) (codec : Nat) (bs : Bytes) (p : RawPage) (fuel : Nat) (hne : bs ≠ [])
    (h : readRawPage cfg codec bs = .ok p) :
    chunkUsize (fuel + 1) bs = (chunkUsize fuel p.rest).map (fun n => RawPage.usize p + n) := by
  unfold readRawPage at h
  cases hp : parsePageHeader bs with
  | error e => simp [hp, bind, Except.bind] at h
  | ok q =>
    obtain ⟨hd, rest⟩ := q
    simp only [hp, bind, Except.bind, pure, Except.pure, throw, throwThe, MonadExceptOf.throw] at h
    have hshape : p.hdr = hd ∧ p.size = bs.length - rest.length + hd.compressed ∧ p.rest = rest.drop hd.compressed := by
      repeat' split at h
      all_goals first
        | (cases h; done)
        | (injection h with h; subst h; exact ⟨rfl, rfl, rfl⟩)
    obtain ⟨h1, h2, h3⟩ := hshape
    conv => lhs; unfold chunkUsize
    simp only [hne, if_false, hp, RawPage.usize, h1, h2, h3]
    congr 1
    funext n
    omega

/-- the accepted page has the length its header states -/
theorem readRawPage_page_length (cfg : Config) (codec : Nat) (bs : Bytes) (p : RawPage)
    (h : readRawPage cfg codec bs = .ok p) : p.page.length = p.hdr.uncompressed := by
  unfold readRawPage at h
  cases hp : parsePageHeader bs with
  | error e => simp [hp, bind, Except.bind] at h
  | ok q =>
    obtain ⟨hd, rest⟩ := q
    simp only [hp, bind, Except.bind, pure, Except.pure, throw, throwThe, MonadExceptOf.throw] at h
    repeat' split at h
    all_goals first
      | (cases h; done)
      | (injection h with h; subst h; simp_all)

end Carquet.Proofs.SpecFile
