import Carquet.Impl.ParDict
import Carquet.Proofs.Par
import Carquet.Proofs.ParIO
import Carquet.Proofs.ParLazy
import Carquet.Proofs.ParAdaptive
/-
C07, dictionary-encoded chunks: what `file_read_at`-shaped workers obtain, the action-level
schedule a recorded trace stands for, the adaptive chunk reader.
-/
namespace Carquet.Proofs.Par
open Carquet.Impl.Par

/-! ### `file_read_at` -/

theorem atomicIO_fileReadAt (f o n : Nat) : (fileReadAt f o n).atomicIO = true := by
  simp [fileReadAt, Action.atomicIO, Prim.isReadOf]

theorem atomicIO_readsFread (f : Nat) (rs : List (Nat × Nat)) :
    ∀ a ∈ readsFread f rs, a.atomicIO = true := by
  intro a ha
  simp only [readsFread, List.mem_map] at ha
  obtain ⟨r, _, rfl⟩ := ha
  exact atomicIO_fileReadAt ..

theorem atomicIO_readsMmap (rs : List (Nat × Nat)) : ∀ a ∈ readsMmap rs, a.atomicIO = true := by
  intro a ha
  simp only [readsMmap, List.mem_map] at ha
  obtain ⟨r, _, rfl⟩ := ha
  rfl

theorem readonly_readsMmap (rs : List (Nat × Nat)) :
    ∀ a ∈ readsMmap rs, ∀ sh p, (runSP a.prims sh p).1 = sh := by
  intro a ha sh p
  simp only [readsMmap, List.mem_map] at ha
  obtain ⟨r, _, rfl⟩ := ha
  simp [Action.prims, runSP, stepPrim]

/-- a `file_read_at` delivers the bytes at its own offset, whatever the stream position was -/
theorem run_fileReadAt (st : State) (w f o n : Nat) :
    (st.run w (fileReadAt f o n).prims).pr w = st.pr w ++ [.bytes (slice st.sh.file o n)] ∧
    (st.run w (fileReadAt f o n).prims).sh.file = st.sh.file := by
  simp [fileReadAt, Action.prims, runSP, stepPrim, setPos]

theorem solo_readsFread (w f : Nat) (rs : List (Nat × Nat)) (st : State) :
    (exec (solo w (readsFread f rs)) st).pr w = st.pr w ++ readsBytes st.sh.file rs ∧
    (exec (solo w (readsFread f rs)) st).sh.file = st.sh.file := by
  induction rs generalizing st with
  | nil => simp [readsFread, readsBytes, solo]
  | cons r rs ih =>
    have e : solo w (readsFread f (r :: rs)) = (w, fileReadAt f r.1 r.2) :: solo w (readsFread f rs) := by
      simp [solo, readsFread]
    rw [e, exec_cons]
    have h := ih (st.run w (fileReadAt f r.1 r.2).prims)
    have h0 := run_fileReadAt st w f r.1 r.2
    refine ⟨?_, ?_⟩
    · rw [h.1, h0.1, h0.2]; simp [readsBytes]
    · rw [h.2, h0.2]

theorem solo_readsMmap (w : Nat) (rs : List (Nat × Nat)) (st : State) :
    (exec (solo w (readsMmap rs)) st).pr w = st.pr w ++ readsBytes st.sh.file rs ∧
    (exec (solo w (readsMmap rs)) st).sh = st.sh := by
  induction rs generalizing st with
  | nil => simp [readsMmap, readsBytes, solo]
  | cons r rs ih =>
    have e : solo w (readsMmap (r :: rs)) = (w, Action.prim (.load r.1 r.2)) :: solo w (readsMmap rs) := by
      simp [solo, readsMmap]
    rw [e, exec_cons]
    have h := ih (st.run w (Action.prim (.load r.1 r.2)).prims)
    refine ⟨?_, ?_⟩
    · rw [h.1]; simp [Action.prims, runSP, stepPrim, readsBytes]
    · rw [h.2]; simp [Action.prims, runSP, stepPrim]

/-- ANY schedule of atomic sections (not only a merge of given lists): every worker holds what it
holds after running its own actions of the schedule alone. -/
theorem atomic_schedule_solo (s : List (Worker × Action)) (hat : ∀ e ∈ s, e.2.atomicIO = true)
    (st : State) (w : Worker) :
    (exec s st).pr w = (exec (solo w (proj w s)) st).pr w :=
  (noninterference (fun _ sh => sh.file) s (fun e he => ownDet_of_atomicIO e.1 e.2 (hat e he))
    (fun e _ => othersKept_file e.1 e.2) st w).1

theorem getD_map {α β : Type} (g : α → β) (l : List α) (w : Nat) (d : α) (d' : β) (hd : g d = d') :
    (l.map g).getD w d' = g (l.getD w d) := by
  simp only [List.getD_eq_getElem?_getD, List.getElem?_map]
  cases l[w]? <;> simp [hd]

/-! ### the C-shaped decomposition of a chunk's actions -/

theorem readsFread_append (f : Nat) (a b : List (Nat × Nat)) :
    readsFread f (a ++ b) = readsFread f a ++ readsFread f b := by
  simp [readsFread]

theorem readsFread_flatMap (f : Nat) (ps : List PageLoc) :
    readsFread f (ps.flatMap pageReads) = ps.flatMap (pageLoadFreadW f) := by
  induction ps with
  | nil => rfl
  | cons p ps ih => simp [List.flatMap_cons, readsFread_append, ih, pageLoadFreadW]

/-- `chunkFreadD` is: [probe header read] dictionary page load, then the data page loads -/
theorem chunkFreadD_shape (f : Nat) (c : ChunkLoc) :
    chunkFreadD f c =
      (match c.dict with
       | none => []
       | some d => (if c.probed then headerReadFread f d else []) ++ pageLoadFreadW f d) ++
      c.pages.flatMap (pageLoadFreadW f) := by
  unfold chunkFreadD chunkReads
  rw [readsFread_append, readsFread_flatMap]
  cases c.dict with
  | none => rfl
  | some d =>
    simp only [readsFread_append, pageLoadFreadW, headerReadFread]
    split <;> simp [readsFread]

/-- a page load whose header fits the first window is the `pageLoadFread` of the first model -/
theorem pageLoadFreadW_k0 (f o h c : Nat) :
    pageLoadFreadW f ⟨o, h, c, 0⟩ = pageLoadFread f o h c := by
  simp [pageLoadFreadW, pageReads, headerReads, headerWindows, readsFread, fileReadAt, pageLoadFread]

/-- without header retries the fread path and the mmap path perform the same reads -/
theorem chunkReads_eq_mmap (c : ChunkLoc) (hd : ∀ d, c.dict = some d → d.k = 0)
    (hp : ∀ p ∈ c.pages, p.k = 0) : chunkReads c = chunkReadsMmap c := by
  have hpage : ∀ p : PageLoc, p.k = 0 → pageReads p = pageReadsMmap p := by
    intro p hk
    simp [pageReads, pageReadsMmap, headerReads, headerWindows, hk]
  have hpages : ∀ (l : List PageLoc), (∀ p ∈ l, p.k = 0) → l.flatMap pageReads = l.flatMap pageReadsMmap := by
    intro l
    induction l with
    | nil => intro _; rfl
    | cons p l ih =>
      intro hl
      simp only [List.flatMap_cons]
      rw [hpage p (hl p (List.mem_cons_self ..)), ih (fun q hq => hl q (List.mem_cons_of_mem _ hq))]
  unfold chunkReads chunkReadsMmap
  rw [hpages c.pages hp]
  cases hdict : c.dict with
  | none => rfl
  | some d =>
    have hk := hd d hdict
    simp [hpage d hk, headerReads, headerWindows, hk]

/-! ### the schedule a recorded trace stands for -/

theorem prim_none_of_site5 (e : Ev) (h : e.site = 5) : e.prim = none := by
  simp [Ev.prim, h]

theorem prim_none_of_site6 (e : Ev) (h : e.site = 6) : e.prim = none := by
  simp [Ev.prim, h]

theorem flat_cons (w : Worker) (a : Action) (s : List (Worker × Action)) :
    flat ((w, a) :: s) = a.prims.map (fun p => (w, p)) ++ flat s := rfl

theorem schedOfTraceFrom_flat (es : List Ev) :
    ∀ (cur : Option (Nat × List Prim)) (s : List (Worker × Action)),
      schedOfTraceFrom cur es = some s →
      flat s = (match cur with
                | none => []
                | some (t, ps) => ps.map (fun p => (t, p))) ++ primsOfTrace es := by
  induction es with
  | nil =>
    intro cur s h
    cases cur with
    | none => simp [schedOfTraceFrom] at h; subst h; rfl
    | some c => simp [schedOfTraceFrom] at h
  | cons e es ih =>
    intro cur s h
    unfold schedOfTraceFrom at h
    by_cases h5 : e.site = 5
    · simp only [h5, if_true] at h
      cases cur with
      | some c => simp at h
      | none =>
        simp only at h
        have := ih _ _ h
        simp only [List.map_nil, List.nil_append] at this
        simp [primsOfTrace, prim_none_of_site5 e h5, this]
    · simp only [h5, if_false] at h
      by_cases h6 : e.site = 6
      · simp only [h6, if_true] at h
        cases cur with
        | none => simp at h
        | some c =>
          obtain ⟨t, ps⟩ := c
          simp only at h
          by_cases ht : t = e.thread
          · simp only [ht, if_true, Option.map_eq_some_iff] at h
            obtain ⟨s', hs', rfl⟩ := h
            have := ih _ _ hs'
            simp only [List.nil_append] at this
            simp [flat_cons, Action.prims, this, primsOfTrace, prim_none_of_site6 e h6, ht]
          · simp [ht] at h
      · simp only [h6, if_false] at h
        cases hp : e.prim with
        | none =>
          simp only [hp] at h
          have := ih _ _ h
          simp [primsOfTrace, hp, this]
        | some p =>
          simp only [hp] at h
          cases cur with
          | none => simp at h
          | some c =>
            obtain ⟨t, ps⟩ := c
            simp only at h
            by_cases ht : t = e.thread
            · simp only [ht, if_true] at h
              have := ih _ _ h
              simp [primsOfTrace, hp, this, ht]
            · simp [ht] at h

/-- the seeks and reads of a trace, in recorded order, are exactly the flattening of the
action-level schedule of its critical sections -/
theorem schedOfTrace_flat (es : List Ev) (s : List (Worker × Action)) (h : schedOfTrace es = some s) :
    flat s = primsOfTrace es := by
  have := schedOfTraceFrom_flat es none s h
  simpa using this

theorem critFootprint_atomic (es : List Ev) (h : critFootprint es = true) :
    ∃ s, schedOfTrace es = some s ∧ ∀ e ∈ s, e.2.atomicIO = true := by
  unfold critFootprint at h
  cases hs : schedOfTrace es with
  | none => simp [hs] at h
  | some s =>
    refine ⟨s, rfl, ?_⟩
    simp only [hs, List.all_eq_true, Bool.and_eq_true] at h
    intro e he
    exact (h e he).1

/-! ### the adaptive chunk reader -/

theorem chunkProg_atomic (f o n : Nat) (parse : List UInt8 → Option (Nat × Nat)) (p : Priv) (a : Action)
    (h : chunkProg f o n parse p = some a) : a.atomicIO = true := by
  unfold chunkProg at h
  split at h
  · split at h
    · cases h; exact atomicIO_fileReadAt ..
    · cases h
  · cases h; exact atomicIO_fileReadAt ..
  · cases h

end Carquet.Proofs.Par
