import Carquet.Spec.Crc32
import Carquet.Impl.Crc32
import Carquet.Proofs.Crc32Table
/-
Helper lemmas for C14_impl_eq_spec: little-endian word loads, "four byte steps = xor the word
and do 32 zero-input steps", one slicing-by-8 iteration = eight byte steps, both loops = `run`.
-/
namespace Carquet.Proofs.Crc32
open Carquet.Spec.Crc32
open Carquet.Impl.Crc32 (tblStep table0 table le32 idx slice8 tailStep loop)

/-- `le32` on raw 8-bit vectors -/
def w32 (v0 v1 v2 v3 : BitVec 8) : BitVec 32 :=
  v0.setWidth 32 ||| (v1.setWidth 32 <<< 8) ||| (v2.setWidth 32 <<< 16) ||| (v3.setWidth 32 <<< 24)

theorem w32_shr8 (v0 v1 v2 v3 : BitVec 8) : w32 v0 v1 v2 v3 >>> 8 = w32 v1 v2 v3 0 := by
  apply BitVec.eq_of_getLsbD_eq
  intro i hi
  have h0 : v0.getLsbD (8 + i) = false := BitVec.getLsbD_of_ge _ _ (by omega)
  have e1 : 8 + i - 8 = i := by omega
  have e2 : 8 + i - 16 = i - 8 := by omega
  have e3 : 8 + i - 24 = i - 16 := by omega
  have g2 : decide (8 + i < 16) = decide (i < 8) := by simp; omega
  have g3 : decide (8 + i < 24) = decide (i < 16) := by simp; omega
  have g4 : decide (8 + i < 32) = decide (i < 24) := by simp; omega
  simp only [w32, BitVec.getLsbD_or, BitVec.getLsbD_shiftLeft, BitVec.getLsbD_ushiftRight, BitVec.getLsbD_setWidth, h0, e1, e2, e3, g2, g3, g4]
  rcases (by omega : i < 8 ∨ (8 ≤ i ∧ i < 16) ∨ (16 ≤ i ∧ i < 24) ∨ 24 ≤ i) with h | h | h | h
  · have a1 : i < 16 := by omega
    have a2 : i < 24 := by omega
    simp [h, a1, a2]
  · have a1 : ¬ i < 8 := by omega
    have a2 : i < 24 := by omega
    have a3 : i - 8 < 32 := by omega
    have : v1.getLsbD i = false := BitVec.getLsbD_of_ge _ _ (by omega)
    simp [h, hi, a1, a2, a3]
  · have a1 : ¬ i < 8 := by omega
    have a2 : ¬ i < 16 := by omega
    have a3 : i - 8 < 32 := by omega
    have a4 : i - 16 < 32 := by omega
    have : v1.getLsbD i = false := BitVec.getLsbD_of_ge _ _ (by omega)
    have : v2.getLsbD (i - 8) = false := BitVec.getLsbD_of_ge _ _ (by omega)
    simp [*]
  · have a1 : ¬ i < 8 := by omega
    have a2 : ¬ i < 16 := by omega
    have a3 : ¬ i < 24 := by omega
    have b1 : v1.getLsbD i = false := BitVec.getLsbD_of_ge _ _ (by omega)
    have b2 : v2.getLsbD (i - 8) = false := BitVec.getLsbD_of_ge _ _ (by omega)
    have b3 : v3.getLsbD (i - 16) = false := BitVec.getLsbD_of_ge _ _ (by omega)
    simp [a1, a2, a3, b1, b2, b3]

theorem w32_and_ff (v0 v1 v2 v3 : BitVec 8) : w32 v0 v1 v2 v3 &&& 0xFF#32 = v0.setWidth 32 := by
  apply BitVec.eq_of_getLsbD_eq
  intro i hi
  simp only [w32, BitVec.getLsbD_or, BitVec.getLsbD_and, BitVec.getLsbD_shiftLeft, BitVec.getLsbD_setWidth, getLsbD_ff]
  by_cases h : i < 8
  · have a1 : i < 16 := by omega
    have a2 : i < 24 := by omega
    simp [h, a1, a2]
  · have : v0.getLsbD i = false := BitVec.getLsbD_of_ge _ _ (by omega)
    simp [h, this]

theorem w32_zero : w32 0 0 0 0 = 0#32 := by decide

theorem le32_eq_w32 (b0 b1 b2 b3 : UInt8) :
    le32 b0 b1 b2 b3 = w32 b0.toBitVec b1.toBitVec b2.toBitVec b3.toBitVec := rfl

theorem byte_shr8 (v : BitVec 8) : v.setWidth 32 >>> 8 = 0#32 := by
  apply BitVec.eq_of_getLsbD_eq
  intro i hi
  simp

/-- `step8 (c ⊕ x)` only looks at the low byte of `x`; the rest is shifted down. -/
theorem step8_xor_split (c x : BitVec 32) :
    step8 (c ^^^ x) = step8 (c ^^^ (x &&& 0xFF#32)) ^^^ (x >>> 8) := by
  rw [step8_xor, step8_xor, step8_split x, BitVec.xor_assoc]

/-- second loop body of the C code = one Spec byte step -/
theorem tailStep_eq_byteStep (c : BitVec 32) (b : UInt8) : tailStep c b = byteStep c b := by
  unfold tailStep byteStep
  rw [table_eq, ofNat_toNat32, step8_split (c ^^^ _), BitVec.ushiftRight_xor_distrib, byte_shr8]
  simp [iter]

theorem foldl_tailStep (c : BitVec 32) (l : List UInt8) : l.foldl tailStep c = run c l := by
  unfold run
  congr 1
  funext c b
  exact tailStep_eq_byteStep c b

theorem step8_xor_w32 (c : BitVec 32) (v0 v1 v2 v3 : BitVec 8) :
    step8 (c ^^^ w32 v0 v1 v2 v3) = step8 (c ^^^ v0.setWidth 32) ^^^ w32 v1 v2 v3 0 := by
  rw [step8_xor_split, w32_and_ff, w32_shr8]

/-- Four byte steps = xor the little-endian word into the register, then 32 zero-input steps. -/
theorem run4 (c : BitVec 32) (b0 b1 b2 b3 : UInt8) :
    run c [b0, b1, b2, b3] = iter step8 4 (c ^^^ le32 b0 b1 b2 b3) := by
  simp only [le32_eq_w32, iter, step8_xor_w32, w32_zero, BitVec.xor_zero]
  simp only [run, List.foldl, byteStep]

theorem iter_step8_split (n : Nat) (x : BitVec 32) :
    iter step8 (n + 1) x = iter step8 (n + 1) (x &&& 0xFF#32) ^^^ iter step8 n (x >>> 8) := by
  rw [iter, step8_split, iter_step8_xor, ← iter]

theorem table_idx (k sh : Nat) (x : BitVec 32) :
    table k (idx x sh) = iter step8 (k + 1) ((x >>> sh) &&& 0xFF#32) := by
  rw [table_eq, idx, ofNat_toNat32]

theorem shr32 (x : BitVec 32) : x >>> 8 >>> 8 >>> 8 >>> 8 = 0#32 := by
  apply BitVec.eq_of_getLsbD_eq
  intro i hi
  simp only [BitVec.getLsbD_ushiftRight, BitVec.getLsbD_zero]
  exact BitVec.getLsbD_of_ge _ _ (by omega)

/-- Four table look-ups = 32 zero-input steps on the word, then `m` more byte steps. -/
theorem split4 (m : Nat) (x : BitVec 32) :
    table (m + 3) (idx x 0) ^^^ table (m + 2) (idx x 8) ^^^ table (m + 1) (idx x 16) ^^^
      table m (idx x 24) = iter step8 m (iter step8 4 x) := by
  have e : iter step8 4 x =
      iter step8 4 (x &&& 0xFF#32) ^^^ iter step8 3 ((x >>> 8) &&& 0xFF#32) ^^^
      iter step8 2 ((x >>> 16) &&& 0xFF#32) ^^^ iter step8 1 ((x >>> 24) &&& 0xFF#32) := by
    rw [iter_step8_split 3 x, iter_step8_split 2 (x >>> 8), iter_step8_split 1 (x >>> 8 >>> 8),
      iter_step8_split 0 (x >>> 8 >>> 8 >>> 8), shr32]
    simp [iter, ← BitVec.shiftRight_add, BitVec.xor_assoc]
  rw [e]
  simp only [iter_step8_xor, table_idx, ← iter_add, BitVec.ushiftRight_zero]
  simp only [Nat.add_comm, Nat.add_left_comm]

/-- body of the main loop = eight Spec byte steps -/
theorem slice8_eq_run (c : BitVec 32) (b0 b1 b2 b3 b4 b5 b6 b7 : UInt8) :
    slice8 c b0 b1 b2 b3 b4 b5 b6 b7 = run c [b0, b1, b2, b3, b4, b5, b6, b7] := by
  have hr : run c [b0, b1, b2, b3, b4, b5, b6, b7] = run (run c [b0, b1, b2, b3]) [b4, b5, b6, b7] := rfl
  rw [hr, run4, run4, iter_step8_xor]
  unfold slice8
  simp only []
  have h1 := split4 4 (le32 b0 b1 b2 b3 ^^^ c)
  have h2 := split4 0 (le32 b4 b5 b6 b7)
  simp only [Nat.zero_add, Nat.reduceAdd] at h1 h2
  have h2' : iter step8 0 (iter step8 4 (le32 b4 b5 b6 b7)) = iter step8 4 (le32 b4 b5 b6 b7) := rfl
  rw [h2'] at h2
  rw [BitVec.xor_comm c, ← h1, ← h2]
  simp only [BitVec.xor_assoc]

/-- both loops of `crc32_slicing_by_8` compute the Spec register -/
theorem loop_eq_run (c : BitVec 32) (data : List UInt8) : loop c data = run c data := by
  fun_induction loop c data with
  | case1 c b0 b1 b2 b3 b4 b5 b6 b7 rest ih =>
    rw [ih, slice8_eq_run]; rfl
  | case2 c short h => exact foldl_tailStep c short

end Carquet.Proofs.Crc32
