import Carquet.Proofs.RleGrammar
/-
The reference decoder of Spec/RleHybrid.lean is complete for the grammar: from a legal stream
it returns the first `n` values the runs denote.
-/
namespace Carquet.Proofs.RleSpecDecoder
open Carquet.Spec Carquet.Spec.RleHybrid
open Carquet.Proofs.NatBits Carquet.Proofs.BitpackImpl Carquet.Proofs.BitPackSpec Carquet.Proofs.RleGrammar

theorem readHeader_of_isHeader {hdr : List UInt8} {h : Nat} (hh : IsHeader hdr h) (rest : List UInt8) :
    readHeader (hdr ++ rest) = .ok (h, rest) := by
  obtain ⟨h1, h2, h3⟩ := hh
  unfold readHeader
  rw [VarintImpl.decode_append h1 rest]
  simp only [List.length_append, Nat.add_sub_cancel]
  rw [if_pos ⟨h2, h3⟩]

/-- a prefix of the values of a bit-packed run -/
theorem unpack_prefix {w g : Nat} {data : List UInt8} {xs : List Nat} (hlen : data.length = g * w)
    (hu : BitPack.unpack w data (8 * g) = some xs) (k : Nat) (hk : k ≤ 8 * g) :
    BitPack.unpack w data k = some (xs.take k) := by
  have hb : 8 * g * w ≤ 8 * data.length := by rw [hlen, Nat.mul_assoc]; exact Nat.le_refl _
  rw [unpack_eq w (8 * g) data hb] at hu
  cases hu
  rw [unpack_eq w k data (Nat.le_trans (Nat.mul_le_mul_right w hk) hb)]
  congr 1
  rw [← List.map_take, List.take_range, Nat.min_eq_left hk]

theorem unpack_length {w g : Nat} {data : List UInt8} {xs : List Nat} (hlen : data.length = g * w)
    (hu : BitPack.unpack w data (8 * g) = some xs) : xs.length = 8 * g := by
  have hb : 8 * g * w ≤ 8 * data.length := by rw [hlen, Nat.mul_assoc]; exact Nat.le_refl _
  rw [unpack_eq w (8 * g) data hb] at hu
  cases hu; simp

theorem decodeRuns_complete {w : Nat} {bs : List UInt8} {xs : List Nat} (h : Runs w bs xs) :
    ∀ (f n : Nat), bs.length < f → n ≤ xs.length → decodeRuns w f bs n = .ok (xs.take n) := by
  induction h with
  | nil =>
    intro f n _ hn
    have : n = 0 := by simpa using hn
    subst this
    cases f <;> simp [decodeRuns]
  | rle hdr cnt v rest vals hh hv _ ih =>
    intro f n hf hn
    cases n with
    | zero => cases f <;> simp [decodeRuns]
    | succ m =>
      cases f with
      | zero => omega
      | succ f =>
        have hpos : 0 < hdr.length := List.length_pos_iff.mpr (isHeader_ne_nil hh)
        have hne : ¬ (hdr ++ leBytes (valueBytes w) v ++ rest = []) := by
          intro e
          have := congrArg List.length e
          simp only [List.length_append, List.length_nil] at this; omega
        simp only [decodeRuns]
        rw [if_neg hne, List.append_assoc, readHeader_of_isHeader hh]
        simp only
        have hvb : (leBytes (valueBytes w) v).length = valueBytes w := by
          rw [spec_leBytes_eq]; exact leBytes_length _ _
        rw [if_pos (by omega : 2 * cnt % 2 = 0)]
        rw [if_neg (by simp only [List.length_append, hvb]; omega)]
        have hval : leValue ((leBytes (valueBytes w) v ++ rest).take (valueBytes w)) = v := by
          rw [List.take_left' hvb, spec_leValue_eq, spec_leBytes_eq, leNat_leBytes]
          exact Nat.mod_eq_of_lt (Nat.lt_of_lt_of_le hv (pow_le_valueBytes w))
        rw [hval, if_neg (by omega), List.drop_left' hvb, show 2 * cnt / 2 = cnt by omega]
        simp only [List.length_append, List.length_replicate] at hn hf
        rw [ih f (m + 1 - min cnt (m + 1)) (by omega) (by omega)]
        simp only
        congr 1
        rw [List.take_append, List.take_replicate, List.length_replicate, Nat.min_comm]
        have e2 : m + 1 - min (m + 1) cnt = m + 1 - cnt := by omega
        rw [e2]
  | packed hdr g data xs rest vals hh hlen hu _ ih =>
    intro f n hf hn
    cases n with
    | zero => cases f <;> simp [decodeRuns]
    | succ m =>
      cases f with
      | zero => omega
      | succ f =>
        have hpos : 0 < hdr.length := List.length_pos_iff.mpr (isHeader_ne_nil hh)
        have hne : ¬ (hdr ++ data ++ rest = []) := by
          intro e
          have := congrArg List.length e
          simp only [List.length_append, List.length_nil] at this; omega
        have hxl := unpack_length hlen hu
        simp only [decodeRuns]
        rw [if_neg hne, List.append_assoc, readHeader_of_isHeader hh]
        simp only
        rw [if_neg (by omega : ¬ (2 * g + 1) % 2 = 0), show (2 * g + 1) / 2 = g by omega]
        rw [if_neg (by simp only [List.length_append]; omega)]
        rw [← hlen, List.take_left' rfl, List.drop_left' rfl]
        rw [unpack_prefix hlen hu _ (Nat.min_le_left _ _)]
        simp only [List.length_append] at hn hf
        rw [ih f (m + 1 - min (8 * g) (m + 1)) (by omega) (by omega)]
        simp only
        congr 1
        rw [List.take_append, hxl]
        have e1 : xs.take (min (8 * g) (m + 1)) = xs.take (m + 1) := by
          rw [List.take_eq_take_iff]; omega
        have e2 : m + 1 - min (8 * g) (m + 1) = m + 1 - 8 * g := by omega
        rw [e1, e2]

/-- **The Spec decoder reads every legal stream.** -/
theorem decode_complete {w : Nat} {bs : List UInt8} {xs : List Nat} (h : Runs w bs xs) (n : Nat)
    (hn : n ≤ xs.length) : RleHybrid.decode w bs n = .ok (xs.take n) :=
  decodeRuns_complete h (bs.length + 1) n (Nat.lt_succ_self _) hn

end Carquet.Proofs.RleSpecDecoder
