import Carquet.Proofs.ImplReadsLoad
/-
C06, negative half — what carquet's reader model refuses BY INSPECTION OF A HEADER FIELD, whatever
else the page holds: DATA_PAGE_V2 (page type 3: NOT_IMPLEMENTED, fix F27), a value encoding outside
{PLAIN, PLAIN_DICTIONARY, RLE_DICTIONARY} (INVALID_ENCODING, or an earlier error), a codec tag outside
{0, 1, 2, 5, 6, 7} (UNSUPPORTED_CODEC, or an earlier error), a dictionary page for a BOOLEAN column
(NOT_IMPLEMENTED, fix F54, or an earlier error).  In every case `load_next_page` returns an error — no
page is installed, so the column reader hands out nothing of the offending page (`chunkPages` ends in
`none` there).  Since repair F63 a data page WITHOUT values is not decoded at all: for the encoding and
the codec clause the alternative to the error is "the page has no values and is stepped over, nothing is
decoded" (`NothingDecoded`).  BIT_PACKED level encoding is NOT among these: the reader never looks at the level-encoding
fields (it decodes RLE); such files end in an error only because the bytes do not decode.
-/
namespace Carquet.Proofs.ImplReads
open Carquet.Impl
open Carquet.Impl.Reader
open Carquet.Impl.ThriftParquetReq (PageHdr parsePageHeaderC)
open Carquet.Proofs.ReaderModes Carquet.Proofs.ReaderBounds

/-- the codec tags `decompress_page` knows -/
def codecKnown (codec : Int) : Bool :=
  decide (codec = 0 ∨ codec = 1 ∨ codec = 2 ∨ codec = 5 ∨ codec = 6 ∨ codec = 7)

/-- the value encodings `carquet_read_data_page_v1` knows -/
def encodingKnown (enc : Int) : Bool := decide (enc = 0 ∨ enc = 2 ∨ enc = 8)

/-- the load fails, or (F63) it finds a data page without values, which it does not decode: either way
no level and no value of the page reaches the column reader -/
def NothingDecoded (r : Except Err PageLoaded) : Prop :=
  (∃ e, r = .error e) ∨ ∃ p, r = .ok p ∧ p.page = ⟨[], [], []⟩

theorem andThen_error {α β : Type} (l : Load α) (k : α → Load β) (e : Err) (h : l.result = .error e) :
    (l.andThen k).result = .error e := by
  rw [andThen_result, h]

/-! ### the data-page half of `load_next_page`, given the header it found -/

/-- DATA_PAGE_V2 -/
theorem finishDataPage_v2 (fx : Fixes) (L : Libs) (verify : Bool) (mode : Mode) (b : Bytes) (c : Col) (st : PState)
    (hr : PageHdr × Nat) (h3 : hr.1.type = 3) :
    (finishDataPage fx L verify mode b c st hr).result = .error .notImplemented := by
  unfold finishDataPage
  rw [if_pos h3]; rfl

theorem decompressPage_unknown (L : Libs) (codec : Int) (src : Bytes) (cap : Nat) (h : codecKnown codec = false) :
    decompressPage L codec src cap = .error .unsupportedCodec := by
  unfold codecKnown at h
  simp only [decide_eq_false_iff_not, not_or] at h
  unfold decompressPage
  rw [if_neg h.1, if_neg h.2.1, if_neg (by omega), if_neg h.2.2.1, if_neg h.2.2.2.2.1]

theorem pageData_unknown (L : Libs) (codec : Int) (src : Bytes) (cap : Nat) (h : codecKnown codec = false) :
    pageData L codec src cap = .error .unsupportedCodec := by
  have h0 : ¬ codec = 0 := by
    unfold codecKnown at h
    simp only [decide_eq_false_iff_not, not_or] at h
    exact h.1
  unfold pageData
  rw [if_neg h0, decompressPage_unknown L codec src cap h]

theorem takesView_codec (fx : Fixes) (mode : Mode) (c : Col) (h : PageHdr) (hc : ¬ c.cm.codec = 0) :
    takesView fx mode c h = false := by
  simp [takesView, zeroCopyEligible, hc]

theorem takesView_encoding (fx : Fixes) (mode : Mode) (c : Col) (h : PageHdr) (he : ¬ h.word4 = 0) :
    takesView fx mode c h = false := by
  simp [takesView, zeroCopyEligible, he]

/-- a codec tag `decompress_page` does not know: no data page of the chunk with values is ever installed
(F63: a page without values is not decompressed, it is stepped over) -/
theorem finishDataPage_codec (fx : Fixes) (L : Libs) (verify : Bool) (mode : Mode) (b : Bytes) (c : Col) (st : PState)
    (hr : PageHdr × Nat) (hc : codecKnown c.cm.codec = false) :
    (∃ e, (finishDataPage fx L verify mode b c st hr).result = .error e) ∨
      (hr.1.word0 = 0 ∧ ∃ p, (finishDataPage fx L verify mode b c st hr).result = .ok p ∧ p.page = ⟨[], [], []⟩) := by
  have h0 : ¬ c.cm.codec = 0 := by
    unfold codecKnown at hc
    simp only [decide_eq_false_iff_not, not_or] at hc
    exact hc.1
  unfold finishDataPage
  split
  · exact Or.inl ⟨_, rfl⟩
  split
  · exact Or.inl ⟨_, rfl⟩
  split
  · exact Or.inl ⟨_, rfl⟩
  rw [andThen_result]
  cases (Load.ofPair (bodyBytes mode b (st.dataStart + st.currentPage).toNat hr.2 hr.1.compressed.toNat)).result with
  | error e => exact Or.inl ⟨e, rfl⟩
  | ok body =>
    simp only
    split
    · exact Or.inl ⟨_, rfl⟩
    split
    · rename_i h0'; exact Or.inr ⟨h0', _, rfl, rfl⟩
    rw [takesView_codec fx mode c hr.1 h0]
    simp only [Bool.false_eq_true, if_false]
    rw [pageData_unknown L c.cm.codec body _ hc]
    exact Or.inl ⟨_, rfl⟩

theorem decodeValues_unknown (fx : Fixes) (c : Col) (dict : Option Dict) (enc : Int) (input : Bytes) (n : Nat)
    (h : encodingKnown enc = false) : decodeValues fx c dict enc input n = .error .invalidEncoding := by
  unfold encodingKnown at h
  simp only [decide_eq_false_iff_not, not_or] at h
  unfold decodeValues
  rw [if_neg h.1, if_neg (by omega)]

theorem readDataPageV1_unknown (fx : Fixes) (c : Col) (dict : Option Dict) (pd : Bytes) (n : Nat) (enc : Int)
    (h : encodingKnown enc = false) : ∃ e, readDataPageV1 fx c dict pd n enc = .error e := by
  unfold readDataPageV1
  cases repLevels fx c n pd with
  | error e => exact ⟨e, rfl⟩
  | ok r =>
    obtain ⟨reps, r1⟩ := r
    simp only
    cases defLevels fx c n r1 with
    | error e => exact ⟨e, rfl⟩
    | ok r' =>
      obtain ⟨defs, r2⟩ := r'
      simp only
      rw [decodeValues_unknown fx c dict enc r2 _ h]
      exact ⟨_, rfl⟩

/-- a value encoding outside {PLAIN, PLAIN_DICTIONARY, RLE_DICTIONARY}: a page with values is not
installed (F63: a page without values is not decoded, it is stepped over) -/
theorem finishDataPage_encoding (fx : Fixes) (L : Libs) (verify : Bool) (mode : Mode) (b : Bytes) (c : Col) (st : PState)
    (hr : PageHdr × Nat) (he : encodingKnown hr.1.word4 = false) :
    (∃ e, (finishDataPage fx L verify mode b c st hr).result = .error e) ∨
      (hr.1.word0 = 0 ∧ ∃ p, (finishDataPage fx L verify mode b c st hr).result = .ok p ∧ p.page = ⟨[], [], []⟩) := by
  have h0 : ¬ hr.1.word4 = 0 := by
    unfold encodingKnown at he
    simp only [decide_eq_false_iff_not, not_or] at he
    exact he.1
  unfold finishDataPage
  split
  · exact Or.inl ⟨_, rfl⟩
  split
  · exact Or.inl ⟨_, rfl⟩
  split
  · exact Or.inl ⟨_, rfl⟩
  rw [andThen_result]
  cases (Load.ofPair (bodyBytes mode b (st.dataStart + st.currentPage).toNat hr.2 hr.1.compressed.toNat)).result with
  | error e => exact Or.inl ⟨e, rfl⟩
  | ok body =>
    simp only
    split
    · exact Or.inl ⟨_, rfl⟩
    split
    · rename_i h0'; exact Or.inr ⟨h0', _, rfl, rfl⟩
    rw [takesView_encoding fx mode c hr.1 h0]
    simp only [Bool.false_eq_true, if_false]
    cases pageData L c.cm.codec body hr.1.uncompressed.toNat with
    | error e => exact Or.inl ⟨e, rfl⟩
    | ok pd =>
      simp only
      obtain ⟨e, he'⟩ := readDataPageV1_unknown fx c st.dict pd hr.1.word0.toNat hr.1.word4 he
      rw [he']
      exact Or.inl ⟨e, rfl⟩

/-! ### the dictionary page -/

theorem readDictionaryPage_boolean (fx : Fixes) (c : Col) (pd : Bytes) (n : Int) (hb : c.ptype = 0) :
    (readDictionaryPage fx c pd n).1 = .error .notImplemented := by
  unfold readDictionaryPage
  rw [if_neg (by rw [hb]; decide), if_pos (by rw [hb]; decide)]

/-- a dictionary page for a BOOLEAN column is never loaded, whatever it holds -/
theorem loadDictionary_boolean (fx : Fixes) (L : Libs) (verify : Bool) (mode : Mode) (b : Bytes) (c : Col) (off : Int)
    (hb : c.ptype = 0) : ∃ e, (loadDictionary fx L verify mode b c off).result = .error e := by
  unfold loadDictionary
  rw [andThen_result]
  cases (loadHeader mode b off).result with
  | error e => exact ⟨e, rfl⟩
  | ok hr =>
    simp only
    split
    · exact ⟨_, rfl⟩
    split
    · exact ⟨_, rfl⟩
    rw [andThen_result]
    cases (Load.ofPair (bodyBytes mode b off.toNat hr.2 hr.1.compressed.toNat)).result with
    | error e => exact ⟨e, rfl⟩
    | ok body =>
      simp only
      split
      · exact ⟨_, rfl⟩
      cases pageData L c.cm.codec body hr.1.uncompressed.toNat with
      | error e => exact ⟨e, rfl⟩
      | ok pd =>
        simp only
        rw [readDictionaryPage_boolean fx c pd hr.1.word0 hb]
        exact ⟨_, rfl⟩

/-! ### `load_next_page` and the page iteration -/

/-- whenever `load_next_page` fails in a state with values outstanding, the page iteration ends there with
`none`: the column reader model gets no page (and `carquet_column_read_batch` returns what it had, or -1) -/
theorem chunkPages_of_load_error (fx : Fixes) (L : Libs) (verify : Bool) (mode : Mode) (b : Bytes) (c : Col) (st : PState)
    (fuel : Nat) (hrem : 0 < st.valuesRemaining) (e : Err) (h : (loadPage fx L verify mode b c st).result = .error e) :
    chunkPages fx L verify mode b c (fuel + 1) st = [none] := by
  unfold chunkPages
  rw [if_neg (by omega), h]

/-- the data-page half fails ⇒ `load_next_page` fails (whatever the dictionary step did) -/
theorem loadPage_of_finish_error (fx : Fixes) (L : Libs) (verify : Bool) (mode : Mode) (b : Bytes) (c : Col) (st : PState)
    (hfin : ∀ st' hr, ∃ e, (finishDataPage fx L verify mode b c st' hr).result = .error e) :
    ∃ e, (loadPage fx L verify mode b c st).result = .error e := by
  unfold loadPage
  rw [andThen_result]
  cases (dictStep fx L verify mode b c st).result with
  | error e => exact ⟨e, rfl⟩
  | ok st1 =>
    simp only
    unfold loadDataPage
    rw [andThen_result]
    cases (prepStage fx L verify mode b c st1).result with
    | error e => exact ⟨e, rfl⟩
    | ok sh =>
      simp only
      exact hfin sh.1 sh.2

/-- the data-page half decodes nothing ⇒ `load_next_page` decodes nothing -/
theorem loadPage_of_finish_nothing (fx : Fixes) (L : Libs) (verify : Bool) (mode : Mode) (b : Bytes) (c : Col) (st : PState)
    (hfin : ∀ st' hr, NothingDecoded (finishDataPage fx L verify mode b c st' hr).result) :
    NothingDecoded (loadPage fx L verify mode b c st).result := by
  unfold loadPage
  rw [andThen_result]
  cases (dictStep fx L verify mode b c st).result with
  | error e => exact Or.inl ⟨e, rfl⟩
  | ok st1 =>
    simp only
    unfold loadDataPage
    rw [andThen_result]
    cases (prepStage fx L verify mode b c st1).result with
    | error e => exact Or.inl ⟨e, rfl⟩
    | ok sh =>
      simp only
      exact hfin sh.1 sh.2

/-- a codec tag `decompress_page` does not know: every `load_next_page` of the chunk fails or steps over
a page without values; no level and no value of the chunk is ever decoded -/
theorem loadPage_codec (fx : Fixes) (L : Libs) (verify : Bool) (mode : Mode) (b : Bytes) (c : Col) (st : PState)
    (hc : codecKnown c.cm.codec = false) : NothingDecoded (loadPage fx L verify mode b c st).result :=
  loadPage_of_finish_nothing fx L verify mode b c st (fun st' hr => by
    rcases finishDataPage_codec fx L verify mode b c st' hr hc with h | ⟨_, h⟩
    · exact Or.inl h
    · exact Or.inr h)

/-- … hence the page iteration of such a chunk hands the column reader pages without rows only, and
ends in `none` (values outstanding, nothing delivered) or at the fuel bound -/
theorem chunkPages_codec (fx : Fixes) (L : Libs) (verify : Bool) (mode : Mode) (b : Bytes) (c : Col)
    (hc : codecKnown c.cm.codec = false) : ∀ (fuel : Nat) (st : PState),
    ∀ x ∈ chunkPages fx L verify mode b c fuel st, x = none ∨ x = some ⟨[], [], []⟩ := by
  intro fuel
  induction fuel with
  | zero => intro st x hx; simp [chunkPages] at hx; exact Or.inl hx
  | succ fuel ih =>
    intro st x hx
    unfold chunkPages at hx
    split at hx
    · cases hx
    · rcases loadPage_codec fx L verify mode b c st hc with ⟨e, he⟩ | ⟨p, hp, hpage⟩
      · rw [he] at hx; simp at hx; exact Or.inl hx
      · rw [hp] at hx
        simp only [List.mem_cons] at hx
        rcases hx with rfl | hx
        · right; rw [hpage]
        · exact ih _ x hx

/-- a chunk whose metadata announce a `dictionary_page_offset`, for a BOOLEAN column: the first
`load_next_page` fails -/
theorem loadPage_boolean_dictionary (fx : Fixes) (L : Libs) (verify : Bool) (mode : Mode) (b : Bytes) (c : Col) (st : PState)
    (hb : c.ptype = 0) (doff : Int) (hd : c.cm.dictionaryPageOffset = some doff) (hnone : st.dict = none) :
    ∃ e, (loadPage fx L verify mode b c st).result = .error e := by
  obtain ⟨e, he⟩ := loadDictionary_boolean fx L verify mode b c doff hb
  refine ⟨e, ?_⟩
  unfold loadPage
  rw [andThen_result]
  unfold dictStep
  rw [hd]
  simp only [hnone, Option.isSome_none, Bool.false_eq_true, if_false]
  rw [andThen_result, he]

/-- a data page of type DATA_PAGE_V2 at the offset the (settled) state points at, in any mode -/
theorem loadPage_v2 (L : Libs) (verify : Bool) (mode : Mode) (pre post : Bytes) (c : Col) (p : RPage) (st : PState)
    (hp : p.Parses mode) (h3 : p.hdr.type = 3)
    (hsettled : c.cm.dictionaryPageOffset = none ∨ st.dict.isSome = true)
    (hoff : st.dataStart + st.currentPage = (pre.length : Int)) (hpost : 8 ≤ post.length) :
    (loadPage Fixes.all L verify mode (pre ++ p.bytes ++ post) c st).result = .error .notImplemented := by
  have hds := Carquet.Proofs.ReaderSteps.dictStep_settled Fixes.all L verify mode (pre ++ p.bytes ++ post) c st hsettled
  have hh := loadHeader_rpage mode pre post p hp hpost
  have hinl : inlineDictDue st p.hdr = false := by simp [inlineDictDue, h3]
  unfold loadPage
  rw [andThen_result, hds]
  simp only [Load.pure]
  unfold loadDataPage
  rw [andThen_result]
  unfold prepStage
  rw [andThen_result, hoff, hh]
  simp only [hinl, Bool.false_eq_true, if_false, Load.pure]
  exact finishDataPage_v2 Fixes.all L verify mode _ c st (p.hdr, p.hb.length) h3

end Carquet.Proofs.ImplReads
