import Carquet.Impl.Buffer
/-
Helper lemmas about the Impl model of carquet_buffer (C19).
-/
namespace Carquet.Impl.Alloc.Buffer

theorem le_orShift (x k : Nat) : x ≤ orShift x k := Nat.left_le_or

theorem le_smear (x : Nat) : x ≤ smear x := by
  unfold smear
  exact Nat.le_trans (le_orShift _ _) (Nat.le_trans (le_orShift _ _) (Nat.le_trans (le_orShift _ _)
    (Nat.le_trans (le_orShift _ _) (Nat.le_trans (le_orShift _ _) (le_orShift _ _)))))

theorem le_nextPow2 (n : Nat) : n ≤ nextPow2 n := by
  unfold nextPow2
  split
  · omega
  · have := le_smear (n - 1); omega

theorem le_newCapacity (n : Nat) : n ≤ newCapacity n := by
  unfold newCapacity
  have := le_nextPow2 n
  split <;> omega

/-- What ensure_capacity guarantees, in one statement. -/
theorem ensureCapacity_spec (b : Buf) (needed : Nat) (o : Oracle) :
    ((ensureCapacity b needed o).1 = .ok ∧ needed ≤ (ensureCapacity b needed o).2.1.capacity ∧
        (ensureCapacity b needed o).2.1.data = b.data ∧ b.capacity ≤ (ensureCapacity b needed o).2.1.capacity) ∨
    ((ensureCapacity b needed o).1 = .oom ∧ (ensureCapacity b needed o).2.1 = b) := by
  unfold ensureCapacity
  by_cases h1 : needed ≤ b.capacity
  · simp [h1]
  · by_cases h2 : (!b.owns && b.hasData) = true
    · simp [h1, h2]
    · by_cases h3 : o.grant = true
      · have := le_newCapacity needed
        simp [h1, h2, h3]; omega
      · simp [h1, h2, h3]

theorem ensureCapacity_inv (b : Buf) (needed : Nat) (o : Oracle) (h : Inv b) :
    Inv (ensureCapacity b needed o).2.1 := by
  rcases ensureCapacity_spec b needed o with ⟨_, _, hd, hc⟩ | ⟨_, he⟩
  · unfold Inv Buf.size at *; rw [hd]; omega
  · rw [he]; exact h

/-- the oracle only ever moves forward by at most one request per ensure_capacity -/
theorem ensureCapacity_oracle (b : Buf) (needed : Nat) (o : Oracle) :
    (ensureCapacity b needed o).2.2 = o ∨ (ensureCapacity b needed o).2.2 = o.rest := by
  unfold ensureCapacity
  split
  · simp
  · split
    · simp
    · split <;> simp

theorem pushBytes_ok (r : Status × Buf × Oracle) (bytes : List UInt8) (h : r.1 = .ok) :
    pushBytes r bytes = (.ok, { r.2.1 with data := r.2.1.data ++ bytes }, r.2.2) := by
  obtain ⟨s, b, o⟩ := r
  simp at h; subst h; rfl

theorem pushBytes_err (r : Status × Buf × Oracle) (bytes : List UInt8) (h : r.1 ≠ .ok) :
    pushBytes r bytes = r := by
  obtain ⟨s, b, o⟩ := r
  cases s <;> simp_all [pushBytes]


/-- append: either OK with the bytes added at the end (capacity sufficient), or OOM with the
buffer exactly as before. -/
theorem append_spec (b : Buf) (bytes : List UInt8) (o : Oracle) :
    ((append b bytes o).1 = .ok ∧ (append b bytes o).2.1.data = b.data ++ bytes ∧
        b.capacity ≤ (append b bytes o).2.1.capacity ∧
        (Inv b → Inv (append b bytes o).2.1)) ∨
    ((append b bytes o).1 = .oom ∧ (append b bytes o).2.1 = b) := by
  unfold append
  by_cases h0 : bytes.length = 0
  · have : bytes = [] := List.length_eq_zero_iff.mp h0
    simp [this]
  · simp only [h0, if_false]
    rcases ensureCapacity_spec b (b.size + bytes.length) o with ⟨hs, hn, hd, hc⟩ | ⟨hs, he⟩
    · left
      rw [pushBytes_ok _ _ hs]
      refine ⟨rfl, ?_, hc, ?_⟩
      · simp [hd]
      · intro _; unfold Inv Buf.size at *; simp [hd]; omega
    · right
      rw [pushBytes_err _ _ (by rw [hs]; decide)]
      exact ⟨hs, he⟩

theorem advance_spec (b : Buf) (fill : List UInt8) (o : Oracle) :
    ((advance b fill o).1 = .ok ∧ (advance b fill o).2.1.data = b.data ++ fill ∧
        (Inv b → Inv (advance b fill o).2.1)) ∨
    ((advance b fill o).1 = .oom ∧ (advance b fill o).2.1 = b) := by
  unfold advance
  by_cases h0 : fill.length = 0
  · simp [h0]
  · simp only [h0, if_false]
    rcases ensureCapacity_spec b (b.size + fill.length) o with ⟨hs, hn, hd, hc⟩ | ⟨hs, he⟩
    · left
      rw [pushBytes_ok _ _ hs]
      refine ⟨rfl, ?_, ?_⟩
      · simp [hd]
      · intro _; unfold Inv Buf.size at *; simp [hd]; omega
    · right
      rw [pushBytes_err _ _ (by rw [hs]; decide)]
      exact ⟨hs, he⟩

theorem resize_spec (b : Buf) (n : Nat) (o : Oracle) :
    ((resize b n o).1 = .ok ∧ (resize b n o).2.1.size = n ∧ Inv (resize b n o).2.1 ∧
        (resize b n o).2.1.data = (b.data ++ List.replicate (n - b.size) 0).take n) ∨
    ((resize b n o).1 = .oom ∧ (resize b n o).2.1 = b) := by
  unfold resize
  rcases ensureCapacity_spec b n o with ⟨hs, hn, hd, hc⟩ | ⟨hs, he⟩
  · left
    generalize hr : ensureCapacity b n o = r at *
    obtain ⟨s, b', o'⟩ := r
    simp at hs hn hd hc; subst hs
    simp only [Buf.size, Inv, hd]
    refine ⟨trivial, ?_, ?_, trivial⟩
    · simp [List.length_take]; omega
    · simp [List.length_take]; omega
  · right
    generalize hr : ensureCapacity b n o = r at *
    obtain ⟨s, b', o'⟩ := r
    simp at hs he; subst hs; subst he
    simp

theorem shrinkToFit_spec (b : Buf) (o : Oracle) :
    (shrinkToFit b o).1 = .ok ∧ (shrinkToFit b o).2.1.data = b.data ∧
      (Inv b → Inv (shrinkToFit b o).2.1) := by
  unfold shrinkToFit Inv Buf.size
  by_cases h0 : b.data.length = 0
  · simp [h0]
  · by_cases h1 : b.data.length < b.capacity
    · by_cases h2 : o.grant = true <;> simp [h0, h1, h2]
    · simp [h0, h1]

theorem step_inv (b : Buf) (op : Op) (o : Oracle) (h : Inv b) : Inv (step b op o).2.1 := by
  cases op with
  | reserve n => exact ensureCapacity_inv b n o h
  | append bytes =>
    simp only [step, code]
    rcases append_spec b bytes o with ⟨_, _, _, hi⟩ | ⟨_, he⟩
    · exact hi h
    · rw [he]; exact h
  | advance fill =>
    simp only [step, code]
    rcases advance_spec b fill o with ⟨_, _, hi⟩ | ⟨_, he⟩
    · exact hi h
    · rw [he]; exact h
  | resize n =>
    simp only [step, code]
    rcases resize_spec b n o with ⟨_, _, hi, _⟩ | ⟨_, he⟩
    · exact hi
    · rw [he]; exact h
  | clear => simp [step, clear, Inv, Buf.size]
  | shrink =>
    simp only [step]
    split
    · exact (shrinkToFit_spec b o).2.2 h
    · exact h

theorem run_inv (ops : List Op) (b : Buf) (o : Oracle) (h : Inv b) : Inv (run ops b o).2.1 := by
  induction ops generalizing b o with
  | nil => exact h
  | cons op ops ih =>
    simp only [run]
    have := ih (step b op o).2.1 (step b op o).2.2 (step_inv b op o h)
    generalize step b op o = r at *
    obtain ⟨s, b', o'⟩ := r
    simp only at this ⊢
    generalize run ops b' o' = r2 at *
    obtain ⟨ss, b'', o''⟩ := r2
    exact this

end Carquet.Impl.Alloc.Buffer
