import Carquet.Impl.SimdBlocked
/-
Helper lemmas for C15: the blocked loop skeletons compute what the scalar loop computes, provided
the block step does so on every block of exactly `W` elements.
-/
namespace Carquet.Proofs.SimdBlocked
open Carquet.Impl.Simd

theorem take_length_of_le {α : Type} (W k : Nat) (xs : List α) (h : W * (k + 1) ≤ xs.length) :
    (xs.take W).length = W := by
  rw [List.length_take]
  have : W ≤ W * (k + 1) := Nat.le_mul_of_pos_right W (Nat.succ_pos k)
  omega

theorem drop_bound {α : Type} (W k : Nat) (xs : List α) (h : W * (k + 1) ≤ xs.length) :
    W * k ≤ (xs.drop W).length := by
  rw [List.length_drop, Nat.mul_succ] at *
  omega

/-! ### map -/

/-- `P` is the kernel's domain (a predicate on elements); the block step has to agree with the
scalar definition only on blocks inside the domain. -/
theorem mapBlocks_eq_dom {α β : Type} (P : α → Prop) (W : Nat) (blk scalar : List α → List β)
    (hblk : ∀ b, b.length = W → (∀ x ∈ b, P x) → blk b = scalar b)
    (hhom : ∀ a r, a.length = W → scalar (a ++ r) = scalar a ++ scalar r) :
    ∀ k xs, W * k ≤ xs.length → (∀ x ∈ xs, P x) →
      mapBlocks W blk k xs ++ scalar (xs.drop (W * k)) = scalar xs := by
  intro k
  induction k with
  | zero => intro xs _ _; simp [mapBlocks]
  | succ k ih =>
    intro xs h hP
    have hl := take_length_of_le W k xs h
    have ih' := ih (xs.drop W) (drop_bound W k xs h) (fun x hx => hP x (List.mem_of_mem_drop hx))
    rw [List.drop_drop] at ih'
    have e : W * (k + 1) = W + W * k := by rw [Nat.mul_succ, Nat.add_comm]
    simp only [mapBlocks, List.append_assoc]
    rw [e, ih', hblk _ hl (fun x hx => hP x (List.mem_of_mem_take hx)), ← hhom _ _ hl, List.take_append_drop]

theorem mapBlocks_eq {α β : Type} (W : Nat) (blk scalar : List α → List β)
    (hblk : ∀ b, b.length = W → blk b = scalar b)
    (hhom : ∀ a r, a.length = W → scalar (a ++ r) = scalar a ++ scalar r) :
    ∀ k xs, W * k ≤ xs.length → mapBlocks W blk k xs ++ scalar (xs.drop (W * k)) = scalar xs :=
  fun k xs h => mapBlocks_eq_dom (fun _ => True) W blk scalar (fun b hb _ => hblk b hb) hhom k xs h (fun _ _ => trivial)

/-- the vector loop alone: it computes the scalar definition of the first `W * k` elements -/
theorem mapBlocks_take {α β : Type} (W : Nat) (blk scalar : List α → List β)
    (hblk : ∀ b, b.length = W → blk b = scalar b)
    (hhom : ∀ a r, a.length = W → scalar (a ++ r) = scalar a ++ scalar r)
    (hnil : scalar [] = []) :
    ∀ k xs, W * k ≤ xs.length → mapBlocks W blk k xs = scalar (xs.take (W * k)) := by
  intro k
  induction k with
  | zero => intro xs _; simp [mapBlocks, hnil]
  | succ k ih =>
    intro xs h
    have hl := take_length_of_le W k xs h
    have hd := drop_bound W k xs h
    have e : W * (k + 1) = W + W * k := by rw [Nat.mul_succ, Nat.add_comm]
    simp only [mapBlocks]
    rw [e, List.take_add, hhom _ _ hl, hblk _ hl, ih _ hd]

theorem blockedMap_eq_dom {α β : Type} (P : α → Prop) (W : Nat) (hW : 0 < W) (blk tail scalar : List α → List β)
    (hblk : ∀ b, b.length = W → (∀ x ∈ b, P x) → blk b = scalar b)
    (htail : ∀ t, t.length < W → (∀ x ∈ t, P x) → tail t = scalar t)
    (hhom : ∀ a r, a.length = W → scalar (a ++ r) = scalar a ++ scalar r)
    (xs : List α) (hP : ∀ x ∈ xs, P x) : blockedMap W blk tail xs = scalar xs := by
  unfold blockedMap
  have hle : W * (xs.length / W) ≤ xs.length := Nat.mul_div_le _ _
  have hlt : (xs.drop (W * (xs.length / W))).length < W := by
    rw [List.length_drop]
    have := Nat.mod_lt xs.length hW
    have := Nat.div_add_mod xs.length W
    omega
  rw [htail _ hlt (fun x hx => hP x (List.mem_of_mem_drop hx))]
  exact mapBlocks_eq_dom P W blk scalar hblk hhom _ xs hle hP

theorem blockedMap_eq {α β : Type} (W : Nat) (hW : 0 < W) (blk tail scalar : List α → List β)
    (hblk : ∀ b, b.length = W → blk b = scalar b)
    (htail : ∀ t, t.length < W → tail t = scalar t)
    (hhom : ∀ a r, a.length = W → scalar (a ++ r) = scalar a ++ scalar r)
    (xs : List α) : blockedMap W blk tail xs = scalar xs :=
  blockedMap_eq_dom (fun _ => True) W hW blk tail scalar (fun b hb _ => hblk b hb) (fun t ht _ => htail t ht) hhom xs
    (fun _ _ => trivial)

/-! ### scan -/

theorem scalarScan_append {σ α β : Type} (step : σ → α → β × σ) (a r : List α) :
    ∀ c, scalarScan step c (a ++ r) =
      ((scalarScan step c a).1 ++ (scalarScan step (scalarScan step c a).2 r).1,
       (scalarScan step (scalarScan step c a).2 r).2) := by
  induction a with
  | nil => intro c; simp [scalarScan]
  | cons x a ih => intro c; simp [scalarScan, ih]

theorem scanBlocks_eq {σ α β : Type} (W : Nat) (blk : σ → List α → List β × σ) (step : σ → α → β × σ)
    (hblk : ∀ c b, b.length = W → blk c b = scalarScan step c b) :
    ∀ k c xs, W * k ≤ xs.length → scanBlocks W blk k c xs = scalarScan step c (xs.take (W * k)) := by
  intro k
  induction k with
  | zero => intro c xs _; simp [scanBlocks, scalarScan]
  | succ k ih =>
    intro c xs h
    have hl := take_length_of_le W k xs h
    have hd := drop_bound W k xs h
    have e : W * (k + 1) = W + W * k := by rw [Nat.mul_succ, Nat.add_comm]
    have split : xs.take (W + W * k) = xs.take W ++ (xs.drop W).take (W * k) := by
      rw [List.take_add]
    simp only [scanBlocks]
    rw [e, split, scalarScan_append, hblk c _ hl, ih _ _ hd]

theorem blockedScan_eq {σ α β : Type} (W : Nat) (blk : σ → List α → List β × σ) (step : σ → α → β × σ)
    (hblk : ∀ c b, b.length = W → blk c b = scalarScan step c b)
    (c : σ) (xs : List α) : blockedScan W blk step c xs = scalarScan step c xs := by
  unfold blockedScan
  have hle : W * (xs.length / W) ≤ xs.length := Nat.mul_div_le _ _
  rw [scanBlocks_eq W blk step hblk _ c xs hle]
  have := scalarScan_append step (xs.take (W * (xs.length / W))) (xs.drop (W * (xs.length / W))) c
  rw [List.take_append_drop] at this
  exact this.symm

/-! ### reduce -/

theorem foldBlocks_eq {σ α : Type} (W : Nat) (blk : σ → List α → σ) (step : σ → α → σ)
    (hblk : ∀ c b, b.length = W → blk c b = b.foldl step c) :
    ∀ k c xs, W * k ≤ xs.length → foldBlocks W blk k c xs = (xs.take (W * k)).foldl step c := by
  intro k
  induction k with
  | zero => intro c xs _; simp [foldBlocks]
  | succ k ih =>
    intro c xs h
    have hl := take_length_of_le W k xs h
    have hd := drop_bound W k xs h
    have e : W * (k + 1) = W + W * k := by rw [Nat.mul_succ, Nat.add_comm]
    simp only [foldBlocks]
    rw [e, List.take_add, List.foldl_append, hblk c _ hl, ih _ _ hd]

theorem blockedFold_eq {σ α : Type} (W : Nat) (hW : 0 < W) (blk tail : σ → List α → σ) (step : σ → α → σ)
    (hblk : ∀ c b, b.length = W → blk c b = b.foldl step c)
    (htail : ∀ c t, t.length < W → tail c t = t.foldl step c)
    (c : σ) (xs : List α) : blockedFold W blk tail c xs = xs.foldl step c := by
  unfold blockedFold
  have hle : W * (xs.length / W) ≤ xs.length := Nat.mul_div_le _ _
  have hlt : (xs.drop (W * (xs.length / W))).length < W := by
    rw [List.length_drop]
    have := Nat.mod_lt xs.length hW
    have := Nat.div_add_mod xs.length W
    omega
  rw [htail _ _ hlt, foldBlocks_eq W blk step hblk _ c xs hle, ← List.foldl_append, List.take_append_drop]

/-! ### search -/

theorem firstIdx_le {α : Type} (p : α → Bool) : ∀ xs : List α, firstIdx p xs ≤ xs.length := by
  intro xs
  induction xs with
  | nil => simp [firstIdx]
  | cons x xs ih => simp only [firstIdx, List.length_cons]; split <;> omega

theorem firstIdx_append {α : Type} (p : α → Bool) (a r : List α) :
    firstIdx p (a ++ r) = if firstIdx p a < a.length then firstIdx p a else a.length + firstIdx p r := by
  induction a with
  | nil => simp [firstIdx]
  | cons x a ih =>
    simp only [List.cons_append, firstIdx, List.length_cons]
    by_cases hp : p x = true
    · simp [hp]
    · simp only [hp, Bool.false_eq_true, if_false, ih]
      by_cases hlt : firstIdx p a < a.length
      · simp [hlt]
      · simp only [hlt, if_false, Nat.add_lt_add_iff_right]; omega

theorem searchBlocks_eq {α : Type} (W : Nat) (blk : List α → Option Nat) (p : α → Bool)
    (hblk : ∀ b, b.length = W → blk b = if firstIdx p b < W then some (firstIdx p b) else none) :
    ∀ k i xs, W * k ≤ xs.length →
      (match searchBlocks W blk k i xs with
       | some r => r
       | none => i + W * k + firstIdx p (xs.drop (W * k))) = i + firstIdx p xs := by
  intro k
  induction k with
  | zero => intro i xs _; simp [searchBlocks]
  | succ k ih =>
    intro i xs h
    have hl := take_length_of_le W k xs h
    have hd := drop_bound W k xs h
    have e : W * (k + 1) = W + W * k := by rw [Nat.mul_succ, Nat.add_comm]
    have hx : firstIdx p xs = firstIdx p (xs.take W ++ xs.drop W) := by rw [List.take_append_drop]
    rw [hx, firstIdx_append, hl]
    simp only [searchBlocks]
    rw [hblk _ hl]
    by_cases hlt : firstIdx p (xs.take W) < W
    · simp [hlt]
    · simp only [hlt, if_false]
      have := ih (i + W) (xs.drop W) hd
      rw [List.drop_drop] at this
      rw [e]
      rw [show i + (W + W * k) = i + W + W * k by omega]
      rw [this]; omega

theorem blockedSearch_eq {α : Type} (W : Nat) (blk : List α → Option Nat) (p : α → Bool)
    (hblk : ∀ b, b.length = W → blk b = if firstIdx p b < W then some (firstIdx p b) else none)
    (xs : List α) : blockedSearch W blk p xs = firstIdx p xs := by
  unfold blockedSearch
  have hle : W * (xs.length / W) ≤ xs.length := Nat.mul_div_le _ _
  have := searchBlocks_eq W blk p hblk (xs.length / W) 0 xs hle
  cases h : searchBlocks W blk (xs.length / W) 0 xs with
  | some r => rw [h] at this; simpa using this
  | none => rw [h] at this; simpa using this

/-! ### accesses -/

theorem accesses_in_bounds (W n : Nat) : ∀ a ∈ accesses W n, a.1 + a.2 ≤ n := by
  intro a ha
  unfold accesses at ha
  have hle : W * (n / W) ≤ n := Nat.mul_div_le _ _
  rcases List.mem_append.mp ha with h | h
  · obtain ⟨j, hj, rfl⟩ := List.mem_map.mp h
    have hj' : j < n / W := List.mem_range.mp hj
    have : W * (j + 1) ≤ W * (n / W) := Nat.mul_le_mul_left W hj'
    simp only
    rw [Nat.mul_succ] at this
    omega
  · obtain ⟨t, ht, rfl⟩ := List.mem_map.mp h
    have ht' := List.mem_range.mp ht
    simp only
    omega

/-- the ranges tile `[0, n)`: their lengths add up to `n` -/
theorem accesses_cover (W n : Nat) : ((accesses W n).map (·.2)).sum = n := by
  unfold accesses
  have hle : W * (n / W) ≤ n := Nat.mul_div_le _ _
  simp only [List.map_append, List.map_map, List.sum_append]
  have h1 : ((List.range (n / W)).map ((fun a : Nat × Nat => a.2) ∘ fun j => (W * j, W))).sum = W * (n / W) := by
    have : ((fun a : Nat × Nat => a.2) ∘ fun j => (W * j, W)) = fun _ => W := rfl
    rw [this]
    induction (n / W) with
    | zero => simp
    | succ m ih => rw [List.range_succ, List.map_append, List.sum_append, ih]; simp [Nat.mul_succ]
  have h2 : ∀ m, ((List.range m).map ((fun a : Nat × Nat => a.2) ∘ fun t => (W * (n / W) + t, 1))).sum = m := by
    intro m
    have : ((fun a : Nat × Nat => a.2) ∘ fun t => (W * (n / W) + t, 1)) = fun _ => 1 := rfl
    rw [this]
    induction m with
    | zero => simp
    | succ m ih => rw [List.range_succ, List.map_append, List.sum_append, ih]; simp
  rw [h1, h2]
  omega

theorem searchAccesses_in_bounds (W n : Nat) (s : Option Nat) (hs : ∀ j, s = some j → j < n / W) :
    ∀ a ∈ searchAccesses W n s, a.1 + a.2 ≤ n := by
  intro a ha
  cases s with
  | none => exact accesses_in_bounds W n a ha
  | some j =>
    have hj := hs j rfl
    simp only [searchAccesses] at ha
    obtain ⟨t, ht, rfl⟩ := List.mem_map.mp ha
    have ht' := List.mem_range.mp ht
    have hle : W * (n / W) ≤ n := Nat.mul_div_le _ _
    have : W * (t + 1) ≤ W * (n / W) := Nat.mul_le_mul_left W (by omega)
    simp only
    rw [Nat.mul_succ] at this
    omega

end Carquet.Proofs.SimdBlocked
