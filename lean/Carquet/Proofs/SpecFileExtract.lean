import Carquet.Proofs.SpecFileAdm
/-
Unknown fields threaded through every extraction function of `Spec.File.Meta`: a struct value with
fields merged in whose ids avoid the struct's table is extracted exactly like the struct without them
(`C06_unknown_fields_ignored` applied to each getter the function uses).
-/
namespace Carquet.Proofs.SpecFile
open Carquet.Spec Carquet.Spec.File Carquet.Spec.Thrift Carquet.Spec.ParquetThrift

theorem statsOf_we (known extra : Fields) (h : extrasOk statistics extra = true) :
    statsOf (withExtras known extra) = statsOf known := by
  unfold statsOf
  rw [checkStruct_we h, getBin_we h known 1 (by decide), getBin_we h known 2 (by decide), getInt_we h known 3 (by decide),
    getBin_we h known 5 (by decide), getBin_we h known 6 (by decide)]

theorem dataHdrOf_we (known extra : Fields) (h : extrasOk dataPageHeader extra = true) :
    dataHdrOf (withExtras known extra) = dataHdrOf known := by
  unfold dataHdrOf
  rw [checkStruct_we h, natField_we h _ known 1 (by decide), getStruct_we h known 5 (by decide),
    getInt_we h known 2 (by decide), getInt_we h known 3 (by decide), getInt_we h known 4 (by decide)]

theorem dictHdrOf_we (known extra : Fields) (h : extrasOk dictionaryPageHeader extra = true) :
    dictHdrOf (withExtras known extra) = dictHdrOf known := by
  unfold dictHdrOf
  rw [checkStruct_we h, natField_we h _ known 1 (by decide), getInt_we h known 2 (by decide)]

theorem pageHdrOf_we (known extra : Fields) (h : extrasOk pageHeader extra = true) :
    pageHdrOf (withExtras known extra) = pageHdrOf known := by
  unfold pageHdrOf
  rw [checkStruct_we h, getInt_we h known 1 (by decide), getInt_we h known 2 (by decide), getInt_we h known 3 (by decide),
    getInt_we h known 4 (by decide), getStruct_we h known 5 (by decide), getStruct_we h known 7 (by decide)]

theorem optLogicalTypeOf_we (known extra : Fields) (h : extrasOk schemaElement extra = true) :
    optLogicalTypeOf (withExtras known extra) = optLogicalTypeOf known := by
  unfold optLogicalTypeOf
  rw [getStruct_we h known 10 (by decide)]

theorem schemaElementOf_we (known extra : Fields) (h : extrasOk schemaElement extra = true) :
    schemaElementOf (withExtras known extra) = schemaElementOf known := by
  unfold schemaElementOf
  rw [checkStruct_we h, getBin_we h known 4 (by decide), getInt_we h known 3 (by decide),
    optNatField_we h _ known 1 (by decide), optNatField_we h _ known 6 (by decide), getInt_we h known 2 (by decide),
    getInt_we h known 5 (by decide), optLogicalTypeOf_we known extra h]

theorem columnMetaOf_we (known extra : Fields) (h : extrasOk columnMetaData extra = true) :
    columnMetaOf (withExtras known extra) = columnMetaOf known := by
  unfold columnMetaOf
  rw [checkStruct_we h, natField_we h _ known 1 (by decide), natField_we h _ known 4 (by decide),
    natField_we h _ known 5 (by decide), natField_we h _ known 6 (by decide), natField_we h _ known 7 (by decide),
    natField_we h _ known 9 (by decide), optNatField_we h _ known 11 (by decide), getList_we h known 2 (by decide),
    getList_we h known 3 (by decide)]

theorem columnChunkOf_we (known extra : Fields) (h : extrasOk columnChunk extra = true) :
    columnChunkOf (withExtras known extra) = columnChunkOf known := by
  unfold columnChunkOf
  rw [checkStruct_we h, getStruct_we h known 3 (by decide)]

theorem rowGroupOf_we (known extra : Fields) (h : extrasOk rowGroup extra = true) :
    rowGroupOf (withExtras known extra) = rowGroupOf known := by
  unfold rowGroupOf
  rw [checkStruct_we h, getList_we h known 1 (by decide), natField_we h _ known 2 (by decide),
    natField_we h _ known 3 (by decide)]

theorem fileMetaOf_we (known extra : Fields) (h : extrasOk fileMetaData extra = true) :
    fileMetaOf (withExtras known extra) = fileMetaOf known := by
  unfold fileMetaOf
  rw [checkStruct_we h, getList_we h known 2 (by decide), natField_we h _ known 3 (by decide),
    getList_we h known 4 (by decide), getInt_we h known 1 (by decide)]

end Carquet.Proofs.SpecFile
