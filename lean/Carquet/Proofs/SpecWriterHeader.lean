import Carquet.Proofs.FileRealHeader
import Carquet.Proofs.SpecFileFooter
import Carquet.Spec.ParquetThriftValue
/-
Page-header stage of `Spec.File.read` on the bytes carquet's page writer emits: the
hand-written header (`Impl.FileReal.pageHeader`) is the canonical compact encoding of the Thrift
value parquet.thrift assigns to it (C13), the independent generic decoder reads that value back
and stops exactly behind the header, and the reader's extraction (`pageHdrOf`) finds: type
DATA_PAGE, the two sizes, the CRC, a DataPageHeader with PLAIN values, RLE levels and the
statistics.
-/
namespace Carquet.Proofs.SpecWriter
open Carquet.Impl Carquet.Impl.FileReal Carquet.Impl.ThriftParquet
open Carquet.Spec Carquet.Spec.Thrift Carquet.Spec.ParquetThrift
open Carquet.Proofs.FileRealHeader Carquet.Proofs.SpecFile

/-- the statistics of a written page header as the independent reader extracts them -/
def statsMetaOf (s : Writer.PageStats) : File.StatsMeta :=
  ⟨none, none, some (s.nullCount : Int), some s.max, some s.min⟩

/-- the header of a written page as the independent reader extracts it -/
def pageHdrOfWritten (unc comp crc numValues : Nat) (stats : Option Writer.PageStats) : File.PageHdr :=
  ⟨0, unc, comp, some (asI32 crc), some ⟨numValues, 0, 3, 3, stats.map statsMetaOf⟩, none⟩

/-- the fields of the Thrift value of a written page header -/
def phFieldsW (unc comp crc numValues : Nat) (stats : Option Writer.PageStats) : File.Fields :=
  [(1, .i32 0), (2, .i32 unc), (3, .i32 comp), (4, .i32 (asI32 crc)),
   (5, TVal.struct (([(1, TVal.i32 numValues), (2, TVal.i32 0), (3, TVal.i32 3), (4, TVal.i32 3)] : File.Fields) ++
      (match stats with
       | none => []
       | some s => [(5, TVal.struct [(3, TVal.i64 s.nullCount), (5, TVal.binary s.max), (6, TVal.binary s.min)])])))]

theorem pageHeaderTV_written (unc comp crc numValues : Nat) (stats : Option Writer.PageStats)
    (hs : ∀ s, stats = some s → s.max ≠ [] ∧ s.min ≠ []) :
    pageHeaderTV (headerOf unc comp crc numValues stats) = .struct (phFieldsW unc comp crc numValues stats) := by
  cases stats with
  | none =>
    simp [pageHeaderTV, headerOf, fPageMember, dataPageHeaderTV, f1, fOpt, pageData, phFieldsW]
  | some s =>
    obtain ⟨h1, h2⟩ := hs s rfl
    have e1 : s.max.isEmpty = false := by cases hm : s.max <;> simp_all
    have e2 : s.min.isEmpty = false := by cases hm : s.min <;> simp_all
    simp [pageHeaderTV, headerOf, fPageMember, dataPageHeaderTV, statisticsTV, f1, fOpt, fBinNonEmpty, pageData,
      phFieldsW, e1, e2]

theorem pageHdrOf_written (unc comp crc numValues : Nat) (stats : Option Writer.PageStats) :
    File.pageHdrOf (phFieldsW unc comp crc numValues stats) = .ok (pageHdrOfWritten unc comp crc numValues stats) := by
  unfold File.pageHdrOf phFieldsW
  rw [checkStruct_of _ _ rfl rfl]
  cases stats with
  | none =>
    simp only [List.append_nil]
    simp [bind, Except.bind, pure, Except.pure, File.getInt, File.getStruct, File.field?, File.intOf, natCast_not_neg,
      File.dataHdrOf, File.natField, pageHdrOfWritten]
    rw [checkStruct_of _ _ rfl rfl]
  | some s =>
    simp [bind, Except.bind, pure, Except.pure, File.getInt, File.getStruct, File.field?, File.intOf, natCast_not_neg,
      File.dataHdrOf, File.natField, pageHdrOfWritten]
    rw [checkStruct_of _ _ rfl rfl]
    simp [File.statsOf, File.getBin, File.getInt, File.field?, File.intOf, statsMetaOf, bind, Except.bind, pure, Except.pure]
    rw [checkStruct_of _ _ rfl rfl]

/-- sizes of a page header fit the C types -/
structure HeaderSizes (unc comp numValues : Nat) (stats : Option Writer.PageStats) : Prop where
  unc : unc < 2147483648
  comp : comp < 2147483648
  numValues : numValues < 2147483648
  stats : ∀ s, stats = some s → s.nullCount < 9223372036854775808 ∧ s.max.length < 2147483648 ∧
    s.min.length < 2147483648 ∧ s.max ≠ [] ∧ s.min ≠ []

/-- **page-header stage**: the independent reader parses the header of a written page, followed
by anything, to `pageHdrOfWritten` and hands on exactly what follows the header. -/
theorem parsePageHeader_written (unc comp crc numValues : Nat) (stats : Option Writer.PageStats) (rest : List UInt8)
    (hsz : HeaderSizes unc comp numValues stats) (hcrc : crc < 4294967296) :
    File.parsePageHeader (pageHeader unc comp crc numValues stats ++ rest) =
      .ok (pageHdrOfWritten unc comp crc numValues stats, rest) := by
  have hne : ∀ s, stats = some s → s.max ≠ [] ∧ s.min ≠ [] := fun s h => ⟨(hsz.stats s h).2.2.2.1, (hsz.stats s h).2.2.2.2⟩
  have e := pageHeader_eq_write unc comp crc numValues stats hne
  have w := headerOf_wf unc comp crc numValues stats hsz.unc hsz.comp hcrc hsz.numValues
    (fun s h => ⟨(hsz.stats s h).1, (hsz.stats s h).2.1, (hsz.stats s h).2.2.1⟩)
  have henc := (Carquet.Proofs.Thrift.writePageHeader_eq (headerOf unc comp crc numValues stats)).1
  have hwf := Carquet.Proofs.Thrift.ph_wf _ w
  have hdec := Carquet.Proofs.Thrift.decode_encode _ hwf rest
  rw [pageHeaderTV_written unc comp crc numValues stats hne] at hdec henc
  unfold File.parsePageHeader
  rw [e, henc]
  have hty : (TVal.struct (phFieldsW unc comp crc numValues stats)).ty = TType.struct := rfl
  rw [hty] at hdec
  rw [hdec]
  simp only [pageHdrOf_written]

end Carquet.Proofs.SpecWriter

namespace Carquet.Proofs.SpecWriter
open Carquet.Impl Carquet.Impl.FileReal Carquet.Impl.ThriftParquet
open Carquet.Spec Carquet.Spec.Thrift Carquet.Spec.ParquetThrift
open Carquet.Proofs.FileRealHeader

/-- a page header is never empty (it ends with the stop byte) -/
theorem pageHeader_length_pos (unc comp crc numValues : Nat) (stats : Option Writer.PageStats)
    (hs : ∀ s, stats = some s → s.max ≠ [] ∧ s.min ≠ []) :
    0 < (pageHeader unc comp crc numValues stats).length := by
  rw [pageHeader_eq_write unc comp crc numValues stats hs,
    (Carquet.Proofs.Thrift.writePageHeader_eq (headerOf unc comp crc numValues stats)).1,
    pageHeaderTV_written unc comp crc numValues stats hs]
  simp [encode, encodeVal]

end Carquet.Proofs.SpecWriter
