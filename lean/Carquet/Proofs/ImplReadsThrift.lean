import Carquet.Proofs.ImplReadsDefs
import Carquet.Proofs.SpecFileThrift
/-
Unknown fields and the table description of carquet's struct parsers (Proofs/ThriftTable): fields
merged into a struct value by `withExtras` whose ids the parser's table does not know are skipped —
they change neither what the parser makes of the struct (`ofFields`) nor whether it accepts it
(`okFields`), provided they nest no deeper than the skip recursion allows.
-/
namespace Carquet.Proofs.ImplReads
open Carquet.Spec Carquet.Spec.File Carquet.Spec.Thrift Carquet.Spec.ParquetThrift
open Carquet.Proofs.Thrift

/-- a field the table does not know leaves the parser's state as it is -/
theorem ofFields_insertField {σ : Type} (tbl : Table σ) (f : Int × TVal) (hf : lookupT tbl f.1 = none) :
    ∀ (fs : Fields) (s : σ), ofFields tbl s (insertField f fs) = ofFields tbl s fs
  | [], s => by simp [insertField, ofFields, stepT, hf]
  | g :: r, s => by
    simp only [insertField]
    split
    · simp [ofFields, stepT, hf]
    · have ih := ofFields_insertField tbl f hf r (stepT tbl s g.1 g.2)
      simp only [ofFields, List.foldl_cons] at ih ⊢
      exact ih

/-- **unknown fields are ignored**: the parser's result on a struct with merged-in unknown fields -/
theorem ofFields_withExtras {σ : Type} (tbl : Table σ) : ∀ (extra known : Fields) (s : σ),
    (∀ f ∈ extra, lookupT tbl f.1 = none) → ofFields tbl s (withExtras known extra) = ofFields tbl s known
  | [], known, s, _ => rfl
  | f :: r, known, s, h => by
    have ih := ofFields_withExtras tbl r (insertField f known) s (fun x hx => h x (by simp [hx]))
    simp only [withExtras, List.foldl_cons] at ih ⊢
    rw [ih, ofFields_insertField tbl f (h f (by simp))]

theorem mem_insertField (f x : Int × TVal) : ∀ fs : Fields, x ∈ insertField f fs → x = f ∨ x ∈ fs
  | [], h => by simp [insertField] at h; exact Or.inl h
  | g :: r, h => by
    simp only [insertField] at h
    split at h
    · simp only [List.mem_cons] at h ⊢
      rcases h with h | h | h
      · exact Or.inl h
      · exact Or.inr (Or.inl h)
      · exact Or.inr (Or.inr h)
    · simp only [List.mem_cons] at h ⊢
      rcases h with h | h
      · exact Or.inr (Or.inl h)
      · rcases mem_insertField f x r h with h' | h'
        · exact Or.inl h'
        · exact Or.inr (Or.inr h')

theorem mem_withExtras (x : Int × TVal) : ∀ (extra known : Fields), x ∈ withExtras known extra → x ∈ known ∨ x ∈ extra
  | [], known, h => Or.inl h
  | f :: r, known, h => by
    have ih := mem_withExtras x r (insertField f known)
    simp only [withExtras, List.foldl_cons] at ih h
    rcases ih h with h1 | h1
    · rcases mem_insertField f x known h1 with h2 | h2
      · exact Or.inr (by simp [h2])
      · exact Or.inl h2
    · exact Or.inr (by simp [h1])

/-- a struct with merged-in unknown fields is acceptable to the parser when the known part is and the
unknown fields nest at most `R` deep -/
theorem okFields_withExtras {σ : Type} (tbl : Table σ) (R : Nat) (known extra : Fields)
    (hk : okFields tbl R known) (hx : ∀ f ∈ extra, lookupT tbl f.1 = none) (hd : extrasDepth R extra = true) :
    okFields tbl R (withExtras known extra) := by
  intro f hf
  rcases mem_withExtras f extra known hf with h | h
  · exact hk f h
  · unfold okT
    rw [hx f h]
    unfold extrasDepth at hd
    rw [List.all_eq_true] at hd
    simpa using hd f h

theorem extrasDepth_mono {R R' : Nat} (h : R ≤ R') {extra : Fields} (hd : extrasDepth R extra = true) :
    extrasDepth R' extra = true := by
  unfold extrasDepth at hd ⊢
  rw [List.all_eq_true] at hd ⊢
  intro f hf
  have := hd f hf
  simp only [decide_eq_true_eq] at this ⊢
  omega

/-- ids outside a parquet.thrift table are outside the parser's table when the parser's table lists
only ids of that table -/
theorem lookupT_none_of_extrasOk {σ : Type} (tbl : Table σ) (s : StructSpec) (extra : Fields)
    (hsub : ∀ id, (lookupT tbl id).isSome = true → (s.find id).isSome = true)
    (hx : extrasOk s extra = true) : ∀ f ∈ extra, lookupT tbl f.1 = none := by
  intro f hf
  have := Carquet.Proofs.SpecFile.extrasOk_avoid hx f hf
  cases hl : lookupT tbl f.1 with
  | none => rfl
  | some g =>
    have := hsub f.1 (by rw [hl]; rfl)
    simp_all

end Carquet.Proofs.ImplReads
