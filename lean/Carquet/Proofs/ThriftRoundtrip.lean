import Carquet.Proofs.ThriftTop
import Carquet.Proofs.ThriftWriteStructs
/-
What the parser tables make of the Thrift value of a structure: `ofFields tbl {} (fields of
XTV x) = x.norm`; those fields are acceptable to the parser (`okFields`), and the value is a
well-formed Thrift value (`TVal.wf`) when the structure is well formed.
-/
namespace Carquet.Proofs.Thrift
open Carquet.Spec.Thrift Carquet.Spec.ParquetThrift
open Carquet.Impl.Thrift
open Carquet.Impl.ThriftParquet

/-! ### generic pieces -/

theorem ofFields_append {σ : Type} (tbl : Table σ) (s : σ) (a b : Fields) :
    ofFields tbl s (a ++ b) = ofFields tbl (ofFields tbl s a) b := by
  simp [ofFields, List.foldl_append]

theorem piece_f1 {σ : Type} (tbl : Table σ) (s : σ) (id : Int) (v : TVal) : ofFields tbl s (f1 id v) = stepT tbl s id v := rfl

theorem piece_opt {σ α : Type} (tbl : Table σ) (s : σ) (id : Int) (mk : α → TVal) (o : Option α) (set : σ → Option α → σ)
    (hs : ∀ x, o = some x → stepT tbl s id (mk x) = set s (some x)) (hn : set s none = s) :
    ofFields tbl s (fOpt id mk o) = set s o := by
  cases o with
  | none => exact hn.symm
  | some x => exact hs x rfl

theorem piece_pos {σ : Type} (tbl : Table σ) (s : σ) (id : Int) (v : Int) (set : σ → Int → σ)
    (hs : ∀ x, stepT tbl s id (.i32 x) = set s x) (hn : set s 0 = s) :
    ofFields tbl s (fPos id v) = set s (if 0 < v then v else 0) := by
  unfold fPos
  by_cases h : 0 < v
  · simp only [h, if_true]; exact hs v
  · simp only [h, if_false]; exact hn.symm

theorem piece_nonzero {σ : Type} (tbl : Table σ) (s : σ) (id : Int) (v : Int) (set : σ → Int → σ)
    (hs : ∀ x, stepT tbl s id (.i32 x) = set s x) (hn : set s 0 = s) :
    ofFields tbl s (fNonZero id v) = set s v := by
  unfold fNonZero
  by_cases h : v = 0
  · simp only [h, if_true]; exact hn.symm
  · simp only [h, if_false]; exact hs v

theorem piece_binNE {σ : Type} (tbl : Table σ) (s : σ) (id : Int) (b : Bytes) (set : σ → Bytes → σ)
    (hs : ∀ x, stepT tbl s id (.binary x) = set s x) (hn : set s [] = s) :
    ofFields tbl s (fBinNonEmpty id b) = set s b := by
  unfold fBinNonEmpty
  cases b with
  | nil => simp only [List.isEmpty_nil, if_true]; exact hn.symm
  | cons a r => simp only [List.isEmpty_cons, Bool.false_eq_true, if_false]; exact hs _

theorem takeWhile_all (p : UInt8 → Bool) (b : Bytes) (h : ∀ x ∈ b, p x = true) : b.takeWhile p = b := by
  induction b with
  | nil => rfl
  | cons a r ih =>
    simp only [List.takeWhile_cons, h a List.mem_cons_self, if_true]
    rw [ih (fun x hx => h x (List.mem_cons_of_mem _ hx))]

theorem cstr_of_isStr (b : Bytes) (h : isStr b = true) : cstr b = b := by
  unfold isStr at h
  simp only [Bool.and_eq_true, List.all_eq_true, decide_eq_true_eq] at h
  unfold cstr
  exact takeWhile_all _ b (fun x hx => by simpa using h.2 x hx)

theorem cstr_of_okOpt (o : Option Bytes) (h : okOpt isStr o = true) : ∀ b, o = some b → cstr b = b := by
  intro b hb; subst hb; exact cstr_of_isStr b h

/-! ### acceptability of field lists -/

theorem okFields_append {σ : Type} (tbl : Table σ) (R : Nat) (a b : Fields) :
    okFields tbl R (a ++ b) ↔ okFields tbl R a ∧ okFields tbl R b := by
  unfold okFields
  constructor
  · intro h; exact ⟨fun f hf => h f (List.mem_append_left _ hf), fun f hf => h f (List.mem_append_right _ hf)⟩
  · rintro ⟨h1, h2⟩ f hf
    rcases List.mem_append.mp hf with h | h
    · exact h1 f h
    · exact h2 f h

theorem okFields_nil {σ : Type} (tbl : Table σ) (R : Nat) : okFields tbl R [] := by intro f hf; cases hf

theorem okFields_f1 {σ : Type} (tbl : Table σ) (R : Nat) (id : Int) (v : TVal) (h : okT tbl R id v) : okFields tbl R (f1 id v) := by
  intro f hf
  simp only [f1, List.mem_singleton] at hf
  subst hf; exact h

theorem okFields_fOpt {σ α : Type} (tbl : Table σ) (R : Nat) (id : Int) (mk : α → TVal) (o : Option α)
    (h : ∀ x, o = some x → okT tbl R id (mk x)) : okFields tbl R (fOpt id mk o) := by
  cases o with
  | none => exact okFields_nil tbl R
  | some x => exact okFields_f1 tbl R id _ (h x rfl)

theorem okFields_fPos {σ : Type} (tbl : Table σ) (R : Nat) (id : Int) (v : Int) (h : okT tbl R id (.i32 v)) :
    okFields tbl R (fPos id v) := by
  unfold fPos; split
  · exact okFields_f1 tbl R id _ h
  · exact okFields_nil tbl R

theorem okFields_fNonZero {σ : Type} (tbl : Table σ) (R : Nat) (id : Int) (v : Int) (h : okT tbl R id (.i32 v)) :
    okFields tbl R (fNonZero id v) := by
  unfold fNonZero; split
  · exact okFields_nil tbl R
  · exact okFields_f1 tbl R id _ h

theorem okFields_fBinNE {σ : Type} (tbl : Table σ) (R : Nat) (id : Int) (b : Bytes) (h : okT tbl R id (.binary b)) :
    okFields tbl R (fBinNonEmpty id b) := by
  unfold fBinNonEmpty; split
  · exact okFields_nil tbl R
  · exact okFields_f1 tbl R id _ h

/-! ### well-formedness of field lists -/

theorem wfFields_append (a b : Fields) : wfFields (a ++ b) = (wfFields a && wfFields b) := by
  induction a with
  | nil => simp [wfFields]
  | cons f r ih => obtain ⟨id, v⟩ := f; simp [wfFields, ih, Bool.and_assoc]

theorem wfFields_f1 (id : Int) (v : TVal) (h0 : -32768 ≤ id) (h1 : id ≤ 32767) (hv : v.wf = true) : wfFields (f1 id v) = true := by
  simp [f1, wfFields, inI16, h0, h1, hv]

theorem wfFields_fOpt {α : Type} (id : Int) (mk : α → TVal) (o : Option α) (h0 : -32768 ≤ id) (h1 : id ≤ 32767)
    (h : ∀ x, o = some x → (mk x).wf = true) : wfFields (fOpt id mk o) = true := by
  cases o with
  | none => rfl
  | some x => exact wfFields_f1 id _ h0 h1 (h x rfl)

theorem wfElems_map {α : Type} (et : TType) (tv : α → TVal) (xs : List α)
    (h : ∀ x ∈ xs, (tv x).ty = et ∧ (tv x).wf = true) : wfElems et (xs.map tv) = true := by
  induction xs with
  | nil => rfl
  | cons x r ih =>
    simp only [List.map_cons, wfElems, Bool.and_eq_true, decide_eq_true_eq]
    exact ⟨⟨(h x List.mem_cons_self).1, (h x List.mem_cons_self).2⟩, ih (fun y hy => h y (List.mem_cons_of_mem _ hy))⟩

theorem isI32_inI32 {v : Int} (h : isI32 v = true) : inI32 v := by simpa [isI32, inI32] using h
theorem isI64_inI64 {v : Int} (h : isI64 v = true) : inI64 v := by simpa [isI64, inI64] using h
theorem isI16_inI16 {v : Int} (h : isI16 v = true) : inI16 v := by simpa [isI16, inI16] using h
theorem isI8_inI8 {v : Int} (h : isI8 v = true) : inI8 v := by simpa [isI8, inI8] using h
theorem wf_i32 {v : Int} (h : isI32 v = true) : (TVal.i32 v).wf = true := by simpa [TVal.wf] using isI32_inI32 h
theorem wf_i64 {v : Int} (h : isI64 v = true) : (TVal.i64 v).wf = true := by simpa [TVal.wf] using isI64_inI64 h
theorem wf_i16 {v : Int} (h : isI16 v = true) : (TVal.i16 v).wf = true := by simpa [TVal.wf] using isI16_inI16 h
theorem wf_i8 {v : Int} (h : isI8 v = true) : (TVal.i8 v).wf = true := by simpa [TVal.wf] using isI8_inI8 h
theorem wf_bin {b : Bytes} (h : isBin b = true) : (TVal.binary b).wf = true := by
  have h31 : (2:Nat)^31 = 2147483648 := by decide
  simpa [TVal.wf, isBin, h31] using h
theorem isBin_of_isStr {b : Bytes} (h : isStr b = true) : isBin b = true := by
  unfold isStr at h; simp only [Bool.and_eq_true] at h; exact h.1

end Carquet.Proofs.Thrift
