import Carquet.Spec.File.Write
import Carquet.Proofs.StatsOrder
import Carquet.Proofs.SpecFilePage
/-
Statistics layer: the min / max the reference writer computes (`minOf`, `maxOf`: folds in the
statistics order `Spec.Order.tcmp`) are true bounds, so the independent reader's check of
page-header statistics (`checkStats`) accepts what `statsFor` produces.
-/
namespace Carquet.Proofs.SpecFile
open Carquet.Spec Carquet.Spec.File Carquet.Spec.Order Carquet.Proofs.StatsOrder

theorem foldMin_spec (t : PType) : ∀ (vals : List Bytes) (m : Bytes),
    tle t (vals.foldl (fun m x => if tcmp t x m == .lt then x else m) m) m ∧
    (∀ v ∈ vals, tle t (vals.foldl (fun m x => if tcmp t x m == .lt then x else m) m) v) ∧
    ((vals.foldl (fun m x => if tcmp t x m == .lt then x else m) m) = m ∨
     (vals.foldl (fun m x => if tcmp t x m == .lt then x else m) m) ∈ vals)
  | [], m => ⟨tle_refl t m, fun _ h => absurd h List.not_mem_nil, Or.inl rfl⟩
  | x :: r, m => by
    simp only [List.foldl_cons]
    obtain ⟨h1, h2, h3⟩ := foldMin_spec t r (if tcmp t x m == .lt then x else m)
    have hm : tle t (if tcmp t x m == .lt then x else m) m := by
      split
      · rename_i h; unfold tle; rw [beq_iff_eq.mp h]; decide
      · exact tle_refl t m
    have hx : tle t (if tcmp t x m == .lt then x else m) x := by
      split
      · exact tle_refl t x
      · rename_i h
        unfold tle
        intro hgt
        exact h (beq_iff_eq.mpr (((tcmp_good t).gt_iff_lt m x).mp hgt))
    refine ⟨tle_trans h1 hm, ?_, ?_⟩
    · intro v hv
      rcases List.mem_cons.mp hv with rfl | hv'
      · exact tle_trans h1 hx
      · exact h2 v hv'
    · rcases h3 with h | h
      · rw [h]
        split
        · exact Or.inr (by simp)
        · exact Or.inl rfl
      · exact Or.inr (List.mem_cons_of_mem _ h)

theorem foldMax_spec (t : PType) : ∀ (vals : List Bytes) (m : Bytes),
    tle t m (vals.foldl (fun m x => if tcmp t x m == .gt then x else m) m) ∧
    (∀ v ∈ vals, tle t v (vals.foldl (fun m x => if tcmp t x m == .gt then x else m) m)) ∧
    ((vals.foldl (fun m x => if tcmp t x m == .gt then x else m) m) = m ∨
     (vals.foldl (fun m x => if tcmp t x m == .gt then x else m) m) ∈ vals)
  | [], m => ⟨tle_refl t m, fun _ h => absurd h List.not_mem_nil, Or.inl rfl⟩
  | x :: r, m => by
    simp only [List.foldl_cons]
    obtain ⟨h1, h2, h3⟩ := foldMax_spec t r (if tcmp t x m == .gt then x else m)
    have hm : tle t m (if tcmp t x m == .gt then x else m) := by
      split
      · rename_i h
        unfold tle
        rw [(tcmp_good t).swap x m, beq_iff_eq.mp h]; decide
      · exact tle_refl t m
    have hx : tle t x (if tcmp t x m == .gt then x else m) := by
      split
      · exact tle_refl t x
      · rename_i h
        unfold tle
        intro hgt
        exact h (beq_iff_eq.mpr hgt)
    refine ⟨tle_trans hm h1, ?_, ?_⟩
    · intro v hv
      rcases List.mem_cons.mp hv with rfl | hv'
      · exact tle_trans hx h1
      · exact h2 v hv'
    · rcases h3 with h | h
      · rw [h]
        split
        · exact Or.inr (by simp)
        · exact Or.inl rfl
      · exact Or.inr (List.mem_cons_of_mem _ h)

theorem minOf_spec (t : PType) (vals : List Bytes) (b : Bytes) (h : minOf t vals = some b) :
    b ∈ vals ∧ ∀ v ∈ vals, tle t b v := by
  cases vals with
  | nil => simp [minOf] at h
  | cons x r =>
    simp only [minOf, Option.some.injEq] at h
    obtain ⟨h1, h2, h3⟩ := foldMin_spec t r x
    rw [h] at h1 h2 h3
    refine ⟨?_, ?_⟩
    · rcases h3 with h | h
      · simp [h]
      · simp [h]
    · intro v hv
      rcases List.mem_cons.mp hv with rfl | hv'
      · exact h1
      · exact h2 v hv'

theorem maxOf_spec (t : PType) (vals : List Bytes) (b : Bytes) (h : maxOf t vals = some b) :
    b ∈ vals ∧ ∀ v ∈ vals, tle t v b := by
  cases vals with
  | nil => simp [maxOf] at h
  | cons x r =>
    simp only [maxOf, Option.some.injEq] at h
    obtain ⟨h1, h2, h3⟩ := foldMax_spec t r x
    rw [h] at h1 h2 h3
    refine ⟨?_, ?_⟩
    · rcases h3 with h | h
      · simp [h]
      · simp [h]
    · intro v hv
      rcases List.mem_cons.mp hv with rfl | hv'
      · exact h1
      · exact h2 v hv'

theorem validStat_of_validValue {leaf : LeafInfo} {v : Bytes} (h : validValue leaf v = true) : validStat leaf v = true := by
  unfold validValue at h
  unfold validStat
  cases hp : leaf.ptype <;> rw [hp] at h <;> simp only [] at h ⊢
  · have : v = [0] ∨ v = [1] := by simpa using h
    rcases this with rfl | rfl <;> decide
  · exact h
  · exact h
  · exact h
  · exact h
  · exact h
  · exact decide_eq_true (by simp [Order.Valid, Order.PType.width])
  · exact h

theorem checkBound_min (leaf : LeafInfo) (vals : List Bytes) (hv : ∀ v ∈ vals, validValue leaf v = true) :
    checkBound leaf true vals (minOf leaf.ptype vals) = .ok () := by
  cases h : minOf leaf.ptype vals with
  | none => rfl
  | some b =>
    obtain ⟨hm, hb⟩ := minOf_spec leaf.ptype vals b h
    have hall : vals.all (fun v => decide (tle leaf.ptype b v)) = true := by
      rw [List.all_eq_true]; intro v hv'; simpa using hb v hv'
    simp [checkBound, validStat_of_validValue (hv b hm), hall]

theorem checkBound_max (leaf : LeafInfo) (vals : List Bytes) (hv : ∀ v ∈ vals, validValue leaf v = true) :
    checkBound leaf false vals (maxOf leaf.ptype vals) = .ok () := by
  cases h : maxOf leaf.ptype vals with
  | none => rfl
  | some b =>
    obtain ⟨hm, hb⟩ := maxOf_spec leaf.ptype vals b h
    have hall : vals.all (fun v => decide (tle leaf.ptype v b)) = true := by
      rw [List.all_eq_true]; intro v hv'; simpa using hb v hv'
    simp [checkBound, validStat_of_validValue (hv b hm), hall]

/-- **the statistics the reference writer puts into a page header pass the reader's truth check** -/
theorem checkStats_statsFor (leaf : LeafInfo) (sel : StatsSel) (dls : List Nat) (vals : List Bytes)
    (hv : ∀ v ∈ vals, validValue leaf v = true) :
    checkStats leaf dls vals (statsFor leaf sel dls vals) = .ok () := by
  have hmin := checkBound_min leaf vals hv
  have hmax := checkBound_max leaf vals hv
  have hnone1 : checkBound leaf true vals none = .ok () := rfl
  have hnone2 : checkBound leaf false vals none = .ok () := rfl
  unfold statsFor
  by_cases hany : sel.any = true
  · simp only [hany, Bool.not_true, Bool.false_eq_true, if_false, checkStats]
    cases sel.nullCount <;> cases sel.minMaxValue <;> cases sel.minMaxOld <;>
      simp [hmin, hmax, hnone1, hnone2, andThen, checkNullCount]
  · simp [hany, checkStats]

/-- a v1 data page body with PLAIN values and the writer's statistics in its header is decoded
to the entries it was written from -/
theorem decodeDataPage_written_stats (leaf : LeafInfo) (dict : Option (List Bytes)) (es : List Entry)
    (repRuns defRuns : List RleHybrid.Choice) (repB defB : Bytes) (sel : StatsSel)
    (hr : levelBytes leaf.maxRep repRuns (es.map (·.rep)) = some repB)
    (hd : levelBytes leaf.maxDef defRuns (es.map (·.dl)) = some defB)
    (hwf : ∀ e ∈ es, wellFormedEntry leaf e = true)
    (hlr : repB.length < 2 ^ 32) (hld : defB.length < 2 ^ 32) :
    decodeDataPage leaf dict ⟨es.length, 0, 3, 3, statsFor leaf sel (es.map (·.dl)) (es.filterMap (·.val))⟩
      (v1Body leaf .v1 es repB defB (plainEncode leaf (es.filterMap (·.val)))) = .ok es := by
  have hrep : ∀ l ∈ es.map (·.rep), l ≤ leaf.maxRep := by
    intro l hl
    obtain ⟨e, he, rfl⟩ := List.mem_map.mp hl
    have := hwf e he
    unfold wellFormedEntry at this
    simp only [Bool.and_eq_true, decide_eq_true_eq] at this
    exact this.1.1
  have hdef : ∀ l ∈ es.map (·.dl), l ≤ leaf.maxDef := by
    intro l hl
    obtain ⟨e, he, rfl⟩ := List.mem_map.mp hl
    have := hwf e he
    unfold wellFormedEntry at this
    simp only [Bool.and_eq_true, decide_eq_true_eq] at this
    exact this.1.2
  have hvals : ∀ v ∈ es.filterMap (·.val), validValue leaf v = true := by
    intro v hv
    obtain ⟨e, he, hev⟩ := List.mem_filterMap.mp hv
    have := hwf e he
    unfold wellFormedEntry at this
    rw [hev] at this
    simp only [Bool.and_eq_true] at this
    exact this.2.2
  have h1 := readLevels_written leaf.maxRep repRuns (es.map (·.rep))
    repB ((if leaf.maxDef = 0 then [] else prefixed defB) ++ plainEncode leaf (es.filterMap (·.val))) hr hrep hlr
  have h2 := readLevels_written leaf.maxDef defRuns (es.map (·.dl)) defB (plainEncode leaf (es.filterMap (·.val))) hd hdef hld
  have h3 := plainValues_written leaf (es.filterMap (·.val)) hvals [] (fun _ => rfl)
  simp only [List.length_map, List.append_nil] at h1 h2 h3
  have hbody : v1Body leaf .v1 es repB defB (plainEncode leaf (es.filterMap (·.val))) =
      (if leaf.maxRep = 0 then [] else prefixed repB) ++
        ((if leaf.maxDef = 0 then [] else prefixed defB) ++ plainEncode leaf (es.filterMap (·.val))) := by
    simp [v1Body, List.append_assoc]
  have hnn := nonNullCount_written leaf es hwf
  have hasm := assemble_written leaf es hwf
  have hst := checkStats_statsFor leaf sel (es.map (·.dl)) (es.filterMap (·.val)) hvals
  unfold decodeDataPage
  simp only [hbody, legalEncoding, bind, Except.bind, pure, Except.pure, h1, h2, hnn, readValues, h3]
  simp
  rw [hst]
  simp only [hasm]

end Carquet.Proofs.SpecFile
