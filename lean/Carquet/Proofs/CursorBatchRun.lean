import Carquet.Proofs.CursorBatch
/-
C02 / C03, batch reader: `carquet_batch_reader_next` refines an abstract machine over the rows of
the projected columns (`absNext`), in every I/O mode; draining the reader refines `absRun`.
-/
namespace Carquet.Proofs.Cursor
open Carquet.Spec.Cursor (Row)
open Carquet.Impl.ColumnReader (Fixes Reader Page)
open Carquet.Impl.BatchReader

/-! ### the abstract machine -/

def headLen : List (List (Row α)) → Nat
  | P :: _ => P.length
  | [] => 0

/-- one batch out of the pending rows `Ps` of the current row group (`n` projected columns) -/
def absRead (n : Nat) (cols : List Column) (bs : Nat) (Ps : List (List (Row α))) : Batch α × List (List (Row α)) :=
  if min (headLen Ps) bs = 0 then (emptyBatch n, Ps)
  else (⟨(min (headLen Ps) bs : Nat), absCols (min (headLen Ps) bs) cols Ps⟩,
        Ps.map (List.drop (min (headLen Ps) bs)))

/-- pending rows of the open row group (if any) and the rows of the row groups behind it -/
structure AbsSt (α : Type) where
  cur : Option (List (List (Row α)))
  later : List (List (List (Row α)))

def absAdvance (n : Nat) (cols : List Column) (bs : Nat) (s : AbsSt α) : AbsSt α × Status × Option (Batch α) :=
  match s.later with
  | [] => (s, .endOfData, none)
  | rg :: later => (⟨some (absRead n cols bs rg).2, later⟩, .ok, some (absRead n cols bs rg).1)

def absNext (n : Nat) (cols : List Column) (bs : Nat) (s : AbsSt α) : AbsSt α × Status × Option (Batch α) :=
  match s.cur with
  | none => absAdvance n cols bs s
  | some Ps =>
    if headLen Ps > 0 then (⟨some (absRead n cols bs Ps).2, s.later⟩, .ok, some (absRead n cols bs Ps).1)
    else absAdvance n cols bs s

def absRun (n : Nat) (cols : List Column) (bs : Nat) : Nat → AbsSt α → List (Batch α) × Status
  | 0, _ => ([], .ok)
  | fuel + 1, s =>
    match absNext n cols bs s with
    | (s', .ok, some b) =>
      match absRun n cols bs fuel s' with
      | (bs', st) => (b :: bs', st)
    | (_, st, _) => ([], st)

/-! ### the concrete reader represents an abstract state -/

structure BInv (f : File α) (proj : List Nat) (bs : Nat) (br : BatchReader α) (s : AbsSt α) : Prop where
  hfile : br.file = f
  hproj : br.projected = proj.map Int.ofNat
  hbsz : br.batchSize = (bs : Int)
  lo : -1 ≤ br.currentRowGroup
  hi : br.currentRowGroup + 1 ≤ f.rowGroups.length
  cur : match s.cur with
    | none => br.currentRowGroup = -1
    | some Ps => 0 ≤ br.currentRowGroup ∧ ColsInv (projCols f proj) br.colReaders Ps ∧
        ∀ P ∈ Ps, P.length = headLen Ps
  later : (f.rowGroups.drop (br.currentRowGroup + 1).toNat).map (projRows f proj) = s.later

theorem colFits_mono (col : Column) (a b : Nat) (h : a ≤ b) (hb : ColFits col b) : ColFits col a :=
  ⟨hb.1, Nat.le_trans (Nat.mul_le_mul_left _ h) hb.2⟩

theorem drop_cons_getElem? (l : List β) (i : Nat) (x : β) (rest : List β) (h : l.drop i = x :: rest) :
    l[i]? = some x ∧ l.drop (i + 1) = rest := by
  constructor
  · have := congrArg List.head? h
    simpa [List.head?_drop] using this
  · have : l.drop (i + 1) = (l.drop i).drop 1 := by simp [List.drop_drop]
    rw [this, h]; rfl

theorem length_projCols (f : File α) (proj : List Nat) (hproj : ∀ c ∈ proj, c < f.columns.length) :
    (projCols f proj).length = proj.length := by
  induction proj with
  | nil => rfl
  | cons c proj ih =>
    have hc : c < f.columns.length := hproj c (by simp)
    have := ih (fun x hx => hproj x (by simp [hx]))
    simp [projCols, List.getElem?_eq_getElem hc] at this ⊢
    exact this

theorem absCols_numValues (rtr : Nat) : ∀ (cols : List Column) (Ps : List (List (Row α))),
    (∀ P ∈ Ps, rtr ≤ P.length) → ∀ cd ∈ absCols rtr cols Ps, cd.numValues = (rtr : Int)
  | col :: cols, P :: Ps, h, cd, hcd => by
    simp only [absCols, List.mem_cons] at hcd
    rcases hcd with rfl | hcd
    · have := h P (by simp)
      simp [specCol, List.length_take]; omega
    · exact absCols_numValues rtr cols Ps (fun Q hQ => h Q (by simp [hQ])) cd hcd
  | [], _, _, cd, hcd => by simp [absCols] at hcd
  | _ :: _, [], _, cd, hcd => by simp [absCols] at hcd

theorem eta_colReaders (br : BatchReader α) : { br with colReaders := br.colReaders } = br := by
  cases br; rfl

/-- Everything after the row-group check: one abstract read. -/
theorem readBatchRows_abs (mode : IOMode) (f : File α) (proj : List Nat) (bs : Nat) (hbs0 : 0 < bs)
    (hbs : bs < 2147483648) (_hprojOk : ∀ c ∈ proj, c < f.columns.length)
    (hfit : ∀ col ∈ projCols f proj, ColFits col bs)
    (br : BatchReader α) (r0 : Reader α) (rs : List (Reader α)) (Ps : List (List (Row α)))
    (hmode : br.mode = mode) (hrs : br.colReaders = r0 :: rs) (hfile : br.file = f)
    (hproj : br.projected = proj.map Int.ofNat) (hbsz : br.batchSize = (bs : Int))
    (hcols : ColsInv (projCols f proj) br.colReaders Ps) (heq : ∀ P ∈ Ps, P.length = headLen Ps) :
    ∃ rs' b, readBatchRows Fixes.all br r0 = ({ br with colReaders := rs' }, .ok, some b) ∧
      Batch.erase b = (absRead proj.length (projCols f proj) bs Ps).1 ∧
      ColsInv (projCols f proj) rs' (absRead proj.length (projCols f proj) bs Ps).2 ∧
      (∀ P ∈ (absRead proj.length (projCols f proj) bs Ps).2,
        P.length = headLen (absRead proj.length (projCols f proj) bs Ps).2) := by
  -- column 0
  rw [hrs] at hcols
  obtain ⟨col0, cols, hc0⟩ : ∃ col0 cols, projCols f proj = col0 :: cols := by
    cases hpc : projCols f proj with
    | nil => rw [hpc] at hcols; cases Ps <;> cases hcols
    | cons c cs => exact ⟨c, cs, rfl⟩
  rw [hc0] at hcols
  obtain ⟨P0, Ps', rfl⟩ : ∃ P0 Ps', Ps = P0 :: Ps' := by
    cases Ps with
    | nil => cases hcols
    | cons P Ps => exact ⟨P, Ps, rfl⟩
  obtain ⟨⟨hinv0, _, hpend0⟩, _⟩ := hcols
  have hrem : Impl.ColumnReader.remaining r0 = ((headLen (P0 :: Ps') : Nat) : Int) := by
    simp [Impl.ColumnReader.remaining, hinv0.rem, hpend0, headLen]
  have hmin : min (Impl.ColumnReader.remaining r0) br.batchSize = ((min (headLen (P0 :: Ps')) bs : Nat) : Int) := by
    rw [hrem, hbsz]; omega
  unfold readBatchRows absRead
  rw [hmin]
  by_cases hz : min (headLen (P0 :: Ps')) bs = 0
  · simp only [hz, show ((0 : Nat) : Int) = 0 from rfl, if_true]
    refine ⟨br.colReaders, emptyBatch br.projected.length, by rw [eta_colReaders br], ?_, ?_, heq⟩
    · rw [hproj]; simp [Batch.erase, emptyBatch, ColData.erase]
    · rw [hrs, hc0]; exact ⟨⟨hinv0, ‹_›, hpend0⟩, ‹_›⟩
  · have hz' : ¬ ((min (headLen (P0 :: Ps')) bs : Nat) : Int) = 0 := by omega
    simp only [hz, hz', if_false]
    generalize hrtr : min (headLen (P0 :: Ps')) bs = rtr at hz hz'
    have hr0 : 0 < rtr := by omega
    have hr1 : rtr ≤ bs := by omega
    have hlenAll : ∀ P ∈ P0 :: Ps', rtr ≤ P.length := by
      intro P hP; rw [heq P hP]; omega
    have hcolsP : ColsInv (projCols f proj) (br.colReaders.map (prefetch Fixes.all)) (P0 :: Ps') := by
      apply colsInv_prefetch
      rw [hrs, hc0]; exact ⟨⟨hinv0, ‹_›, hpend0⟩, ‹_›⟩
    obtain ⟨rs', cds, hread, hcols', hcds⟩ := readColumns_ok mode rtr hr0 (by omega) _ _ _ hcolsP hlenAll
      (fun col hcol => colFits_mono col rtr bs hr1 (hfit col hcol))
    rw [hfile, hproj, projectedColumns_eq, hmode, hread]
    simp only
    refine ⟨rs', _, rfl, ?_, hcols', ?_⟩
    · -- the batch
      have hnv := absCols_numValues rtr (projCols f proj) (P0 :: Ps') hlenAll
      cases cds with
      | nil => rw [hc0] at hcds; simp [absCols] at hcds
      | cons cd cds =>
        have hcd : cd.numValues = (rtr : Int) := by
          have h1 : ColData.erase cd ∈ absCols rtr (projCols f proj) (P0 :: Ps') := by
            rw [← hcds]; simp
          have := hnv _ h1
          simpa [ColData.erase] using this
        simp only [Batch.erase, List.head?_cons, Option.map_some, Option.getD_some, hcd, hcds]
    · intro P hP
      simp only [List.map_cons, List.mem_cons, List.mem_map] at hP
      simp only [List.map_cons, headLen, List.length_drop]
      rcases hP with rfl | ⟨Q, hQ, rfl⟩
      · simp
      · have := heq Q (by simp [hQ])
        simp only [headLen] at this
        simp [this]

theorem projRows_sameLen (f : File α) (hf : FileOk f) (proj : List Nat) (rg : List (ChunkData α))
    (hrg : rg ∈ f.rowGroups) : ∀ P ∈ projRows f proj rg, P.length = headLen (projRows f proj rg) := by
  obtain ⟨n, hn⟩ := hf.sameRows rg hrg
  have hall : ∀ P ∈ projRows f proj rg, P.length = n := by
    intro P hP
    simp only [projRows, List.mem_filterMap] at hP
    obtain ⟨c, _, hc⟩ := hP
    cases hcol : f.columns[c]? with
    | none => simp [hcol] at hc
    | some col =>
      cases hcd : rg[c]? with
      | none => simp [hcol, hcd] at hc
      | some cd =>
        simp only [hcol, hcd, Option.some.injEq] at hc
        rw [← hc]; exact hn c col cd hcol hcd
  intro P hP
  rw [hall P hP]
  cases hpr : projRows f proj rg with
  | nil => rw [hpr] at hP; cases hP
  | cons Q Qs => simp only [headLen]; exact (hall Q (by rw [hpr]; simp)).symm

theorem colsInv_cons_inv {col : Column} {cols : List Column} {rs : List (Reader α)} {Ps : List (List (Row α))}
    (h : ColsInv (col :: cols) rs Ps) :
    ∃ r0 rs' P0 Ps', rs = r0 :: rs' ∧ Ps = P0 :: Ps' ∧ Inv r0 ∧ pending r0 = P0 := by
  cases rs with
  | nil => cases h
  | cons r rs =>
    cases Ps with
    | nil => cases h
    | cons P Ps => exact ⟨r, rs, P, Ps, rfl, rfl, h.1.1, h.1.2.2⟩

section next
variable (mode : IOMode) (f : File α) (hf : FileOk f) (proj : List Nat)
  (hprojOk : ∀ c ∈ proj, c < f.columns.length) (hne : proj ≠ [])
  (bs : Nat) (hbs0 : 0 < bs) (hbs : bs < 2147483648) (hfit : ∀ col ∈ projCols f proj, ColFits col bs)
include hf hprojOk hne hbs0 hbs hfit

omit hf hbs0 hbs hfit in
theorem projCols_ne : ∃ col0 cols, projCols f proj = col0 :: cols := by
  have := length_projCols f proj hprojOk
  cases hpc : projCols f proj with
  | nil =>
    rw [hpc] at this
    cases proj with
    | nil => exact absurd rfl hne
    | cons _ _ => simp at this
  | cons c cs => exact ⟨c, cs, rfl⟩

/-- the row-group advance, then one abstract read -/
theorem afterAdvance_abs (br : BatchReader α) (s : AbsSt α) (hmode : br.mode = mode) (hfile : br.file = f)
    (hproj : br.projected = proj.map Int.ofNat) (hbsz : br.batchSize = (bs : Int))
    (lo : -1 ≤ br.currentRowGroup) (hi : br.currentRowGroup + 1 ≤ f.rowGroups.length)
    (later : (f.rowGroups.drop (br.currentRowGroup + 1).toNat).map (projRows f proj) = s.later) :
    ∃ br' ob, afterAdvance Fixes.all br = (br', (absAdvance proj.length (projCols f proj) bs s).2.1, ob) ∧
      ob.map Batch.erase = (absAdvance proj.length (projCols f proj) bs s).2.2 ∧ br'.mode = mode ∧
      ((absAdvance proj.length (projCols f proj) bs s).2.1 = .ok →
        BInv f proj bs br' (absAdvance proj.length (projCols f proj) bs s).1) := by
  unfold afterAdvance advanceRowGroup absAdvance
  generalize hk : (br.currentRowGroup + 1).toNat = k at later
  have hkI : br.currentRowGroup + 1 = (k : Int) := by omega
  cases hd : f.rowGroups.drop k with
  | nil =>
    have hl : s.later = [] := by rw [← later, hd]; rfl
    have hge : br.currentRowGroup + 1 ≥ (f.rowGroups.length : Int) := by
      have := List.drop_eq_nil_iff.mp hd; omega
    rw [hfile]
    simp only [hge, if_true, hl]
    exact ⟨_, none, rfl, rfl, hmode, fun h => by cases h⟩
  | cons rgc rest =>
    have hl : s.later = projRows f proj rgc :: rest.map (projRows f proj) := by rw [← later, hd]; rfl
    obtain ⟨hget, hrest⟩ := drop_cons_getElem? _ _ _ _ hd
    have hlt : ¬ (br.currentRowGroup + 1 ≥ (f.rowGroups.length : Int)) := by
      have : k < f.rowGroups.length := by
        rcases Nat.lt_or_ge k f.rowGroups.length with h | h
        · exact h
        · rw [List.getElem?_eq_none h] at hget; cases hget
      omega
    obtain ⟨rs, hopen, hcols⟩ := openReaders_ok mode f hf k rgc hget proj hprojOk
    rw [hfile, hmode, hproj, hkI]
    simp only [hkI ▸ hlt, if_false, hopen, hl]
    obtain ⟨col0, cols, hc0⟩ := projCols_ne f proj hprojOk hne
    have hcols0 := hcols
    rw [hc0] at hcols0
    obtain ⟨r0, rs', P0, Ps', hrs, _, _, _⟩ := colsInv_cons_inv hcols0
    subst hrs
    simp only
    have hmem : rgc ∈ f.rowGroups := List.mem_of_getElem? hget
    obtain ⟨rs'', b, hread, hb, hcols', heq'⟩ := readBatchRows_abs mode f proj bs hbs0 hbs hprojOk hfit
      ⟨mode, f, br.batchSize, proj.map Int.ofNat, (k : Int), r0 :: rs'⟩ r0 rs' (projRows f proj rgc)
      rfl rfl rfl rfl hbsz hcols (projRows_sameLen f hf proj rgc hmem)
    rw [hread]
    refine ⟨_, some b, rfl, by simp [hb], rfl, fun _ => ?_⟩
    exact ⟨rfl, rfl, hbsz, by simp only; omega, by
      simp only
      have : k < f.rowGroups.length := by
        rcases Nat.lt_or_ge k f.rowGroups.length with h | h
        · exact h
        · rw [List.getElem?_eq_none h] at hget; cases hget
      omega, ⟨by simp, hcols', heq'⟩, by
      simp only
      have : ((k : Int) + 1).toNat = k + 1 := by omega
      rw [this, hrest]⟩

/-- **`carquet_batch_reader_next` refines `absNext`.** -/
theorem next_abs (br : BatchReader α) (s : AbsSt α) (hmode : br.mode = mode) (h : BInv f proj bs br s) :
    ∃ br' ob, next Fixes.all br = (br', (absNext proj.length (projCols f proj) bs s).2.1, ob) ∧
      ob.map Batch.erase = (absNext proj.length (projCols f proj) bs s).2.2 ∧ br'.mode = mode ∧
      ((absNext proj.length (projCols f proj) bs s).2.1 = .ok →
        BInv f proj bs br' (absNext proj.length (projCols f proj) bs s).1) := by
  unfold next absNext
  cases hcur : s.cur with
  | none =>
    have := h.cur; rw [hcur] at this
    have hneg : br.currentRowGroup < 0 := by simp only at this; omega
    simp only [hneg, if_true]
    exact afterAdvance_abs mode f hf proj hprojOk hne bs hbs0 hbs hfit br s hmode h.hfile h.hproj h.hbsz h.lo h.hi h.later
  | some Ps =>
    have := h.cur; rw [hcur] at this
    obtain ⟨hge, hcols, heq⟩ := this
    have hneg : ¬ br.currentRowGroup < 0 := by omega
    simp only [hneg, if_false]
    obtain ⟨col0, cols, hc0⟩ := projCols_ne f proj hprojOk hne
    have hcols0 := hcols
    rw [hc0] at hcols0
    obtain ⟨r0, rs', P0, Ps', hrs, hPs, hinv0, hpend0⟩ := colsInv_cons_inv hcols0
    rw [hrs]
    simp only
    have hhas : Impl.ColumnReader.hasNext r0 = decide (headLen Ps > 0) := by
      simp only [Impl.ColumnReader.hasNext, hinv0.rem, hpend0, hPs, headLen]
      congr 1
      simp
    rw [hhas]
    by_cases hpos : headLen Ps > 0
    · simp only [hpos, decide_true, if_true]
      obtain ⟨rs'', b, hread, hb, hcols', heq'⟩ := readBatchRows_abs mode f proj bs hbs0 hbs hprojOk hfit
        br r0 rs' Ps hmode hrs h.hfile h.hproj h.hbsz hcols heq
      rw [hread]
      refine ⟨_, some b, rfl, by simp [hb], hmode, fun _ => ?_⟩
      exact ⟨h.hfile, h.hproj, h.hbsz, h.lo, h.hi, ⟨hge, hcols', heq'⟩, h.later⟩
    · simp only [hpos, decide_false, Bool.false_eq_true, if_false]
      exact afterAdvance_abs mode f hf proj hprojOk hne bs hbs0 hbs hfit br s hmode h.hfile h.hproj h.hbsz h.lo h.hi h.later

/-- **Draining the batch reader refines `absRun`** — in whatever mode the file was opened. -/
theorem runAll_abs : ∀ (fuel : Nat) (br : BatchReader α) (s : AbsSt α), br.mode = mode → BInv f proj bs br s →
    ((runAll Fixes.all fuel br).1.map Batch.erase, (runAll Fixes.all fuel br).2) =
      absRun proj.length (projCols f proj) bs fuel s := by
  intro fuel
  induction fuel with
  | zero => intro br s _ _; rfl
  | succ fuel ih =>
    intro br s hmode h
    obtain ⟨br', ob, hnext, hob, hmode', hinv'⟩ := next_abs mode f hf proj hprojOk hne bs hbs0 hbs hfit br s hmode h
    unfold runAll absRun
    rw [hnext]
    generalize habs : absNext proj.length (projCols f proj) bs s = res at hob hinv'
    obtain ⟨s', st, ob'⟩ := res
    simp only at hob hinv' ⊢
    cases st with
    | ok =>
      cases ob with
      | none =>
        simp only [Option.map_none] at hob
        rw [← hob]
        rfl
      | some b =>
        simp only [Option.map_some] at hob
        rw [← hob]
        simp only
        have := ih br' s' hmode' (hinv' rfl)
        rw [← this]
        simp
    | endOfData => cases ob <;> cases ob' <;> simp_all
    | rowGroupNotFound => cases ob <;> cases ob' <;> simp_all
    | columnNotFound => cases ob <;> cases ob' <;> simp_all
    | decode => cases ob <;> cases ob' <;> simp_all
    | ub => cases ob <;> cases ob' <;> simp_all

end next

end Carquet.Proofs.Cursor
