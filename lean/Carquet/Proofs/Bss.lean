import Carquet.Spec.Bss
import Carquet.Impl.Bss
/-
Helper lemmas for BYTE_STREAM_SPLIT: the index arithmetic of the C loops (`b * count + i`,
`i * K + b`) against the Spec's transposition by heads and tails.
-/
namespace Carquet.Proofs.Bss
open Carquet.Impl.Bss
open Carquet.Spec.Bss (heads tails consAll unsplit streams)

/-- `n` values of `k` bytes. -/
def Rect (k n : Nat) (vals : List (List UInt8)) : Prop := vals.length = n ∧ ∀ v ∈ vals, v.length = k

/-- byte `b` of value `i` -/
def cell (vals : List (List UInt8)) (i b : Nat) : Option UInt8 := (vals[i]?).bind (fun v => v[b]?)

def cellD (vals : List (List UInt8)) (i b : Nat) : UInt8 := (cell vals i b).getD 0

/-! ### generic list facts -/

theorem mapOpt_eq_some_map {α β : Type} {f : α → Option β} {g : α → β} :
    ∀ l : List α, (∀ x ∈ l, f x = some (g x)) → mapOpt f l = some (l.map g)
  | [], _ => rfl
  | x :: xs, h => by
    rw [mapOpt, h x (by simp), mapOpt_eq_some_map xs (fun y hy => h y (by simp [hy]))]
    rfl

theorem flatten_getElem? {α : Type} (m : Nat) : ∀ (rows : List (List α)),
    (∀ r ∈ rows, r.length = m) → ∀ i b, b < m →
    rows.flatten[i * m + b]? = (rows[i]?).bind (fun r => r[b]?)
  | [], _, i, b, _ => by simp
  | r :: rows, h, 0, b, hb => by
    have hr : r.length = m := h r (by simp)
    simp only [List.flatten_cons, Nat.zero_mul, Nat.zero_add]
    rw [List.getElem?_append_left (by omega)]; rfl
  | r :: rows, h, i + 1, b, hb => by
    have hr : r.length = m := h r (by simp)
    have ih := flatten_getElem? m rows (fun x hx => h x (by simp [hx])) i b hb
    simp only [List.flatten_cons]
    rw [List.getElem?_append_right (by rw [hr, Nat.succ_mul]; omega)]
    have : (i + 1) * m + b - r.length = i * m + b := by rw [hr, Nat.succ_mul]; omega
    rw [this, ih]; rfl

theorem map_range_getElem {α : Type} (l : List α) (d : α) :
    (List.range l.length).map (fun i => (l[i]?).getD d) = l := by
  apply List.ext_getElem?
  intro i
  rw [List.getElem?_map]
  by_cases h : i < l.length
  · rw [List.getElem?_range h, List.getElem?_eq_getElem h]
    simp [List.getElem?_eq_getElem h]
  · rw [List.getElem?_eq_none (by simpa using h), List.getElem?_eq_none (by omega)]; rfl

/-! ### cells of a rectangular value list -/

theorem cell_some {k n : Nat} {vals : List (List UInt8)} (h : Rect k n vals) {i b : Nat}
    (hi : i < n) (hb : b < k) : cell vals i b = some (cellD vals i b) := by
  have hi' : i < vals.length := by rw [h.1]; exact hi
  have hl : (vals[i]).length = k := h.2 _ (List.getElem_mem hi')
  have hb' : b < (vals[i]).length := by rw [hl]; exact hb
  simp only [cellD, cell, List.getElem?_eq_getElem hi', Option.bind_some,
    List.getElem?_eq_getElem hb', Option.getD_some]

theorem rows_eq {k n : Nat} {vals : List (List UInt8)} (h : Rect k n vals) :
    (List.range n).map (fun i => (List.range k).map (fun b => cellD vals i b)) = vals := by
  apply List.ext_getElem?
  intro i
  rw [List.getElem?_map]
  by_cases hi : i < n
  · have hi' : i < vals.length := by rw [h.1]; exact hi
    have hl : (vals[i]).length = k := h.2 _ (List.getElem_mem hi')
    rw [List.getElem?_range hi, List.getElem?_eq_getElem hi']
    simp only [Option.map_some, Option.some.injEq]
    have e := map_range_getElem (vals[i]) 0
    rw [hl] at e
    rw [← e]
    apply List.map_congr_left
    intro b _
    simp [cellD, cell, List.getElem?_eq_getElem hi']
  · rw [List.getElem?_eq_none (by simpa using hi), List.getElem?_eq_none (by rw [h.1]; omega)]; rfl

theorem rect_tails {k n : Nat} {vals : List (List UInt8)} (h : Rect (k + 1) n vals) :
    Rect k n (tails vals) := by
  refine ⟨by simp [tails, h.1], ?_⟩
  intro v hv
  simp only [tails, List.mem_map] at hv
  obtain ⟨w, hw, rfl⟩ := hv
  rw [List.length_tail, h.2 w hw]; rfl

theorem cellD_tails (vals : List (List UInt8)) (i b : Nat) :
    cellD (tails vals) i b = cellD vals i (b + 1) := by
  simp only [cellD, cell, tails, List.getElem?_map]
  cases vals[i]? with
  | none => rfl
  | some v => simp [List.getElem?_tail]

theorem heads_eq : ∀ {k n : Nat} {vals : List (List UInt8)}, Rect (k + 1) n vals →
    heads vals = (List.range n).map (fun i => cellD vals i 0)
  | _, n, [], h => by
    have : n = 0 := by simpa using h.1.symm
    subst this; rfl
  | k, n, v :: vs, h => by
    have hn : n = vs.length + 1 := by simpa using h.1.symm
    subst hn
    have hv : v.length = k + 1 := h.2 v (by simp)
    have ih := heads_eq (k := k) (n := vs.length) (vals := vs) ⟨rfl, fun w hw => h.2 w (by simp [hw])⟩
    match v, hv with
    | a :: t, _ =>
      rw [List.range_succ_eq_map]
      simp only [heads, List.filterMap_cons, List.head?_cons, List.map_cons, List.map_map] at ih ⊢
      rw [ih]
      simp [cellD, cell]

theorem heads_length {k n : Nat} {vals : List (List UInt8)} (h : Rect (k + 1) n vals) :
    (heads vals).length = n := by
  rw [heads_eq h]; simp

/-- The Spec's output, stream by stream. -/
theorem encode_eq_streams : ∀ (k : Nat) {n : Nat} {vals : List (List UInt8)}, Rect k n vals →
    Spec.Bss.encode k vals =
      ((List.range k).map (fun b => (List.range n).map (fun i => cellD vals i b))).flatten
  | 0, _, _, _ => rfl
  | k + 1, n, vals, h => by
    rw [Spec.Bss.encode, encode_eq_streams k (rect_tails h), heads_eq h, List.range_succ_eq_map]
    simp only [List.map_cons, List.flatten_cons, List.map_map]
    congr 2
    apply List.map_congr_left
    intro b _
    apply List.map_congr_left
    intro i _
    exact cellD_tails vals i b

theorem encode_length (k : Nat) {n : Nat} {vals : List (List UInt8)} (h : Rect k n vals) :
    (Spec.Bss.encode k vals).length = k * n := by
  induction k generalizing vals with
  | zero => simp [Spec.Bss.encode]
  | succ k ih =>
    rw [Spec.Bss.encode, List.length_append, heads_length h, ih (rect_tails h), Nat.succ_mul]; omega

/-- position `b * n + i` of the Spec's output holds byte `b` of value `i` -/
theorem encode_getElem? {k n : Nat} {vals : List (List UInt8)} (h : Rect k n vals) {i b : Nat}
    (hi : i < n) (hb : b < k) :
    (Spec.Bss.encode k vals)[b * n + i]? = some (cellD vals i b) := by
  rw [encode_eq_streams k h, flatten_getElem? n _ (by
    intro r hr
    simp only [List.mem_map] at hr
    obtain ⟨_, _, rfl⟩ := hr
    simp) b i hi]
  simp [List.getElem?_map, List.getElem?_range hb, List.getElem?_range hi]

/-- position `i * k + b` of the flat value array holds byte `b` of value `i` -/
theorem flat_getElem? {k n : Nat} {vals : List (List UInt8)} (h : Rect k n vals) {i b : Nat}
    (hi : i < n) (hb : b < k) : vals.flatten[i * k + b]? = some (cellD vals i b) := by
  rw [flatten_getElem? k vals h.2 i b hb]
  exact cell_some h hi hb

theorem flat_length {k n : Nat} {vals : List (List UInt8)} (h : Rect k n vals) :
    vals.flatten.length = n * k := by
  obtain ⟨h1, h2⟩ := h
  subst h1
  induction vals with
  | nil => simp
  | cons v vs ih =>
    rw [List.flatten_cons, List.length_append, ih (fun w hw => h2 w (by simp [hw])),
      h2 v (by simp), List.length_cons, Nat.succ_mul]
    omega

/-! ### the C loops on the Spec's output / on a value array -/

theorem gather_encode {k n : Nat} {vals : List (List UInt8)} (h : Rect k n vals) (extra : List UInt8) :
    gather k (Spec.Bss.encode k vals ++ extra) n = some vals.flatten := by
  have hrows : mapOpt (fun i => mapOpt (fun b => (Spec.Bss.encode k vals ++ extra)[b * n + i]?)
      (List.range k)) (List.range n)
      = some ((List.range n).map (fun i => (List.range k).map (fun b => cellD vals i b))) := by
    apply mapOpt_eq_some_map
    intro i hi
    apply mapOpt_eq_some_map
    intro b hb
    have hi' := List.mem_range.mp hi
    have hb' := List.mem_range.mp hb
    rw [List.getElem?_append_left, encode_getElem? h hi' hb']
    rw [encode_length k h]
    calc b * n + i < b * n + n := by omega
      _ = (b + 1) * n := by rw [Nat.succ_mul]
      _ ≤ k * n := Nat.mul_le_mul_right n hb'
  simp only [gather, hrows, rows_eq h]

theorem scatterSeq_flat {k n : Nat} {vals : List (List UInt8)} (h : Rect k n vals) :
    scatterSeq k vals.flatten n = some (Spec.Bss.encode k vals) := by
  have hrows : mapOpt (fun b => mapOpt (fun i => vals.flatten[i * k + b]?) (List.range n)) (List.range k)
      = some ((List.range k).map (fun b => (List.range n).map (fun i => cellD vals i b))) := by
    apply mapOpt_eq_some_map
    intro b hb
    apply mapOpt_eq_some_map
    intro i hi
    exact flat_getElem? h (List.mem_range.mp hi) (List.mem_range.mp hb)
  simp only [scatterSeq, hrows, encode_eq_streams k h]

/-- The gather loops stay inside `data` whenever `k * n ≤ data.length`. -/
theorem gather_isSome (k n : Nat) (data : List UInt8) (h : k * n ≤ data.length) :
    ∃ out, gather k data n = some out := by
  have hrows : mapOpt (fun i => mapOpt (fun b => data[b * n + i]?) (List.range k)) (List.range n)
      = some ((List.range n).map (fun i => (List.range k).map (fun b => (data[b * n + i]?).getD 0))) := by
    apply mapOpt_eq_some_map
    intro i hi
    apply mapOpt_eq_some_map
    intro b hb
    have hi' := List.mem_range.mp hi
    have hb' := List.mem_range.mp hb
    have : b * n + i < data.length := by
      calc b * n + i < b * n + n := by omega
        _ = (b + 1) * n := by rw [Nat.succ_mul]
        _ ≤ k * n := Nat.mul_le_mul_right n hb'
        _ ≤ data.length := h
    rw [List.getElem?_eq_getElem this]; rfl
  refine ⟨((List.range n).map (fun i => (List.range k).map (fun b => (data[b * n + i]?).getD 0))).flatten, ?_⟩
  simp only [gather, hrows]

theorem gather_zero (k : Nat) (data : List UInt8) : gather k data 0 = some [] := by
  simp [gather, mapOpt]

/-! ### the scalar float/double kernel: non-consecutive stores -/

theorem idx_iff {n i : Nat} (hi : i < n) (b p : Nat) : b * n + i = p ↔ p % n = i ∧ p / n = b := by
  have hn : 0 < n := by omega
  constructor
  · intro e
    subst e
    rw [Nat.mul_comm b n, Nat.mul_add_mod, Nat.mul_add_div hn, Nat.mod_eq_of_lt hi, Nat.div_eq_of_lt hi]
    exact ⟨rfl, rfl⟩
  · intro ⟨e1, e2⟩
    have := Nat.div_add_mod p n
    rw [e1, e2, Nat.mul_comm] at this
    exact this

theorem scatterRow_spec {k n : Nat} {vals : List (List UInt8)} (h : Rect k n vals) {i : Nat} (hi : i < n) :
    ∀ (fuel b : Nat) (out : List UInt8), b + fuel ≤ k → k * n ≤ out.length →
    ∃ out', scatterRow k vals.flatten n i fuel b out = some out' ∧ out'.length = out.length ∧
      ∀ p, out'[p]? = if p % n = i ∧ b ≤ p / n ∧ p / n < b + fuel
                      then some (cellD vals i (p / n)) else out[p]?
  | 0, b, out, _, _ => ⟨out, rfl, rfl, by
      intro p
      rw [if_neg (by omega)]⟩
  | fuel + 1, b, out, hb, hlen => by
    have hbk : b < k := by omega
    have hidx : b * n + i < out.length := by
      calc b * n + i < b * n + n := by omega
        _ = (b + 1) * n := by rw [Nat.succ_mul]
        _ ≤ k * n := Nat.mul_le_mul_right n hbk
        _ ≤ out.length := hlen
    obtain ⟨out', ho, hl, hp⟩ := scatterRow_spec h hi fuel (b + 1) (out.set (b * n + i) (cellD vals i b))
      (by omega) (by rw [List.length_set]; exact hlen)
    refine ⟨out', ?_, by rw [hl, List.length_set], ?_⟩
    · rw [scatterRow, flat_getElem? h hi hbk]
      simp only [store, hidx, if_true]
      exact ho
    · intro p
      rw [hp p, List.getElem?_set]
      by_cases hc : p % n = i ∧ p / n = b
      · have e : b * n + i = p := (idx_iff hi b p).mpr hc
        rw [if_neg (by omega), if_pos e, if_pos hidx, if_pos (by omega), hc.2]
      · have e : ¬ b * n + i = p := fun e => hc ((idx_iff hi b p).mp e)
        rw [if_neg e]
        by_cases hc2 : p % n = i ∧ b + 1 ≤ p / n ∧ p / n < b + 1 + fuel
        · rw [if_pos hc2, if_pos (by omega)]
        · rw [if_neg hc2, if_neg (by
            intro ⟨h1, h2, h3⟩
            by_cases h4 : p / n = b
            · exact hc ⟨h1, h4⟩
            · exact hc2 ⟨h1, by omega, by omega⟩)]

theorem scatterLoop_spec {k n : Nat} {vals : List (List UInt8)} (h : Rect k n vals) :
    ∀ (fuel i : Nat) (out : List UInt8), i + fuel ≤ n → k * n ≤ out.length →
    ∃ out', scatterLoop k vals.flatten n fuel i out = some out' ∧ out'.length = out.length ∧
      ∀ p, out'[p]? = if i ≤ p % n ∧ p % n < i + fuel ∧ p / n < k
                      then some (cellD vals (p % n) (p / n)) else out[p]?
  | 0, i, out, _, _ => ⟨out, rfl, rfl, by
      intro p
      rw [if_neg (by omega)]⟩
  | fuel + 1, i, out, hi, hlen => by
    have hin : i < n := by omega
    obtain ⟨out1, ho1, hl1, hp1⟩ := scatterRow_spec h hin k 0 out (by omega) hlen
    obtain ⟨out', ho, hl, hp⟩ := scatterLoop_spec h fuel (i + 1) out1 (by omega) (by rw [hl1]; exact hlen)
    refine ⟨out', ?_, by rw [hl, hl1], ?_⟩
    · rw [scatterLoop, ho1]
      exact ho
    · intro p
      rw [hp p, hp1 p]
      by_cases hc : p % n = i ∧ p / n < k
      · rw [if_neg (by omega), if_pos ⟨hc.1, Nat.zero_le _, by omega⟩,
          if_pos ⟨by omega, by omega, hc.2⟩, hc.1]
      · by_cases hc2 : i + 1 ≤ p % n ∧ p % n < i + 1 + fuel ∧ p / n < k
        · rw [if_pos hc2, if_pos ⟨by omega, by omega, hc2.2.2⟩]
        · rw [if_neg hc2, if_neg (fun hx => hc ⟨hx.1, by omega⟩), if_neg (by
            intro ⟨h1, h2, h3⟩
            by_cases h4 : p % n = i
            · exact hc ⟨h4, h3⟩
            · exact hc2 ⟨by omega, by omega, h3⟩)]

/-- The scalar kernel leaves the Spec's bytes in the first `k * n` bytes of the output buffer and
does not touch the rest. -/
theorem scatterLoop_flat {k n : Nat} {vals : List (List UInt8)} (h : Rect k n vals)
    (out0 : List UInt8) (hlen : k * n ≤ out0.length) :
    scatterLoop k vals.flatten n n 0 out0 = some (Spec.Bss.encode k vals ++ out0.drop (k * n)) := by
  obtain ⟨out', ho, hl, hp⟩ := scatterLoop_spec h n 0 out0 (by omega) hlen
  rw [ho]
  congr 1
  apply List.ext_getElem?
  intro p
  rw [hp p]
  have hel := encode_length k h
  by_cases hn : n = 0
  · subst hn
    have hnil : Spec.Bss.encode k vals = [] := List.eq_nil_of_length_eq_zero (by rw [hel]; simp)
    rw [if_neg (by omega), hnil]; simp
  · have hn' : 0 < n := by omega
    by_cases hpk : p < k * n
    · have hdiv : p / n < k := (Nat.div_lt_iff_lt_mul hn').mpr hpk
      have hmod : p % n < n := Nat.mod_lt p hn'
      rw [if_pos ⟨by omega, by omega, hdiv⟩, List.getElem?_append_left (by rw [hel]; exact hpk)]
      have hpe : p / n * n + p % n = p := by rw [Nat.mul_comm]; exact Nat.div_add_mod p n
      have := encode_getElem? h hmod hdiv
      rw [hpe] at this
      exact this.symm
    · have hdiv : ¬ p / n < k := fun hlt => hpk ((Nat.div_lt_iff_lt_mul hn').mp hlt)
      rw [if_neg (by omega), List.getElem?_append_right (by rw [hel]; omega), hel, List.getElem?_drop]
      congr 1; omega

/-! ### the Spec's own round trip -/

theorem consAll_heads_tails : ∀ vals : List (List UInt8), (∀ v ∈ vals, v ≠ []) →
    consAll (heads vals) (tails vals) = vals
  | [], _ => rfl
  | [] :: _, h => absurd rfl (h [] (by simp))
  | (a :: t) :: vs, h => by
    have ih := consAll_heads_tails vs (fun v hv => h v (by simp [hv]))
    simp only [heads, tails, List.filterMap_cons, List.head?_cons, List.map_cons, List.tail_cons,
      consAll] at ih ⊢
    rw [ih]

theorem unsplit_streams_encode : ∀ (k : Nat) {n : Nat} {vals : List (List UInt8)}, Rect k n vals →
    ∀ extra, unsplit n (streams k n (Spec.Bss.encode k vals ++ extra)) = vals
  | 0, n, vals, h, extra => by
    simp only [streams, unsplit]
    exact (List.eq_replicate_iff.mpr ⟨h.1, fun v hv => List.eq_nil_of_length_eq_zero (h.2 v hv)⟩).symm
  | k + 1, n, vals, h, extra => by
    rw [Spec.Bss.encode, List.append_assoc, streams, List.take_left' (heads_length h),
      List.drop_left' (heads_length h), unsplit, unsplit_streams_encode k (rect_tails h) extra]
    apply consAll_heads_tails
    intro v hv hnil
    have := h.2 v hv
    rw [hnil] at this
    simp at this

theorem spec_decode_encode {k n : Nat} {vals : List (List UInt8)} (h : Rect k n vals)
    (extra : List UInt8) : Spec.Bss.decode k n (Spec.Bss.encode k vals ++ extra) = some vals := by
  unfold Spec.Bss.decode
  rw [if_neg (by rw [List.length_append, encode_length k h]; omega), unsplit_streams_encode k h extra]

/-! ### the Spec decoder inverts the Spec encoder the other way round too: every `k * n` bytes are
the encoding of the values the Spec decoder returns -/

theorem consAll_spec : ∀ (s : List UInt8) (U : List (List UInt8)) (k : Nat), s.length = U.length →
    (∀ v ∈ U, v.length = k) →
    (consAll s U).length = U.length ∧ (∀ v ∈ consAll s U, v.length = k + 1) ∧
    heads (consAll s U) = s ∧ tails (consAll s U) = U
  | [], [], _, _, _ => ⟨rfl, by simp [consAll], rfl, rfl⟩
  | [], _ :: _, _, h, _ => by simp at h
  | _ :: _, [], _, h, _ => by simp at h
  | b :: bs, v :: vs, k, h, hv => by
    have ih := consAll_spec bs vs k (by simpa using h) (fun w hw => hv w (by simp [hw]))
    obtain ⟨i1, i2, i3, i4⟩ := ih
    refine ⟨by simp [consAll, i1], ?_, ?_, ?_⟩
    · intro w hw
      simp only [consAll, List.mem_cons] at hw
      rcases hw with rfl | hw
      · simp [hv v (by simp)]
      · exact i2 w hw
    · simp only [consAll, heads, List.filterMap_cons, List.head?_cons] at i3 ⊢; rw [i3]
    · simp only [consAll, tails, List.map_cons, List.tail_cons] at i4 ⊢; rw [i4]

theorem unsplit_spec : ∀ (k n : Nat) (data : List UInt8), k * n ≤ data.length →
    Rect k n (unsplit n (streams k n data)) ∧
    Spec.Bss.encode k (unsplit n (streams k n data)) = data.take (k * n)
  | 0, n, data, _ => by
    simp only [streams, unsplit, Spec.Bss.encode, Nat.zero_mul, List.take_zero, and_true]
    exact ⟨by simp, by intro v hv; simp only [List.mem_replicate] at hv; rw [hv.2]; rfl⟩
  | k + 1, n, data, h => by
    have hn : n ≤ data.length := by rw [Nat.succ_mul] at h; omega
    have hd : k * n ≤ (data.drop n).length := by rw [List.length_drop, Nat.succ_mul] at *; omega
    obtain ⟨⟨r1, r2⟩, he⟩ := unsplit_spec k n (data.drop n) hd
    have hs : (data.take n).length = (unsplit n (streams k n (data.drop n))).length := by
      rw [r1, List.length_take]; omega
    obtain ⟨c1, c2, c3, c4⟩ := consAll_spec (data.take n) _ k hs r2
    simp only [streams, unsplit]
    refine ⟨⟨by rw [c1, r1], c2⟩, ?_⟩
    rw [Spec.Bss.encode, c3, c4, he, Nat.succ_mul, Nat.add_comm (k * n) n, List.take_add]

/-- On every input the C gather loops return exactly what the Spec decoder returns. -/
theorem gather_eq_spec (k n : Nat) (data : List UInt8) (h : k * n ≤ data.length) :
    gather k data n = some (unsplit n (streams k n data)).flatten := by
  obtain ⟨hr, he⟩ := unsplit_spec k n data h
  have := gather_encode hr (data.drop (k * n))
  rwa [he, List.take_append_drop] at this

end Carquet.Proofs.Bss
