import Carquet.Impl.AllocExt
import Carquet.Proofs.AllocFlow
/-
C19, the page-by-page column reader (Impl/AllocExt.lean): every loader step consumes a prefix of the oracle and
succeeds exactly when that prefix holds no refusal; the page loop of carquet_column_read_batch and
carquet_column_skip account truthfully for the rows they deliver (conservation of `values_remaining`), and deliver
everything that was asked for unless a request was refused.
-/
namespace Carquet.Impl.Alloc.Ext
open Carquet.Impl.Alloc
open Carquet.Impl.Alloc.Flow

/-- what a loader step does to the oracle and to `values_remaining`: it consumes a prefix, succeeds iff nothing in that
prefix was refused, and never touches the row accounting -/
def Step.Spec (a : Step) : Prop :=
  ∀ s o, (a s o).2.1.remaining = s.remaining ∧
    ∃ pre : List Bool, o = pre ++ (a s o).2.2 ∧ ((a s o).1 = .ok ↔ ∀ b ∈ pre, b = true)

theorem spec_skip : Step.Spec Step.skip := fun s o => ⟨rfl, [], rfl, by simp [Step.skip]⟩

theorem spec_map (f : CR → CR) (hf : ∀ s, (f s).remaining = s.remaining) : Step.Spec (Step.map f) :=
  fun s o => ⟨hf s, [], rfl, by simp [Step.map]⟩

theorem spec_reqN (n : Nat) (f g : CR → CR) (hf : ∀ s, (f s).remaining = s.remaining) (hg : ∀ s, (g s).remaining = s.remaining) :
    Step.Spec (Step.reqN n f g) := by
  intro s o
  unfold Step.reqN
  by_cases h : (o.take n).all id = true
  · simp only [h, if_true]
    refine ⟨hf s, o.take n, (List.take_append_drop n o).symm, ?_⟩
    simp only [true_iff]
    intro b hb
    have := List.all_eq_true.mp h b hb
    simpa using this
  · simp only [h]
    refine ⟨hg s, o.take n, (List.take_append_drop n o).symm, ?_⟩
    constructor
    · intro hc; cases hc
    · intro hall
      exfalso; apply h
      exact List.all_eq_true.mpr (fun b hb => by simp [hall b hb])

theorem spec_when (c : Bool) (a : Step) (ha : Step.Spec a) : Step.Spec (Step.when c a) := by
  unfold Step.when; cases c
  · exact spec_skip
  · exact ha

theorem spec_andThen (a b : Step) (ha : Step.Spec a) (hb : Step.Spec b) : Step.Spec (Step.andThen a b) := by
  intro s o
  obtain ⟨ra, pa, ea, ia⟩ := ha s o
  unfold Step.andThen
  generalize hr : a s o = r at ra ea ia
  obtain ⟨st, s1, o1⟩ := r
  simp only at ra ea ia
  cases st with
  | ok =>
    simp only
    obtain ⟨rb, pb, eb, ib⟩ := hb s1 o1
    refine ⟨by rw [rb, ra], pa ++ pb, by rw [List.append_assoc, ← eb, ← ea], ?_⟩
    rw [ib]
    have hpa := ia.mp rfl
    constructor
    · intro h b hb'
      rcases List.mem_append.mp hb' with h1 | h1
      · exact hpa b h1
      · exact h b h1
    · intro h b hb'; exact h b (List.mem_append.mpr (Or.inr hb'))
  | oom =>
    simp only
    exact ⟨ra, pa, ea, by simpa using ia⟩
  | other =>
    simp only
    exact ⟨ra, pa, ea, by simpa using ia⟩

theorem spec_seq (l : List Step) (h : ∀ a ∈ l, Step.Spec a) : Step.Spec (Step.seq l) := by
  induction l with
  | nil => exact spec_skip
  | cons a as ih =>
    simp only [Step.seq]
    exact spec_andThen a _ (h a (by simp)) (ih (fun b hb => h b (by simp [hb])))

theorem spec_req1 (f g : CR → CR) (hf : ∀ s, (f s).remaining = s.remaining) (hg : ∀ s, (g s).remaining = s.remaining) :
    Step.Spec (Step.req1 f g) := spec_reqN 1 f g hf hg

/-- a step chosen by looking at the reader state -/
theorem spec_dep (f : CR → Step) (h : ∀ s', Step.Spec (f s')) : Step.Spec (fun s o => f s s o) :=
  fun s o => h s s o

theorem spec_readDictionaryPage (c : ChunkD) : Step.Spec (readDictionaryPage c) := by
  unfold readDictionaryPage
  refine spec_seq _ ?_
  intro a ha
  simp only [List.mem_cons, List.mem_nil_iff, or_false] at ha
  rcases ha with rfl | rfl | rfl
  · exact spec_req1 _ _ (fun _ => rfl) (fun _ => rfl)
  · exact spec_when _ _ (spec_req1 _ _ (fun _ => rfl) (fun _ => rfl))
  · exact spec_map _ (fun _ => rfl)

theorem spec_headerWindow (c : ChunkD) : Step.Spec (headerWindow c) := by
  intro s o
  unfold headerWindow
  by_cases h : (decide (c.mode = .fread) && !s.hasWindow) = true
  · simp only [h, if_true]; exact spec_req1 (fun s => { s with hasWindow := true }) id (fun _ => rfl) (fun _ => rfl) s o
  · simp only [h]; exact spec_skip s o

theorem spec_loadDictionaryPage (c : ChunkD) : Step.Spec (loadDictionaryPage c) := by
  unfold loadDictionaryPage
  refine spec_seq _ ?_
  intro a ha
  simp only [List.mem_cons, List.mem_nil_iff, or_false] at ha
  rcases ha with rfl | rfl | rfl | rfl
  · exact spec_headerWindow c
  · exact spec_when _ _ (spec_req1 _ _ (fun _ => rfl) (fun _ => rfl))
  · exact spec_when _ _ (spec_req1 _ _ (fun _ => rfl) (fun _ => rfl))
  · exact spec_readDictionaryPage c

theorem spec_dictIfNeeded (c : ChunkD) : Step.Spec (dictIfNeeded c) := by
  intro s o
  unfold dictIfNeeded
  by_cases h : (c.dict && !s.hasDict) = true
  · simp only [h, if_true]; exact spec_loadDictionaryPage c s o
  · simp only [h]; exact spec_skip s o

theorem spec_dictAtData (c : ChunkD) : Step.Spec (dictAtData c) := by
  intro s o
  unfold dictAtData
  by_cases h : (c.dictAtData && !s.hasDict) = true
  · simp only [h, if_true]; exact spec_loadDictionaryPage c s o
  · simp only [h]; exact spec_skip s o

theorem spec_decodeBuffers3 (rows : Nat) : Step.Spec (decodeBuffers3 rows) := by
  intro s o
  unfold decodeBuffers3
  by_cases h : rows > s.capacity
  · simp only [h, if_true]; exact spec_reqN 3 (fun s => { s with capacity := rows }) (fun s => { s with capacity := 0 }) (fun _ => rfl) (fun _ => rfl) s o
  · simp only [h]; exact spec_skip s o

theorem spec_levelBuffers2 (rows : Nat) : Step.Spec (levelBuffers2 rows) := by
  intro s o
  unfold levelBuffers2
  by_cases h : rows > s.capacity
  · simp only [h, if_true]; exact spec_reqN 2 (fun s => { s with capacity := rows }) (fun s => { s with capacity := 0 }) (fun _ => rfl) (fun _ => rfl) s o
  · simp only [h]; exact spec_skip s o

theorem spec_indicesBuffer (p : PageD) : Step.Spec (indicesBuffer p) := by
  intro s o
  unfold indicesBuffer
  by_cases h : (p.dictEncoded && decide (p.nonNull > s.indicesCap)) = true
  · simp only [h, if_true]
    exact spec_req1 (fun s => { s with indicesCap := p.nonNull }) (fun s => { s with indicesCap := 0 }) (fun _ => rfl) (fun _ => rfl) s o
  · simp only [h]; exact spec_skip s o

theorem spec_retirePage : Step.Spec retirePage := by
  intro s o
  by_cases h1 : s.hasPageData = true
  · by_cases h2 : s.retiredNum = s.retiredCap
    · have e : retirePage s o =
          Step.req1 (fun s => { s with retiredCap := if s.retiredCap > 0 then s.retiredCap * 2 else 4, retiredNum := s.retiredNum + 1 }) id s o := by
        simp [retirePage, h1, h2]
      rw [e]
      refine spec_req1 _ _ ?_ ?_ s o <;> intro _ <;> rfl
    · have e : retirePage s o = (.ok, { s with retiredNum := s.retiredNum + 1 }, o) := by simp [retirePage, h1, h2]
      rw [e]; exact ⟨rfl, [], rfl, by simp⟩
  · have e : retirePage s o = (.ok, { s with hasPageData := true }, o) := by simp [retirePage, h1]
    rw [e]; exact ⟨rfl, [], rfl, by simp⟩

theorem spec_pageReady (p : PageD) : Step.Spec (pageReady p) := spec_map _ (fun _ => rfl)

theorem spec_loadPageFread (c : ChunkD) (p : PageD) : Step.Spec (loadPageFread c p) := by
  unfold loadPageFread
  refine spec_seq _ ?_
  intro a ha
  simp only [List.mem_cons, List.mem_nil_iff, or_false] at ha
  rcases ha with rfl | rfl | rfl | rfl | rfl | rfl | rfl | rfl | rfl | rfl
  · exact spec_dictIfNeeded c
  · exact spec_headerWindow c
  · exact spec_dictAtData c
  · exact spec_req1 _ _ (fun _ => rfl) (fun _ => rfl)
  · exact spec_when _ _ (spec_req1 _ _ (fun _ => rfl) (fun _ => rfl))
  · exact spec_map _ (fun _ => rfl)
  · exact spec_decodeBuffers3 _
  · exact spec_indicesBuffer p
  · exact spec_when _ _ spec_retirePage
  · exact spec_pageReady p

theorem spec_loadPageMmap (c : ChunkD) (p : PageD) : Step.Spec (loadPageMmap c p) := by
  unfold loadPageMmap
  by_cases hz : (c.zeroCopy && !p.dictEncoded) = true
  · simp only [hz, if_true]
    refine spec_seq _ ?_
    intro a ha
    simp only [List.mem_cons, List.mem_nil_iff, or_false] at ha
    rcases ha with rfl | rfl | rfl | rfl | rfl
    · exact spec_dictIfNeeded c
    · exact spec_dictAtData c
    · exact spec_map _ (fun _ => rfl)
    · exact spec_levelBuffers2 _
    · exact spec_pageReady p
  · simp only [hz]
    refine spec_seq _ ?_
    intro a ha
    simp only [List.mem_cons, List.mem_nil_iff, or_false] at ha
    rcases ha with rfl | rfl | rfl | rfl | rfl | rfl | rfl | rfl
    · exact spec_dictIfNeeded c
    · exact spec_dictAtData c
    · exact spec_when _ _ (spec_req1 _ _ (fun _ => rfl) (fun _ => rfl))
    · refine spec_map _ (fun s => ?_); by_cases hv : s.view = true <;> simp [hv]
    · exact spec_decodeBuffers3 _
    · exact spec_indicesBuffer p
    · exact spec_when _ _ spec_retirePage
    · exact spec_pageReady p

theorem spec_loadPageD (c : ChunkD) (p : PageD) : Step.Spec (loadPageD c p) := by
  unfold loadPageD
  by_cases h : c.mode = .fread
  · simp only [h, if_true]; exact spec_loadPageFread c p
  · simp only [h]; exact spec_loadPageMmap c p

/-! ### what a successful page load establishes -/

def Step.Post (a : Step) (Q : CR → Prop) : Prop := ∀ s o, (a s o).1 = .ok → Q (a s o).2.1

theorem post_andThen_right (a b : Step) (Q : CR → Prop) (hb : Step.Post b Q) : Step.Post (Step.andThen a b) Q := by
  intro s o h
  unfold Step.andThen at h ⊢
  generalize a s o = r at h ⊢
  obtain ⟨st, s1, o1⟩ := r
  cases st with
  | ok => exact hb s1 o1 h
  | oom => simp at h
  | other => simp at h

theorem post_seq_cons (a : Step) (as : List Step) (Q : CR → Prop) (h : Step.Post (Step.seq as) Q) :
    Step.Post (Step.seq (a :: as)) Q := post_andThen_right a _ Q h

theorem post_seq_single (a : Step) (Q : CR → Prop) (h : Step.Post a Q) : Step.Post (Step.seq [a]) Q := by
  intro s o hok
  simp only [Step.seq, Step.andThen] at hok ⊢
  generalize hr : a s o = r at hok ⊢
  obtain ⟨st, s1, o1⟩ := r
  have := h s o
  rw [hr] at this
  cases st with
  | ok => simpa [Step.skip] using this rfl
  | oom => simp at hok
  | other => simp at hok

/-- the page is there: `page_loaded`, its row count, nothing of it consumed yet -/
def Ready (p : PageD) (s : CR) : Prop := s.loaded = true ∧ s.pageRows = p.rows ∧ s.pageRead = 0

theorem post_pageReady (p : PageD) : Step.Post (pageReady p) (Ready p) := by
  intro s o _; exact ⟨rfl, rfl, rfl⟩

theorem post_loadPageD (c : ChunkD) (p : PageD) : Step.Post (loadPageD c p) (Ready p) := by
  unfold loadPageD
  by_cases h : c.mode = .fread
  · simp only [h, if_true]
    unfold loadPageFread
    repeat (first | exact post_seq_single _ _ (post_pageReady p) | apply post_seq_cons)
  · simp only [h]
    unfold loadPageMmap
    by_cases hz : (c.zeroCopy && !p.dictEncoded) = true
    · simp only [hz, if_true]
      repeat (first | exact post_seq_single _ _ (post_pageReady p) | apply post_seq_cons)
    · simp only [hz]
      repeat (first | exact post_seq_single _ _ (post_pageReady p) | apply post_seq_cons)

/-! ### the page loop -/

/-- rows delivered, as a number (`none` = −1 = an error before anything was delivered) -/
def delivered : Option Nat → Nat
  | some n => n
  | none => 0

theorem takeRows_le_remaining (s : CR) (want : Nat) : takeRows s want ≤ s.remaining := by
  unfold takeRows; split <;> omega

theorem takeRows_le_want (s : CR) (want : Nat) : takeRows s want ≤ want := by
  unfold takeRows; split <;> omega

theorem readLoop_unfold (c : ChunkD) (pages : List PageD) (s : CR) (total max : Nat) (o : Oracle) :
    readLoop c pages s total max o =
      if total + takeRows s (max - total) ≥ max ∨ (consume s (takeRows s (max - total))).remaining = 0 then
        (some (total + takeRows s (max - total)), consume s (takeRows s (max - total)), pages, o)
      else
        match pages with
        | [] =>
          ((if total + takeRows s (max - total) > 0 then some (total + takeRows s (max - total)) else none),
           { consume s (takeRows s (max - total)) with loaded := false }, [], o)
        | p :: ps =>
          match loadPageD c p { consume s (takeRows s (max - total)) with loaded := false } o with
          | (.ok, s2, o2) => readLoop c ps s2 (total + takeRows s (max - total)) max o2
          | (_, s2, o2) =>
            ((if total + takeRows s (max - total) > 0 then some (total + takeRows s (max - total)) else none), s2, p :: ps, o2) := by
  cases pages with
  | nil => rw [readLoop]
  | cons p ps => rw [readLoop]; rfl

/-- Conservation: whatever happens — pages loaded, a load refused half-way, an error — the rows the call reports
as delivered are exactly the rows by which `values_remaining` went down (on top of the `total` it started with). -/
theorem readLoop_conserves (c : ChunkD) (pages : List PageD) (s : CR) (total max : Nat) (o : Oracle) :
    delivered (readLoop c pages s total max o).1 + (readLoop c pages s total max o).2.1.remaining = total + s.remaining ∧
    ((readLoop c pages s total max o).1 = none → total = 0) := by
  induction pages generalizing s total o with
  | nil =>
    rw [readLoop_unfold]
    have h1 := takeRows_le_remaining s (max - total)
    split
    · simp only [delivered, consume]; constructor
      · omega
      · intro h; cases h
    · simp only
      split
      · simp only [delivered, consume]; constructor
        · omega
        · intro h; cases h
      · simp only [delivered, consume]; constructor
        · omega
        · intro _; omega
  | cons p ps ih =>
    rw [readLoop_unfold]
    have h1 := takeRows_le_remaining s (max - total)
    split
    · simp only [delivered, consume]; constructor
      · omega
      · intro h; cases h
    · simp only
      have hk := (spec_loadPageD c p { consume s (takeRows s (max - total)) with loaded := false } o).1
      generalize loadPageD c p { consume s (takeRows s (max - total)) with loaded := false } o = r at hk
      obtain ⟨st, s2, o2⟩ := r
      simp only [consume] at hk
      cases st with
      | ok =>
        simp only
        obtain ⟨e1, e2⟩ := ih s2 (total + takeRows s (max - total)) o2
        constructor
        · rw [e1, hk]; omega
        · intro hn; have := e2 hn; omega
      | oom =>
        simp only
        split
        · simp only [delivered]; constructor
          · rw [hk]; omega
          · intro h; cases h
        · simp only [delivered]; constructor
          · rw [hk]; omega
          · intro _; omega
      | other =>
        simp only
        split
        · simp only [delivered]; constructor
          · rw [hk]; omega
          · intro h; cases h
        · simp only [delivered]; constructor
          · rw [hk]; omega
          · intro _; omega

/-- carquet_column_read_batch: the count returned is the truth about `values_remaining` -/
theorem readBatch_conserves (c : ChunkD) (pages : List PageD) (s : CR) (max : Nat) (o : Oracle) :
    delivered (readBatch c pages s max o).1 + (readBatch c pages s max o).2.1.remaining = s.remaining := by
  unfold readBatch
  by_cases h : s.remaining = 0
  · simp [h, delivered]
  · simp only [h, if_false]
    have := (readLoop_conserves c pages { s with retiredNum := 0 } 0 max o).1
    simpa using this

theorem skipLoop_conserves (c : ChunkD) (fuel : Nat) (pages : List PageD) (s : CR) (total n : Nat) (o : Oracle) :
    (skipLoop c fuel pages s total n o).1 + (skipLoop c fuel pages s total n o).2.1.remaining = total + s.remaining := by
  induction fuel generalizing pages s total o with
  | zero => simp [skipLoop]
  | succ fuel ih =>
    simp only [skipLoop]
    split
    · rfl
    · have hc := readBatch_conserves c pages s (min (n - total) 1024) o
      generalize readBatch c pages s (min (n - total) 1024) o = r at hc
      obtain ⟨res, s2, ps2, o2⟩ := r
      cases res with
      | none => simp only [delivered] at hc ⊢; omega
      | some got =>
        simp only [delivered] at hc ⊢
        split
        · simp only; omega
        · rw [ih]; omega

/-- carquet_column_skip: the reader stands exactly as many values further as the call says it skipped — also when
the temporary buffer or a page could not be allocated and the call returns less than was asked for -/
theorem skip_conserves (c : ChunkD) (pages : List PageD) (s : CR) (n : Nat) (o : Oracle) :
    (skip c pages s n o).1 + (skip c pages s n o).2.1.remaining = s.remaining := by
  unfold skip
  split
  · simp
  · split
    · simp
    · have := skipLoop_conserves c n pages s 0 n o.rest
      simpa using this

/-! ### everything asked for is delivered unless a request was refused -/

/-- rows of the loaded page that have not been handed out yet -/
def avail (s : CR) : Nat := if s.loaded && decide (s.pageRead < s.pageRows) then s.pageRows - s.pageRead else 0

/-- the loaded page and the pages still to come hold exactly the values the chunk still owes -/
def Covers (pages : List PageD) (s : CR) : Prop := avail s + (pages.map (·.rows)).sum = s.remaining

theorem takeRows_eq (s : CR) (want : Nat) : takeRows s want = min want (min (avail s) s.remaining) := by
  unfold takeRows avail
  split <;> simp

theorem full_aux (total max rem av t : Nat) (ht : total ≤ max) (h1 : t = min (max - total) (min av rem)) (hav : av ≤ rem)
    (hd : total + t ≥ max ∨ rem - t = 0) : total + t = min max (total + rem) := by
  omega

theorem full_aux2 (total max rem av t : Nat) (h1 : t = min (max - total) (min av rem)) (hav : av ≤ rem)
    (hn : ¬(total + t ≥ max ∨ rem - t = 0)) : t = av := by
  omega

theorem readLoop_full (c : ChunkD) (max : Nat) (pages : List PageD) (s : CR) (total : Nat) (o : Oracle)
    (hc : Covers pages s) (ht : total ≤ max) :
    ∃ pre : List Bool, o = pre ++ (readLoop c pages s total max o).2.2.2 ∧
      ((∀ b ∈ pre, b = true) → (readLoop c pages s total max o).1 = some (min max (total + s.remaining))) := by
  induction pages generalizing s total o with
  | nil =>
    rw [readLoop_unfold]
    have ht1 := takeRows_eq s (max - total)
    have hcov : avail s = s.remaining := by simpa [Covers] using hc
    split
    · rename_i hd
      refine ⟨[], rfl, fun _ => ?_⟩
      simp only [consume] at hd
      exact congrArg some (full_aux total max s.remaining (avail s) _ ht ht1 (by omega) hd)
    · rename_i hn
      simp only [consume] at hn
      have := full_aux2 total max s.remaining (avail s) _ ht1 (by omega) hn
      exfalso; apply hn; right; omega
  | cons p ps ih =>
    rw [readLoop_unfold]
    have ht1 := takeRows_eq s (max - total)
    have hcov : avail s + (p.rows + (ps.map (·.rows)).sum) = s.remaining := by simpa [Covers] using hc
    split
    · rename_i hd
      refine ⟨[], rfl, fun _ => ?_⟩
      simp only [consume] at hd
      exact congrArg some (full_aux total max s.remaining (avail s) _ ht ht1 (by omega) hd)
    · rename_i hn
      simp only [consume] at hn
      simp only
      have ht2 : takeRows s (max - total) = avail s := full_aux2 total max s.remaining (avail s) _ ht1 (by omega) hn
      have ht3 : total + takeRows s (max - total) ≤ max := by omega
      obtain ⟨hrem, pre1, e1, i1⟩ := spec_loadPageD c p { consume s (takeRows s (max - total)) with loaded := false } o
      have hpost := post_loadPageD c p { consume s (takeRows s (max - total)) with loaded := false } o
      generalize loadPageD c p { consume s (takeRows s (max - total)) with loaded := false } o = r at hrem e1 i1 hpost
      obtain ⟨st, s2, o2⟩ := r
      simp only [consume] at hrem e1 i1 hpost
      cases st with
      | ok =>
        simp only
        obtain ⟨hl, hr, hz⟩ := hpost rfl
        have hav2 : avail s2 = p.rows := by
          unfold avail; rw [hl, hr, hz]
          by_cases hp0 : 0 < p.rows
          · simp [hp0]
          · simp [hp0]; omega
        have hcov2 : Covers ps s2 := by
          unfold Covers; rw [hav2, hrem]; omega
        obtain ⟨pre2, e2, i2⟩ := ih s2 (total + takeRows s (max - total)) o2 hcov2 ht3
        refine ⟨pre1 ++ pre2, by rw [List.append_assoc, ← e2]; exact e1, fun hall => ?_⟩
        rw [i2 (fun b hb => hall b (List.mem_append.mpr (Or.inr hb))), hrem]
        have : total + takeRows s (max - total) + (s.remaining - takeRows s (max - total)) = total + s.remaining := by omega
        rw [this]
      | oom =>
        simp only
        refine ⟨pre1, e1, fun hall => ?_⟩
        have := i1.mpr hall
        cases this
      | other =>
        simp only
        refine ⟨pre1, e1, fun hall => ?_⟩
        have := i1.mpr hall
        cases this

theorem readBatch_full (c : ChunkD) (pages : List PageD) (s : CR) (max : Nat) (o : Oracle) (hc : Covers pages s) :
    ∃ pre : List Bool, o = pre ++ (readBatch c pages s max o).2.2.2 ∧
      ((∀ b ∈ pre, b = true) → (readBatch c pages s max o).1 = some (min max s.remaining)) := by
  unfold readBatch
  by_cases h : s.remaining = 0
  · simp only [h, if_true]
    exact ⟨[], rfl, fun _ => by simp⟩
  · simp only [h, if_false]
    have hc' : Covers pages { s with retiredNum := 0 } := by simpa [Covers, avail] using hc
    obtain ⟨pre, e, i⟩ := readLoop_full c max pages { s with retiredNum := 0 } 0 o hc' (Nat.zero_le _)
    exact ⟨pre, e, fun hall => by simpa using i hall⟩

end Carquet.Impl.Alloc.Ext
