import Carquet.Impl.WriterSink
import Carquet.Proofs.Sink
import Carquet.Proofs.WriterLayout
/-
Helper lemmas for C18 (writer on a failing stream, Impl/WriterSink.lean).

For every function `f` of the model four facts are proved:
  `_mono`   the error indicator is sticky through `f`;
  `_fw`     `f` reports FILE_WRITE only when the error indicator is set afterwards;
  `_good`   as long as the error indicator is clear after `f`, the state is the one of the healthy
            writer (`Good`: nothing failed, nothing carried over, the stream holds exactly the
            writer's `out`), the writer state is the healthy model's next state and the status the
            healthy model's status;
  `_quiet`  in an environment that never fails the error indicator stays clear.
-/
namespace Carquet.Proofs.WriterSink
open Carquet.Impl.Writer Carquet.Impl.WriterSink
open Carquet.Impl.Sink (Stream Outcome)
open Carquet.Proofs.Sink (fwrite_err fwrite_ret fwrite_total fflush_err fflush_ret fflush_ok)

variable {ε : Type}

def NoFail (l : List Outcome) : Prop := ∀ oc ∈ l, oc.isFail = false

theorem noFail_append (l : List Outcome) (oc : Outcome) (h : NoFail l) (ho : oc.isFail = false) :
    NoFail (l ++ [oc]) := by
  intro o hm
  rcases List.mem_append.mp hm with h1 | h1
  · exact h o h1
  · simp at h1; subst h1; exact ho

/-- an environment that never makes a stream operation fail -/
def Quiet (E : Env ε) : Prop := ∀ e s op, (E.next e s op).1.isFail = false

/-- the row group in progress has one column writer per column -/
def RgWF (w : W) : Prop := ∀ cws, w.rg = some cws → cws.length = w.cols.length

/-- nothing has failed so far: the stream holds exactly what the healthy writer has written -/
structure Good (x : SW ε) : Prop where
  err : x.s.err = false
  bytes : x.s.delivered ++ x.s.pending = x.w.out.flatten
  log : NoFail x.log
  rg : RgWF x.w

/-! ### the three stream calls -/

theorem swrite_err (E : Env ε) (x : SW ε) (d : Bytes) :
    (swrite E x d).1.s.err = (x.s.err || (E.next x.e x.s (.write d)).1.isFail) := by
  simp [swrite, fwrite_err]

theorem swrite_ret (E : Env ε) (x : SW ε) (d : Bytes) :
    (swrite E x d).2 = !(E.next x.e x.s (.write d)).1.isFail := by
  simp [swrite, fwrite_ret]

theorem swrite_mono (E : Env ε) (x : SW ε) (d : Bytes) (h : x.s.err = true) :
    (swrite E x d).1.s.err = true := by
  rw [swrite_err, h]; rfl

theorem swrite_fail (E : Env ε) (x : SW ε) (d : Bytes) (h : (swrite E x d).2 = false) :
    (swrite E x d).1.s.err = true := by
  rw [swrite_ret] at h
  rw [swrite_err]
  have : (E.next x.e x.s (.write d)).1.isFail = true := by simpa using h
  simp [this]

theorem swrite_clear (E : Env ε) (x : SW ε) (d : Bytes) (h : (swrite E x d).1.s.err = false) :
    x.s.err = false ∧ (swrite E x d).2 = true ∧
    (swrite E x d).1.s.delivered ++ (swrite E x d).1.s.pending = x.s.delivered ++ x.s.pending ++ d ∧
    (NoFail x.log → NoFail (swrite E x d).1.log) := by
  rw [swrite_err] at h
  obtain ⟨h1, h2⟩ := Bool.or_eq_false_iff.mp h
  refine ⟨h1, by rw [swrite_ret, h2]; rfl, ?_, fun hl => noFail_append _ _ hl h2⟩
  exact fwrite_total x.s d _ h2

theorem swrite_quiet (E : Env ε) (hE : Quiet E) (x : SW ε) (d : Bytes) (h : x.s.err = false) :
    (swrite E x d).1.s.err = false := by
  rw [swrite_err, h, hE]; rfl

theorem sflush_err (E : Env ε) (x : SW ε) :
    (sflush E x).1.s.err = (x.s.err || (E.next x.e x.s .flush).1.isFail) := by
  simp [sflush, fflush_err]

theorem sflush_mono (E : Env ε) (x : SW ε) (h : x.s.err = true) : (sflush E x).1.s.err = true := by
  rw [sflush_err, h]; rfl

theorem sflush_clear (E : Env ε) (x : SW ε) (h : (sflush E x).1.s.err = false) :
    x.s.err = false ∧ (sflush E x).2 = true ∧
    (sflush E x).1.s.delivered = x.s.delivered ++ x.s.pending ∧ (sflush E x).1.s.pending = [] ∧
    (NoFail x.log → NoFail (sflush E x).1.log) := by
  rw [sflush_err] at h
  obtain ⟨h1, h2⟩ := Bool.or_eq_false_iff.mp h
  have hr : (Impl.Sink.fflush x.s (E.next x.e x.s .flush).1).2 = true := by rw [fflush_ret, h2]; rfl
  obtain ⟨f1, f2⟩ := fflush_ok x.s _ hr
  exact ⟨h1, hr, f1, f2, fun hl => noFail_append _ _ hl h2⟩

theorem sflush_quiet (E : Env ε) (hE : Quiet E) (x : SW ε) (h : x.s.err = false) :
    (sflush E x).1.s.err = false := by
  rw [sflush_err, h, hE]; rfl

theorem sclose_err (E : Env ε) (x : SW ε) :
    (sclose E x).1.s.err = (x.s.err || (E.next x.e x.s .close).1.isFail) := by
  simp [sclose, Impl.Sink.fclose, fflush_err]

theorem sclose_mono (E : Env ε) (x : SW ε) (h : x.s.err = true) : (sclose E x).1.s.err = true := by
  rw [sclose_err, h]; rfl

theorem sclose_ok (E : Env ε) (x : SW ε) (h : (sclose E x).2 = true) :
    (sclose E x).1.s.err = x.s.err ∧
    (sclose E x).1.s.delivered = x.s.delivered ++ x.s.pending ∧ (sclose E x).1.s.pending = [] ∧
    (NoFail x.log → NoFail (sclose E x).1.log) := by
  have hr : (Impl.Sink.fflush x.s (E.next x.e x.s .close).1).2 = true := h
  have h2 : (E.next x.e x.s .close).1.isFail = false := by
    rw [fflush_ret] at hr; simpa using hr
  obtain ⟨f1, f2⟩ := fflush_ok x.s _ hr
  refine ⟨by rw [sclose_err, h2]; simp, f1, f2, fun hl => noFail_append _ _ hl h2⟩

theorem sclose_quiet (E : Env ε) (hE : Quiet E) (x : SW ε) (h : x.s.err = false) :
    (sclose E x).1.s.err = false ∧ (sclose E x).2 = true := by
  refine ⟨by rw [sclose_err, h, hE]; rfl, ?_⟩
  show (Impl.Sink.fflush x.s (E.next x.e x.s .close).1).2 = true
  rw [fflush_ret, hE]; rfl

/-! ### facts about the healthy writer -/

theorem ensureHeader_out (w : W) :
    (ensureHeader w).out = if w.headerWritten then w.out else w.out ++ [magic] := by
  unfold ensureHeader; cases w.headerWritten <;> rfl

theorem ensureHeader_rg (w : W) : (ensureHeader w).rg = w.rg ∧ (ensureHeader w).cols = w.cols := by
  unfold ensureHeader; cases w.headerWritten <;> exact ⟨rfl, rfl⟩

theorem ensureHeader_idem (w : W) (h : w.headerWritten = true) : ensureHeader w = w := by
  unfold ensureHeader; simp [h]

theorem ensureHeader_written (w : W) : (ensureHeader w).headerWritten = true := by
  unfold ensureHeader
  cases h : w.headerWritten <;> simp [h]

theorem rgWF_ensureHeader (w : W) (h : RgWF w) : RgWF (ensureHeader w) := by
  intro cws hc
  rw [(ensureHeader_rg w).1] at hc
  rw [(ensureHeader_rg w).2]
  exact h cws hc

theorem rgWF_ensureRowGroup (w : W) (h : RgWF w) : RgWF (ensureRowGroup w) := by
  unfold ensureRowGroup
  cases hr : w.rg with
  | some cws => simpa [hr] using h
  | none =>
    intro cws hc
    simp only at hc
    have := Option.some.inj hc
    subst this
    simp

theorem ensureRowGroup_out (w : W) : (ensureRowGroup w).out = w.out := by
  unfold ensureRowGroup; cases w.rg <;> rfl

theorem ensureRowGroup_cols (w : W) : (ensureRowGroup w).cols = w.cols := by
  unfold ensureRowGroup; cases w.rg <;> rfl

theorem ensureRowGroup_some (w : W) : ∃ cws, (ensureRowGroup w).rg = some cws := by
  unfold ensureRowGroup
  cases hr : w.rg with
  | some cws => exact ⟨cws, by simp [hr]⟩
  | none => exact ⟨_, rfl⟩

/-- what `write_batch` leaves in `out`, and that it keeps the row group well formed -/
theorem writeBatch_spec (D : Deps) (w : W) (b : Batch) (h : RgWF w) (c : Col) (hc : w.cols[b.col]? = some c) :
    (writeBatch D w b).1.out = (ensureHeader w).out ∧ RgWF (writeBatch D w b).1 ∧
    (writeBatch D w b).2 ≠ .fileWrite ∧ (writeBatch D w b).2 ≠ .invalidArgument := by
  have hE := rgWF_ensureRowGroup _ (rgWF_ensureHeader w h)
  obtain ⟨cws, hcws⟩ := ensureRowGroup_some (ensureHeader w)
  have hlen : cws.length = w.cols.length := by
    have := hE cws hcws
    rw [ensureRowGroup_cols, (ensureHeader_rg w).2] at this
    exact this
  have hlt : b.col < w.cols.length := by
    rcases Nat.lt_or_ge b.col w.cols.length with h1 | h1
    · exact h1
    · rw [List.getElem?_eq_none h1] at hc; cases hc
  have hcw : cws[b.col]? = some cws[b.col] := List.getElem?_eq_getElem (by omega)
  unfold writeBatch
  simp only [hc, hcws, hcw]
  cases hcb : colWriteBatch D w.codec (targetPageSize w) c cws[b.col] b with
  | none =>
    simp only
    exact ⟨ensureRowGroup_out _, hE, by simp, by simp⟩
  | some cw' =>
    simp only
    refine ⟨ensureRowGroup_out _, ?_, by simp, by simp⟩
    intro cws' hc'
    simp only at hc'
    have := Option.some.inj hc'
    subst this
    simp only [setAt, List.length_set]
    rw [ensureRowGroup_cols, (ensureHeader_rg w).2]
    exact hlen

theorem writeBatch_ne_fw (D : Deps) (w : W) (b : Batch) : (writeBatch D w b).2 ≠ .fileWrite := by
  unfold writeBatch
  split
  · simp
  · split
    · simp
    · split
      · simp
      · split <;> simp

/-- a call refused for its arguments leaves the writer untouched -/
theorem writeBatch_invalid_state (D : Deps) (w : W) (b : Batch) (h : (writeBatch D w b).2 = .invalidArgument) :
    (writeBatch D w b).1 = w := by
  unfold writeBatch at h ⊢
  split
  · rfl
  · rename_i c hc
    simp only [hc] at h
    split at h
    · simp at h
    · split at h
      · simp at h
      · split at h <;> simp at h

theorem writeBatch_invalid (D : Deps) (w : W) (b : Batch) (hc : w.cols[b.col]? = none) :
    writeBatch D w b = (w, .invalidArgument) := by
  unfold writeBatch; simp [hc]

theorem flushRowGroup_status (D : Deps) (w : W) :
    (flushRowGroup D w).2 ≠ .fileWrite ∧ (flushRowGroup D w).2 ≠ .invalidArgument := by
  unfold flushRowGroup
  cases w.rg with
  | none => simp
  | some cws =>
    simp only
    cases finalizeCols D w w.cols cws w.fileOffset with
    | none => simp
    | some p => simp

theorem rgWF_flushRowGroup (D : Deps) (w : W) (h : RgWF w) : RgWF (flushRowGroup D w).1 := by
  unfold flushRowGroup
  cases hr : w.rg with
  | none => simpa using h
  | some cws =>
    simp only
    cases finalizeCols D w w.cols cws w.fileOffset with
    | none => simpa using h
    | some p => intro cws' hc'; simp at hc'

theorem commitRowGroup_zero (D : Deps) (w : W) (cws : List ColW) (bytes : Bytes) (metas : List ChunkMeta)
    (hr : w.rg = some cws) (hf : finalizeCols D w w.cols cws w.fileOffset = some (bytes, metas)) :
    flushRowGroup D w = (commitRowGroup D w cws bytes metas, .ok) := by
  unfold flushRowGroup commitRowGroup
  simp [hr, hf]

theorem flushedCols_length (D : Deps) (w : W) : ∀ (cols : List Col) (cws : List ColW),
    (flushedCols D w cols cws).length = cws.length := by
  intro cols
  induction cols with
  | nil => intro cws; simp [flushedCols]
  | cons c cs ih =>
    intro cws
    cases cws with
    | nil => simp [flushedCols]
    | cons cw cws =>
      simp only [flushedCols]
      cases flushPage D w.codec c cw with
      | none => simp
      | some cw' => simp [ih cws]

/-! ### `ensure_header_written` -/

theorem ensureHeaderS_mono (E : Env ε) (x : SW ε) (h : x.s.err = true) : (ensureHeaderS E x).1.s.err = true := by
  unfold ensureHeaderS
  split
  · exact h
  · split
    · exact swrite_mono E x magic h
    · exact swrite_mono E x magic h

theorem ensureHeaderS_fw (E : Env ε) (x : SW ε) (h : (ensureHeaderS E x).2 ≠ .ok) :
    (ensureHeaderS E x).1.s.err = true ∧ (ensureHeaderS E x).2 = .fileWrite := by
  unfold ensureHeaderS at h ⊢
  split
  · rename_i hw; simp [hw] at h
  · rename_i hw
    by_cases hr : (swrite E x magic).2 = true
    · simp [hw, hr] at h
    · simp only [hr]
      exact ⟨swrite_fail E x magic (by simpa using hr), by simp⟩

theorem ensureHeaderS_good (E : Env ε) (x : SW ε) (g : Good x) (h : (ensureHeaderS E x).1.s.err = false) :
    Good (ensureHeaderS E x).1 ∧ (ensureHeaderS E x).1.w = ensureHeader x.w ∧ (ensureHeaderS E x).2 = .ok := by
  unfold ensureHeaderS at h ⊢
  by_cases hw : x.w.headerWritten = true
  · simp only [hw, if_true] at h ⊢
    exact ⟨g, (ensureHeader_idem x.w hw).symm, trivial⟩
  · have hw' : x.w.headerWritten = false := by simpa using hw
    simp only [hw', Bool.false_eq_true, if_false] at h ⊢
    by_cases hr : (swrite E x magic).2 = true
    · simp only [hr, if_true] at h ⊢
      obtain ⟨_, _, c3, c4⟩ := swrite_clear E x magic h
      refine ⟨⟨h, ?_, c4 g.log, rgWF_ensureHeader _ g.rg⟩, by simp⟩
      show (swrite E x magic).1.s.delivered ++ (swrite E x magic).1.s.pending = (ensureHeader x.w).out.flatten
      rw [c3, g.bytes, ensureHeader_out, hw']
      simp
    · simp only [hr] at h
      have := swrite_fail E x magic (by simpa using hr)
      simp only [Bool.false_eq_true, if_false] at h
      rw [this] at h; cases h

theorem ensureHeaderS_quiet (E : Env ε) (hE : Quiet E) (x : SW ε) (h : x.s.err = false) :
    (ensureHeaderS E x).1.s.err = false := by
  unfold ensureHeaderS
  split
  · exact h
  · split
    · exact swrite_quiet E hE x magic h
    · exact swrite_quiet E hE x magic h

/-- a failed header write leaves the writer as it was: the next call tries again -/
theorem ensureHeaderS_retry (E : Env ε) (x : SW ε) (h : (ensureHeaderS E x).2 ≠ .ok) :
    (ensureHeaderS E x).1.w = x.w := by
  unfold ensureHeaderS at h ⊢
  split
  · rfl
  · by_cases hr : (swrite E x magic).2 = true
    · rename_i hw; simp [hw, hr] at h
    · simp only [hr]; rfl

/-! ### `flush_row_group` -/

theorem flushRowGroupS_mono (D : Deps) (E : Env ε) (x : SW ε) (h : x.s.err = true) :
    (flushRowGroupS D E x).1.s.err = true := by
  unfold flushRowGroupS
  split
  · exact h
  · split
    · exact h
    · split
      · split
        · exact swrite_mono E x _ h
        · exact swrite_mono E x _ h
      · exact h

theorem flushRowGroupS_fw (D : Deps) (E : Env ε) (x : SW ε) (h : (flushRowGroupS D E x).2 = .fileWrite) :
    (flushRowGroupS D E x).1.s.err = true := by
  unfold flushRowGroupS at h ⊢
  split
  · rename_i hr; simp [hr] at h
  · rename_i cws hr
    split
    · rename_i hf; simp [hr, hf] at h
    · rename_i bytes metas hf
      simp only [hr, hf] at h
      by_cases hb : bytes.length > 0
      · simp only [hb, if_true] at h ⊢
        by_cases hw : (swrite E x bytes).2 = true
        · simp [hw] at h
        · simp only [hw]
          exact swrite_fail E x bytes (by simpa using hw)
      · simp [hb] at h

theorem flushRowGroupS_good (D : Deps) (E : Env ε) (x : SW ε) (g : Good x)
    (h : (flushRowGroupS D E x).1.s.err = false) :
    Good (flushRowGroupS D E x).1 ∧ (flushRowGroupS D E x).1.w = (flushRowGroup D x.w).1 ∧
    (flushRowGroupS D E x).2 = (flushRowGroup D x.w).2 := by
  unfold flushRowGroupS at h ⊢
  cases hr : x.w.rg with
  | none =>
    simp only [hr] at h ⊢
    have : flushRowGroup D x.w = (x.w, .ok) := by unfold flushRowGroup; simp [hr]
    rw [this]; exact ⟨g, rfl, rfl⟩
  | some cws =>
    simp only [hr] at h ⊢
    cases hf : finalizeCols D x.w x.w.cols cws x.w.fileOffset with
    | none =>
      simp only [hf] at h ⊢
      have : flushRowGroup D x.w = (x.w, .other) := by unfold flushRowGroup; simp [hr, hf]
      rw [this]; exact ⟨g, rfl, rfl⟩
    | some p =>
      obtain ⟨bytes, metas⟩ := p
      simp only [hf] at h ⊢
      have hfl := commitRowGroup_zero D x.w cws bytes metas hr hf
      have hwf : RgWF (commitRowGroup D x.w cws bytes metas) := by
        have := rgWF_flushRowGroup D x.w g.rg
        rw [hfl] at this; exact this
      rw [hfl]
      by_cases hb : bytes.length > 0
      · simp only [hb, if_true] at h ⊢
        by_cases hw : (swrite E x bytes).2 = true
        · simp only [hw, if_true] at h ⊢
          obtain ⟨_, _, c3, c4⟩ := swrite_clear E x bytes h
          refine ⟨⟨h, ?_, c4 g.log, ?_⟩, trivial, trivial⟩
          · show (swrite E x bytes).1.s.delivered ++ (swrite E x bytes).1.s.pending =
              (commitRowGroup D x.w cws bytes metas).out.flatten
            rw [c3, g.bytes]
            simp [commitRowGroup, hb]
          · show RgWF (commitRowGroup D x.w cws bytes metas)
            exact hwf
        · simp only [hw] at h
          have := swrite_fail E x bytes (by simpa using hw)
          simp only [Bool.false_eq_true, if_false] at h
          rw [this] at h; cases h
      · simp only [hb, if_false] at h ⊢
        refine ⟨⟨h, ?_, g.log, ?_⟩, trivial, trivial⟩
        · show x.s.delivered ++ x.s.pending = (commitRowGroup D x.w cws bytes metas).out.flatten
          rw [g.bytes]
          simp [commitRowGroup, hb]
        · show RgWF (commitRowGroup D x.w cws bytes metas)
          exact hwf

theorem flushRowGroupS_quiet (D : Deps) (E : Env ε) (hE : Quiet E) (x : SW ε) (h : x.s.err = false) :
    (flushRowGroupS D E x).1.s.err = false := by
  unfold flushRowGroupS
  split
  · exact h
  · split
    · exact h
    · split
      · split
        · exact swrite_quiet E hE x _ h
        · exact swrite_quiet E hE x _ h
      · exact h

/-! ### `carquet_writer_write_batch` -/

theorem writeBatchS_mono (D : Deps) (E : Env ε) (x : SW ε) (b : Batch) (h : x.s.err = true) :
    (writeBatchS D E x b).1.s.err = true := by
  unfold writeBatchS
  split
  · exact h
  · split
    · exact ensureHeaderS_mono E x h
    · exact ensureHeaderS_mono E x h

theorem writeBatchS_fw (D : Deps) (E : Env ε) (x : SW ε) (b : Batch)
    (h : (writeBatchS D E x b).2 = .fileWrite) : (writeBatchS D E x b).1.s.err = true := by
  unfold writeBatchS at h ⊢
  split
  · rename_i hc; simp [hc] at h
  · rename_i c hc
    simp only [hc] at h
    by_cases ho : (ensureHeaderS E x).2 = .ok
    · simp only [ho, if_true] at h
      exact absurd h (writeBatch_ne_fw D x.w b)
    · simp only [ho, if_false]
      exact (ensureHeaderS_fw E x ho).1

theorem writeBatchS_good (D : Deps) (E : Env ε) (x : SW ε) (b : Batch) (g : Good x)
    (h : (writeBatchS D E x b).1.s.err = false) :
    Good (writeBatchS D E x b).1 ∧ (writeBatchS D E x b).1.w = (writeBatch D x.w b).1 ∧
    (writeBatchS D E x b).2 = (writeBatch D x.w b).2 := by
  unfold writeBatchS at h ⊢
  cases hc : x.w.cols[b.col]? with
  | none =>
    simp only [hc] at h ⊢
    rw [writeBatch_invalid D x.w b hc]
    exact ⟨g, rfl, rfl⟩
  | some c =>
    simp only [hc] at h ⊢
    by_cases ho : (ensureHeaderS E x).2 = .ok
    · simp only [ho, if_true] at h ⊢
      obtain ⟨g1, w1, _⟩ := ensureHeaderS_good E x g h
      obtain ⟨o1, o2, _, _⟩ := writeBatch_spec D x.w b g.rg c hc
      refine ⟨⟨h, ?_, g1.log, o2⟩, by simp⟩
      show (ensureHeaderS E x).1.s.delivered ++ (ensureHeaderS E x).1.s.pending = (writeBatch D x.w b).1.out.flatten
      rw [g1.bytes, w1, o1]
    · simp only [ho, if_false] at h
      have := (ensureHeaderS_fw E x ho).1
      rw [this] at h; cases h

theorem writeBatchS_quiet (D : Deps) (E : Env ε) (hE : Quiet E) (x : SW ε) (b : Batch) (h : x.s.err = false) :
    (writeBatchS D E x b).1.s.err = false := by
  unfold writeBatchS
  split
  · exact h
  · split
    · exact ensureHeaderS_quiet E hE x h
    · exact ensureHeaderS_quiet E hE x h

/-! ### `carquet_writer_new_row_group` -/

theorem newRowGroupS_mono (D : Deps) (E : Env ε) (x : SW ε) (h : x.s.err = true) :
    (newRowGroupS D E x).1.s.err = true := by
  unfold newRowGroupS
  split
  · exact flushRowGroupS_mono D E _ (ensureHeaderS_mono E x h)
  · exact ensureHeaderS_mono E x h

theorem newRowGroupS_fw (D : Deps) (E : Env ε) (x : SW ε) (h : (newRowGroupS D E x).2 = .fileWrite) :
    (newRowGroupS D E x).1.s.err = true := by
  unfold newRowGroupS at h ⊢
  by_cases ho : (ensureHeaderS E x).2 = .ok
  · simp only [ho, if_true] at h ⊢
    exact flushRowGroupS_fw D E _ h
  · simp only [ho, if_false]
    exact (ensureHeaderS_fw E x ho).1

theorem newRowGroupS_good (D : Deps) (E : Env ε) (x : SW ε) (g : Good x)
    (h : (newRowGroupS D E x).1.s.err = false) :
    Good (newRowGroupS D E x).1 ∧ (newRowGroupS D E x).1.w = (flushRowGroup D (ensureHeader x.w)).1 ∧
    (newRowGroupS D E x).2 = (flushRowGroup D (ensureHeader x.w)).2 := by
  unfold newRowGroupS at h ⊢
  by_cases ho : (ensureHeaderS E x).2 = .ok
  · simp only [ho, if_true] at h ⊢
    have h1 : (ensureHeaderS E x).1.s.err = false := by
      cases he : (ensureHeaderS E x).1.s.err with
      | false => rfl
      | true => rw [flushRowGroupS_mono D E _ he] at h; cases h
    obtain ⟨g1, w1, _⟩ := ensureHeaderS_good E x g h1
    have := flushRowGroupS_good D E _ g1 h
    rw [w1] at this
    exact this
  · simp only [ho, if_false] at h
    have := (ensureHeaderS_fw E x ho).1
    rw [this] at h; cases h

theorem newRowGroupS_quiet (D : Deps) (E : Env ε) (hE : Quiet E) (x : SW ε) (h : x.s.err = false) :
    (newRowGroupS D E x).1.s.err = false := by
  unfold newRowGroupS
  split
  · exact flushRowGroupS_quiet D E hE _ (ensureHeaderS_quiet E hE x h)
  · exact ensureHeaderS_quiet E hE x h

/-! ### one call -/

theorem stepS_mono (D : Deps) (E : Env ε) (x : SW ε) (op : Op) (h : x.s.err = true) :
    (stepS D E x op).1.s.err = true := by
  cases op with
  | batch b => exact writeBatchS_mono D E x b h
  | newRowGroup => exact newRowGroupS_mono D E x h

theorem stepS_clear (D : Deps) (E : Env ε) (x : SW ε) (op : Op) (h : (stepS D E x op).1.s.err = false) :
    x.s.err = false := by
  cases he : x.s.err with
  | false => rfl
  | true => rw [stepS_mono D E x op he] at h; cases h

theorem stepS_good (D : Deps) (E : Env ε) (x : SW ε) (op : Op) (g : Good x)
    (h : (stepS D E x op).1.s.err = false) :
    Good (stepS D E x op).1 ∧ (stepS D E x op).1.w = (step D x.w op).1 ∧
    (stepS D E x op).2 = (step D x.w op).2 := by
  cases op with
  | batch b => exact writeBatchS_good D E x b g h
  | newRowGroup => exact newRowGroupS_good D E x g h

theorem stepS_fw (D : Deps) (E : Env ε) (x : SW ε) (op : Op) (h : (stepS D E x op).2 = .fileWrite) :
    (stepS D E x op).1.s.err = true := by
  cases op with
  | batch b => exact writeBatchS_fw D E x b h
  | newRowGroup => exact newRowGroupS_fw D E x h

theorem stepS_quiet (D : Deps) (E : Env ε) (hE : Quiet E) (x : SW ε) (op : Op) (h : x.s.err = false) :
    (stepS D E x op).1.s.err = false := by
  cases op with
  | batch b => exact writeBatchS_quiet D E hE x b h
  | newRowGroup => exact newRowGroupS_quiet D E hE x h

/-! ### `carquet_writer_close` -/

theorem writeTail_mono (D : Deps) (E : Env ε) (x : SW ε) (h : x.s.err = true) :
    (writeTail D E x).1.s.err = true := by
  have h1 := swrite_mono E x (footerOf D x.w) h
  have h2 := swrite_mono E _ (le32 (footerOf D x.w).length) h1
  have h3 := swrite_mono E _ magic h2
  unfold writeTail
  split
  · split
    · split
      · exact h3
      · exact h3
    · exact h2
  · exact h1

theorem writeTail_clear (D : Deps) (E : Env ε) (x : SW ε) (h : (writeTail D E x).1.s.err = false) :
    x.s.err = false ∧ (writeTail D E x).2 = .ok ∧ (writeTail D E x).1.w = x.w ∧
    (writeTail D E x).1.s.delivered ++ (writeTail D E x).1.s.pending =
      x.s.delivered ++ x.s.pending ++ footerOf D x.w ++ le32 (footerOf D x.w).length ++ magic ∧
    (NoFail x.log → NoFail (writeTail D E x).1.log) := by
  unfold writeTail at h ⊢
  by_cases h1 : (swrite E x (footerOf D x.w)).2 = true
  · simp only [h1, if_true] at h ⊢
    by_cases h2 : (swrite E (swrite E x (footerOf D x.w)).1 (le32 (footerOf D x.w).length)).2 = true
    · simp only [h2, if_true] at h ⊢
      by_cases h3 : (swrite E (swrite E (swrite E x (footerOf D x.w)).1 (le32 (footerOf D x.w).length)).1 magic).2 = true
      · simp only [h3, if_true] at h ⊢
        obtain ⟨e3, _, b3, l3⟩ := swrite_clear E _ magic h
        obtain ⟨e2, _, b2, l2⟩ := swrite_clear E _ (le32 (footerOf D x.w).length) e3
        obtain ⟨e1, _, b1, l1⟩ := swrite_clear E x (footerOf D x.w) e2
        refine ⟨e1, trivial, rfl, ?_, fun hl => l3 (l2 (l1 hl))⟩
        rw [b3, b2, b1]
      · simp only [h3] at h
        have := swrite_fail E _ magic (by simpa using h3)
        simp only [Bool.false_eq_true, if_false] at h
        rw [this] at h; cases h
    · simp only [h2] at h
      have := swrite_fail E _ (le32 (footerOf D x.w).length) (by simpa using h2)
      simp only [Bool.false_eq_true, if_false] at h
      rw [this] at h; cases h
  · simp only [h1] at h
    have := swrite_fail E x (footerOf D x.w) (by simpa using h1)
    simp only [Bool.false_eq_true, if_false] at h
    rw [this] at h; cases h

theorem writeTail_fw (D : Deps) (E : Env ε) (x : SW ε) (h : (writeTail D E x).2 ≠ .ok) :
    (writeTail D E x).1.s.err = true := by
  cases he : (writeTail D E x).1.s.err with
  | true => rfl
  | false => exact absurd (writeTail_clear D E x he).2.1 h

theorem writeTail_quiet (D : Deps) (E : Env ε) (hE : Quiet E) (x : SW ε) (h : x.s.err = false) :
    (writeTail D E x).1.s.err = false := by
  have h1 := swrite_quiet E hE x (footerOf D x.w) h
  have h2 := swrite_quiet E hE _ (le32 (footerOf D x.w).length) h1
  have h3 := swrite_quiet E hE _ magic h2
  unfold writeTail
  split
  · split
    · split
      · exact h3
      · exact h3
    · exact h2
  · exact h1

theorem flushCheck_mono (E : Env ε) (x : SW ε) (h : x.s.err = true) : (flushCheck E x).1.s.err = true :=
  sflush_mono E x h

/-- the `ferror` check: OK from the final flush means the indicator is clear -/
theorem flushCheck_ok (E : Env ε) (x : SW ε) (h : (flushCheck E x).2 = .ok) :
    (flushCheck E x).1.s.err = false := by
  unfold flushCheck at h ⊢
  by_cases hc : ((sflush E x).2 && !(sflush E x).1.s.err) = true
  · simp only [Bool.and_eq_true, Bool.not_eq_true'] at hc
    exact hc.2
  · simp [hc] at h

theorem closeBody_mono (D : Deps) (E : Env ε) (x : SW ε) (h : x.s.err = true) :
    (closeBody D E x).1.s.err = true := by
  have h1 := newRowGroupS_mono D E x h
  have h2 := writeTail_mono D E _ h1
  unfold closeBody
  split
  · split
    · exact flushCheck_mono E _ h2
    · exact h2
  · exact h1

/-- OK before `cleanup:` — the whole close ran on a clear stream and is the healthy close -/
theorem closeBody_ok (D : Deps) (E : Env ε) (x : SW ε) (h : (closeBody D E x).2 = .ok) :
    (closeBody D E x).1.s.err = false ∧ x.s.err = false ∧
    (Good x → (closeBody D E x).1.s.delivered = (close D x.w).1.flatten ∧ (closeBody D E x).1.s.pending = [] ∧
      (close D x.w).2 = .ok ∧ NoFail (closeBody D E x).1.log) := by
  unfold closeBody at h ⊢
  by_cases h1 : (newRowGroupS D E x).2 = .ok
  · simp only [h1, if_true] at h ⊢
    by_cases h2 : (writeTail D E (newRowGroupS D E x).1).2 = .ok
    · simp only [h2, if_true] at h ⊢
      have e3 := flushCheck_ok E _ h
      obtain ⟨e2, _, f1, f2, l3⟩ := sflush_clear E _ e3
      obtain ⟨e1, _, w2, b2, l2⟩ := writeTail_clear D E _ e2
      have e0 : x.s.err = false := by
        cases he : x.s.err with
        | false => rfl
        | true => rw [newRowGroupS_mono D E x he] at e1; cases e1
      refine ⟨e3, e0, fun g => ?_⟩
      obtain ⟨g1, w1, s1⟩ := newRowGroupS_good D E x g e1
      have hst : (flushRowGroup D (ensureHeader x.w)).2 = .ok := by rw [← s1]; exact h1
      have hcl : close D x.w = ((flushRowGroup D (ensureHeader x.w)).1.out ++
          [footerOf D (flushRowGroup D (ensureHeader x.w)).1,
           le32 (footerOf D (flushRowGroup D (ensureHeader x.w)).1).length, magic], .ok) := by
        unfold close
        generalize flushRowGroup D (ensureHeader x.w) = r at hst
        obtain ⟨w', st⟩ := r
        simp only at hst
        subst hst
        rfl
      refine ⟨?_, f2, by rw [hcl], l3 (l2 g1.log)⟩
      show (sflush E (writeTail D E (newRowGroupS D E x).1).1).1.s.delivered = _
      rw [f1, b2, g1.bytes, w1, hcl]
      simp [List.append_assoc]
    · simp only [h2, if_false] at h
  · simp only [h1, if_false] at h

theorem closeS_mono (D : Deps) (E : Env ε) (owns : Bool) (x : SW ε) (h : x.s.err = true) :
    (closeS D E owns x).1.s.err = true := by
  have h1 := closeBody_mono D E x h
  unfold closeS cleanupS
  cases owns with
  | false => exact h1
  | true => exact sclose_mono E _ h1

theorem closeS_ok (D : Deps) (E : Env ε) (owns : Bool) (x : SW ε) (h : (closeS D E owns x).2 = .ok) :
    (closeS D E owns x).1.s.err = false ∧ x.s.err = false ∧
    (Good x → (closeS D E owns x).1.s.delivered = (close D x.w).1.flatten ∧ (closeS D E owns x).1.s.pending = [] ∧
      (close D x.w).2 = .ok ∧ NoFail (closeS D E owns x).1.log) := by
  unfold closeS cleanupS at h ⊢
  cases owns with
  | false =>
    simp only [Bool.false_eq_true, if_false] at h ⊢
    exact closeBody_ok D E x h
  | true =>
    simp only [if_true] at h ⊢
    have hb : (closeBody D E x).2 = .ok ∧ (sclose E (closeBody D E x).1).2 = true := by
      by_cases hs : (closeBody D E x).2 = .ok
      · refine ⟨hs, ?_⟩
        cases hc : (sclose E (closeBody D E x).1).2 with
        | true => rfl
        | false => simp [hs, hc] at h
      · have : ((closeBody D E x).2 = .ok && !(sclose E (closeBody D E x).1).2) = false := by simp [hs]
        simp only [this, Bool.false_eq_true, if_false] at h
        exact absurd h hs
    obtain ⟨e1, e0, k⟩ := closeBody_ok D E x hb.1
    obtain ⟨c1, c2, c3, c4⟩ := sclose_ok E _ hb.2
    refine ⟨by rw [c1]; exact e1, e0, fun g => ?_⟩
    obtain ⟨k1, k2, k3, k4⟩ := k g
    exact ⟨by rw [c2, k1, k2]; simp, c3, k3, c4 k4⟩

theorem closeS_quiet (D : Deps) (E : Env ε) (hE : Quiet E) (owns : Bool) (x : SW ε) (g : Good x) :
    (closeS D E owns x).2 = (close D x.w).2 := by
  have e1 := newRowGroupS_quiet D E hE x g.err
  obtain ⟨g1, w1, s1⟩ := newRowGroupS_good D E x g e1
  have e2 := writeTail_quiet D E hE _ e1
  obtain ⟨_, t2, _, _, _⟩ := writeTail_clear D E _ e2
  have e3 := sflush_quiet E hE _ e2
  obtain ⟨_, r3, _, _, _⟩ := sflush_clear E _ e3
  have hcl : (close D x.w).2 = (flushRowGroup D (ensureHeader x.w)).2 := by
    unfold close
    generalize flushRowGroup D (ensureHeader x.w) = r
    obtain ⟨w', st⟩ := r
    cases st <;> rfl
  have hbody : (closeBody D E x).2 = (close D x.w).2 ∧ (closeBody D E x).1.s.err = false := by
    unfold closeBody
    by_cases h1 : (newRowGroupS D E x).2 = .ok
    · simp only [h1, if_true, t2]
      refine ⟨?_, e3⟩
      rw [hcl, ← s1, h1]
      simp [flushCheck, r3, e3]
    · simp only [h1, if_false]
      exact ⟨by rw [hcl, ← s1], e1⟩
  unfold closeS cleanupS
  cases owns with
  | false => simpa using hbody.1
  | true =>
    obtain ⟨_, q2⟩ := sclose_quiet E hE _ hbody.2
    simp only [if_true, q2, hbody.1]
    simp

/-! ### whole histories -/

theorem good_init (e : ε) (cols : List Col) (codec pageSize : Nat) (createdBy : String) :
    Good (initS e cols codec pageSize createdBy) :=
  ⟨rfl, rfl, fun _ h => by simp [initS] at h, fun _ h => by simp [initS] at h⟩

/-- OK from close: the indicator was clear all along, and from a `Good` state the run is the healthy run -/
theorem runS_ok (D : Deps) (E : Env ε) (owns : Bool) : ∀ (ops : List Op) (x : SW ε) (acc : List Status),
    (runS D E owns x ops acc).2.getLast? = some .ok →
    x.s.err = false ∧
    (Good x → (runS D E owns x ops acc).1.s.delivered = (run D x.w ops acc).1.flatten ∧
      (runS D E owns x ops acc).1.s.pending = [] ∧ (runS D E owns x ops acc).2 = (run D x.w ops acc).2 ∧
      NoFail (runS D E owns x ops acc).1.log ∧ (runS D E owns x ops acc).1.s.err = false) := by
  intro ops
  induction ops with
  | nil =>
    intro x acc h
    simp only [runS, run] at h ⊢
    have hc : (closeS D E owns x).2 = .ok := by simpa using h
    obtain ⟨e1, e0, k⟩ := closeS_ok D E owns x hc
    refine ⟨e0, fun g => ?_⟩
    obtain ⟨k1, k2, k3, k4⟩ := k g
    exact ⟨k1, k2, by rw [hc, k3], k4, e1⟩
  | cons op ops ih =>
    intro x acc h
    simp only [runS, run] at h ⊢
    obtain ⟨e1, k⟩ := ih _ _ h
    refine ⟨stepS_clear D E x op e1, fun g => ?_⟩
    obtain ⟨g1, w1, s1⟩ := stepS_good D E x op g e1
    have := k g1
    rw [w1, s1] at this
    rw [s1]
    exact this

theorem runS_err (D : Deps) (E : Env ε) (owns : Bool) (ops : List Op) (x : SW ε) (acc : List Status)
    (h : x.s.err = true) : (runS D E owns x ops acc).2.getLast? ≠ some .ok := by
  intro hl
  rw [(runS_ok D E owns ops x acc hl).1] at h
  cases h

/-- a call that reported FILE_WRITE poisons the session: close will not say OK -/
theorem runS_fw (D : Deps) (E : Env ε) (owns : Bool) : ∀ (ops : List Op) (x : SW ε) (acc : List Status),
    Status.fileWrite ∈ (runS D E owns x ops acc).2 →
    Status.fileWrite ∈ acc ∨ (runS D E owns x ops acc).2.getLast? ≠ some .ok := by
  intro ops
  induction ops with
  | nil =>
    intro x acc h
    simp only [runS] at h ⊢
    rcases List.mem_append.mp h with h1 | h1
    · exact Or.inl h1
    · right
      simp only [List.mem_singleton] at h1
      rw [← h1]; simp
  | cons op ops ih =>
    intro x acc h
    simp only [runS] at h ⊢
    rcases ih _ _ h with h1 | h1
    · rcases List.mem_append.mp h1 with h2 | h2
      · exact Or.inl h2
      · right
        simp only [List.mem_singleton] at h2
        exact runS_err D E owns ops _ _ (stepS_fw D E x op h2.symm)
    · exact Or.inr h1

/-- on a stream that never fails the statuses are those of the healthy writer -/
theorem runS_quiet (D : Deps) (E : Env ε) (hE : Quiet E) (owns : Bool) : ∀ (ops : List Op) (x : SW ε) (acc : List Status),
    Good x → (runS D E owns x ops acc).2 = (run D x.w ops acc).2 := by
  intro ops
  induction ops with
  | nil =>
    intro x acc g
    simp only [runS, run]
    rw [closeS_quiet D E hE owns x g]
  | cons op ops ih =>
    intro x acc g
    simp only [runS, run]
    obtain ⟨g1, w1, s1⟩ := stepS_good D E x op g (stepS_quiet D E hE x op g.err)
    rw [ih _ _ g1, w1, s1]

/-! ### the sub-history of the calls that returned OK (healthy writer) -/

/-- the calls whose status (same position in `sts`) is OK -/
def okCalls : List Op → List Status → List Op
  | op :: ops, st :: sts => if st = .ok then op :: okCalls ops sts else okCalls ops sts
  | _, _ => []

def stepStatuses (D : Deps) : W → List Op → List Status
  | _, [] => []
  | w, op :: ops => (step D w op).2 :: stepStatuses D (step D w op).1 ops

open Carquet.Proofs.WriterLayout (stateAfter) in
theorem run_statuses (D : Deps) : ∀ (ops : List Op) (w : W) (acc : List Status),
    (run D w ops acc).2 = acc ++ stepStatuses D w ops ++ [(close D (stateAfter D w ops)).2] := by
  intro ops
  induction ops with
  | nil => intro w acc; simp [run, stepStatuses, stateAfter]
  | cons op ops ih =>
    intro w acc
    simp only [run, stepStatuses]
    rw [ih]
    simp [stateAfter, List.append_assoc]

theorem step_status (D : Deps) (w : W) (op : Op) :
    (step D w op).2 ≠ .fileWrite ∧ ((step D w op).2 = .invalidArgument → (step D w op).1 = w) := by
  cases op with
  | batch b => exact ⟨writeBatch_ne_fw D w b, writeBatch_invalid_state D w b⟩
  | newRowGroup =>
    exact ⟨(flushRowGroup_status D _).1, fun h => absurd h (flushRowGroup_status D _).2⟩

open Carquet.Proofs.WriterLayout (stateAfter) in
/-- dropping the calls that were refused (no call failed inside the codec) changes neither the
state nor, therefore, the file; and in the remaining history every call returns OK -/
theorem okCalls_state (D : Deps) : ∀ (ops : List Op) (w : W) (tail : List Status),
    (∀ st ∈ stepStatuses D w ops, st ≠ .other) →
    stateAfter D w (okCalls ops (stepStatuses D w ops ++ tail)) = stateAfter D w ops ∧
    ∀ st ∈ stepStatuses D w (okCalls ops (stepStatuses D w ops ++ tail)), st = .ok := by
  intro ops
  induction ops with
  | nil => intro w tail _; simp [okCalls, stepStatuses, stateAfter]
  | cons op ops ih =>
    intro w tail h
    simp only [stepStatuses, List.cons_append, okCalls]
    have hrest : ∀ st ∈ stepStatuses D (step D w op).1 ops, st ≠ .other :=
      fun st hm => h st (by simp [stepStatuses, hm])
    have hop : (step D w op).2 ≠ .other := h _ (by simp [stepStatuses])
    obtain ⟨s1, s2⟩ := step_status D w op
    by_cases hk : (step D w op).2 = .ok
    · simp only [hk, if_true]
      obtain ⟨i1, i2⟩ := ih (step D w op).1 tail hrest
      refine ⟨by simpa [stateAfter] using i1, ?_⟩
      intro st hm
      simp only [stepStatuses, List.mem_cons] at hm
      rcases hm with rfl | hm
      · exact hk
      · exact i2 st hm
    · simp only [hk, if_false]
      have hinv : (step D w op).2 = .invalidArgument := by
        cases hs : (step D w op).2 with
        | ok => exact absurd hs hk
        | invalidArgument => rfl
        | fileWrite => exact absurd hs s1
        | other => exact absurd hs hop
      have hw := s2 hinv
      rw [hw] at hrest ⊢
      obtain ⟨i1, i2⟩ := ih w tail hrest
      exact ⟨by simpa [stateAfter, hw] using i1, i2⟩

/-! ### a small concrete instance (for the non-vacuity examples and the regression witness) -/

/-- byte-level components small enough for kernel evaluation: no compression, a three-byte page
header, a footer that shows `num_rows`, the number of row groups and every row group's
`total_byte_size` and `file_offset` -/
def toyDeps : Deps :=
  { plain := fun _ _ vs => vs.flatten,
    plainBools := fun vs => vs.flatten,
    levels := fun _ ls => ls.map UInt8.ofNat,
    compress := fun _ b => some b,
    crc32 := fun _ => 0,
    pageHeader := fun u c _ n _ => [UInt8.ofNat u, UInt8.ofNat c, UInt8.ofNat n],
    footer := fun f => [UInt8.ofNat f.numRows, UInt8.ofNat f.rowGroups.length] ++
      f.rowGroups.flatMap (fun g => [UInt8.ofNat g.totalByteSize, UInt8.ofNat g.fileOffset]),
    statsStep := fun _ c _ => c }

def toyCols : List Col := [⟨"a", .int32, .required, 0, none⟩]

/-- one batch of two INT32 values, `new_row_group`, one more batch -/
def toyOps : List Op :=
  [.batch ⟨0, 2, none, [[1, 0, 0, 0], [2, 0, 0, 0]], none⟩, .newRowGroup, .batch ⟨0, 1, none, [[3, 0, 0, 0]], none⟩]

/-- stdio pushes everything at once; the sink never fails -/
def quietOracle : Impl.Sink.Oracle := fun _ => .push 1000

/-- a transient fault: stream operation 1 (the `fwrite` of the first row group inside
`new_row_group`) is cut short after 3 bytes, what was not taken is lost; everything else succeeds -/
def transientOracle : Impl.Sink.Oracle := fun i => if i = 1 then .drop 3 0 else .push 1000

end Carquet.Proofs.WriterSink
