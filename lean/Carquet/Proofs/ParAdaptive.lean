import Carquet.Proofs.Par
/-
C07: non-interference for adaptive workers (the next action is a function of what the worker has
observed so far).  After any schedule of turns, worker `w`'s private store is what it has after the
same number of turns taken alone.
-/
namespace Carquet.Proofs.Par
open Carquet.Impl.Par

section Adaptive
variable {V : Type} (view : Worker → Shared → V) (progs : Worker → Prog)

theorem turns_congr (w : Worker)
    (hA : ∀ p a, progs w p = some a → OwnDet view w a)
    (k : Nat) (st st' : State) (hp : st.pr w = st'.pr w) (hv : view w st.sh = view w st'.sh) :
    (execTurns progs (List.replicate k w) st).pr w = (execTurns progs (List.replicate k w) st').pr w ∧
    view w (execTurns progs (List.replicate k w) st).sh = view w (execTurns progs (List.replicate k w) st').sh := by
  induction k generalizing st st' with
  | zero => exact ⟨hp, hv⟩
  | succ k ih =>
    simp only [List.replicate_succ, execTurns]
    apply ih
    · simp only [State.turn]
      rw [← hp]
      cases hprog : progs w (st.pr w) with
      | none => exact hp
      | some a =>
        simp only [run_pr_self]
        rw [← hp]
        exact (hA _ a hprog st.sh st'.sh (st.pr w) hv).1
    · simp only [State.turn]
      rw [← hp]
      cases hprog : progs w (st.pr w) with
      | none => exact hv
      | some a =>
        simp only [run_sh]
        rw [← hp]
        exact (hA _ a hprog st.sh st'.sh (st.pr w) hv).2

theorem turns_noninterference
    (hA : ∀ w p a, progs w p = some a → OwnDet view w a)
    (hB : ∀ w p a, progs w p = some a → OthersKept view w a)
    (s : List Worker) (st : State) (w : Worker) :
    (execTurns progs s st).pr w = (execTurns progs (List.replicate (s.count w) w) st).pr w ∧
    view w (execTurns progs s st).sh = view w (execTurns progs (List.replicate (s.count w) w) st).sh := by
  induction s generalizing st with
  | nil => exact ⟨rfl, rfl⟩
  | cons w0 s ih =>
    by_cases h : w0 = w
    · subst h
      simp only [List.count_cons_self, List.replicate_succ, execTurns]
      exact ih _
    · have hc : (w0 :: s).count w = s.count w := by
        simp [h]
      rw [hc]
      simp only [execTurns]
      have h1 := ih (st.turn progs w0)
      have hne : w ≠ w0 := fun e => h e.symm
      have hp : (st.turn progs w0).pr w = st.pr w := by
        simp only [State.turn]
        cases progs w0 (st.pr w0) with
        | none => rfl
        | some a => exact run_pr_other st w0 w a.prims hne
      have hv : view w (st.turn progs w0).sh = view w st.sh := by
        simp only [State.turn]
        cases hprog : progs w0 (st.pr w0) with
        | none => rfl
        | some a => simpa using hB w0 _ a hprog w hne st.sh (st.pr w0)
      have h2 := turns_congr view progs w (hA w) (s.count w) (st.turn progs w0) st hp hv
      exact ⟨h1.1.trans h2.1, h1.2.trans h2.2⟩

/-- turns of a finished worker change nothing it can see -/
theorem turns_finished (w : Worker) (k : Nat) (st : State) (hf : progs w (st.pr w) = none) :
    execTurns progs (List.replicate k w) st = st := by
  induction k with
  | zero => rfl
  | succ k ih =>
    simp only [List.replicate_succ, execTurns]
    have : st.turn progs w = st := by simp [State.turn, hf]
    rw [this]; exact ih

theorem execTurns_append (s t : List Worker) (st : State) :
    execTurns progs (s ++ t) st = execTurns progs t (execTurns progs s st) := by
  induction s generalizing st with
  | nil => rfl
  | cons w s ih => simp only [List.cons_append, execTurns, ih]

theorem solo_turns_mono (w : Worker) (k1 k2 : Nat) (hle : k1 ≤ k2) (st : State)
    (hf : progs w ((execTurns progs (List.replicate k1 w) st).pr w) = none) :
    execTurns progs (List.replicate k2 w) st = execTurns progs (List.replicate k1 w) st := by
  have e : List.replicate k2 w = List.replicate k1 w ++ List.replicate (k2 - k1) w := by
    rw [List.replicate_append_replicate]; congr 1; omega
  rw [e, execTurns_append, turns_finished progs w _ _ hf]

end Adaptive
end Carquet.Proofs.Par
