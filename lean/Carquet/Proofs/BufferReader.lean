import Carquet.Impl.BufferReader
/-
Invariants of the buffer read cursor (Impl/BufferReader.lean): `pos ≤ size` after every call (pinned and
repaired `has` alike), and — for the repaired `has` — every access inside `data[0 .. size)`.
-/
namespace Carquet.Proofs.BufferReader
open Carquet.Impl.BufferReader

theorem subSz_of_le {a b : Nat} (h : b ≤ a) (ha : a < 2 ^ 64) : subSz a b = a - b := by
  unfold subSz
  have hb : b % 2 ^ 64 = b := Nat.mod_eq_of_lt (by omega)
  rw [hb]
  have : a + 2 ^ 64 - b = (a - b) + 2 ^ 64 := by omega
  rw [this, Nat.add_mod_right]
  exact Nat.mod_eq_of_lt (by omega)

/-- the repaired test says what it should: `n` bytes are left -/
theorem hasFixed_iff (r : Reader) (n : Nat) (hp : r.pos ≤ r.data.length) (hsz : r.data.length < 2 ^ 64) :
    hasFixed r n = true ↔ r.pos + n ≤ r.data.length := by
  unfold hasFixed
  rw [subSz_of_le hp hsz, decide_eq_true_eq]
  omega

theorem addSz_of_le {a b c : Nat} (h : a + b ≤ c) (hc : c < 2 ^ 64) : addSz a b = a + b := by
  unfold addSz; exact Nat.mod_eq_of_lt (by omega)

/-- what one call of the repaired cursor does -/
structure StepOK (r : Reader) (res : Res) : Prop where
  data : res.next.data = r.data
  mono : r.pos ≤ res.next.pos
  inv : res.next.pos ≤ r.data.length
  accs : ∀ a ∈ res.accs, r.pos ≤ a.off ∧ a.off + a.len ≤ res.next.pos

theorem readFixed_ok (r : Reader) (k : Nat) (hp : r.pos ≤ r.data.length) (hsz : r.data.length < 2 ^ 64) :
    StepOK r (readFixed true r k) := by
  unfold readFixed
  split
  · exact ⟨rfl, Nat.le_refl _, hp, fun a h => by cases h⟩
  · rename_i hh
    have hh' : hasFixed r k = true := by
      simp only [has, if_true] at hh
      cases h : hasFixed r k with
      | true => rfl
      | false => exact absurd h hh
    have hle := (hasFixed_iff r k hp hsz).mp hh'
    have ha := addSz_of_le hle hsz
    refine ⟨rfl, by simp only [ha]; omega, by simp only [ha]; exact hle, ?_⟩
    intro a h
    simp only [List.mem_singleton] at h
    subst h
    simp only [ha]
    omega

theorem step_ok (r : Reader) (op : Op) (hp : r.pos ≤ r.data.length) (hsz : r.data.length < 2 ^ 64) :
    StepOK r (step true r op) := by
  have triv : StepOK r ⟨(step true r op).obs, r, []⟩ := ⟨rfl, Nat.le_refl _, hp, fun a h => by cases h⟩
  cases op with
  | has n => exact ⟨rfl, Nat.le_refl _, hp, fun a h => by cases h⟩
  | remaining => exact ⟨rfl, Nat.le_refl _, hp, fun a h => by cases h⟩
  | peek => exact ⟨rfl, Nat.le_refl _, hp, fun a h => by cases h⟩
  | skip n =>
    simp only [step]
    split
    · exact ⟨rfl, Nat.le_refl _, hp, fun a h => by cases h⟩
    · rename_i hh
      have hh' : hasFixed r n = true := by
        simp only [has, if_true] at hh
        cases h : hasFixed r n with
        | true => rfl
        | false => exact absurd h hh
      have hle := (hasFixed_iff r n hp hsz).mp hh'
      have ha := addSz_of_le hle hsz
      exact ⟨rfl, by simp only [ha]; omega, by simp only [ha]; exact hle, fun a h => by cases h⟩
  | read n =>
    simp only [step]
    split
    · exact ⟨rfl, Nat.le_refl _, hp, fun a h => by cases h⟩
    · rename_i hh
      have hh' : hasFixed r n = true := by
        simp only [has, if_true] at hh
        cases h : hasFixed r n with
        | true => rfl
        | false => exact absurd h hh
      have hle := (hasFixed_iff r n hp hsz).mp hh'
      have ha := addSz_of_le hle hsz
      refine ⟨rfl, by simp only [ha]; omega, by simp only [ha]; exact hle, ?_⟩
      intro a h
      simp only [List.mem_singleton] at h
      subst h
      simp only [ha]
      omega
  | readByte => exact readFixed_ok r 1 hp hsz
  | readU16 => exact readFixed_ok r 2 hp hsz
  | readU32 => exact readFixed_ok r 4 hp hsz
  | readU64 => exact readFixed_ok r 8 hp hsz
  | readF32 => exact readFixed_ok r 4 hp hsz
  | readF64 => exact readFixed_ok r 8 hp hsz

/-- whole histories on the repaired cursor -/
theorem run_ok : ∀ (ops : List Op) (r : Reader), r.pos ≤ r.data.length → r.data.length < 2 ^ 64 →
    (run true r ops).2.2.data = r.data ∧ r.pos ≤ (run true r ops).2.2.pos ∧
    (run true r ops).2.2.pos ≤ r.data.length ∧
    ∀ a ∈ (run true r ops).2.1, r.pos ≤ a.off ∧ a.off + a.len ≤ r.data.length := by
  intro ops
  induction ops with
  | nil => intro r hp _; exact ⟨rfl, Nat.le_refl _, hp, fun a h => by cases h⟩
  | cons op ops ih =>
    intro r hp hsz
    have h1 := step_ok r op hp hsz
    have h2 := ih (step true r op).next (by rw [h1.data]; exact h1.inv) (by rw [h1.data]; exact hsz)
    rw [h1.data] at h2
    simp only [run]
    refine ⟨h2.1, Nat.le_trans h1.mono h2.2.1, h2.2.2.1, ?_⟩
    intro a ha
    rcases List.mem_append.mp ha with h | h
    · have := h1.accs a h
      have := h1.inv
      omega
    · have := h2.2.2.2 a h
      have := h1.mono
      omega

/-- `pos ≤ size` is kept by the pinned test too (the wrapped sum is what is compared *and* stored) -/
theorem step_inv_any (fixed : Bool) (r : Reader) (op : Op) (hp : r.pos ≤ r.data.length) (hsz : r.data.length < 2 ^ 64) :
    (step fixed r op).next.data = r.data ∧ (step fixed r op).next.pos ≤ r.data.length := by
  cases fixed with
  | true => have := step_ok r op hp hsz; exact ⟨this.data, this.inv⟩
  | false =>
    have hk : ∀ k, (readFixed false r k).next.data = r.data ∧ (readFixed false r k).next.pos ≤ r.data.length := by
      intro k
      unfold readFixed
      split
      · exact ⟨rfl, hp⟩
      · rename_i hh
        simp only [has, Bool.false_eq_true, if_false, hasPreFix, decide_eq_false_iff_not, Nat.not_le, Nat.not_lt] at hh
        exact ⟨rfl, hh⟩
    cases op with
    | has n => exact ⟨rfl, hp⟩
    | remaining => exact ⟨rfl, hp⟩
    | peek => exact ⟨rfl, hp⟩
    | skip n =>
      simp only [step]
      split
      · exact ⟨rfl, hp⟩
      · rename_i hh
        simp only [has, Bool.false_eq_true, if_false, hasPreFix, decide_eq_false_iff_not, Nat.not_le, Nat.not_lt] at hh
        exact ⟨rfl, hh⟩
    | read n =>
      simp only [step]
      split
      · exact ⟨rfl, hp⟩
      · rename_i hh
        simp only [has, Bool.false_eq_true, if_false, hasPreFix, decide_eq_false_iff_not, Nat.not_le, Nat.not_lt] at hh
        exact ⟨rfl, hh⟩
    | readByte => exact hk 1
    | readU16 => exact hk 2
    | readU32 => exact hk 4
    | readU64 => exact hk 8
    | readF32 => exact hk 4
    | readF64 => exact hk 8

theorem run_inv_any (fixed : Bool) : ∀ (ops : List Op) (r : Reader), r.pos ≤ r.data.length → r.data.length < 2 ^ 64 →
    (run fixed r ops).2.2.pos ≤ r.data.length := by
  intro ops
  induction ops with
  | nil => intro r hp _; exact hp
  | cons op ops ih =>
    intro r hp hsz
    have h1 := step_inv_any fixed r op hp hsz
    have := ih (step fixed r op).next (by rw [h1.1]; exact h1.2) (by rw [h1.1]; exact hsz)
    rw [h1.1] at this
    simpa only [run] using this

end Carquet.Proofs.BufferReader
