import Carquet.Proofs.SpecFileThrift
import Carquet.Proofs.SpecFilePage
import Carquet.Proofs.SpecFileStats
import Carquet.Proofs.SpecFileUsize
/-
Page chaining: an uncompressed v1 data page with PLAIN values written by the reference writer
(any Thrift header form, with or without CRC, with or without statistics, any run plan for the
levels) is read back by `readRawPage` + `decodeDataPage`, and a sequence of such pages is read back
by `readDataPages`, each page ending exactly where the next begins.
-/
namespace Carquet.Proofs.SpecFile
open Carquet.Spec Carquet.Spec.File Carquet.Spec.Thrift

/-- the header value of an uncompressed PLAIN v1 data page (`st`: its statistics, if any) -/
def plainHdrTV (u n : Nat) (crc : Option Int) (st : Option StatsMeta) : TVal :=
  pageHdrTV 0 u u crc 5 (dataHdrTV ⟨n, 0, 3, 3, st⟩ [] []) []

theorem withExtras_nil (known : Fields) : withExtras known [] = known := rfl

theorem checkStruct_ok (s : ParquetThrift.StructSpec) (fs : Fields) (h1 : s.complete fs = true)
    (h2 : knownTyped s fs = true) : checkStruct s fs = .ok () := by
  unfold checkStruct
  simp only [h1, h2, Bool.not_true, Bool.false_eq_true, if_false]

theorem statsOf_statsTV (s : StatsMeta) :
    (match statsTV s [] with
     | .struct fs => statsOf fs
     | _ => .error .pageHeaderNotThrift) = .ok s := by
  obtain ⟨mx, mn, nc, mxv, mnv⟩ := s
  simp only [statsTV, withExtras_nil]
  unfold statsOf
  cases mx <;> cases mn <;> cases nc <;> cases mxv <;> cases mnv <;>
    simp only [optField, List.nil_append, List.cons_append, List.append_nil] <;>
    rw [checkStruct_ok _ _ rfl rfl] <;>
    simp [bind, Except.bind, pure, Except.pure, getBin, getInt, field?, intOf]

theorem dataHdrOf_TV (n : Nat) (st : Option StatsMeta) :
    (match dataHdrTV ⟨n, 0, 3, 3, st⟩ [] [] with
     | .struct fs => dataHdrOf fs
     | _ => .error .pageHeaderNotThrift) = .ok ⟨n, 0, 3, 3, st⟩ := by
  have hn : ¬ ((n : Int) < 0) := by omega
  simp only [dataHdrTV, withExtras_nil]
  unfold dataHdrOf
  cases st with
  | none =>
    simp only [optField, List.append_nil]
    rw [checkStruct_ok _ _ rfl rfl]
    simp [bind, Except.bind, pure, Except.pure, getInt, field?, intOf, getStruct, natField, hn]
  | some s =>
    have hs := statsOf_statsTV s
    simp only [optField]
    rw [checkStruct_ok _ _ rfl rfl]
    generalize hv : statsTV s [] = v at hs
    have : ∃ fs, v = .struct fs := by rw [← hv]; exact ⟨_, rfl⟩
    obtain ⟨fs, rfl⟩ := this
    simp only [] at hs
    simp [bind, Except.bind, pure, Except.pure, getInt, field?, intOf, getStruct, natField, hn, hs]

theorem pageHdrOf_plain (u n : Nat) (crc : Option Int) (st : Option StatsMeta) :
    (match plainHdrTV u n crc st with
     | .struct fs => pageHdrOf fs
     | _ => .error .pageHeaderNotThrift) = .ok ⟨0, u, u, crc, some ⟨n, 0, 3, 3, st⟩, none⟩ := by
  have hu : ¬ ((u : Int) < 0) := by omega
  have hd := dataHdrOf_TV n st
  generalize hv : dataHdrTV ⟨n, 0, 3, 3, st⟩ [] [] = v at hd
  have : ∃ fs, v = .struct fs := by rw [← hv]; exact ⟨_, rfl⟩
  obtain ⟨dfs, rfl⟩ := this
  simp only [] at hd
  simp only [plainHdrTV, pageHdrTV, withExtras_nil, hv]
  unfold pageHdrOf
  cases crc with
  | none =>
    simp only [optField, List.append_nil, List.cons_append, List.nil_append]
    rw [checkStruct_ok _ _ rfl rfl]
    simp [bind, Except.bind, pure, Except.pure, getInt, field?, intOf, getStruct, hu, hd]
  | some x =>
    simp only [optField, List.cons_append, List.nil_append]
    rw [checkStruct_ok _ _ rfl rfl]
    simp [bind, Except.bind, pure, Except.pure, getInt, field?, intOf, getStruct, hu, hd]

/-- the header of such a page, in any form, is parsed back, and parsing stops at the body -/
theorem parsePageHeader_plain (F : ThriftForm) (u n : Nat) (crc : Option Int) (st : Option StatsMeta)
    (hwf : (plainHdrTV u n crc st).wf = true) (rest : Bytes) :
    parsePageHeader (encodeValF F (plainHdrTV u n crc st) ++ rest) =
      .ok (⟨0, u, u, crc, some ⟨n, 0, 3, 3, st⟩, none⟩, rest) := by
  have hd := decode_encodeValF F (plainHdrTV u n crc st) hwf rest
  have hty : (plainHdrTV u n crc st).ty = .struct := rfl
  rw [hty] at hd
  unfold parsePageHeader
  rw [hd]
  have hp := pageHdrOf_plain u n crc st
  generalize hv : plainHdrTV u n crc st = v at hp hd
  have : ∃ fs, v = .struct fs := by rw [← hv]; exact ⟨_, rfl⟩
  obtain ⟨fs, rfl⟩ := this
  simp only [] at hp
  simp only [hp]

theorem crcField_inI32 (bs : Bytes) : inI32 (crcField bs) := by
  have h := (Crc32.crc32 bs).isLt
  unfold crcField inI32
  split <;> omega

theorem crcField_check (bs : Bytes) :
    (Crc32.crc32 bs).toNat = (crcField bs % 4294967296).toNat := by
  have h := (Crc32.crc32 bs).isLt
  unfold crcField
  split <;> omega

/-- an uncompressed PLAIN v1 page as the reference writer lays it out -/
def plainPageBytes (F : ThriftForm) (withCrc : Bool) (n : Nat) (st : Option StatsMeta) (body : Bytes) : Bytes :=
  encodeValF F (plainHdrTV body.length n (if withCrc then some (crcField body) else none) st) ++ body

/-- header, checksum, (no) decompression and size check of such a page -/
theorem readRawPage_plain (cfg : Config) (F : ThriftForm) (withCrc : Bool) (n : Nat) (st : Option StatsMeta) (body rest : Bytes)
    (hwf : (plainHdrTV body.length n (if withCrc then some (crcField body) else none) st).wf = true) :
    readRawPage cfg 0 (plainPageBytes F withCrc n st body ++ rest) =
      .ok ⟨⟨0, body.length, body.length, if withCrc then some (crcField body) else none, some ⟨n, 0, 3, 3, st⟩, none⟩,
           body, (plainPageBytes F withCrc n st body).length, rest⟩ := by
  have hp := parsePageHeader_plain F body.length n _ st hwf (body ++ rest)
  unfold plainPageBytes
  rw [List.append_assoc]
  unfold readRawPage
  simp only [hp, bind, Except.bind, pure, Except.pure]
  have htake : (body ++ rest).take body.length = body := List.take_left
  have hdrop : (body ++ rest).drop body.length = rest := List.drop_left
  have hlt : ¬ (body.length + rest.length < body.length) := by omega
  have hsize : (encodeValF F (plainHdrTV body.length n (if withCrc then some (crcField body) else none) st) ++ (body ++ rest)).length
      - (body ++ rest).length + body.length =
      (encodeValF F (plainHdrTV body.length n (if withCrc then some (crcField body) else none) st) ++ body).length := by
    simp only [List.length_append]; omega
  rw [hsize]
  cases withCrc with
  | false =>
    simp [htake, hdrop, decompress, hlt]
  | true =>
    simp [htake, hdrop, decompress, hlt, crcField_check body]

/-! ### well-formedness of the header value -/

/-- bounds that make the statistics struct a well-formed Thrift value -/
def StatsOk (st : Option StatsMeta) : Prop :=
  ∀ s, st = some s →
    (∀ b, s.max = some b → b.length < 2 ^ 31) ∧ (∀ b, s.min = some b → b.length < 2 ^ 31) ∧
    (∀ b, s.maxValue = some b → b.length < 2 ^ 31) ∧ (∀ b, s.minValue = some b → b.length < 2 ^ 31) ∧
    (∀ k, s.nullCount = some k → inI64 k)

theorem statsTV_wf (s : StatsMeta) (h : StatsOk (some s)) : (statsTV s []).wf = true := by
  obtain ⟨h1, h2, h3, h4, h5⟩ := h s rfl
  obtain ⟨mx, mn, nc, mxv, mnv⟩ := s
  simp only [statsTV, withExtras_nil]
  cases mx <;> cases mn <;> cases nc <;> cases mxv <;> cases mnv <;>
    simp [optField, TVal.wf, wfFields, inI16] <;>
    simp_all

theorem plainHdrTV_wf (u n : Nat) (crc : Option Int) (st : Option StatsMeta) (hu : u < 2 ^ 31) (hn : n < 2 ^ 31)
    (hc : ∀ x, crc = some x → inI32 x) (hst : StatsOk st) : (plainHdrTV u n crc st).wf = true := by
  have hu' : inI32 (u : Int) := by unfold inI32; omega
  have hn' : inI32 (n : Int) := by unfold inI32; omega
  have hdata : (dataHdrTV ⟨n, 0, 3, 3, st⟩ [] []).wf = true := by
    cases st with
    | none =>
      unfold inI32 at hn'
      simp [dataHdrTV, withExtras_nil, optField, TVal.wf, wfFields, inI16, inI32]
      exact hn'.2
    | some s =>
      have := statsTV_wf s hst
      unfold inI32 at hn'
      simp [dataHdrTV, withExtras_nil, optField, TVal.wf, wfFields, inI16, inI32] at this ⊢
      exact ⟨hn'.2, this⟩
  cases crc with
  | none =>
    unfold inI32 at hu'
    simp [plainHdrTV, pageHdrTV, withExtras_nil, optField, TVal.wf, wfFields, inI16, inI32]
    exact ⟨hu'.2, hdata⟩
  | some x =>
    have hx := hc x rfl
    unfold inI32 at hx hu'
    simp [plainHdrTV, pageHdrTV, withExtras_nil, optField, TVal.wf, wfFields, inI16, inI32]
    exact ⟨hu'.2, decide_eq_true hx, hdata⟩

theorem crc_inI32 (withCrc : Bool) (body : Bytes) :
    ∀ x, (if withCrc then some (crcField body) else none) = some x → inI32 x := by
  intro x hx
  cases withCrc with
  | false => simp at hx
  | true => simp at hx; rw [← hx]; exact crcField_inI32 body

theorem length_le_flatten {α : Type} (v : List α) (vs : List (List α)) (h : v ∈ vs) : v.length ≤ vs.flatten.length := by
  induction vs with
  | nil => cases h
  | cons x r ih =>
    simp only [List.flatten_cons, List.length_append]
    rcases List.mem_cons.mp h with rfl | h'
    · omega
    · have := ih h'; omega

/-- every value of a page is shorter than 2^31 when the page body is -/
theorem value_length_lt (leaf : LeafInfo) (vals : List Bytes) (hv : ∀ v ∈ vals, validValue leaf v = true)
    (hb : (plainEncode leaf vals).length < 2 ^ 31) : ∀ v ∈ vals, v.length < 2 ^ 31 := by
  intro v hm
  have hl := validValue_length (hv v hm)
  cases hp : leaf.ptype
  · rcases hl.2.2.2.2.2.2.2 hp with rfl | rfl <;> simp
  · rw [hl.1 hp]; decide
  · rw [hl.2.1 hp]; decide
  · rw [hl.2.2.1 hp]; decide
  · rw [hl.2.2.2.1 hp]; decide
  · rw [hl.2.2.2.2.1 hp]; decide
  · exact hl.2.2.2.2.2.2.1 hp
  · have : plainEncode leaf vals = vals.flatten := by simp [plainEncode, hp, Plain.encodeFlba]
    rw [this] at hb
    have := length_le_flatten v vals hm
    omega

theorem statsFor_ok (leaf : LeafInfo) (sel : StatsSel) (dls : List Nat) (vals : List Bytes)
    (hv : ∀ v ∈ vals, v.length < 2 ^ 31) (hd : dls.length < 2 ^ 31) : StatsOk (statsFor leaf sel dls vals) := by
  intro s hs
  unfold statsFor at hs
  split at hs
  · cases hs
  · simp only [Option.some.injEq] at hs
    subst hs
    have hmin : ∀ b, minOf leaf.ptype vals = some b → b.length < 2 ^ 31 := fun b hb => hv b (minOf_spec _ _ _ hb).1
    have hmax : ∀ b, maxOf leaf.ptype vals = some b → b.length < 2 ^ 31 := fun b hb => hv b (maxOf_spec _ _ _ hb).1
    have hnc : inI64 ((dls.filter (· < leaf.maxDef)).length : Int) := by
      have := List.length_filter_le (· < leaf.maxDef) dls
      unfold inI64; omega
    refine ⟨?_, ?_, ?_, ?_, ?_⟩
    · intro b hb
      by_cases hc : sel.minMaxOld = true
      · simp only [hc, if_true] at hb; exact hmax b hb
      · simp [hc] at hb
    · intro b hb
      by_cases hc : sel.minMaxOld = true
      · simp only [hc, if_true] at hb; exact hmin b hb
      · simp [hc] at hb
    · intro b hb
      by_cases hc : sel.minMaxValue = true
      · simp only [hc, if_true] at hb; exact hmax b hb
      · simp [hc] at hb
    · intro b hb
      by_cases hc : sel.minMaxValue = true
      · simp only [hc, if_true] at hb; exact hmin b hb
      · simp [hc] at hb
    · intro k hk
      by_cases hc : sel.nullCount = true
      · simp only [hc, if_true, Option.some.injEq] at hk; rw [← hk]; exact hnc
      · simp [hc] at hk

/-! ### the reference writer's pages -/

/-- the layouts covered by the chaining theorem: v1 page, PLAIN values, stored uncompressed, no
unknown fields, no deliberate damage; free: header form, CRC, statistics, run plans, page size -/
structure PlainLayout (pl : PageLayout) : Prop where
  kind : pl.kind = .v1
  values : pl.values = .plain
  comp : pl.comp = .none
  hdrExtra : pl.hdrExtra = []
  memberExtra : pl.memberExtra = []
  statsExtra : pl.statsExtra = []
  damage : pl.damage = {}

theorem cutTail_zero (bs : Bytes) : cutTail 0 bs = bs := by simp [cutTail]

theorem writeDataPage_plain {leaf : LeafInfo} {dict : Option (List Bytes)} {pl : PageLayout} {es : List Entry} {w : Written}
    (hp : PlainLayout pl) (hw : writeDataPage leaf dict pl es = some w) :
    ∃ repB defB, levelBytes leaf.maxRep pl.repRuns (es.map (·.rep)) = some repB ∧
      levelBytes leaf.maxDef pl.defRuns (es.map (·.dl)) = some defB ∧
      w.bytes = plainPageBytes pl.form pl.crc es.length (statsFor leaf pl.stats (es.map (·.dl)) (es.filterMap (·.val)))
        (v1Body leaf .v1 es repB defB (plainEncode leaf (es.filterMap (·.val)))) := by
  unfold writeDataPage at hw
  rw [hp.kind, hp.values, hp.comp, hp.hdrExtra, hp.memberExtra, hp.statsExtra, hp.damage] at hw
  cases hr : levelBytes leaf.maxRep pl.repRuns (es.map (·.rep)) with
  | none => simp [hr] at hw
  | some repB =>
    cases hd : levelBytes leaf.maxDef pl.defRuns (es.map (·.dl)) with
    | none => simp [hr, hd] at hw
    | some defB =>
      refine ⟨repB, defB, rfl, rfl, ?_⟩
      simp only [hr, hd, Option.map_some, valueBytes, cutTail_zero, damageValues, compressWith, damagedSize,
        Int.add_zero, Option.some.injEq, valueEncTag, levelEncTag, mkPage, oracleEntry] at hw
      rw [← hw]
      simp only [plainPageBytes, plainHdrTV]
      cases pl.crc <;> simp

/-- an uncompressed page: header + uncompressed body is the page itself -/
theorem writeDataPage_plain_usize {leaf : LeafInfo} {dict : Option (List Bytes)} {pl : PageLayout} {es : List Entry} {w : Written}
    (hp : PlainLayout pl) (hw : writeDataPage leaf dict pl es = some w) : w.usize = w.bytes.length := by
  unfold writeDataPage at hw
  rw [hp.kind, hp.values, hp.comp, hp.hdrExtra, hp.memberExtra, hp.statsExtra, hp.damage] at hw
  cases hr : levelBytes leaf.maxRep pl.repRuns (es.map (·.rep)) with
  | none => simp [hr] at hw
  | some repB =>
    cases hd : levelBytes leaf.maxDef pl.defRuns (es.map (·.dl)) with
    | none => simp [hr, hd] at hw
    | some defB =>
      simp only [hr, hd, Option.map_some, valueBytes, cutTail_zero, damageValues, compressWith, damagedSize,
        Int.add_zero, Option.some.injEq, valueEncTag, levelEncTag, mkPage, oracleEntry] at hw
      rw [← hw]
      simp

theorem encodeValF_struct_ne_nil (F : ThriftForm) (fs : List (Int × TVal)) : encodeValF F (.struct fs) ≠ [] := by
  simp [encodeValF]

theorem plainPageBytes_ne_nil (F : ThriftForm) (c : Bool) (n : Nat) (st : Option StatsMeta) (body : Bytes) :
    plainPageBytes F c n st body ≠ [] := by
  unfold plainPageBytes plainHdrTV pageHdrTV
  intro h
  have := List.append_eq_nil_iff.mp h
  exact encodeValF_struct_ne_nil _ _ this.1

theorem v1Body_length_ge (leaf : LeafInfo) (es : List Entry) (repB defB valB : Bytes)
    (hr : leaf.maxRep = 0 → repB = []) (hd : leaf.maxDef = 0 → defB = []) :
    repB.length ≤ (v1Body leaf .v1 es repB defB valB).length ∧ defB.length ≤ (v1Body leaf .v1 es repB defB valB).length ∧
    valB.length ≤ (v1Body leaf .v1 es repB defB valB).length := by
  unfold v1Body prefixed
  by_cases h1 : leaf.maxRep = 0 <;> by_cases h2 : leaf.maxDef = 0 <;>
    simp [h1, h2, hr, hd, leBytes_length] <;> omega

theorem levelBytes_zero {runs : List RleHybrid.Choice} {ls : List Nat} {bs : Bytes}
    (h : levelBytes 0 runs ls = some bs) : bs = [] := by
  simp [levelBytes] at h; exact h

/-- the page of the reference writer is read back: raw page and its entries -/
theorem page_written (cfg : Config) (leaf : LeafInfo) (dict : Option (List Bytes)) (pl : PageLayout) (es : List Entry)
    (a : Written) (rest : Bytes) (hp : PlainLayout pl) (h1 : writeDataPage leaf dict pl es = some a)
    (hwf : ∀ e ∈ es, wellFormedEntry leaf e = true) (hlen : a.bytes.length < 2 ^ 31) (hes : es.length < 2 ^ 31) :
    ∃ p : RawPage, readRawPage cfg 0 (a.bytes ++ rest) = .ok p ∧ p.hdr.type = 0 ∧ p.rest = rest ∧
      RawPage.usize p = a.usize ∧
      ∃ dh, p.hdr.data = some dh ∧ dh.encoding = 0 ∧ decodeDataPage leaf dict dh p.page = .ok es := by
  have husz := writeDataPage_plain_usize hp h1
  obtain ⟨repB, defB, hr, hd, hbytes⟩ := writeDataPage_plain hp h1
  have hbody : (v1Body leaf .v1 es repB defB (plainEncode leaf (es.filterMap (·.val)))).length ≤ a.bytes.length := by
    rw [hbytes]; unfold plainPageBytes; simp
  have hge := v1Body_length_ge leaf es repB defB (plainEncode leaf (es.filterMap (·.val)))
    (fun h0 => by rw [h0] at hr; exact levelBytes_zero hr) (fun h0 => by rw [h0] at hd; exact levelBytes_zero hd)
  have hvals : ∀ v ∈ es.filterMap (·.val), validValue leaf v = true := by
    intro v hv
    obtain ⟨e, he, hev⟩ := List.mem_filterMap.mp hv
    have := hwf e he
    unfold wellFormedEntry at this
    rw [hev] at this
    simp only [Bool.and_eq_true] at this
    exact this.2.2
  have hvl := value_length_lt leaf (es.filterMap (·.val)) hvals (by omega)
  have hst := statsFor_ok leaf pl.stats (es.map (·.dl)) (es.filterMap (·.val)) hvl (by simp; omega)
  generalize hbd : v1Body leaf .v1 es repB defB (plainEncode leaf (es.filterMap (·.val))) = body at *
  generalize hstd : statsFor leaf pl.stats (es.map (·.dl)) (es.filterMap (·.val)) = st at *
  have hhdr := plainHdrTV_wf body.length es.length (if pl.crc then some (crcField body) else none) st
    (by omega) hes (crc_inI32 pl.crc body) hst
  have hraw := readRawPage_plain cfg pl.form pl.crc es.length st body rest hhdr
  subst hbd hstd
  have hdec := decodeDataPage_written_stats leaf dict es pl.repRuns pl.defRuns repB defB pl.stats hr hd hwf (by omega) (by omega)
  rw [← hbytes] at hraw
  refine ⟨_, hraw, rfl, rfl, ?_, _, rfl, rfl, hdec⟩
  rw [husz]
  simp only [RawPage.usize]
  omega

/-- **page chaining**: the data pages the reference writer lays out back to back (uncompressed,
PLAIN, any header form, any run plans, with or without CRC and statistics) are read back page by
page, each ending exactly where the next begins, and yield the entries they were written from. -/
theorem readDataPages_written (cfg : Config) (leaf : LeafInfo) (dict : Option (List Bytes)) (encodings : List Int) :
    ∀ (pls : List PageLayout) (es : List Entry) (w : Written) (fuel : Nat),
      (pls ≠ [] → encodings.contains 0 = true) →
      (∀ pl ∈ pls, PlainLayout pl) → writeDataPages leaf dict pls es = some w →
      (∀ e ∈ es, wellFormedEntry leaf e = true) → w.bytes.length < 2 ^ 31 → es.length < 2 ^ 31 → pls.length < fuel →
      readDataPages cfg 0 leaf encodings dict fuel w.bytes = .ok es
  | [], es, w, fuel, _, _, hw, _, _, _, hf => by
    simp only [writeDataPages] at hw
    split at hw
    · rename_i he
      cases hw
      cases fuel with
      | zero => simp at hf
      | succ f => simp [readDataPages, he]
    · cases hw
  | pl :: r, es, w, fuel, henc', hpl, hw, hwf, hlen, hes, hf => by
    have henc : encodings.contains 0 = true := henc' (by simp)
    simp only [writeDataPages] at hw
    split at hw
    · cases hw
    · rename_i hcount
      cases h1 : writeDataPage leaf dict pl (es.take pl.count) with
      | none => simp [h1] at hw
      | some a =>
        cases h2 : writeDataPages leaf dict r (es.drop pl.count) with
        | none => simp [h1, h2] at hw
        | some b =>
          simp only [h1, h2, Option.some.injEq] at hw
          subst hw
          simp only [List.length_append] at hlen
          have hwf1 : ∀ e ∈ es.take pl.count, wellFormedEntry leaf e = true := fun e he => hwf e (List.mem_of_mem_take he)
          have hwf2 : ∀ e ∈ es.drop pl.count, wellFormedEntry leaf e = true := fun e he => hwf e (List.mem_of_mem_drop he)
          cases fuel with
          | zero => simp at hf
          | succ f =>
            have ih := readDataPages_written cfg leaf dict encodings r (es.drop pl.count) b f (fun _ => henc)
              (fun p hp => hpl p (by simp [hp])) h2 hwf2 (by omega) (by simp; omega) (by simp at hf; omega)
            obtain ⟨p, hraw, hty, hrest, _, dh, hdh, hencd, hdec⟩ := page_written cfg leaf dict pl (es.take pl.count) a b.bytes
              (hpl pl (by simp)) h1 hwf1 (by omega) (by simp; omega)
            have hne : a.bytes ++ b.bytes ≠ [] := by
              obtain ⟨repB, defB, _, _, hbytes⟩ := writeDataPage_plain (hpl pl (by simp)) h1
              rw [hbytes]; intro h
              exact plainPageBytes_ne_nil _ _ _ _ _ (List.append_eq_nil_iff.mp h).1
            unfold readDataPages
            rw [if_neg hne, hraw]
            simp only [hty, hdh, hencd, henc, hdec, hrest, ih, Bool.not_true, Bool.false_eq_true, if_false, if_true]
            simp [List.take_append_drop]

/-- **uncompressed size of the chained pages**: the independent reader's sum of page headers and
uncompressed page sizes over what `writeDataPages` laid out is the `usize` the reference writer records -/
theorem chunkUsize_written (cfg : Config) (leaf : LeafInfo) (dict : Option (List Bytes)) :
    ∀ (pls : List PageLayout) (es : List Entry) (w : Written) (fuel : Nat),
      (∀ pl ∈ pls, PlainLayout pl) → writeDataPages leaf dict pls es = some w →
      (∀ e ∈ es, wellFormedEntry leaf e = true) → w.bytes.length < 2 ^ 31 → es.length < 2 ^ 31 → pls.length < fuel →
      chunkUsize fuel w.bytes = some w.usize
  | [], es, w, fuel, _, hw, _, _, _, hf => by
    simp only [writeDataPages] at hw
    split at hw
    · cases hw
      cases fuel with
      | zero => simp at hf
      | succ f => simp [chunkUsize]
    · cases hw
  | pl :: r, es, w, fuel, hpl, hw, hwf, hlen, hes, hf => by
    simp only [writeDataPages] at hw
    split at hw
    · cases hw
    · rename_i hcount
      cases h1 : writeDataPage leaf dict pl (es.take pl.count) with
      | none => simp [h1] at hw
      | some a =>
        cases h2 : writeDataPages leaf dict r (es.drop pl.count) with
        | none => simp [h1, h2] at hw
        | some b =>
          simp only [h1, h2, Option.some.injEq] at hw
          subst hw
          simp only [List.length_append] at hlen
          have hwf1 : ∀ e ∈ es.take pl.count, wellFormedEntry leaf e = true := fun e he => hwf e (List.mem_of_mem_take he)
          have hwf2 : ∀ e ∈ es.drop pl.count, wellFormedEntry leaf e = true := fun e he => hwf e (List.mem_of_mem_drop he)
          cases fuel with
          | zero => simp at hf
          | succ f =>
            have ih := chunkUsize_written cfg leaf dict r (es.drop pl.count) b f
              (fun p hp => hpl p (by simp [hp])) h2 hwf2 (by omega) (by simp; omega) (by simp at hf; omega)
            obtain ⟨p, hraw, _, hrest, husz, _⟩ := page_written cfg leaf dict pl (es.take pl.count) a b.bytes
              (hpl pl (by simp)) h1 hwf1 (by omega) (by simp; omega)
            have hne : a.bytes ++ b.bytes ≠ [] := by
              obtain ⟨repB, defB, _, _, hbytes⟩ := writeDataPage_plain (hpl pl (by simp)) h1
              rw [hbytes]; intro h
              exact plainPageBytes_ne_nil _ _ _ _ _ (List.append_eq_nil_iff.mp h).1
            rw [chunkUsize_of_raw cfg 0 _ p f hne hraw, hrest, ih, husz]
            rfl

theorem plainPages_count_le (leaf : LeafInfo) (dict : Option (List Bytes)) :
    ∀ (pls : List PageLayout) (es : List Entry) (w : Written), (∀ pl ∈ pls, PlainLayout pl) →
      writeDataPages leaf dict pls es = some w → pls.length ≤ w.bytes.length
  | [], _, w, _, hw => by simp
  | pl :: r, es, w, hpl, hw => by
    simp only [writeDataPages] at hw
    split at hw
    · cases hw
    · cases h1 : writeDataPage leaf dict pl (es.take pl.count) with
      | none => simp [h1] at hw
      | some a =>
        cases h2 : writeDataPages leaf dict r (es.drop pl.count) with
        | none => simp [h1, h2] at hw
        | some b =>
          simp only [h1, h2, Option.some.injEq] at hw
          subst hw
          obtain ⟨repB, defB, _, _, hbytes⟩ := writeDataPage_plain (hpl pl (by simp)) h1
          have ih := plainPages_count_le leaf dict r (es.drop pl.count) b (fun p hp => hpl p (by simp [hp])) h2
          have hpos : 0 < a.bytes.length := by
            rw [hbytes]
            exact List.length_pos_iff.mpr (plainPageBytes_ne_nil _ _ _ _ _)
          simp only [List.length_cons, List.length_append]
          omega

/-- **one column chunk**: the bytes the reference writer lays out for a chunk without dictionary
(uncompressed PLAIN pages, any split, any header forms, any run plans, optional CRCs and
statistics) are read back by `readChunk` under any metadata that states the truth about them. -/
theorem readChunk_written (cfg : Config) (leaf : LeafInfo) (pls : List PageLayout) (es : List Entry) (w : Written)
    (m : ColumnMeta) (start : Nat)
    (hpl : ∀ pl ∈ pls, PlainLayout pl) (hw : writeDataPages leaf none pls es = some w)
    (hwf : wellFormedChunk leaf es = true) (hlen : w.bytes.length < 2 ^ 31) (hes : es.length < 2 ^ 31)
    (hcodec : m.codec = 0) (hlegal : m.encodings.all legalEncoding = true)
    (hplain : pls ≠ [] → m.encodings.contains 0 = true)
    (hnum : m.numValues = es.length) (hdict : m.dictionaryPageOffset = none) :
    readChunk cfg leaf m start w.bytes = .ok es := by
  unfold wellFormedChunk at hwf
  simp only [Bool.and_eq_true, List.all_eq_true] at hwf
  obtain ⟨hwfe, hfirst⟩ := hwf
  have hcount := plainPages_count_le leaf none pls es w hpl hw
  have hall := readDataPages_written cfg leaf none m.encodings pls es w (w.bytes.length + 1) hplain hpl hw hwfe hlen hes (by omega)
  unfold readChunk
  simp only [hlegal, Bool.not_true, Bool.false_eq_true, if_false, bind, Except.bind, pure, Except.pure]
  by_cases hnil : w.bytes = []
  · -- no page at all
    have : es = [] := by
      cases pls with
      | nil => simp only [writeDataPages] at hw; split at hw <;> simp_all
      | cons pl r => rw [hnil] at hcount; simp at hcount
    subst this
    simp [hnil, hnum]
  · simp only [hnil, if_false]
    -- the first page is a data page
    cases pls with
    | nil =>
      simp only [writeDataPages] at hw
      split at hw
      · cases hw; simp at hnil
      · cases hw
    | cons pl r =>
      simp only [writeDataPages] at hw
      split at hw
      · cases hw
      · cases h1 : writeDataPage leaf none pl (es.take pl.count) with
        | none => simp [h1] at hw
        | some a =>
          cases h2 : writeDataPages leaf none r (es.drop pl.count) with
          | none => simp [h1, h2] at hw
          | some b =>
            simp only [h1, h2, Option.some.injEq] at hw
            subst hw
            simp only [List.length_append] at hlen
            obtain ⟨p, hraw, hty, _, _⟩ := page_written cfg leaf none pl (es.take pl.count) a b.bytes
              (hpl pl (by simp)) h1 (fun e he => hwfe e (List.mem_of_mem_take he)) (by omega) (by simp; omega)
            rw [hcodec]
            simp only [hraw, hty, hdict, Option.isSome_none, Bool.false_eq_true, if_false, hall, hnum]
            simp
            clear hall hraw h1 h2 hwfe hnil hcount hnum hes
            cases es with
            | nil => rfl
            | cons e t => simp at hfirst; simp [hfirst]

end Carquet.Proofs.SpecFile
