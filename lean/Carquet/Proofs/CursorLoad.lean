import Carquet.Impl.ColumnReader
/-
The page-load loop of `carquet_read_next_page` after repair F63 (`prepareLoop`): what a successful
`load_next_page` leaves behind, and the fuel bound of the loop — every round that goes on has
loaded the page at index `current_page`, and the next round looks one index further, so
`|pages| - current_page + 1` rounds are never used up (for every variant of the code and every
state).
-/
namespace Carquet.Proofs.Cursor
open Carquet.Impl.ColumnReader

theorem swapPageData_fields (fx : Fixes) (r : Reader α) :
    (swapPageData fx r).chunk = r.chunk ∧ (swapPageData fx r).currentPage = r.currentPage ∧
      (swapPageData fx r).valuesRemaining = r.valuesRemaining := by
  unfold swapPageData; split <;> (try split) <;> exact ⟨rfl, rfl, rfl⟩

theorem advance_fields (r : Reader α) :
    (advance r).chunk = r.chunk ∧ (advance r).valuesRemaining = r.valuesRemaining := by
  unfold advance; split <;> exact ⟨rfl, rfl⟩

theorem advance_of_loaded (r : Reader α) (h : r.pageLoaded = true) :
    (advance r).currentPage = r.currentPage + 1 := by
  unfold advance; rw [if_pos h]

/-- a successful `load_next_page`: there is a page at `current_page`; chunk, position and
`values_remaining` are as before and a page is loaded -/
theorem loadNextPage_ok (fx : Fixes) (r r' : Reader α) (h : loadNextPage fx r = .ok r') :
    r.currentPage < r.chunk.pages.length ∧ r'.chunk = r.chunk ∧ r'.currentPage = r.currentPage ∧
      r'.valuesRemaining = r.valuesRemaining ∧ r'.pageLoaded = true := by
  unfold loadNextPage at h
  cases hp : r.chunk.pages[r.currentPage]? with
  | none => rw [hp] at h; cases h
  | some o =>
    have hlt : r.currentPage < r.chunk.pages.length := (List.getElem?_eq_some_iff.mp hp).1
    rw [hp] at h
    cases o with
    | none => cases h
    | some p =>
      simp only at h
      split at h
      · cases h
      · split at h
        · cases h; exact ⟨hlt, rfl, rfl, rfl, rfl⟩
        · cases h
          obtain ⟨h1, h2, h3⟩ := swapPageData_fields fx r
          exact ⟨hlt, by simp [installPage, h1], by simp [installPage, h2], by simp [installPage, h3], rfl⟩

/-- **fuel bound for the page-load loop** -/
theorem prepareLoop_fuel (fx : Fixes) : ∀ (f1 f2 : Nat) (r : Reader α),
    r.chunk.pages.length - (advance r).currentPage < f1 → r.chunk.pages.length - (advance r).currentPage < f2 →
    prepareLoop fx f1 r = prepareLoop fx f2 r := by
  intro f1
  induction f1 with
  | zero => intro f2 r h; omega
  | succ f1 ih =>
    intro f2 r h1 h2
    cases f2 with
    | zero => omega
    | succ f2 =>
      unfold prepareLoop
      split
      · cases hl : loadNextPage fx (advance r) with
        | error e => rfl
        | ok r' =>
          simp only
          split
          · obtain ⟨hlt, hc, hcur, _, hld⟩ := loadNextPage_ok fx (advance r) r' hl
            have hadv := advance_of_loaded r' hld
            rw [(advance_fields r).1] at hlt hc
            exact ih f2 r' (by rw [hc, hadv, hcur]; omega) (by rw [hc, hadv, hcur]; omega)
          · rfl
      · rfl

/-- `preparePage` is the loop with any fuel above the number of pages -/
theorem preparePage_eq_loop (fx : Fixes) (r : Reader α) (f : Nat) (h : r.chunk.pages.length < f) :
    preparePage fx r = prepareLoop fx f r := by
  unfold preparePage
  exact prepareLoop_fuel fx _ _ r (by omega) (by omega)

/-- the pinned code's `if`: one round -/
theorem prepareLoop_preF63 (fx : Fixes) (hfx : fx.f63 = false) (fuel : Nat) (r : Reader α) :
    prepareLoop fx (fuel + 1) r =
      if needLoad r then
        match loadNextPage fx (advance r) with
        | .ok r' => (r', none)
        | .error e => (advance r, some e)
      else (r, none) := by
  unfold prepareLoop
  split
  · cases loadNextPage fx (advance r) with
    | error e => rfl
    | ok r' => simp [hfx]
  · rfl

end Carquet.Proofs.Cursor
