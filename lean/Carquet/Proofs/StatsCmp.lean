import Carquet.Spec.Order
import Carquet.Impl.Stats
import Carquet.Proofs.StatsOrder
/-
The comparators of the C code (Impl) compute the Spec's comparisons:
  builder comparators  (`cmpTyped`, NaN greatest)        = `tcmp`
  reader comparators   (`cmpReader`, no NaN involved)    = `keyCmp`
-/
namespace Carquet.Proofs.StatsCmp
open Carquet.Spec.Order Carquet.Impl.Stats Carquet.Proofs.StatsOrder

/-- the C encoding of a three-way result -/
def ordInt : Ordering → Int
  | .lt => -1 | .eq => 0 | .gt => 1

@[simp] theorem ordInt_lt_zero (o : Ordering) : ordInt o < 0 ↔ o = .lt := by cases o <;> simp [ordInt]
@[simp] theorem ordInt_gt_zero (o : Ordering) : ordInt o > 0 ↔ o = .gt := by cases o <;> simp [ordInt]
@[simp] theorem zero_lt_ordInt (o : Ordering) : 0 < ordInt o ↔ o = .gt := by cases o <;> simp [ordInt]
@[simp] theorem ordInt_eq_zero (o : Ordering) : ordInt o = 0 ↔ o = .eq := by cases o <;> simp [ordInt]
@[simp] theorem ordInt_le_zero (o : Ordering) : ordInt o ≤ 0 ↔ o ≠ .gt := by cases o <;> simp [ordInt]
@[simp] theorem ordInt_ge_zero (o : Ordering) : ordInt o ≥ 0 ↔ o ≠ .lt := by cases o <;> simp [ordInt]
@[simp] theorem zero_le_ordInt (o : Ordering) : 0 ≤ ordInt o ↔ o ≠ .lt := by cases o <;> simp [ordInt]

theorem sgn3_cmpInt (a b : Int) : sgn3 (decide (a > b)) (decide (a < b)) = ordInt (cmpInt a b) := by
  simp only [sgn3, cmpInt, gt_iff_lt]
  by_cases h1 : a < b <;> by_cases h2 : b < a <;> simp [h1, h2, ordInt] <;> omega

theorem sgn3_cmpNat (a b : Nat) : sgn3 (decide (a > b)) (decide (a < b)) = ordInt (cmpNat a b) := by
  simp only [sgn3, cmpNat, gt_iff_lt]
  by_cases h1 : a < b <;> by_cases h2 : b < a <;> simp [h1, h2, ordInt] <;> omega

/-! ### little-endian reads -/

theorem leNat_lt (bs : List UInt8) : leNat bs < 256 ^ bs.length := by
  induction bs with
  | nil => simp [leNat]
  | cons b r ih =>
    have hb : b.toNat < 256 := b.toNat_lt
    simp only [leNat, List.length_cons, Nat.pow_succ]
    omega

theorem leNat_take (n : Nat) (bs : List UInt8) : leNat (bs.take n) = leNat bs % 256 ^ n := by
  induction n generalizing bs with
  | zero => simp [leNat, Nat.mod_one]
  | succ n ih =>
    cases bs with
    | nil => simp [leNat]
    | cons b r =>
      have hb : b.toNat < 256 := b.toNat_lt
      simp only [List.take_succ_cons, leNat, ih r]
      rw [Nat.pow_succ, Nat.mul_comm (256 ^ n) 256, Nat.mod_mul]
      have h1 : (b.toNat + 256 * leNat r) % 256 = b.toNat := by omega
      have h2 : (b.toNat + 256 * leNat r) / 256 = leNat r := by omega
      rw [h1, h2]

theorem readU_eq_uval (n : Nat) (bs : List UInt8) : readU n bs = uval n bs := leNat_take n bs

theorem leNat_append (a b : List UInt8) : leNat (a ++ b) = leNat a + 256 ^ a.length * leNat b := by
  induction a with
  | nil => simp [leNat]
  | cons x r ih =>
    simp only [List.cons_append, leNat, ih, List.length_cons, Nat.pow_succ]
    rw [Nat.mul_add, ← Nat.mul_assoc, Nat.mul_comm 256 (256 ^ r.length)]
    omega

/-! ### integers -/

theorem toInt_ofNat_32 (n : Nat) : (BitVec.ofNat 32 n).toInt = toSigned 32 (n % 2 ^ 32) := by
  rw [BitVec.toInt_eq_toNat_cond, BitVec.toNat_ofNat]
  simp only [toSigned]
  have : n % 2 ^ 32 < 2 ^ 32 := Nat.mod_lt _ (by decide)
  split <;> split <;> omega

theorem toInt_ofNat_64 (n : Nat) : (BitVec.ofNat 64 n).toInt = toSigned 64 (n % 2 ^ 64) := by
  rw [BitVec.toInt_eq_toNat_cond, BitVec.toNat_ofNat]
  simp only [toSigned]
  have : n % 2 ^ 64 < 2 ^ 64 := Nat.mod_lt _ (by decide)
  split <;> split <;> omega

theorem cmpBool_eq (a b : List UInt8) : cmpBool a b = ordInt (keyCmp .boolean a b) := by
  simp only [cmpBool, keyCmp, readU_eq_uval]; exact sgn3_cmpNat _ _

theorem cmpI32_eq (a b : List UInt8) : cmpI32 a b = ordInt (keyCmp .int32 a b) := by
  simp only [cmpI32, keyCmp, cmpSigned_eq, toInt_ofNat_32, readU_eq_uval, uval]
  have h : (256 : Nat) ^ 4 = 2 ^ 32 := by decide
  rw [h]; exact sgn3_cmpInt _ _

theorem cmpI64_eq (a b : List UInt8) : cmpI64 a b = ordInt (keyCmp .int64 a b) := by
  simp only [cmpI64, keyCmp, cmpSigned_eq, toInt_ofNat_64, readU_eq_uval, uval]
  have h : (256 : Nat) ^ 8 = 2 ^ 64 := by decide
  rw [h]; exact sgn3_cmpInt _ _

/-! ### INT96: three words high to low = the 96-bit unsigned integer -/

theorem take_add_split (m n : Nat) (bs : List UInt8) :
    bs.take (m + n) = bs.take m ++ (bs.drop m).take n := by
  induction m generalizing bs with
  | zero => simp
  | succ m ih =>
    cases bs with
    | nil => simp
    | cons b r =>
      have : m + 1 + n = (m + n) + 1 := by omega
      simp [this, ih r]

theorem leNat_take_add (m n : Nat) (bs : List UInt8) (h : m ≤ bs.length) :
    leNat (bs.take (m + n)) = leNat (bs.take m) + 256 ^ m * leNat ((bs.drop m).take n) := by
  rw [take_add_split, leNat_append, List.length_take, Nat.min_eq_left h]

theorem word_lt (bs : List UInt8) (i : Nat) : word bs i < 2 ^ 32 := by
  unfold word
  have h := leNat_lt ((bs.drop (4 * i)).take 4)
  have h2 : ((bs.drop (4 * i)).take 4).length ≤ 4 := by simp [List.length_take]; omega
  have h3 : (256 : Nat) ^ ((bs.drop (4 * i)).take 4).length ≤ 256 ^ 4 := Nat.pow_le_pow_right (by decide) h2
  have h4 : (256 : Nat) ^ 4 = 2 ^ 32 := by decide
  omega

/-- zero-extension: reading past the end of a short string reads zeros -/
theorem leNat_take_short (n : Nat) (bs : List UInt8) (h : bs.length ≤ n) : leNat (bs.take n) = leNat bs := by
  rw [List.take_of_length_le h]

theorem uval12_words (bs : List UInt8) :
    uval 12 bs = word bs 0 + 2 ^ 32 * word bs 1 + 2 ^ 64 * word bs 2 := by
  rw [← readU_eq_uval]
  unfold readU word
  have e : (12 : Nat) = 4 + (4 + 4) := rfl
  rw [e, take_add_split, leNat_append, take_add_split, leNat_append]
  simp only [Nat.mul_zero, List.drop_zero, List.drop_drop, Nat.mul_one]
  by_cases h4 : 4 ≤ bs.length
  · by_cases h8 : 8 ≤ bs.length
    · have l1 : (bs.take 4).length = 4 := by simp [List.length_take]; omega
      have l2 : ((bs.drop 4).take 4).length = 4 := by simp [List.length_take]; omega
      rw [l1, l2]
      have e1 : (256 : Nat) ^ 4 = 2 ^ 32 := by decide
      have e2 : (2 : Nat) ^ 64 = 2 ^ 32 * 2 ^ 32 := by decide
      rw [e1, e2, Nat.mul_add, Nat.mul_assoc]
      simp [Nat.add_assoc]
    · -- fewer than 8 bytes: the third word is empty
      have l1 : (bs.take 4).length = 4 := by simp [List.length_take]; omega
      have d8 : bs.drop 8 = [] := List.drop_eq_nil_of_le (by omega)
      have d8a : List.drop (4 + 4) bs = [] := d8
      have d8b : List.drop (4 * 2) bs = [] := d8
      rw [l1, d8a]
      have e1 : (256 : Nat) ^ 4 = 2 ^ 32 := by decide
      simp [leNat, e1]
  · have d4 : bs.drop 4 = [] := List.drop_eq_nil_of_le (by omega)
    have d8 : bs.drop 8 = [] := List.drop_eq_nil_of_le (by omega)
    have d8a : List.drop (4 + 4) bs = [] := d8
    have d8b : List.drop (4 * 2) bs = [] := d8
    rw [d4, d8a]
    simp [leNat]

theorem cmpI96_eq (a b : List UInt8) : cmpI96 a b = ordInt (keyCmp .int96 a b) := by
  simp only [cmpI96, keyCmp, uval12_words]
  have a0 := word_lt a 0; have a1 := word_lt a 1; have a2 := word_lt a 2
  have b0 := word_lt b 0; have b1 := word_lt b 1; have b2 := word_lt b 2
  generalize word a 0 = x0 at *; generalize word a 1 = x1 at *; generalize word a 2 = x2 at *
  generalize word b 0 = y0 at *; generalize word b 1 = y1 at *; generalize word b 2 = y2 at *
  have e32 : (2 : Nat) ^ 32 = 4294967296 := by decide
  have e64 : (2 : Nat) ^ 64 = 18446744073709551616 := by decide
  rw [e32] at a0 a1 a2 b0 b1 b2
  simp only [e32, e64, cmpNat, sgn3, gt_iff_lt]
  by_cases h2 : x2 = y2
  · by_cases h1 : x1 = y1
    · by_cases h0 : x0 = y0
      · subst h2 h1 h0; simp [ordInt]
      · subst h2 h1
        by_cases hl : x0 < y0
        · have : ¬ y0 < x0 := by omega
          have hh : x0 + 4294967296 * x1 + 18446744073709551616 * x2 < y0 + 4294967296 * x1 + 18446744073709551616 * x2 := by omega
          simp [h0, hl, this, hh, ordInt]
        · have hg : y0 < x0 := by omega
          have hh : ¬ (x0 + 4294967296 * x1 + 18446744073709551616 * x2 < y0 + 4294967296 * x1 + 18446744073709551616 * x2) := by omega
          have hh2 : y0 + 4294967296 * x1 + 18446744073709551616 * x2 < x0 + 4294967296 * x1 + 18446744073709551616 * x2 := by omega
          simp [h0, hl, hg, hh, hh2, ordInt]
    · subst h2
      by_cases hl : x1 < y1
      · have : ¬ y1 < x1 := by omega
        have hh : x0 + 4294967296 * x1 + 18446744073709551616 * x2 < y0 + 4294967296 * y1 + 18446744073709551616 * x2 := by omega
        simp [h1, hl, this, hh, ordInt]
      · have hg : y1 < x1 := by omega
        have hh : ¬ (x0 + 4294967296 * x1 + 18446744073709551616 * x2 < y0 + 4294967296 * y1 + 18446744073709551616 * x2) := by omega
        have hh2 : y0 + 4294967296 * y1 + 18446744073709551616 * x2 < x0 + 4294967296 * x1 + 18446744073709551616 * x2 := by omega
        simp [h1, hl, hg, hh, hh2, ordInt]
  · by_cases hl : x2 < y2
    · have : ¬ y2 < x2 := by omega
      have hh : x0 + 4294967296 * x1 + 18446744073709551616 * x2 < y0 + 4294967296 * y1 + 18446744073709551616 * y2 := by omega
      simp [h2, hl, this, hh, ordInt]
    · have hg : y2 < x2 := by omega
      have hh : ¬ (x0 + 4294967296 * x1 + 18446744073709551616 * x2 < y0 + 4294967296 * y1 + 18446744073709551616 * y2) := by omega
      have hh2 : y0 + 4294967296 * y1 + 18446744073709551616 * y2 < x0 + 4294967296 * x1 + 18446744073709551616 * x2 := by omega
      simp [h2, hl, hg, hh, hh2, ordInt]

/-! ### floats: the represented number orders like the sign-magnitude integer -/

/-- the Spec's magnitude as a function of the bit pattern without its sign -/
def gmag (M : Nat) (k : Nat) : Nat := if k / M = 0 then k % M else (M + k % M) * 2 ^ (k / M - 1)

theorem gmag_step (M : Nat) (hM : 0 < M) (k : Nat) : gmag M k < gmag M (k + 1) := by
  unfold gmag
  have hk := Nat.div_add_mod k M
  have hm := Nat.mod_lt k hM
  by_cases hc : k % M + 1 < M
  · have h1 : (k + 1) / M = k / M := by
      conv => lhs; rw [← hk]
      rw [Nat.add_assoc, Nat.mul_add_div hM, Nat.div_eq_of_lt hc]; simp
    have h2 : (k + 1) % M = k % M + 1 := by
      conv => lhs; rw [← hk]
      rw [Nat.add_assoc, Nat.mul_add_mod, Nat.mod_eq_of_lt hc]
    rw [h1, h2]
    by_cases he : k / M = 0
    · simp [he]
    · simp only [he, if_false]
      have hp : 0 < 2 ^ (k / M - 1) := Nat.two_pow_pos _
      exact Nat.mul_lt_mul_of_pos_right (by omega) hp
  · have hmM : k % M + 1 = M := by omega
    have hk1 : k + 1 = M * (k / M + 1) := by rw [Nat.mul_succ]; omega
    have h1 : (k + 1) / M = k / M + 1 := by rw [hk1, Nat.mul_div_cancel_left _ hM]
    have h2 : (k + 1) % M = 0 := by rw [hk1, Nat.mul_mod_right]
    rw [h1, h2]
    by_cases he : k / M = 0
    · rw [he]; simp; omega
    · simp only [he, if_false, Nat.add_one_ne_zero, Nat.add_zero, Nat.add_sub_cancel]
      have hp : 0 < 2 ^ (k / M - 1) := Nat.two_pow_pos _
      have hpe : 2 ^ (k / M) = 2 ^ (k / M - 1) * 2 := by
        have hgen : ∀ e : Nat, e ≠ 0 → e = (e - 1) + 1 := by intro e h; omega
        have hee : k / M = (k / M - 1) + 1 := hgen _ he
        conv => lhs; rw [hee]
        exact Nat.pow_succ 2 _
      rw [hpe]
      generalize 2 ^ (k / M - 1) = P at *
      generalize k % M = m at *
      subst hmM
      have e1 : (m + 1 + m) * P = m * P + P + m * P := by rw [Nat.add_mul, Nat.add_mul, Nat.one_mul]
      have e2 : (m + 1) * (P * 2) = (m * P) * 2 + P * 2 := by rw [Nat.add_mul, Nat.one_mul, Nat.mul_assoc]
      rw [e1, e2]; omega

theorem gmag_mono (M : Nat) (hM : 0 < M) {a b : Nat} (h : a < b) : gmag M a < gmag M b := by
  induction b with
  | zero => omega
  | succ b ih =>
    have hs := gmag_step M hM b
    by_cases hab : a = b
    · subst hab; exact hs
    · have := ih (by omega); omega

theorem gmag_zero (M : Nat) (_hM : 0 < M) : gmag M 0 = 0 := by
  simp [gmag, Nat.zero_div, Nat.zero_mod]

theorem fexp_eq (f : FFmt) (x : Nat) : fexp f x = fAbs f x / 2 ^ f.mbits := by
  unfold fexp fAbs
  rw [Nat.pow_add, Nat.mul_comm (2 ^ f.ebits) (2 ^ f.mbits), Nat.mod_mul_right_div_self]

theorem fman_eq (f : FFmt) (x : Nat) : fman f x = fAbs f x % 2 ^ f.mbits := by
  unfold fman fAbs
  rw [Nat.pow_add, Nat.mul_comm (2 ^ f.ebits) (2 ^ f.mbits), Nat.mod_mul_right_mod]

theorem fmag_eq (f : FFmt) (x : Nat) : fmag f x = gmag (2 ^ f.mbits) (fAbs f x) := by
  unfold fmag gmag; rw [fexp_eq, fman_eq]

theorem fsign_eq (f : FFmt) (x : Nat) : fsign f x = fNeg f x := rfl

theorem fisNaN_eq (f : FFmt) (x : Nat) : fisNaN f x = fNan f x := by
  have hM : 0 < 2 ^ f.mbits := Nat.two_pow_pos _
  have hE : 0 < 2 ^ f.ebits := Nat.two_pow_pos _
  have he : fexp f x < 2 ^ f.ebits := Nat.mod_lt _ hE
  unfold fisNaN fNan
  rw [fman_eq]
  rw [fexp_eq] at he ⊢
  have hk := Nat.div_add_mod (fAbs f x) (2 ^ f.mbits)
  have hm := Nat.mod_lt (fAbs f x) hM
  generalize fAbs f x / 2 ^ f.mbits = e at *
  generalize fAbs f x % 2 ^ f.mbits = m at *
  generalize 2 ^ f.mbits = M at *
  generalize 2 ^ f.ebits = E at *
  rw [← hk]
  by_cases h1 : e = E - 1
  · subst h1
    have : (E - 1) * M = M * (E - 1) := Nat.mul_comm _ _
    by_cases h2 : m = 0
    · simp [h2, this]
    · have h0 : 0 < m := by omega
      simp [h2, this, h0]
  · have hlt : e + 1 ≤ E - 1 := by omega
    have h3 : M * (e + 1) ≤ M * (E - 1) := Nat.mul_le_mul_left M hlt
    have h4 : M * (e + 1) = M * e + M := Nat.mul_succ M e
    have : (E - 1) * M = M * (E - 1) := Nat.mul_comm _ _
    simp only [h1, decide_false, Bool.false_and]
    symm; simp only [decide_eq_false_iff_not, this]; omega

/-- a sign applied to a magnitude -/
def sgnd (s : Bool) (n : Nat) : Int := if s then - (n : Int) else (n : Int)

theorem cmp_sgnd_gmag (M : Nat) (hM : 0 < M) (sa sb : Bool) (a b : Nat) :
    cmpInt (sgnd sa (gmag M a)) (sgnd sb (gmag M b)) = cmpInt (sgnd sa a) (sgnd sb b) := by
  have fa : (a = 0 ∧ gmag M a = 0) ∨ (0 < a ∧ 0 < gmag M a) := by
    rcases Nat.eq_zero_or_pos a with h | h
    · left; exact ⟨h, by rw [h, gmag_zero M hM]⟩
    · right; refine ⟨h, ?_⟩; have := gmag_mono M hM h; rw [gmag_zero M hM] at this; exact this
  have fb : (b = 0 ∧ gmag M b = 0) ∨ (0 < b ∧ 0 < gmag M b) := by
    rcases Nat.eq_zero_or_pos b with h | h
    · left; exact ⟨h, by rw [h, gmag_zero M hM]⟩
    · right; refine ⟨h, ?_⟩; have := gmag_mono M hM h; rw [gmag_zero M hM] at this; exact this
  have fab : (a < b ∧ gmag M a < gmag M b) ∨ (a = b ∧ gmag M a = gmag M b) ∨ (b < a ∧ gmag M b < gmag M a) := by
    rcases Nat.lt_trichotomy a b with h | h | h
    · left; exact ⟨h, gmag_mono M hM h⟩
    · right; left; exact ⟨h, by rw [h]⟩
    · right; right; exact ⟨h, gmag_mono M hM h⟩
  generalize gmag M a = ga at *
  generalize gmag M b = gb at *
  cases sa <;> cases sb <;> simp only [cmpInt, sgnd, if_true, if_false, Bool.false_eq_true] <;>
    repeat' split
  all_goals first | rfl | omega

theorem fval_eq (f : FFmt) (x : Nat) : fval f x = sgnd (fNeg f x) (gmag (2 ^ f.mbits) (fAbs f x)) := by
  unfold fval sgnd; rw [fsign_eq, fmag_eq]

theorem fKey_eq (f : FFmt) (x : Nat) : fKey f x = sgnd (fNeg f x) (fAbs f x) := rfl

theorem fval_cmp (f : FFmt) (a b : Nat) : cmpInt (fval f a) (fval f b) = cmpInt (fKey f a) (fKey f b) := by
  rw [fval_eq, fval_eq, fKey_eq, fKey_eq]
  exact cmp_sgnd_gmag _ (Nat.two_pow_pos _) _ _ _ _

theorem cmpFloatB_eq (f : FFmt) (a b : Nat) :
    cmpFloatB f a b =
      ordInt (if fisNaN f a then (if fisNaN f b then .eq else .gt)
              else if fisNaN f b then .lt else cmpInt (fval f a) (fval f b)) := by
  rw [fisNaN_eq, fisNaN_eq, fval_cmp]
  unfold cmpFloatB fLt
  cases ha : fNan f a <;> cases hb : fNan f b <;> simp [ordInt]
  exact sgn3_cmpInt _ _

theorem cmpFloatR_eq (f : FFmt) (a b : Nat) (ha : fisNaN f a = false) (hb : fisNaN f b = false) :
    cmpFloatR f a b = ordInt (cmpInt (fval f a) (fval f b)) := by
  rw [fisNaN_eq] at ha hb
  rw [fval_cmp]
  unfold cmpFloatR fLt cmpInt
  simp only [ha, hb, Bool.not_false, Bool.true_and, decide_eq_true_eq]
  by_cases h1 : fKey f a < fKey f b <;> by_cases h2 : fKey f b < fKey f a <;> simp [h1, h2, ordInt]

/-! ### bytes -/

theorem cmpBytes_cons_same (x : UInt8) (as bs : List UInt8) : cmpBytes (x :: as) (x :: bs) = cmpBytes as bs := by
  have hx : ¬ x < x := by simp
  have hmin : min (as.length + 1) (bs.length + 1) = min as.length bs.length + 1 := by omega
  simp only [cmpBytes, List.length_cons, hmin, memcmp, hx, if_false]
  have e1 : decide (as.length + 1 > bs.length + 1) = decide (as.length > bs.length) := by
    by_cases h : as.length > bs.length <;> simp [h] <;> omega
  have e2 : decide (as.length + 1 < bs.length + 1) = decide (as.length < bs.length) := by
    by_cases h : as.length < bs.length <;> simp [h] <;> omega
  rw [e1, e2]

theorem cmpBytes_eq : ∀ a b : List UInt8, cmpBytes a b = ordInt (blex a b)
  | [], [] => by simp [cmpBytes, memcmp, blex, sgn3, ordInt]
  | [], _ :: _ => by simp [cmpBytes, memcmp, blex, sgn3, ordInt]
  | _ :: _, [] => by simp [cmpBytes, memcmp, blex, sgn3, ordInt]
  | x :: xs, y :: ys => by
    by_cases h1 : x < y
    · have hmin : min (xs.length + 1) (ys.length + 1) = min xs.length ys.length + 1 := by omega
      simp [cmpBytes, hmin, memcmp, blex, h1, ordInt]
    · by_cases h2 : y < x
      · have hmin : min (xs.length + 1) (ys.length + 1) = min xs.length ys.length + 1 := by omega
        simp [cmpBytes, hmin, memcmp, blex, h1, h2, ordInt]
      · have := u8_eq_of_not_lt h1 h2; subst this
        rw [cmpBytes_cons_same, cmpBytes_eq xs ys]
        simp [blex, h1]

/-! ### the dispatchers -/

theorem isNanValue_eq (t : PType) (a : List UInt8) : isNanValue t a = isNaN t a := by
  cases t <;> simp [isNanValue, isNaN, readU_eq_uval, fisNaN_eq]

/-- the builder-side comparators (NaN greatest) compute the statistics order -/
theorem cmpTyped_eq (t : PType) (a b : List UInt8) : cmpTyped t a b = ordInt (tcmp t a b) := by
  cases t
  · simp [cmpTyped, tcmp, isNaN, cmpBool_eq]
  · simp [cmpTyped, tcmp, isNaN, cmpI32_eq]
  · simp [cmpTyped, tcmp, isNaN, cmpI64_eq]
  · simp [cmpTyped, tcmp, isNaN, cmpI96_eq]
  · show cmpFloatB f32 (readU 4 a) (readU 4 b) = _
    rw [cmpFloatB_eq, readU_eq_uval, readU_eq_uval]; rfl
  · show cmpFloatB f64 (readU 8 a) (readU 8 b) = _
    rw [cmpFloatB_eq, readU_eq_uval, readU_eq_uval]; rfl
  · simp [cmpTyped, tcmp, isNaN, keyCmp, cmpBytes_eq]
  · simp [cmpTyped, tcmp, isNaN, keyCmp, cmpBytes_eq]

/-- the reader-side comparators compute the type's comparison when no NaN is involved -/
theorem cmpReader_eq (t : PType) (a b : List UInt8) (ha : isNaN t a = false) (hb : isNaN t b = false) :
    cmpReader t a b = ordInt (keyCmp t a b) := by
  cases t
  · simp [cmpReader, cmpBool_eq]
  · simp [cmpReader, cmpI32_eq]
  · simp [cmpReader, cmpI64_eq]
  · simp [cmpReader, cmpI96_eq]
  · simp only [isNaN] at ha hb
    simp only [cmpReader, keyCmp, readU_eq_uval]; exact cmpFloatR_eq _ _ _ ha hb
  · simp only [isNaN] at ha hb
    simp only [cmpReader, keyCmp, readU_eq_uval]; exact cmpFloatR_eq _ _ _ ha hb
  · simp [cmpReader, keyCmp, cmpBytes_eq]
  · simp [cmpReader, keyCmp, cmpBytes_eq]

theorem cmpBytes_eq_keyCmp (t : PType) (h : t = .byteArray ∨ t = .flba) (a b : List UInt8) :
    cmpBytes a b = ordInt (keyCmp t a b) := by
  rcases h with h | h <;> subst h <;> simp [keyCmp, cmpBytes_eq]

/-- one-byte values compare bytewise as BOOLEAN does -/
theorem cmpBytes_bool (a b : List UInt8) (ha : a.length = 1) (hb : b.length = 1) :
    cmpBytes a b = ordInt (keyCmp .boolean a b) := by
  match a, b, ha, hb with
  | [x], [y], _, _ =>
    have e1 : uval 1 [x] = x.toNat := by
      have := x.toNat_lt; simp [uval, leNat, Nat.mod_eq_of_lt this]
    have e2 : uval 1 [y] = y.toNat := by
      have := y.toNat_lt; simp [uval, leNat, Nat.mod_eq_of_lt this]
    rw [cmpBytes_eq]
    simp only [blex, keyCmp, cmpNat, e1, e2, UInt8.lt_iff_toNat_lt]

end Carquet.Proofs.StatsCmp
