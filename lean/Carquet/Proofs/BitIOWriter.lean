import Carquet.Proofs.BitIO
/-
The bit writer of Impl/BitIO.lean: the bytes stored are the first `cap` bytes of the little-endian
representation of the integer whose bit fields are the values written, in order, least significant first.
-/
namespace Carquet.Proofs.BitIO
open Carquet.Impl.BitIO Carquet.Impl.Bitpack Carquet.Proofs.NatBits

/-- the integer whose bit fields (least significant first) are the listed `(width, value)` pairs -/
def concatFields : List (Nat × Nat) → Nat
  | [] => 0
  | (w, v) :: fs => v % 2 ^ w + 2 ^ w * concatFields fs

/-- total width -/
def widthSum (fs : List (Nat × Nat)) : Nat := (fs.map Prod.fst).sum

theorem concatFields_lt (fs : List (Nat × Nat)) : concatFields fs < 2 ^ widthSum fs := by
  induction fs with
  | nil => simp [concatFields, widthSum]
  | cons f fs ih =>
    obtain ⟨w, v⟩ := f
    simp only [concatFields, widthSum, List.map_cons, List.sum_cons] at ih ⊢
    rw [Nat.pow_add]
    have h1 : v % 2 ^ w < 2 ^ w := Nat.mod_lt _ (Nat.two_pow_pos w)
    have h2 : 2 ^ w * (concatFields fs + 1) ≤ 2 ^ w * 2 ^ (fs.map Prod.fst).sum := Nat.mul_le_mul_left _ ih
    rw [Nat.mul_add] at h2
    omega

/-- invariant between calls: fewer than 56 pending bits, accumulator within its bit count, no byte beyond
the capacity -/
structure WInv (w : Writer) : Prop where
  bits : w.bufferBits ≤ 55
  buf : w.buffer < 2 ^ w.bufferBits
  cap : w.out.length ≤ w.cap

/-- `w` holds the `k`-bit integer `T`: with the bytes that *would* have been stored in an unbounded buffer
(`vout`) the value is `vout` followed by the accumulator; what is stored is the first `cap` bytes of `vout` -/
def Rel (w : Writer) (T k : Nat) : Prop :=
  ∃ vout : List UInt8, leNat vout + 2 ^ (8 * vout.length) * w.buffer = T ∧
    8 * vout.length + w.bufferBits = k ∧ w.out = vout.take w.cap

theorem Rel_init (cap : Nat) : Rel (Writer.init cap) 0 0 := ⟨[], by simp [leNat, Writer.init], by simp [Writer.init], by simp [Writer.init]⟩

theorem WInv_init (cap : Nat) : WInv (Writer.init cap) := ⟨by simp [Writer.init], by simp [Writer.init], by simp [Writer.init]⟩

theorem take_append_singleton (vout : List UInt8) (b : UInt8) (cap : Nat) :
    (vout ++ [b]).take cap = if (vout.take cap).length < cap then vout.take cap ++ [b] else vout.take cap := by
  by_cases h : vout.length < cap
  · rw [List.take_of_length_le (by simp; omega), List.take_of_length_le (by omega), if_pos h]
  · rw [List.take_append_of_le_length (by omega)]
    rw [if_neg (by rw [List.length_take]; omega)]

theorem leNat_append_byte (vout : List UInt8) (x : Nat) :
    leNat (vout ++ [UInt8.ofNat x]) = leNat vout + 2 ^ (8 * vout.length) * (x % 256) := by
  rw [leNat_append]
  simp only [leNat, Nat.mul_zero, Nat.add_zero]
  congr 2

/-- `flush_buffer`: leaves fewer than 8 bits, keeps the value, never stores beyond the capacity -/
theorem flushLoop_spec : ∀ (f : Nat) (w : Writer) (T k : Nat), w.bufferBits / 8 ≤ f →
    w.buffer < 2 ^ w.bufferBits → w.out.length ≤ w.cap → Rel w T k →
    (flushLoop f w).bufferBits = w.bufferBits % 8 ∧ (flushLoop f w).bufferBits < 8 ∧
    (flushLoop f w).buffer < 2 ^ (flushLoop f w).bufferBits ∧
    (flushLoop f w).out.length ≤ (flushLoop f w).cap ∧ (flushLoop f w).cap = w.cap ∧
    Rel (flushLoop f w) T k := by
  intro f
  induction f with
  | zero =>
    intro w T k hf hb hc hr
    have : w.bufferBits < 8 := by omega
    simp only [flushLoop]
    exact ⟨by omega, this, hb, hc, by first | rfl | trivial, hr⟩
  | succ f ih =>
    intro w T k hf hb hc hr
    simp only [flushLoop]
    split
    · rename_i h8
      obtain ⟨vout, r1, r2, r3⟩ := hr
      have hb' : w.buffer >>> 8 < 2 ^ (w.bufferBits - 8) := by
        rw [shr_eq, Nat.div_lt_iff_lt_mul (by decide)]
        have : 2 ^ w.bufferBits = 2 ^ (w.bufferBits - 8) * 2 ^ 8 := by rw [← Nat.pow_add]; congr 1; omega
        omega
      have hrel : Rel { w with out := if w.out.length < w.cap then w.out ++ [UInt8.ofNat w.buffer] else w.out,
                                buffer := w.buffer >>> 8, bufferBits := w.bufferBits - 8 } T k := by
        refine ⟨vout ++ [UInt8.ofNat w.buffer], ?_, ?_, ?_⟩
        · simp only
          rw [leNat_append_byte, List.length_append, List.length_singleton, shr_eq, ← r1]
          have hp : 2 ^ (8 * (vout.length + 1)) = 2 ^ (8 * vout.length) * 256 := by
            rw [Nat.mul_add, Nat.pow_add]
          rw [hp, Nat.mul_assoc, Nat.add_assoc, ← Nat.mul_add]
          congr 2
          have := Nat.div_add_mod w.buffer 256
          show w.buffer % 256 + 256 * (w.buffer / 2 ^ 8) = w.buffer
          have e : (2 : Nat) ^ 8 = 256 := rfl
          rw [e]; omega
        · simp only [List.length_append, List.length_singleton]; omega
        · simp only
          rw [take_append_singleton, ← r3]
      have hcap : (if w.out.length < w.cap then w.out ++ [UInt8.ofNat w.buffer] else w.out).length ≤ w.cap := by
        split
        · simp; omega
        · exact hc
      obtain ⟨i1, i2, i3, i4, i5, i6⟩ := ih _ T k (by simp only; omega) hb' hcap hrel
      refine ⟨?_, i2, i3, i4, i5, i6⟩
      rw [i1]; simp only; omega
    · rename_i h8
      exact ⟨by omega, by omega, hb, hc, rfl, hr⟩

theorem flushBuffer_spec (w : Writer) (T k : Nat) (hb : w.buffer < 2 ^ w.bufferBits) (hc : w.out.length ≤ w.cap)
    (hr : Rel w T k) :
    (flushBuffer w).bufferBits < 8 ∧ (flushBuffer w).buffer < 2 ^ (flushBuffer w).bufferBits ∧
    (flushBuffer w).out.length ≤ (flushBuffer w).cap ∧ (flushBuffer w).cap = w.cap ∧ Rel (flushBuffer w) T k := by
  obtain ⟨_, i2, i3, i4, i5, i6⟩ := flushLoop_spec (w.bufferBits / 8) w T k (Nat.le_refl _) hb hc hr
  exact ⟨i2, i3, i4, i5, i6⟩

/-- state after OR-ing a `wd`-bit field `f` above `bits ≤ 64 − wd` pending bits, then the conditional flush -/
theorem push_field (w : Writer) (T k : Nat) (hb : w.buffer < 2 ^ w.bufferBits) (hc : w.out.length ≤ w.cap)
    (hr : Rel w T k) (f wd : Nat) (hf : f < 2 ^ wd) (h64 : w.bufferBits + wd ≤ 64) :
    WInv (flushIfFull { w with buffer := (w.buffer ||| (f <<< w.bufferBits)) % 2 ^ 64, bufferBits := w.bufferBits + wd }) ∧
    (flushIfFull { w with buffer := (w.buffer ||| (f <<< w.bufferBits)) % 2 ^ 64, bufferBits := w.bufferBits + wd }).cap = w.cap ∧
    Rel (flushIfFull { w with buffer := (w.buffer ||| (f <<< w.bufferBits)) % 2 ^ 64, bufferBits := w.bufferBits + wd })
      (T + 2 ^ k * f) (k + wd) := by
  have hor : w.buffer ||| (f <<< w.bufferBits) = w.buffer + f * 2 ^ w.bufferBits := or_shl_eq_add _ _ _ hb
  have hlt : w.buffer + f * 2 ^ w.bufferBits < 2 ^ (w.bufferBits + wd) := by
    rw [Nat.pow_add]
    have h1 : (f + 1) * 2 ^ w.bufferBits ≤ 2 ^ wd * 2 ^ w.bufferBits := Nat.mul_le_mul_right _ hf
    rw [Nat.add_mul, Nat.one_mul, Nat.mul_comm (2 ^ wd)] at h1
    omega
  have hmod : (w.buffer + f * 2 ^ w.bufferBits) % 2 ^ 64 = w.buffer + f * 2 ^ w.bufferBits :=
    Nat.mod_eq_of_lt (Nat.lt_of_lt_of_le hlt (Nat.pow_le_pow_right (by decide) h64))
  have hrel : Rel { w with buffer := (w.buffer ||| (f <<< w.bufferBits)) % 2 ^ 64, bufferBits := w.bufferBits + wd }
      (T + 2 ^ k * f) (k + wd) := by
    obtain ⟨vout, r1, r2, r3⟩ := hr
    refine ⟨vout, ?_, by simp only; omega, r3⟩
    simp only [hor, hmod]
    rw [← r1, ← r2, Nat.pow_add, Nat.mul_add, Nat.mul_assoc, Nat.mul_comm f]
    omega
  have hb1 : (w.buffer ||| (f <<< w.bufferBits)) % 2 ^ 64 < 2 ^ (w.bufferBits + wd) := by rw [hor, hmod]; exact hlt
  unfold flushIfFull
  split
  · obtain ⟨i1, i2, i3, i4, i5⟩ := flushBuffer_spec
      { w with buffer := (w.buffer ||| (f <<< w.bufferBits)) % 2 ^ 64, bufferBits := w.bufferBits + wd }
      (T + 2 ^ k * f) (k + wd) hb1 hc hrel
    exact ⟨⟨by omega, i2, i3⟩, i4, i5⟩
  · rename_i h56
    exact ⟨⟨by simp only at h56 ⊢; omega, hb1, hc⟩, rfl, hrel⟩

theorem writeBit_spec (w : Writer) (T k : Nat) (hi : WInv w) (hr : Rel w T k) (b : Nat) :
    WInv (writeBit w b) ∧ (writeBit w b).cap = w.cap ∧ Rel (writeBit w b) (T + 2 ^ k * (b % 2)) (k + 1) := by
  unfold writeBit
  rw [Nat.and_one_is_mod]
  exact push_field w T k hi.buf hi.cap hr (b % 2) 1 (by omega) (by have := hi.bits; omega)

theorem mask32_and (v n : Nat) (hn : n ≤ 32) : (v % 2 ^ 32) &&& mask32 n = v % 2 ^ n := by
  unfold mask32
  split
  · rename_i h; subst h
    rw [show (0xFFFFFFFF : Nat) = 2 ^ 32 - 1 from rfl, and_mask, Nat.mod_mod]
  · rw [one_shl, and_mask]
    exact Nat.mod_mod_of_dvd _ (Nat.pow_dvd_pow 2 hn)

theorem makeRoom_spec (w : Writer) (T k : Nat) (hi : WInv w) (hr : Rel w T k) :
    (makeRoom w).bufferBits ≤ 32 ∧ (makeRoom w).buffer < 2 ^ (makeRoom w).bufferBits ∧
    (makeRoom w).out.length ≤ (makeRoom w).cap ∧ (makeRoom w).cap = w.cap ∧ Rel (makeRoom w) T k := by
  unfold makeRoom
  split
  · obtain ⟨i1, i2, i3, i4, i5⟩ := flushBuffer_spec w T k hi.buf hi.cap hr
    exact ⟨by omega, i2, i3, i4, i5⟩
  · rename_i h32
    exact ⟨by omega, hi.buf, hi.cap, rfl, hr⟩

theorem writeBits_spec (w : Writer) (T k : Nat) (hi : WInv w) (hr : Rel w T k) (v n : Nat) :
    WInv (writeBits w v n) ∧ (writeBits w v n).cap = w.cap ∧
    Rel (writeBits w v n) (T + 2 ^ k * (v % 2 ^ min n 32)) (k + min n 32) := by
  unfold writeBits
  split
  · rename_i h0
    subst h0
    simp only [Nat.zero_min, Nat.pow_zero, Nat.mod_one, Nat.mul_zero, Nat.add_zero]
    exact ⟨hi, by first | rfl | trivial, hr⟩
  · rename_i h0
    obtain ⟨m1, m2, m3, m4, m5⟩ := makeRoom_spec w T k hi hr
    rw [mask32_and v (min n 32) (Nat.min_le_right _ _)]
    have := push_field (makeRoom w) T k m2 m3 m5 (v % 2 ^ min n 32) (min n 32)
      (Nat.mod_lt _ (Nat.two_pow_pos _)) (by omega)
    exact ⟨this.1, by rw [this.2.1, m4], this.2.2⟩

theorem writeBits64_spec (w : Writer) (T k : Nat) (hi : WInv w) (hr : Rel w T k) (v n : Nat) :
    WInv (writeBits64 w v n) ∧ (writeBits64 w v n).cap = w.cap ∧
    Rel (writeBits64 w v n) (T + 2 ^ k * (v % 2 ^ min n 64)) (k + min n 64) := by
  unfold writeBits64
  split
  · rename_i h0
    subst h0
    simp only [Nat.zero_min, Nat.pow_zero, Nat.mod_one, Nat.mul_zero, Nat.add_zero]
    exact ⟨hi, by first | rfl | trivial, hr⟩
  · split
    · rename_i hle
      have := writeBits_spec w T k hi hr (v % 2 ^ 32) (min n 64)
      rw [Nat.min_eq_left hle, Nat.mod_mod_of_dvd _ (Nat.pow_dvd_pow 2 hle)] at this
      exact this
    · rename_i hgt
      have h1 := writeBits_spec w T k hi hr (v % 2 ^ 32) 32
      have e32 : min 32 32 = 32 := rfl
      rw [e32, Nat.mod_mod] at h1
      have h2 := writeBits_spec (writeBits w (v % 2 ^ 32) 32) _ _ h1.1 h1.2.2 ((v % 2 ^ 64) >>> 32) (min n 64 - 32)
      have ek : min (min n 64 - 32) 32 = min n 64 - 32 := by omega
      rw [ek] at h2
      refine ⟨h2.1, by rw [h2.2.1, h1.2.1], ?_⟩
      have hw : 32 + (min n 64 - 32) = min n 64 := by omega
      have hval : v % 2 ^ 32 + 2 ^ 32 * (((v % 2 ^ 64) >>> 32) % 2 ^ (min n 64 - 32)) = v % 2 ^ min n 64 := by
        have h64 : (v % 2 ^ 64) >>> 32 % 2 ^ (min n 64 - 32) = (v >>> 32) % 2 ^ (min n 64 - 32) :=
          shr_mod_window v 64 32 (min n 64 - 32) (by omega)
        rw [h64, shr_eq, ← mod_pow_add, hw]
      have := h2.2.2
      rw [Nat.add_assoc k, hw, Nat.add_assoc T, Nat.pow_add, Nat.mul_assoc, ← Nat.mul_add, hval] at this
      exact this

/-- a history without `flush` -/
def NoFlush : List WOp → Prop
  | [] => True
  | .flush :: _ => False
  | _ :: ops => NoFlush ops

/-- **any sequence of writes**: invariant kept, capacity untouched, the value written is the old value
followed by the fields of the history -/
theorem wrun_spec : ∀ (ops : List WOp) (w : Writer) (T k : Nat), NoFlush ops → WInv w → Rel w T k →
    WInv (wrun w ops) ∧ (wrun w ops).cap = w.cap ∧
    Rel (wrun w ops) (T + 2 ^ k * concatFields (fieldsOf ops)) (k + totalBits ops) := by
  intro ops
  induction ops with
  | nil =>
    intro w T k _ hi hr
    simp only [wrun, List.foldl_nil, fieldsOf, concatFields, totalBits, List.map_nil, List.sum_nil, Nat.mul_zero, Nat.add_zero]
    exact ⟨hi, by first | rfl | trivial, hr⟩
  | cons op ops ih =>
    intro w T k hnf hi hr
    have key : ∀ (w1 : Writer) (wd f : Nat), WInv w1 → w1.cap = w.cap → Rel w1 (T + 2 ^ k * f) (k + wd) → NoFlush ops →
        f < 2 ^ wd →
        WInv (wrun w1 ops) ∧ (wrun w1 ops).cap = w.cap ∧
        Rel (wrun w1 ops) (T + 2 ^ k * (f % 2 ^ wd + 2 ^ wd * concatFields (fieldsOf ops))) (k + (wd + totalBits ops)) := by
      intro w1 wd f h1 hc h2 hn hf
      obtain ⟨a, b, c⟩ := ih w1 _ _ hn h1 h2
      refine ⟨a, by rw [b, hc], ?_⟩
      rw [Nat.mod_eq_of_lt hf, Nat.mul_add, ← Nat.add_assoc, ← Nat.mul_assoc, ← Nat.pow_add, ← Nat.add_assoc]
      exact c
    cases op with
    | bit b =>
      obtain ⟨a, c, d⟩ := writeBit_spec w T k hi hr b
      have := key (writeBit w b) 1 (b % 2) a c d hnf (by omega)
      simpa only [wrun, List.foldl_cons, wstep, fieldsOf, concatFields, totalBits, List.map_cons, List.sum_cons] using this
    | bits v n =>
      obtain ⟨a, c, d⟩ := writeBits_spec w T k hi hr v n
      have := key (writeBits w v n) (min n 32) (v % 2 ^ min n 32) a c d hnf (Nat.mod_lt _ (Nat.two_pow_pos _))
      simpa only [wrun, List.foldl_cons, wstep, fieldsOf, concatFields, totalBits, List.map_cons, List.sum_cons] using this
    | bits64 v n =>
      obtain ⟨a, c, d⟩ := writeBits64_spec w T k hi hr v n
      have := key (writeBits64 w v n) (min n 64) (v % 2 ^ min n 64) a c d hnf (Nat.mod_lt _ (Nat.two_pow_pos _))
      simpa only [wrun, List.foldl_cons, wstep, fieldsOf, concatFields, totalBits, List.map_cons, List.sum_cons] using this
    | flush => exact absurd hnf (by simp [NoFlush])

/-- the final `flush`: the stored bytes are the first `cap` bytes of the `⌈k/8⌉`-byte representation of `T` -/
theorem flush_spec (w : Writer) (T k : Nat) (hi : WInv w) (hr : Rel w T k) :
    (flush w).out = (leBytes ((k + 7) / 8) T).take w.cap ∧ (flush w).out.length ≤ w.cap := by
  obtain ⟨i1, i2, i3, i4, vout, r1, r2, r3⟩ := flushBuffer_spec w T k hi.buf hi.cap hr
  unfold flush
  by_cases hpend : (flushBuffer w).bufferBits > 0
  · -- a partial byte is pending
    have hbyte : (flushBuffer w).buffer < 256 :=
      Nat.lt_of_lt_of_le i2 (by
        have : (2 : Nat) ^ (flushBuffer w).bufferBits ≤ 2 ^ 8 := Nat.pow_le_pow_right (by decide) (by omega)
        exact this)
    have hfin : leNat (vout ++ [UInt8.ofNat (flushBuffer w).buffer]) = T := by
      rw [leNat_append_byte, Nat.mod_eq_of_lt hbyte, r1]
    have hlen : (vout ++ [UInt8.ofNat (flushBuffer w).buffer]).length = (k + 7) / 8 := by
      simp only [List.length_append, List.length_singleton]; omega
    have hfull : leBytes ((k + 7) / 8) T = vout ++ [UInt8.ofNat (flushBuffer w).buffer] := by
      rw [← hlen, ← hfin, leBytes_leNat]
    by_cases hroom : (flushBuffer w).out.length < (flushBuffer w).cap
    · rw [if_pos ⟨hpend, hroom⟩]
      simp only
      rw [hfull, ← i4, take_append_singleton, ← r3, if_pos hroom]
      exact ⟨rfl, by simp only [List.length_append, List.length_singleton]; omega⟩
    · rw [if_neg (fun h => hroom h.2)]
      rw [hfull, ← i4, take_append_singleton, ← r3, if_neg hroom]
      exact ⟨rfl, i3⟩
  · rw [if_neg (fun h => hpend h.1)]
    have hb0 : (flushBuffer w).bufferBits = 0 := by omega
    have hbuf0 : (flushBuffer w).buffer = 0 := by
      have := i2; rw [hb0] at this; simpa using this
    have hfin : leNat vout = T := by rw [← r1, hbuf0]; simp
    have hlen : vout.length = (k + 7) / 8 := by omega
    have hfull : leBytes ((k + 7) / 8) T = vout := by rw [← hlen, ← hfin, leBytes_leNat]
    rw [hfull, ← i4, ← r3]
    exact ⟨rfl, i3⟩

/-- **writes then one flush, any capacity**: the bytes stored are the first `cap` bytes of the packed fields;
never more than `cap` -/
theorem flush_wrun (cap : Nat) (ops : List WOp) (hn : NoFlush ops) :
    (flush (wrun (Writer.init cap) ops)).out =
      (leBytes ((totalBits ops + 7) / 8) (concatFields (fieldsOf ops))).take cap ∧
    (flush (wrun (Writer.init cap) ops)).out.length ≤ cap := by
  obtain ⟨a, b, c⟩ := wrun_spec ops (Writer.init cap) 0 0 hn (WInv_init cap) (Rel_init cap)
  simp only [Nat.zero_add, Nat.pow_zero, Nat.one_mul] at c
  have := flush_spec _ _ _ a c
  rw [b] at this
  exact this

/-- the capacity is respected by every history, flushes anywhere -/
theorem wrun_cap : ∀ (ops : List WOp) (w : Writer), WInv w → WInv (wrun w ops) ∧ (wrun w ops).cap = w.cap := by
  intro ops
  induction ops with
  | nil => intro w h; exact ⟨h, rfl⟩
  | cons op ops ih =>
    intro w h
    have hrel : Rel w (leNat w.out + 2 ^ (8 * w.out.length) * w.buffer) (8 * w.out.length + w.bufferBits) :=
      ⟨w.out, rfl, rfl, (List.take_of_length_le h.cap).symm⟩
    have step : WInv (wstep w op) ∧ (wstep w op).cap = w.cap := by
      cases op with
      | bit b => have := writeBit_spec w _ _ h hrel b; exact ⟨this.1, this.2.1⟩
      | bits v n => have := writeBits_spec w _ _ h hrel v n; exact ⟨this.1, this.2.1⟩
      | bits64 v n => have := writeBits64_spec w _ _ h hrel v n; exact ⟨this.1, this.2.1⟩
      | flush =>
        obtain ⟨i1, i2, i3, i4, _⟩ := flushBuffer_spec w _ _ h.buf h.cap hrel
        simp only [wstep, flush]
        split
        · rename_i hc
          exact ⟨⟨by simp, by simp, by simp only [List.length_append, List.length_singleton]; omega⟩, i4⟩
        · exact ⟨⟨by omega, i2, i3⟩, i4⟩
    obtain ⟨a, b⟩ := ih (wstep w op) step.1
    simp only [wrun, List.foldl_cons] at a b ⊢
    exact ⟨a, by rw [b, step.2]⟩

end Carquet.Proofs.BitIO
