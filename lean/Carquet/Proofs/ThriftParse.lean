import Carquet.Proofs.ThriftSkip
import Carquet.Impl.ThriftParquet
/-
Generic contracts for the field handlers of the parquet_types.c parsers: a handler that reads
its value with a reader `rd` and stores it, a handler that skips, a nested struct parser, a
list of elements.  Used struct by struct in ThriftParseStructs.lean.
-/
namespace Carquet.Proofs.Thrift
open Carquet.Spec.Thrift
open Carquet.Impl.Thrift
open Carquet.Impl.ThriftParquet

/-! ### projections of Thrift values (total; only used under the matching shape hypothesis) -/

def asInt : TVal → Int
  | .i8 x => x | .i16 x => x | .i32 x => x | .i64 x => x | _ => 0
def asBool : TVal → Bool
  | .bool b => b | _ => false
def asBin : TVal → Bytes
  | .binary b => b | _ => []
def asFields : TVal → List (Int × TVal)
  | .struct fs => fs | _ => []
def asElems : TVal → List TVal
  | .list _ xs => xs | .set _ xs => xs | _ => []

theorem enc_i8_inv {x b} (h : Enc (.val (.i8 x)) b) : b = [byteOf x] ∧ inI8 x := by cases h with | i8 h => exact ⟨rfl, h⟩
theorem enc_i16_inv {x b} (h : Enc (.val (.i16 x)) b) : b = uleb (zigzag x) ∧ inI16 x := by cases h with | i16 h => exact ⟨rfl, h⟩
theorem enc_i32_inv {x b} (h : Enc (.val (.i32 x)) b) : b = uleb (zigzag x) ∧ inI32 x := by cases h with | i32 h => exact ⟨rfl, h⟩
theorem enc_i64_inv {x b} (h : Enc (.val (.i64 x)) b) : b = uleb (zigzag x) ∧ inI64 x := by cases h with | i64 h => exact ⟨rfl, h⟩
theorem enc_binary_inv {x : List UInt8} {b} (h : Enc (.val (.binary x)) b) : b = uleb x.length ++ x ∧ x.length < 2 ^ 31 := by
  cases h with | binary h => exact ⟨rfl, h⟩

theorem reads_enc_i8 (x : Int) (k : Nat) : ∀ b, Enc (.val (.i8 x)) b → Reads k readI8 b x := by
  intro b h; obtain ⟨rfl, hx⟩ := enc_i8_inv h; exact reads_i8 x hx k
theorem reads_enc_i16 (x : Int) (k : Nat) : ∀ b, Enc (.val (.i16 x)) b → Reads k readI16 b x := by
  intro b h; obtain ⟨rfl, hx⟩ := enc_i16_inv h; exact reads_i16 x hx k
theorem reads_enc_i32 (x : Int) (k : Nat) : ∀ b, Enc (.val (.i32 x)) b → Reads k readI32 b x := by
  intro b h; obtain ⟨rfl, hx⟩ := enc_i32_inv h; exact reads_i32 x hx k
theorem reads_enc_i64 (x : Int) (k : Nat) : ∀ b, Enc (.val (.i64 x)) b → Reads k readI64 b x := by
  intro b h; obtain ⟨rfl, hx⟩ := enc_i64_inv h; exact reads_i64 x hx k

theorem reads_enc_bindup (x : Bytes) (k : Nat) : ∀ b, Enc (.val (.binary x)) b → Reads k bindupThrift b x := by
  intro b h d r hd
  obtain ⟨rfl, hx⟩ := enc_binary_inv h
  refine ⟨d.boolValue, ?_⟩
  unfold bindupThrift
  rw [readBinary_spec x hx d r hd.rest]
  rfl

theorem reads_enc_strdupBytes (x : Bytes) (k : Nat) : ∀ b, Enc (.val (.binary x)) b → Reads k strdupBytes b (cstr x) := by
  intro b h d r hd
  obtain ⟨rfl, hx⟩ := enc_binary_inv h
  refine ⟨d.boolValue, ?_⟩
  unfold strdupBytes
  rw [readBinary_spec x hx d r hd.rest]
  rfl

theorem reads_enc_strdup (x : Bytes) (k : Nat) : ∀ b, Enc (.val (.binary x)) b → Reads k strdupThrift b (some (cstr x)) := by
  intro b h d r hd
  obtain ⟨bv, hb⟩ := reads_enc_strdupBytes x k b h d r hd
  exact ⟨bv, by unfold strdupThrift; rw [hb]⟩

/-! ### handler contracts -/

/-- a handler that reads its value with `rd` and stores it with `set` -/
theorem valField_of_reads {σ α : Type} (Inv : σ → Prop) (k : Nat) (body : Nat → Int → Dec → σ → σ × Dec)
    (step : σ → Int → TVal → σ) (id : Int) (v : TVal) (rd : Dec → α × Dec) (set : σ → α → σ) (a : α)
    (hbody : ∀ ty d s, body ty id d s = (set s (rd d).1, (rd d).2))
    (hstep : ∀ s, step s id v = set s a)
    (hreads : ∀ b2, Enc (.val v) b2 → Reads k rd b2 a) : ValFieldOK Inv body step k id v := by
  intro b2 hb2 s _ d r hd
  obtain ⟨bv, h⟩ := hreads b2 hb2 d r hd
  exact ⟨bv, by show body v.ty.code id d s = _; rw [hbody, h, hstep]⟩

theorem stackBudget_big (k : Nat) (hk : k ≤ maxNesting) : k < stackBudget := by
  unfold maxNesting at hk; unfold stackBudget; omega

/-- a handler that skips a field (unknown id) holding a non-bool value -/
theorem valField_skip {σ : Type} (Inv : σ → Prop) (k : Nat) (hk : k ≤ maxNesting) (body : Nat → Int → Dec → σ → σ × Dec)
    (step : σ → Int → TVal → σ) (id : Int) (v : TVal) (hnb : v.ty ≠ .bool) (hdep : v.depth ≤ k)
    (hbody : ∀ ty d s, body ty id d s = (s, skipField Cfg.fixed ty d))
    (hstep : ∀ s, step s id v = s) : ValFieldOK Inv body step k id v := by
  intro b2 hb2 s _ d r hd
  obtain ⟨bv, h⟩ := (skip_consumes v hnb b2 hb2 stackBudget
    (Nat.lt_of_le_of_lt hdep (stackBudget_big k hk))).weaken hdep d r hd
  refine ⟨bv, ?_⟩
  show body v.ty.code id d s = _
  simp only [Prod.mk.injEq, true_and] at h
  rw [hbody, hstep]
  unfold skipField
  rw [h]

/-- a handler that skips a bool field (unknown id): the pending value is dropped -/
theorem boolField_skip {σ : Type} (Inv : σ → Prop) (k : Nat) (body : Nat → Int → Dec → σ → σ × Dec)
    (step : σ → Int → TVal → σ) (id : Int) (b : Bool)
    (hbody : ∀ ty d s, body ty id d s = (s, skipField Cfg.fixed ty d))
    (hstep : ∀ s, step s id (.bool b) = s) : BoolFieldOK Inv body step k id b := by
  intro d s _ hs _ _ _ _
  refine ⟨d.boolValue, ?_⟩
  rw [hbody, hstep]
  unfold skipField stackBudget
  cases b
  · simp only [fieldCode]; rw [skip_2 _ _ _ hs]
  · simp only [fieldCode]; rw [skip_1 _ _ _ hs]

/-- a handler that reads a bool field with `thrift_read_bool` -/
theorem boolField_read {σ : Type} (Inv : σ → Prop) (k : Nat) (body : Nat → Int → Dec → σ → σ × Dec)
    (step : σ → Int → TVal → σ) (id : Int) (b : Bool) (set : σ → Bool → σ)
    (hbody : ∀ ty d s, body ty id d s = (set s (readBool d).1, (readBool d).2))
    (hstep : ∀ s, step s id (.bool b) = set s b) : BoolFieldOK Inv body step k id b := by
  intro d s _ _ hp hv _ _
  refine ⟨d.boolValue, ?_⟩
  rw [hbody, hstep, readBool_pending d hp, hv]

/-! ### lists -/

theorem readMany_elems {α : Type} (elem : Dec → α × Dec) (conv : TVal → α) (k : Nat) : ∀ (xs : List TVal) (bs : List UInt8),
    (∀ x ∈ xs, ∀ b, Enc (.val x) b → Reads k elem b (conv x)) → Enc (.elems xs) bs →
    Reads k (readMany elem xs.length) bs (xs.map conv) := by
  intro xs
  induction xs with
  | nil =>
    intro bs _ henc d r hd
    have := enc_elems_nil henc; subst this
    exact ⟨d.boolValue, by simp only [List.length_nil, readMany, List.map_nil, Nat.add_zero]; have := hd.rest; simp at this; rw [← this]; rfl⟩
  | cons x rest ih =>
    intro bs hx henc d r hd
    obtain ⟨b1, b2, rfl, h1, h2⟩ := enc_elems_cons henc
    obtain ⟨bv, e1⟩ := hx x List.mem_cons_self b1 h1 d (b2 ++ r) hd.split
    obtain ⟨bv', e2⟩ := ih b2 (fun y hy => hx y (List.mem_cons_of_mem _ hy)) h2 _ r
      (hd.split.next rfl (Nat.le_refl k) (d.pos + b1.length) bv)
    refine ⟨bv', ?_⟩
    simp only [List.length_cons, readMany, e1, e2, List.map_cons, atb_atb, atb_pos, List.length_append, Prod.mk.injEq, true_and]
    congr 1
    omega

/-- `thrift_read_list_begin; VALIDATE_COUNT; for … elem` on a list value within the limit -/
theorem parseListOf_reads {α : Type} (max : Int) (elem : Dec → α × Dec) (conv : TVal → α) (k : Nat)
    (et : TType) (xs : List TVal) (hmax : (xs.length : Int) ≤ max)
    (helem : ∀ x ∈ xs, ∀ b, Enc (.val x) b → Reads k elem b (conv x)) :
    ∀ bs, Enc (.val (.list et xs)) bs → Reads k (parseListOf max elem) bs (some (xs.map conv)) := by
  intro bs henc d r hd
  obtain ⟨hdr, body, rfl, hlen, _, hh, he⟩ := enc_list_inv henc
  have hblen : xs.length ≤ body.length := enc_len he
  have hr0 : d.rest = hdr ++ (body ++ r) := by rw [hd.rest]; simp
  obtain ⟨ec, _, hlb⟩ := readListBegin_hdr hh hlen d (body ++ r) hr0 (by simp; omega)
  have hrd : Ready (d.atb (body ++ r) (d.pos + hdr.length) d.boolValue) body r k :=
    ⟨rfl, hd.ok, hd.nb, hd.room, by have := hd.bud; rw [hr0] at this; simp at this ⊢; omega⟩
  obtain ⟨bv, hm⟩ := readMany_elems elem conv k xs body helem he _ r hrd
  refine ⟨bv, ?_⟩
  unfold parseListOf
  have hn1 : ¬ ((xs.length : Int) < 0 ∨ max < (xs.length : Int)) := by omega
  simp only [hlb, hn1, if_false, Int.toNat_natCast, hm, atb_atb, atb_pos, List.length_append, Prod.mk.injEq, true_and]
  congr 1
  omega

end Carquet.Proofs.Thrift
