import Carquet.Spec.Crc32
import Carquet.Impl.Crc32
import Carquet.Proofs.Crc32Linear
/-
Helper lemmas for C14_impl_eq_spec: the table entries are iterated `step8`, a tail step is a
byte step, and one slicing-by-8 step is eight byte steps.
-/
namespace Carquet.Proofs.Crc32
open Carquet.Spec.Crc32
open Carquet.Impl.Crc32 (tblStep table0 table le32 idx slice8 tailStep loop)

/-! ### iterated step1 -/

theorem iter_step1_zero (n : Nat) : iter step1 n 0#32 = 0#32 := by
  induction n with
  | zero => rfl
  | succ n ih => simp [iter, step1_zero, ih]

theorem iter_step1_xor (n : Nat) (a b : BitVec 32) :
    iter step1 n (a ^^^ b) = iter step1 n a ^^^ iter step1 n b := by
  induction n generalizing a b with
  | zero => rfl
  | succ n ih => simp [iter, step1_xor, ih]

theorem iter_step1_injective (n : Nat) {a b : BitVec 32} (h : iter step1 n a = iter step1 n b) :
    a = b := by
  induction n generalizing a b with
  | zero => exact h
  | succ n ih => exact step1_injective (ih h)

/-- If the low `n` bits are zero, `n` LFSR steps are a plain shift. -/
theorem iter_step1_of_low_zero (n : Nat) (c : BitVec 32) (h : ∀ k, k < n → c.getLsbD k = false) :
    iter step1 n c = c >>> n := by
  induction n generalizing c with
  | zero => simp [iter]
  | succ n ih =>
    have h0 : c.getLsbD 0 = false := h 0 (by omega)
    rw [iter, step1_of_low_false h0, ih, ← BitVec.shiftRight_add, Nat.add_comm]
    intro k hk
    rw [BitVec.getLsbD_ushiftRight]
    exact h (1 + k) (by omega)

/-! ### step8 -/

theorem step8_eq_iter (c : BitVec 32) : step8 c = iter step1 8 c := rfl

theorem step8_zero : step8 0#32 = 0#32 := by decide

theorem step8_xor (a b : BitVec 32) : step8 (a ^^^ b) = step8 a ^^^ step8 b := by
  simp only [step8_eq_iter, iter_step1_xor]

theorem iter_step8_zero (n : Nat) : iter step8 n 0#32 = 0#32 := by
  induction n with
  | zero => rfl
  | succ n ih => simp [iter, step8_zero, ih]

theorem iter_step8_xor (n : Nat) (a b : BitVec 32) :
    iter step8 n (a ^^^ b) = iter step8 n a ^^^ iter step8 n b := by
  induction n generalizing a b with
  | zero => rfl
  | succ n ih => simp [iter, step8_xor, ih]

theorem getLsbD_ff (i : Nat) : (0xFF#32).getLsbD i = decide (i < 8) := by
  have : (0xFF#32) = BitVec.ofNat 32 (2 ^ 8 - 1) := rfl
  rw [this, BitVec.getLsbD_ofNat, Nat.testBit_two_pow_sub_one]
  by_cases h : i < 8
  · have : i < 32 := by omega
    simp [h, this]
  · simp [h]

/-- split a register into its low byte and the rest -/
theorem split_low_byte (c : BitVec 32) : c = (c &&& 0xFF#32) ^^^ ((c >>> 8) <<< 8) := by
  apply BitVec.eq_of_getLsbD_eq
  intro i hi
  simp only [BitVec.getLsbD_xor, BitVec.getLsbD_and, getLsbD_ff, BitVec.getLsbD_shiftLeft,
    BitVec.getLsbD_ushiftRight]
  by_cases h : i < 8
  · simp [h]
  · have : 8 + (i - 8) = i := by omega
    simp [h, hi, this]

theorem shl8_shr8 (x : BitVec 32) : ((x >>> 8) <<< 8) >>> 8 = x >>> 8 := by
  apply BitVec.eq_of_getLsbD_eq
  intro i hi
  simp only [BitVec.getLsbD_shiftLeft, BitVec.getLsbD_ushiftRight]
  by_cases h : 8 + i < 32
  · have : 8 + (8 + i - 8) = 8 + i := by omega
    simp [h]
  · have : x.getLsbD (8 + i) = false := BitVec.getLsbD_of_ge _ _ (by omega)
    simp [h, this]

/-- The table-driven byte update: `step8 c = step8 (low byte) ⊕ (c >> 8)`. -/
theorem step8_split (c : BitVec 32) : step8 c = step8 (c &&& 0xFF#32) ^^^ (c >>> 8) := by
  conv => lhs; rw [split_low_byte c]
  rw [step8_xor]
  congr 1
  rw [step8_eq_iter, iter_step1_of_low_zero, shl8_shr8]
  intro k hk
  simp [BitVec.getLsbD_shiftLeft]; omega

/-! ### the C table generation -/

theorem and_one_eq_one_iff (c : BitVec 32) : (c &&& 1#32 = 1#32) ↔ c.getLsbD 0 = true := by
  constructor
  · intro h
    have := congrArg (fun v => v.getLsbD 0) h
    simpa using this
  · intro h
    apply BitVec.eq_of_getLsbD_eq
    intro i hi
    cases i with
    | zero => simp [h]
    | succ i => simp [BitVec.getLsbD_one]

theorem tblStep_eq_step1 (c : BitVec 32) : tblStep c = step1 c := by
  unfold tblStep step1
  simp only [and_one_eq_one_iff]
  rfl

theorem table0_eq (i : Nat) : table0 i = step8 (BitVec.ofNat 32 i) := by
  simp only [table0, tblStep_eq_step1, step8]

theorem ofNat_toNat32 (v : BitVec 32) : BitVec.ofNat 32 v.toNat = v := by simp

/-- `crc32_tables[k][i]` is `k+1` byte steps applied to `i`. -/
theorem table_eq (k i : Nat) : table k i = iter step8 (k + 1) (BitVec.ofNat 32 i) := by
  induction k with
  | zero => simp [table, table0_eq, iter]
  | succ k ih =>
    rw [table, table0_eq, ofNat_toNat32, BitVec.xor_comm, ← step8_split, ih, ← iter_succ' step8]

end Carquet.Proofs.Crc32
