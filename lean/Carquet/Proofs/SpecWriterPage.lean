import Carquet.Impl.FileReal
import Carquet.Impl.WriterSpecTable
import Carquet.Spec.File.Read
import Carquet.Proofs.SpecWriterInv
import Carquet.Proofs.SpecFileEnvelope
import Carquet.Proofs.RleEncoder
import Carquet.Proofs.RleSpecDecoder
import Carquet.Proofs.PlainBytes
import Carquet.Proofs.PlainBool
import Carquet.Proofs.StatsPage
import Carquet.Proofs.SpecWriterHeader
/-
Page-body stage of `Spec.File.read` on the bodies carquet's page writer forms
(`Impl.Writer.pageBody` over the real components): definition levels written by `encode_levels`
(4-byte length + `carquet_rle_encode_all`) are read back by the Spec RLE-hybrid decoder (C12), the
PLAIN values of all eight types by the Spec PLAIN decoders (C12), the running min / max of the page
writer are true bounds in `Spec.Order` (C16) so that the reader's truth check of the header
statistics accepts them, and the entries the reader assembles are those of `specChunkOf`.

`PageGood` is the invariant of page builders this needs (preserved by `addValues` for batches that
are `BatchOk`); it is threaded through the writer by Proofs/SpecWriterInv.lean.
-/
namespace Carquet.Proofs.SpecWriter
open Carquet.Impl Carquet.Impl.Writer Carquet.Impl.FileReal
open Carquet.Spec Carquet.Spec.File
open Carquet.Proofs.WriterTable Carquet.Proofs.SpecFile

/-! ### what the caller must hand to `write_batch` -/

/-- a value is the PLAIN bit pattern of its column's type -/
def valOkT (t : PType) (typeLen : Nat) (v : Val) : Prop :=
  match t with
  | .boolean => v = [0] ∨ v = [1]
  | .int32 => v.length = 4
  | .int64 => v.length = 8
  | .int96 => v.length = 12
  | .float => v.length = 4
  | .double => v.length = 8
  | .byteArray => v.length < 2 ^ 31
  | .flba => v.length = typeLen

def ValOk (c : Col) (v : Val) : Prop := valOkT c.ptype c.typeLen v

instance (t : PType) (typeLen : Nat) (v : Val) : Decidable (valOkT t typeLen v) := by
  unfold valOkT; cases t <;> exact inferInstance

instance (c : Col) (v : Val) : Decidable (ValOk c v) := by unfold ValOk; exact inferInstance

/-- the arrays of one `write_batch` call hold what the counts say: as many dense values as entries
(REQUIRED, or NULL def_levels) or as definition levels equal to 1 (OPTIONAL, REPEATED: an entry with
definition level 0 — a null, an empty list — carries no value), one definition level and, when
rep_levels is passed, one repetition level per entry, none above the column's maximum, every value
of the column's type -/
structure BatchOk (c : Col) (b : Batch) : Prop where
  valsLen : b.vals.length = numNonNull c b
  defsLen : ∀ ds, b.defs = some ds → ds.length = b.nrows
  defsLe : c.maxDef > 0 → ∀ ds, b.defs = some ds → ∀ d ∈ ds, d ≤ c.maxDef
  valsOk : ∀ v ∈ b.vals, ValOk c v
  repsLen : ∀ rs, b.reps = some rs → rs.length = b.nrows
  repsLe : c.maxRep > 0 → ∀ rs, b.reps = some rs → ∀ r ∈ rs, r ≤ c.maxRep

/-- invariant of page builders -/
structure PageGood (c : Col) (p : Page) : Prop where
  defsLen : c.maxDef > 0 → p.defs.length = p.numValues
  defsNil : c.maxDef = 0 → p.defs = []
  defsLe : ∀ d ∈ p.defs, d ≤ c.maxDef
  repsNil : c.maxRep = 0 → p.reps = []
  valsLen : p.values.length = if c.maxDef > 0 then (p.defs.filter (· == c.maxDef)).length else p.numValues
  valsOk : ∀ v ∈ p.values, ValOk c v
  nulls : p.numNulls = (p.defs.filter (· < c.maxDef)).length
  minMax : p.minMax = if hasStats c.ptype then p.values.foldl (FileReal.statsStep c.ptype) none else none
  repsLen : c.maxRep > 0 → p.reps.length = p.numValues
  repsLe : ∀ r ∈ p.reps, r ≤ c.maxRep

theorem filter_lt_add_filter_eq (m : Nat) : ∀ (ds : List Nat), (∀ d ∈ ds, d ≤ m) →
    (ds.filter (· < m)).length + (ds.filter (· == m)).length = ds.length
  | [], _ => rfl
  | d :: r, h => by
    have ih := filter_lt_add_filter_eq m r (fun x hx => h x (by simp [hx]))
    have hd := h d (by simp)
    by_cases he : d = m
    · have h1 : ¬ d < m := by omega
      simp [List.filter_cons, he] at ih ⊢
      omega
    · have h1 : d < m := by omega
      simp [List.filter_cons, he, h1] at ih ⊢
      omega

theorem pageGood_empty (c : Col) : PageGood c {} := by
  refine ⟨fun _ => rfl, fun _ => rfl, fun d hd => by simp at hd, fun _ => rfl, ?_, fun v hv => by simp at hv, rfl, ?_,
    fun _ => rfl, fun r hr => by simp at hr⟩
  · simp
  · simp

/-- `add_values` keeps one repetition level per entry -/
theorem addValues_repsLen (D : Deps) (c : Col) (p : Page) (b : Batch)
    (h : c.maxRep > 0 → p.reps.length = p.numValues) (hb : ∀ rs, b.reps = some rs → rs.length = b.nrows) :
    c.maxRep > 0 → (addValues D c p b).reps.length = (addValues D c p b).numValues := by
  intro hm
  have h' := h hm
  cases hr : b.reps with
  | none => simp [addValues, hm, hr, h']
  | some rs => simp [addValues, hm, hr, h', hb rs hr]

theorem addValues_repsLe (D : Deps) (c : Col) (p : Page) (b : Batch)
    (h : ∀ r ∈ p.reps, r ≤ c.maxRep) (hb : c.maxRep > 0 → ∀ rs, b.reps = some rs → ∀ r ∈ rs, r ≤ c.maxRep) :
    ∀ r ∈ (addValues D c p b).reps, r ≤ c.maxRep := by
  intro r hr
  by_cases hm : c.maxRep > 0
  · cases hbr : b.reps with
    | none =>
      simp only [addValues, hm, if_true, hbr, List.mem_append, List.mem_replicate] at hr
      rcases hr with hr | hr
      · exact h r hr
      · omega
    | some rs =>
      simp only [addValues, hm, if_true, hbr, List.mem_append] at hr
      rcases hr with hr | hr
      · exact h r hr
      · exact hb hm rs hbr r hr
  · simp only [addValues, hm, if_false] at hr
    exact h r hr

theorem pageGood_add (o : FileReal.Oracle) (c : Col) (p : Page) (b : Batch) (h : PageGood c p) (hb : BatchOk c b) :
    PageGood c (addValues (deps o) c p b) := by
  have hR1 := addValues_repsLen (deps o) c p b h.repsLen hb.repsLen
  have hR2 := addValues_repsLe (deps o) c p b h.repsLe hb.repsLe
  obtain ⟨col, nrows, defs, vals, reps⟩ := b
  have hv := hb.valsLen
  have hdl := hb.defsLen
  have hdle := hb.defsLe
  simp only [numNonNull] at hv
  by_cases hm : c.maxDef > 0
  · -- OPTIONAL
    cases defs with
    | none =>
      simp only at hv
      refine ⟨?_, fun h0 => by omega, ?_, fun h0 => by simpa [addValues, h0] using h.repsNil h0, ?_, ?_, ?_, ?_, hR1, hR2⟩
      · intro _; simp [addValues, hm, h.defsLen hm]
      · intro d hd
        simp only [addValues, hm, if_true, List.mem_append, List.mem_replicate] at hd
        rcases hd with hd | hd
        · exact h.defsLe d hd
        · omega
      · simp [addValues, hm, h.valsLen, hv, List.filter_append]
      · intro v hv'
        simp only [addValues, List.mem_append] at hv'
        rcases hv' with hv' | hv'
        · exact h.valsOk v hv'
        · exact hb.valsOk v hv'
      · have hlt : ¬ (c.maxDef < c.maxDef) := by omega
        simp [addValues, hm, h.nulls, List.filter_append, hlt]
      · simp [addValues, h.minMax, deps]
        split <;> simp
    | some ds =>
      simp only [hm, if_true] at hv
      have hl := hdl ds rfl
      have hle := hdle hm ds rfl
      simp only at hl
      refine ⟨?_, fun h0 => by omega, ?_, fun h0 => by simpa [addValues, h0] using h.repsNil h0, ?_, ?_, ?_, ?_, hR1, hR2⟩
      · intro _; simp [addValues, hm, h.defsLen hm, hl]
      · intro d hd
        simp only [addValues, hm, if_true, List.mem_append] at hd
        rcases hd with hd | hd
        · exact h.defsLe d hd
        · exact hle d hd
      · simp [addValues, hm, h.valsLen, hv, List.filter_append]
      · intro v hv'
        simp only [addValues, List.mem_append] at hv'
        rcases hv' with hv' | hv'
        · exact h.valsOk v hv'
        · exact hb.valsOk v hv'
      · have := filter_lt_add_filter_eq c.maxDef ds hle
        simp only [addValues, hm, if_true, numNonNull, h.nulls, List.filter_append, List.length_append]
        omega
      · simp [addValues, h.minMax, deps]
        split <;> simp
  · -- REQUIRED
    have hm0 : c.maxDef = 0 := by omega
    have hvn : vals.length = nrows := by
      cases defs <;> simpa [hm] using hv
    refine ⟨fun h0 => absurd h0 hm, ?_, ?_, fun h0 => by simpa [addValues, h0] using h.repsNil h0, ?_, ?_, ?_, ?_, hR1, hR2⟩
    · intro _; simp [addValues, hm, h.defsNil hm0]
    · intro d hd
      simp only [addValues, hm, if_false] at hd
      exact h.defsLe d hd
    · have := h.valsLen
      simp only [hm, if_false] at this
      simp [addValues, hm, this, hvn]
    · intro v hv'
      simp only [addValues, List.mem_append] at hv'
      rcases hv' with hv' | hv'
      · exact h.valsOk v hv'
      · exact hb.valsOk v hv'
    · have := h.nulls
      simp only [h.defsNil hm0, List.filter_nil, List.length_nil] at this
      cases defs <;> simp [addValues, hm, this, h.defsNil hm0]
    · simp [addValues, h.minMax, deps]
      split <;> simp

/-- the page predicate threaded through the writer -/
def goodPred (o : FileReal.Oracle) : PagePred (deps o) :=
  { P := PageGood, Q := BatchOk, empty := pageGood_empty, add := pageGood_add o,
    repsWF := fun c p h h0 => by
      by_cases hm : c.maxRep = 0
      · exact h.repsNil hm
      · exact List.eq_nil_of_length_eq_zero ((h.repsLen (by omega)).trans h0) }

/-! ### levels -/

theorem le32_eq_leBytes (n : Nat) : Writer.le32 n = File.leBytes 4 n := by
  simp [Writer.le32, File.leBytes, Nat.div_div_eq_div_mul]

/-- `encode_levels` (length prefix + `carquet_rle_encode_all`) is read back by the reader's level
stage, which stops exactly behind the stream -/
theorem readLevels_levels (m : Nat) (hm0 : m ≠ 0) (hm : m < 2 ^ 32) (ls : List Nat) (hle : ∀ l ∈ ls, l ≤ m)
    (rest : List UInt8) (hlen : (Rle.encode (FileReal.bitWidth m) ls).length < 2 ^ 32) :
    readLevels m ls.length (FileReal.levels m ls ++ rest) = .ok (ls, rest) := by
  have hw : levelWidth m = FileReal.bitWidth m := by
    simp [levelWidth, FileReal.bitWidth, Writer.bitWidthForMax]
  have hwle : FileReal.bitWidth m ≤ 32 := by
    simp only [FileReal.bitWidth, Writer.bitWidthForMax, hm0, if_false]
    have := (Nat.log2_lt hm0).mpr hm
    omega
  have hlt : ∀ l ∈ ls, l < 2 ^ FileReal.bitWidth m := by
    intro l hl
    have h1 := hle l hl
    have h2 : m < 2 ^ (m.log2 + 1) := Nat.lt_log2_self
    simp only [FileReal.bitWidth, Writer.bitWidthForMax, hm0, if_false]
    omega
  obtain ⟨pad, hruns, _, _⟩ := Carquet.Proofs.RleEncoder.encode_runs hwle ls hlt
  have hdec := Carquet.Proofs.RleSpecDecoder.decode_complete hruns ls.length (by simp)
  simp only [List.take_left] at hdec
  generalize henc : Rle.encode (FileReal.bitWidth m) ls = enc at *
  have hbytes : FileReal.levels m ls ++ rest = File.leBytes 4 enc.length ++ (enc ++ rest) := by
    simp [FileReal.levels, henc, le32_eq_leBytes, List.append_assoc]
  have hp4 : (File.leBytes 4 enc.length ++ (enc ++ rest)).take 4 = File.leBytes 4 enc.length :=
    List.take_left' (leBytes_length 4 _)
  have hd4 : (File.leBytes 4 enc.length ++ (enc ++ rest)).drop 4 = enc ++ rest :=
    List.drop_left' (leBytes_length 4 _)
  have hl : (File.leBytes 4 enc.length ++ (enc ++ rest)).length = 4 + enc.length + rest.length := by
    simp [leBytes_length]; omega
  have hn : leNat (File.leBytes 4 enc.length) = enc.length := leNat_leBytes 4 _ (by simpa using hlen)
  unfold readLevels
  rw [hbytes, if_neg hm0, if_neg (by omega), hp4, hd4, hn, if_neg (by simp), List.take_left, hw, hdec]
  have hall : ls.all (· ≤ m) = true := by
    rw [List.all_eq_true]; intro l hl'; simpa using hle l hl'
  simp [hall]

/-! ### PLAIN values -/

/-- the column as the independent reader sees it -/
def leafOf (c : Col) : LeafInfo := ⟨c.maxDef, c.maxRep, specPType c.ptype, c.typeLen, [c.name]⟩

theorem boolBytes_roundtrip : ∀ (vs : List Val), (∀ v ∈ vs, v = [0] ∨ v = [1]) →
    ((vs.map (fun v => v.headD 0)).map (fun v => v != 0)).map boolByte = vs
  | [], _ => rfl
  | v :: r, h => by
    have ih := boolBytes_roundtrip r (fun x hx => h x (by simp [hx]))
    rcases h v (by simp) with rfl | rfl
    · simp only [List.map_cons, ih]; rfl
    · simp only [List.map_cons, ih]; rfl

/-- the values section of a written page (`carquet_encode_plain_*`) is read back by the reader's
PLAIN stage, which consumes it entirely -/
theorem plainValues_written (c : Col) (vals : List Val) (hv : ∀ v ∈ vals, ValOk c v) :
    plainValues (leafOf c) vals.length
      (if c.ptype = .boolean then FileReal.plainBools vals else FileReal.plain c.ptype c.typeLen vals) =
      some (vals, []) := by
  unfold plainValues leafOf ValOk at *
  cases hp : c.ptype <;> simp only [hp, valOkT, specPType, if_true, reduceCtorEq, if_false, FileReal.plain] at hv ⊢
  · -- BOOLEAN
    have henc : FileReal.plainBools vals =
        Spec.Plain.encodeBool ((vals.map (fun v => v.headD 0)).map (fun v => v != 0)) := by
      simp [FileReal.plainBools, Plain.encodeBoolean, Carquet.Proofs.Plain.packBools_eq_spec]
    have hdec := Carquet.Proofs.Plain.spec_decodeBool_encode ((vals.map (fun v => v.headD 0)).map (fun v => v != 0)) []
    have hl := Carquet.Proofs.Plain.encodeBool_length ((vals.map (fun v => v.headD 0)).map (fun v => v != 0))
    simp only [List.length_map, List.append_nil] at hdec hl
    rw [henc, hdec]
    simp only [boolBytes_roundtrip vals hv]
    rw [List.drop_eq_nil_of_le (by rw [hl]; unfold Spec.Plain.boolBytes; exact Nat.le_refl _)]
  · simpa [Spec.Plain.encodeFlba] using Carquet.Proofs.Plain.spec_decodeFlba_encode 4 vals hv []
  · simpa [Spec.Plain.encodeFlba] using Carquet.Proofs.Plain.spec_decodeFlba_encode 8 vals hv []
  · simpa [Spec.Plain.encodeFlba] using Carquet.Proofs.Plain.spec_decodeFlba_encode 12 vals hv []
  · simpa [Spec.Plain.encodeFlba] using Carquet.Proofs.Plain.spec_decodeFlba_encode 4 vals hv []
  · simpa [Spec.Plain.encodeFlba] using Carquet.Proofs.Plain.spec_decodeFlba_encode 8 vals hv []
  · have hlt : ∀ v ∈ vals, v.length < 2 ^ 32 := fun v h => Nat.lt_trans (hv v h) (by decide)
    rw [Carquet.Proofs.Plain.encodeByteArray_eq_spec vals hlt]
    have := Carquet.Proofs.Plain.spec_decodeByteArray_encode vals [] hlt
    simpa using this
  · simpa [Spec.Plain.encodeFlba] using Carquet.Proofs.Plain.spec_decodeFlba_encode c.typeLen vals hv []

/-! ### statistics: the page writer's running min / max are true bounds -/

open Carquet.Proofs.StatsBuilder in
/-- the running min / max as the abstract `MM` of Proofs/StatsBuilder -/
def mmOfOpt : Option (Val × Val) → MM
  | none => ⟨false, [], []⟩
  | some (mn, mx) => ⟨true, mn, mx⟩

theorem orderType_eq (t : PType) : FileReal.orderType t = specPType t := by cases t <;> rfl

theorem hasStats_tracked (t : PType) (h : hasStats t = true) : Stats.pwTracked (specPType t) = true := by
  cases t <;> simp [hasStats] at h <;> rfl

open Carquet.Proofs.StatsBuilder Carquet.Proofs.StatsPage Carquet.Proofs.StatsCmp in
theorem statsStep_mm (t : PType) (ht : Stats.pwTracked (specPType t) = true) (cur : Option (Val × Val)) (v : Val) :
    mmOfOpt (FileReal.statsStep t cur v) = (mmOfOpt cur).step (specPType t) v := by
  cases cur with
  | none => simp [FileReal.statsStep, mmOfOpt, MM.step]
  | some q =>
    obtain ⟨mn, mx⟩ := q
    simp [FileReal.statsStep, mmOfOpt, MM.step, orderType_eq, pwLess_eq _ ht, pwGreater_eq _ ht, cmpTyped_eq]
    exact ⟨rfl, rfl⟩

open Carquet.Proofs.StatsBuilder in
theorem statsFold_mm (t : PType) (ht : Stats.pwTracked (specPType t) = true) : ∀ (vals : List Val) (cur : Option (Val × Val)),
    mmOfOpt (vals.foldl (FileReal.statsStep t) cur) = vals.foldl (MM.step (specPType t)) (mmOfOpt cur)
  | [], _ => rfl
  | v :: r, cur => by
    simp only [List.foldl_cons]
    rw [statsFold_mm t ht r, statsStep_mm t ht]

open Carquet.Proofs.StatsBuilder in
/-- after folding `update_statistics_*` over the values of a page: both bounds are values of the
page and bound every value in the statistics order of the type -/
theorem statsFold_bounds (t : PType) (ht : hasStats t = true) (vals : List Val) (mn mx : Val)
    (h : vals.foldl (FileReal.statsStep t) none = some (mn, mx)) :
    mn ∈ vals ∧ mx ∈ vals ∧ ∀ v ∈ vals, Order.tle (specPType t) mn v ∧ Order.tle (specPType t) v mx := by
  have hinv := MM.fold_inv (specPType t) vals ⟨false, [], []⟩ [] (MM.inv_empty _ [] [])
  have hm := statsFold_mm t (hasStats_tracked t ht) vals none
  rw [h] at hm
  simp only [mmOfOpt] at hm
  rw [← hm] at hinv
  obtain ⟨a, b, c⟩ := hinv.2 rfl
  simp only [List.nil_append, List.mem_map, Option.some.injEq, exists_eq_right] at a b c
  exact ⟨a, b, fun v hv => c v hv⟩

theorem validStat_of_valOk (c : Col) (hs : hasStats c.ptype = true) (v : Val) (hv : ValOk c v) :
    validStat (leafOf c) v = true := by
  unfold validStat leafOf ValOk at *
  cases hp : c.ptype <;> simp [hp, hasStats] at hs <;> simp only [hp, valOkT, specPType] at hv ⊢ <;>
    exact decide_eq_true (by simp [Order.Valid, Order.PType.width, hv])

/-- the definition levels the reader decodes from a written page -/
theorem specDefs_pageData (c : Col) (p : Page) :
    specDefs c (pageData p) = if c.maxDef = 0 then List.replicate p.numValues 0 else p.defs := rfl

/-- **the statistics of a written page header pass the reader's truth check** -/
theorem checkStats_written (c : Col) (p : Page) (hg : PageGood c p) :
    checkStats (leafOf c) (specDefs c (pageData p)) p.values ((pageStatsOf p).map statsMetaOf) = .ok () := by
  unfold pageStatsOf
  rw [hg.minMax]
  by_cases hs : hasStats c.ptype = true
  · simp only [hs, if_true]
    cases hf : p.values.foldl (FileReal.statsStep c.ptype) none with
    | none => rfl
    | some q =>
      obtain ⟨mn, mx⟩ := q
      obtain ⟨hmn, hmx, hb⟩ := statsFold_bounds c.ptype hs p.values mn mx hf
      have hnull : checkNullCount (leafOf c) (specDefs c (pageData p)) (some (p.numNulls : Int)) = .ok () := by
        unfold checkNullCount
        rw [specDefs_pageData, hg.nulls]
        by_cases h0 : c.maxDef = 0
        · simp [h0, leafOf]
        · simp [h0, leafOf]
          rfl
      have hmin : checkBound (leafOf c) true p.values (some mn) = .ok () := by
        have hall : p.values.all (fun v => decide (Order.tle (leafOf c).ptype mn v)) = true := by
          rw [List.all_eq_true]; intro v hv; exact decide_eq_true (hb v hv).1
        simp [checkBound, validStat_of_valOk c hs mn (hg.valsOk mn hmn), hall]
      have hmax : checkBound (leafOf c) false p.values (some mx) = .ok () := by
        have hall : p.values.all (fun v => decide (Order.tle (leafOf c).ptype v mx)) = true := by
          rw [List.all_eq_true]; intro v hv; exact decide_eq_true (hb v hv).2
        simp [checkBound, validStat_of_valOk c hs mx (hg.valsOk mx hmx), hall]
      have hnone1 : checkBound (leafOf c) true p.values none = .ok () := rfl
      have hnone2 : checkBound (leafOf c) false p.values none = .ok () := rfl
      simp only [Option.map_some, statsMetaOf, checkStats, hnull, hmin, hmax, hnone1, hnone2, andThen]
  · simp [hs]
    rfl

/-! ### entries -/

theorem assemble_flat (m : Nat) : ∀ (ds : List Nat) (vs : List Val),
    assemble m (List.replicate ds.length 0) ds vs = specEntries m ds vs
  | [], _ => rfl
  | d :: r, vs => by
    simp only [List.length_cons, List.replicate_succ, assemble, specEntries]
    by_cases hd : d = m
    · simp only [hd, if_true]
      cases vs with
      | nil => simp only [assemble_flat m r []]
      | cons v vs' => simp only [assemble_flat m r vs']
    · simp only [hd, if_false, assemble_flat m r vs]

/-- the reader's `assemble` and the table's `specEntriesR` are the same function -/
theorem assemble_eq (m : Nat) : ∀ (rs ds : List Nat) (vs : List Val),
    assemble m rs ds vs = specEntriesR m rs ds vs
  | [], _, _ => by simp [assemble, specEntriesR]
  | _ :: _, [], _ => by simp [assemble, specEntriesR]
  | r :: rs, d :: ds, vs => by
    simp only [assemble, specEntriesR]
    by_cases hd : d = m
    · simp only [hd, if_true]
      cases vs with
      | nil => simp only [assemble_eq m rs ds []]
      | cons v vs' => simp only [assemble_eq m rs ds vs']
    · simp only [hd, if_false, assemble_eq m rs ds vs]

/-- for a non-repeated column the entries are those of `specEntries` (repetition level 0) -/
theorem specEntriesR_flat (m : Nat) (ds : List Nat) (vs : List Val) :
    specEntriesR m (List.replicate ds.length 0) ds vs = specEntries m ds vs := by
  rw [← assemble_eq]; exact assemble_flat m ds vs

/-- the repetition levels the reader decodes from a written page -/
theorem specReps_pageData (c : Col) (p : Page) :
    specReps c (pageData p) = if c.maxRep = 0 then List.replicate p.numValues 0 else p.reps := rfl

theorem specReps_length (c : Col) (p : Page) (hg : PageGood c p) : (specReps c (pageData p)).length = p.numValues := by
  rw [specReps_pageData]
  by_cases h0 : c.maxRep = 0
  · simp [h0]
  · simp only [h0, if_false]; exact hg.repsLen (by omega)

theorem specDefs_length (c : Col) (p : Page) (hg : PageGood c p) : (specDefs c (pageData p)).length = p.numValues := by
  rw [specDefs_pageData]
  by_cases h0 : c.maxDef = 0
  · simp [h0]
  · simp only [h0, if_false]; exact hg.defsLen (by omega)

theorem nonNullCount_specDefs (c : Col) (p : Page) (hg : PageGood c p) :
    nonNullCount c.maxDef (specDefs c (pageData p)) = p.values.length := by
  rw [specDefs_pageData, hg.valsLen]
  unfold nonNullCount
  by_cases h0 : c.maxDef = 0
  · simp [h0]
  · have : c.maxDef > 0 := by omega
    simp [h0, this]

/-- **page-body stage**: the independent reader decodes the body of a written page (under the
header it carries) to the entries of the page's content — repetition levels (REPEATED columns),
definition levels, PLAIN values, true statistics. -/
theorem decodeDataPage_written (o : FileReal.Oracle) (c : Col) (p : Page) (hg : PageGood c p)
    (hrep : c.maxRep < 2 ^ 32) (hdef : c.maxDef < 2 ^ 32) (hrows : 0 < p.numValues)
    (hlenR : 0 < p.reps.length → (Rle.encode (FileReal.bitWidth c.maxRep) p.reps).length < 2 ^ 32)
    (hlen : 0 < p.defs.length → (Rle.encode (FileReal.bitWidth c.maxDef) p.defs).length < 2 ^ 32) :
    decodeDataPage (leafOf c) none ⟨p.numValues, 0, 3, 3, (pageStatsOf p).map statsMetaOf⟩ (pageBody (deps o) c p) =
      .ok (specChunkOf c (pageData p)) := by
  have hvals := plainValues_written c p.values hg.valsOk
  have hnn := nonNullCount_specDefs c p hg
  have hst := checkStats_written c p hg
  -- the two level stages
  have hrl : ∀ rest, readLevels c.maxRep p.numValues
      ((if 0 < p.reps.length then FileReal.levels c.maxRep p.reps else []) ++ rest) =
      .ok (specReps c (pageData p), rest) := by
    intro rest
    rw [specReps_pageData]
    by_cases h0 : c.maxRep = 0
    · simp [readLevels, h0, hg.repsNil h0]
    · have hl := hg.repsLen (by omega)
      have hpos : 0 < p.reps.length := by omega
      simp only [h0, hpos, if_true, if_false]
      rw [← hl]
      exact readLevels_levels c.maxRep h0 hrep p.reps hg.repsLe rest (hlenR hpos)
  have hdl : ∀ rest, readLevels c.maxDef p.numValues
      ((if 0 < p.defs.length then FileReal.levels c.maxDef p.defs else []) ++ rest) =
      .ok (specDefs c (pageData p), rest) := by
    intro rest
    rw [specDefs_pageData]
    by_cases h0 : c.maxDef = 0
    · simp [readLevels, h0, hg.defsNil h0]
    · have hl := hg.defsLen (by omega)
      have hpos : 0 < p.defs.length := by omega
      simp only [h0, hpos, if_true, if_false]
      rw [← hl]
      exact readLevels_levels c.maxDef h0 hdef p.defs hg.defsLe rest (hlen hpos)
  have hbody : pageBody (deps o) c p =
      (if 0 < p.reps.length then FileReal.levels c.maxRep p.reps else []) ++
      ((if 0 < p.defs.length then FileReal.levels c.maxDef p.defs else []) ++
        (if c.ptype = .boolean then FileReal.plainBools p.values else FileReal.plain c.ptype c.typeLen p.values)) := by
    simp [pageBody, deps, List.append_assoc]
  have hmd : (leafOf c).maxDef = c.maxDef := rfl
  have hmr : (leafOf c).maxRep = c.maxRep := rfl
  unfold decodeDataPage
  simp only [hbody, legalEncoding, bind, Except.bind, pure, Except.pure, hmd, hmr, hrl]
  simp only [hdl, hnn, readValues, hvals, hst]
  have hpv : (pageData p).vals = p.values := rfl
  simp [specChunkOf, hst, assemble_eq, hpv]

end Carquet.Proofs.SpecWriter
