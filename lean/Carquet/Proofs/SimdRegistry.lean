import Carquet.Impl.SimdRegistry
import Carquet.Proofs.SimdKernels
import Carquet.Proofs.SimdScalar
import Carquet.Proofs.SimdGather
import Carquet.Proofs.SimdMatch
import Carquet.Proofs.SimdCrc
import Carquet.Proofs.SimdDispatch
/-
C15 helper lemmas: every entry of the registry computes its slot's scalar definition, and every
`(slot, kernel)` pair the initialisation of the dispatch table can produce is one of the table's
listed pairs.
-/
namespace Carquet.Proofs.SimdRegistry
open Carquet Carquet.Impl.Simd Carquet.Impl.Dispatch
open Carquet.Proofs

theorem crcTable_ok :
    ∀ i : Fin 256, Gen.Dispatch.crc32cTable[i.val]? = some (Spec.Kernels.crcStep8 (BitVec.ofNat 32 i.val)).toNat := by
  decide +kernel

theorem sse_crc (crc : BitVec 32) (data : List UInt8) : sseCrc32c crc data = Spec.Kernels.crc32c crc data := by
  unfold sseCrc32c Spec.Kernels.crc32c
  rw [SimdLevels.sseCrcLoops_eq]

theorem k_scalar_prefix_sum_i32_ok : k_scalar_prefix_sum_i32.EqScalar := fun x _ => SimdScalar.scalar_prefix x.1 x.2
theorem k_sse_prefix_sum_i32_ok : k_sse_prefix_sum_i32.EqScalar := fun x _ => SimdKernels.sse_prefix_i32 x.1 x.2
theorem k_avx2_prefix_sum_i32_ok : k_avx2_prefix_sum_i32.EqScalar := fun x _ => SimdKernels.avx2_prefix_i32 x.1 x.2
theorem k_avx512_prefix_sum_i32_ok : k_avx512_prefix_sum_i32.EqScalar := fun x _ => SimdKernels.avx512_prefix_i32 x.1 x.2
theorem k_scalar_prefix_sum_i64_ok : k_scalar_prefix_sum_i64.EqScalar := fun x _ => SimdScalar.scalar_prefix x.1 x.2
theorem k_sse_prefix_sum_i64_ok : k_sse_prefix_sum_i64.EqScalar := fun x _ => SimdKernels.sse_prefix_i64 x.1 x.2
theorem k_avx2_prefix_sum_i64_ok : k_avx2_prefix_sum_i64.EqScalar := fun x _ => SimdKernels.avx2_prefix_i64 x.1 x.2
theorem k_avx512_prefix_sum_i64_ok : k_avx512_prefix_sum_i64.EqScalar := fun x _ => SimdKernels.avx512_prefix_i64 x.1 x.2
theorem k_scalar_gather_i32_ok : k_scalar_gather_i32.EqScalar := fun x _ => SimdGather.scalarGather_spec x.1 x.2
theorem k_sse_gather_i32_ok : k_sse_gather_i32.EqScalar := fun x _ => SimdGather.sse32_spec x.1 x.2
theorem k_avx2_gather_i32_ok : k_avx2_gather_i32.EqScalar := fun x hx => SimdGather.avx2_32_spec x.1 hx x.2
theorem k_avx512_gather_i32_ok : k_avx512_gather_i32.EqScalar := fun x hx => SimdGather.avx512_32_spec x.1 hx x.2
theorem k_scalar_gather_i64_ok : k_scalar_gather_i64.EqScalar := fun x _ => SimdGather.scalarGather_spec x.1 x.2
theorem k_sse_gather_i64_ok : k_sse_gather_i64.EqScalar := fun x _ => SimdGather.sse64_spec x.1 x.2
theorem k_avx2_gather_i64_ok : k_avx2_gather_i64.EqScalar := fun x hx => SimdGather.avx2_64_spec x.1 hx x.2
theorem k_avx512_gather_i64_ok : k_avx512_gather_i64.EqScalar := fun x hx => SimdGather.avx512_64_spec x.1 hx x.2
theorem k_scalar_gather_float_ok : k_scalar_gather_float.EqScalar := fun x _ => SimdGather.scalarGather_spec x.1 x.2
theorem k_sse_gather_float_ok : k_sse_gather_float.EqScalar := fun x _ => SimdGather.sse32_spec x.1 x.2
theorem k_avx2_gather_float_ok : k_avx2_gather_float.EqScalar := fun x hx => SimdGather.avx2_32_spec x.1 hx x.2
theorem k_avx512_gather_float_ok : k_avx512_gather_float.EqScalar := fun x hx => SimdGather.avx512_32_spec x.1 hx x.2
theorem k_scalar_gather_double_ok : k_scalar_gather_double.EqScalar := fun x _ => SimdGather.scalarGather_spec x.1 x.2
theorem k_sse_gather_double_ok : k_sse_gather_double.EqScalar := fun x _ => SimdGather.sse64_spec x.1 x.2
theorem k_avx2_gather_double_ok : k_avx2_gather_double.EqScalar := fun x hx => SimdGather.avx2_64_spec x.1 hx x.2
theorem k_avx512_gather_double_ok : k_avx512_gather_double.EqScalar := fun x hx => SimdGather.avx512_64_spec x.1 hx x.2
theorem k_scalar_byte_split_encode_float_ok : k_scalar_byte_split_encode_float.EqScalar := fun x _ => SimdScalar.scalar_bss_enc_float x
theorem k_sse_byte_stream_split_encode_float_ok : k_sse_byte_stream_split_encode_float.EqScalar := fun x _ => SimdKernels.sse_bss_enc x
theorem k_avx2_byte_stream_split_encode_float_ok : k_avx2_byte_stream_split_encode_float.EqScalar := fun x _ => SimdKernels.avx2_bss_enc x
theorem k_avx512_byte_stream_split_encode_float_ok : k_avx512_byte_stream_split_encode_float.EqScalar := fun x _ => SimdKernels.avx512_bss_enc x
theorem k_scalar_byte_split_decode_float_ok : k_scalar_byte_split_decode_float.EqScalar := fun x hx => SimdScalar.scalar_bss_dec 4 x.1 x.2 hx
theorem k_sse_byte_stream_split_decode_float_ok : k_sse_byte_stream_split_decode_float.EqScalar := fun x hx => SimdKernels.bss_dec 4 (by decide) sseBssDecBlk SimdBss.sse_dec_block x.1 x.2 hx
theorem k_avx2_byte_stream_split_decode_float_ok : k_avx2_byte_stream_split_decode_float.EqScalar := fun x hx => SimdKernels.bss_dec 8 (by decide) avx2BssDecBlk SimdBss.avx2_dec_block x.1 x.2 hx
theorem k_avx512_byte_stream_split_decode_float_ok : k_avx512_byte_stream_split_decode_float.EqScalar := fun x hx => SimdKernels.bss_dec 16 (by decide) avx512BssDecBlk SimdBss.avx512_dec_block x.1 x.2 hx
theorem k_scalar_byte_split_encode_double_ok : k_scalar_byte_split_encode_double.EqScalar := fun x _ => SimdScalar.scalar_bss_enc_double x
theorem k_sse_byte_stream_split_encode_double_ok : k_sse_byte_stream_split_encode_double.EqScalar := fun x _ => SimdScalar.sse_bss_enc_double x
theorem k_scalar_byte_split_decode_double_ok : k_scalar_byte_split_decode_double.EqScalar := fun x hx => SimdScalar.scalar_bss_dec 8 x.1 x.2 hx
theorem k_sse_byte_stream_split_decode_double_ok : k_sse_byte_stream_split_decode_double.EqScalar := fun x hx => SimdScalar.scalar_bss_dec 8 x.1 x.2 hx
theorem k_scalar_unpack_bools_ok : k_scalar_unpack_bools.EqScalar := fun x _ => SimdScalar.scalar_unpack x.1 x.2
theorem k_sse_unpack_bools_ok : k_sse_unpack_bools.EqScalar := fun x hx => SimdBools.unpack_eq 16 2 rfl (by decide) _ SimdBools.sse_unpack_block x.1 x.2 hx
theorem k_avx2_unpack_bools_ok : k_avx2_unpack_bools.EqScalar := fun x hx => SimdBools.unpack_eq 32 4 rfl (by decide) _ SimdBools.avx2_unpack_block x.1 x.2 hx
theorem k_avx512_unpack_bools_ok : k_avx512_unpack_bools.EqScalar := fun x hx => SimdBools.unpack_eq 64 8 rfl (by decide) _ SimdBools.avx512_unpack_block x.1 x.2 hx
theorem k_scalar_pack_bools_ok : k_scalar_pack_bools.EqScalar := fun _ _ => rfl
theorem k_sse_pack_bools_ok : k_sse_pack_bools.EqScalar := fun x hx => SimdKernels.sse_pack x hx
theorem k_avx2_pack_bools_ok : k_avx2_pack_bools.EqScalar := fun x hx => SimdKernels.avx2_pack x hx
theorem k_avx512_pack_bools_ok : k_avx512_pack_bools.EqScalar := fun x _ => SimdKernels.avx512_pack x
theorem k_scalar_find_run_length_i32_ok : k_scalar_find_run_length_i32.EqScalar := fun x _ => SimdScalar.scalar_find_run x
theorem k_sse_find_run_length_i32_ok : k_sse_find_run_length_i32.EqScalar := fun x _ => SimdKernels.find_run 4 sseRunBlk SimdLevels.sse_run_block x
theorem k_avx2_find_run_length_i32_ok : k_avx2_find_run_length_i32.EqScalar := fun x _ => SimdKernels.find_run 8 avx2RunBlk SimdLevels.avx2_run_block x
theorem k_avx512_find_run_length_i32_ok : k_avx512_find_run_length_i32.EqScalar := fun x _ => SimdKernels.find_run 16 avx512RunBlk SimdLevels.avx512_run_block x
theorem k_scalar_crc32c_ok : k_scalar_crc32c.EqScalar := fun x _ => SimdCrc.scalarCrc32c_eq _ crcTable_ok x.1 x.2
theorem k_sse_crc32c_ok : k_sse_crc32c.EqScalar := fun x _ => sse_crc x.1 x.2
theorem k_scalar_match_copy_ok : k_scalar_match_copy.EqScalar := fun x hx => SimdMatch.scalar_match_copy x.1 hx x.2
theorem k_sse_match_copy_ok : k_sse_match_copy.EqScalar := fun x hx => SimdMatch.sse_match_copy x.1 hx x.2
theorem k_scalar_match_length_ok : k_scalar_match_length.EqScalar := fun x _ => SimdMatch.scalar_match_length x.1 x.2
theorem k_sse_match_length_ok : k_sse_match_length.EqScalar := fun x _ => SimdMatch.sse_match_length x.1 x.2
theorem k_scalar_count_non_nulls_ok : k_scalar_count_non_nulls.EqScalar := fun x _ => SimdScalar.scalar_count x.1 x.2
theorem k_sse_count_non_nulls_ok : k_sse_count_non_nulls.EqScalar := fun x _ => SimdKernels.sse_count x.1 x.2
theorem k_scalar_build_null_bitmap_ok : k_scalar_build_null_bitmap.EqScalar := fun x _ => SimdKernels.scalar_null_bitmap x.1 x.2
theorem k_sse_build_null_bitmap_ok : k_sse_build_null_bitmap.EqScalar := fun x _ => SimdKernels.sse_null_bitmap x.1 x.2
theorem k_scalar_fill_def_levels_ok : k_scalar_fill_def_levels.EqScalar := fun x _ => SimdScalar.scalar_fill x.1 x.2
theorem k_sse_fill_def_levels_ok : k_sse_fill_def_levels.EqScalar := fun x _ => SimdKernels.sse_fill x.1 x.2

theorem registry_certified : ∀ k ∈ registry, k.EqScalar :=
  (List.forall_mem_cons.mpr ⟨k_scalar_prefix_sum_i32_ok,
    (List.forall_mem_cons.mpr ⟨k_sse_prefix_sum_i32_ok,
    (List.forall_mem_cons.mpr ⟨k_avx2_prefix_sum_i32_ok,
    (List.forall_mem_cons.mpr ⟨k_avx512_prefix_sum_i32_ok,
    (List.forall_mem_cons.mpr ⟨k_scalar_prefix_sum_i64_ok,
    (List.forall_mem_cons.mpr ⟨k_sse_prefix_sum_i64_ok,
    (List.forall_mem_cons.mpr ⟨k_avx2_prefix_sum_i64_ok,
    (List.forall_mem_cons.mpr ⟨k_avx512_prefix_sum_i64_ok,
    (List.forall_mem_cons.mpr ⟨k_scalar_gather_i32_ok,
    (List.forall_mem_cons.mpr ⟨k_sse_gather_i32_ok,
    (List.forall_mem_cons.mpr ⟨k_avx2_gather_i32_ok,
    (List.forall_mem_cons.mpr ⟨k_avx512_gather_i32_ok,
    (List.forall_mem_cons.mpr ⟨k_scalar_gather_i64_ok,
    (List.forall_mem_cons.mpr ⟨k_sse_gather_i64_ok,
    (List.forall_mem_cons.mpr ⟨k_avx2_gather_i64_ok,
    (List.forall_mem_cons.mpr ⟨k_avx512_gather_i64_ok,
    (List.forall_mem_cons.mpr ⟨k_scalar_gather_float_ok,
    (List.forall_mem_cons.mpr ⟨k_sse_gather_float_ok,
    (List.forall_mem_cons.mpr ⟨k_avx2_gather_float_ok,
    (List.forall_mem_cons.mpr ⟨k_avx512_gather_float_ok,
    (List.forall_mem_cons.mpr ⟨k_scalar_gather_double_ok,
    (List.forall_mem_cons.mpr ⟨k_sse_gather_double_ok,
    (List.forall_mem_cons.mpr ⟨k_avx2_gather_double_ok,
    (List.forall_mem_cons.mpr ⟨k_avx512_gather_double_ok,
    (List.forall_mem_cons.mpr ⟨k_scalar_byte_split_encode_float_ok,
    (List.forall_mem_cons.mpr ⟨k_sse_byte_stream_split_encode_float_ok,
    (List.forall_mem_cons.mpr ⟨k_avx2_byte_stream_split_encode_float_ok,
    (List.forall_mem_cons.mpr ⟨k_avx512_byte_stream_split_encode_float_ok,
    (List.forall_mem_cons.mpr ⟨k_scalar_byte_split_decode_float_ok,
    (List.forall_mem_cons.mpr ⟨k_sse_byte_stream_split_decode_float_ok,
    (List.forall_mem_cons.mpr ⟨k_avx2_byte_stream_split_decode_float_ok,
    (List.forall_mem_cons.mpr ⟨k_avx512_byte_stream_split_decode_float_ok,
    (List.forall_mem_cons.mpr ⟨k_scalar_byte_split_encode_double_ok,
    (List.forall_mem_cons.mpr ⟨k_sse_byte_stream_split_encode_double_ok,
    (List.forall_mem_cons.mpr ⟨k_scalar_byte_split_decode_double_ok,
    (List.forall_mem_cons.mpr ⟨k_sse_byte_stream_split_decode_double_ok,
    (List.forall_mem_cons.mpr ⟨k_scalar_unpack_bools_ok,
    (List.forall_mem_cons.mpr ⟨k_sse_unpack_bools_ok,
    (List.forall_mem_cons.mpr ⟨k_avx2_unpack_bools_ok,
    (List.forall_mem_cons.mpr ⟨k_avx512_unpack_bools_ok,
    (List.forall_mem_cons.mpr ⟨k_scalar_pack_bools_ok,
    (List.forall_mem_cons.mpr ⟨k_sse_pack_bools_ok,
    (List.forall_mem_cons.mpr ⟨k_avx2_pack_bools_ok,
    (List.forall_mem_cons.mpr ⟨k_avx512_pack_bools_ok,
    (List.forall_mem_cons.mpr ⟨k_scalar_find_run_length_i32_ok,
    (List.forall_mem_cons.mpr ⟨k_sse_find_run_length_i32_ok,
    (List.forall_mem_cons.mpr ⟨k_avx2_find_run_length_i32_ok,
    (List.forall_mem_cons.mpr ⟨k_avx512_find_run_length_i32_ok,
    (List.forall_mem_cons.mpr ⟨k_scalar_crc32c_ok,
    (List.forall_mem_cons.mpr ⟨k_sse_crc32c_ok,
    (List.forall_mem_cons.mpr ⟨k_scalar_match_copy_ok,
    (List.forall_mem_cons.mpr ⟨k_sse_match_copy_ok,
    (List.forall_mem_cons.mpr ⟨k_scalar_match_length_ok,
    (List.forall_mem_cons.mpr ⟨k_sse_match_length_ok,
    (List.forall_mem_cons.mpr ⟨k_scalar_count_non_nulls_ok,
    (List.forall_mem_cons.mpr ⟨k_sse_count_non_nulls_ok,
    (List.forall_mem_cons.mpr ⟨k_scalar_build_null_bitmap_ok,
    (List.forall_mem_cons.mpr ⟨k_sse_build_null_bitmap_ok,
    (List.forall_mem_cons.mpr ⟨k_scalar_fill_def_levels_ok,
    (List.forall_mem_cons.mpr ⟨k_sse_fill_def_levels_ok,
    (fun _ h => by simp at h)⟩)⟩)⟩)⟩)⟩)⟩)⟩)⟩)⟩)⟩)⟩)⟩)⟩)⟩)⟩)⟩)⟩)⟩)⟩)⟩)⟩)⟩)⟩)⟩)⟩)⟩)⟩)⟩)⟩)⟩)⟩)⟩)⟩)⟩)⟩)⟩)⟩)⟩)⟩)⟩)⟩)⟩)⟩)⟩)⟩)⟩)⟩)⟩)⟩)⟩)⟩)⟩)⟩)⟩)⟩)⟩)⟩)⟩)⟩)⟩)

/-! ### what the fold over the blocks can return -/

theorem fold_mem (mask slot : Nat) : ∀ (bs : List Block) (cur : Nat),
    (bs.zip (bs.map (enabled mask))).foldl (stepE slot) cur = cur ∨
    (slot, (bs.zip (bs.map (enabled mask))).foldl (stepE slot) cur) ∈ bs.flatMap (·.2.2) := by
  intro bs
  induction bs with
  | nil => intro cur; left; rfl
  | cons b bs ih =>
    intro cur
    simp only [List.map_cons, List.zip_cons_cons, List.foldl_cons, List.flatMap_cons, List.mem_append]
    rcases ih (stepE slot cur (b, enabled mask b)) with h | h
    · rw [h]
      unfold stepE
      simp only
      by_cases he : enabled mask b = true
      · simp only [he, if_true]
        cases hl : b.2.2.lookup slot with
        | none => left; rfl
        | some k => right; left; exact SimdDispatch.lookup_mem hl
      · have he' : enabled mask b = false := by simpa using he
        simp [he']
    · right; right; exact h

theorem select_mem_pairs (blocks : List Block) (init : List Nat) (mask slot k : Nat)
    (h : selectIn blocks init mask slot = some k) :
    (slot, k) ∈ (List.range init.length).zip init ++ blocks.flatMap (·.2.2) := by
  unfold selectIn selectE at h
  cases hi : init[slot]? with
  | none => rw [hi] at h; simp at h
  | some k0 =>
    rw [hi] at h
    have hk : (blocks.zip (blocks.map (enabled mask))).foldl (stepE slot) k0 = k := by simpa using h
    have hs : slot < init.length := by
      rcases List.getElem?_eq_some_iff.mp hi with ⟨hlt, _⟩
      exact hlt
    rcases fold_mem mask slot blocks k0 with e | e
    · rw [hk] at e
      apply List.mem_append_left
      rw [List.mem_iff_getElem]
      refine ⟨slot, by simp [hs], ?_⟩
      have : init[slot] = k0 := by
        rcases List.getElem?_eq_some_iff.mp hi with ⟨_, hv⟩
        exact hv
      simp [this, e]
    · rw [hk] at e
      exact List.mem_append_right _ e

/-- from the coverage check: a listed pair has a registry entry under the table's names -/
theorem covered_entry (sk : Nat × Nat) (h : covered sk = true) :
    ∃ sn kn, Gen.Dispatch.slots[sk.1]? = some sn ∧ Gen.Dispatch.kernels[sk.2]? = some kn ∧
      ∃ m ∈ registry, m.name = kn ∧ m.slot.name = sn := by
  unfold covered at h
  cases hs : Gen.Dispatch.slots[sk.1]? with
  | none => rw [hs] at h; simp at h
  | some sn =>
    cases hk : Gen.Dispatch.kernels[sk.2]? with
    | none => rw [hs, hk] at h; simp at h
    | some kn =>
      rw [hs, hk] at h
      simp only [List.any_eq_true, Bool.and_eq_true, beq_iff_eq] at h
      obtain ⟨m, hm, h1, h2⟩ := h
      exact ⟨sn, kn, rfl, rfl, m, hm, h1, h2⟩

end Carquet.Proofs.SimdRegistry
