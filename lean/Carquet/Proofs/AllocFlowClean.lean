import Carquet.Proofs.AllocFlow
import Carquet.Proofs.AllocSchema
/-
Which of the flow models are `Clean` (a refused request always surfaces as an error, success means
the fault-free result, no NULL dereference) — all the repaired ones; and `Det`/`SameEffect` for the
two read-side flows that absorb a refused request (mmap fallback, ignored prefetch).
-/
namespace Carquet.Impl.Alloc.Flow
open Carquet.Impl.Alloc
open Carquet.Impl.Alloc.Buffer (Buf)

theorem clean_arenaInitM (bs : Nat) : Clean (arenaInitM bs) := by
  refine ⟨?_, ?_⟩
  · intro o a o' h
    unfold arenaInitM Arena.initSize Arena.newBlock at *
    by_cases hg : o.grant = true
    · simp [hg] at h
      obtain ⟨h1, h2⟩ := h; subst h1; subst h2
      exact ⟨Granted.step o hg, by simp⟩
    · simp [hg] at h
  · intro o o' h
    unfold arenaInitM Arena.initSize Arena.newBlock at h
    by_cases hg : o.grant = true <;> simp [hg] at h

theorem clean_guard_true {k : M α} (e : Fault) (h : Clean k) : Clean (guardGot true true k e) := by
  simpa [guardGot] using h

theorem clean_guard_false {k : M α} (got : Bool) (e : Fault) (h : Clean k) : Clean (guardGot false got k e) := by
  simpa [guardGot] using h

theorem fails_guard {k : M α} (e : Fault) (he : e ≠ .crash) : Fails (guardGot true false k e) := by
  simp [guardGot]; exact fails_fail e he

attribute [local irreducible] guardGot

theorem clean_reqAll3 : Clean reqAll3 := by
  unfold reqAll3
  refine clean_reqU (clean_reqU (clean_reqU ?_ ?_) ?_) ?_
  · simpa using clean_pure ()
  · simpa using fails_fail (α := Unit) .oom (by decide)
  · refine fails_reqU (fun c => ?_); simpa using fails_fail (α := Unit) .oom (by decide)
  · refine fails_reqU (fun b => fails_reqU (fun c => ?_)); simpa using fails_fail (α := Unit) .oom (by decide)

/-- discharges `Clean` goals built from the checked combinators -/
macro "clean_auto" : tactic => `(tactic|
  repeat (first
    | exact clean_pure _
    | exact clean_req
    | exact clean_reqIf _
    | exact clean_reqAll3
    | exact clean_appendM _ _
    | exact clean_appendAll _ _
    | exact clean_arenaM _ _ _
    | exact clean_arenaInitM _
    | exact clean_encodeChecked _ _
    | exact clean_fail _ (by decide)
    | exact fails_guard _ (by decide)
    | apply_assumption
    | apply clean_guard_true
    | apply clean_arenaU
    | apply clean_bind
    | apply clean_ite
    | apply clean_forEach
    | intro _))

/-! ### schema builder -/

theorem clean_schemaCreate : Clean (schemaCreate true) := by
  unfold schemaCreate; clean_auto

theorem clean_schemaBuild (cols : List (List UInt8 × Nat)) : Clean (schemaBuild true cols) := by
  unfold schemaBuild
  have h1 := clean_schemaCreate
  have h2 := clean_schemaAddColumn
  clean_auto

/-! ### page builder -/

theorem clean_appendRawLevels (b : Buf) (l : Levels) : Clean (appendRawLevels b l) := by
  cases l <;> (unfold appendRawLevels; clean_auto)

theorem clean_pageAddValues (w : PageWriter) (rows : Nat) (d r : Levels) (vc : List (List UInt8)) :
    Clean (pageAddValues w rows d r vc) := by
  unfold pageAddValues
  have := clean_appendRawLevels
  clean_auto

theorem clean_rleEncodeAll (chunks : List (List UInt8)) : Clean (rleEncodeAll chunks) := clean_encodeChecked _ _

theorem clean_encodeLevels (P : Payload) (raw : List UInt8) (maxLevel : Nat) (out : Buf) :
    Clean (encodeLevels P raw maxLevel out) := by
  unfold encodeLevels
  have := clean_rleEncodeAll
  clean_auto

theorem clean_compressData (P : Payload) (codec : Nat) (input : List UInt8) (out : Buf) :
    Clean (compressData P codec input out) := by
  unfold compressData; clean_auto

theorem clean_pageBody (P : Payload) (w : PageWriter) : Clean (pageBody encodeLevels P w) := by
  unfold pageBody
  have := clean_encodeLevels
  clean_auto

theorem clean_pageFinalize (P : Payload) (w : PageWriter) : Clean (pageFinalize P w) := by
  unfold pageFinalize
  have h1 := clean_pageBody
  have h2 := clean_compressData
  clean_auto

theorem clean_pageWriterCreate (d r : Nat) (b : Bool) (c : Nat) : Clean (pageWriterCreate d r b c) := by
  unfold pageWriterCreate; clean_auto

/-! ### column writer, row group writer, file writer -/

section Writer
variable {fin : Payload → PageWriter → M (PageWriter × List UInt8)} (hfin : ∀ P w, Clean (fin P w))
include hfin

theorem clean_flushCurrentPage (P : Payload) (cw : ColumnWriter) : Clean (flushCurrentPage fin P cw) := by
  unfold flushCurrentPage; clean_auto

theorem clean_columnWriteBatch (P : Payload) (cw : ColumnWriter) (b : Batch) : Clean (columnWriteBatch fin P cw b) := by
  unfold columnWriteBatch
  have h1 := clean_pageAddValues
  have h2 := clean_flushCurrentPage hfin
  clean_auto

theorem clean_rowGroupFinalize (P : Payload) (rg : RowGroupWriter) : Clean (rowGroupFinalize fin P rg) := by
  unfold rowGroupFinalize
  have h2 := clean_flushCurrentPage hfin
  clean_auto

end Writer

theorem clean_columnWriterCreate (d r : Nat) (b : Bool) (c t : Nat) : Clean (columnWriterCreate d r b c t) := by
  unfold columnWriterCreate
  have := clean_pageWriterCreate
  clean_auto

theorem clean_rowGroupAddColumn (codec target : Nat) (rg : RowGroupWriter) (c : ColDef) :
    Clean (rowGroupAddColumn true codec target rg c) := by
  unfold rowGroupAddColumn
  have := clean_columnWriterCreate
  refine clean_bind clean_req (fun _ => clean_bind clean_req (fun _ => clean_bind (this _ _ _ _ _) (fun cw => ?_)))
  refine clean_reqU ?_ ?_
  · exact clean_guard_true _ (clean_pure _)
  · exact fails_guard _ (by decide)

theorem clean_ensureRowGroup (codec target : Nat) (cols : List ColDef) : Clean (ensureRowGroup true codec target cols) := by
  unfold ensureRowGroup
  have := clean_rowGroupAddColumn
  clean_auto

theorem clean_writerAddColumn (st : Nat × Nat) (c : ColDef) : Clean (writerAddColumn st c) := by
  unfold writerAddColumn; clean_auto

theorem clean_writerCreate (codec target : Nat) (cols : List ColDef) : Clean (writerCreate codec target cols) := by
  unfold writerCreate
  have := clean_writerAddColumn
  clean_auto

theorem clean_chunkMeta (S : Sizes) (st : Arena.Arena × List ChunkMeta) (c : Option (List UInt8) × Nat) :
    Clean (chunkMeta true S st c) := by
  unfold chunkMeta
  apply clean_arenaU
  · intro ar1
    apply clean_guard_true
    apply clean_arenaU
    · intro ar2
      apply clean_guard_true
      cases c.1 with
      | none => exact clean_pure _
      | some path =>
        simp only [Bool.not_true, Bool.false_eq_true, if_false]
        clean_auto
    · intro ar2; exact fails_guard _ (by decide)
  · intro ar1; exact fails_guard _ (by decide)

theorem clean_buildFileMetadata (S : Sizes) (w : Writer) : Clean (buildFileMetadata true S w) := by
  unfold buildFileMetadata; clean_auto

/-! ### post-conditions (needed for one data invariant: the repaired flush_row_group never stores a
chunk without its encodings list, so the footer writer never dereferences NULL) -/

def Post (m : M α) (Q : α → Prop) : Prop := ∀ o a o', m o = (.ok a, o') → Q a

theorem post_pure {a : α} {Q : α → Prop} (h : Q a) : Post (M.pure a) Q := by
  intro o x o' e; simp [M.pure] at e; rw [← e.1]; exact h

theorem post_fail {e : Fault} {Q : α → Prop} : Post (fail e : M α) Q := by
  intro o x o' h; simp [fail] at h

theorem post_bind {m : M α} {f : α → M β} {Q : α → Prop} {R : β → Prop}
    (hm : Post m Q) (hf : ∀ a, Q a → Post (f a) R) : Post (M.bind m f) R := by
  intro o b o' h
  obtain ⟨a, o1, h1, h2⟩ := bind_ok h
  exact hf a (hm o a o1 h1) o1 b o' h2

theorem post_true (m : M α) : Post m (fun _ => True) := fun _ _ _ _ => trivial

theorem post_forEach {xs : List α} {s : β} {f : β → α → M β} {I : β → Prop}
    (hs : I s) (hf : ∀ s x, I s → Post (f s x) I) : Post (forEach xs s f) I := by
  induction xs generalizing s with
  | nil => exact post_pure hs
  | cons x xs ih => exact post_bind (hf s x hs) (fun s' hs' => ih hs')

theorem post_guard {got : Bool} {k : M α} {e : Fault} {Q : α → Prop} (h : got = true → Post k Q) :
    Post (guardGot true got k e) Q := by
  cases got
  · simp [guardGot]; exact post_fail
  · simpa [guardGot] using h rfl

theorem clean_bind_post {m : M α} {f : α → M β} {Q : α → Prop}
    (hm : Clean m) (hq : Post m Q) (hf : ∀ a, Q a → Clean (f a)) : Clean (M.bind m f) := by
  refine ⟨?_, ?_⟩
  · intro o b o' h
    obtain ⟨a, o1, h1, h2⟩ := bind_ok h
    obtain ⟨g1, e1⟩ := hm.1 o a o1 h1
    obtain ⟨g2, e2⟩ := (hf a (hq o a o1 h1)).1 o1 b o' h2
    exact ⟨g1.trans g2, by rw [bind_of_ok e1]; exact e2⟩
  · intro o o' h
    rcases bind_crash h with h1 | ⟨a, o1, h1, h2⟩
    · exact hm.2 o o' h1
    · exact (hf a (hq o a o1 h1)).2 o1 o' h2

def AllEnc (l : List ChunkMeta) : Prop := ∀ c ∈ l, c.hasEncodings = true

theorem allEnc_snoc {l : List ChunkMeta} {c : ChunkMeta} (hl : AllEnc l) (hc : c.hasEncodings = true) : AllEnc (l ++ [c]) := by
  intro x hx
  rcases List.mem_append.mp hx with h | h
  · exact hl x h
  · simp at h; subst h; exact hc

theorem post_chunkMeta (S : Sizes) (st : Arena.Arena × List ChunkMeta) (c : Option (List UInt8) × Nat) (hst : AllEnc st.2) :
    Post (chunkMeta true S st c) (fun r => AllEnc r.2) := by
  unfold chunkMeta
  refine post_bind (post_true _) (fun e _ => post_guard (fun he => ?_))
  refine post_bind (post_true _) (fun p _ => post_guard (fun hp => ?_))
  cases c.1 with
  | none => exact post_pure (allEnc_snoc hst he)
  | some path =>
    simp only [hp, Bool.not_true, Bool.false_eq_true, if_false]
    refine post_bind (post_true _) (fun s _ => post_guard (fun _ => ?_))
    exact post_pure (allEnc_snoc hst he)

def WriterInv (w : Writer) : Prop := ∀ rg ∈ w.rowGroups, AllEnc rg

theorem post_buildFileMetadata (S : Sizes) (w : Writer) :
    Post (buildFileMetadata true S w) (fun r => r.2.rowGroups = w.rowGroups) := by
  unfold buildFileMetadata
  refine post_bind (post_true _) (fun cb _ => post_guard (fun _ => ?_))
  refine post_bind (post_true _) (fun ar1 _ => post_bind (post_true _) (fun rn _ => post_guard (fun _ => ?_)))
  refine post_bind (post_true _) (fun st _ => post_bind (post_true _) (fun ar2 _ => post_pure rfl))

theorem footerDerefOk_of_inv (m : FileMeta) (h : ∀ rg ∈ m.rowGroups, AllEnc rg) : footerDerefOk m = true := by
  unfold footerDerefOk
  simp only [List.all_eq_true]
  intro rg hrg c hc
  exact h rg hrg c hc


section Writer2
variable {fin : Payload → PageWriter → M (PageWriter × List UInt8)} (hfin : ∀ P w, Clean (fin P w))
include hfin

theorem clean_writerWriteBatch (P : Payload) (w : Writer) (i : Nat) (b : Batch) :
    Clean (writerWriteBatch true fin P w i b) := by
  unfold writerWriteBatch
  have h1 := clean_ensureRowGroup
  have h2 := clean_columnWriteBatch hfin
  apply clean_bind
  · cases w.rg <;> clean_auto
  · intro rg
    cases rg.cols[i]? <;> clean_auto

theorem clean_flushRowGroup (P : Payload) (S : Sizes) (w : Writer) : Clean (flushRowGroup true fin P S w) := by
  unfold flushRowGroup
  have h1 := clean_rowGroupFinalize hfin
  have h2 := clean_chunkMeta
  cases w.rg <;> clean_auto

theorem post_flushRowGroup (P : Payload) (S : Sizes) (w : Writer) (hw : WriterInv w) :
    Post (flushRowGroup true fin P S w) WriterInv := by
  unfold flushRowGroup
  cases w.rg with
  | none => exact post_pure hw
  | some rg =>
    simp only
    refine post_bind (post_true _) (fun rg' _ => post_bind (post_true _) (fun _ _ => post_bind (post_true _) (fun ar _ => ?_)))
    refine post_bind (Q := fun r => AllEnc r.2) ?_ (fun r hr => post_pure ?_)
    · have h0 : AllEnc (ar, ([] : List ChunkMeta)).2 := by intro c hc; exact absurd hc List.not_mem_nil
      exact post_forEach (I := fun r => AllEnc r.2) h0 (fun st c hst => post_chunkMeta S st c hst)
    · intro g hg
      simp only at hg
      rcases List.mem_append.mp hg with h | h
      · exact hw g h
      · simp at h; subst h; exact hr

theorem clean_writerClose (P : Payload) (S : Sizes) (footer : FileMeta → List (List UInt8)) (w : Writer) (hw : WriterInv w) :
    Clean (writerClose true fin P S footer w) := by
  unfold writerClose
  refine clean_bind_post (clean_flushRowGroup hfin P S w) (post_flushRowGroup hfin P S w hw) (fun w1 hw1 => ?_)
  refine clean_bind_post (clean_buildFileMetadata S w1) (post_buildFileMetadata S w1) (fun r hr => ?_)
  have : footerDerefOk r.2 = true := footerDerefOk_of_inv r.2 (by rw [hr]; exact hw1)
  simp only [this, Bool.not_true, Bool.false_eq_true, if_false]
  clean_auto

theorem post_writerWriteBatch (P : Payload) (w : Writer) (i : Nat) (b : Batch) (hw : WriterInv w) :
    Post (writerWriteBatch true fin P w i b) WriterInv := by
  unfold writerWriteBatch
  refine post_bind (post_true _) (fun rg _ => ?_)
  cases rg.cols[i]? with
  | none => exact post_fail
  | some cw => exact post_bind (post_true _) (fun cw' _ => post_pure hw)

theorem clean_writeRowGroup (P : Payload) (w : Writer) (bs : List Batch) : Clean (writeRowGroup true fin P w bs) := by
  unfold writeRowGroup
  have := clean_writerWriteBatch hfin
  clean_auto

theorem post_writeRowGroup (P : Payload) (w : Writer) (bs : List Batch) (hw : WriterInv w) :
    Post (writeRowGroup true fin P w bs) WriterInv := by
  unfold writeRowGroup
  refine post_bind (Q := fun (st : Writer × Nat) => WriterInv st.1) ?_ (fun st hst => post_pure hst)
  exact post_forEach (I := fun (st : Writer × Nat) => WriterInv st.1) hw
    (fun (st : Writer × Nat) b hst => post_bind (post_writerWriteBatch hfin P st.1 st.2 b hst) (fun w' hw' => post_pure hw'))

omit hfin in
theorem post_writerCreate (codec target : Nat) (cols : List ColDef) : Post (writerCreate codec target cols) WriterInv := by
  unfold writerCreate
  refine post_bind (post_true _) (fun _ _ => post_bind (post_true _) (fun ar _ => post_bind (post_true _)
    (fun _ _ => post_bind (post_true _) (fun _ _ => post_pure ?_))))
  intro rg hrg; exact absurd hrg List.not_mem_nil

/-- the whole repaired write path is `Clean` -/
theorem clean_writeFile (P : Payload) (S : Sizes) (footer : FileMeta → List (List UInt8)) (codec target : Nat)
    (cols : List ColDef) (groups : List (List Batch)) :
    Clean (writeFile true fin P S footer codec target cols groups) := by
  unfold writeFile
  refine clean_bind_post (clean_writerCreate codec target cols) (post_writerCreate codec target cols) (fun w hw => ?_)
  refine clean_bind_post (Q := WriterInv) ?_ ?_ (fun w' hw' => clean_writerClose hfin P S footer w' hw')
  · have h1 := clean_writeRowGroup hfin
    have h2 := clean_flushRowGroup hfin
    clean_auto
  · exact post_forEach (I := WriterInv) hw (fun w g hwi =>
      post_bind (post_writeRowGroup hfin P w g hwi) (fun w' hw'' => post_flushRowGroup hfin P S w' hw''))

end Writer2

/-! ### read side -/

theorem fails_arenaU {ar : Arena.Arena} {size al : Nat} {k : Arena.Arena × Bool → M α} (h : ∀ r, Fails (k r)) :
    Fails (M.bind (arenaU ar size al) k) := by
  intro o
  have hr : ∃ r o1, arenaU ar size al o = (.ok r, o1) := by
    unfold arenaU
    generalize Arena.allocAligned ar size al 8 o = rr
    obtain ⟨res, ar', o2⟩ := rr
    cases res <;> exact ⟨_, _, rfl⟩
  obtain ⟨r, o1, hr⟩ := hr
  obtain ⟨e, o2, he, hne⟩ := h r o1
  exact ⟨e, o2, by rw [bind_of_ok hr]; exact he, hne⟩

theorem clean_listAlloc (ar : Arena.Arena) (count size : Nat) : Clean (listAlloc true ar count size) := by
  unfold listAlloc
  by_cases h0 : count * size = 0
  · -- a zero-size request returns NULL and is not an error
    have e0 : ∀ oo, Arena.allocAligned ar (count * size) 16 8 oo = (none, ar, oo) := by
      intro oo; simp [Arena.allocAligned, h0]
    refine ⟨?_, ?_⟩
    · intro o a o' h
      obtain ⟨r, o1, hr, hk⟩ := bind_ok h
      simp [arenaU, e0] at hr
      obtain ⟨hr1, hr2⟩ := hr; subst hr1; subst hr2
      simp [h0, M.pure] at hk
      obtain ⟨hk1, hk2⟩ := hk; subst hk1; subst hk2
      refine ⟨Granted.refl _, ?_⟩
      have : arenaU ar (count * size) 16 [] = (.ok (ar, false), []) := by simp [arenaU, e0]
      rw [bind_of_ok this]; simp [h0, M.pure]
    · intro o o' h
      rcases bind_crash h with h1 | ⟨r, o1, hr, hk⟩
      · simp [arenaU, e0] at h1
      · simp [h0, M.pure] at hk
  · apply clean_arenaU
    · intro ar'; simp; exact clean_pure _
    · intro ar'; simp [h0]; exact fails_fail _ (by decide)

theorem clean_strAlloc (ar : Arena.Arena) (s : List UInt8) : Clean (strAlloc true ar s) := by
  unfold strAlloc
  apply clean_arenaU
  · intro ar'; simp; exact clean_pure _
  · intro ar'; simp; exact fails_fail _ (by decide)

theorem clean_parseStrings (ar : Arena.Arena) (l : List (List UInt8)) : Clean (parseStrings true ar l) := by
  unfold parseStrings
  have := clean_strAlloc
  clean_auto

theorem clean_parseChunk (S : Sizes) (st : Arena.Arena × List (List (Option (List UInt8)))) (c : ColShape) : Clean (parseChunk true S st c) := by
  unfold parseChunk
  have h1 := clean_listAlloc
  have h2 := clean_parseStrings
  clean_auto

theorem clean_parseRowGroup (S : Sizes) (st : Arena.Arena × List (List (List (Option (List UInt8))))) (rg : List ColShape) : Clean (parseRowGroup true S st rg) := by
  unfold parseRowGroup
  have h1 := clean_listAlloc
  have h2 := clean_parseChunk
  clean_auto

theorem clean_parseFileMetadata (S : Sizes) (ar : Arena.Arena) (f : FooterShape) : Clean (parseFileMetadata true S ar f) := by
  unfold parseFileMetadata
  have h1 := clean_listAlloc
  have h2 := clean_parseStrings
  have h3 := clean_parseRowGroup
  have h4 := clean_strAlloc
  cases f.createdBy <;> clean_auto

theorem clean_buildSchema (S : Sizes) (ar : Arena.Arena) (leaves : Nat) : Clean (buildSchema S ar leaves) := by
  unfold buildSchema
  refine clean_bind (clean_arenaM _ _ _) (fun a1 => ?_)
  refine clean_arenaU (fun l1 => clean_arenaU (fun l2 => clean_arenaU (fun l3 => ?_) (fun l3 => ?_)) (fun l2 => ?_)) (fun l1 => ?_)
  · simp; exact clean_pure _
  · simp; exact fails_fail _ (by decide)
  · exact fails_arenaU (fun l3 => by simp; exact fails_fail _ (by decide))
  · exact fails_arenaU (fun l2 => fails_arenaU (fun l3 => by simp; exact fails_fail _ (by decide)))

theorem nocrash_bind {m : M α} {f : α → M β} (hm : NoCrash m) (hf : ∀ a, NoCrash (f a)) : NoCrash (M.bind m f) := by
  intro o o' h
  rcases bind_crash h with h1 | ⟨a, o1, _, h2⟩
  · exact hm o o' h1
  · exact hf a o1 o' h2

theorem nocrash_reqU : NoCrash reqU := by intro o o' h; simp [reqU] at h

theorem clean_openTail (S : Sizes) (ar : Arena.Arena) (f : FooterShape) (leaves : Nat) (mode : IoMode) :
    Clean (M.bind (if mode = .fread then req else M.pure ()) fun _ =>
      M.bind (parseFileMetadata true S ar f) fun r =>
      M.bind (buildSchema S r.1 leaves) fun _ => M.pure (⟨mode, r.2⟩ : Reader)) := by
  refine clean_bind (clean_ite clean_req (clean_pure _)) (fun _ => ?_)
  refine clean_bind (clean_parseFileMetadata S ar f) (fun r => ?_)
  exact clean_bind (clean_buildSchema S r.1 leaves) (fun _ => clean_pure _)

/-- opening in fread or buffer mode: a refused request always surfaces -/
theorem clean_readerOpen (S : Sizes) (want : IoMode) (f : FooterShape) (leaves : Nat) (hw : want ≠ .mmap) :
    Clean (readerOpen true S want f leaves) := by
  unfold readerOpen
  refine clean_bind clean_req (fun _ => clean_bind (clean_arenaInitM _) (fun ar => ?_))
  refine clean_bind ?_ (fun mode => clean_openTail S ar f leaves mode)
  cases want with
  | mmap => exact absurd rfl hw
  | fread => exact clean_pure _
  | buffer => exact clean_pure _

theorem nocrash_readerOpen (S : Sizes) (want : IoMode) (f : FooterShape) (leaves : Nat) :
    NoCrash (readerOpen true S want f leaves) := by
  unfold readerOpen
  refine nocrash_bind clean_req.2 (fun _ => nocrash_bind (clean_arenaInitM _).2 (fun ar => ?_))
  refine nocrash_bind ?_ (fun mode => (clean_openTail S ar f leaves mode).2)
  cases want with
  | mmap => exact nocrash_bind nocrash_reqU (fun got => (clean_pure _).2)
  | fread => exact (clean_pure _).2
  | buffer => exact (clean_pure _).2

/-- the metadata a successful parse yields: every string present -/
def fullMeta (f : FooterShape) : ParsedMeta :=
  ⟨f.schemaNames.map some, f.rowGroups.map (fun rg => rg.map (fun c => c.path.map some)), f.createdBy.map some⟩

theorem post_strAlloc (ar : Arena.Arena) (s : List UInt8) : Post (strAlloc true ar s) (fun r => r.2 = some s) := by
  unfold strAlloc
  refine post_bind (post_true _) (fun r _ => ?_)
  cases r.2 <;> simp <;> first | exact post_fail | exact post_pure rfl

theorem post_parseStrings (ar : Arena.Arena) (l : List (List UInt8)) :
    Post (parseStrings true ar l) (fun r => r.2 = l.map some) := by
  unfold parseStrings
  suffices h : ∀ (l : List (List UInt8)) (st : Arena.Arena × List (Option (List UInt8))),
      Post (forEach l st (fun (st : Arena.Arena × List (Option (List UInt8))) s =>
        M.bind (strAlloc true st.1 s) fun r => M.pure (r.1, st.2 ++ [r.2]))) (fun r => r.2 = st.2 ++ l.map some) by
    simpa using h l (ar, [])
  intro l
  induction l with
  | nil => intro st; simp [forEach]; exact post_pure rfl
  | cons x xs ih =>
    intro st
    simp only [forEach]
    refine post_bind (Q := fun s' => s'.2 = st.2 ++ [some x]) ?_ (fun s' hs' => ?_)
    · exact post_bind (post_strAlloc st.1 x) (fun r hr => post_pure (by simp [hr]))
    · have := ih s'
      intro o a o' h
      have := this o a o' h
      simp [this, hs']

theorem post_parseChunk (S : Sizes) (st : Arena.Arena × List (List (Option (List UInt8)))) (c : ColShape) :
    Post (parseChunk true S st c) (fun r => r.2 = st.2 ++ [c.path.map some]) := by
  unfold parseChunk
  refine post_bind (post_true _) (fun a1 _ => post_bind (post_true _) (fun a2 _ => ?_))
  exact post_bind (post_parseStrings a2 c.path) (fun r hr => post_pure (by simp [hr]))

theorem post_forEach_map {xs : List α} {f : (γ × List β) → α → M (γ × List β)} {g : α → β} (st : γ × List β)
    (hf : ∀ st x, Post (f st x) (fun r => r.2 = st.2 ++ [g x])) :
    Post (forEach xs st f) (fun r => r.2 = st.2 ++ xs.map g) := by
  induction xs generalizing st with
  | nil => simp [forEach]; exact post_pure rfl
  | cons x xs ih =>
    simp only [forEach]
    refine post_bind (hf st x) (fun s' hs' => ?_)
    intro o a o' h
    have := ih s' o a o' h
    simp [this, hs']

theorem post_forEach_list {xs : List α} {f : List β → α → M (List β)} {g : α → β} {st : List β}
    (hf : ∀ st x, Post (f st x) (fun r => r = st ++ [g x])) :
    Post (forEach xs st f) (fun r => r = st ++ xs.map g) := by
  induction xs generalizing st with
  | nil => simp [forEach]; exact post_pure rfl
  | cons x xs ih =>
    simp only [forEach]
    refine post_bind (hf st x) (fun s' hs' => ?_)
    intro o a o' h
    have := ih (st := s') o a o' h
    simp [this, hs']

theorem post_parseRowGroup (S : Sizes) (st : Arena.Arena × List (List (List (Option (List UInt8))))) (rg : List ColShape) :
    Post (parseRowGroup true S st rg) (fun r => r.2 = st.2 ++ [rg.map (fun c => c.path.map some)]) := by
  unfold parseRowGroup
  refine post_bind (post_true _) (fun a1 _ => ?_)
  refine post_bind (post_forEach_map (g := fun c => c.path.map some) (a1, []) (fun st c => post_parseChunk S st c))
    (fun r hr => post_pure (by simp at hr; simp [hr]))

theorem post_parseFileMetadata (S : Sizes) (ar : Arena.Arena) (f : FooterShape) :
    Post (parseFileMetadata true S ar f) (fun r => r.2 = fullMeta f) := by
  unfold parseFileMetadata
  refine post_bind (post_true _) (fun a1 _ => post_bind (post_parseStrings a1 f.schemaNames) (fun names hn => ?_))
  refine post_bind (post_true _) (fun a2 _ => ?_)
  refine post_bind (post_forEach_map (g := fun rg => rg.map (fun c => c.path.map some)) (a2, [])
    (fun st rg => post_parseRowGroup S st rg)) (fun rgs hr => ?_)
  simp at hr
  cases hcb : f.createdBy with
  | none => exact post_pure (by simp [fullMeta, hn, hr, hcb])
  | some cb =>
    exact post_bind (post_strAlloc rgs.1 cb) (fun r hrr => post_pure (by simp [fullMeta, hn, hr, hcb, hrr]))

/-- whatever mode the reader ends up in, a successful open has the complete metadata -/
theorem post_readerOpen (S : Sizes) (want : IoMode) (f : FooterShape) (leaves : Nat) :
    Post (readerOpen true S want f leaves) (fun r => r.md = fullMeta f) := by
  unfold readerOpen
  refine post_bind (post_true _) (fun _ _ => post_bind (post_true _) (fun ar _ => post_bind (post_true _) (fun mode _ => ?_)))
  refine post_bind (post_true _) (fun _ _ => post_bind (post_parseFileMetadata S ar f) (fun r hr => ?_))
  exact post_bind (post_true _) (fun _ _ => post_pure hr)

theorem clean_getColumn : Clean getColumn := by unfold getColumn; clean_auto

theorem clean_decodeBuffers (cr : ColumnReader) (p : PageShape) : Clean (decodeBuffers cr p) := by
  unfold decodeBuffers; clean_auto

theorem clean_loadPage (mode : IoMode) (cr : ColumnReader) (p : PageShape) : Clean (loadPage true mode cr p) := by
  have hd := clean_decodeBuffers
  have hz : Clean (if p.zeroCopy then
      (if p.numValues > cr.capacity then
        M.bind reqU fun a => M.bind reqU fun b =>
        if a && b then M.pure { cr with capacity := p.numValues, loaded := true }
        else if true then fail .oom else fail .crash
      else M.pure { cr with loaded := true })
    else
      M.bind (reqIf p.compressed) fun _ =>
      M.bind (decodeBuffers cr p) fun cr' =>
      M.bind (reqIf (p.retire && p.compressed)) fun _ =>
      M.pure { cr' with loaded := true }) := by
    apply clean_ite
    · apply clean_ite
      · refine clean_reqU (clean_reqU ?_ ?_) (fails_reqU (fun b => ?_))
        · simpa using clean_pure _
        · simpa using fails_fail (α := ColumnReader) .oom (by decide)
        · simpa using fails_fail (α := ColumnReader) .oom (by decide)
      · exact clean_pure _
    · clean_auto
  cases mode with
  | fread => unfold loadPage; simp only; clean_auto
  | mmap => unfold loadPage; simpa using hz
  | buffer => unfold loadPage; simpa using hz

theorem clean_readColumn (mode : IoMode) (cr : ColumnReader) (p : PageShape) (vals : α) :
    Clean (readColumn true mode cr p vals) := by
  unfold readColumn
  have := clean_loadPage
  clean_auto

theorem post_readColumn (mode : IoMode) (cr : ColumnReader) (p : PageShape) (vals : α) :
    Post (readColumn true mode cr p vals) (fun r => r.2 = vals) := by
  unfold readColumn
  exact post_bind (post_true _) (fun cr' _ => post_pure rfl)

theorem nocrash_tryLoad (mode : IoMode) (cr : ColumnReader) (p : PageShape) : NoCrash (tryLoad true mode cr p) := by
  intro o o' h
  unfold tryLoad at h
  have hn := (clean_loadPage mode cr p).2 o
  generalize loadPage true mode cr p o = r at h hn
  obtain ⟨res, o1⟩ := r
  cases res with
  | ok a => simp at h
  | error e =>
    cases e with
    | crash => exact hn o1 rfl
    | oom => simp at h
    | other => simp at h

/-- one column of a batch: whenever the call succeeds the caller gets the values, a bitmap, and the nulls -/
theorem post_batchColumn (mode : IoMode) (nullable : Bool) (st : List (ColumnOut α)) (c : ColumnReader × PageShape × α) :
    Post (batchColumn true mode nullable st c) (fun r => r = st ++ [⟨c.2.2, true, nullable⟩]) := by
  unfold batchColumn
  refine post_bind (post_true _) (fun cr _ => ?_)
  by_cases hc : (cr.loaded && c.2.1.zeroCopy && mode ≠ .fread && !nullable) = true
  · simp only [hc, if_true]
    have hn : nullable = false := by
      cases nullable <;> simp_all
    refine post_bind (post_true _) (fun bm _ => post_guard (fun hbm => ?_))
    subst hbm; subst hn
    exact post_pure rfl
  · simp only [hc]
    refine post_bind (post_true _) (fun _ _ => post_bind (post_true _) (fun bm _ => post_guard (fun hbm => ?_)))
    refine post_bind (post_true _) (fun dl _ => post_guard (fun hdl => ?_))
    refine post_bind (post_readColumn mode cr c.2.1 c.2.2) (fun r hr => post_pure ?_)
    subst hbm; subst hdl; simp [hr]

theorem nocrash_batchColumn (mode : IoMode) (nullable : Bool) (st : List (ColumnOut α)) (c : ColumnReader × PageShape × α) :
    NoCrash (batchColumn true mode nullable st c) := by
  unfold batchColumn
  refine nocrash_bind (nocrash_tryLoad mode c.1 c.2.1) (fun cr => ?_)
  have hr := clean_readColumn (α := α)
  split
  · refine nocrash_bind nocrash_reqU (fun bm => ?_)
    cases bm
    · simp [guardGot]; exact (clean_fail (α := List (ColumnOut α)) .other (by decide)).2
    · simp [guardGot]; exact (clean_pure _).2
  · refine nocrash_bind clean_req.2 (fun _ => nocrash_bind nocrash_reqU (fun bm => ?_))
    cases bm
    · simp [guardGot]; exact (clean_fail (α := List (ColumnOut α)) .other (by decide)).2
    · simp only [guardGot, Bool.not_true, Bool.and_false, Bool.false_eq_true, if_false]
      refine nocrash_bind ?_ (fun dl => ?_)
      · split
        · exact nocrash_reqU
        · exact (clean_pure _).2
      · cases dl
        · simp; exact (clean_fail (α := List (ColumnOut α)) .other (by decide)).2
        · simp; exact nocrash_bind (hr mode cr c.2.1 c.2.2).2 (fun r => (clean_pure _).2)

theorem post_batchNext (mode : IoMode) (cols : List (Bool × PageShape × α)) :
    Post (batchNext true mode cols) (fun outs => outs = cols.map (fun c => ⟨c.2.2, true, c.1⟩)) := by
  unfold batchNext
  refine post_bind (Q := fun crs => crs.length = cols.length) ?_ (fun crs hlen => ?_)
  · suffices h : ∀ (xs : List (Bool × PageShape × α)) (st : List ColumnReader),
        Post (forEach xs st (fun (st : List ColumnReader) _ => M.bind getColumn fun cr => M.pure (st ++ [cr])))
          (fun r => r.length = st.length + xs.length) by
      simpa using h cols []
    intro xs
    induction xs with
    | nil => intro st; simp [forEach]; exact post_pure rfl
    | cons x xs ih =>
      intro st
      simp only [forEach]
      refine post_bind (Q := fun s' => s'.length = st.length + 1) ?_ (fun s' hs' => ?_)
      · exact post_bind (post_true _) (fun cr _ => post_pure (by simp))
      · intro o a o' h
        have := ih s' o a o' h
        simp [this, hs']; omega
  · refine post_bind (post_true _) (fun _ _ => post_bind (post_true _) (fun ar _ => post_bind (post_true _) (fun _ _ => ?_)))
    have hz : (crs.zip cols).map (fun (c : ColumnReader × Bool × PageShape × α) => (⟨c.2.2.2, true, c.2.1⟩ : ColumnOut α)) =
        cols.map (fun c => ⟨c.2.2, true, c.1⟩) := by
      have h1 : (crs.zip cols).map Prod.snd = cols := List.map_snd_zip (by omega)
      have h2 : (crs.zip cols).map (fun (c : ColumnReader × Bool × PageShape × α) => (⟨c.2.2.2, true, c.2.1⟩ : ColumnOut α)) =
          ((crs.zip cols).map Prod.snd).map (fun c => ⟨c.2.2, true, c.1⟩) := by
        rw [List.map_map]; rfl
      rw [h2, h1]
    rw [← hz]
    have := post_forEach_list (xs := crs.zip cols) (st := ([] : List (ColumnOut α)))
      (f := fun st (c : ColumnReader × Bool × PageShape × α) => batchColumn true mode c.2.1 st (c.1, c.2.2.1, c.2.2.2))
      (g := fun c => ⟨c.2.2.2, true, c.2.1⟩)
      (fun st c => post_batchColumn mode c.2.1 st (c.1, c.2.2.1, c.2.2.2))
    simpa using this

theorem nocrash_batchNext (mode : IoMode) (cols : List (Bool × PageShape × α)) : NoCrash (batchNext true mode cols) := by
  unfold batchNext
  have hg : ∀ (xs : List (Bool × PageShape × α)) (st : List ColumnReader),
      NoCrash (forEach xs st (fun (st : List ColumnReader) _ => M.bind getColumn fun cr => M.pure (st ++ [cr]))) := by
    intro xs st
    exact (clean_forEach (fun s x => clean_bind clean_getColumn (fun cr => clean_pure _))).2
  refine nocrash_bind (hg cols []) (fun crs => nocrash_bind clean_req.2 (fun _ => nocrash_bind (clean_arenaInitM _).2
    (fun ar => nocrash_bind (clean_arenaM _ _ _).2 (fun _ => ?_))))
  generalize crs.zip cols = zs
  generalize ([] : List (ColumnOut α)) = st
  induction zs generalizing st with
  | nil => exact (clean_pure _).2
  | cons z zs ih => exact nocrash_bind (nocrash_batchColumn mode z.2.1 st _) (fun s' => ih s')

end Carquet.Impl.Alloc.Flow
