import Carquet.Impl.Arena
import Carquet.Proofs.AllocArena
/-
C19, carquet_arena: a whole sequence of allocation requests (any mix of granted and refused ones).
Every pointer handed out stays inside its block, is aligned as requested, and no two of them
overlap — n-ary pairwise disjointness, proved by carrying "every later allocation of a block starts
at or after the block's current `used`" through the sequence.
-/
namespace Carquet.Impl.Alloc.Arena
open Carquet.Impl.Alloc

/-- one request: size, alignment, and the address a new block would get -/
structure Req where
  size : Nat
  align : Nat
  nb : Nat
deriving DecidableEq, Repr

/-- one pointer handed out: block index, offset, and the request it answers -/
structure Grant where
  block : Nat
  off : Nat
  size : Nat
  align : Nat
deriving DecidableEq, Repr

/-- carquet_arena_alloc_aligned called once per request, in order; refused requests (NULL) are skipped.
Result: the pointers handed out, the final arena, the rest of the oracle. -/
def allocSeq : List Req → Arena → Oracle → List Grant × Arena × Oracle
  | [], ar, o => ([], ar, o)
  | r :: rs, ar, o =>
    match (allocAligned ar r.size r.align r.nb o).1 with
    | some p =>
      (⟨p.1, p.2, r.size, r.align⟩ ::
          (allocSeq rs (allocAligned ar r.size r.align r.nb o).2.1 (allocAligned ar r.size r.align r.nb o).2.2).1,
        (allocSeq rs (allocAligned ar r.size r.align r.nb o).2.1 (allocAligned ar r.size r.align r.nb o).2.2).2)
    | none => allocSeq rs (allocAligned ar r.size r.align r.nb o).2.1 (allocAligned ar r.size r.align r.nb o).2.2

/-- two pointers do not overlap: different blocks, or one ends before the other starts -/
def Grant.Disjoint (a b : Grant) : Prop := a.block = b.block → a.off + a.size ≤ b.off ∨ b.off + b.size ≤ a.off

/-- block `j` of `ar'` is block `j` of `ar` (same address, same size) with at least as much used -/
def Extends (ar ar' : Arena) : Prop :=
  ∀ (j : Nat) (b : Block), ar.blocks[j]? = some b →
    ∃ b' : Block, ar'.blocks[j]? = some b' ∧ b'.base = b.base ∧ b'.size = b.size ∧ b.used ≤ b'.used

theorem Extends.refl (ar : Arena) : Extends ar ar := fun _ b h => ⟨b, h, rfl, rfl, Nat.le_refl _⟩

theorem Extends.trans {a b c : Arena} (h1 : Extends a b) (h2 : Extends b c) : Extends a c := by
  intro j bl hb
  obtain ⟨b1, hb1, e1, e2, e3⟩ := h1 j bl hb
  obtain ⟨b2, hb2, f1, f2, f3⟩ := h2 j b1 hb1
  exact ⟨b2, hb2, f1.trans e1, f2.trans e2, Nat.le_trans e3 f3⟩

theorem usedAt_of_get {ar : Arena} {j : Nat} {b : Block} (h : ar.blocks[j]? = some b) : usedAt ar j = b.used := by
  simp [usedAt, h]

/-- a successful allocation only extends the arena, and `used` never shrinks anywhere -/
theorem AllocOk.extends {ar ar' : Arena} {size a i off : Nat} (h : AllocOk ar ar' size a i off) : Extends ar ar' := by
  intro j b hb
  obtain ⟨b', hb', e1, e2⟩ := h.geometry j b hb
  refine ⟨b', hb', e1, e2, ?_⟩
  have hu : usedAt ar j = b.used := usedAt_of_get hb
  have hu' : usedAt ar' j = b'.used := usedAt_of_get hb'
  by_cases hji : j = i
  · subst hji
    have h1 := h.lower
    have h2 := h.upper
    omega
  · have := h.others j hji
    omega

theorem AllocOk.usedAt_mono {ar ar' : Arena} {size a i off : Nat} (h : AllocOk ar ar' size a i off) (j : Nat) :
    usedAt ar j ≤ usedAt ar' j := by
  by_cases hji : j = i
  · subst hji
    have h1 := h.lower
    have h2 := h.upper
    omega
  · rw [h.others j hji]; exact Nat.le_refl _

/-- unfolding of one step, success -/
theorem allocSeq_cons_some (r : Req) (rs : List Req) (ar : Arena) (o : Oracle) (p : Nat × Nat)
    (h : (allocAligned ar r.size r.align r.nb o).1 = some p) :
    allocSeq (r :: rs) ar o =
      (⟨p.1, p.2, r.size, r.align⟩ ::
          (allocSeq rs (allocAligned ar r.size r.align r.nb o).2.1 (allocAligned ar r.size r.align r.nb o).2.2).1,
        (allocSeq rs (allocAligned ar r.size r.align r.nb o).2.1 (allocAligned ar r.size r.align r.nb o).2.2).2) := by
  simp only [allocSeq, h]

/-- unfolding of one step, refusal -/
theorem allocSeq_cons_none (r : Req) (rs : List Req) (ar : Arena) (o : Oracle)
    (h : (allocAligned ar r.size r.align r.nb o).1 = none) :
    allocSeq (r :: rs) ar o =
      allocSeq rs (allocAligned ar r.size r.align r.nb o).2.1 (allocAligned ar r.size r.align r.nb o).2.2 := by
  simp only [allocSeq, h]

/-- what one granted request guarantees, in the vocabulary of `allocAligned_spec` -/
theorem allocAligned_some_ok (ar : Arena) (r : Req) (o : Oracle) (hinv : Inv ar) (p : Nat × Nat)
    (h : (allocAligned ar r.size r.align r.nb o).1 = some p) :
    0 < r.size ∧ AllocOk ar (allocAligned ar r.size r.align r.nb o).2.1 r.size (effAlign r.align) p.1 p.2 := by
  have sp := allocAligned_spec ar r.size r.align r.nb o hinv
  generalize allocAligned ar r.size r.align r.nb o = res at *
  obtain ⟨q, ar', o'⟩ := res
  simp only at h; subst h
  obtain ⟨i, off⟩ := p
  exact sp

theorem allocAligned_none_same (ar : Arena) (r : Req) (o : Oracle) (hinv : Inv ar)
    (h : (allocAligned ar r.size r.align r.nb o).1 = none) : (allocAligned ar r.size r.align r.nb o).2.1 = ar :=
  alloc_none_unchanged ar r.size r.align r.nb o hinv h

/-- The whole specification of a sequence, proved in one induction:
* the final arena is well formed and extends the initial one;
* every pointer handed out starts at or after what its block had in use at the beginning, and ends within what
  the block has in use at the end (hence inside the block), is aligned, and answers a non-empty request;
* the pointers are pairwise disjoint. -/
theorem allocSeq_spec (rs : List Req) (ar : Arena) (o : Oracle) (hinv : Inv ar) :
    Inv (allocSeq rs ar o).2.1 ∧ Extends ar (allocSeq rs ar o).2.1 ∧
    (∀ g ∈ (allocSeq rs ar o).1,
        usedAt ar g.block ≤ g.off ∧ g.off + g.size ≤ usedAt (allocSeq rs ar o).2.1 g.block ∧ 0 < g.size ∧
        ∃ b : Block, (allocSeq rs ar o).2.1.blocks[g.block]? = some b ∧ g.off + g.size ≤ b.size ∧
          (b.base + g.off) % effAlign g.align = 0) ∧
    List.Pairwise (fun a b : Grant => a.block = b.block → a.off + a.size ≤ b.off) (allocSeq rs ar o).1 := by
  induction rs generalizing ar o with
  | nil =>
    refine ⟨hinv, Extends.refl ar, ?_, ?_⟩
    · intro g hg; simp [allocSeq] at hg
    · simp [allocSeq]
  | cons r rs ih =>
    cases hres : (allocAligned ar r.size r.align r.nb o).1 with
    | none =>
      rw [allocSeq_cons_none r rs ar o hres, allocAligned_none_same ar r o hinv hres]
      exact ih ar _ hinv
    | some p =>
      obtain ⟨hpos, ok⟩ := allocAligned_some_ok ar r o hinv p hres
      rw [allocSeq_cons_some r rs ar o p hres]
      generalize har1 : (allocAligned ar r.size r.align r.nb o).2.1 = ar1 at ok ⊢
      generalize (allocAligned ar r.size r.align r.nb o).2.2 = o1
      obtain ⟨hinv', hext, hall, hpw⟩ := ih ar1 o1 ok.inv
      have hext0 : Extends ar ar1 := ok.extends
      refine ⟨hinv', hext0.trans hext, ?_, ?_⟩
      · intro g hg
        simp only [List.mem_cons] at hg
        rcases hg with hg | hg
        · subst hg
          simp only
          -- the head pointer: block p.1 of the final arena
          obtain ⟨b1, hb1, hsz1, hal1⟩ := ok.inBlock
          obtain ⟨b2, hb2, e1, e2, e3⟩ := hext p.1 b1 hb1
          have hu1 : usedAt ar1 p.1 = b1.used := usedAt_of_get hb1
          have hu2 : usedAt (allocSeq rs ar1 o1).2.1 p.1 = b2.used := usedAt_of_get hb2
          have hup := ok.upper
          refine ⟨ok.lower, by omega, hpos, b2, hb2, by omega, by rw [e1]; exact hal1⟩
        · obtain ⟨h1, h2, h3, h4⟩ := hall g hg
          exact ⟨Nat.le_trans (ok.usedAt_mono g.block) h1, h2, h3, h4⟩
      · refine List.Pairwise.cons ?_ hpw
        intro g hg hblk
        simp only at hblk ⊢
        obtain ⟨h1, _, _, _⟩ := hall g hg
        have hup := ok.upper
        rw [← hblk] at h1
        omega

end Carquet.Impl.Alloc.Arena
