import Carquet.Proofs.Writer
/-
Layout of the data region written by the writer model: chunks are laid end to end, the
offsets and sizes recorded in the metadata are exactly the positions and lengths of the bytes
written (C05: "column chunks tiling the data region without gaps or overlap inside the file").
Generic in `Deps`.
-/
namespace Carquet.Proofs.WriterLayout
open Carquet.Impl.Writer Carquet.Proofs.Writer

/-- chunk metadata describe consecutive byte ranges starting at `start` -/
def ChunksAt : List ChunkMeta → Nat → Prop
  | [], _ => True
  | c :: cs, start => c.fileOffset = start ∧ ChunksAt cs (start + c.totalCompressed)

def chunksSize (cs : List ChunkMeta) : Nat := (cs.map (·.totalCompressed)).sum

/-- row-group metadata describe consecutive byte ranges starting at `start`; `total_compressed_size`
of a row group is the sum of its chunks' compressed sizes, `total_byte_size` the sum of their
`total_uncompressed_size` (parquet.thrift; after fix F23) -/
def GroupsAt : List RgMeta → Nat → Prop
  | [], _ => True
  | g :: gs, start =>
    g.fileOffset = start ∧ ChunksAt g.chunks start ∧ g.totalCompressed = chunksSize g.chunks ∧
    g.totalByteSize = chunksUncompressed g.chunks ∧ GroupsAt gs (start + g.totalCompressed)

def groupsSize (gs : List RgMeta) : Nat := (gs.map (·.totalCompressed)).sum

theorem finalizeCols_layout (D : Deps) (w : W) : ∀ (cols : List Col) (cws : List ColW) (off : Nat)
    (bytes : Bytes) (metas : List ChunkMeta),
    finalizeCols D w cols cws off = some (bytes, metas) →
    ChunksAt metas off ∧ bytes.length = chunksSize metas := by
  intro cols
  induction cols with
  | nil =>
    intro cws off bytes metas h
    cases cws <;> simp [finalizeCols] at h <;> (obtain ⟨h1, h2⟩ := h; subst h1; subst h2; simp [ChunksAt, chunksSize])
  | cons c cs ih =>
    intro cws off bytes metas h
    cases cws with
    | nil =>
      simp [finalizeCols] at h
      obtain ⟨h1, h2⟩ := h; subst h1; subst h2; simp [ChunksAt, chunksSize]
    | cons cw cws =>
      simp only [finalizeCols] at h
      cases hf : flushPage D w.codec c cw with
      | none => simp [hf] at h
      | some cw' =>
        simp only [hf] at h
        cases hr : finalizeCols D w cs cws (off + cw'.buffer.length) with
        | none => simp [hr] at h
        | some p =>
          obtain ⟨b2, m2⟩ := p
          simp only [hr, Option.some.injEq, Prod.mk.injEq] at h
          obtain ⟨ih1, ih2⟩ := ih cws _ b2 m2 hr
          rw [← h.1, ← h.2]
          refine ⟨⟨by simp [chunkOf], by simpa [chunkOf] using ih1⟩, ?_⟩
          simp [chunksSize, chunkOf, ih2] at *

theorem groupsAt_append (gs : List RgMeta) (g : RgMeta) (start : Nat) (h : GroupsAt gs start)
    (hg : g.fileOffset = start + groupsSize gs ∧ ChunksAt g.chunks (start + groupsSize gs) ∧
          g.totalCompressed = chunksSize g.chunks ∧ g.totalByteSize = chunksUncompressed g.chunks) :
    GroupsAt (gs ++ [g]) start := by
  induction gs generalizing start with
  | nil => simpa [GroupsAt, groupsSize] using hg
  | cons a as ih =>
    obtain ⟨a1, a2, a3, a4, a5⟩ := h
    refine ⟨a1, a2, a3, a4, ?_⟩
    apply ih _ a5
    simpa [groupsSize, Nat.add_assoc] using hg

/-- layout invariant of writer states -/
def LInv (w : W) : Prop :=
  (w.headerWritten = true →
     w.fileOffset = 4 + groupsSize w.rowGroups ∧ w.out.flatten.length = w.fileOffset) ∧
  GroupsAt w.rowGroups 4

theorem linv_ensureHeader (w : W) (h : LInv w) (h0 : Inv w) (hr : w.headerWritten = false → w.rowGroups = []) :
    LInv (ensureHeader w) := by
  unfold ensureHeader
  by_cases hw : w.headerWritten = true
  · simpa [hw] using h
  · have hf : w.headerWritten = false := by simpa using hw
    have ho := h0.1 hf
    have hg := hr hf
    simp [hf, LInv, ho, hg, groupsSize, GroupsAt, magic]

theorem linv_flushRowGroup (D : Deps) (w : W) (h : LInv w) (hh : w.headerWritten = true) :
    LInv (flushRowGroup D w).1 := by
  unfold flushRowGroup
  cases hr : w.rg with
  | none => exact h
  | some cws =>
    simp only
    cases hf : finalizeCols D w w.cols cws w.fileOffset with
    | none => exact h
    | some p =>
      obtain ⟨bytes, metas⟩ := p
      obtain ⟨l1, l2⟩ := finalizeCols_layout D w w.cols cws w.fileOffset bytes metas hf
      obtain ⟨a, b⟩ := h.1 hh
      simp only
      constructor
      · intro _
        constructor
        · simp [groupsSize, a, l2]; omega
        · by_cases hb : bytes.length > 0
          · simp [hb, b]
          · have : bytes.length = 0 := by omega
            simp [hb, b, this]
      · apply groupsAt_append _ _ _ h.2
        simp [← a, l1, l2]


/-- all state invariants together -/
def AllInv (w : W) : Prop := Inv w ∧ LInv w ∧ (w.headerWritten = false → w.rowGroups = [])

theorem allInv_init (cols : List Col) (codec pageSize : Nat) (createdBy : String) :
    AllInv { cols := cols, codec := codec, pageSize := pageSize, createdBy := createdBy } := by
  refine ⟨inv_init cols codec pageSize createdBy, ⟨fun h => by simp at h, by simp [GroupsAt]⟩, fun _ => rfl⟩

theorem allInv_ensureHeader (w : W) (h : AllInv w) :
    AllInv (ensureHeader w) ∧ (ensureHeader w).headerWritten = true := by
  obtain ⟨a, b, c⟩ := h
  have e := inv_ensureHeader w a
  refine ⟨⟨e.1, linv_ensureHeader w b a c, fun hf => by rw [e.2] at hf; cases hf⟩, e.2⟩

theorem flushRowGroup_header (D : Deps) (w : W) : (flushRowGroup D w).1.headerWritten = w.headerWritten := by
  unfold flushRowGroup
  cases w.rg with
  | none => rfl
  | some cws =>
    simp only
    cases finalizeCols D w w.cols cws w.fileOffset with
    | none => rfl
    | some p => rfl

theorem allInv_flushRowGroup (D : Deps) (w : W) (h : AllInv w) (hh : w.headerWritten = true) :
    AllInv (flushRowGroup D w).1 := by
  obtain ⟨a, b, _⟩ := h
  refine ⟨(inv_flushRowGroup D w a hh).1, linv_flushRowGroup D w b hh, fun hf => ?_⟩
  rw [flushRowGroup_header, hh] at hf; cases hf

theorem ensureRowGroup_fields (w : W) :
    (ensureRowGroup w).headerWritten = w.headerWritten ∧ (ensureRowGroup w).out = w.out ∧
    (ensureRowGroup w).fileOffset = w.fileOffset ∧ (ensureRowGroup w).rowGroups = w.rowGroups := by
  unfold ensureRowGroup; cases w.rg <;> simp

theorem allInv_writeBatch (D : Deps) (w : W) (b : Batch) (h : AllInv w) : AllInv (writeBatch D w b).1 := by
  have hE := allInv_ensureHeader w h
  obtain ⟨f1, f2, f3, f4⟩ := ensureRowGroup_fields (ensureHeader w)
  have hR : AllInv (ensureRowGroup (ensureHeader w)) := by
    obtain ⟨a, bb, c⟩ := hE.1
    refine ⟨inv_ensureRowGroup _ a, ?_, ?_⟩
    · simpa [LInv, f1, f2, f3, f4] using bb
    · intro hf; rw [f1, hE.2] at hf; cases hf
  unfold writeBatch
  cases hc : w.cols[b.col]? with
  | none => exact h
  | some c =>
    simp only
    cases hrg : (ensureRowGroup (ensureHeader w)).rg with
    | none => exact h
    | some cws =>
      simp only
      cases hcw : cws[b.col]? with
      | none => exact h
      | some cw =>
        simp only
        cases hcb : colWriteBatch D w.codec (targetPageSize w) c cw b with
        | none => exact hR
        | some cw' =>
          obtain ⟨a, bb, c'⟩ := hR
          exact ⟨⟨a.1, a.2⟩, ⟨bb.1, bb.2⟩, c'⟩

theorem allInv_step (D : Deps) (w : W) (op : Op) (h : AllInv w) : AllInv (step D w op).1 := by
  cases op with
  | batch b => exact allInv_writeBatch D w b h
  | newRowGroup =>
    have hE := allInv_ensureHeader w h
    exact allInv_flushRowGroup D _ hE.1 hE.2

/-- state after a history -/
def stateAfter (D : Deps) (w : W) (ops : List Op) : W := ops.foldl (fun w op => (step D w op).1) w

theorem ensureHeader_cols (w : W) :
    (ensureHeader w).cols = w.cols ∧ (ensureHeader w).createdBy = w.createdBy ∧ (ensureHeader w).rg = w.rg := by
  unfold ensureHeader; by_cases h : w.headerWritten = true <;> simp [h]

theorem ensureRowGroup_cols (w : W) :
    (ensureRowGroup w).cols = w.cols ∧ (ensureRowGroup w).createdBy = w.createdBy := by
  cases h : w.rg <;> simp [ensureRowGroup, h]

theorem flushRowGroup_cols (D : Deps) (w : W) :
    (flushRowGroup D w).1.cols = w.cols ∧ (flushRowGroup D w).1.createdBy = w.createdBy := by
  unfold flushRowGroup
  cases w.rg with
  | none => exact ⟨rfl, rfl⟩
  | some cws =>
    simp only
    cases finalizeCols D w w.cols cws w.fileOffset with
    | none => exact ⟨rfl, rfl⟩
    | some p => exact ⟨rfl, rfl⟩

theorem step_cols (D : Deps) (w : W) (op : Op) :
    (step D w op).1.cols = w.cols ∧ (step D w op).1.createdBy = w.createdBy := by
  have eh := ensureHeader_cols w
  have er := ensureRowGroup_cols (ensureHeader w)
  have e : (ensureRowGroup (ensureHeader w)).cols = w.cols ∧ (ensureRowGroup (ensureHeader w)).createdBy = w.createdBy :=
    ⟨er.1.trans eh.1, er.2.trans eh.2.1⟩
  cases op with
  | batch b =>
    simp only [step, writeBatch]
    cases w.cols[b.col]? with
    | none => exact ⟨rfl, rfl⟩
    | some c =>
      simp only
      cases (ensureRowGroup (ensureHeader w)).rg with
      | none => exact ⟨rfl, rfl⟩
      | some cws =>
        simp only
        cases cws[b.col]? with
        | none => exact ⟨rfl, rfl⟩
        | some cw =>
          simp only
          cases colWriteBatch D w.codec (targetPageSize w) c cw b with
          | none => exact e
          | some cw' => exact e
  | newRowGroup =>
    have f := flushRowGroup_cols D (ensureHeader w)
    exact ⟨f.1.trans eh.1, f.2.trans eh.2.1⟩

theorem stateAfter_cols (D : Deps) : ∀ (ops : List Op) (w : W),
    (stateAfter D w ops).cols = w.cols ∧ (stateAfter D w ops).createdBy = w.createdBy := by
  intro ops
  induction ops with
  | nil => intro w; exact ⟨rfl, rfl⟩
  | cons op ops ih =>
    intro w
    have a := ih (step D w op).1
    have b := step_cols D w op
    exact ⟨a.1.trans b.1, a.2.trans b.2⟩


theorem allInv_stateAfter (D : Deps) (ops : List Op) : ∀ w, AllInv w → AllInv (stateAfter D w ops) := by
  induction ops with
  | nil => intro w h; exact h
  | cons op ops ih => intro w h; exact ih _ (allInv_step D w op h)

theorem run_eq_close (D : Deps) : ∀ (ops : List Op) (w : W) (acc : List Status),
    (run D w ops acc).1 = (close D (stateAfter D w ops)).1 ∧
    (run D w ops acc).2.getLast? = some (close D (stateAfter D w ops)).2 := by
  intro ops
  induction ops with
  | nil => intro w acc; simp [run, stateAfter]
  | cons op ops ih => intro w acc; simpa [run, stateAfter] using ih (step D w op).1 (acc ++ [(step D w op).2])

/-- the state whose footer `close` writes -/
def closing (D : Deps) (w : W) : W := (flushRowGroup D (ensureHeader w)).1

theorem close_layout (D : Deps) (w : W) (h : AllInv w) (hok : (close D w).2 = .ok) :
    (close D w).1.flatten = (closing D w).out.flatten ++ footerOf D (closing D w) ++
        le32 (footerOf D (closing D w)).length ++ magic ∧
    (closing D w).out.flatten.length = 4 + groupsSize (closing D w).rowGroups ∧
    GroupsAt (closing D w).rowGroups 4 := by
  have hE := allInv_ensureHeader w h
  have hF := allInv_flushRowGroup D _ hE.1 hE.2
  have hh : (closing D w).headerWritten = true := by
    unfold closing; rw [flushRowGroup_header]; exact hE.2
  unfold close at hok ⊢
  unfold closing at hh hF ⊢
  generalize hfl : flushRowGroup D (ensureHeader w) = r at hok hF hh ⊢
  obtain ⟨w', st⟩ := r
  cases st with
  | ok =>
    simp only at hF hh ⊢
    obtain ⟨_, l, _⟩ := hF
    obtain ⟨l1, l2⟩ := l.1 hh
    refine ⟨by simp [List.flatten_append, List.append_assoc], by rw [l2, l1], l.2⟩
  | invalidArgument => simp at hok
  | fileWrite => simp at hok
  | other => simp at hok

end Carquet.Proofs.WriterLayout

namespace Carquet.Proofs.WriterLayout
open Carquet.Impl.Writer Carquet.Proofs.Writer

/-- rows of the file = sum of the rows of its row groups -/
def RowsInv (w : W) : Prop := w.totalRows = (w.rowGroups.map (·.numRows)).sum

theorem rowsInv_ensureHeader (w : W) (h : RowsInv w) : RowsInv (ensureHeader w) := by
  unfold ensureHeader; by_cases hw : w.headerWritten = true <;> simpa [hw, RowsInv] using h

theorem rowsInv_ensureRowGroup (w : W) (h : RowsInv w) : RowsInv (ensureRowGroup w) := by
  cases hr : w.rg <;> simpa [ensureRowGroup, hr, RowsInv] using h

theorem rowsInv_flushRowGroup (D : Deps) (w : W) (h : RowsInv w) : RowsInv (flushRowGroup D w).1 := by
  unfold flushRowGroup
  cases w.rg with
  | none => exact h
  | some cws =>
    simp only
    cases finalizeCols D w w.cols cws w.fileOffset with
    | none => exact h
    | some p => simp [RowsInv] at h ⊢; omega

theorem rowsInv_step (D : Deps) (w : W) (op : Op) (h : RowsInv w) : RowsInv (step D w op).1 := by
  cases op with
  | batch b =>
    have hR := rowsInv_ensureRowGroup _ (rowsInv_ensureHeader w h)
    simp only [step, writeBatch]
    cases w.cols[b.col]? with
    | none => exact h
    | some c =>
      simp only
      cases (ensureRowGroup (ensureHeader w)).rg with
      | none => exact h
      | some cws =>
        simp only
        cases cws[b.col]? with
        | none => exact h
        | some cw =>
          simp only
          cases colWriteBatch D w.codec (targetPageSize w) c cw b with
          | none => exact hR
          | some cw' => exact hR
  | newRowGroup => exact rowsInv_flushRowGroup D _ (rowsInv_ensureHeader w h)

theorem rowsInv_stateAfter (D : Deps) : ∀ (ops : List Op) (w : W), RowsInv w → RowsInv (stateAfter D w ops) := by
  intro ops
  induction ops with
  | nil => intro w h; exact h
  | cons op ops ih => intro w h; exact ih _ (rowsInv_step D w op h)

theorem rowsInv_closing (D : Deps) (w : W) (h : RowsInv w) : RowsInv (closing D w) :=
  rowsInv_flushRowGroup D _ (rowsInv_ensureHeader w h)

end Carquet.Proofs.WriterLayout
