import Carquet.Proofs.ImplReadsDefs
import Carquet.Proofs.Schema
import Carquet.Proofs.SpecFileWholeFull
/-
C06, implementation half — stage "schema": `build_schema` (validation loop + the traversal of
Impl.Schema) on the SchemaElements `parquet_parse_file_metadata` returns for the footer of the reference
writer (`implSE` of the depth-first list of the schema tree): the leaf arrays are the leaves of the
tree in the order of `Spec.File.columnsOf`, with its levels, and leaf `j` points at the schema element
that carries column `j`'s physical type and type length.
-/
namespace Carquet.Proofs.ImplReads
open Carquet.Spec Carquet.Spec.File
open Carquet.Impl
open Carquet.Impl.Reader hiding Bytes

/-! ### what `toElement` makes of the parsed elements: the tree with normalised names -/

/-- the `Info` `build_schema` sees for an element of the written schema -/
def normI (i : Schema.Info) : Schema.Info :=
  ⟨nameOf (some (ThriftParquet.cstr (strBytes i.name))), i.rep, i.ptype, i.typeLength, none, none⟩

def normE (e : Schema.Element) : Schema.Element := ⟨normI e.info, e.numChildren⟩

theorem repOf_repCode (r : Option Schema.Rep) : Reader.repOf (r.map repCode) = r := by
  cases r with
  | none => rfl
  | some r => cases r <;> rfl

theorem toElement_implSE (e : Schema.Element) : toElement (implSE e) = normE e := by
  obtain ⟨⟨name, rep, ptype, tl, lg, lt⟩, nc⟩ := e
  simp only [toElement, implSE, normE, normI, repOf_repCode]
  cases ptype <;> simp

mutual
  def normNode : Schema.Node → Schema.Node
    | .leaf i => .leaf (normI i)
    | .group i cs => .group (normI i) (normList cs)
  def normList : List Schema.Node → List Schema.Node
    | [] => []
    | c :: cs => normNode c :: normList cs
end

theorem normList_length : ∀ cs : List Schema.Node, (normList cs).length = cs.length
  | [] => rfl
  | c :: cs => by simp [normList, normList_length cs]

mutual
  theorem flatten_norm : ∀ n : Schema.Node, Schema.flatten (normNode n) = (Schema.flatten n).map normE
    | .leaf i => by simp [normNode, Schema.flatten, normE]
    | .group i cs => by
      simp [normNode, Schema.flatten, normE, normList_length, flattenList_norm cs]
  theorem flattenList_norm : ∀ cs : List Schema.Node, Schema.flattenList (normList cs) = (Schema.flattenList cs).map normE
    | [] => by simp [normList, Schema.flattenList]
    | c :: cs => by
      simp [normList, Schema.flattenList, flatten_norm c, flattenList_norm cs]
end

mutual
  theorem leavesOf_norm : ∀ (n : Schema.Node) (idx d r : Nat), Schema.leavesOf (normNode n) idx d r = Schema.leavesOf n idx d r
    | .leaf i, idx, d, r => by simp [normNode, Schema.leavesOf, normI]
    | .group i cs, idx, d, r => by
      simp [normNode, Schema.leavesOf, normI, leavesOfList_norm cs]
  theorem leavesOfList_norm : ∀ (cs : List Schema.Node) (idx d r : Nat),
      Schema.leavesOfList (normList cs) idx d r = Schema.leavesOfList cs idx d r
    | [], _, _, _ => by simp [normList, Schema.leavesOfList]
    | c :: cs, idx, d, r => by
      simp [normList, Schema.leavesOfList, leavesOf_norm c, leavesOfList_norm cs, flatten_norm c]
end

mutual
  theorem groupsNonEmpty_norm : ∀ n : Schema.Node, Schema.groupsNonEmpty (normNode n) = Schema.groupsNonEmpty n
    | .leaf i => by simp [normNode, Schema.groupsNonEmpty]
    | .group i cs => by
      have hl := normList_length cs
      have he : (normList cs).isEmpty = cs.isEmpty := by
        cases cs <;> simp [normList]
      simp [normNode, Schema.groupsNonEmpty, groupsNonEmptyList_norm cs, he]
  theorem groupsNonEmptyList_norm : ∀ cs : List Schema.Node,
      Schema.groupsNonEmptyList (normList cs) = Schema.groupsNonEmptyList cs
    | [] => by simp [normList]
    | c :: cs => by
      simp [normList, Schema.groupsNonEmptyList, groupsNonEmpty_norm c, groupsNonEmptyList_norm cs]
end

mutual
  theorem typed_norm : ∀ n : Schema.Node, Schema.typed (normNode n) = Schema.typed n
    | .leaf i => by simp [normNode, Schema.typed, normI]
    | .group i cs => by
      simp [normNode, Schema.typed, normI, typedList_norm cs]
  theorem typedList_norm : ∀ cs : List Schema.Node, Schema.typedList (normList cs) = Schema.typedList cs
    | [] => by simp [normList]
    | c :: cs => by
      simp [normList, Schema.typedList, typed_norm c, typedList_norm cs]
end

/-! ### a schema with columns is typed -/

mutual
theorem typed_of_leafInfosOf : ∀ (n : Schema.Node) (d r : Nat) (path : List String) (ls : List LeafInfo),
    leafInfosOf n d r path = .ok ls → Schema.typed n = true
  | .leaf i, d, r, path, ls, h => by
    simp only [leafInfosOf] at h
    cases hp : i.ptype with
    | none =>
      rw [hp] at h
      cases hr : i.rep <;> simp [hr] at h
    | some p => simp [Schema.typed, hp]
  | .group i cs, d, r, path, ls, h => by
    simp only [leafInfosOf] at h
    split at h
    · cases h
    · split at h
      · cases h
      · rename_i hty
        split at h
        · cases h
        · have := typedList_of_leafInfosOfList cs _ _ _ ls h
          simp only [Schema.typed, this, Bool.and_true]
          cases hp : i.ptype <;> simp [hp] at hty ⊢
theorem typedList_of_leafInfosOfList : ∀ (cs : List Schema.Node) (d r : Nat) (path : List String) (ls : List LeafInfo),
    leafInfosOfList cs d r path = .ok ls → Schema.typedList cs = true
  | [], _, _, _, _, _ => by simp [Schema.typedList]
  | c :: cs, d, r, path, ls, h => by
    simp only [leafInfosOfList] at h
    cases h1 : leafInfosOf c d r path with
    | error e => simp [h1] at h
    | ok a =>
      cases h2 : leafInfosOfList cs d r path with
      | error e => simp [h1, h2] at h
      | ok b =>
        simp only [Schema.typedList, typed_of_leafInfosOf c d r path a h1,
          typedList_of_leafInfosOfList cs d r path b h2, Bool.and_true]
end

/-! ### the validation loop is the element check of Impl.Schema -/

theorem elemBad_toElement (i : Nat) (s : ThriftParquet.SchemaElement) :
    elemBad i s = !(Schema.elemOk i (toElement s)) := by
  have h1 : (Option.map Int.toNat s.type).isSome = s.type.isSome := by cases s.type <;> rfl
  have h2 : (Option.map Int.toNat s.type).isNone = s.type.isNone := by cases s.type <;> rfl
  have h3 : decide (0 < i) = (i != 0) := by cases i <;> simp
  simp only [elemBad, Schema.elemOk, toElement, h1, h2, h3]
  by_cases hn : s.numChildren < 0 <;> by_cases hz : s.numChildren = 0 <;> by_cases hi : i = 0 <;>
    cases s.type.isSome <;> cases s.type.isNone <;> simp [hn, hz, hi]

theorem any_elemBad : ∀ (els : List ThriftParquet.SchemaElement) (n : Nat),
    (els.zipIdx n).any (fun p => elemBad p.2 p.1) = !(Schema.elemsOk n (els.map toElement))
  | [], _ => by simp [Schema.elemsOk]
  | e :: es, n => by
    rw [List.zipIdx_cons, List.any_cons, any_elemBad es (n + 1), elemBad_toElement]
    simp [Schema.elemsOk, Bool.not_and]

theorem elemsOk_of_build (els : List Schema.Element) (ls : List Schema.Leaf) (h : Schema.build els = some ls) :
    Schema.elemsOk 0 els = true := by
  unfold Schema.build at h
  cases hk : Schema.elemsOk 0 els with
  | true => rfl
  | false => simp [hk] at h

/-! ### leaves and columns -/

theorem ptypeCode_of_ptypeOf (n : Nat) (t : Order.PType) (h : ptypeOf n = some t) : n = ptypeCode t := by
  match n, h with
  | 0, h | 1, h | 2, h | 3, h | 4, h | 5, h | 6, h | 7, h =>
    simp only [ptypeOf, Option.some.injEq] at h; subst h; rfl
  | n + 8, h => simp [ptypeOf] at h

/-- what the statement says of a column and the `Info` of its leaf -/
def infoKey (i : Schema.Info) : Option Nat × Int := (i.ptype, i.typeLength)
def colKey (li : LeafInfo) : Option Nat × Int := (some (ptypeCode li.ptype), (li.typeLength : Int))
def leafLv (lf : Schema.Leaf) : Nat × Nat := (lf.maxDef, lf.maxRep)
def colLv (li : LeafInfo) : Nat × Nat := (li.maxDef, li.maxRep)

mutual
theorem cols_node : ∀ (n : Schema.Node) (d r : Nat) (path : List String) (ls : List LeafInfo),
    leafInfosOf n d r path = .ok ls → ∀ idx,
      (Schema.leavesOf n idx d r).map leafLv = ls.map colLv ∧
      (Carquet.Proofs.Schema.leafInfosOf n).map infoKey = ls.map colKey ∧
      ∀ li ∈ ls, li.ptype = .flba → 0 < li.typeLength
  | .leaf i, d, r, path, ls, h, idx => by
    simp only [leafInfosOf] at h
    cases hr : i.rep with
    | none => simp [hr] at h
    | some rp =>
      cases hp : i.ptype.bind ptypeOf with
      | none => simp [hr, hp] at h
      | some t =>
        simp only [hr, hp] at h
        split at h
        · cases h
        · rename_i hlen
          simp only [Except.ok.injEq] at h
          subst h
          have hcode : i.ptype = some (ptypeCode t) := by
            cases hq : i.ptype with
            | none => simp [hq] at hp
            | some n =>
              rw [hq] at hp
              simp only [Option.bind_some] at hp
              rw [ptypeCode_of_ptypeOf n t hp]
          have hlen' : 0 ≤ i.typeLength ∧ (t = .flba → i.typeLength ≠ 0) := by
            constructor
            · omega
            · intro ht h0; exact hlen (Or.inr ⟨ht, h0⟩)
          refine ⟨?_, ?_, ?_⟩
          · simp [Schema.leavesOf, leafLv, colLv, hr]
          · simp only [Carquet.Proofs.Schema.leafInfosOf, List.map_cons, List.map_nil, infoKey, colKey, hcode]
            congr 2
            omega
          · intro li hli ht
            simp only [List.mem_singleton] at hli
            subst hli
            have := hlen'.2 ht
            simp only
            omega
  | .group i cs, d, r, path, ls, h, idx => by
    simp only [leafInfosOf] at h
    split at h
    · cases h
    · split at h
      · cases h
      · split at h
        · cases h
        · have := cols_list cs _ _ _ ls h (idx + 1)
          simpa [Schema.leavesOf, Carquet.Proofs.Schema.leafInfosOf] using this
theorem cols_list : ∀ (cs : List Schema.Node) (d r : Nat) (path : List String) (ls : List LeafInfo),
    leafInfosOfList cs d r path = .ok ls → ∀ idx,
      (Schema.leavesOfList cs idx d r).map leafLv = ls.map colLv ∧
      (Carquet.Proofs.Schema.leafInfosOfList cs).map infoKey = ls.map colKey ∧
      ∀ li ∈ ls, li.ptype = .flba → 0 < li.typeLength
  | [], _, _, _, ls, h, idx => by
    simp only [leafInfosOfList, Except.ok.injEq] at h
    subst h
    simp [Schema.leavesOfList, Carquet.Proofs.Schema.leafInfosOfList]
  | c :: cs, d, r, path, ls, h, idx => by
    simp only [leafInfosOfList] at h
    cases h1 : leafInfosOf c d r path with
    | error e => simp [h1] at h
    | ok a =>
      cases h2 : leafInfosOfList cs d r path with
      | error e => simp [h1, h2] at h
      | ok b =>
        simp only [h1, h2, Except.ok.injEq] at h
        subst h
        obtain ⟨a1, a2, a3⟩ := cols_node c d r path a h1 idx
        obtain ⟨b1, b2, b3⟩ := cols_list cs d r path b h2 (idx + (Schema.flatten c).length)
        refine ⟨?_, ?_, ?_⟩
        · simp [Schema.leavesOfList, a1, b1]
        · simp [Carquet.Proofs.Schema.leafInfosOfList, a2, b2]
        · intro li hli
          rcases List.mem_append.mp hli with hm | hm
          · exact a3 li hm
          · exact b3 li hm
end

theorem buildSchema_written (root : Schema.Node) (leaves : List LeafInfo) (hcols : columnsOf root = .ok leaves) :
    ∃ lfs : List Schema.Leaf, buildSchema ((Schema.flatten root).map implSE) = .ok lfs ∧ lfs.length = leaves.length ∧
      ∀ (j : Nat) (lf : Schema.Leaf) (li : LeafInfo), lfs[j]? = some lf → leaves[j]? = some li →
        lf.maxDef = li.maxDef ∧ lf.maxRep = li.maxRep ∧
        ∃ el, ((Schema.flatten root).map implSE)[lf.elemIdx]? = some el ∧ el.type = some (ptypeCode li.ptype : Int) ∧
          el.typeLength = (li.typeLength : Int) ∧ (li.ptype = .flba → 0 < li.typeLength) := by
  have hne := Carquet.Proofs.SpecFile.groupsNonEmpty_of_columnsOf root leaves hcols
  cases root with
  | leaf i => simp [columnsOf] at hcols
  | group i cs =>
    -- typed
    have hlist : leafInfosOfList cs 0 0 [] = .ok leaves ∧ i.ptype.isSome = false := by
      simp only [columnsOf] at hcols
      split at hcols
      · cases hcols
      · split at hcols
        · cases hcols
        · rename_i h _; exact ⟨hcols, by simpa using h⟩
    obtain ⟨hlist, hroot⟩ := hlist
    have hty : Schema.typed (.group i cs) = true := by
      have := typedList_of_leafInfosOfList cs 0 0 [] leaves hlist
      simp only [Schema.typed, this, Bool.and_true]
      cases hp : i.ptype <;> simp [hp] at hroot ⊢
    -- the traversal
    have hels : ((Schema.flatten (.group i cs)).map implSE).map toElement = Schema.flatten (normNode (.group i cs)) := by
      rw [flatten_norm, List.map_map]
      apply List.map_congr_left
      intro e _
      exact toElement_implSE e
    have hb : Schema.build (Schema.flatten (normNode (.group i cs))) = some (Schema.leaves (.group i cs)) := by
      have := Carquet.Proofs.Schema.build_flatten (normI i) (normList cs)
        (by have := groupsNonEmpty_norm (.group i cs); rw [normNode] at this; rw [this]; exact hne)
        (by have := typed_norm (.group i cs); rw [normNode] at this; rw [this]; exact hty)
      rw [normNode, this]
      simp [Schema.leaves, leavesOfList_norm]
    have hbad : (((Schema.flatten (.group i cs)).map implSE).zipIdx.any (fun p => elemBad p.2 p.1)) = false := by
      rw [any_elemBad, hels, elemsOk_of_build _ _ hb]; rfl
    obtain ⟨c1, c2, c3⟩ := cols_list cs 0 0 [] leaves hlist 1
    have hel := Carquet.Proofs.Schema.leaf_elements_list cs [⟨i, cs.length⟩] [] 0 0
    refine ⟨Schema.leaves (.group i cs), ?_, ?_, ?_⟩
    · unfold buildSchema
      rw [hbad, hels, hb]
      rfl
    · have := congrArg List.length c1
      simpa [Schema.leaves] using this
    · intro j lf li hlf hli
      simp only [Schema.leaves] at hlf
      have e1 := congrArg (fun l => l[j]?) c1
      simp only [List.getElem?_map, hlf, hli, Option.map_some, Option.some.injEq, leafLv, colLv, Prod.mk.injEq] at e1
      have e3 := congrArg (fun l => l[j]?) hel
      simp only [List.length_singleton, List.getElem?_map, hlf, Option.map_some, List.append_nil] at e3
      cases hinf : (Carquet.Proofs.Schema.leafInfosOfList cs)[j]? with
      | none => simp [hinf] at e3
      | some inf =>
        simp only [hinf, Option.map_some, Option.some.injEq] at e3
        have e2 := congrArg (fun l => l[j]?) c2
        simp only [List.getElem?_map, hinf, hli, Option.map_some, Option.some.injEq, infoKey, colKey, Prod.mk.injEq] at e2
        refine ⟨e1.1, e1.2, implSE ⟨inf, 0⟩, ?_, ?_, ?_, c3 li (List.mem_of_getElem? hli)⟩
        · rw [List.getElem?_map]
          have : Schema.flatten (.group i cs) = [(⟨i, cs.length⟩ : Schema.Element)] ++ Schema.flattenList cs := by
            simp [Schema.flatten]
          rw [this, e3]; rfl
        · simp [implSE, e2.1]
        · simp [implSE, e2.2]

end Carquet.Proofs.ImplReads

