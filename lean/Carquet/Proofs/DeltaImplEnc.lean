import Carquet.Proofs.DeltaImplDec
/-
The Impl encoder (model of the repaired delta.c) emits a well-formed 128/4 grammar stream whose
register values are the input.
-/
namespace Carquet.Impl.Delta
open Carquet.Spec.Delta (Stream Block Geometry fits packMinis pack packedSize ulebEncode zigzagEnc blocksWf totalDeltas)

/-- `delta` of the encode loop -/
def deltasFrom : BitVec 64 → List (BitVec 64) → List (BitVec 64)
  | _, [] => []
  | last, v :: vs => (v - last) :: deltasFrom v vs

/-- the blocks the encode loop flushes: `buf` is the block buffer -/
def blocksOf : List (BitVec 64) → List (BitVec 64) → List (List (BitVec 64))
  | buf, [] => if buf = [] then [] else [buf]
  | buf, d :: ds => if buf.length + 1 = 128 then (buf ++ [d]) :: blocksOf [] ds else blocksOf (buf ++ [d]) ds

theorem flushBlock_ok (pre : Bool) (e e' : Enc) (h : flushBlock pre e = .ok e') :
    e'.out = e.out ++ (if e.deltas = [] then [] else blockBytes pre e.deltas) ∧
    e'.deltas = [] ∧ e'.last = e.last ∧ e'.cap = e.cap := by
  unfold flushBlock at h
  by_cases hd : e.deltas = []
  · rw [if_pos hd] at h
    cases h
    simp [hd]
  · rw [if_neg hd] at h
    split at h
    · cases h
    · cases h
      simp [hd]

theorem encodeLoop_out (pre : Bool) (vs : List (BitVec 64)) : ∀ (e e1 e2 : Enc),
    encodeLoop pre vs e = .ok e1 → flushBlock pre e1 = .ok e2 →
    e2.out = e.out ++ (blocksOf e.deltas (deltasFrom e.last vs)).flatMap (blockBytes pre) := by
  induction vs with
  | nil =>
    intro e e1 e2 h1 h2
    simp only [encodeLoop] at h1
    cases h1
    have := (flushBlock_ok pre e e2 h2).1
    rw [this]
    simp only [deltasFrom, blocksOf]
    by_cases hd : e.deltas = [] <;> simp [hd]
  | cons v vs ih =>
    intro e e1 e2 h1 h2
    simp only [encodeLoop] at h1
    simp only [deltasFrom, blocksOf]
    by_cases hfull : e.deltas.length + 1 = blockSize
    · rw [if_pos hfull] at h1
      rw [if_pos (by simpa [blockSize] using hfull)]
      cases hf : flushBlock pre { e with deltas := e.deltas ++ [v - e.last], last := v } with
      | error s => rw [hf] at h1; cases h1
      | ok e' =>
        rw [hf] at h1
        simp only at h1
        obtain ⟨ho, hd, hl, _⟩ := flushBlock_ok pre _ e' hf
        have := ih e' e1 e2 h1 h2
        rw [this, ho, hd, hl]
        simp
    · rw [if_neg hfull] at h1
      rw [if_neg (by simpa [blockSize] using hfull)]
      have := ih _ e1 e2 h1 h2
      rw [this]

/-- the output of a successful `carquet_delta_encode_*` call (capacity aside) -/
def encodeOut (v : BitVec 64) (rest : List (BitVec 64)) : List UInt8 :=
  headerBytes (rest.length + 1) v ++ (blocksOf [] (deltasFrom v rest)).flatMap (blockBytes false)

theorem encodeV_ok (v : BitVec 64) (rest : List (BitVec 64)) (cap : Nat) (bs : List UInt8)
    (h : encodeV false (v :: rest) cap = .ok bs) : bs = encodeOut v rest := by
  simp only [encodeV] at h
  split at h
  · cases h
  · cases h1 : encodeLoop false rest ⟨headerBytes (rest.length + 1) v, cap, v, []⟩ with
    | error s => rw [h1] at h; cases h
    | ok e =>
      rw [h1] at h
      simp only at h
      cases h2 : flushBlock false e with
      | error s => rw [h2] at h; cases h
      | ok e' =>
        rw [h2] at h
        simp only at h
        cases h
        exact encodeLoop_out false rest _ e e' h1 h2

/-! the blocks are well formed -/

theorem blocksOf_shape (ds : List (BitVec 64)) : ∀ buf : List (BitVec 64), buf.length < 128 →
    (∀ c ∈ blocksOf buf ds, 0 < c.length ∧ c.length ≤ 128) ∧
    (blocksOf buf ds).flatten = buf ++ ds ∧
    List.Pairwise (fun c _ => c.length = 128) (blocksOf buf ds) := by
  induction ds with
  | nil =>
    intro buf hb
    simp only [blocksOf]
    by_cases h : buf = []
    · simp [h]
    · simp only [if_neg h]
      refine ⟨?_, by simp, by simp⟩
      intro c hc
      simp only [List.mem_singleton] at hc
      subst hc
      exact ⟨List.length_pos_iff.mpr h, by omega⟩
  | cons d ds ih =>
    intro buf hb
    simp only [blocksOf]
    by_cases hf : buf.length + 1 = 128
    · rw [if_pos hf]
      obtain ⟨h1, h2, h3⟩ := ih [] (by simp)
      refine ⟨?_, ?_, ?_⟩
      · intro c hc
        simp only [List.mem_cons] at hc
        rcases hc with rfl | hc
        · simp; omega
        · exact h1 c hc
      · simp [h2]
      · rw [List.pairwise_cons]
        refine ⟨fun _ _ => by simp; omega, h3⟩
    · rw [if_neg hf]
      have := ih (buf ++ [d]) (by simp; omega)
      simpa using this

/-- loop of `bit_width_required`: the value fits the width -/
theorem bitWidthLoop_spec (f : Nat) : ∀ v w : Nat, v < 2 ^ f →
    v < 2 ^ (bitWidthLoop f v w - w) ∧ w ≤ bitWidthLoop f v w ∧ bitWidthLoop f v w ≤ w + f := by
  induction f with
  | zero =>
    intro v w h
    simp [bitWidthLoop] at h ⊢
    omega
  | succ f ih =>
    intro v w h
    simp only [bitWidthLoop]
    by_cases hv : 0 < v
    · rw [if_pos hv]
      obtain ⟨h1, h2, h3⟩ := ih (v / 2) (w + 1) (by rw [Nat.pow_succ] at h; omega)
      refine ⟨?_, by omega, by omega⟩
      have : bitWidthLoop f (v / 2) (w + 1) - w = (bitWidthLoop f (v / 2) (w + 1) - (w + 1)) + 1 := by omega
      rw [this, Nat.pow_succ]
      omega
    · rw [if_neg hv]
      have : v = 0 := by omega
      subst this
      simp

theorem bitWidthRequired_spec (v : BitVec 64) :
    v.toNat < 2 ^ bitWidthRequired v ∧ bitWidthRequired v ≤ 64 := by
  unfold bitWidthRequired
  by_cases h : v = 0#64
  · rw [if_pos h]; subst h; simp
  · rw [if_neg h]
    have := bitWidthLoop_spec 64 v.toNat 0 v.isLt
    simpa using this

theorem maxAdjusted_spec (min : BitVec 64) (slice : List (BitVec 64)) : ∀ m : BitVec 64,
    m.toNat ≤ (maxAdjusted min m slice).toNat ∧
    ∀ d ∈ slice, (d - min).toNat ≤ (maxAdjusted min m slice).toNat := by
  induction slice with
  | nil => intro m; simp [maxAdjusted]
  | cons d ds ih =>
    intro m
    simp only [maxAdjusted]
    by_cases h : m.ult (d - min) = true
    · rw [if_pos h]
      obtain ⟨h1, h2⟩ := ih (d - min)
      have hlt : m.toNat < (d - min).toNat := by
        have := BitVec.ult_iff_lt.mp h
        exact BitVec.lt_def.mp this
      refine ⟨by omega, ?_⟩
      intro x hx
      simp only [List.mem_cons] at hx
      rcases hx with rfl | hx
      · exact h1
      · exact h2 x hx
    · rw [if_neg h]
      obtain ⟨h1, h2⟩ := ih m
      have hge : (d - min).toNat ≤ m.toNat := by
        have : ¬ (m < d - min) := fun hh => h (BitVec.ult_iff_lt.mpr hh)
        rw [BitVec.lt_def] at this
        omega
      refine ⟨h1, ?_⟩
      intro x hx
      simp only [List.mem_cons] at hx
      rcases hx with rfl | hx
      · omega
      · exact h2 x hx

/-- every adjusted delta of a miniblock fits the miniblock's width -/
theorem miniWidth_fits (min : BitVec 64) (slice : List (BitVec 64)) :
    miniWidth min slice ≤ 64 ∧ ∀ d ∈ slice, (d - min).toNat < 2 ^ miniWidth min slice := by
  unfold miniWidth
  obtain ⟨h1, h2⟩ := bitWidthRequired_spec (maxAdjusted min 0#64 slice)
  refine ⟨h2, fun d hd => ?_⟩
  have := (maxAdjusted_spec min slice 0#64).2 d hd
  omega

/-- zero padding that completes the last needed miniblock -/
def padLen (n : Nat) : Nat := (32 - n % 32) % 32

/-- the grammar block one `delta_encoder_flush_block` call writes for the buffered deltas `c` -/
def implBlock (c : List (BitVec 64)) : Block :=
  { minDelta := (blockMin c).toInt
    widths := (blockWidths (blockMin c) c).map UInt8.ofNat
    adj := c.map (fun d => (d - blockMin c).toNat)
    pad := List.replicate (padLen c.length) 0 }

theorem packMinis_cons (vpm : Nat) (w : UInt8) (ws : List UInt8) (xs : List Nat) :
    packMinis vpm (w :: ws) xs = pack w.toNat (xs.take vpm) ++ packMinis vpm ws (xs.drop vpm) := by
  simp only [packMinis]
  by_cases h : xs = []
  · subst h
    simp [packMinis_nil, pack, packedSize, Spec.Delta.bytesOfBits]
  · rw [if_neg h]

theorem miniIndices_eq : miniIndices = [0, 1, 2, 3] := rfl

/-- the chunk of the padded adjusted deltas that miniblock `j` holds -/
theorem chunk_eq (f : BitVec 64 → Nat) (c : List (BitVec 64)) (j : Nat) (h : 32 * j < c.length) :
    ((c.map f ++ List.replicate (padLen c.length) 0).drop (32 * j)).take 32 =
      (miniSlice c j).map f ++ List.replicate (32 - (miniSlice c j).length) 0 := by
  have hms : miniSlice c j = (c.drop (32 * j)).take 32 := by
    simp [miniSlice, miniBlockSize, blockSize, miniBlocks, Nat.mul_comm]
  rw [hms, List.drop_append_of_le_length (by simp; omega), List.take_append]
  simp only [List.length_drop, List.length_map, List.map_take, List.map_drop, List.take_replicate,
    List.length_take]
  congr 2
  unfold padLen
  omega

theorem chunk_nil (f : BitVec 64 → Nat) (c : List (BitVec 64)) (j : Nat) (h : c.length ≤ 32 * j) :
    (c.map f ++ List.replicate (padLen c.length) 0).drop (32 * j) = [] ∧ miniSlice c j = [] := by
  constructor
  · apply List.drop_eq_nil_of_le
    simp only [List.length_append, List.length_map, List.length_replicate]
    unfold padLen; omega
  · simp [miniSlice, miniBlockSize, blockSize, miniBlocks]
    omega

theorem miniWidth_nil (min : BitVec 64) : miniWidth min [] = 0 := by
  simp [miniWidth, maxAdjusted, bitWidthRequired]

theorem toNat_ofNat_width (min : BitVec 64) (slice : List (BitVec 64)) :
    (UInt8.ofNat (miniWidth min slice)).toNat = miniWidth min slice := by
  have := (miniWidth_fits min slice).1
  exact Spec.Delta.toNat_ofNat_lt _ (by omega)

/-- bytes of miniblock `j`: Impl's `to_pack` packing is the grammar's packing of the chunk -/
theorem miniBytes_eq (c : List (BitVec 64)) (j : Nat) :
    miniBytes false (miniWidth (blockMin c) (miniSlice c j)) (blockMin c) (miniSlice c j) =
      pack (UInt8.ofNat (miniWidth (blockMin c) (miniSlice c j))).toNat
        (((c.map (fun d => (d - blockMin c).toNat) ++ List.replicate (padLen c.length) 0).drop (32 * j)).take 32) := by
  rw [toNat_ofNat_width]
  by_cases h : 32 * j < c.length
  · rw [chunk_eq _ c j h]
    unfold miniBytes
    by_cases hw : miniWidth (blockMin c) (miniSlice c j) = 0
    · rw [if_pos hw, hw]; simp
    · rw [if_neg hw]
      simp only [Bool.false_and, Bool.false_eq_true, if_false]
      rw [packBits_eq]
      congr 1
      unfold toPack
      simp only [List.map_append, List.map_map, List.map_replicate, miniBlockSize, blockSize, miniBlocks]
      congr 1
      · apply List.map_congr_left
        intro d hd
        simp only [Function.comp_def]
        exact Nat.mod_eq_of_lt ((miniWidth_fits (blockMin c) (miniSlice c j)).2 d hd)
  · obtain ⟨h1, h2⟩ := chunk_nil (fun d => (d - blockMin c).toNat) c j (by omega)
    rw [h1, h2, miniWidth_nil]
    simp [miniBytes, pack, packedSize, Spec.Delta.bytesOfBits]

theorem packMinis_no_widths (vpm : Nat) (xs : List Nat) : packMinis vpm [] xs = [] := rfl

/-- what `flush_block` appends is the byte image of the grammar block -/
theorem blockBytes_eq (c : List (BitVec 64)) : blockBytes false c = (implBlock c).bytes ⟨128, 4⟩ := by
  unfold blockBytes blockBytesMin Block.bytes implBlock
  have hvpm : Geometry.vpm ⟨128, 4⟩ = 32 := rfl
  simp only [hvpm]
  rw [writeUleb128_eq, zigzagEncode64_toNat]
  congr 1
  simp only [blockWidths, miniIndices_eq, List.map_cons, List.map_nil, List.flatMap_cons, List.flatMap_nil,
    packMinis_cons, packMinis_no_widths, List.append_nil]
  have e0 := miniBytes_eq c 0
  have e1 := miniBytes_eq c 1
  have e2 := miniBytes_eq c 2
  have e3 := miniBytes_eq c 3
  simp only [Nat.mul_zero, List.drop_zero] at e0
  rw [e0, e1, e2, e3]
  simp only [List.drop_drop]

theorem inI64_toInt (v : BitVec 64) : Spec.Delta.inI64 v.toInt := by
  have h1 := @BitVec.le_toInt 64 v
  have h2 := @BitVec.toInt_lt 64 v
  exact ⟨by simpa using h1, by simpa using h2⟩

theorem mem_chunk (f : BitVec 64 → Nat) (c : List (BitVec 64)) (j : Nat) (x : Nat)
    (hx : x ∈ ((c.map f ++ List.replicate (padLen c.length) 0).drop (32 * j)).take 32) :
    x = 0 ∨ ∃ d ∈ miniSlice c j, x = f d := by
  by_cases h : 32 * j < c.length
  · rw [chunk_eq f c j h] at hx
    simp only [List.mem_append, List.mem_map, List.mem_replicate] at hx
    rcases hx with ⟨d, hd, rfl⟩ | ⟨_, rfl⟩
    · exact Or.inr ⟨d, hd, rfl⟩
    · exact Or.inl rfl
  · rw [(chunk_nil f c j (by omega)).1] at hx
    simp at hx

theorem implBlock_wf (c : List (BitVec 64)) (h1 : 0 < c.length) (h2 : c.length ≤ 128) :
    (implBlock c).wf ⟨128, 4⟩ := by
  have hvpm : Geometry.vpm ⟨128, 4⟩ = 32 := rfl
  unfold Block.wf implBlock
  simp only [hvpm, List.length_map, List.length_replicate]
  refine ⟨rfl, h1, h2, by unfold padLen; omega, by unfold padLen; omega, ?_, inI64_toInt _⟩
  have level : ∀ j, (UInt8.ofNat (miniWidth (blockMin c) (miniSlice c j))).toNat ≤ 64 ∧
      ∀ x ∈ ((c.map (fun d => (d - blockMin c).toNat) ++ List.replicate (padLen c.length) 0).drop (32 * j)).take 32,
        x < 2 ^ (UInt8.ofNat (miniWidth (blockMin c) (miniSlice c j))).toNat := by
    intro j
    rw [toNat_ofNat_width]
    refine ⟨(miniWidth_fits _ _).1, fun x hx => ?_⟩
    rcases mem_chunk _ c j x hx with rfl | ⟨d, hd, rfl⟩
    · exact Nat.two_pow_pos _
    · exact (miniWidth_fits _ _).2 d hd
  simp only [blockWidths, miniIndices_eq, List.map_cons, List.map_nil, fits]
  have l0 := level 0
  simp only [Nat.mul_zero, List.drop_zero] at l0
  refine Or.inr ⟨l0.1, l0.2, Or.inr ⟨(level 1).1, (level 1).2, ?_⟩⟩
  rw [List.drop_drop]
  refine Or.inr ⟨(level 2).1, (level 2).2, ?_⟩
  rw [List.drop_drop]
  refine Or.inr ⟨(level 3).1, (level 3).2, ?_⟩
  rw [List.drop_drop]
  apply List.drop_eq_nil_of_le
  simp only [List.length_append, List.length_map, List.length_replicate]
  unfold padLen; omega

/-- the grammar stream a successful `carquet_delta_encode_*` call writes -/
def implStream (v : BitVec 64) (rest : List (BitVec 64)) : Stream :=
  ⟨⟨128, 4⟩, rest.length + 1, v.toInt, (blocksOf [] (deltasFrom v rest)).map implBlock⟩

theorem length_deltasFrom (v : BitVec 64) (rest : List (BitVec 64)) : (deltasFrom v rest).length = rest.length := by
  induction rest generalizing v with
  | nil => rfl
  | cons x xs ih => simp [deltasFrom, ih]

theorem blocksWf_map (l : List (List (BitVec 64))) (h1 : ∀ c ∈ l, 0 < c.length ∧ c.length ≤ 128)
    (h2 : List.Pairwise (fun c _ => c.length = 128) l) : blocksWf ⟨128, 4⟩ (l.map implBlock) := by
  induction l with
  | nil => trivial
  | cons c l ih =>
    have hc := h1 c (by simp)
    rw [List.pairwise_cons] at h2
    cases l with
    | nil => exact implBlock_wf c hc.1 hc.2
    | cons c' l' =>
      refine ⟨implBlock_wf c hc.1 hc.2, ?_, ih (fun x hx => h1 x (by simp [hx])) h2.2⟩
      simp only [implBlock, List.length_map]
      exact h2.1 c' (by simp)

theorem totalDeltas_map (l : List (List (BitVec 64))) :
    totalDeltas (l.map implBlock) = l.flatten.length := by
  induction l with
  | nil => rfl
  | cons c l ih =>
    simp only [totalDeltas, List.map_cons, List.sum_cons, List.flatten_cons, List.length_append] at ih ⊢
    rw [ih]; simp [implBlock]

theorem implStream_wf (v : BitVec 64) (rest : List (BitVec 64)) (hlen : rest.length + 1 ≤ 2147483647) :
    (implStream v rest).wf := by
  obtain ⟨h1, h2, h3⟩ := blocksOf_shape (deltasFrom v rest) [] (by simp)
  have hleg : Geometry.legal ⟨128, 4⟩ := by decide
  refine ⟨hleg, blocksWf_map _ h1 h3, Or.inl ?_, ?_⟩
  · simp only [implStream]
    rw [totalDeltas_map, h2]
    simp [length_deltasFrom]
  · refine ⟨?_, ?_, ?_, inI64_toInt v⟩ <;> simp only [implStream] <;> omega

theorem implStream_fitsApi (v : BitVec 64) (rest : List (BitVec 64)) (h : rest.length + 1 ≤ 2147483647) :
    Stream.fitsApi (implStream v rest) := by
  refine ⟨h, inI64_toInt v, ?_⟩
  intro b hb
  simp only [implStream, List.mem_map] at hb
  obtain ⟨c, _, rfl⟩ := hb
  exact inI64_toInt _

theorem encodeOut_eq (v : BitVec 64) (rest : List (BitVec 64)) (h : rest.length + 1 ≤ 2147483647) :
    encodeOut v rest = (implStream v rest).bytes := by
  unfold encodeOut Stream.bytes Stream.header implStream headerBytes
  simp only [writeUleb128_eq, zigzagEncode64_toNat, List.flatMap_map]
  congr 1
  · have e : ∀ n : Nat, n ≤ 2147483647 → (BitVec.ofNat 64 n).toNat = n := by
      intro n hn; rw [BitVec.toNat_ofNat, Nat.mod_eq_of_lt (by omega)]
    rw [e blockSize (by decide), e miniBlocks (by decide), e _ h]
    rfl
  · have : blockBytes false = fun a => Block.bytes ⟨128, 4⟩ (implBlock a) := funext blockBytes_eq
    rw [this]

theorem bdeltas_implBlock (c : List (BitVec 64)) : bdeltas (implBlock c) = c := by
  simp only [bdeltas, implBlock, List.map_map]
  conv => rhs; rw [← List.map_id c]
  apply List.map_congr_left
  intro d _
  simp only [Function.comp_def, BitVec.ofInt_toInt, BitVec.ofNat_toNat, BitVec.setWidth_eq, id]
  rw [BitVec.add_comm, BitVec.sub_add_cancel]

theorem sums_deltasFrom (v : BitVec 64) (rest : List (BitVec 64)) : sums v (deltasFrom v rest) = rest := by
  induction rest generalizing v with
  | nil => rfl
  | cons x xs ih =>
    simp only [deltasFrom, sums]
    have : v + (x - v) = x := by rw [BitVec.add_comm, BitVec.sub_add_cancel]
    rw [this, ih]

theorem implValues_implStream (v : BitVec 64) (rest : List (BitVec 64)) :
    implValues (implStream v rest) = v :: rest := by
  unfold implValues implStream
  simp only [Nat.succ_ne_zero, if_false, BitVec.ofInt_toInt, List.flatMap_map]
  have : (blocksOf [] (deltasFrom v rest)).flatMap (fun c => bdeltas (implBlock c)) = deltasFrom v rest := by
    have h2 := (blocksOf_shape (deltasFrom v rest) [] (by simp)).2.1
    simp only [bdeltas_implBlock]
    simp only [List.nil_append] at h2
    have e : ∀ l : List (List (BitVec 64)), l.flatMap (fun c => c) = l.flatten := by
      intro l; induction l with
      | nil => rfl
      | cons a l ih => simp [List.flatMap_cons, ih]
    rw [e, h2]
  rw [this, sums_deltasFrom]

/-- Everything about a successful encode in one statement: the bytes are the image of a
well-formed 128/4 stream that fits the API and whose register values are the input. -/
theorem encodeV_stream (v : BitVec 64) (rest : List (BitVec 64)) (cap : Nat) (bs : List UInt8)
    (hlen : rest.length + 1 ≤ 2147483647) (h : encodeV false (v :: rest) cap = .ok bs) :
    ∃ s : Stream, s.wf ∧ s.geom = ⟨128, 4⟩ ∧ Stream.fitsApi s ∧ bs = s.bytes ∧ s.count = rest.length + 1 ∧
      implValues s = v :: rest :=
  ⟨implStream v rest, implStream_wf v rest hlen, rfl, implStream_fitsApi v rest hlen,
   by rw [encodeV_ok v rest cap bs h, encodeOut_eq v rest hlen], rfl, implValues_implStream v rest⟩

end Carquet.Impl.Delta
