import Carquet.Spec.Crc32
import Carquet.Proofs.Crc32Table
/-
Helper lemmas for C14_burst_detected: bit-serial view of `run`, linearity of the bit-serial
register map, a window of ≤ 32 bits fed into the zero register is the window placed in the
register followed by zero-input steps, burst detection on bit lists.
-/
namespace Carquet.Proofs.Crc32
open Carquet.Spec.Crc32

/-! ### a bit list placed in the register (bit `i` of the register = `m[i]`) -/

def lowBit (b : Bool) : BitVec 32 := if b then 1#32 else 0#32

def place : List Bool → BitVec 32
  | [] => 0#32
  | b :: m => (place m <<< 1) ^^^ lowBit b

theorem getLsbD_lowBit (b : Bool) (i : Nat) : (lowBit b).getLsbD i = (decide (i = 0) && b) := by
  cases b <;> simp [lowBit, BitVec.getLsbD_one]

theorem getLsbD_place (m : List Bool) (i : Nat) (hi : i < 32) :
    (place m).getLsbD i = (m[i]?).getD false := by
  induction m generalizing i with
  | nil => simp [place]
  | cons b m ih =>
    rw [place, BitVec.getLsbD_xor, BitVec.getLsbD_shiftLeft, getLsbD_lowBit]
    cases i with
    | zero => simp
    | succ j => simp [hi, ih j (by omega)]

theorem place_high (m : List Bool) (i : Nat) (h : m.length ≤ i) : (place m).getLsbD i = false := by
  by_cases hi : i < 32
  · rw [getLsbD_place m i hi, List.getElem?_eq_none h]; rfl
  · exact BitVec.getLsbD_of_ge _ _ (by omega)

theorem all_false_of_place_eq_zero (m : List Bool) (hl : m.length ≤ 32) (h : place m = 0#32) :
    ∀ i : Nat, m[i]? ≠ some true := by
  intro i hi
  have hlt : i < m.length := by
    rcases Nat.lt_or_ge i m.length with h' | h'
    · exact h'
    · rw [List.getElem?_eq_none h'] at hi; cases hi
  have := getLsbD_place m i (by omega)
  rw [h, hi] at this
  simp at this

theorem shl1_shr1 (x : BitVec 32) (h : x.getLsbD 31 = false) : (x <<< 1) >>> 1 = x := by
  apply BitVec.eq_of_getLsbD_eq
  intro i hi
  rw [BitVec.getLsbD_ushiftRight, BitVec.getLsbD_shiftLeft]
  by_cases h31 : i = 31
  · subst h31; simpa using h
  · have : 1 + i < 32 := by omega
    simp [this]

/-! ### bit-serial register map -/

theorem bitStep_false (c : BitVec 32) : bitStep c false = step1 c := by simp [bitStep]

theorem bitStep_zero_false : bitStep 0#32 false = 0#32 := by decide

theorem xor4 (a b c d : BitVec 32) : (a ^^^ b) ^^^ (c ^^^ d) = (a ^^^ c) ^^^ (b ^^^ d) := by
  ext i hi; simp only [BitVec.getElem_xor]
  cases a[i] <;> cases b[i] <;> cases c[i] <;> cases d[i] <;> rfl

theorem lowBit_xor (a b : Bool) : lowBit (a ^^ b) = lowBit a ^^^ lowBit b := by
  cases a <;> cases b <;> decide

theorem bitStep_xor (c c' : BitVec 32) (a b : Bool) :
    bitStep (c ^^^ c') (a ^^ b) = bitStep c a ^^^ bitStep c' b := by
  show step1 ((c ^^^ c') ^^^ lowBit (a ^^ b)) = step1 (c ^^^ lowBit a) ^^^ step1 (c' ^^^ lowBit b)
  rw [← step1_xor, lowBit_xor, xor4]

/-- The difference of two runs is the run of the xor-difference from the xor of the registers. -/
theorem runBits_xor (x y : List Bool) (h : x.length = y.length) (c c' : BitVec 32) :
    runBits c x ^^^ runBits c' y = runBits (c ^^^ c') (List.zipWith (· ^^ ·) x y) := by
  induction x generalizing y c c' with
  | nil => cases y with
    | nil => rfl
    | cons _ _ => cases h
  | cons a x ih => cases y with
    | nil => cases h
    | cons b y =>
      simp only [List.length_cons, Nat.add_right_cancel_iff] at h
      simp only [runBits, List.foldl_cons, List.zipWith_cons_cons] at ih ⊢
      rw [ih y h, bitStep_xor]

theorem runBits_append (c : BitVec 32) (x y : List Bool) :
    runBits c (x ++ y) = runBits (runBits c x) y := by
  simp [runBits, List.foldl_append]

/-- Trailing zero bits apply zero-input steps. -/
theorem runBits_zeros (z : List Bool) (hz : ∀ i : Nat, z[i]? ≠ some true) (c : BitVec 32) :
    runBits c z = iter step1 z.length c := by
  induction z generalizing c with
  | nil => rfl
  | cons b z ih =>
    have hb : b = false := by
      cases b
      · rfl
      · exact absurd rfl (hz 0)
    subst hb
    have hz' : ∀ i : Nat, z[i]? ≠ some true := fun i => by simpa using hz (i + 1)
    simp only [runBits, List.foldl_cons, List.length_cons, iter, bitStep_false] at ih ⊢
    exact ih hz' _

/-- Feeding at most 32 bits: the bits are placed in the register, then that many zero-input
steps are made. -/
theorem runBits_place (m : List Bool) (hl : m.length ≤ 32) (c : BitVec 32) :
    runBits c m = iter step1 m.length (c ^^^ place m) := by
  induction m generalizing c with
  | nil => simp [runBits, place, iter]
  | cons b m ih =>
    simp only [List.length_cons] at hl
    have hs : step1 (c ^^^ place (b :: m)) = bitStep c b ^^^ place m := by
      have e : c ^^^ place (b :: m) = (c ^^^ lowBit b) ^^^ (place m <<< 1) := by
        rw [place, BitVec.xor_comm (place m <<< 1), BitVec.xor_assoc]
      have l0 : (place m <<< 1).getLsbD 0 = false := by simp
      rw [e, step1_xor, step1_of_low_false l0, shl1_shr1 _ (place_high m 31 (by omega))]
      rfl
    simp only [runBits, List.foldl_cons, List.length_cons, iter] at ih ⊢
    rw [hs, ih (by omega)]

/-! ### bytes as bits -/

theorem place_byteBits (b : UInt8) : place (byteBits b) = b.toBitVec.setWidth 32 := by
  apply BitVec.eq_of_getLsbD_eq
  intro i hi
  rw [getLsbD_place _ i hi, BitVec.getLsbD_setWidth]
  by_cases h : i < 8
  · have : i = 0 ∨ i = 1 ∨ i = 2 ∨ i = 3 ∨ i = 4 ∨ i = 5 ∨ i = 6 ∨ i = 7 := by omega
    rcases this with h | h | h | h | h | h | h | h <;> subst h <;> simp [byteBits]
  · have h1 : (byteBits b)[i]? = none := List.getElem?_eq_none (by simp [byteBits]; omega)
    have h2 : b.toBitVec.getLsbD i = false := BitVec.getLsbD_of_ge _ _ (by omega)
    simp [h1, h2]

theorem length_byteBits (b : UInt8) : (byteBits b).length = 8 := rfl

theorem byteStep_eq_runBits (c : BitVec 32) (b : UInt8) : byteStep c b = runBits c (byteBits b) := by
  rw [runBits_place _ (by simp [length_byteBits]), place_byteBits]; rfl

/-- `run` is the bit-serial LFSR over the message bit stream. -/
theorem run_eq_runBits (c : BitVec 32) (data : List UInt8) : run c data = runBits c (bits data) := by
  induction data generalizing c with
  | nil => rfl
  | cons b data ih =>
    have : bits (b :: data) = byteBits b ++ bits data := rfl
    rw [this, runBits_append, ← byteStep_eq_runBits, ← ih]; rfl

theorem length_bits (d : List UInt8) : (bits d).length = 8 * d.length := by
  induction d with
  | nil => rfl
  | cons b d ih =>
    have : bits (b :: d) = byteBits b ++ bits d := rfl
    rw [this, List.length_append, ih, length_byteBits, List.length_cons]; omega

theorem byteBits_injective {a b : UInt8} (h : byteBits a = byteBits b) : a = b := by
  have hp : place (byteBits a) = place (byteBits b) := by rw [h]
  rw [place_byteBits, place_byteBits] at hp
  apply UInt8.eq_of_toBitVec_eq
  have := congrArg (BitVec.setWidth 8) hp
  simpa using this

theorem bits_injective {d d' : List UInt8} (h : bits d = bits d') : d = d' := by
  induction d generalizing d' with
  | nil => cases d' with
    | nil => rfl
    | cons b d' => have := congrArg List.length h; simp [length_bits] at this
  | cons a d ih => cases d' with
    | nil => have := congrArg List.length h; simp [length_bits] at this
    | cons b d' =>
      have h' : byteBits a ++ bits d = byteBits b ++ bits d' := h
      have := List.append_inj h' (by simp [length_byteBits])
      rw [byteBits_injective this.1, ih this.2]

/-! ### burst detection on bit lists -/

/-- A non-zero error pattern whose 1-bits lie in a window of at most 32 positions drives the zero
register to a non-zero value. -/
theorem runBits_burst_ne_zero (s : Nat) (e : List Bool) (hex : ∃ i : Nat, e[i]? = some true)
    (hwin : ∀ i : Nat, e[i]? = some true → s ≤ i ∧ i < s + 32) : runBits 0#32 e ≠ 0#32 := by
  induction s generalizing e with
  | zero =>
    intro h0
    have hz : ∀ i : Nat, (e.drop 32)[i]? ≠ some true := by
      intro i hi
      rw [List.getElem?_drop] at hi
      have := (hwin _ hi).2
      omega
    rw [← List.take_append_drop 32 e, runBits_append, runBits_zeros _ hz,
      runBits_place _ (List.length_take_le 32 e), BitVec.zero_xor] at h0
    rw [← iter_step1_zero (e.drop 32).length] at h0
    have h1 := iter_step1_injective _ h0
    rw [← iter_step1_zero (e.take 32).length] at h1
    have h2 := iter_step1_injective _ h1
    obtain ⟨i, hi⟩ := hex
    have hlt := (hwin i hi).2
    apply all_false_of_place_eq_zero _ (List.length_take_le 32 e) h2 i
    rw [List.getElem?_take]
    simp only [Nat.zero_add] at hlt
    simp [hlt, hi]
  | succ s ih =>
    cases e with
    | nil => obtain ⟨i, hi⟩ := hex; simp at hi
    | cons b e =>
      have hb : b = false := by
        cases b
        · rfl
        · have := (hwin 0 rfl).1; omega
      subst hb
      have hstep : runBits 0#32 (false :: e) = runBits 0#32 e := by
        simp only [runBits, List.foldl_cons, bitStep_zero_false]
      rw [hstep]
      apply ih
      · obtain ⟨i, hi⟩ := hex
        cases i with
        | zero => simp at hi
        | succ j => exact ⟨j, by simpa using hi⟩
      · intro i hi
        have := hwin (i + 1) (by simpa using hi)
        omega

/-- Register-level burst theorem: two equal-length messages that differ, all differing bits
within one window of ≤ 32 bit positions, leave different registers (from any common start). -/
theorem run_burst_ne (c : BitVec 32) (d d' : List UInt8) (s : Nat) (hlen : d.length = d'.length)
    (hne : d ≠ d')
    (hwin : ∀ i : Nat, (bits d)[i]? ≠ (bits d')[i]? → s ≤ i ∧ i < s + 32) : run c d ≠ run c d' := by
  intro h
  have hl : (bits d).length = (bits d').length := by rw [length_bits, length_bits, hlen]
  have hx : runBits 0#32 (List.zipWith (· ^^ ·) (bits d) (bits d')) = 0#32 := by
    have hh := runBits_xor (bits d) (bits d') hl c c
    rw [BitVec.xor_self] at hh
    rw [← hh, ← run_eq_runBits, ← run_eq_runBits, h, BitVec.xor_self]
  have key : ∀ i : Nat, (List.zipWith (· ^^ ·) (bits d) (bits d'))[i]? = some true →
      (bits d)[i]? ≠ (bits d')[i]? := by
    intro i hi heq
    rw [List.getElem?_zipWith, heq] at hi
    cases hv : (bits d')[i]? with
    | none => simp [hv] at hi
    | some v => cases v <;> simp [hv] at hi
  refine runBits_burst_ne_zero s _ ?_ (fun i hi => hwin i (key i hi)) hx
  have hbne : bits d ≠ bits d' := fun hb => hne (bits_injective hb)
  have : ∃ i : Nat, (bits d)[i]? ≠ (bits d')[i]? := by
    apply Classical.byContradiction
    intro hcon
    apply hbne
    apply List.ext_getElem?
    intro i
    apply Classical.byContradiction
    intro hi
    exact hcon ⟨i, hi⟩
  obtain ⟨i, hi⟩ := this
  refine ⟨i, ?_⟩
  rw [List.getElem?_zipWith]
  rcases Nat.lt_or_ge i (bits d).length with hlt | hge
  · have hlt' : i < (bits d').length := hl ▸ hlt
    rw [List.getElem?_eq_getElem hlt, List.getElem?_eq_getElem hlt'] at hi ⊢
    have hi' : (bits d)[i] ≠ (bits d')[i] := fun hh => hi (by rw [hh])
    revert hi'
    cases (bits d)[i] <;> cases (bits d')[i] <;> simp
  · exfalso
    apply hi
    rw [List.getElem?_eq_none hge, List.getElem?_eq_none (hl ▸ hge)]

end Carquet.Proofs.Crc32
