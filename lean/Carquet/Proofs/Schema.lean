import Carquet.Impl.Schema
/-
Helper lemmas for C17: the recursive descent of `traverse_schema_recursive` over the
depth-first list of a tree consumes exactly each subtree and records exactly its leaves.
-/
namespace Carquet.Proofs.Schema
open Carquet.Spec.Schema Carquet.Impl.Schema

mutual
  def depth : Node → Nat
    | .leaf _ => 1
    | .group _ cs => 1 + depthList cs
  def depthList : List Node → Nat
    | [] => 0
    | c :: cs => max (depth c) (depthList cs)
end

theorem flatten_length_pos (c : Node) : 0 < (flatten c).length := by
  cases c <;> simp [flatten]

theorem getElem_at_prefix (els : Array Element) (pre : List Element) (e : Element) (rest : List Element)
    (h : els.toList = pre ++ e :: rest) :
    ∃ hlt : pre.length < els.size, els[pre.length] = e := by
  have hs : els.size = (pre ++ e :: rest).length := by rw [← h]; simp
  have hlt : pre.length < els.size := by rw [hs]; simp
  refine ⟨hlt, ?_⟩
  have : els[pre.length] = els.toList[pre.length]'(by simpa using hlt) := by simp
  rw [this]
  simp [h]


mutual
  theorem traverse_node (els : Array Element) :
      ∀ (c : Node), groupsNonEmpty c = true →
      ∀ (pre post : List Element), els.toList = pre ++ flatten c ++ post →
      ∀ fuel, depth c ≤ fuel → ∀ d r (ctx : Ctx),
      ∃ s, traverse els fuel pre.length d r ctx =
        (pre.length + (flatten c).length, ⟨ctx.leaves ++ leavesOf c pre.length d r, s⟩)
    | .leaf i, _, pre, post, hl, fuel, hf, d, r, ctx => by
      obtain ⟨fuel', rfl⟩ : ∃ f, fuel = f + 1 := ⟨fuel - 1, by simp [depth] at hf; omega⟩
      have hl' : els.toList = pre ++ (⟨i, 0⟩ : Element) :: post := by simpa [flatten] using hl
      obtain ⟨hlt, he⟩ := getElem_at_prefix els pre _ _ hl'
      refine ⟨ctx.steps + 1, ?_⟩
      simp [traverse, hlt, he, flatten, leavesOf]
    | .group i cs, hne, pre, post, hl, fuel, hf, d, r, ctx => by
      obtain ⟨fuel', rfl⟩ : ∃ f, fuel = f + 1 := ⟨fuel - 1, by simp [depth] at hf; omega⟩
      have hf' : depthList cs ≤ fuel' := by simp [depth] at hf; omega
      have hl' : els.toList = pre ++ (⟨i, cs.length⟩ : Element) :: (flattenList cs ++ post) := by
        simpa [flatten] using hl
      obtain ⟨hlt, he⟩ := getElem_at_prefix els pre _ _ hl'
      simp only [groupsNonEmpty, Bool.and_eq_true, Bool.not_eq_eq_eq_not, Bool.not_true] at hne
      have hcs : cs.length ≠ 0 := by
        intro h0; have := List.length_eq_zero_iff.mp h0; simp [this] at hne
      have hl2 : els.toList = (pre ++ [(⟨i, cs.length⟩ : Element)]) ++ flattenList cs ++ post := by
        simp [hl']
      obtain ⟨s, hs⟩ := children_nodes els cs hne.2 (pre ++ [⟨i, cs.length⟩]) post hl2 fuel' hf'
        (d + defInc i.rep) (r + repInc i.rep) ⟨ctx.leaves, ctx.steps + 1⟩
      refine ⟨s, ?_⟩
      have hnz : ((cs.length : Int) == 0) = false := by
        simpa using hcs
      simp only [List.length_append, List.length_singleton] at hs
      simp [traverse, hlt, he, hnz, flatten, leavesOf, hs]
      omega
  theorem children_nodes (els : Array Element) :
      ∀ (cs : List Node), groupsNonEmptyList cs = true →
      ∀ (pre post : List Element), els.toList = pre ++ flattenList cs ++ post →
      ∀ fuel, depthList cs ≤ fuel → ∀ d r (ctx : Ctx),
      ∃ s, children els fuel cs.length pre.length d r ctx =
        (pre.length + (flattenList cs).length, ⟨ctx.leaves ++ leavesOfList cs pre.length d r, s⟩)
    | [], _, pre, post, _, fuel, _, d, r, ctx => by
      exact ⟨ctx.steps, by simp [children, flattenList, leavesOfList]⟩
    | c :: cs, hne, pre, post, hl, fuel, hf, d, r, ctx => by
      simp only [groupsNonEmptyList, Bool.and_eq_true] at hne
      have hfc : depth c ≤ fuel := by simp [depthList] at hf; omega
      have hfcs : depthList cs ≤ fuel := by simp [depthList] at hf; omega
      have hl1 : els.toList = pre ++ flatten c ++ (flattenList cs ++ post) := by
        simpa [flattenList] using hl
      obtain ⟨s1, h1⟩ := traverse_node els c hne.1 pre (flattenList cs ++ post) hl1 fuel hfc d r
        ⟨ctx.leaves, ctx.steps + 1⟩
      have hl2 : els.toList = (pre ++ flatten c) ++ flattenList cs ++ post := by
        simpa [flattenList] using hl
      obtain ⟨s2, h2⟩ := children_nodes els cs hne.2 (pre ++ flatten c) post hl2 fuel hfcs d r
        ⟨ctx.leaves ++ leavesOf c pre.length d r, s1⟩
      have hlt : pre.length < els.size := by
        have hs : els.size = (pre ++ flatten c ++ (flattenList cs ++ post)).length := by rw [← hl1]; simp
        have := flatten_length_pos c
        rw [hs]; simp; omega
      refine ⟨s2, ?_⟩
      simp only [List.length_append] at h2
      simp [children, hlt, h1, h2, flattenList, leavesOfList]
      omega
end


mutual
  theorem depth_le_size : ∀ c : Node, depth c ≤ (flatten c).length
    | .leaf _ => by simp [depth, flatten]
    | .group _ cs => by
      have := depthList_le_size cs
      simp [depth, flatten]; omega
  theorem depthList_le_size : ∀ cs : List Node, depthList cs ≤ (flattenList cs).length
    | [] => by simp [depthList]
    | c :: cs => by
      have h1 := depth_le_size c
      have h2 := depthList_le_size cs
      simp [depthList, flattenList]; omega
end

mutual
  theorem countLeaves_node : ∀ c : Node, groupsNonEmpty c = true → ∀ idx d r,
      countLeaves (flatten c) = (leavesOf c idx d r).length
    | .leaf _, _, idx, d, r => by simp [countLeaves, flatten, leavesOf]
    | .group i cs, hne, idx, d, r => by
      simp only [groupsNonEmpty, Bool.and_eq_true, Bool.not_eq_eq_eq_not, Bool.not_true] at hne
      have hcs : cs.length ≠ 0 := by
        intro h0; have := List.length_eq_zero_iff.mp h0; simp [this] at hne
      have hnz : ((cs.length : Int) == 0) = false := by simpa using hcs
      have := countLeaves_list cs hne.2 (idx + 1) (d + defInc i.rep) (r + repInc i.rep)
      simp only [countLeaves] at this
      simp [countLeaves, flatten, leavesOf, List.filter_cons, hnz, this]
  theorem countLeaves_list : ∀ cs : List Node, groupsNonEmptyList cs = true → ∀ idx d r,
      countLeaves (flattenList cs) = (leavesOfList cs idx d r).length
    | [], _, _, _, _ => by simp [countLeaves, flattenList, leavesOfList]
    | c :: cs, hne, idx, d, r => by
      simp only [groupsNonEmptyList, Bool.and_eq_true] at hne
      have h1 := countLeaves_node c hne.1 idx d r
      have h2 := countLeaves_list cs hne.2 (idx + (flatten c).length) d r
      simp only [countLeaves] at h1 h2
      simp [countLeaves, flattenList, leavesOfList, List.filter_append, h1, h2]
end

mutual
  theorem leaves_pos : ∀ c : Node, groupsNonEmpty c = true → ∀ idx d r, 0 < (leavesOf c idx d r).length
    | .leaf _, _, _, _, _ => by simp [leavesOf]
    | .group i cs, hne, idx, d, r => by
      simp only [groupsNonEmpty, Bool.and_eq_true, Bool.not_eq_eq_eq_not, Bool.not_true] at hne
      have hcs : cs ≠ [] := by intro h0; simp [h0] at hne
      simpa [leavesOf] using leavesList_pos cs hcs hne.2 (idx + 1) (d + defInc i.rep) (r + repInc i.rep)
  theorem leavesList_pos : ∀ cs : List Node, cs ≠ [] → groupsNonEmptyList cs = true → ∀ idx d r,
      0 < (leavesOfList cs idx d r).length
    | [], h, _, _, _, _ => absurd rfl h
    | c :: cs, _, hne, idx, d, r => by
      simp only [groupsNonEmptyList, Bool.and_eq_true] at hne
      have := leaves_pos c hne.1 idx d r
      simp [leavesOfList]; omega
end

theorem countLeaves_root (i : Info) (cs : List Node) (hne : groupsNonEmpty (.group i cs) = true) :
    countLeaves (flatten (.group i cs)) = (leaves (.group i cs)).length := by
  have hne' := hne
  simp only [groupsNonEmpty, Bool.and_eq_true, Bool.not_eq_eq_eq_not, Bool.not_true] at hne'
  have hcs : cs ≠ [] := by intro h0; simp [h0] at hne'
  have hnz : ((cs.length : Int) == 0) = false := by simpa using hcs
  have a := countLeaves_list cs hne'.2 1 0 0
  simp only [countLeaves] at a
  simp [countLeaves, flatten, leaves, hnz, a]

mutual
  theorem elemsOk_node : ∀ c : Node, typed c = true → groupsNonEmpty c = true → ∀ (i : Nat) (rest : List Element),
      elemsOk i (flatten c ++ rest) = elemsOk (i + (flatten c).length) rest
    | .leaf inf, ht, _, i, rest => by
      simp only [typed] at ht
      simp [flatten, elemsOk, elemOk, ht]
    | .group inf cs, ht, hne, i, rest => by
      simp only [typed, Bool.and_eq_true] at ht
      simp only [groupsNonEmpty, Bool.and_eq_true, Bool.not_eq_eq_eq_not, Bool.not_true] at hne
      have hcs : cs ≠ [] := by intro h0; simp [h0] at hne
      have hnz : ((cs.length : Int) == 0) = false := by simpa using hcs
      have hnn : ¬ ((cs.length : Int) < 0) := by omega
      have hnone : inf.ptype.isSome = false := by
        cases hp : inf.ptype <;> simp_all
      have := elemsOk_list cs ht.2 hne.2 (i + 1) rest
      simp only [flatten, List.cons_append, elemsOk, elemOk, hnz, hnone, hnn, List.length_cons] at this ⊢
      simp [this]; congr 1; omega
  theorem elemsOk_list : ∀ cs : List Node, typedList cs = true → groupsNonEmptyList cs = true →
      ∀ (i : Nat) (rest : List Element),
      elemsOk i (flattenList cs ++ rest) = elemsOk (i + (flattenList cs).length) rest
    | [], _, _, i, rest => by simp [flattenList]
    | c :: cs, ht, hne, i, rest => by
      simp only [typedList, Bool.and_eq_true] at ht
      simp only [groupsNonEmptyList, Bool.and_eq_true] at hne
      have h1 := elemsOk_node c ht.1 hne.1 i (flattenList cs ++ rest)
      have h2 := elemsOk_list cs ht.2 hne.2 (i + (flatten c).length) rest
      simp only [flattenList, List.append_assoc, List.length_append]
      rw [h1, h2]; congr 1; omega
end

/-- Main lemma: on the depth-first list of a tree (root a non-empty group, every inner group
non-empty, groups untyped and leaves typed) `build_schema` yields exactly the leaves and levels
of the format's rule. -/
theorem build_flatten (i : Info) (cs : List Node) (hne : groupsNonEmpty (.group i cs) = true)
    (hty : typed (.group i cs) = true) :
    build (flatten (.group i cs)) = some (leaves (.group i cs)) := by
  have hok : elemsOk 0 (flatten (.group i cs)) = true := by
    have := elemsOk_node (.group i cs) hty hne 0 []
    simpa [elemsOk] using this
  have hne' := hne
  simp only [groupsNonEmpty, Bool.and_eq_true, Bool.not_eq_eq_eq_not, Bool.not_true] at hne'
  have hcs : cs ≠ [] := by intro h0; simp [h0] at hne'
  have hlen : cs.length ≠ 0 := by simpa using hcs
  have hnz : ((cs.length : Int) == 0) = false := by simpa using hcs
  -- number of leaves
  have hcount : countLeaves (flatten (.group i cs)) = (leaves (.group i cs)).length := by
    have a := countLeaves_list cs hne'.2 1 0 0
    simp only [countLeaves] at a
    simp [countLeaves, flatten, leaves, List.filter_cons, hnz, a]
  have hpos : 0 < (leaves (.group i cs)).length := by
    simpa [leaves] using leavesList_pos cs hcs hne'.2 1 0 0
  -- the traversal
  have hsz : 1 < (flatten (.group i cs)).length := by
    have : 0 < (flattenList cs).length := by
      cases cs with
      | nil => exact absurd rfl hcs
      | cons c cs' => have := flatten_length_pos c; simp [flattenList]; omega
    simp [flatten]; omega
  have hl : (flatten (.group i cs)).toArray.toList =
      [(⟨i, cs.length⟩ : Element)] ++ flattenList cs ++ [] := by simp [flatten]
  have hfuel : depthList cs ≤ (flatten (.group i cs)).length := by
    have := depthList_le_size cs; simp [flatten]; omega
  obtain ⟨s, hs⟩ := children_nodes (flatten (.group i cs)).toArray cs hne'.2 [⟨i, cs.length⟩] [] hl
    (flatten (.group i cs)).length hfuel 0 0 ⟨[], 0⟩
  simp only [List.length_singleton, List.nil_append] at hs
  have hnot : ¬ (flatten (.group i cs)).length ≤ 1 := by omega
  unfold build
  rw [if_neg (by simp [hok]), if_neg (by omega)]
  unfold buildLeaves
  simp only [hnot, if_false]
  have hfl : flatten (.group i cs) = (⟨i, cs.length⟩ : Element) :: flattenList cs := by simp [flatten]
  rw [hcount]
  conv => lhs; rw [hfl]
  simp only [Int.toNat_natCast]
  rw [← hfl, hs]
  simp [leaves]


/-! ### Work bound for arbitrary (also malformed) element lists — used by C04 -/

def TravOk (els : Array Element) (fuel : Nat) : Prop :=
  ∀ idx d r (ctx : Ctx), idx < els.size → els.size + 1 ≤ fuel + idx →
    idx < (traverse els fuel idx d r ctx).1 ∧ (traverse els fuel idx d r ctx).1 ≤ els.size ∧
    (traverse els fuel idx d r ctx).2.steps + 1 ≤ ctx.steps + 2 * ((traverse els fuel idx d r ctx).1 - idx)

def ChildOk (els : Array Element) (fuel : Nat) : Prop :=
  ∀ n idx d r (ctx : Ctx), idx ≤ els.size → els.size + 1 ≤ fuel + idx →
    idx ≤ (children els fuel n idx d r ctx).1 ∧ (children els fuel n idx d r ctx).1 ≤ els.size ∧
    (children els fuel n idx d r ctx).2.steps ≤ ctx.steps + 2 * ((children els fuel n idx d r ctx).1 - idx)

theorem childOk_of_travOk (els : Array Element) (fuel : Nat) (hP : TravOk els fuel) : ChildOk els fuel := by
  intro n
  induction n with
  | zero => intro idx d r ctx h1 _; simp [children, h1]
  | succ n ih =>
    intro idx d r ctx h1 h2
    by_cases hlt : idx < els.size
    · obtain ⟨a, b, c⟩ := hP idx d r ⟨ctx.leaves, ctx.steps + 1⟩ hlt h2
      obtain ⟨a', b', c'⟩ := ih (traverse els fuel idx d r ⟨ctx.leaves, ctx.steps + 1⟩).1 d r
        (traverse els fuel idx d r ⟨ctx.leaves, ctx.steps + 1⟩).2 b (by omega)
      simp only [children, hlt, if_true]
      refine ⟨by omega, b', ?_⟩
      simp only at c
      omega
    · simp [children, hlt, h1]

theorem travOk_all (els : Array Element) : ∀ fuel, TravOk els fuel := by
  intro fuel
  induction fuel with
  | zero => intro idx d r ctx h1 h2; omega
  | succ f ih =>
    have hQ := childOk_of_travOk els f ih
    intro idx d r ctx h1 h2
    by_cases hleaf : (els[idx].numChildren == 0) = true
    · simp [traverse, h1, hleaf]; omega
    · obtain ⟨a, b, c⟩ := hQ els[idx].numChildren.toNat (idx + 1) (d + defInc els[idx].info.rep)
        (r + repInc els[idx].info.rep) ⟨ctx.leaves, ctx.steps + 1⟩ (by omega) (by omega)
      have hleaf' : (els[idx].numChildren == 0) = false := by
        cases hb : (els[idx].numChildren == 0) with
        | true => exact absurd hb hleaf
        | false => rfl
      simp only [traverse, h1, dite_true, hleaf', Bool.false_eq_true, if_false]
      simp only at c
      refine ⟨by omega, b, by omega⟩

/-- `compute_levels` performs at most `2 * num_elements` loop iterations and calls in total,
whatever the child counts claim; the recursion never exceeds depth `num_elements`. -/
theorem buildSteps_linear (els : List Element) : buildSteps els ≤ 2 * els.length := by
  unfold buildSteps
  cases els with
  | nil => simp
  | cons root rest =>
    show (if (root :: rest).length ≤ 1 then 0 else _) ≤ _
    by_cases h : (root :: rest).length ≤ 1
    · rw [if_pos h]; omega
    · rw [if_neg h]
      have hQ := childOk_of_travOk (root :: rest).toArray (root :: rest).length (travOk_all _ _)
      obtain ⟨a, b, c⟩ := hQ root.numChildren.toNat 1 0 0 ⟨[], 0⟩ (by simp) (by simp)
      simp only [List.size_toArray] at b c
      simp only [List.length_cons] at *
      omega


/-! ### What the columns point at -/

mutual
  /-- the `Info` of the leaves in depth-first order -/
  def leafInfosOf : Node → List Info
    | .leaf i => [i]
    | .group _ cs => leafInfosOfList cs
  def leafInfosOfList : List Node → List Info
    | [] => []
    | c :: cs => leafInfosOf c ++ leafInfosOfList cs
end

mutual
  theorem leaf_elements_node : ∀ (c : Node) (pre post : List Element) (d r : Nat),
      (leavesOf c pre.length d r).map (fun l => (pre ++ flatten c ++ post)[l.elemIdx]?) =
        (leafInfosOf c).map (fun i => some (⟨i, 0⟩ : Element))
    | .leaf i, pre, post, d, r => by simp [leavesOf, flatten, leafInfosOf]
    | .group i cs, pre, post, d, r => by
      have := leaf_elements_list cs (pre ++ [⟨i, cs.length⟩]) post (d + defInc i.rep) (r + repInc i.rep)
      simpa [leavesOf, flatten, leafInfosOf] using this
  theorem leaf_elements_list : ∀ (cs : List Node) (pre post : List Element) (d r : Nat),
      (leavesOfList cs pre.length d r).map (fun l => (pre ++ flattenList cs ++ post)[l.elemIdx]?) =
        (leafInfosOfList cs).map (fun i => some (⟨i, 0⟩ : Element))
    | [], _, _, _, _ => by simp [leavesOfList, leafInfosOfList]
    | c :: cs, pre, post, d, r => by
      have h1 := leaf_elements_node c pre (flattenList cs ++ post) d r
      have h2 := leaf_elements_list cs (pre ++ flatten c) post d r
      simp only [List.length_append] at h2
      simp only [leavesOfList, flattenList, leafInfosOfList, List.map_append]
      rw [← h1, ← h2]
      simp [List.append_assoc]
end

/-! ### Builder -/

theorem flattenList_leaves (infos : List Info) :
    flattenList (infos.map Node.leaf) = infos.map (fun i => (⟨i, 0⟩ : Element)) := by
  induction infos with
  | nil => simp [flattenList]
  | cons i is ih => simp [flattenList, flatten, ih]

theorem leavesOfList_leaves (infos : List Info) (idx : Nat) :
    leavesOfList (infos.map Node.leaf) idx 0 0 =
      infos.mapIdx (fun k i => (⟨idx + k, defInc i.rep, repInc i.rep⟩ : Leaf)) := by
  induction infos generalizing idx with
  | nil => simp [leavesOfList]
  | cons i is ih =>
    simp [leavesOfList, leavesOf, flatten, ih, List.mapIdx_cons, Nat.add_assoc, Nat.add_comm 1]

def ClosedForm (b : Builder) (infos : List Info) : Prop :=
  b.elements = (⟨rootInfo, infos.length⟩ : Element) :: infos.map (fun i => (⟨i, 0⟩ : Element)) ∧
  b.leaves = infos.mapIdx (fun k i => (⟨1 + k, defInc i.rep, repInc i.rep⟩ : Leaf))

theorem addColumn_closed (b : Builder) (pre : List Info) (i : Info) (h : ClosedForm b pre) :
    ClosedForm (b.addColumn i) (pre ++ [i]) := by
  obtain ⟨h1, h2⟩ := h
  constructor
  · simp [Builder.addColumn, h1]
  · simp [Builder.addColumn, h1, h2, List.mapIdx_append]
    omega

theorem fold_closed (infos : List Info) : ∀ (b : Builder) (pre : List Info), ClosedForm b pre →
    ClosedForm (infos.foldl Builder.addColumn b) (pre ++ infos) := by
  induction infos with
  | nil => intro b pre h; simpa using h
  | cons i is ih =>
    intro b pre h
    have := ih (b.addColumn i) (pre ++ [i]) (addColumn_closed b pre i h)
    simpa using this

theorem builder_closed_form (infos : List Info) :
    ClosedForm (infos.foldl Builder.addColumn Builder.create) infos := by
  have := fold_closed infos Builder.create [] (by simp [ClosedForm, Builder.create])
  simpa using this

end Carquet.Proofs.Schema
