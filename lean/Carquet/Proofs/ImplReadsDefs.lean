import Carquet.Impl.ReaderTableSpec
import Carquet.Impl.ReaderClaim
import Carquet.Spec.File.Admissible
import Carquet.Proofs.SpecFileFooterFull
import Carquet.Proofs.ThriftStructs
/-
C06, implementation half (`C06_impl_reads_reference`): the definitions shared by the stage proofs
(Proofs/ImplReads*.lean) — how the objects of the reference writer (`Spec.File.write`) look from
carquet's reader model (`Impl.Reader`).
-/
namespace Carquet.Proofs.ImplReads
open Carquet.Spec Carquet.Spec.File Carquet.Spec.Thrift
open Carquet.Impl
open Carquet.Impl.Reader hiding Bytes
open Carquet.Impl.ThriftParquetReq (PageHdr parsePageHeaderC)
open Carquet.Proofs.SpecFile (CcDesc RgDesc2)

/-! ### columns, pages, dictionaries -/

/-- the column reader `get_column` creates for a leaf of the schema and the chunk's metadata -/
def colOfLeaf (leaf : LeafInfo) (cm : ThriftParquet.ColumnMetaData) : Col :=
  ⟨cm, leaf.maxDef, leaf.maxRep, (ptypeCode leaf.ptype : Int), (leaf.typeLength : Int)⟩

/-- the decoded page (`decoded_def_levels`, `decoded_rep_levels`, dense `decoded_values`) that stands
for the entries of one data page -/
def decodedOfEntries (es : List Entry) : Decoded := ⟨es.map (·.dl), es.map (·.rep), es.filterMap (·.val)⟩

/-- offsets of the length prefixes of the entries of a PLAIN BYTE_ARRAY dictionary page, the first
one at `pos` -/
def dictOffsets : Nat → List Bytes → List Nat
  | _, [] => []
  | pos, v :: r => pos :: dictOffsets (pos + 4 + v.length) r

/-- the dictionary a column reader of `leaf` holds after `carquet_read_dictionary_page` on the PLAIN
page of `values`: BYTE_ARRAY keeps the page and an offset per entry, the fixed-width types the
concatenated values -/
def dictOf (leaf : LeafInfo) (values : List Bytes) : Dict :=
  if leaf.ptype = .byteArray then ⟨plainEncode leaf values, (values.length : Int), dictOffsets 0 values⟩
  else ⟨plainEncode leaf values, (values.length : Int), []⟩

/-! ### GZIP / ZSTD: the library contract on the stored bodies of a file -/

/-- a gzip member (RFC 1952 magic) -/
def isGzip (c : Bytes) : Bool := c.take 2 == [0x1f, 0x8b]
/-- a zstd frame (RFC 8878 magic) -/
def isZstd (c : Bytes) : Bool := c.take 4 == [0x28, 0xB5, 0x2F, 0xFD]

/-- **The library contract on a file**: zlib (behind `carquet_gzip_decompress`) inflates every gzip
member of the table to its contents, libzstd every zstd frame, when given the contents' length as
output capacity.  `oracle` is the table of GZIP / ZSTD page bodies the reference writer returns with
the file (`writeFull`).  (zlib and libzstd are in the trusted base; the bodies are stored-block
members and raw/RLE-block frames, which every conforming inflater decodes.) -/
structure LibsDecode (L : Libs) (o : Oracle) : Prop where
  gzip : ∀ e ∈ o, isGzip e.1 = true → L.gzip.decompress e.1 e.2.length = some e.2
  zstd : ∀ e ∈ o, isZstd e.1 = true → L.zstd.decompress e.1 e.2.length = some e.2

theorem LibsDecode.mono {L : Libs} {o o' : Oracle} (h : LibsDecode L o) (hs : ∀ e ∈ o', e ∈ o) : LibsDecode L o' :=
  ⟨fun e he => h.gzip e (hs e he), fun e he => h.zstd e (hs e he)⟩

/-! ### a page as the loaders meet it -/

/-- a page of the file: header bytes, stored body, and what `parquet_parse_page_header` reads -/
structure RPage where
  hb : Bytes
  comp : Bytes
  hdr : ThriftParquetReq.PageHdr

def RPage.bytes (p : RPage) : Bytes := p.hb ++ p.comp

/-- What the fread path (`read_page_header_fread`, F53) needs of a page header: it lies within the
largest window the path tries (2^24 bytes), and every window `256·2^k` that cuts the header short
fails to parse (so that the path doubles the window instead of accepting a truncated header). -/
def WindowOk (hb : Bytes) : Prop :=
  hb.length ≤ headerWindowMax ∧
  ∀ k, 256 * 2 ^ k < hb.length → ∃ e, parsePageHeaderC (hb.take (256 * 2 ^ k)) = .error e

/-- the header parses to `hdr` whatever follows it, announces the stored body, and (fread mode) is
found by the growing window -/
structure RPage.Parses (mode : Mode) (p : RPage) : Prop where
  any : ∀ rest, parsePageHeaderC (p.hb ++ rest) = .ok (p.hdr, p.hb.length)
  comp : p.hdr.compressed = (p.comp.length : Int)
  unc : 0 ≤ p.hdr.uncompressed
  window : mode = .fread → WindowOk p.hb

/-- a data page the reader decodes to `d` when its dictionary state is `dict` -/
structure DataPageOk (L : Libs) (verify : Bool) (mode : Mode) (c : Col) (dict : Option Dict) (p : RPage) (d : Decoded) : Prop where
  parses : p.Parses mode
  type0 : p.hdr.type = 0
  count : p.hdr.word0 = (d.defs.length : Int)
  crc : crcBad verify p.hdr.crc p.comp = false
  decode : ∃ body, pageData L c.cm.codec p.comp p.hdr.uncompressed.toNat = .ok body ∧
    readDataPageV1 Fixes.all c dict body d.defs.length p.hdr.word4 = .ok d
  /-- a page without rows (F63: the loaders do not decode it) stands for nothing -/
  empty : d.defs.length = 0 → d = ⟨[], [], []⟩

/-- a dictionary page the reader loads as `D` -/
structure DictPageOk (L : Libs) (verify : Bool) (mode : Mode) (c : Col) (p : RPage) (D : Dict) : Prop where
  parses : p.Parses mode
  type2 : p.hdr.type = 2
  count : 0 ≤ p.hdr.word0
  crc : crcBad verify p.hdr.crc p.comp = false
  decode : ∃ pd, pageData L c.cm.codec p.comp p.hdr.uncompressed.toNat = .ok pd ∧
    (readDictionaryPage Fixes.all c pd p.hdr.word0).1 = .ok D

def pagesBytes (ps : List (RPage × Decoded)) : Bytes := (ps.map (fun q => q.1.bytes)).flatten

def pagesCount (ps : List (RPage × Decoded)) : Nat := (ps.map (fun q => q.2.defs.length)).sum

/-- the page the column reader model receives for a decoded page -/
def cursorPage (d : Decoded) : ColumnReader.Page Bytes := ⟨d.defs, d.reps, d.vals⟩

/-! ### the metadata structures `parquet_parse_file_metadata` builds from the reference writer's footer -/

def implStats (fs : Fields) : ThriftParquet.Statistics := Carquet.Proofs.Thrift.ofFields Carquet.Proofs.Thrift.tblStats {} fs

/-- ColumnMetaData (`strdup`ed path elements end at their first NUL) -/
def implCM (m : ColumnMeta) (stats : Option Fields) : ThriftParquet.ColumnMetaData :=
  { type := (m.ptype : Int), encodings := m.encodings, pathInSchema := m.path.map ThriftParquet.cstr,
    codec := (m.codec : Int), numValues := (m.numValues : Int), totalUncompressedSize := (m.totalUncompressed : Int),
    totalCompressedSize := (m.totalCompressed : Int), dataPageOffset := (m.dataPageOffset : Int),
    dictionaryPageOffset := m.dictionaryPageOffset.map (fun n => (n : Int)), statistics := stats.map implStats }

def implCC (d : CcDesc) : ThriftParquet.ColumnChunk := { fileOffset := (d.off : Int), metaData := some (implCM d.m d.stats) }

def implRG (g : RgDesc2) : ThriftParquet.RowGroup :=
  { columns := g.chunks.map implCC, totalByteSize := (g.totalByteSize : Int), numRows := (g.numRows : Int) }

def implUnit : Schema.AnnotTimeUnit → ThriftParquet.TimeUnit
  | .millis => .millis | .micros => .micros | .nanos => .nanos

/-- the `carquet_logical_type_t` carquet's parser makes of a LogicalType union that states the annotation -/
def implLogical : Schema.Annotation → ThriftParquet.LogicalType
  | .string => .string | .map => .map | .list => .list | .enum => .enum
  | .decimal s p => .decimal s p
  | .date => .date
  | .time utc u => .time utc (implUnit u)
  | .timestamp utc u => .timestamp utc (implUnit u)
  | .integer bw sg => .integer bw sg
  | .nullType => .null | .json => .json | .bson => .bson | .uuid => .uuid | .float16 => .float16

def implSE (e : Schema.Element) : ThriftParquet.SchemaElement :=
  { type := e.info.ptype.map (fun n => (n : Int)), typeLength := e.info.typeLength,
    repetition := e.info.rep.map repCode, name := some (ThriftParquet.cstr (strBytes e.info.name)),
    numChildren := e.numChildren, convertedType := e.info.logical.map (fun n => (n : Int)),
    logicalType := e.info.logicalType.map implLogical }

/-! ### what carquet's Thrift reader bounds (defined next to the reader model, Impl/ReaderClaim.lean) -/

export Carquet.Impl.Reader.Claim (extrasDepth pageExtrasDepthOk dictExtrasDepthOk chunkExtrasDepthOk layoutExtrasDepthOk
  windowOk pageWindowOk pagesWindowOk chunkWindowOk pagesNonEmpty chunkClaimed fileClaimed)

end Carquet.Proofs.ImplReads
