import Carquet.Impl.FileReal
import Carquet.Proofs.ThriftRoundtripTop
/-
The footer of a written file parses back to the metadata the writer assembled
(`C13_roundtrip_filemetadata` applied to `Impl.FileReal.fileMetaData`): under the explicit size
bounds `FooterOk`, `norm` is the identity on what carquet's writer produces.
-/
namespace Carquet.Proofs.FileRealFooter
open Carquet.Impl Carquet.Impl.FileReal Carquet.Impl.ThriftParquet Carquet.Impl.Writer

def chunkOk (ch : ChunkMeta) : Bool :=
  decide (ch.fileOffset < 9223372036854775808) && decide (ch.numValues < 9223372036854775808) &&
  decide (ch.totalUncompressed < 9223372036854775808) && decide (ch.totalCompressed < 9223372036854775808) &&
  decide (ch.codec < 2147483648) && isStr (strBytes ch.path)

def groupOk (g : RgMeta) : Bool :=
  g.chunks.all chunkOk && decide (g.chunks.length ≤ 10000) && decide (g.totalByteSize < 9223372036854775808) &&
  decide (g.numRows < 9223372036854775808) && decide (g.fileOffset < 9223372036854775808) &&
  decide (g.totalCompressed < 9223372036854775808) && decide (g.ordinal ≤ 32767)

/-- the sizes of a footer fit the C types and the parser's limits; names are C strings; the parameters
of a column's logical type are what the C struct can hold (`int32_t` scale / precision, `int8_t`
bit_width) -/
def footerOk (f : FooterData) : Bool :=
  decide (f.cols.length < 10000) &&
  f.cols.all (fun c => isStr (strBytes c.name) && decide (c.typeLen < 2147483648) && okOpt LogicalType.wf c.logical) &&
  isStr (strBytes f.createdBy) && decide (f.numRows < 9223372036854775808) &&
  f.rowGroups.all groupOk && decide (f.rowGroups.length ≤ 100000)

theorem schema_bytes : strBytes "schema" = [0x73, 0x63, 0x68, 0x65, 0x6d, 0x61] := by decide +kernel

theorem nat_norm (n : Nat) : (if (0 : Int) < (n : Int) then (n : Int) else 0) = (n : Int) := by
  split <;> omega

theorem ptype_code_le (t : PType) : t.code ≤ 7 := by cases t <;> decide

theorem colLogical_norm (c : Col) : normLogical (colLogical c) = colLogical c := by
  unfold colLogical
  cases c.logical with
  | none => rfl
  | some lt => cases lt <;> rfl

theorem colLogical_wf (c : Col) (h : okOpt LogicalType.wf c.logical = true) : okOpt LogicalType.wf (colLogical c) = true := by
  unfold colLogical
  cases hl : c.logical with
  | none => rfl
  | some lt =>
    rw [hl] at h
    cases lt <;> first | rfl | exact h
theorem rep_code_le (r : Rep) : r.code ≤ 2 := by cases r <;> decide

theorem fileMetaData_wf (f : FooterData) (h : footerOk f = true) : (fileMetaData f).wf = true := by
  simp only [footerOk, Bool.and_eq_true, decide_eq_true_eq, List.all_eq_true] at h
  obtain ⟨⟨⟨⟨⟨h1, h2⟩, h3⟩, h4⟩, h5⟩, h6⟩ := h
  simp only [FileMetaData.wf, fileMetaData, Bool.and_eq_true, decide_eq_true_eq, List.all_eq_true, List.all_cons,
    List.mem_map, forall_exists_index, and_imp, forall_apply_eq_imp_iff₂, List.length_cons, List.length_map, okOpt]
  refine ⟨⟨⟨⟨⟨⟨⟨⟨by decide, ?_, ?_⟩, ?_⟩, ?_⟩, ?_⟩, ?_⟩, ?_⟩, ?_⟩, h3⟩
  · simp [SchemaElement.wf, okOpt, isI32, isStr, isBin, schema_bytes]
    omega
  · intro c hc
    have := h2 c hc
    have hp := ptype_code_le c.ptype
    have hr := rep_code_le c.rep
    have hl := colLogical_wf c this.2
    simp [SchemaElement.wf, schemaElementOfCol, okOpt, this.1.1, isI32]
    refine ⟨by omega, ?_⟩
    simpa [okOpt] using hl
  · simp [maxSchemaElements]; omega
  · simp [isI64]; omega
  · intro g hg
    have hgo := h5 g hg
    simp only [groupOk, Bool.and_eq_true, decide_eq_true_eq, List.all_eq_true] at hgo
    obtain ⟨⟨⟨⟨⟨⟨g1, g2⟩, g3⟩, g4⟩, g5⟩, g6⟩, g7⟩ := hgo
    simp only [RowGroup.wf, Bool.and_eq_true, decide_eq_true_eq, List.all_eq_true, List.mem_map, forall_exists_index,
      and_imp, forall_apply_eq_imp_iff₂, List.length_map, okOpt]
    refine ⟨⟨⟨⟨⟨⟨?_, ?_⟩, ?_⟩, ?_⟩, ?_⟩, ?_⟩, ?_⟩
    · intro ch hch
      have hc := g1 ch hch
      simp only [chunkOk, Bool.and_eq_true, decide_eq_true_eq] at hc
      obtain ⟨⟨⟨⟨⟨c1, c2⟩, c3⟩, c4⟩, c5⟩, c6⟩ := hc
      have hp := ptype_code_le ch.ptype
      simp [ColumnChunk.wf, ColumnMetaData.wf, okOpt, isI64, isI32, c6, maxEncodings, maxPathElements]
      omega
    · simp [maxColumnsPerRg]; omega
    · simp [isI64]; omega
    · simp [isI64]; omega
    · simp [isI64]; omega
    · simp [isI64]; omega
    · simp [isI16]; omega
  · simp [maxRowGroups]; omega
  · intro kv hkv; simp at hkv
  · simp [maxKeyValuePairs]

theorem fileMetaData_norm (f : FooterData) : (fileMetaData f).norm = fileMetaData f := by
  simp only [FileMetaData.norm, fileMetaData, List.map_cons, List.map_map, List.map_nil]
  congr 1
  · congr 1
    · simp [SchemaElement.norm, normLogical]
      intro h; simp [h]
    · apply List.map_congr_left
      intro c _
      show SchemaElement.norm (schemaElementOfCol c) = schemaElementOfCol c
      unfold SchemaElement.norm schemaElementOfCol
      simp only [colLogical_norm]
      simp
      intro h; simp [h]
  · apply List.map_congr_left
    intro g _
    simp only [Function.comp, RowGroup.norm, List.map_map]
    congr 1

/-- Parsing the footer of a written file returns the metadata the writer assembled. -/
theorem parse_written_footer (f : FooterData) (h : footerOk f = true) :
    parseFileMetaData (footer f) = .ok (fileMetaData f) := by
  have w := fileMetaData_wf f h
  have r := Carquet.Proofs.Thrift.roundtrip_filemetadata (fileMetaData f) w
  unfold footer parseFileMetaData
  rw [r.1, fileMetaData_norm]
  rfl

end Carquet.Proofs.FileRealFooter
