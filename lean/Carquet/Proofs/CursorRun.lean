import Carquet.Proofs.CursorColumn
/-
C02, column reader: `carquet_column_skip`, one API call, whole histories — the refinement of
`Spec.Cursor` by `Impl.ColumnReader`.
-/
namespace Carquet.Proofs.Cursor
open Carquet.Spec.Cursor (Row Op)
open Carquet.Impl.ColumnReader

/-! ### carquet_column_skip -/

theorem skipChunk_pos : 0 < Gen.Cursor.skipChunkSize := by decide
theorem skipChunk_small : Gen.Cursor.skipChunkSize < 2147483648 := by decide

theorem skipLoop_ok (n : Nat) :
    ∀ (fuel : Nat) (r : Reader α) (total : Nat), Inv r → n - total < fuel → total ≤ n →
      ∃ r', skipLoop Fixes.all n fuel r total =
              (r', ((total + min (n - total) (pending r).length : Nat) : Int)) ∧
        Inv r' ∧ r'.chunk = r.chunk ∧ pending r' = (pending r).drop (n - total) := by
  intro fuel
  induction fuel with
  | zero => intro r total _ hf; omega
  | succ fuel ih =>
    intro r total hinv hf hle
    unfold skipLoop
    by_cases hc : total < n ∧ r.valuesRemaining > 0
    · simp only [hc, and_self, if_true]
      have hplen : 0 < (pending r).length := by have := hinv.rem; omega
      generalize hcs : min (n - total) Gen.Cursor.skipChunkSize = cs
      have hcs0 : 0 < cs := by have := skipChunk_pos; omega
      have hcs1 : cs < 2147483648 := by have := skipChunk_small; omega
      have hcs2 : cs ≤ n - total := by omega
      obtain ⟨r', res, heq, hinv', hchunk', hpend', hres⟩ := readBatch_ok r hinv cs hcs0 hcs1 false false
      rw [heq]
      have hcount : res.count = ((min cs (pending r).length : Nat) : Int) := by
        rw [hres.count]; simp
      have hpos : ¬ res.count ≤ 0 := by rw [hcount]; omega
      simp only [hpos, if_false]
      have htn : res.count.toNat = min cs (pending r).length := by rw [hcount]; simp
      rw [htn]
      obtain ⟨r'', heq2, hinv'', hchunk'', hpend''⟩ :=
        ih r' (total + min cs (pending r).length) hinv' (by omega) (by omega)
      refine ⟨r'', ?_, hinv'', by rw [hchunk'', hchunk'], ?_⟩
      · rw [heq2, hpend', List.length_drop]
        congr 2
        omega
      · rw [hpend'', hpend', List.drop_drop]
        by_cases hfit : cs ≤ (pending r).length
        · congr 1; omega
        · rw [List.drop_eq_nil_iff.mpr (by omega), List.drop_eq_nil_iff.mpr (by omega)]
    · simp only [hc, if_false]
      refine ⟨r, ?_, hinv, rfl, ?_⟩
      · congr 2
        by_cases h1 : total < n
        · have h2 : ¬ r.valuesRemaining > 0 := fun h2 => hc ⟨h1, h2⟩
          have := hinv.rem; omega
        · omega
      · by_cases h1 : total < n
        · have h2 : ¬ r.valuesRemaining > 0 := fun h2 => hc ⟨h1, h2⟩
          have : (pending r).length = 0 := by have := hinv.rem; omega
          rw [List.eq_nil_of_length_eq_zero this]; simp
        · have : n - total = 0 := by omega
          simp [this]

/-- `carquet_column_skip(reader, k)` advances by exactly `min k remaining` rows. -/
theorem skip_ok (r : Reader α) (h : Inv r) (k : Int) :
    ∃ r', skip Fixes.all r k = (r', ((min k.toNat (pending r).length : Nat) : Int)) ∧ Inv r' ∧
      r'.chunk = r.chunk ∧ pending r' = (pending r).drop k.toNat := by
  unfold skip
  by_cases hc : k ≤ 0 ∨ r.valuesRemaining ≤ 0
  · simp only [hc, if_true]
    refine ⟨r, ?_, h, rfl, ?_⟩
    · rcases hc with hc | hc
      · have : k.toNat = 0 := by omega
        simp [this]
      · have := h.rem
        have : (pending r).length = 0 := by omega
        simp [this]
    · rcases hc with hc | hc
      · have : k.toNat = 0 := by omega
        simp [this]
      · have := h.rem
        have : (pending r).length = 0 := by omega
        rw [List.eq_nil_of_length_eq_zero this]; simp
  · simp only [hc, if_false]
    obtain ⟨r', heq, hinv', hchunk', hpend'⟩ := skipLoop_ok k.toNat (k.toNat + 1) r 0 h (by omega) (by omega)
    refine ⟨r', ?_, hinv', hchunk', ?_⟩
    · rw [heq]; simp
    · rw [hpend']; simp

/-! ### one API call -/

/-- How a Spec output looks through the C API: levels per row, values dense. -/
def encodeOut : Spec.Cursor.Out α → Out α
  | .read n rows => .read n (rows.map (fun row => some row.defLevel)) (rows.map (fun row => some row.repLevel))
      ((rows.filterMap (·.val)).map some)
  | .skip n => .skip n
  | .hasNext b => .hasNext b
  | .remaining n => .remaining n
  | .recreated => .recreated

/-- A read size the `(int32_t)max_values` cast leaves alone. -/
def OpOk : Op → Prop
  | .read k => k < 2147483648
  | _ => True

instance : DecidablePred OpOk := fun op => by cases op <;> unfold OpOk <;> exact inferInstance

theorem pending_wf (r : Reader α) (h : Inv r) : ∀ row ∈ pending r, Row.WF r.chunk.maxDef row := by
  have hpages : ∀ (ps : List (Option (Page α))), (∀ p ∈ ps, ∃ q, p = some q ∧ PageOk r.chunk.maxDef q) →
      ∀ row ∈ rowsOfPages r.chunk.maxDef ps, Row.WF r.chunk.maxDef row := by
    intro ps
    induction ps with
    | nil => intro _ row hrow; simp [rowsOfPages] at hrow
    | cons p ps ih =>
      intro hps row hrow
      obtain ⟨q, rfl, hq⟩ := hps p (by simp)
      simp only [rowsOfPages, List.mem_append] at hrow
      rcases hrow with hrow | hrow
      · exact pageRows_wf _ _ _ _ (by rw [hq.1]; exact Nat.le_refl _) (by rw [hq.2.1]; exact Nat.le_refl _) hq.2.2 row hrow
      · exact ih (fun x hx => hps x (by simp [hx])) row hrow
  intro row hrow
  unfold pending at hrow
  by_cases hl : r.pageLoaded = true
  · simp only [hl, if_true, List.mem_append] at hrow
    rcases hrow with hrow | hrow
    · unfold curRows at hrow
      refine pageRows_wf _ _ _ _ ?_ ?_ ?_ row hrow
      · simp [h.repsLen hl]
      · rw [List.length_drop, h.valsLen hl]; exact Nat.le_refl _
      · intro d hd; exact h.defsLe hl d (List.mem_of_mem_drop hd)
    · exact hpages _ (fun p hp => h.pagesOk p (List.mem_of_mem_drop hp)) row hrow
  · simp only [hl, Bool.false_eq_true, if_false] at hrow
    exact hpages _ (fun p hp => h.pagesOk p (List.mem_of_mem_drop hp)) row hrow

theorem countP_some (maxDef : Nat) (ds : List Nat) :
    (ds.map some).countP (· == some maxDef) = nn maxDef ds := by
  induction ds with
  | nil => simp [nn]
  | cons d ds ih =>
    rw [nn_cons, List.map_cons, List.countP_cons, ih]
    by_cases h : d = maxDef <;> simp [h] <;> omega

/-- What the caller sees of a read that delivered the well-formed rows `del`. -/
theorem observe_ok (maxDef k : Nat) (res : ReadResult α) (del : List (Row α)) (h : ResOk true true k res del)
    (hwf : ∀ row ∈ del, Row.WF maxDef row) :
    observe maxDef res = encodeOut (.read del.length del) := by
  unfold observe encodeOut
  rw [h.count, h.defs, h.reps, h.vals]
  simp only [if_true, Int.toNat_natCast]
  have h1 : (fill (del.map (·.defLevel)) k).take del.length = (del.map (·.defLevel)).map some := by
    have := take_fill (del.map (·.defLevel)) k
    simpa using this
  have h2 : (fill (del.map (·.repLevel)) k).take del.length = (del.map (·.repLevel)).map some := by
    have := take_fill (del.map (·.repLevel)) k
    simpa using this
  rw [h1, h2, countP_some, ← length_filterMap_val maxDef del hwf, take_fill]
  simp

theorem step_read (fx : Fixes) (r : Reader α) (k : Int) :
    step fx r (.read k) = ((readBatch fx r k true true).1, observe r.chunk.maxDef (readBatch fx r k true true).2) := rfl
theorem step_skip (fx : Fixes) (r : Reader α) (k : Int) :
    step fx r (.skip k) = ((skip fx r k).1, .skip (skip fx r k).2) := rfl

theorem drop_add_min (rows : List (Row α)) (pos k : Nat) :
    (rows.drop pos).drop k = rows.drop (pos + min k (rows.length - pos)) := by
  rw [List.drop_drop]
  by_cases hfit : k ≤ rows.length - pos
  · congr 1; omega
  · rw [List.drop_eq_nil_iff.mpr (by omega), List.drop_eq_nil_iff.mpr (by omega)]

/-- One API call on a reader that represents position `pos` of `rows`. -/
theorem step_ok (rows : List (Row α)) (r : Reader α) (pos : Nat) (h : Inv r) (hp : pending r = rows.drop pos)
    (hpos : pos ≤ rows.length) (hrows : chunkRows r.chunk = rows) (hnum : r.chunk.numValues = rows.length)
    (op : Op) (hop : OpOk op) :
    (step Fixes.all r op).2 = encodeOut (Spec.Cursor.step rows pos op).2 ∧
    Inv (step Fixes.all r op).1 ∧ (step Fixes.all r op).1.chunk = r.chunk ∧
    pending (step Fixes.all r op).1 = rows.drop (Spec.Cursor.step rows pos op).1 ∧
    (Spec.Cursor.step rows pos op).1 ≤ rows.length := by
  have hlen : (pending r).length = rows.length - pos := by rw [hp, List.length_drop]
  cases op with
  | read k =>
    rw [step_read]
    by_cases hk : k < 0
    · have hs : Spec.Cursor.step rows pos (.read k) = (pos, .read (-1) []) := by
        simp [Spec.Cursor.step, hk]
      have : readBatch Fixes.all r k true true = (releaseRetired Fixes.all r, ⟨-1, [], [], [], [], []⟩) := by
        simp [readBatch, hk]
      rw [this, hs]
      refine ⟨by simp [observe, encodeOut], inv_releaseRetired Fixes.all r h, by simp, ?_, hpos⟩
      show pending (releaseRetired Fixes.all r) = _
      rw [pending_releaseRetired]; exact hp
    · have hs : Spec.Cursor.step rows pos (.read k) =
          (pos + min k.toNat (rows.length - pos),
           .read ((min k.toNat (rows.length - pos) : Nat) : Int) ((rows.drop pos).take k.toNat)) := by
        simp [Spec.Cursor.step, hk, Spec.Cursor.left]
      rw [hs]
      by_cases hk0 : k = 0
      · subst hk0
        obtain ⟨r', heq, hinv', hchunk', hpend'⟩ := readBatch_zero r h true true
        rw [heq]
        refine ⟨by simp [observe, encodeOut], hinv', hchunk', ?_, by simpa using hpos⟩
        show pending r' = _
        simp [hpend', hp]
      · have hkn : ((k.toNat : Nat) : Int) = k := by omega
        have hop' : k < 2147483648 := hop
        obtain ⟨r', res, heq, hinv', hchunk', hpend', hres⟩ :=
          readBatch_ok r h k.toNat (by omega) (by omega) true true
        rw [hkn] at heq
        rw [heq]
        have hwf : ∀ row ∈ (pending r).take k.toNat, Row.WF r.chunk.maxDef row :=
          fun row hrow => pending_wf r h row (List.mem_of_mem_take hrow)
        have hobs := observe_ok r.chunk.maxDef k.toNat res _ hres hwf
        refine ⟨?_, hinv', hchunk', ?_, ?_⟩
        · show observe r.chunk.maxDef res = _
          rw [hobs, hp, List.length_take, List.length_drop]
        · show pending r' = _
          rw [hpend', hp, drop_add_min]
        · show pos + min k.toNat (rows.length - pos) ≤ rows.length
          omega
  | skip k =>
    rw [step_skip]
    obtain ⟨r', heq, hinv', hchunk', hpend'⟩ := skip_ok r h k
    rw [heq]
    by_cases hk : k ≤ 0
    · have hs : Spec.Cursor.step rows pos (.skip k) = (pos, .skip 0) := by
        simp [Spec.Cursor.step, hk]
      rw [hs]
      have hz : k.toNat = 0 := by omega
      refine ⟨by simp [encodeOut, hz], hinv', hchunk', ?_, hpos⟩
      show pending r' = _
      simp [hpend', hz, hp]
    · have hs : Spec.Cursor.step rows pos (.skip k) =
          (pos + min k.toNat (rows.length - pos), .skip ((min k.toNat (rows.length - pos) : Nat) : Int)) := by
        simp [Spec.Cursor.step, hk, Spec.Cursor.left]
      rw [hs]
      refine ⟨?_, hinv', hchunk', ?_, ?_⟩
      · show Out.skip _ = encodeOut (.skip _)
        rw [hlen]; rfl
      · show pending r' = _
        rw [hpend', hp, drop_add_min]
      · show pos + min k.toNat (rows.length - pos) ≤ rows.length
        omega
  | hasNext =>
    refine ⟨?_, h, rfl, hp, hpos⟩
    show Out.hasNext (hasNext r) = encodeOut (.hasNext (decide (pos < rows.length)))
    simp only [encodeOut, hasNext, h.rem, hlen]
    congr 1
    by_cases hlt : pos < rows.length <;> simp [hlt] <;> omega
  | remaining =>
    refine ⟨?_, h, rfl, hp, hpos⟩
    show Out.remaining (remaining r) = encodeOut (.remaining ((Spec.Cursor.left rows pos : Nat) : Int))
    simp [encodeOut, remaining, h.rem, hlen, Spec.Cursor.left]
  | recreate =>
    have hc : ChunkOk r.chunk := ⟨h.pagesOk, by rw [hnum, hrows]⟩
    refine ⟨rfl, inv_getColumn _ hc, rfl, ?_, Nat.zero_le _⟩
    show pending (getColumn r.chunk) = rows.drop 0
    rw [pending_getColumn, hrows]; rfl

/-- A whole history from a reader that represents position `pos`. -/
theorem outs_ok (rows : List (Row α)) (ops : List Op) :
    ∀ (r : Reader α) (pos : Nat), Inv r → pending r = rows.drop pos → pos ≤ rows.length →
      chunkRows r.chunk = rows → r.chunk.numValues = rows.length → (∀ op ∈ ops, OpOk op) →
      outs Fixes.all r ops = (Spec.Cursor.outs rows pos ops).map encodeOut ∧
      Inv (final Fixes.all r ops) ∧ (final Fixes.all r ops).chunk = r.chunk ∧
      pending (final Fixes.all r ops) = rows.drop (Spec.Cursor.finalPos rows pos ops) ∧
      Spec.Cursor.finalPos rows pos ops ≤ rows.length := by
  induction ops with
  | nil =>
    intro r pos h hp hpos _ _ _
    exact ⟨rfl, h, rfl, hp, hpos⟩
  | cons op ops ih =>
    intro r pos h hp hpos hrows hnum hops
    obtain ⟨ho, hinv', hchunk', hpend', hpos'⟩ := step_ok rows r pos h hp hpos hrows hnum op (hops op (by simp))
    obtain ⟨h1, h2, h3, h4, h5⟩ := ih (step Fixes.all r op).1 (Spec.Cursor.step rows pos op).1 hinv' hpend' hpos'
      (by rw [hchunk']; exact hrows) (by rw [hchunk']; exact hnum) (fun o ho => hops o (by simp [ho]))
    refine ⟨?_, h2, by rw [← hchunk']; exact h3, h4, h5⟩
    simp only [outs, Spec.Cursor.outs, List.map_cons, ho, h1]

/-- `remaining()` of a reader that represents position `pos`. -/
theorem remaining_eq (rows : List (Row α)) (r : Reader α) (pos : Nat) (h : Inv r) (hp : pending r = rows.drop pos) :
    remaining r = (rows.length : Int) - (min pos rows.length : Nat) := by
  simp only [remaining, h.rem, hp, List.length_drop]
  omega

end Carquet.Proofs.Cursor
