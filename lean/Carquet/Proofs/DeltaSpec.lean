import Carquet.Proofs.DeltaBits
import Carquet.Proofs.DeltaVarint
/-
The Spec reference decoder is correct for the grammar: every well-formed `Stream`, followed by
any bytes, decodes to the values it denotes and leaves exactly the following bytes.
-/
namespace Carquet.Spec.Delta

theorem decodeHeader_header (s : Stream) (rest : List UInt8) (hg : s.geom.legal) (h64 : s.fits64) :
    decodeHeader (s.header ++ rest) = .ok (⟨s.geom, s.count, s.first⟩, rest) := by
  obtain ⟨h1, h2, h3, h4⟩ := h64
  unfold decodeHeader Stream.header
  simp only [List.append_assoc]
  rw [ulebDecode64_ulebEncode _ _ h1]; simp only
  rw [ulebDecode64_ulebEncode _ _ h2]; simp only
  rw [ulebDecode64_ulebEncode _ _ h3]; simp only
  rw [ulebDecode64_ulebEncode _ _ (zigzagEnc_lt64 _ h4)]; simp only
  rw [if_pos hg, zigzagDec_zigzagEnc]

theorem take_take_drop (r vpm : Nat) (xs : List α) (h : vpm ≤ xs.length) :
    (xs.take vpm).take r ++ (xs.drop vpm).take (r - vpm) = xs.take r := by
  conv => rhs; rw [← List.take_append_drop vpm xs]
  rw [List.take_append]
  simp [List.length_take, Nat.min_eq_left h]

theorem decodeMinis_packMinis (vpm : Nat) (hv : 0 < vpm) (ws : List UInt8) :
    ∀ (xs : List Nat) (r : Nat) (tail : List UInt8), fits vpm ws xs → xs.length % vpm = 0 →
      xs.length < r + vpm → (r ≤ xs.length ∨ xs.length = vpm * ws.length) →
      decodeMinis vpm ws r (packMinis vpm ws xs ++ tail) = .ok (xs.take r, tail) := by
  induction ws with
  | nil =>
    intro xs r tail hf _ _ _
    simp only [fits] at hf
    subst hf
    simp [decodeMinis, packMinis]
  | cons w ws ih =>
    intro xs r tail hf hm hlt hor
    by_cases hx : xs = []
    · subst hx
      have hr : r = 0 := by
        rcases hor with h | h
        · simpa using h
        · simp only [List.length_nil, List.length_cons] at h
          have : 0 < vpm * (ws.length + 1) := Nat.mul_pos hv (by omega)
          omega
      subst hr
      simp [decodeMinis, packMinis]
    · have hlen : vpm ≤ xs.length := by
        have hpos : 0 < xs.length := List.length_pos_iff.mpr hx
        have := Nat.le_of_dvd hpos (Nat.dvd_of_mod_eq_zero hm)
        exact this
      have hr : r ≠ 0 := by omega
      simp only [fits] at hf
      rcases hf with hf | ⟨hw, hfit, hrest⟩
      · exact absurd hf hx
      · have htake : (xs.take vpm).length = vpm := by simp [List.length_take, Nat.min_eq_left hlen]
        simp only [packMinis, if_neg hx, decodeMinis, if_neg hr, List.append_assoc]
        rw [if_neg (by omega)]
        have hpl : (pack w.toNat (xs.take vpm)).length = packedSize w.toNat vpm := by
          rw [length_pack, htake]
        rw [if_neg (by rw [List.length_append, hpl]; omega)]
        rw [List.drop_left' hpl]
        rw [ih (xs.drop vpm) (r - vpm) tail hrest
              (by rw [List.length_drop]; exact (Nat.sub_mod_eq_zero_of_mod_eq (by rw [hm, Nat.mod_self])))
              (by rw [List.length_drop]; omega)
              (by
                rcases hor with h | h
                · left; rw [List.length_drop]; omega
                · right; rw [List.length_drop, h, List.length_cons, Nat.mul_succ]; omega)]
        simp only
        have hu := unpack_take_pack_prefix w.toNat (xs.take vpm) (packMinis vpm ws (xs.drop vpm) ++ tail)
          (min vpm r) hfit (by rw [htake]; exact Nat.min_le_left _ _)
        rw [htake] at hu
        rw [hu, List.take_take]
        have hmin : min (min vpm r) vpm = min r vpm := by omega
        rw [hmin]
        have := take_take_drop r vpm xs hlen
        rw [List.take_take] at this
        rw [this]

theorem vpm_mul (g : Geometry) (hg : g.legal) : g.vpm * g.miniblocks = g.blockSize := by
  unfold Geometry.vpm
  exact Nat.div_mul_cancel (Nat.dvd_of_mod_eq_zero hg.2.2.2.1)

theorem vpm_pos (g : Geometry) (hg : g.legal) : 0 < g.vpm := by
  have h := vpm_mul g hg
  have hb := hg.1
  rcases Nat.eq_zero_or_pos g.vpm with h0 | h0
  · rw [h0] at h; omega
  · exact h0

theorem decodeBlocks_blocks (g : Geometry) (hg : g.legal) (blocks : List Block) :
    ∀ (fuel : Nat) (tail : List UInt8), blocksWf g blocks → totalDeltas blocks ≤ fuel →
      decodeBlocks g fuel (totalDeltas blocks) (blocks.flatMap (Block.bytes g) ++ tail) =
        .ok (blocks.flatMap Block.deltas, tail) := by
  induction blocks with
  | nil =>
    intro fuel tail _ _
    cases fuel <;> simp [totalDeltas, decodeBlocks]
  | cons b bs ih =>
    intro fuel tail hwf hfuel
    have hbwf : b.wf g := by
      cases bs with
      | nil => exact hwf
      | cons b' bs' => exact hwf.1
    obtain ⟨hwl, hapos, hale, hmod, hpad, hfits, hmd⟩ := hbwf
    have htot : totalDeltas (b :: bs) = b.adj.length + totalDeltas bs := by
      simp [totalDeltas]
    -- the remaining count at this block, and what the block supplies
    have hfull : bs ≠ [] → b.adj.length = g.blockSize ∧ b.pad = [] := by
      intro hne
      cases bs with
      | nil => exact absurd rfl hne
      | cons b' bs' =>
        have hl : b.adj.length = g.blockSize := hwf.2.1
        refine ⟨hl, ?_⟩
        have hvm := vpm_mul g hg
        have : (g.blockSize + b.pad.length) % g.vpm = 0 := by rw [← hl]; exact hmod
        rw [← hvm, Nat.add_comm, Nat.add_mul_mod_self_left] at this
        rw [Nat.mod_eq_of_lt hpad] at this
        exact List.eq_nil_of_length_eq_zero this
    have hrest : totalDeltas (b :: bs) - g.blockSize = totalDeltas bs := by
      by_cases hne : bs = []
      · subst hne; simp [totalDeltas]; omega
      · rw [htot, (hfull hne).1]; omega
    have hbswf : blocksWf g bs := by
      cases bs with
      | nil => trivial
      | cons b' bs' => exact hwf.2.2
    rw [htot] at hfuel ⊢
    obtain ⟨r, hr⟩ : ∃ r, b.adj.length + totalDeltas bs = r + 1 := ⟨b.adj.length + totalDeltas bs - 1, by omega⟩
    cases fuel with
    | zero => omega
    | succ fuel =>
      rw [hr]
      simp only [List.flatMap_cons, Block.bytes, List.append_assoc, decodeBlocks]
      rw [ulebDecode64_ulebEncode _ _ (zigzagEnc_lt64 _ hmd)]
      simp only
      rw [if_neg (by simp [List.length_append, hwl])]
      rw [List.take_left' hwl, List.drop_left' hwl]
      rw [← hr]
      rw [decodeMinis_packMinis g.vpm (vpm_pos g hg) b.widths (b.adj ++ b.pad) _ _ hfits
            (by simpa using hmod) (by simp only [List.length_append]; omega)
            (by
              by_cases hne : bs = []
              · subst hne; left; simp [totalDeltas]
              · right
                rw [(hfull hne).2, List.append_nil, (hfull hne).1, hwl, vpm_mul g hg])]
      simp only
      have hr' : b.adj.length + totalDeltas bs - g.blockSize = totalDeltas bs := by
        rw [← htot]; exact hrest
      rw [hr', ih fuel tail hbswf (by omega)]
      simp only
      have htk : (b.adj ++ b.pad).take (b.adj.length + totalDeltas bs) = b.adj := by
        by_cases hne : bs = []
        · subst hne; simp [totalDeltas]
        · rw [(hfull hne).2, List.append_nil]
          exact List.take_of_length_le (by omega)
      rw [htk, zigzagDec_zigzagEnc]
      rfl

/-- The reference decoder accepts every well-formed stream (any legal geometry, any widths
0..64, any padding, any junk in unneeded width slots), returns the values it denotes and stops
exactly at its end. -/
theorem decode_stream (W : Nat) (s : Stream) (tail : List UInt8) (h : s.wf) :
    decode W (s.bytes ++ tail) = .ok (s.values W, tail) := by
  obtain ⟨hg, hb, hc, h64⟩ := h
  unfold decode Stream.bytes
  rw [List.append_assoc, decodeHeader_header s _ hg h64]
  simp only
  rcases hc with hc | ⟨hc, hnil⟩
  · have hne : s.count ≠ 0 := by omega
    rw [if_neg hne]
    have : s.count - 1 = totalDeltas s.blocks := by omega
    rw [this, decodeBlocks_blocks s.geom hg s.blocks _ tail hb (Nat.le_refl _)]
    simp [Stream.values, hne]
  · rw [if_pos hc, hnil]
    simp [Stream.values, hc]

end Carquet.Spec.Delta
