import Carquet.Proofs.ThriftVarint
/-
The Spec's generic decoder reads every encoding the relation `Enc` admits (short and long
headers, both bool spellings), and the canonical encoder produces such an encoding.
-/
namespace Carquet.Proofs.Thrift
open Carquet.Spec.Thrift

theorem hasLen_iff (l : List UInt8) (n : Nat) : hasLen l n = true ↔ n ≤ l.length := by
  induction l generalizing n with
  | nil => cases n <;> simp [hasLen]
  | cons a l ih => cases n <;> simp [hasLen, ih]

theorem hasLen_append (a r : List UInt8) : hasLen (a ++ r) a.length = true := by
  rw [hasLen_iff]; simp

theorem code_pos (t : TType) : 2 ≤ t.code ∧ t.code ≤ 13 := by cases t <;> simp [TType.code]
theorem elemType_code (t : TType) : elemType t.code = some t := by cases t <;> rfl
theorem fieldCode_range (v : TVal) : 1 ≤ fieldCode v ∧ fieldCode v ≤ 13 := by
  cases v <;> simp [fieldCode, TVal.ty, TType.code]
  rename_i b; cases b <;> simp
theorem fieldCode_of_ne_bool (v : TVal) (h : v.ty ≠ .bool) : fieldCode v = v.ty.code ∧ 3 ≤ v.ty.code := by
  cases v <;> simp_all [fieldCode, TVal.ty, TType.code]

theorem elemCode_elemType {et : TType} {code : Nat} (h : ElemCode et code) : elemType code = some et ∧ 1 ≤ code ∧ code ≤ 13 := by
  rcases h with rfl | ⟨rfl, rfl⟩
  · exact ⟨elemType_code et, by have := code_pos et; omega, (code_pos et).2⟩
  · exact ⟨rfl, by omega, by omega⟩

theorem decodeInt_zigzag (lo hi v : Int) (h64 : inI64 v) (hlo : lo ≤ v) (hhi : v ≤ hi) (r : List UInt8) :
    decodeInt lo hi (uleb (zigzag v) ++ r) = some (v, r) := by
  unfold decodeInt
  rw [unuleb_uleb _ _ (zigzag_lt v h64)]
  simp [unzigzag_zigzag, hlo, hhi]

theorem decodeListHdr_of {et : TType} {n : Nat} {hdr : List UInt8} (h : ListHdr et n hdr) (hn : n < 2 ^ 31)
    (r : List UInt8) : decodeListHdr (hdr ++ r) = some ((et, n), r) := by
  obtain ⟨code, hc, hh⟩ := h
  obtain ⟨he, h1, h13⟩ := elemCode_elemType hc
  rcases hh with ⟨hlt, rfl⟩ | rfl
  · have hb : (UInt8.ofNat (n * 16 + code)).toNat = n * 16 + code := u8_toNat _ (by omega)
    have e1 : (n * 16 + code) % 16 = code := by omega
    have e2 : (n * 16 + code) / 16 = n := by omega
    have e3 : ¬ n = 15 := by omega
    simp only [shortListHdr, decodeListHdr, List.singleton_append, hb, e1, e2, e3, he, if_false]
  · have hb : (UInt8.ofNat (15 * 16 + code)).toNat = 15 * 16 + code := u8_toNat _ (by omega)
    have e1 : (15 * 16 + code) % 16 = code := by omega
    have e2 : (15 * 16 + code) / 16 = 15 := by omega
    have hn64 : n < 2 ^ 64 := Nat.lt_of_lt_of_le hn (by decide)
    simp only [longListHdr, decodeListHdr, List.cons_append, hb, e1, e2, he, unuleb_uleb _ _ hn64, hn, if_true]

/-- what the field-header part of `decodeFields` computes on a legal header -/
theorem fieldHdr_decodes {last id : Int} {code : Nat} {hdr : List UInt8} (h : FieldHdr last id code hdr)
    (hid : inI16 id) (hc1 : 1 ≤ code) (hc13 : code ≤ 13) :
    ∃ h0 tl, hdr = h0 :: tl ∧ h0 ≠ 0 ∧ h0.toNat % 16 = code ∧
      ∀ r, (if h0.toNat / 16 = 0 then decodeInt (-32768) 32767 (tl ++ r)
            else if last + (h0.toNat / 16 : Nat) ≤ 32767 then some (last + (h0.toNat / 16 : Nat), tl ++ r) else none)
           = some (id, r) := by
  rcases h with ⟨hpos, hle, rfl⟩ | rfl
  · have hd : (id - last).toNat * 16 + code < 256 := by omega
    have hb : (UInt8.ofNat ((id - last).toNat * 16 + code)).toNat = (id - last).toNat * 16 + code := u8_toNat _ hd
    refine ⟨_, [], rfl, ?_, ?_, ?_⟩
    · intro h0
      have := congrArg UInt8.toNat h0
      rw [hb] at this
      simp at this
      omega
    · rw [hb]; omega
    · intro r
      have e2 : ((id - last).toNat * 16 + code) / 16 = (id - last).toNat := by omega
      have e3 : ¬ (id - last).toNat = 0 := by omega
      unfold inI16 at hid
      rw [hb, e2, if_neg e3]
      have : last + ((id - last).toNat : Int) = id := by omega
      rw [this, if_pos hid.2]; rfl
  · have hb : (UInt8.ofNat code).toNat = code := u8_toNat _ (by omega)
    refine ⟨_, _, rfl, ?_, ?_, ?_⟩
    · intro h0
      have := congrArg UInt8.toNat h0
      rw [hb] at this
      simp at this
      omega
    · rw [hb]; omega
    · intro r
      have e2 : code / 16 = 0 := by omega
      unfold inI16 at hid
      rw [hb, e2, if_pos rfl]
      exact decodeInt_zigzag _ _ id (inI64_of_inI16 hid) hid.1 hid.2 r

/-! ### sizes: every element, entry and field takes at least one byte -/

def LenP : Item → List UInt8 → Prop
  | .val _, bs => 1 ≤ bs.length
  | .elems xs, bs => xs.length ≤ bs.length
  | .kvs kvs, bs => kvs.length ≤ bs.length
  | .fields _ fs, bs => fs.length ≤ bs.length

theorem listHdr_len {et n hdr} (h : ListHdr et n hdr) : 1 ≤ hdr.length := by
  obtain ⟨code, _, hh⟩ := h
  rcases hh with ⟨_, rfl⟩ | rfl <;> simp [shortListHdr, longListHdr]

theorem fieldHdr_len {last id code hdr} (h : FieldHdr last id code hdr) : 1 ≤ hdr.length := by
  rcases h with ⟨_, _, rfl⟩ | rfl <;> simp [shortFieldHdr, longFieldHdr]

theorem leBytes_length (n v : Nat) : (leBytes n v).length = n := by
  induction n generalizing v with
  | zero => rfl
  | succ n ih => simp [leBytes, ih]

theorem enc_len {item bs} (h : Enc item bs) : LenP item bs := by
  induction h with
  | boolT | boolF | boolF0 | i8 _ => simp [LenP]
  | i16 _ | i32 _ | i64 _ => simp only [LenP]; exact uleb_length_pos _
  | double _ => simp [LenP, leBytes_length]
  | binary _ => simp only [LenP, List.length_append]; have := uleb_length_pos (List.length ‹List UInt8›); omega
  | uuid h => simp [LenP, h]
  | list _ _ hh _ _ | set _ _ hh _ _ => simp only [LenP, List.length_append]; have := listHdr_len hh; omega
  | mapNil => simp [LenP]
  | mapCons _ _ _ _ => simp only [LenP, List.length_append, List.length_cons]; omega
  | struct _ _ => simp [LenP]
  | elemsNil | kvsNil | fieldsNil => simp [LenP]
  | elemsCons _ _ ih1 ih2 => simp only [LenP, List.length_cons, List.length_append] at *; omega
  | kvsCons _ _ _ ih1 ih2 ih3 => simp only [LenP, List.length_cons, List.length_append] at *; omega
  | fieldsBool _ hh _ ih => simp only [LenP, List.length_cons, List.length_append] at *; have := fieldHdr_len hh; omega
  | fieldsCons _ _ hh _ _ ih1 ih2 =>
    simp only [LenP, List.length_cons, List.length_append] at *; have := fieldHdr_len hh; omega

/-! ### the decoder reads every admitted encoding -/

theorem leNat_leBytes (n v : Nat) (h : v < 256 ^ n) : leNat (leBytes n v) = v := by
  induction n generalizing v with
  | zero => simp at h; simp [leBytes, leNat, h]
  | succ n ih =>
    have hd : v / 256 < 256 ^ n := by
      rw [Nat.pow_succ, Nat.mul_comm] at h
      exact Nat.div_lt_of_lt_mul h
    simp only [leBytes, leNat, ih _ hd, u8_toNat (v % 256) (by omega)]
    omega

theorem ofByte_byteOf (v : Int) (h : inI8 v) : ofByte (byteOf v) = v := by
  unfold inI8 at h
  unfold ofByte byteOf
  have hb : (UInt8.ofNat (v % 256).toNat).toNat = (v % 256).toNat := u8_toNat _ (by omega)
  rw [hb]
  split <;> omega

def DecP : Item → List UInt8 → Prop
  | .val v, bs => ∀ fuel r, v.depth < fuel → decodeVal fuel v.ty (bs ++ r) = some (v, r)
  | .elems xs, bs => ∀ fuel et r, (∀ x ∈ xs, x.ty = et) → (∀ x ∈ xs, x.depth < fuel) →
      decodeN (decodeVal fuel et) xs.length (bs ++ r) = some (xs, r)
  | .kvs kvs, bs => ∀ fuel kt vt r, (∀ p ∈ kvs, p.1.ty = kt ∧ p.2.ty = vt) →
      (∀ p ∈ kvs, p.1.depth < fuel ∧ p.2.depth < fuel) →
      decodePairs (decodeVal fuel kt) (decodeVal fuel vt) kvs.length (bs ++ r) = some (kvs, r)
  | .fields last fs, bs => ∀ fuel m r, (∀ f ∈ fs, f.2.depth < fuel) → fs.length < m →
      decodeFields (decodeVal fuel) m last (bs ++ 0 :: r) = some (fs, r)

theorem depth_le_elems {x : TVal} {xs : List TVal} (h : x ∈ xs) : x.depth ≤ depthElems xs := by
  induction xs with
  | nil => cases h
  | cons y ys ih =>
    simp only [depthElems]
    rcases List.mem_cons.mp h with rfl | h'
    · omega
    · have := ih h'; omega

theorem depth_le_kvs {p : TVal × TVal} {kvs : List (TVal × TVal)} (h : p ∈ kvs) :
    p.1.depth ≤ depthKVs kvs ∧ p.2.depth ≤ depthKVs kvs := by
  induction kvs with
  | nil => cases h
  | cons y ys ih =>
    obtain ⟨k, v⟩ := y
    simp only [depthKVs]
    rcases List.mem_cons.mp h with rfl | h'
    · simp; omega
    · have := ih h'; omega

theorem depth_le_fields {f : Int × TVal} {fs : List (Int × TVal)} (h : f ∈ fs) : f.2.depth ≤ depthFields fs := by
  induction fs with
  | nil => cases h
  | cons y ys ih =>
    obtain ⟨i, v⟩ := y
    simp only [depthFields]
    rcases List.mem_cons.mp h with rfl | h'
    · simp; omega
    · have := ih h'; omega

theorem dec_of_enc {item bs} (h : Enc item bs) : DecP item bs := by
  induction h with
  | boolT => intro fuel r hf; obtain ⟨f, rfl⟩ : ∃ f, fuel = f + 1 := ⟨fuel - 1, by omega⟩; simp [decodeVal, TVal.ty]
  | boolF => intro fuel r hf; obtain ⟨f, rfl⟩ : ∃ f, fuel = f + 1 := ⟨fuel - 1, by omega⟩; simp [decodeVal, TVal.ty]
  | boolF0 => intro fuel r hf; obtain ⟨f, rfl⟩ : ∃ f, fuel = f + 1 := ⟨fuel - 1, by omega⟩; simp [decodeVal, TVal.ty]
  | i8 hv =>
    intro fuel r hf; obtain ⟨f, rfl⟩ : ∃ f, fuel = f + 1 := ⟨fuel - 1, by omega⟩
    simp [decodeVal, TVal.ty, ofByte_byteOf _ hv]
  | i16 hv =>
    intro fuel r hf; obtain ⟨f, rfl⟩ : ∃ f, fuel = f + 1 := ⟨fuel - 1, by omega⟩
    simp [decodeVal, TVal.ty, decodeInt_zigzag _ _ _ (inI64_of_inI16 hv) hv.1 hv.2]
  | i32 hv =>
    intro fuel r hf; obtain ⟨f, rfl⟩ : ∃ f, fuel = f + 1 := ⟨fuel - 1, by omega⟩
    simp [decodeVal, TVal.ty, decodeInt_zigzag _ _ _ (inI64_of_inI32 hv) hv.1 hv.2]
  | i64 hv =>
    intro fuel r hf; obtain ⟨f, rfl⟩ : ∃ f, fuel = f + 1 := ⟨fuel - 1, by omega⟩
    simp [decodeVal, TVal.ty, decodeInt_zigzag _ _ _ hv hv.1 hv.2]
  | @double bits hb =>
    intro fuel r hf; obtain ⟨f, rfl⟩ : ∃ f, fuel = f + 1 := ⟨fuel - 1, by omega⟩
    have hl : (leBytes 8 bits).length = 8 := leBytes_length 8 bits
    have h1 : hasLen (leBytes 8 bits ++ r) 8 = true := by have := hasLen_append (leBytes 8 bits) r; rwa [hl] at this
    have h2 : List.take 8 (leBytes 8 bits ++ r) = leBytes 8 bits := by rw [← hl]; exact List.take_left' rfl
    have h3 : List.drop 8 (leBytes 8 bits ++ r) = r := by rw [← hl]; exact List.drop_left' rfl
    have h4 : leNat (leBytes 8 bits) = bits := leNat_leBytes 8 bits (Nat.lt_of_lt_of_le hb (by decide))
    simp only [decodeVal, TVal.ty, h1, if_true, h2, h3, h4]
  | @binary b hb =>
    intro fuel r hf; obtain ⟨f, rfl⟩ : ∃ f, fuel = f + 1 := ⟨fuel - 1, by omega⟩
    have hn64 : b.length < 2 ^ 64 := Nat.lt_of_lt_of_le hb (by decide)
    simp only [decodeVal, TVal.ty, List.append_assoc, unuleb_uleb _ _ hn64, hb, hasLen_append, and_self, if_true]
    simp
  | @uuid b hb =>
    intro fuel r hf; obtain ⟨f, rfl⟩ : ∃ f, fuel = f + 1 := ⟨fuel - 1, by omega⟩
    have h1 : hasLen (b ++ r) 16 = true := by have := hasLen_append b r; rwa [hb] at this
    have h2 : List.take 16 (b ++ r) = b := by rw [← hb]; exact List.take_left' rfl
    have h3 : List.drop 16 (b ++ r) = r := by rw [← hb]; exact List.drop_left' rfl
    simp only [decodeVal, TVal.ty, h1, if_true, h2, h3]
  | @list et xs hdr body hlen hty hh _ ih =>
    intro fuel r hf; obtain ⟨f, rfl⟩ : ∃ f, fuel = f + 1 := ⟨fuel - 1, by omega⟩
    have hd : ∀ x ∈ xs, x.depth < f := by
      intro x hx; have := depth_le_elems hx; simp only [TVal.depth] at hf; omega
    simp only [decodeVal, TVal.ty, List.append_assoc, decodeListHdr_of hh hlen, ih f et r hty hd, Option.map_some]
  | @set et xs hdr body hlen hty hh _ ih =>
    intro fuel r hf; obtain ⟨f, rfl⟩ : ∃ f, fuel = f + 1 := ⟨fuel - 1, by omega⟩
    have hd : ∀ x ∈ xs, x.depth < f := by
      intro x hx; have := depth_le_elems hx; simp only [TVal.depth] at hf; omega
    simp only [decodeVal, TVal.ty, List.append_assoc, decodeListHdr_of hh hlen, ih f et r hty hd, Option.map_some]
  | mapNil =>
    intro fuel r hf; obtain ⟨f, rfl⟩ : ∃ f, fuel = f + 1 := ⟨fuel - 1, by omega⟩
    simp [decodeVal, TVal.ty, unuleb]
  | @mapCons k v rest body hlen hty _ ih =>
    intro fuel r hf; obtain ⟨f, rfl⟩ : ∃ f, fuel = f + 1 := ⟨fuel - 1, by omega⟩
    have hn64 : rest.length + 1 < 2 ^ 64 := Nat.lt_of_lt_of_le hlen (by decide)
    have hd : ∀ p ∈ (k, v) :: rest, p.1.depth < f ∧ p.2.depth < f := by
      intro p hp; have := depth_le_kvs hp; simp only [TVal.depth] at hf; omega
    have hk := code_pos k.ty
    have hv := code_pos v.ty
    have hb : (UInt8.ofNat (k.ty.code * 16 + v.ty.code)).toNat = k.ty.code * 16 + v.ty.code := u8_toNat _ (by omega)
    have e1 : (k.ty.code * 16 + v.ty.code) / 16 = k.ty.code := by omega
    have e2 : (k.ty.code * 16 + v.ty.code) % 16 = v.ty.code := by omega
    have := ih f k.ty v.ty r hty hd
    simp only [List.length_cons] at this
    rw [show (TVal.map ((k, v) :: rest)).ty = TType.map from rfl]
    simp only [decodeVal, List.append_assoc, List.cons_append, unuleb_uleb _ _ hn64, Nat.add_one_ne_zero,
      if_false, hlen, if_true, hb, e1, e2, elemType_code, this, Option.map_some]
  | @struct fs body henc ih =>
    intro fuel r hf; obtain ⟨f, rfl⟩ : ∃ f, fuel = f + 1 := ⟨fuel - 1, by omega⟩
    have hd : ∀ x ∈ fs, x.2.depth < f := by
      intro x hx; have := depth_le_fields hx; simp only [TVal.depth] at hf; omega
    have hl : fs.length ≤ body.length := enc_len henc
    have := ih f ((body ++ [0] ++ r).length) r hd (by simp; omega)
    simp only [decodeVal, TVal.ty, List.append_assoc, List.singleton_append] at this ⊢
    simp only [this, Option.map_some]
  | elemsNil => intro fuel et r _ _; simp [decodeN]
  | @elemsCons x rest b1 b2 _ _ ih1 ih2 =>
    intro fuel et r hty hd
    have hx := hty x (List.mem_cons_self)
    have h1 := ih1 fuel (b2 ++ r) (hd x List.mem_cons_self)
    rw [hx] at h1
    have h2 := ih2 fuel et r (fun y hy => hty y (List.mem_cons_of_mem _ hy)) (fun y hy => hd y (List.mem_cons_of_mem _ hy))
    simp only [List.length_cons, decodeN, List.append_assoc, h1, h2]
  | kvsNil => intro fuel kt vt r _ _; simp [decodePairs]
  | @kvsCons k v rest b1 b2 b3 _ _ _ ih1 ih2 ih3 =>
    intro fuel kt vt r hty hd
    have hx := hty (k, v) List.mem_cons_self
    have hdx := hd (k, v) List.mem_cons_self
    have h1 := ih1 fuel (b2 ++ (b3 ++ r)) hdx.1
    have h2 := ih2 fuel (b3 ++ r) hdx.2
    rw [hx.1] at h1
    rw [hx.2] at h2
    have h3 := ih3 fuel kt vt r (fun y hy => hty y (List.mem_cons_of_mem _ hy)) (fun y hy => hd y (List.mem_cons_of_mem _ hy))
    simp only [List.length_cons, decodePairs, List.append_assoc, h1, h2, h3]
  | fieldsNil =>
    intro fuel m r _ hm
    obtain ⟨m, rfl⟩ : ∃ m', m = m' + 1 := ⟨m - 1, by simp at hm; omega⟩
    simp [decodeFields]
  | @fieldsBool last id b rest hdr b3 hid hh _ ih =>
    intro fuel m r hd hm
    obtain ⟨m, rfl⟩ : ∃ m', m = m' + 1 := ⟨m - 1, by simp at hm; omega⟩
    have hc := fieldCode_range (.bool b)
    obtain ⟨h0, tl, rfl, hne, hcode, hdec⟩ := fieldHdr_decodes hh hid hc.1 hc.2
    have h3 := ih fuel m r (fun y hy => hd y (List.mem_cons_of_mem _ hy)) (by simp at hm; omega)
    have hdec' := hdec (b3 ++ 0 :: r)
    simp only [List.cons_append, List.append_assoc, decodeFields, hne, if_false, hdec', hcode]
    cases b <;> simp [fieldCode, h3]
  | @fieldsCons last id v rest hdr b2 b3 hid hnb hh _ _ ih1 ih2 =>
    intro fuel m r hd hm
    obtain ⟨m, rfl⟩ : ∃ m', m = m' + 1 := ⟨m - 1, by simp at hm; omega⟩
    have hc := fieldCode_range v
    obtain ⟨hfc, h3le⟩ := fieldCode_of_ne_bool v hnb
    obtain ⟨h0, tl, rfl, hne, hcode, hdec⟩ := fieldHdr_decodes hh hid hc.1 hc.2
    have hv := ih1 fuel (b3 ++ 0 :: r) (hd (id, v) List.mem_cons_self)
    have h3 := ih2 fuel m r (fun y hy => hd y (List.mem_cons_of_mem _ hy)) (by simp at hm; omega)
    have hdec' := hdec (b2 ++ (b3 ++ 0 :: r))
    have n1 : ¬ fieldCode v = 1 := by omega
    have n2 : ¬ fieldCode v = 2 := by omega
    simp only [List.cons_append, List.append_assoc, decodeFields, hne, if_false, hdec', hcode, n1, n2]
    rw [hfc, elemType_code]
    simp only [hv, h3]

def DepthP : Item → List UInt8 → Prop
  | .val v, bs => v.depth ≤ bs.length
  | .elems xs, bs => depthElems xs ≤ bs.length
  | .kvs kvs, bs => depthKVs kvs ≤ bs.length
  | .fields _ fs, bs => depthFields fs ≤ bs.length

theorem enc_depth {item bs} (h : Enc item bs) : DepthP item bs := by
  induction h with
  | boolT | boolF | boolF0 | i8 _ | i16 _ | i32 _ | i64 _ | double _ | binary _ | uuid _ => simp [DepthP, TVal.depth]
  | list _ _ hh _ ih | set _ _ hh _ ih =>
    simp only [DepthP, TVal.depth, List.length_append] at *; have := listHdr_len hh; omega
  | mapNil => simp [DepthP, TVal.depth, depthKVs]
  | mapCons _ _ _ ih => simp only [DepthP, TVal.depth, List.length_append, List.length_cons] at *; omega
  | struct _ ih => simp only [DepthP, TVal.depth, List.length_append, List.length_singleton] at *; omega
  | elemsNil | kvsNil | fieldsNil => simp [DepthP, depthElems, depthKVs, depthFields]
  | elemsCons _ _ ih1 ih2 => simp only [DepthP, depthElems, List.length_append] at *; omega
  | kvsCons _ _ _ ih1 ih2 ih3 => simp only [DepthP, depthKVs, List.length_append] at *; omega
  | fieldsBool _ hh _ ih => simp only [DepthP, depthFields, TVal.depth, List.length_append] at *; omega
  | fieldsCons _ _ hh _ _ ih1 ih2 => simp only [DepthP, depthFields, List.length_append] at *; omega

/-- **Every admitted encoding decodes to its value** (and the rest of the input is returned). -/
theorem decode_of_encodes (v : TVal) (bs r : List UInt8) (h : Encodes v bs) :
    decode v.ty (bs ++ r) = some (v, r) := by
  have hd : v.depth ≤ bs.length := enc_depth h
  exact dec_of_enc h _ r (by simp; omega)

/-! ### the canonical encoder produces an admitted encoding -/

theorem fieldHdr_ok (last id : Int) (code : Nat) : FieldHdr last id code (fieldHdr last id code) := by
  unfold fieldHdr FieldHdr
  split
  · rename_i h; exact Or.inl ⟨h.1, h.2, rfl⟩
  · exact Or.inr rfl

theorem listHdr_ok (et : TType) (n : Nat) : ListHdr et n (listHdr et n) := by
  unfold listHdr ListHdr
  refine ⟨et.code, Or.inl rfl, ?_⟩
  split
  · rename_i h; exact Or.inl ⟨h, rfl⟩
  · exact Or.inr rfl

theorem wfElems_ty {et : TType} {xs : List TVal} (h : wfElems et xs = true) : ∀ x ∈ xs, x.ty = et := by
  induction xs with
  | nil => intro x hx; cases hx
  | cons y ys ih =>
    simp only [wfElems, Bool.and_eq_true, decide_eq_true_eq] at h
    intro x hx
    rcases List.mem_cons.mp hx with rfl | hx'
    · exact h.1.1
    · exact ih h.2 x hx'

theorem wfKVs_ty {kt vt : TType} {kvs : List (TVal × TVal)} (h : wfKVs kt vt kvs = true) :
    ∀ p ∈ kvs, p.1.ty = kt ∧ p.2.ty = vt := by
  induction kvs with
  | nil => intro x hx; cases hx
  | cons y ys ih =>
    obtain ⟨k, v⟩ := y
    simp only [wfKVs, Bool.and_eq_true, decide_eq_true_eq] at h
    intro x hx
    rcases List.mem_cons.mp hx with rfl | hx'
    · exact ⟨h.1.1.1.1, h.1.1.1.2⟩
    · exact ih h.2 x hx'

mutual
theorem enc_encodeVal : ∀ v : TVal, v.wf = true → Enc (.val v) (encodeVal v)
  | .bool true, _ => by simp only [encodeVal]; exact Enc.boolT
  | .bool false, _ => by simp only [encodeVal]; exact Enc.boolF
  | .i8 v, h => by simp only [TVal.wf, decide_eq_true_eq] at h; simp only [encodeVal]; exact Enc.i8 h
  | .i16 v, h => by simp only [TVal.wf, decide_eq_true_eq] at h; simp only [encodeVal]; exact Enc.i16 h
  | .i32 v, h => by simp only [TVal.wf, decide_eq_true_eq] at h; simp only [encodeVal]; exact Enc.i32 h
  | .i64 v, h => by simp only [TVal.wf, decide_eq_true_eq] at h; simp only [encodeVal]; exact Enc.i64 h
  | .double b, h => by simp only [TVal.wf, decide_eq_true_eq] at h; simp only [encodeVal]; exact Enc.double h
  | .binary b, h => by simp only [TVal.wf, decide_eq_true_eq] at h; simp only [encodeVal]; exact Enc.binary h
  | .uuid b, h => by simp only [TVal.wf, decide_eq_true_eq] at h; simp only [encodeVal]; exact Enc.uuid h
  | .list et xs, h => by
    simp only [TVal.wf, Bool.and_eq_true, decide_eq_true_eq] at h
    simp only [encodeVal]
    exact Enc.list h.1 (wfElems_ty h.2) (listHdr_ok et xs.length) (enc_encodeElems et xs h.2)
  | .set et xs, h => by
    simp only [TVal.wf, Bool.and_eq_true, decide_eq_true_eq] at h
    simp only [encodeVal]
    exact Enc.set h.1 (wfElems_ty h.2) (listHdr_ok et xs.length) (enc_encodeElems et xs h.2)
  | .map [], _ => by simp only [encodeVal]; exact Enc.mapNil
  | .map ((k, v) :: r), h => by
    simp only [TVal.wf, Bool.and_eq_true, decide_eq_true_eq] at h
    simp only [encodeVal]
    exact Enc.mapCons h.1 (wfKVs_ty h.2) (enc_encodeKVs k.ty v.ty ((k, v) :: r) h.2)
  | .struct fs, h => by
    simp only [TVal.wf] at h
    simp only [encodeVal]
    exact Enc.struct (enc_encodeFields fs h 0)
theorem enc_encodeElems : ∀ (et : TType) (xs : List TVal), wfElems et xs = true → Enc (.elems xs) (encodeElems xs)
  | _, [], _ => by simp only [encodeElems]; exact Enc.elemsNil
  | et, x :: r, h => by
    simp only [wfElems, Bool.and_eq_true, decide_eq_true_eq] at h
    simp only [encodeElems]
    exact Enc.elemsCons (enc_encodeVal x h.1.2) (enc_encodeElems et r h.2)
theorem enc_encodeKVs : ∀ (kt vt : TType) (kvs : List (TVal × TVal)), wfKVs kt vt kvs = true →
    Enc (.kvs kvs) (encodeKVs kvs)
  | _, _, [], _ => by simp only [encodeKVs]; exact Enc.kvsNil
  | kt, vt, (k, v) :: r, h => by
    simp only [wfKVs, Bool.and_eq_true, decide_eq_true_eq] at h
    simp only [encodeKVs]
    exact Enc.kvsCons (enc_encodeVal k h.1.1.2) (enc_encodeVal v h.1.2) (enc_encodeKVs kt vt r h.2)
theorem enc_encodeFields : ∀ (fs : List (Int × TVal)), wfFields fs = true → ∀ last, Enc (.fields last fs) (encodeFields last fs)
  | [], _, last => by simp only [encodeFields]; exact Enc.fieldsNil
  | (id, .bool b) :: r, h, last => by
    simp only [wfFields, Bool.and_eq_true, decide_eq_true_eq] at h
    simp only [encodeFields]
    exact Enc.fieldsBool h.1.1 (fieldHdr_ok _ _ _) (enc_encodeFields r h.2 id)
  | (id, .i8 v) :: r, h, last => by
    simp only [wfFields, Bool.and_eq_true, decide_eq_true_eq] at h
    simp only [encodeFields]
    exact Enc.fieldsCons h.1.1 (by simp [TVal.ty]) (fieldHdr_ok _ _ _) (enc_encodeVal _ h.1.2) (enc_encodeFields r h.2 id)
  | (id, .i16 v) :: r, h, last => by
    simp only [wfFields, Bool.and_eq_true, decide_eq_true_eq] at h
    simp only [encodeFields]
    exact Enc.fieldsCons h.1.1 (by simp [TVal.ty]) (fieldHdr_ok _ _ _) (enc_encodeVal _ h.1.2) (enc_encodeFields r h.2 id)
  | (id, .i32 v) :: r, h, last => by
    simp only [wfFields, Bool.and_eq_true, decide_eq_true_eq] at h
    simp only [encodeFields]
    exact Enc.fieldsCons h.1.1 (by simp [TVal.ty]) (fieldHdr_ok _ _ _) (enc_encodeVal _ h.1.2) (enc_encodeFields r h.2 id)
  | (id, .i64 v) :: r, h, last => by
    simp only [wfFields, Bool.and_eq_true, decide_eq_true_eq] at h
    simp only [encodeFields]
    exact Enc.fieldsCons h.1.1 (by simp [TVal.ty]) (fieldHdr_ok _ _ _) (enc_encodeVal _ h.1.2) (enc_encodeFields r h.2 id)
  | (id, .double v) :: r, h, last => by
    simp only [wfFields, Bool.and_eq_true, decide_eq_true_eq] at h
    simp only [encodeFields]
    exact Enc.fieldsCons h.1.1 (by simp [TVal.ty]) (fieldHdr_ok _ _ _) (enc_encodeVal _ h.1.2) (enc_encodeFields r h.2 id)
  | (id, .binary v) :: r, h, last => by
    simp only [wfFields, Bool.and_eq_true, decide_eq_true_eq] at h
    simp only [encodeFields]
    exact Enc.fieldsCons h.1.1 (by simp [TVal.ty]) (fieldHdr_ok _ _ _) (enc_encodeVal _ h.1.2) (enc_encodeFields r h.2 id)
  | (id, .uuid v) :: r, h, last => by
    simp only [wfFields, Bool.and_eq_true, decide_eq_true_eq] at h
    simp only [encodeFields]
    exact Enc.fieldsCons h.1.1 (by simp [TVal.ty]) (fieldHdr_ok _ _ _) (enc_encodeVal _ h.1.2) (enc_encodeFields r h.2 id)
  | (id, .list et xs) :: r, h, last => by
    simp only [wfFields, Bool.and_eq_true, decide_eq_true_eq] at h
    simp only [encodeFields]
    exact Enc.fieldsCons h.1.1 (by simp [TVal.ty]) (fieldHdr_ok _ _ _) (enc_encodeVal _ h.1.2) (enc_encodeFields r h.2 id)
  | (id, .set et xs) :: r, h, last => by
    simp only [wfFields, Bool.and_eq_true, decide_eq_true_eq] at h
    simp only [encodeFields]
    exact Enc.fieldsCons h.1.1 (by simp [TVal.ty]) (fieldHdr_ok _ _ _) (enc_encodeVal _ h.1.2) (enc_encodeFields r h.2 id)
  | (id, .map kvs) :: r, h, last => by
    simp only [wfFields, Bool.and_eq_true, decide_eq_true_eq] at h
    simp only [encodeFields]
    exact Enc.fieldsCons h.1.1 (by simp [TVal.ty]) (fieldHdr_ok _ _ _) (enc_encodeVal _ h.1.2) (enc_encodeFields r h.2 id)
  | (id, .struct fs) :: r, h, last => by
    simp only [wfFields, Bool.and_eq_true, decide_eq_true_eq] at h
    simp only [encodeFields]
    exact Enc.fieldsCons h.1.1 (by simp [TVal.ty]) (fieldHdr_ok _ _ _) (enc_encodeVal _ h.1.2) (enc_encodeFields r h.2 id)
end

/-- the canonical encoding is an admitted encoding -/
theorem encodes_encode (v : TVal) (h : v.wf = true) : Encodes v (encode v) := enc_encodeVal v h

/-- **decode inverts encode** on well-formed values -/
theorem decode_encode (v : TVal) (h : v.wf = true) (r : List UInt8) :
    decode v.ty (encode v ++ r) = some (v, r) :=
  decode_of_encodes v _ r (encodes_encode v h)

end Carquet.Proofs.Thrift
