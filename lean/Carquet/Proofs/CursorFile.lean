import Carquet.Proofs.CursorBatchAbs
/-
C02 / C03, batch reader: the initial state of a batch reader over a valid file, projections by
name and by index, and the faithfulness of the dense encoding of rows.
-/
namespace Carquet.Proofs.Cursor
open Carquet.Spec.Cursor (Row)
open Carquet.Impl.ColumnReader (Fixes Reader Page)
open Carquet.Impl.BatchReader

theorem rowsOfPages_wf (maxDef : Nat) : ∀ (ps : List (Option (Page α))),
    (∀ p ∈ ps, ∃ q, p = some q ∧ PageOk maxDef q) → ∀ row ∈ rowsOfPages maxDef ps, Row.WF maxDef row := by
  intro ps
  induction ps with
  | nil => intro _ row hrow; simp [rowsOfPages] at hrow
  | cons p ps ih =>
    intro hps row hrow
    obtain ⟨q, rfl, hq⟩ := hps p (by simp)
    simp only [rowsOfPages, List.mem_append] at hrow
    rcases hrow with hrow | hrow
    · exact pageRows_wf _ _ _ _ (by rw [hq.1]; exact Nat.le_refl _) (by rw [hq.2.1]; exact Nat.le_refl _)
        hq.2.2 row hrow
    · exact ih (fun x hx => hps x (by simp [hx])) row hrow

/-- A projection the batch reader can serve: at least one column, all indices in range. -/
def ProjOk (f : File α) (proj : List Nat) : Prop := proj ≠ [] ∧ ∀ c ∈ proj, c < f.columns.length

theorem projRows_rowsOk (f : File α) (hf : FileOk f) (rg : List (ChunkData α)) (hrg : rg ∈ f.rowGroups) :
    ∀ (proj : List Nat), (∀ c ∈ proj, c < f.columns.length) → RowsOk (projCols f proj) (projRows f proj rg) := by
  intro proj
  induction proj with
  | nil => intro _; trivial
  | cons c proj ih =>
    intro hproj
    have hc : c < f.columns.length := hproj c (by simp)
    have hcol : f.columns[c]? = some f.columns[c] := List.getElem?_eq_getElem hc
    have hcr : c < rg.length := by rw [hf.shape rg hrg]; exact hc
    have hcd : rg[c]? = some rg[c] := List.getElem?_eq_getElem hcr
    simp only [projCols, projRows, List.filterMap_cons, hcol, hcd]
    exact ⟨rowsOfPages_wf _ _ (hf.chunks rg hrg c _ _ hcol hcd).1, ih (fun x hx => hproj x (by simp [hx]))⟩

/-- rows of projected column `j` are the rows of chunk `proj[j]` -/
theorem colRows_projRows (f : File α) (hf : FileOk f) (rg : List (ChunkData α)) (hrg : rg ∈ f.rowGroups) :
    ∀ (proj : List Nat) (j c : Nat), (∀ c ∈ proj, c < f.columns.length) → proj[j]? = some c →
      ∃ col cd, f.columns[c]? = some col ∧ rg[c]? = some cd ∧ colRows j (projRows f proj rg) = chunkDataRows col cd := by
  intro proj
  induction proj with
  | nil => intro j c _ h; simp at h
  | cons c0 proj ih =>
    intro j c hproj hj
    have hc0 : c0 < f.columns.length := hproj c0 (by simp)
    have hcol : f.columns[c0]? = some f.columns[c0] := List.getElem?_eq_getElem hc0
    have hcr : c0 < rg.length := by rw [hf.shape rg hrg]; exact hc0
    have hcd : rg[c0]? = some rg[c0] := List.getElem?_eq_getElem hcr
    cases j with
    | zero =>
      simp only [List.getElem?_cons_zero, Option.some.injEq] at hj
      subst hj
      exact ⟨_, _, hcol, hcd, by simp [colRows, projRows, hcol, hcd]⟩
    | succ j =>
      simp only [List.getElem?_cons_succ] at hj
      obtain ⟨col, cd, h1, h2, h3⟩ := ih j c (fun x hx => hproj x (by simp [hx])) hj
      refine ⟨col, cd, h1, h2, ?_⟩
      rw [← h3]
      simp [colRows, projRows, hcol, hcd]

/-- the batch reader right after `carquet_batch_reader_create` with a projection by index -/
def initReader (mode : IOMode) (f : File α) (bs : Nat) (proj : List Nat) : BatchReader α :=
  ⟨mode, f, (bs : Int), proj.map Int.ofNat, -1, []⟩

def initAbs (f : File α) (proj : List Nat) : AbsSt α := ⟨none, f.rowGroups.map (projRows f proj)⟩

theorem create_byIndex (mode : IOMode) (f : File α) (bs : Nat) (proj : List Nat) (hne : proj ≠ []) :
    create mode f ⟨(bs : Int), proj.map Int.ofNat, []⟩ = some (initReader mode f bs proj) := by
  have : proj.map Int.ofNat ≠ [] := by
    cases proj with
    | nil => exact absurd rfl hne
    | cons _ _ => simp
  simp [create, this, initReader]

theorem binv_init (mode : IOMode) (f : File α) (bs : Nat) (proj : List Nat) :
    BInv f proj bs (initReader mode f bs proj) (initAbs f proj) := by
  refine ⟨rfl, rfl, rfl, by simp [initReader], ?_, by simp [initAbs, initReader], by simp [initAbs, initReader]⟩
  simp only [initReader]
  omega

theorem absOk_init (f : File α) (hf : FileOk f) (proj : List Nat) (hproj : ∀ c ∈ proj, c < f.columns.length) :
    AbsOk (projCols f proj) (initAbs f proj) := by
  refine ⟨fun Ps h => by simp [initAbs] at h, ?_⟩
  intro rgRows hmem
  simp only [initAbs, List.mem_map] at hmem
  obtain ⟨rg, hrg, rfl⟩ := hmem
  exact ⟨projRows_rowsOk f hf rg hrg proj hproj, projRows_sameLen f hf proj rg hrg⟩

/-- number of `next` calls that certainly drain the file: rows of column `proj[0]` plus one per row group, plus one -/
def drainBound (f : File α) (proj : List Nat) : Nat := absMeasure (initAbs f proj)

/-- logical content of file column `c`: its chunks' rows, row group after row group -/
def fileColumnContent (f : File α) (c : Nat) : List (Option α) :=
  f.rowGroups.flatMap (fun rg =>
    match f.columns[c]?, rg[c]? with
    | some col, some cd => Spec.Cursor.content (chunkDataRows col cd)
    | _, _ => [])

theorem absContent_init (f : File α) (hf : FileOk f) (proj : List Nat) (hproj : ∀ c ∈ proj, c < f.columns.length)
    (j c : Nat) (hj : proj[j]? = some c) : absContent j (initAbs f proj) = fileColumnContent f c := by
  simp only [absContent, initAbs, Option.getD_none, colRows, List.getElem?_nil, Option.getD_none, List.map_nil,
    List.nil_append, fileColumnContent, List.flatMap_map]
  have : ∀ (rgs : List (List (ChunkData α))), (∀ rg ∈ rgs, rg ∈ f.rowGroups) →
      rgs.flatMap (fun rg => (((projRows f proj rg)[j]?).getD []).map (·.val)) =
      rgs.flatMap (fun rg => match f.columns[c]?, rg[c]? with
        | some col, some cd => Spec.Cursor.content (chunkDataRows col cd)
        | _, _ => []) := by
    intro rgs
    induction rgs with
    | nil => intro _; rfl
    | cons rg rgs ih =>
      intro hall
      obtain ⟨col, cd, h1, h2, h3⟩ := colRows_projRows f hf rg (hall rg (by simp)) proj j c hproj hj
      simp only [List.flatMap_cons, ih (fun x hx => hall x (by simp [hx])), h1, h2]
      congr 1
      simp only [colRows] at h3
      rw [h3]; rfl
  exact this f.rowGroups (fun _ h => h)

theorem content_erase (cd : ColData α) : (ColData.erase cd).content = cd.content := rfl

theorem batchCol_erase (j : Nat) (b : Batch α) : batchCol j (Batch.erase b) = batchCol j b := by
  simp only [batchCol, Batch.erase, List.getElem?_map]
  cases b.cols[j]? <;> simp [content_erase]

/-! ### projection by name -/

theorem findColumnFrom_spec (name : String) : ∀ (cols : List Column) (i j : Nat) (col : Column),
    cols[j]? = some col → col.name = name → (∀ k, k < j → ∀ c, cols[k]? = some c → c.name ≠ name) →
    findColumnFrom name cols i = ((i + j : Nat) : Int) := by
  intro cols
  induction cols with
  | nil => intro i j col h; simp at h
  | cons c cols ih =>
    intro i j col hj hname hbefore
    cases j with
    | zero =>
      simp only [List.getElem?_cons_zero, Option.some.injEq] at hj
      subst hj
      simp [findColumnFrom, hname]
    | succ j =>
      have hc : c.name ≠ name := hbefore 0 (by omega) c (by simp)
      simp only [findColumnFrom, hc, if_false]
      rw [ih (i + 1) j col (by simpa using hj) hname
        (fun k hk c' hc' => hbefore (k + 1) (by omega) c' (by simpa using hc'))]
      congr 1; omega

/-- with distinct column names, the name of column `c` resolves to `c` -/
theorem findColumn_name (f : File α) (hnodup : (f.columns.map (·.name)).Nodup) (c : Nat) (col : Column)
    (hc : f.columns[c]? = some col) : findColumn f col.name = (c : Int) := by
  unfold findColumn
  have := findColumnFrom_spec col.name f.columns 0 c col hc rfl ?_
  · simpa using this
  · intro k hk c' hc' heq
    have hclt : c < f.columns.length := by
      rcases Nat.lt_or_ge c f.columns.length with h | h
      · exact h
      · rw [List.getElem?_eq_none h] at hc; cases hc
    have hklt : k < f.columns.length := by omega
    have h1 : (f.columns.map (·.name))[k]? = some c'.name := by simp [List.getElem?_map, hc']
    have h2 : (f.columns.map (·.name))[c]? = some col.name := by simp [List.getElem?_map, hc]
    have hk' : k < (f.columns.map (·.name)).length := by simpa using hklt
    have hc'' : c < (f.columns.map (·.name)).length := by simpa using hclt
    rw [List.getElem?_eq_getElem hk'] at h1
    rw [List.getElem?_eq_getElem hc''] at h2
    have : (f.columns.map (·.name))[k] = (f.columns.map (·.name))[c] := by
      simp only [Option.some.injEq] at h1 h2
      rw [h1, h2, heq]
    have := (List.getElem_inj hnodup).mp this
    omega

/-! ### the dense encoding of rows loses nothing -/

theorem encode_faithful (maxDef : Nat) : ∀ (rows1 rows2 : List (Row α)),
    (∀ row ∈ rows1, Row.WF maxDef row) → (∀ row ∈ rows2, Row.WF maxDef row) →
    rows1.map (·.defLevel) = rows2.map (·.defLevel) → rows1.map (·.repLevel) = rows2.map (·.repLevel) →
    rows1.filterMap (·.val) = rows2.filterMap (·.val) → rows1 = rows2 := by
  intro rows1
  induction rows1 with
  | nil =>
    intro rows2 _ _ hd _ _
    cases rows2 with
    | nil => rfl
    | cons _ _ => simp at hd
  | cons a rows1 ih =>
    intro rows2 h1 h2 hd hr hv
    cases rows2 with
    | nil => simp at hd
    | cons b rows2 =>
      simp only [List.map_cons, List.cons.injEq] at hd hr
      have ha := h1 a (by simp)
      have hb := h2 b (by simp)
      have hab : a.val = b.val ∧ rows1.filterMap (·.val) = rows2.filterMap (·.val) := by
        by_cases hmax : a.defLevel = maxDef
        · have hsa : a.val.isSome := ha.2.2 hmax
          have hsb : b.val.isSome := hb.2.2 (by rw [← hd.1]; exact hmax)
          cases hva : a.val with
          | none => simp [hva] at hsa
          | some va =>
            cases hvb : b.val with
            | none => simp [hvb] at hsb
            | some vb =>
              simp only [List.filterMap_cons, hva, hvb, List.cons.injEq] at hv
              exact ⟨by rw [hv.1], hv.2⟩
        · have hna : ¬ a.val.isSome := fun hs => hmax (ha.2.1 hs)
          have hnb : ¬ b.val.isSome := fun hs => hmax (by rw [hd.1]; exact hb.2.1 hs)
          cases hva : a.val with
          | some va => simp [hva] at hna
          | none =>
            cases hvb : b.val with
            | some vb => simp [hvb] at hnb
            | none =>
              simp only [List.filterMap_cons, hva, hvb] at hv
              exact ⟨rfl, hv⟩
      have hrest := ih rows2 (fun x hx => h1 x (by simp [hx])) (fun x hx => h2 x (by simp [hx])) hd.2 hr.2 hab.2
      have : a = b := by
        cases a; cases b
        simp only at hd hr hab
        simp [hd.1, hr.1, hab.1]
      rw [this, hrest]

end Carquet.Proofs.Cursor
