import Carquet.Proofs.SpecWriterFile
import Carquet.Proofs.SpecWriterRun
/-
C01, file level — stage "chunk offsets": in the file of a completed run, the chunk of row group `i`
and column `j` starts exactly at the `file_offset` (= `data_page_offset`) its metadata name and
consists of the bytes of its page records:

    file = pre ++ pagesBytes D ps ++ post,   |pre| = m.fileOffset,   8 ≤ |post|

— the shape the chunk theorems of the reader half take (C01_chunk_pages_roundtrip).  Derived from
the tiling facts of the writer (`GroupsAt` / `ChunksAt`: consecutive ranges from offset 4;
`AllGroups` / `AllChunks`: a chunk's `total_compressed_size` is the length of its pages' bytes) by
walking the zipped lists, together with everything else the run establishes about that cell
(`PageFacts` for every page, the chunk metadata's sums and physical type).
-/
namespace Carquet.Proofs.Roundtrip
open Carquet.Impl Carquet.Impl.Writer Carquet.Impl.FileReal
open Carquet.Proofs.SpecWriter Carquet.Proofs.WriterTable Carquet.Proofs.WriterPages Carquet.Proofs.WriterLayout

/-- one cell of a row group: chunk `j` of the zipped lists, with the split of the bytes -/
theorem chunk_at (o : FileReal.Oracle) (codec : Nat) :
    ∀ (cols : List Col) (ms : List ChunkMeta) (pss : List (List PageRec)) (pos : Nat) (pre post : List UInt8) (j : Nat) (c : Col),
      AllChunks (deps o) codec ms pss → ChunksAt ms pos → ChunksFor codec cols ms → GroupOf (deps o) codec cols pss →
      GroupP (goodPred o) cols pss → pre.length = pos → cols[j]? = some c →
      ∃ m ps pre' post', ms[j]? = some m ∧ pss[j]? = some ps ∧
        pre ++ groupBytes (deps o) pss ++ post = pre' ++ pagesBytes (deps o) ps ++ post' ∧
        pre'.length = m.fileOffset ∧ post.length ≤ post'.length ∧
        ChunkPages (deps o) codec m ps ∧ m.ptype = c.ptype ∧ PagesOf (deps o) codec c ps ∧ (∀ r ∈ ps, PageGood c r.src)
  | [], _, _, _, _, _, j, c, _, _, _, _, _, _, hc => by simp at hc
  | _ :: _, [], _, _, _, _, _, _, _, _, hfor, _, _, _, _ => by simp [ChunksFor] at hfor
  | _ :: _, _ :: _, [], _, _, _, _, _, hall, _, _, _, _, _, _ => by simp [AllChunks] at hall
  | c0 :: cs, m :: ms, ps :: pss, pos, pre, post, j, c, hall, hat, hfor, hof, hgood, hpre, hc => by
    cases j with
    | zero =>
      simp only [List.getElem?_cons_zero, Option.some.injEq] at hc
      subst hc
      refine ⟨m, ps, pre, groupBytes (deps o) pss ++ post, rfl, rfl, ?_, ?_, ?_, hall.1, hfor.1.1, hof.1, hgood.1⟩
      · rw [groupBytes_cons]; simp [List.append_assoc]
      · rw [hpre]; exact hat.1.symm
      · simp
    | succ k =>
      simp only [List.getElem?_cons_succ] at hc
      obtain ⟨m', ps', pre', post', h1, h2, h3, h4, h5, h6⟩ :=
        chunk_at o codec cs ms pss (pos + m.totalCompressed) (pre ++ pagesBytes (deps o) ps) post k c hall.2 hat.2 hfor.2 hof.2
          hgood.2 (by simp [hpre, hall.1.2.1]) hc
      refine ⟨m', ps', pre', post', by simpa using h1, by simpa using h2, ?_, h4, h5, h6⟩
      rw [← h3, groupBytes_cons]; simp [List.append_assoc]

/-- one row group: group `i` of the zipped lists, with the split of the bytes -/
theorem group_at (D : Deps) (codec : Nat) :
    ∀ (gms : List RgMeta) (gs : List (List (List PageRec))) (pos : Nat) (pre post : List UInt8) (i : Nat) (gm : RgMeta),
      AllGroups D codec gms gs → GroupsAt gms pos → pre.length = pos → gms[i]? = some gm →
      ∃ g pre' post', gs[i]? = some g ∧ pre ++ dataBytes D gs ++ post = pre' ++ groupBytes D g ++ post' ∧
        post.length ≤ post'.length ∧ AllChunks D codec gm.chunks g ∧ ChunksAt gm.chunks pre'.length
  | [], _, _, _, _, _, _, _, _, _, hg => by simp at hg
  | _ :: _, [], _, _, _, _, _, hall, _, _, _ => by simp [AllGroups] at hall
  | gm0 :: gms, g :: gs, pos, pre, post, i, gm, hall, hat, hpre, hg => by
    obtain ⟨_, a2, a3, _, hat'⟩ := hat
    cases i with
    | zero =>
      simp only [List.getElem?_cons_zero, Option.some.injEq] at hg
      subst hg
      refine ⟨g, pre, dataBytes D gs ++ post, rfl, ?_, by simp, hall.1, by rw [hpre]; exact a2⟩
      rw [dataBytes_cons]; simp [List.append_assoc]
    | succ k =>
      simp only [List.getElem?_cons_succ] at hg
      have hsz := chunksSize_eq_groupBytes D codec gm0.chunks g hall.1
      obtain ⟨g', pre', post', h1, h2, h3, h4⟩ :=
        group_at D codec gms gs (pos + gm0.totalCompressed) (pre ++ groupBytes D g) post k gm hall.2 hat'
          (by simp [hpre, a3, hsz]) hg
      refine ⟨g', pre', post', by simpa using h1, ?_, h3, h4⟩
      rw [← h2, dataBytes_cons]; simp [List.append_assoc]

theorem mem_of_getElem? {α : Type} {l : List α} {i : Nat} {x : α} (h : l[i]? = some x) : x ∈ l :=
  List.mem_of_getElem? h

/-- everything a completed run establishes about the chunk of row group `i`, column `j` -/
structure Cell (o : FileReal.Oracle) (codec : Nat) (file : List UInt8) (c : Col) (m : ChunkMeta) (ps : List PageRec) : Prop where
  split : ∃ pre post, file = pre ++ pagesBytes (deps o) ps ++ post ∧ pre.length = m.fileOffset ∧ 8 ≤ post.length
  pages : ChunkPages (deps o) codec m ps
  ptype : m.ptype = c.ptype
  facts : ∀ r ∈ ps, PageFacts o codec c r

/-- **chunk offsets**: for every row group `i` of the footer and every column `j` of the schema
there are the chunk's metadata `m` (entry `j` of the row group's chunk list), its page records `ps`
(entry `i`, `j` of the ghost page lists) and a split of the file at `m.fileOffset` -/
theorem cell_of_run (o : FileReal.Oracle) (codec : Nat) (cols : List Col) (ops : List Op) (createdBy : String)
    (file : List UInt8) (md : FooterData) (gs : List (List (List PageRec)))
    (hf : RunFacts (deps o) (goodPred o) cols codec createdBy ops file md gs) (hsm : RunSmall md gs)
    (i j : Nat) (gm : RgMeta) (c : Col) (hg : md.rowGroups[i]? = some gm) (hc : cols[j]? = some c) :
    ∃ g m ps, gs[i]? = some g ∧ gm.chunks[j]? = some m ∧ g[j]? = some ps ∧ Cell o codec file c m ps := by
  obtain ⟨g, pre1, post1, g1, g2, g3, g4, g5⟩ :=
    group_at (deps o) codec md.rowGroups gs 4 magic ((deps o).footer md ++ le32 ((deps o).footer md).length ++ magic) i gm
      hf.allGroups hf.groupsAt rfl hg
  have hgmem : g ∈ gs := mem_of_getElem? g1
  have hgmmem : gm ∈ md.rowGroups := mem_of_getElem? hg
  obtain ⟨m, ps, pre2, post2, c1, c2, c3, c4, c5, c6, c7, c8, c9⟩ :=
    chunk_at o codec cols gm.chunks g pre1.length pre1 post1 j c g4 g5 (hf.chunksFor gm hgmmem) (hf.groupOf g hgmem)
      (hf.groupP g hgmem) rfl hc
  have hpsmem : ps ∈ g := mem_of_getElem? c2
  refine ⟨g, m, ps, g1, c1, c2, ⟨⟨pre2, post2, ?_, c4, ?_⟩, c6, c7, ?_⟩⟩
  · rw [hf.file_eq, ← c3, ← g2]; simp [List.append_assoc]
  · have : 8 ≤ ((deps o).footer md ++ le32 ((deps o).footer md).length ++ magic).length := by
      simp only [List.length_append, le32, magic, List.length_cons, List.length_nil]; omega
    omega
  · intro r hr
    exact ⟨c8 r hr, c6.2.2.2.2 r hr, c9 r hr, hsm.pages g hgmem ps hpsmem r hr⟩

end Carquet.Proofs.Roundtrip
