import Carquet.Proofs.ReaderPageRoundtrip
import Carquet.Proofs.ReaderHeaderReads
import Carquet.Proofs.ReaderModes
import Carquet.Proofs.ReaderCrc
import Carquet.Properties.C09.Snappy
import Carquet.Properties.C09.Lz4
import Carquet.Proofs.ReaderSteps
import Carquet.Proofs.CursorRun
import Carquet.Proofs.WriterPages
import Carquet.Proofs.WriterTable
/-
The reader half of the write-then-read round trip at page and chunk level: a page as the writer
lays it out in a file (`PageRec.bytes`: hand-written header ++ stored body) is loaded by
`load_next_page` — in every mode — as exactly the levels and dense values of the page builder
content it was made from; and the pages of a chunk, one after the other, come out of the page
iteration in order (helper lemmas for C01_chunk_pages_roundtrip).
-/
namespace Carquet.Proofs.ReaderChunkRoundtrip
open Carquet.Impl Carquet.Impl.Reader
open Carquet.Proofs.ReaderPageRoundtrip Carquet.Proofs.ReaderHeaderReads Carquet.Proofs.ReaderModes
open Carquet.Proofs.ReaderBounds Carquet.Proofs.ReaderPlain

abbrev D : Writer.Deps := FileReal.deps []

/-- the header the page writer puts in front of the stored body of record `r` -/
def hdrBytes (r : Writer.PageRec) : Reader.Bytes :=
  FileReal.pageHeader r.body.length r.comp.length (FileReal.crc32 r.comp) r.rows r.stats

theorem recBytes_eq (r : Writer.PageRec) : Writer.PageRec.bytes D r = hdrBytes r ++ r.comp := rfl

/-- What the reader needs of a page record of column `c` written with `codec` (all of it is
established by the writer theorems C05_pages_chain / C05_written_table, plus size bounds that
hold for every page that fits the C types). -/
structure RecOk (c : Writer.Col) (codec : Nat) (r : Writer.PageRec) : Prop where
  codecOk : codec = 0 ∨ codec = 1 ∨ codec = 5 ∨ codec = 7
  comp : FileReal.compress [] codec r.body = some r.comp
  body : r.body = Writer.pageBody D c r.src
  rows : r.rows = r.src.numValues
  shape : PageShape c r.src
  fits : HdrFits r.body.length r.comp.length (FileReal.crc32 r.comp) r.rows r.stats
  hdrShort : (hdrBytes r).length ≤ 256
  pos : 0 < r.rows

/-- The part of `RecOk` that does not depend on how the stored body was made: the record's body is
the page body of its content, the content has the page builder's shape, the header fields fit and
the header lies inside the first 256-byte window. -/
structure RecShape (c : Writer.Col) (r : Writer.PageRec) : Prop where
  body : r.body = Writer.pageBody D c r.src
  rows : r.rows = r.src.numValues
  shape : PageShape c r.src
  fits : HdrFits r.body.length r.comp.length (FileReal.crc32 r.comp) r.rows r.stats
  hdrShort : (hdrBytes r).length ≤ 256
  pos : 0 < r.rows

/-- The general form of `RecOk`, for ANY codec tag (GZIP and ZSTD included) and library behaviour
`L`: instead of "the stored body is `compress_data` of the body for one of the byte-exact codecs" it
asks for what the reader needs of it — the loaders' decompression step (`pageData`, with the
header's `uncompressed_page_size`) turns the stored body back into the body. -/
structure RecOkL (L : Libs) (c : Writer.Col) (codec : Nat) (r : Writer.PageRec) : Prop extends RecShape c r where
  stored : pageData L (codec : Int) r.comp r.body.length = .ok r.body

theorem RecOk.toShape {c : Writer.Col} {codec : Nat} {r : Writer.PageRec} (h : RecOk c codec r) : RecShape c r :=
  ⟨h.body, h.rows, h.shape, h.fits, h.hdrShort, h.pos⟩

/-- the decoded page a record stands for -/
def decodedOf (c : Writer.Col) (r : Writer.PageRec) : Decoded :=
  ⟨if c.maxDef > 0 then r.src.defs else List.replicate r.src.numValues 0,
   if c.maxRep > 0 then r.src.reps else List.replicate r.src.numValues 0, r.src.values⟩

theorem asI32_mod (x : Nat) (h : x < 2 ^ 32) : ((FileReal.asI32 x) % 4294967296).toNat = x := by
  unfold FileReal.asI32
  split <;> omega

theorem crc32_lt (x : Reader.Bytes) : FileReal.crc32 x < 2 ^ 32 := by
  unfold FileReal.crc32; exact (Crc32.crc32 x).isLt

/-- the header of a writer page parses to its fields from any window that contains it -/
theorem header_parse (r : Writer.PageRec) (c : Writer.Col) (hr : RecShape c r) (rest : Reader.Bytes) :
    parseWindow (hdrBytes r ++ rest) =
      .ok (⟨0, r.body.length, r.comp.length, some (FileReal.asI32 (FileReal.crc32 r.comp)), r.rows, 0⟩, (hdrBytes r).length) := by
  unfold parseWindow hdrBytes
  rw [parsePageHeaderC_pageWriter _ _ _ _ _ hr.fits rest]

theorem slice_append_mid (pre mid post : Reader.Bytes) : slice (pre ++ mid ++ post) pre.length (mid.length + post.length) = mid ++ post := by
  unfold slice
  rw [List.append_assoc, List.drop_left' rfl, List.take_of_length_le (by simp)]

/-- reading the header of a writer page at its offset, in any mode -/
theorem loadHeader_writerPage (mode : Mode) (pre post : Reader.Bytes) (c : Writer.Col) (r : Writer.PageRec)
    (hr : RecShape c r) (hpost : 8 ≤ post.length) :
    (loadHeader mode (pre ++ (hdrBytes r ++ r.comp) ++ post) (pre.length : Int)).result =
      .ok (⟨0, r.body.length, r.comp.length, some (FileReal.asI32 (FileReal.crc32 r.comp)), r.rows, 0⟩, (hdrBytes r).length) := by
  have hlen : (pre ++ (hdrBytes r ++ r.comp) ++ post).length = pre.length + ((hdrBytes r).length + r.comp.length) + post.length := by
    simp [List.length_append]; omega
  unfold loadHeader
  split
  · -- mapped: the window is everything behind the offset
    rw [if_neg (by rw [hlen]; omega)]
    simp only [Int.toNat_natCast]
    rw [if_neg (by rw [hlen]; omega)]
    simp only
    have hw : slice (pre ++ (hdrBytes r ++ r.comp) ++ post) pre.length
        ((pre ++ (hdrBytes r ++ r.comp) ++ post).length - pre.length) = hdrBytes r ++ (r.comp ++ post) := by
      have := slice_append_mid pre (hdrBytes r ++ r.comp) post
      rw [hlen]
      have e : pre.length + ((hdrBytes r).length + r.comp.length) + post.length - pre.length =
          (hdrBytes r ++ r.comp).length + post.length := by simp [List.length_append]; omega
      rw [e, this, List.append_assoc]
    rw [hw, header_parse r c hr]
  · -- fread: the first window of 256 bytes already holds the header
    rw [if_neg (by omega)]
    simp only [Int.toNat_natCast]
    have hw : slice (pre ++ (hdrBytes r ++ r.comp) ++ post) pre.length 256 =
        hdrBytes r ++ (r.comp ++ post).take (256 - (hdrBytes r).length) := by
      unfold slice
      rw [List.append_assoc, List.drop_left' rfl, List.append_assoc, List.take_append]
      rw [List.take_of_length_le hr.hdrShort]
    have hl := slice_length (pre ++ (hdrBytes r ++ r.comp) ++ post) pre.length 256
    show (freadHeaderLoop _ _ (17 + 1) 256).result = _
    unfold freadHeaderLoop
    rw [if_neg (by rw [hl, hlen]; omega)]
    have hp := header_parse r c hr ((r.comp ++ post).take (256 - (hdrBytes r).length))
    unfold parseWindow at hp
    rw [hw]
    split
    · rename_i r' hr'
      rw [hr'] at hp
      simp only [Except.ok.injEq] at hp
      rw [hp]
    · rename_i e he
      rw [he] at hp
      cases hp

/-- what `compress_data` makes of a page body (codecs UNCOMPRESSED, SNAPPY, LZ4, LZ4_RAW; bodies
below 2^32 bytes), the loaders' `pageData` step turns back into the body -/
theorem stored_body_roundtrip (L : Libs) (codec : Nat) (body comp : Reader.Bytes)
    (hc : codec = 0 ∨ codec = 1 ∨ codec = 5 ∨ codec = 7) (hsz : body.length < 2 ^ 32)
    (hcomp : FileReal.compress [] codec body = some comp) :
    pageData L (codec : Int) comp body.length = .ok body := by
  rcases hc with h | h | h | h
  · subst h
    simp only [FileReal.compress, Option.some.injEq] at hcomp
    subst hcomp
    simp [pageData]
  · subst h
    simp only [FileReal.compress, Option.some.injEq] at hcomp
    subst hcomp
    simp only [pageData, decompressPage, Carquet.Properties.C09.C09_snappy_roundtrip body hsz, mapSnappy]
    simp
  · subst h
    simp only [FileReal.compress] at hcomp
    split at hcomp
    · rename_i out hout
      simp only [Option.some.injEq] at hcomp
      subst hcomp
      simp only [pageData, decompressPage, Carquet.Properties.C09.C09_lz4_roundtrip body _ _ hout, mapLz4]
      simp
    · cases hcomp
  · subst h
    simp only [FileReal.compress] at hcomp
    split at hcomp
    · rename_i out hout
      simp only [Option.some.injEq] at hcomp
      subst hcomp
      simp only [pageData, decompressPage, Carquet.Properties.C09.C09_lz4_roundtrip body _ _ hout, mapLz4]
      simp
    · cases hcomp

theorem colValid_of_shape (c : Writer.Col) (cm : ThriftParquet.ColumnMetaData) (p : Writer.Page) (h : PageShape c p) :
    ColValid (colOf c cm) := by
  intro h7
  have hv := h.vals
  unfold ValsOk at hv
  cases hp : c.ptype <;> simp only [colOf, hp, Writer.PType.code] at h7 <;> try omega
  rw [hp] at hv
  simp only [colOf]
  exact_mod_cast hv.1

/-- the header of record `r` as the loaders read it -/
def hdrOf (r : Writer.PageRec) : ThriftParquetReq.PageHdr × Nat :=
  (⟨0, r.body.length, r.comp.length, some (FileReal.asI32 (FileReal.crc32 r.comp)), r.rows, 0⟩, (hdrBytes r).length)

/-- the rest of the load of a writer page, in any mode: the page builder's content comes back -/
theorem finish_writerPage (L : Libs) (verify : Bool) (mode : Mode) (pre post : Reader.Bytes) (c : Writer.Col)
    (cm : ThriftParquet.ColumnMetaData) (codec : Nat) (r : Writer.PageRec) (st : PState)
    (hr : RecOkL L c codec r) (hcodec : cm.codec = (codec : Int))
    (hoff : st.dataStart + st.currentPage = (pre.length : Int)) (hrem : (r.rows : Int) ≤ st.valuesRemaining)
    (hsz : (pre ++ (hdrBytes r ++ r.comp) ++ post).length < 2 ^ 64) :
    (okOf (finishDataPage Fixes.all L verify mode (pre ++ (hdrBytes r ++ r.comp) ++ post) (colOf c cm) st (hdrOf r)).result).map proj =
      some (decodedOf c r, (hdrBytes r).length, r.comp.length) := by
  have hlen : (pre ++ (hdrBytes r ++ r.comp) ++ post).length = pre.length + ((hdrBytes r).length + r.comp.length) + post.length := by
    simp [List.length_append]; omega
  rw [finishDataPage_ref Fixes.all rfl L verify mode _ (colOf c cm) st (hdrOf r) (colValid_of_shape c cm r.src hr.shape) hsz
    (by intro _; rw [hoff]; simp only [hdrOf, Int.toNat_natCast]; rw [hlen]; omega)]
  have hbody : slice (pre ++ (hdrBytes r ++ r.comp) ++ post) ((st.dataStart + st.currentPage).toNat + (hdrOf r).2)
      (hdrOf r).1.compressed.toNat = r.comp := by
    rw [hoff]
    simp only [hdrOf, Int.toNat_natCast]
    unfold slice
    have : pre ++ (hdrBytes r ++ r.comp) ++ post = (pre ++ hdrBytes r) ++ (r.comp ++ post) := by simp [List.append_assoc]
    rw [this, List.drop_left' (by simp), List.take_left' rfl]
  have hcrc : crcBad verify (hdrOf r).1.crc r.comp = false := by
    apply Carquet.Proofs.ReaderCrc.crcBad_clean
    rw [asI32_mod _ (crc32_lt _)]; rfl
  have hfits := hr.fits
  have hpd : pageData L (colOf c cm).cm.codec r.comp (hdrOf r).1.uncompressed.toNat = .ok r.body := by
    simp only [colOf, hcodec, hdrOf, Int.toNat_natCast]
    exact hr.stored
  have hdec : readDataPageV1 Fixes.all (colOf c cm) st.dict r.body (hdrOf r).1.word0.toNat (hdrOf r).1.word4 = .ok (decodedOf c r) := by
    simp only [hdrOf, Int.toNat_natCast]
    rw [hr.body, hr.rows]
    exact readDataPageV1_pageBody c r.src hr.shape cm st.dict
  unfold refFinish
  rw [hbody, hcrc]
  have h3 : ¬ (hdrOf r).1.type = 3 := by simp [hdrOf]
  have h0 : ¬ (hdrOf r).1.type ≠ 0 := by simp [hdrOf]
  have hsv : ¬ ((!sizesValid (hdrOf r).1 || decide ((hdrOf r).1.word0 < 0) || decide ((hdrOf r).1.word0 > st.valuesRemaining)) = true) := by
    have a1 : sizesValid (hdrOf r).1 = true := by simp [hdrOf, sizesValid]
    have a2 : decide ((hdrOf r).1.word0 < 0) = false := by
      apply decide_eq_false
      show ¬ ((r.rows : Int) < 0)
      omega
    have a3 : decide ((hdrOf r).1.word0 > st.valuesRemaining) = false := by
      apply decide_eq_false
      show ¬ ((r.rows : Int) > st.valuesRemaining)
      omega
    rw [a1, a2, a3]; decide
  have hne : ¬ (hdrOf r).1.word0 = 0 := by
    show ¬ ((r.rows : Int) = 0)
    have := hr.pos
    omega
  rw [if_neg h3, if_neg h0, if_neg hsv]
  simp only [Bool.false_eq_true, if_false]
  rw [if_neg hne]
  unfold stdPath
  rw [hpd]
  simp only
  rw [hdec]
  rfl

/-- **one page**, general form (any codec tag, `RecOkL`): `load_next_page` on a writer page, in any mode, in any
state that points at it -/
theorem loadPage_writerPageL (L : Libs) (verify : Bool) (mode : Mode) (pre post : Reader.Bytes) (c : Writer.Col)
    (cm : ThriftParquet.ColumnMetaData) (codec : Nat) (r : Writer.PageRec) (st : PState)
    (hr : RecOkL L c codec r) (hcodec : cm.codec = (codec : Int)) (hnd : cm.dictionaryPageOffset = none)
    (hoff : st.dataStart + st.currentPage = (pre.length : Int)) (hrem : (r.rows : Int) ≤ st.valuesRemaining)
    (hpost : 8 ≤ post.length) (hsz : (pre ++ (hdrBytes r ++ r.comp) ++ post).length < 2 ^ 64) :
    (okOf (loadPage Fixes.all L verify mode (pre ++ (hdrBytes r ++ r.comp) ++ post) (colOf c cm) st).result).map proj =
      some (decodedOf c r, (hdrBytes r).length, r.comp.length) ∧
    stateAfterLoad Fixes.all L verify mode (pre ++ (hdrBytes r ++ r.comp) ++ post) (colOf c cm) st = st := by
  have hds : dictStep Fixes.all L verify mode (pre ++ (hdrBytes r ++ r.comp) ++ post) (colOf c cm) st = Load.pure (.ok st) := by
    unfold dictStep
    simp only [colOf, hnd]
  have hh := loadHeader_writerPage mode pre post c r hr.toRecShape hpost
  have hinl : inlineDictDue st (hdrOf r).1 = false := by simp [inlineDictDue, hdrOf]
  have hprep : (prepStage Fixes.all L verify mode (pre ++ (hdrBytes r ++ r.comp) ++ post) (colOf c cm) st).result = .ok (st, hdrOf r) := by
    unfold prepStage
    rw [andThen_result, hoff, hh]
    simp only
    have : inlineDictDue st (⟨0, r.body.length, r.comp.length, some (FileReal.asI32 (FileReal.crc32 r.comp)), r.rows, 0⟩ : ThriftParquetReq.PageHdr) = false := hinl
    rw [this]
    rfl
  constructor
  · unfold loadPage
    rw [andThen_result, hds]
    simp only [Load.pure]
    unfold loadDataPage
    rw [andThen_result, hprep]
    simp only
    exact finish_writerPage L verify mode pre post c cm codec r st hr hcodec hoff hrem hsz
  · unfold stateAfterLoad
    rw [hds]
    simp only [Load.pure]
    unfold stateAfterPrep
    rw [hoff, hh]
    simp only
    have : inlineDictDue st (⟨0, r.body.length, r.comp.length, some (FileReal.asI32 (FileReal.crc32 r.comp)), r.rows, 0⟩ : ThriftParquetReq.PageHdr) = false := hinl
    rw [this]
    rfl

/-- `RecOk` (one of the byte-exact codecs) is an instance of the general form, for every library behaviour -/
theorem RecOk.toL (L : Libs) {c : Writer.Col} {codec : Nat} {r : Writer.PageRec} (h : RecOk c codec r) : RecOkL L c codec r :=
  { toRecShape := h.toShape,
    stored := stored_body_roundtrip L codec r.body r.comp h.codecOk (by have := h.fits.1; omega) h.comp }

/-- **one page**: `load_next_page` on a writer page, in any mode, in any state that points at it -/
theorem loadPage_writerPage (L : Libs) (verify : Bool) (mode : Mode) (pre post : Reader.Bytes) (c : Writer.Col)
    (cm : ThriftParquet.ColumnMetaData) (codec : Nat) (r : Writer.PageRec) (st : PState)
    (hr : RecOk c codec r) (hcodec : cm.codec = (codec : Int)) (hnd : cm.dictionaryPageOffset = none)
    (hoff : st.dataStart + st.currentPage = (pre.length : Int)) (hrem : (r.rows : Int) ≤ st.valuesRemaining)
    (hpost : 8 ≤ post.length) (hsz : (pre ++ (hdrBytes r ++ r.comp) ++ post).length < 2 ^ 64) :
    (okOf (loadPage Fixes.all L verify mode (pre ++ (hdrBytes r ++ r.comp) ++ post) (colOf c cm) st).result).map proj =
      some (decodedOf c r, (hdrBytes r).length, r.comp.length) ∧
    stateAfterLoad Fixes.all L verify mode (pre ++ (hdrBytes r ++ r.comp) ++ post) (colOf c cm) st = st :=
  loadPage_writerPageL L verify mode pre post c cm codec r st (hr.toL L) hcodec hnd hoff hrem hpost hsz

/-! ### the pages of a chunk, one after the other -/

/-- the page the column reader model (`Impl.ColumnReader.Page`) receives for a record -/
def cursorPage (c : Writer.Col) (r : Writer.PageRec) : ColumnReader.Page Reader.Bytes :=
  ⟨(decodedOf c r).defs, (decodedOf c r).reps, (decodedOf c r).vals⟩

def chunkBytes (ps : List Writer.PageRec) : Reader.Bytes := (ps.map (fun r => hdrBytes r ++ r.comp)).flatten

def sumRows (ps : List Writer.PageRec) : Nat := (ps.map (·.rows)).sum

theorem decodedOf_rowsS (c : Writer.Col) (r : Writer.PageRec) (hr : RecShape c r) :
    (decodedOf c r).defs.length = r.rows := by
  unfold decodedOf
  simp only
  split
  · rename_i hd
    rw [(hr.shape.defsLen hd).1, hr.rows]
  · rw [List.length_replicate, hr.rows]

theorem ok_of_proj {r : Except Err PageLoaded} {d : Decoded} {h c : Nat} (hp : (okOf r).map proj = some (d, h, c)) :
    ∃ p, r = .ok p ∧ p.page = d ∧ p.headerSize = h ∧ p.compressedSize = c := by
  cases r with
  | error e => cases hp
  | ok p =>
    simp only [okOf, Option.map, proj, Option.some.injEq, Prod.mk.injEq] at hp
    exact ⟨p, rfl, hp.1, hp.2.1, hp.2.2⟩

/-- **the pages of a chunk**: starting at the chunk's first page with as many values remaining as
the pages hold, the page iteration delivers exactly the writer's pages, in order, in any mode -/
theorem chunkPages_writer (L : Libs) (verify : Bool) (mode : Mode) (c : Writer.Col) (cm : ThriftParquet.ColumnMetaData)
    (codec : Nat) (hcodec : cm.codec = (codec : Int)) (hnd : cm.dictionaryPageOffset = none) :
    ∀ (ps : List Writer.PageRec) (pre post : Reader.Bytes) (st : PState) (fuel : Nat),
      (∀ r ∈ ps, RecOkL L c codec r) → ps.length < fuel → 8 ≤ post.length →
      (pre ++ chunkBytes ps ++ post).length < 2 ^ 64 →
      st.dataStart + st.currentPage = (pre.length : Int) → st.valuesRemaining = (sumRows ps : Int) →
      chunkPages Fixes.all L verify mode (pre ++ chunkBytes ps ++ post) (colOf c cm) fuel st =
        ps.map (fun r => some (cursorPage c r)) := by
  intro ps
  induction ps with
  | nil =>
    intro pre post st fuel _ hf _ _ _ hrem
    cases fuel with
    | zero => omega
    | succ fuel =>
      unfold chunkPages
      rw [if_pos (by rw [hrem]; simp [sumRows])]
      rfl
  | cons r rest ih =>
    intro pre post st fuel hall hf hpost hsz hoff hrem
    cases fuel with
    | zero => omega
    | succ fuel =>
      have hr := hall r (by simp)
      have hbytes : pre ++ chunkBytes (r :: rest) ++ post = pre ++ (hdrBytes r ++ r.comp) ++ (chunkBytes rest ++ post) := by
        simp [chunkBytes, List.append_assoc]
      have hsum : sumRows (r :: rest) = r.rows + sumRows rest := by simp [sumRows]
      rw [hbytes] at hsz ⊢
      have hlp := loadPage_writerPageL L verify mode pre (chunkBytes rest ++ post) c cm codec r st hr hcodec hnd hoff
        (by rw [hrem, hsum]; omega) (by simp only [List.length_append]; omega) hsz
      obtain ⟨p, hp, hpage, hhs, hcs⟩ := ok_of_proj hlp.1
      unfold chunkPages
      rw [if_neg (by rw [hrem, hsum]; have := hr.pos; omega)]
      rw [hp]
      simp only [List.map_cons]
      congr 1
      · rw [hpage]; rfl
      · rw [hlp.2]
        have hnext : pre ++ (hdrBytes r ++ r.comp) ++ (chunkBytes rest ++ post) =
            (pre ++ (hdrBytes r ++ r.comp)) ++ chunkBytes rest ++ post := by simp [List.append_assoc]
        rw [hnext]
        apply ih (pre ++ (hdrBytes r ++ r.comp)) post (stepOver st p) fuel
          (fun x hx => hall x (List.mem_cons_of_mem _ hx)) (by simp at hf; omega) hpost (by rw [← hnext]; exact hsz)
        · unfold stepOver; simp only
          rw [hhs, hcs]; simp only [List.length_append]; omega
        · unfold stepOver; simp only
          rw [hpage, decodedOf_rowsS c r hr.toRecShape, hrem, hsum]; omega

/-! ### the chunk as the column reader consumes it -/

theorem hdrBytes_pos (c : Writer.Col) (r : Writer.PageRec) (hr : RecShape c r) : 1 ≤ (hdrBytes r).length := by
  have h := header_parse r c hr []
  unfold parseWindow at h
  split at h
  · cases h
  · rename_i r' hr'
    simp only [Except.ok.injEq] at h
    have := Carquet.Proofs.ReaderSteps.parsePageHeaderC_size _ r' hr'
    rw [h] at this
    exact this

theorem chunkBytes_length_ge (c : Writer.Col) : ∀ (ps : List Writer.PageRec), (∀ r ∈ ps, RecShape c r) →
    ps.length ≤ (chunkBytes ps).length := by
  intro ps
  induction ps with
  | nil => intro _; simp
  | cons r rest ih =>
    intro h
    have h1 := hdrBytes_pos c r (h r (by simp))
    have h2 := ih (fun x hx => h x (List.mem_cons_of_mem _ hx))
    simp only [chunkBytes, List.map_cons, List.flatten_cons, List.length_append, List.length_cons] at h2 ⊢
    omega

/-- **the chunk**, general form (any codec tag, `RecOkL`): for a chunk whose metadata point at the writer's
pages, the chunk description the column reader model consumes (`chunkOf`) has exactly the writer's pages, in any mode -/
theorem chunkOf_writerL (L : Libs) (verify : Bool) (mode : Mode) (c : Writer.Col) (cm : ThriftParquet.ColumnMetaData)
    (codec : Nat) (ps : List Writer.PageRec) (pre post : Reader.Bytes)
    (hcodec : cm.codec = (codec : Int)) (hnd : cm.dictionaryPageOffset = none)
    (hoff : cm.dataPageOffset = (pre.length : Int)) (hnv : cm.numValues = (sumRows ps : Int))
    (hall : ∀ r ∈ ps, RecOkL L c codec r) (hpost : 8 ≤ post.length) (hsz : (pre ++ chunkBytes ps ++ post).length < 2 ^ 64) :
    (chunkOf Fixes.all L verify mode (pre ++ chunkBytes ps ++ post) (colOf c cm)).pages = ps.map (fun r => some (cursorPage c r)) ∧
    (chunkOf Fixes.all L verify mode (pre ++ chunkBytes ps ++ post) (colOf c cm)).numValues = (sumRows ps : Int) ∧
    (chunkOf Fixes.all L verify mode (pre ++ chunkBytes ps ++ post) (colOf c cm)).maxDef = c.maxDef := by
  refine ⟨?_, hnv, rfl⟩
  unfold chunkOf
  simp only
  apply chunkPages_writer L verify mode c cm codec hcodec hnd ps pre post (PState.init (colOf c cm)) _ hall
  · have := chunkBytes_length_ge c ps (fun r hr => (hall r hr).toRecShape)
    simp only [List.length_append]; omega
  · exact hpost
  · exact hsz
  · simp only [PState.init, colOf, hoff]; omega
  · simp only [PState.init, colOf, hnv]

/-- **the chunk**: for a chunk whose metadata point at the writer's pages, the chunk description
the column reader model consumes (`chunkOf`) has exactly the writer's pages, in any mode -/
theorem chunkOf_writer (L : Libs) (verify : Bool) (mode : Mode) (c : Writer.Col) (cm : ThriftParquet.ColumnMetaData)
    (codec : Nat) (ps : List Writer.PageRec) (pre post : Reader.Bytes)
    (hcodec : cm.codec = (codec : Int)) (hnd : cm.dictionaryPageOffset = none)
    (hoff : cm.dataPageOffset = (pre.length : Int)) (hnv : cm.numValues = (sumRows ps : Int))
    (hall : ∀ r ∈ ps, RecOk c codec r) (hpost : 8 ≤ post.length) (hsz : (pre ++ chunkBytes ps ++ post).length < 2 ^ 64) :
    (chunkOf Fixes.all L verify mode (pre ++ chunkBytes ps ++ post) (colOf c cm)).pages = ps.map (fun r => some (cursorPage c r)) ∧
    (chunkOf Fixes.all L verify mode (pre ++ chunkBytes ps ++ post) (colOf c cm)).numValues = (sumRows ps : Int) ∧
    (chunkOf Fixes.all L verify mode (pre ++ chunkBytes ps ++ post) (colOf c cm)).maxDef = c.maxDef :=
  chunkOf_writerL L verify mode c cm codec ps pre post hcodec hnd hoff hnv (fun r hr => (hall r hr).toL L) hpost hsz

open Carquet.Impl.ColumnReader in
/-- the writer's pages are well-formed pages for the column reader model -/
theorem cursorPage_okS (c : Writer.Col) (r : Writer.PageRec) (hr : RecShape c r) :
    Carquet.Proofs.Cursor.PageOk c.maxDef (cursorPage c r) := by
  have hrows := decodedOf_rowsS c r hr
  have hsh := hr.shape
  have hpos := hr.pos
  have hrl : (if c.maxRep > 0 then r.src.reps else List.replicate r.src.numValues 0).length = r.src.numValues := by
    by_cases hm : c.maxRep > 0
    · simp only [hm, if_true]; exact (hsh.repsLen hm).1
    · simp only [hm, if_false, List.length_replicate]
  unfold Carquet.Proofs.Cursor.PageOk cursorPage
  simp only
  by_cases hd : c.maxDef > 0
  · have hd1 : c.maxDef = 1 := by unfold Writer.Col.maxDef at hd ⊢; split <;> simp_all
    obtain ⟨hlen, _⟩ := hsh.defsLen hd
    have hcount := hsh.count
    rw [if_pos hd] at hcount
    refine ⟨?_, ?_, ?_⟩
    · simp only [decodedOf, if_pos hd, hlen]; exact hrl
    · simp only [decodedOf, Carquet.Proofs.Cursor.nn, hd1]; exact hcount
    · intro d hdm; simp only [decodedOf, if_pos hd] at hdm; rw [hd1]; exact hsh.defs01 d hdm
  · have hd0 : c.maxDef = 0 := by omega
    have hcount := hsh.count
    rw [if_neg hd] at hcount
    refine ⟨?_, ?_, ?_⟩
    · simp only [decodedOf, if_neg hd, List.length_replicate]; exact hrl
    · simp only [decodedOf, Carquet.Proofs.Cursor.nn, hd0]
      rw [if_neg (by omega), hcount, List.countP_replicate]; simp
    · intro d hdm; simp only [decodedOf, if_neg hd, List.mem_replicate] at hdm; omega

/-! ### the rows of a written chunk -/

open Carquet.Proofs.Cursor in
/-- the logical rows the writer's pages of a chunk stand for -/
def writtenRows (c : Writer.Col) (ps : List Writer.PageRec) : List (Carquet.Spec.Cursor.Row Reader.Bytes) :=
  rowsOfPages c.maxDef (ps.map (fun r => some (cursorPage c r)))

open Carquet.Proofs.Cursor in
theorem writtenRows_cons (c : Writer.Col) (r : Writer.PageRec) (ps : List Writer.PageRec) :
    writtenRows c (r :: ps) = rowsOfPage c.maxDef (cursorPage c r) ++ writtenRows c ps := rfl

open Carquet.Proofs.Cursor in
theorem writtenRows_lengthS (c : Writer.Col) : ∀ (ps : List Writer.PageRec), (∀ r ∈ ps, RecShape c r) →
    (writtenRows c ps).length = sumRows ps := by
  intro ps
  induction ps with
  | nil => intro _; rfl
  | cons r rest ih =>
    intro h
    have hr := h r (by simp)
    have hp := cursorPage_okS c r hr
    rw [writtenRows_cons, List.length_append, ih (fun x hx => h x (List.mem_cons_of_mem _ hx))]
    unfold rowsOfPage
    rw [length_pageRows _ _ _ _ (by rw [hp.1]; exact Nat.le_refl _)]
    have := decodedOf_rowsS c r hr
    simp only [cursorPage, sumRows, List.map_cons, List.sum_cons] at this ⊢
    omega

open Carquet.Proofs.Cursor in
/-- definition levels of the rows = the page builders' levels, page after page (all zero for a
REQUIRED column) -/
theorem writtenRows_defsS (c : Writer.Col) : ∀ (ps : List Writer.PageRec), (∀ r ∈ ps, RecShape c r) →
    (writtenRows c ps).map (·.defLevel) =
      (if c.maxDef > 0 then (ps.map (·.src.defs)).flatten else List.replicate (sumRows ps) 0) := by
  intro ps
  induction ps with
  | nil => intro _; simp [writtenRows, rowsOfPages, sumRows]
  | cons r rest ih =>
    intro h
    have hr := h r (by simp)
    have hp := cursorPage_okS c r hr
    rw [writtenRows_cons, List.map_append, ih (fun x hx => h x (List.mem_cons_of_mem _ hx))]
    unfold rowsOfPage
    rw [map_def_pageRows _ _ _ _ (by rw [hp.1]; exact Nat.le_refl _)]
    by_cases hd : c.maxDef > 0
    · simp only [cursorPage, decodedOf, if_pos hd, List.map_cons, List.flatten_cons]
    · simp only [cursorPage, decodedOf, if_neg hd, sumRows, List.map_cons, List.sum_cons, hr.rows]
      rw [List.replicate_append_replicate]

open Carquet.Proofs.Cursor in
/-- the values the rows carry, in order = the page builders' dense values, page after page -/
theorem writtenRows_valsS (c : Writer.Col) : ∀ (ps : List Writer.PageRec), (∀ r ∈ ps, RecShape c r) →
    (writtenRows c ps).filterMap (·.val) = (ps.map (·.src.values)).flatten := by
  intro ps
  induction ps with
  | nil => intro _; simp [writtenRows, rowsOfPages]
  | cons r rest ih =>
    intro h
    have hr := h r (by simp)
    have hp := cursorPage_okS c r hr
    rw [writtenRows_cons, List.filterMap_append, ih (fun x hx => h x (List.mem_cons_of_mem _ hx))]
    unfold rowsOfPage
    rw [filterMap_val_pageRows _ _ _ _ (by rw [hp.1]; exact Nat.le_refl _) (by rw [hp.2.1]; exact Nat.le_refl _)]
    rw [← hp.2.1, List.take_length]
    simp only [cursorPage, decodedOf, List.map_cons, List.flatten_cons]

open Carquet.Proofs.Cursor in
/-- the chunk the reader builds from a writer chunk is a valid chunk for the column reader -/
theorem chunkOk_writerS (ch : ColumnReader.Chunk Reader.Bytes) (c : Writer.Col) (ps : List Writer.PageRec)
    (hall : ∀ r ∈ ps, RecShape c r)
    (hp : ch.pages = ps.map (fun r => some (cursorPage c r))) (hn : ch.numValues = (sumRows ps : Int)) (hm : ch.maxDef = c.maxDef) :
    ChunkOk ch ∧ chunkRows ch = writtenRows c ps := by
  have hrows : chunkRows ch = writtenRows c ps := by unfold chunkRows writtenRows; rw [hp, hm]
  refine ⟨⟨?_, ?_⟩, hrows⟩
  · intro p hpm
    rw [hp, List.mem_map] at hpm
    obtain ⟨r, hr, rfl⟩ := hpm
    exact ⟨_, rfl, by rw [hm]; exact cursorPage_okS c r (hall r hr)⟩
  · rw [hrows, writtenRows_lengthS c ps hall, hn]

/-! ### the same for `RecOk` (one of the byte-exact codecs) -/

theorem decodedOf_rows (c : Writer.Col) (codec : Nat) (r : Writer.PageRec) (hr : RecOk c codec r) :
    (decodedOf c r).defs.length = r.rows := decodedOf_rowsS c r hr.toShape

theorem cursorPage_ok (c : Writer.Col) (codec : Nat) (r : Writer.PageRec) (hr : RecOk c codec r) :
    Carquet.Proofs.Cursor.PageOk c.maxDef (cursorPage c r) := cursorPage_okS c r hr.toShape

theorem writtenRows_length (c : Writer.Col) (codec : Nat) (ps : List Writer.PageRec) (h : ∀ r ∈ ps, RecOk c codec r) :
    (writtenRows c ps).length = sumRows ps := writtenRows_lengthS c ps (fun r hr => (h r hr).toShape)

theorem writtenRows_defs (c : Writer.Col) (codec : Nat) (ps : List Writer.PageRec) (h : ∀ r ∈ ps, RecOk c codec r) :
    (writtenRows c ps).map (·.defLevel) =
      (if c.maxDef > 0 then (ps.map (·.src.defs)).flatten else List.replicate (sumRows ps) 0) :=
  writtenRows_defsS c ps (fun r hr => (h r hr).toShape)

theorem writtenRows_vals (c : Writer.Col) (codec : Nat) (ps : List Writer.PageRec) (h : ∀ r ∈ ps, RecOk c codec r) :
    (writtenRows c ps).filterMap (·.val) = (ps.map (·.src.values)).flatten :=
  writtenRows_valsS c ps (fun r hr => (h r hr).toShape)

open Carquet.Proofs.Cursor in
theorem chunkOk_writer (ch : ColumnReader.Chunk Reader.Bytes) (c : Writer.Col) (codec : Nat) (ps : List Writer.PageRec)
    (hall : ∀ r ∈ ps, RecOk c codec r)
    (hp : ch.pages = ps.map (fun r => some (cursorPage c r))) (hn : ch.numValues = (sumRows ps : Int)) (hm : ch.maxDef = c.maxDef) :
    ChunkOk ch ∧ chunkRows ch = writtenRows c ps :=
  chunkOk_writerS ch c ps (fun r hr => (hall r hr).toShape) hp hn hm

/-- `RecOk` from what the writer theorems establish (C05_pages_chain: `PageOk`; C05_written_table:
`PagesOf`, i.e. `r = pageRecOf …`) plus the shape of the page-builder content and the size bounds -/
theorem recOk_of_writer (c : Writer.Col) (codec : Nat) (r : Writer.PageRec)
    (hcodec : codec = 0 ∨ codec = 1 ∨ codec = 5 ∨ codec = 7)
    (hpage : Carquet.Proofs.WriterPages.PageOk D codec r) (hof : r = Writer.pageRecOf D codec c r.src)
    (hshape : PageShape c r.src)
    (hfits : HdrFits r.body.length r.comp.length (FileReal.crc32 r.comp) r.rows r.stats)
    (hshort : (hdrBytes r).length ≤ 256) : RecOk c codec r :=
  { codecOk := hcodec, comp := hpage.1, body := by rw [hof]; rfl, rows := by rw [hof]; rfl, shape := hshape, fits := hfits,
    hdrShort := hshort, pos := hpage.2 }

theorem chunkBytes_eq (ps : List Writer.PageRec) : chunkBytes ps = Carquet.Proofs.WriterPages.pagesBytes D ps := rfl
theorem sumRows_eq (ps : List Writer.PageRec) : sumRows ps = Carquet.Proofs.WriterPages.sumRows ps := rfl

end Carquet.Proofs.ReaderChunkRoundtrip
