import Carquet.Spec.File.Write
/-
Unknown Thrift fields: merging fields whose ids are not in a struct's table of parquet.thrift
into a struct value (`withExtras`) changes neither the independent reader's required-field /
field-type check of that struct nor any lookup of a field the table names.
-/
namespace Carquet.Proofs.SpecFile
open Carquet.Spec Carquet.Spec.File Carquet.Spec.Thrift Carquet.Spec.ParquetThrift

theorem all_insertField (p : Int × TVal → Bool) (f : Int × TVal) : ∀ fs : Fields,
    (insertField f fs).all p = (p f && fs.all p)
  | [] => by simp [insertField]
  | g :: r => by
    simp only [insertField]
    split
    · simp
    · simp only [List.all_cons, all_insertField p f r]
      cases p g <;> cases p f <;> simp

theorem any_insertField (p : Int × TVal → Bool) (f : Int × TVal) : ∀ fs : Fields,
    (insertField f fs).any p = (p f || fs.any p)
  | [] => by simp [insertField]
  | g :: r => by
    simp only [insertField]
    split
    · simp
    · simp only [List.any_cons, any_insertField p f r]
      cases p g <;> cases p f <;> simp

theorem find_insertField (k : Int) (f : Int × TVal) (h : f.1 ≠ k) : ∀ fs : Fields,
    (insertField f fs).find? (fun x => x.1 == k) = fs.find? (fun x => x.1 == k)
  | [] => by simp [insertField, h]
  | g :: r => by
    simp only [insertField]
    split
    · simp [List.find?_cons, h]
    · simp only [List.find?_cons, find_insertField k f h r]

theorem all_withExtras (p : Int × TVal → Bool) : ∀ (extra known : Fields),
    (withExtras known extra).all p = (known.all p && extra.all p)
  | [], known => by simp [withExtras]
  | f :: r, known => by
    have ih := all_withExtras p r (insertField f known)
    simp only [withExtras, List.foldl_cons] at ih ⊢
    rw [ih, all_insertField]
    simp only [List.all_cons]
    cases p f <;> cases known.all p <;> simp

theorem any_withExtras (p : Int × TVal → Bool) : ∀ (extra known : Fields),
    (withExtras known extra).any p = (known.any p || extra.any p)
  | [], known => by simp [withExtras]
  | f :: r, known => by
    have ih := any_withExtras p r (insertField f known)
    simp only [withExtras, List.foldl_cons] at ih ⊢
    rw [ih, any_insertField]
    simp only [List.any_cons]
    cases p f <;> cases known.any p <;> simp

theorem field?_withExtras (k : Int) : ∀ (extra known : Fields), (∀ f ∈ extra, f.1 ≠ k) →
    field? (withExtras known extra) k = field? known k
  | [], known, _ => rfl
  | f :: r, known, h => by
    have ih := field?_withExtras k r (insertField f known) (fun x hx => h x (by simp [hx]))
    simp only [withExtras, List.foldl_cons, field?] at ih ⊢
    rw [ih, find_insertField k f (h f (by simp))]

theorem find_none_iff (s : StructSpec) (k : Int) : s.find k = none ↔ ∀ fsp ∈ s.fields, fsp.id ≠ k := by
  unfold StructSpec.find
  rw [List.find?_eq_none]
  constructor
  · intro h fsp hf heq; exact h fsp hf (by simp [heq])
  · intro h fsp hf heq; exact h fsp hf (by simpa using heq)

/-- **unknown fields are ignored**: fields with ids outside the struct's table leave the
required / typed check and every lookup of a table id as they were -/
theorem unknown_fields_ignored (s : StructSpec) (known extra : Fields) (havoid : ∀ f ∈ extra, s.find f.1 = none) :
    checkStruct s (withExtras known extra) = checkStruct s known ∧
    ∀ k, s.find k ≠ none → field? (withExtras known extra) k = field? known k := by
  constructor
  · have all_congr_mem : ∀ (l : List FieldSpec) (f g : FieldSpec → Bool), (∀ x ∈ l, f x = g x) → l.all f = l.all g := by
      intro l f g h
      induction l with
      | nil => rfl
      | cons x r ih =>
        simp only [List.all_cons, h x (by simp), ih (fun y hy => h y (by simp [hy]))]
    have hc : s.complete (withExtras known extra) = s.complete known := by
      unfold StructSpec.complete
      apply all_congr_mem
      intro fsp hf
      rw [any_withExtras]
      have : extra.any (fun x => x.1 == fsp.id) = false := by
        rw [List.any_eq_false]
        intro f hfe heq
        have h1 : f.1 = fsp.id := by simpa using heq
        exact (find_none_iff s f.1).mp (havoid f hfe) fsp hf h1.symm
      rw [this, Bool.or_false]
    have hte : knownTyped s extra = true := by
      unfold knownTyped
      rw [List.all_eq_true]
      intro f hfe
      rw [havoid f hfe]
    have ht : knownTyped s (withExtras known extra) = knownTyped s known := by
      have : knownTyped s (withExtras known extra) = (knownTyped s known && knownTyped s extra) := by
        unfold knownTyped
        exact all_withExtras _ extra known
      rw [this, hte, Bool.and_true]
    unfold checkStruct
    rw [hc, ht]
  · intro k hk
    apply field?_withExtras
    intro f hfe heq
    exact hk (heq ▸ havoid f hfe)

end Carquet.Proofs.SpecFile
