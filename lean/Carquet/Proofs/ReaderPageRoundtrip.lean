import Carquet.Proofs.ReaderPlain
import Carquet.Impl.FileReal
import Carquet.Properties.C11.Rle
import Carquet.Properties.C11.Plain
import Carquet.Proofs.Dictionary
/-
What the writer puts into a page body, the reader's page decoder returns (helper lemmas for
C01_page_body_roundtrip).
-/
namespace Carquet.Proofs.ReaderPageRoundtrip
open Carquet.Impl Carquet.Impl.Reader
open Carquet.Proofs.ReaderPlain

theorem le32_eq_leBytes (n : Nat) : Writer.le32 n = Bitpack.leBytes 4 n := by
  simp only [Writer.le32, Bitpack.leBytes, Nat.div_div_eq_div_mul]

/-- cutting the concatenation of `k`-byte values gives the values back -/
theorem chunks_flatten (k : Nat) : ∀ (vs : List Reader.Bytes), (∀ v ∈ vs, v.length = k) → ∀ (extra : Reader.Bytes),
    chunks k vs.length (vs.flatten ++ extra) = vs := by
  intro vs
  induction vs with
  | nil => intro _ _; rfl
  | cons v vs ih =>
    intro h extra
    have hv : v.length = k := h v (by simp)
    simp only [List.flatten_cons, List.length_cons, chunks, List.append_assoc]
    rw [List.take_left' hv, List.drop_left' hv, ih (fun x hx => h x (by simp [hx]))]

/-- the level block the writer emits for levels `ls ≤ 1` decodes to `ls`, leaving the tail -/
theorem levelBlock_roundtrip (fx : Fixes) (ls : List Nat) (tail : Reader.Bytes) (h01 : ∀ d ∈ ls, d ≤ 1)
    (hsmall : (Rle.encode 1 ls).length < 2 ^ 32) :
    levelBlock fx 1 ls.length (FileReal.levels 1 ls ++ tail) = .ok (ls, tail) := by
  have hw : bitWidthForMax 1 = 1 := by decide
  have hw' : FileReal.bitWidth 1 = 1 := by decide
  have henc : Rle.encodeLevels 1 (ls.map (fun d : Nat => (d : Int))) = Rle.encode 1 ls := by
    unfold Rle.encodeLevels
    congr 1
    rw [List.map_map]
    conv => rhs; rw [← List.map_id ls]
    apply List.map_congr_left
    intro d hd
    have := h01 d hd
    simp only [Function.comp, Rle.u32OfI16, id]
    have : ((d : Int) % 4294967296).toNat = d := by omega
    exact this
  have hrt := (Carquet.Properties.C11.C11_rle_levels_roundtrip 1 (by decide) (ls.map (fun d : Nat => (d : Int))) (by
    intro l hl
    obtain ⟨d, hd, rfl⟩ := List.mem_map.mp hl
    have := h01 d hd
    refine ⟨by omega, ?_, by omega⟩
    show (d : Int) < 2 ^ 1
    omega)).1
  rw [henc] at hrt
  simp only [List.length_map] at hrt
  have h4 : (Writer.le32 (Rle.encode 1 ls).length).length = 4 := rfl
  have hle : le32 (Writer.le32 (Rle.encode 1 ls).length ++ Rle.encode 1 ls ++ tail) = (Rle.encode 1 ls).length := by
    unfold le32
    rw [List.append_assoc, List.take_left' h4, le32_eq_leBytes, Carquet.Proofs.NatBits.leNat_leBytes]
    exact Nat.mod_eq_of_lt hsmall
  have hdt : ((Writer.le32 (Rle.encode 1 ls).length ++ Rle.encode 1 ls ++ tail).drop 4).take (Rle.encode 1 ls).length
      = Rle.encode 1 ls := by
    rw [List.append_assoc, List.drop_left' h4, List.take_left' rfl]
  have hdd : (Writer.le32 (Rle.encode 1 ls).length ++ Rle.encode 1 ls ++ tail).drop (4 + (Rle.encode 1 ls).length) = tail := by
    apply List.drop_left'
    simp [h4]
  have hmap : (ls.map (fun d : Nat => (d : Int))).map Int.toNat = ls := by
    rw [List.map_map]
    conv => rhs; rw [← List.map_id ls]
    apply List.map_congr_left
    intro d _; simp
  unfold levelBlock FileReal.levels
  rw [hw, hw']
  have hlen4 : ¬ (Writer.le32 (Rle.encode 1 ls).length ++ Rle.encode 1 ls ++ tail).length < 4 := by
    simp only [List.length_append, h4]; omega
  have hfit : ¬ le32 (Writer.le32 (Rle.encode 1 ls).length ++ Rle.encode 1 ls ++ tail) >
      (Writer.le32 (Rle.encode 1 ls).length ++ Rle.encode 1 ls ++ tail).length - 4 := by
    rw [hle]; simp only [List.length_append, h4]; omega
  rw [if_neg hlen4, if_neg hfit, hle, hdt, hrt]
  simp only [List.length_map, ne_eq, not_true_eq_false, if_false, hmap, hdd]

/-- the PLAIN bytes the writer's page builder produces for the values of a page -/
def pageValuesBytes (c : Writer.Col) (vals : List Writer.Val) : Reader.Bytes :=
  if c.ptype = .boolean then FileReal.plainBools vals else FileReal.plain c.ptype c.typeLen vals

/-- the values a caller may hand to `write_batch` for a column of this type (bit patterns):
BOOLEAN one byte 0/1, fixed-width types their width, BYTE_ARRAY shorter than 2^31 -/
def ValsOk (c : Writer.Col) (vals : List Writer.Val) : Prop :=
  match c.ptype with
  | .boolean => ∀ v ∈ vals, v = [0] ∨ v = [1]
  | .byteArray => ∀ v ∈ vals, v.length < 2 ^ 31
  | .flba => 0 < c.typeLen ∧ ∀ v ∈ vals, v.length = c.typeLen
  | .int32 => ∀ v ∈ vals, v.length = 4
  | .float => ∀ v ∈ vals, v.length = 4
  | .int64 => ∀ v ∈ vals, v.length = 8
  | .double => ∀ v ∈ vals, v.length = 8
  | .int96 => ∀ v ∈ vals, v.length = 12

theorem fixed_roundtrip (code : Nat) (tl : Nat) (k : Nat) (vals : List Writer.Val)
    (hk : valueSize (code : Int) (tl : Int) = k) (hfw : fixedWidth (code : Int) = true) (hflba : (code : Int) = 7 → 0 < (tl : Int))
    (hv : ∀ v ∈ vals, v.length = k) (hsz : vals.flatten.length < 2 ^ 64) :
    plainValues (code : Int) (tl : Int) vals.flatten vals.length = .ok vals := by
  have hl := Carquet.Proofs.Dictionary.flatten_length_of_all vals hv
  rw [plainValues_fixed (code : Int) (tl : Int) vals.flatten vals.length hfw hflba (by rw [hk, hl]; exact Nat.le_refl _) hsz, hk]
  have := chunks_flatten k vals hv []
  rw [List.append_nil] at this
  rw [this]

theorem plainValues_roundtrip (c : Writer.Col) (vals : List Writer.Val) (h : ValsOk c vals)
    (hsz : (pageValuesBytes c vals).length < 2 ^ 64) :
    plainValues (c.ptype.code : Int) (c.typeLen : Int) (pageValuesBytes c vals) vals.length = .ok vals := by
  unfold pageValuesBytes at hsz ⊢
  unfold ValsOk at h
  cases hp : c.ptype with
  | boolean =>
    rw [hp] at h
    simp only [hp, if_true, Writer.PType.code] at hsz ⊢
    have hrt := (Carquet.Properties.C11.C11_plain_boolean_roundtrip (vals.map (fun v => v.headD 0)) []).1
    rw [List.append_nil, List.length_map] at hrt
    simp only [plainValues, FileReal.plainBools, Int.natCast_zero, if_true, hrt, plainRes]
    congr 1
    rw [List.map_map, List.map_map]
    conv => rhs; rw [← List.map_id vals]
    apply List.map_congr_left
    intro v hv
    rcases h v hv with h0 | h1
    · subst h0; rfl
    · subst h1; rfl
  | int32 =>
    rw [hp] at h
    simp only [hp, Writer.PType.code, FileReal.plain, reduceCtorEq, ↓reduceIte] at hsz ⊢
    exact fixed_roundtrip 1 c.typeLen 4 vals (by simp [valueSize]) (by decide) (by intro h7; cases h7) h hsz
  | int64 =>
    rw [hp] at h
    simp only [hp, Writer.PType.code, FileReal.plain, reduceCtorEq, ↓reduceIte] at hsz ⊢
    exact fixed_roundtrip 2 c.typeLen 8 vals (by simp [valueSize]) (by decide) (by intro h7; cases h7) h hsz
  | int96 =>
    rw [hp] at h
    simp only [hp, Writer.PType.code, FileReal.plain, reduceCtorEq, ↓reduceIte] at hsz ⊢
    exact fixed_roundtrip 3 c.typeLen 12 vals (by simp [valueSize]) (by decide) (by intro h7; cases h7) h hsz
  | float =>
    rw [hp] at h
    simp only [hp, Writer.PType.code, FileReal.plain, reduceCtorEq, ↓reduceIte] at hsz ⊢
    exact fixed_roundtrip 4 c.typeLen 4 vals (by simp [valueSize]) (by decide) (by intro h7; cases h7) h hsz
  | double =>
    rw [hp] at h
    simp only [hp, Writer.PType.code, FileReal.plain, reduceCtorEq, ↓reduceIte] at hsz ⊢
    exact fixed_roundtrip 5 c.typeLen 8 vals (by simp [valueSize]) (by decide) (by intro h7; cases h7) h hsz
  | byteArray =>
    rw [hp] at h
    simp only [hp, Writer.PType.code, FileReal.plain, reduceCtorEq, ↓reduceIte] at hsz ⊢
    obtain ⟨slices, hd, hs⟩ := Carquet.Properties.C11.C11_plain_byte_array_roundtrip vals [] h
    rw [List.append_nil] at hd hs
    have e6 : ((6 : Nat) : Int) = 6 := rfl
    simp only [plainValues, e6, Int.reduceEq, if_false, if_true, ↓reduceIte, hd, plainRes, hs]
  | flba =>
    rw [hp] at h
    simp only [hp, Writer.PType.code, FileReal.plain, reduceCtorEq, ↓reduceIte] at hsz ⊢
    exact fixed_roundtrip 7 c.typeLen c.typeLen vals (by simp [valueSize]) (by decide) (by intro _; exact_mod_cast h.1) h.2 hsz

/-- the column reader's view of a writer column (the chunk metadata plays no role in page decoding) -/
def colOf (c : Writer.Col) (cm : ThriftParquet.ColumnMetaData) : Col := ⟨cm, c.maxDef, c.maxRep, c.ptype.code, c.typeLen⟩

/-- A page as the page builder of a flat REQUIRED / OPTIONAL / REPEATED column holds it when it is
finalised (the invariants `carquet_page_writer_add_values` maintains), with values of the column's
type and sizes that fit the C types. -/
structure PageShape (c : Writer.Col) (p : Writer.Page) : Prop where
  defsLen : c.maxDef > 0 → p.defs.length = p.numValues ∧ 0 < p.numValues
  defsNone : c.maxDef = 0 → p.defs = []
  defs01 : ∀ d ∈ p.defs, d ≤ 1
  count : p.values.length = (if c.maxDef > 0 then p.defs.countP (· == 1) else p.numValues)
  vals : ValsOk c p.values
  levelsSmall : (Rle.encode 1 p.defs).length < 2 ^ 32
  valuesSmall : (pageValuesBytes c p.values).length < 2 ^ 64
  repsLen : c.maxRep > 0 → p.reps.length = p.numValues ∧ 0 < p.numValues
  repsNone : c.maxRep = 0 → p.reps = []
  reps01 : ∀ r ∈ p.reps, r ≤ 1
  repLevelsSmall : (Rle.encode 1 p.reps).length < 2 ^ 32

theorem pageBody_eq (c : Writer.Col) (p : Writer.Page) :
    Writer.pageBody (FileReal.deps []) c p =
      (if p.reps.length > 0 then FileReal.levels c.maxRep p.reps else []) ++
      ((if p.defs.length > 0 then FileReal.levels c.maxDef p.defs else []) ++ pageValuesBytes c p.values) := by
  unfold Writer.pageBody pageValuesBytes
  simp only [FileReal.deps, List.append_assoc]

theorem maxRep_le_one (c : Writer.Col) : c.maxRep = 0 ∨ c.maxRep = 1 := by
  unfold Writer.Col.maxRep; split <;> simp

theorem readDataPageV1_pageBody (c : Writer.Col) (p : Writer.Page) (h : PageShape c p) (cm : ThriftParquet.ColumnMetaData)
    (dict : Option Dict) :
    readDataPageV1 Fixes.all (colOf c cm) dict (Writer.pageBody (FileReal.deps []) c p) p.numValues 0 =
      .ok ⟨if c.maxDef > 0 then p.defs else List.replicate p.numValues 0,
           if c.maxRep > 0 then p.reps else List.replicate p.numValues 0, p.values⟩ := by
  rw [pageBody_eq c p]
  have hvals := plainValues_roundtrip c p.values h.vals h.valuesSmall
  -- the repetition-level stage
  have hrl : ∀ tail, repLevels Fixes.all (colOf c cm) p.numValues
      ((if p.reps.length > 0 then FileReal.levels c.maxRep p.reps else []) ++ tail) =
      .ok (if c.maxRep > 0 then p.reps else List.replicate p.numValues 0, tail) := by
    intro tail
    by_cases hr : c.maxRep > 0
    · have hr1 : c.maxRep = 1 := by rcases maxRep_le_one c with h0 | h1 <;> omega
      obtain ⟨hlen, hpos⟩ := h.repsLen hr
      have hlb := levelBlock_roundtrip Fixes.all p.reps tail h.reps01 h.repLevelsSmall
      rw [hlen] at hlb
      simp only [repLevels, colOf, hr1, Nat.lt_add_one, if_true, show p.reps.length > 0 by omega, hlb]
    · have hr0 : c.maxRep = 0 := by omega
      simp only [repLevels, colOf, hr0, Nat.lt_irrefl, if_false, h.repsNone hr0, List.length_nil, List.nil_append]
  by_cases hd : c.maxDef > 0
  · have hd1 : c.maxDef = 1 := by
      unfold Writer.Col.maxDef at hd ⊢; split <;> simp_all
    obtain ⟨hlen, hpos⟩ := h.defsLen hd
    have hcount := h.count
    rw [if_pos hd] at hcount
    have hlb := levelBlock_roundtrip Fixes.all p.defs (pageValuesBytes c p.values) h.defs01 h.levelsSmall
    rw [hlen] at hlb
    unfold readDataPageV1
    rw [hrl]
    simp only [defLevels, colOf, hd1, Nat.lt_add_one,
      if_true, show p.defs.length > 0 by omega, hlb, nonNullCount, ← hcount, decodeValues, hvals]
  · have hd0 : c.maxDef = 0 := by omega
    have hdn := h.defsNone hd0
    have hcount := h.count
    rw [if_neg hd] at hcount
    unfold readDataPageV1
    rw [hrl]
    simp only [defLevels, colOf, hd0, Nat.lt_irrefl, if_false, hdn, List.length_nil,
      List.nil_append, nonNullCount, List.length_replicate, decodeValues, if_true]
    rw [← hcount, hvals]

end Carquet.Proofs.ReaderPageRoundtrip
