import Carquet.Impl.Dispatch
/-
C15 helper lemmas: soundness of the dispatcher for every capability mask from a static check of
the table (every kernel a block installs needs only features the block's condition tests).
-/
namespace Carquet.Proofs.SimdDispatch
open Carquet.Impl.Dispatch

theorem subset_trans {a b c : Nat} (h1 : subset a b = true) (h2 : subset b c = true) : subset a c = true := by
  unfold subset at *
  have e1 : a &&& b = a := by simpa using h1
  have e2 : b &&& c = b := by simpa using h2
  have : a &&& c = a := by
    calc a &&& c = (a &&& b) &&& c := by rw [e1]
      _ = a &&& (b &&& c) := Nat.and_assoc a b c
      _ = a := by rw [e2, e1]
  simpa using this

theorem subset_zero (m : Nat) : subset 0 m = true := by simp [subset]

theorem reqWithin_mono {req : List Nat} {k c m : Nat} (h : reqWithin req k c = true) (hc : subset c m = true) :
    reqWithin req k m = true := by
  unfold reqWithin at *
  cases hr : req[k]? with
  | none => simp [hr] at h
  | some r => simp only [hr] at h ⊢; exact subset_trans h hc

theorem lookup_mem {slot k : Nat} : ∀ {l : List (Nat × Nat)}, l.lookup slot = some k → (slot, k) ∈ l := by
  intro l
  induction l with
  | nil => intro h; simp [List.lookup] at h
  | cons p ps ih =>
    intro h
    obtain ⟨a, b⟩ := p
    simp only [List.lookup] at h
    by_cases hab : slot == a
    · simp only [hab] at h
      have : slot = a := by simpa using hab
      have hb : b = k := by simpa using h
      subst this; subst hb; simp
    · simp only [hab] at h
      have := ih h
      simp [this]

/-- folding the blocks keeps "the current kernel needs only features in `mask`" -/
theorem fold_ok (req : List Nat) (mask slot : Nat) :
    ∀ (bs : List Block) (cur : Nat),
      reqWithin req cur mask = true →
      (∀ b ∈ bs, ∀ sk ∈ b.2.2, reqWithin req sk.2 b.2.1 = true) →
      reqWithin req ((bs.zip (bs.map (enabled mask))).foldl (stepE slot) cur) mask = true := by
  intro bs
  induction bs with
  | nil => intro cur h _; simpa using h
  | cons b bs ih =>
    intro cur hcur hall
    simp only [List.map_cons, List.zip_cons_cons, List.foldl_cons]
    apply ih
    · unfold stepE
      simp only
      by_cases he : enabled mask b = true
      · simp only [he, if_true]
        cases hl : b.2.2.lookup slot with
        | none => simpa using hcur
        | some k =>
          have hm := lookup_mem hl
          have := hall b (by simp) (slot, k) hm
          exact reqWithin_mono this he
      · have he' : enabled mask b = false := by simpa using he
        simpa [he'] using hcur
    · intro b' hb'
      exact hall b' (by simp [hb'])

theorem sound_of_tableOK (blocks : List Block) (init req : List Nat) (hok : tableOK blocks init req = true)
    (mask slot : Nat) (hs : slot < init.length) : soundIn blocks init req mask slot = true := by
  unfold tableOK at hok
  have ⟨hinit, hblocks⟩ : (init.all (fun k => reqWithin req k 0) = true) ∧
      (blocks.all (fun b => b.2.2.all (fun sk => reqWithin req sk.2 b.2.1)) = true) := by
    simpa using hok
  have h0 : reqWithin req init[slot] mask = true := by
    have := List.all_eq_true.mp hinit init[slot] (List.getElem_mem hs)
    exact reqWithin_mono this (subset_zero mask)
  have hall : ∀ b ∈ blocks, ∀ sk ∈ b.2.2, reqWithin req sk.2 b.2.1 = true := by
    intro b hb sk hsk
    have := List.all_eq_true.mp hblocks b hb
    exact List.all_eq_true.mp this sk hsk
  have key := fold_ok req mask slot blocks init[slot] h0 hall
  unfold soundIn selectIn selectE
  rw [List.getElem?_eq_getElem hs]
  simp only
  unfold reqWithin at key
  unfold requiredFeaturesIn
  cases hr : req[(blocks.zip (blocks.map (enabled mask))).foldl (stepE slot) init[slot]]? with
  | none => simp [hr] at key
  | some r => simpa [hr] using key

theorem mem_allBools : ∀ l : List Bool, l ∈ allBools l.length := by
  intro l
  induction l with
  | nil => simp [allBools]
  | cons b bs ih =>
    simp only [List.length_cons, allBools, List.mem_flatMap]
    exact ⟨bs, ih, by cases b <;> simp⟩

end Carquet.Proofs.SimdDispatch
