import Carquet.Impl.SimdMore
import Carquet.Spec.Kernels
import Carquet.Proofs.SimdBlocked
import Carquet.Proofs.SimdPrefix
/-
C15 helper lemmas: the dictionary gathers.  The SSE kernels and the scalar loop zero-extend the
32-bit index; the AVX2 / AVX-512 kernels use `vpgatherdd/dq`, which sign-extend it.  The two
agree lane by lane exactly when the lane's index is below 2^31 or the two addresses hold the same
thing; for a dictionary of at most 2^31 elements they agree on every index.
-/
namespace Carquet.Proofs.SimdGather
open Carquet Carquet.Impl.Simd Carquet.Proofs.SimdBlocked Carquet.Proofs.SimdPrefix

theorem gatherTail_append {α : Type} (mem : DictMem α) (a r : List (BitVec 32)) :
    gatherTail mem (a ++ r) = gatherTail mem a ++ gatherTail mem r := by simp [gatherTail]

/-! ### SSE: scalar loads, any memory -/

theorem sse32_blk8 {α : Type} (mem : DictMem α) (b : List (BitVec 32)) (h : b.length = 8) :
    sseGather32Blk8 mem b = gatherTail mem b := by
  obtain ⟨a0, a1, a2, a3, a4, a5, a6, a7, rfl⟩ := list_len8 b h
  rfl

theorem sse32_blk4 {α : Type} (mem : DictMem α) (b : List (BitVec 32)) (h : b.length = 4) :
    sseGather32Blk4 mem b = gatherTail mem b := by
  obtain ⟨a0, a1, a2, a3, rfl⟩ := list_len4 b h
  rfl

theorem sse64_blk {α : Type} (mem : DictMem α) (b : List (BitVec 32)) (h : b.length = 4) :
    sseGather64Blk mem b = gatherTail mem b := by
  obtain ⟨a0, a1, a2, a3, rfl⟩ := list_len4 b h
  rfl

theorem sseGather32_eq {α : Type} (mem : DictMem α) (idx : List (BitVec 32)) :
    sseGather32 mem idx = scalarGather mem idx := by
  unfold sseGather32 scalarGather
  have h4 : ∀ t, blockedMap 4 (sseGather32Blk4 mem) (gatherTail mem) t = gatherTail mem t :=
    fun t => blockedMap_eq 4 (by decide) _ _ _ (sse32_blk4 mem) (fun _ _ => rfl)
      (fun a r _ => gatherTail_append mem a r) t
  rw [blockedMap_eq 8 (by decide) _ _ (gatherTail mem) (sse32_blk8 mem) (fun t _ => h4 t)
    (fun a r _ => gatherTail_append mem a r)]

theorem sseGather64_eq {α : Type} (mem : DictMem α) (idx : List (BitVec 32)) :
    sseGather64 mem idx = scalarGather mem idx := by
  unfold sseGather64 scalarGather
  rw [blockedMap_eq 4 (by decide) _ _ (gatherTail mem) (sse64_blk mem) (fun _ _ => rfl)
    (fun a r _ => gatherTail_append mem a r)]

/-! ### hardware gathers: sign-extended index -/

/-- the lane-level condition: the sign-extended and the zero-extended address hold the same thing -/
def LaneAgrees {α : Type} (mem : DictMem α) (i : BitVec 32) : Prop := mem i.toInt = mem (Int.ofNat i.toNat)

theorem toInt_of_lt (i : BitVec 32) (h : i.toNat < 2 ^ 31) : i.toInt = Int.ofNat i.toNat := by
  rw [BitVec.toInt_eq_toNat_cond]
  have : 2 * i.toNat < 2 ^ 32 := by omega
  simp [this]

theorem toInt_of_ge (i : BitVec 32) (h : 2 ^ 31 ≤ i.toNat) : i.toInt = Int.ofNat i.toNat - 2 ^ 32 := by
  rw [BitVec.toInt_eq_toNat_cond]
  have : ¬ 2 * i.toNat < 2 ^ 32 := by omega
  simp [this]

theorem laneAgrees_of_lt {α : Type} (mem : DictMem α) (i : BitVec 32) (h : i.toNat < 2 ^ 31) :
    LaneAgrees mem i := by
  unfold LaneAgrees; rw [toInt_of_lt i h]

/-- a dictionary of at most 2^31 elements: an index with the top bit set is outside it either way -/
theorem laneAgrees_memOf {α : Type} (d : List α) (hd : d.length ≤ 2 ^ 31) (i : BitVec 32) :
    LaneAgrees (memOf d) i := by
  by_cases h : i.toNat < 2 ^ 31
  · exact laneAgrees_of_lt _ i h
  · have hge : 2 ^ 31 ≤ i.toNat := by omega
    unfold LaneAgrees memOf
    rw [toInt_of_ge i hge]
    have hlt := i.isLt
    have hneg : ¬ (0 : Int) ≤ Int.ofNat i.toNat - 2 ^ 32 := by
      have : (Int.ofNat i.toNat) < 2 ^ 32 := by
        have := Int.ofNat_lt.mpr hlt
        simpa using this
      omega
    have hpos : (0 : Int) ≤ Int.ofNat i.toNat := Int.natCast_nonneg _
    rw [if_neg hneg, if_pos hpos]
    have : d.length ≤ (Int.ofNat i.toNat).toNat := by simp; omega
    rw [List.getElem?_eq_none this]

theorem i32gather_blk {α : Type} (mem : DictMem α) (b : List (BitVec 32)) (h : ∀ i ∈ b, LaneAgrees mem i) :
    i32gather mem b = gatherTail mem b := by
  unfold i32gather gatherTail loadZx
  apply List.map_congr_left
  intro i hi
  exact h i hi

/-- a hardware-gather kernel of any block width equals the scalar loop on indices whose lanes agree -/
theorem hwGather_eq {α : Type} (W : Nat) (hW : 0 < W) (mem : DictMem α) (tail : List (BitVec 32) → List (Option α))
    (htail : ∀ t, (∀ i ∈ t, LaneAgrees mem i) → tail t = gatherTail mem t)
    (idx : List (BitVec 32)) (h : ∀ i ∈ idx, LaneAgrees mem i) :
    blockedMap W (i32gather mem) tail idx = gatherTail mem idx :=
  blockedMap_eq_dom (LaneAgrees mem) W hW _ _ (gatherTail mem) (fun b _ hb => i32gather_blk mem b hb)
    (fun t _ ht => htail t ht) (fun a r _ => gatherTail_append mem a r) idx h

theorem avx2Gather32_eq {α : Type} (mem : DictMem α) (idx : List (BitVec 32)) (h : ∀ i ∈ idx, LaneAgrees mem i) :
    avx2Gather32 mem idx = scalarGather mem idx := by
  unfold avx2Gather32 scalarGather
  rw [hwGather_eq 8 (by decide) mem _ (fun _ _ => rfl) idx h]

theorem avx2Gather64_eq {α : Type} (mem : DictMem α) (idx : List (BitVec 32)) (h : ∀ i ∈ idx, LaneAgrees mem i) :
    avx2Gather64 mem idx = scalarGather mem idx := by
  unfold avx2Gather64 scalarGather
  rw [hwGather_eq 4 (by decide) mem _ (fun _ _ => rfl) idx h]

theorem avx512Gather32_eq {α : Type} (mem : DictMem α) (idx : List (BitVec 32)) (h : ∀ i ∈ idx, LaneAgrees mem i) :
    avx512Gather32 mem idx = scalarGather mem idx := by
  unfold avx512Gather32 scalarGather
  rw [hwGather_eq 16 (by decide) mem _
    (fun t ht => hwGather_eq 8 (by decide) mem _ (fun _ _ => rfl) t ht) idx h]

theorem avx512Gather64_eq {α : Type} (mem : DictMem α) (idx : List (BitVec 32)) (h : ∀ i ∈ idx, LaneAgrees mem i) :
    avx512Gather64 mem idx = scalarGather mem idx := by
  unfold avx512Gather64 scalarGather
  rw [hwGather_eq 8 (by decide) mem _ (fun _ _ => rfl) idx h]

/-! ### the scalar loop over a dictionary = the Spec's gather -/

theorem allLoaded_map {α β : Type} (f : β → Option α) (l : List β) : allLoaded (l.map f) = l.mapM f := by
  induction l with
  | nil => rfl
  | cons x xs ih =>
    simp only [List.map_cons, List.mapM_cons]
    cases hf : f x with
    | none => simp [allLoaded]
    | some y =>
      simp only [allLoaded, ih]
      cases xs.mapM f <;> rfl

theorem loadZx_memOf {α : Type} (d : List α) (i : BitVec 32) : loadZx (memOf d) i = d[i.toNat]? := by
  unfold loadZx memOf
  have hpos : (0 : Int) ≤ Int.ofNat i.toNat := Int.natCast_nonneg _
  rw [if_pos hpos]; simp

theorem scalarGather_spec {α : Type} (d : List α) (idx : List (BitVec 32)) :
    scalarGather (memOf d) idx = Spec.Kernels.gather d (idx.map (·.toNat)) := by
  unfold scalarGather gatherTail Spec.Kernels.gather
  rw [allLoaded_map, List.mapM_map]
  congr 1

/-! ### where they differ -/

theorem allLoaded_none_of_mem {α : Type} (l : List (Option α)) (h : none ∈ l) : allLoaded l = none := by
  induction l with
  | nil => simp at h
  | cons x xs ih =>
    cases x with
    | none => rfl
    | some y =>
      have : none ∈ xs := by simpa using h
      simp [allLoaded, ih this]

/-- a lane whose index has the top bit set reads *before* the dictionary -/
theorem i32gather_lane_negative {α : Type} (d : List α) (i : BitVec 32) (h : 2 ^ 31 ≤ i.toNat) :
    memOf d i.toInt = none := by
  unfold memOf
  rw [toInt_of_ge i h]
  have hlt := i.isLt
  have hneg : ¬ (0 : Int) ≤ Int.ofNat i.toNat - 2 ^ 32 := by
    have : (Int.ofNat i.toNat) < 2 ^ 32 := by
      have := Int.ofNat_lt.mpr hlt
      simpa using this
    omega
  rw [if_neg hneg]

/-- one full vector block (`W` indices, all inside the dictionary) containing an index `≥ 2^31`:
the scalar definition is defined, the hardware-gather kernel reads outside the dictionary object -/
theorem hwGather_diverges {α : Type} (W : Nat) (hW : 0 < W) (d : List α) (tail : List (BitVec 32) → List (Option α))
    (idx : List (BitVec 32)) (hl : idx.length = W) (hin : ∀ i ∈ idx, i.toNat < d.length)
    (i : BitVec 32) (hi : i ∈ idx) (hbig : 2 ^ 31 ≤ i.toNat) :
    allLoaded (blockedMap W (i32gather (memOf d)) tail idx) = none ∧
    (Spec.Kernels.gather d (idx.map (·.toNat))).isSome = true := by
  constructor
  · apply allLoaded_none_of_mem
    unfold blockedMap
    rw [hl, Nat.div_self hW]
    simp only [mapBlocks, List.append_nil]
    apply List.mem_append_left
    have : idx.take W = idx := List.take_of_length_le (by omega)
    rw [this]
    unfold i32gather
    rw [List.mem_map]
    exact ⟨i, hi, i32gather_lane_negative d i hbig⟩
  · rw [← scalarGather_spec]
    unfold scalarGather gatherTail
    rw [allLoaded_map]
    have : ∀ l : List (BitVec 32), (∀ j ∈ l, j.toNat < d.length) → (l.mapM (loadZx (memOf d))).isSome = true := by
      intro l
      induction l with
      | nil => intro _; rfl
      | cons x xs ih =>
        intro hx
        have hx0 := hx x (by simp)
        have := ih (fun j hj => hx j (by simp [hj]))
        rw [List.mapM_cons, loadZx_memOf, List.getElem?_eq_getElem hx0]
        cases hm : xs.mapM (loadZx (memOf d)) with
        | none => rw [hm] at this; simp at this
        | some v => rfl
    exact this idx hin

/-! ### kernels over a dictionary = the Spec's gather -/

theorem sse32_spec {α : Type} (d : List α) (idx : List (BitVec 32)) :
    sseGather32 (memOf d) idx = Spec.Kernels.gather d (idx.map (·.toNat)) := by
  rw [sseGather32_eq, scalarGather_spec]
theorem sse64_spec {α : Type} (d : List α) (idx : List (BitVec 32)) :
    sseGather64 (memOf d) idx = Spec.Kernels.gather d (idx.map (·.toNat)) := by
  rw [sseGather64_eq, scalarGather_spec]
theorem avx2_32_spec {α : Type} (d : List α) (hd : d.length ≤ 2 ^ 31) (idx : List (BitVec 32)) :
    avx2Gather32 (memOf d) idx = Spec.Kernels.gather d (idx.map (·.toNat)) := by
  rw [avx2Gather32_eq _ _ (fun i _ => laneAgrees_memOf d hd i), scalarGather_spec]
theorem avx2_64_spec {α : Type} (d : List α) (hd : d.length ≤ 2 ^ 31) (idx : List (BitVec 32)) :
    avx2Gather64 (memOf d) idx = Spec.Kernels.gather d (idx.map (·.toNat)) := by
  rw [avx2Gather64_eq _ _ (fun i _ => laneAgrees_memOf d hd i), scalarGather_spec]
theorem avx512_32_spec {α : Type} (d : List α) (hd : d.length ≤ 2 ^ 31) (idx : List (BitVec 32)) :
    avx512Gather32 (memOf d) idx = Spec.Kernels.gather d (idx.map (·.toNat)) := by
  rw [avx512Gather32_eq _ _ (fun i _ => laneAgrees_memOf d hd i), scalarGather_spec]
theorem avx512_64_spec {α : Type} (d : List α) (hd : d.length ≤ 2 ^ 31) (idx : List (BitVec 32)) :
    avx512Gather64 (memOf d) idx = Spec.Kernels.gather d (idx.map (·.toNat)) := by
  rw [avx512Gather64_eq _ _ (fun i _ => laneAgrees_memOf d hd i), scalarGather_spec]

end Carquet.Proofs.SimdGather
