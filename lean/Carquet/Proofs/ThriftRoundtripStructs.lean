import Carquet.Proofs.ThriftRoundtrip
/-
Struct by struct: the parser tables applied to the Thrift value of a structure give its `norm`;
the value's fields are acceptable; the value is a well-formed Thrift value.
-/
namespace Carquet.Proofs.Thrift
open Carquet.Spec.Thrift Carquet.Spec.ParquetThrift
open Carquet.Impl.Thrift
open Carquet.Impl.ThriftParquet

theorem okOpt_some {α : Type} {p : α → Bool} {o : Option α} {x : α} (h : okOpt p o = true) (hx : o = some x) : p x = true := by
  rw [hx] at h; exact h

/-! ### Statistics -/

def statsFields (s : Statistics) : Fields :=
  fBinNonEmpty 1 s.maxDeprecated ++ fBinNonEmpty 2 s.minDeprecated ++ fOpt 3 .i64 s.nullCount ++
    fOpt 4 .i64 s.distinctCount ++ fBinNonEmpty 5 s.maxValue ++ fBinNonEmpty 6 s.minValue

theorem statisticsTV_eq (s : Statistics) : statisticsTV s = .struct (statsFields s) := rfl

theorem stats_of (s : Statistics) : ofFields tblStats {} (statsFields s) = s.norm := by
  simp only [statsFields, ofFields_append]
  rw [piece_binNE _ _ 1 s.maxDeprecated (fun s x => { s with maxDeprecated := x }) (fun _ => rfl) rfl]
  rw [piece_binNE _ _ 2 s.minDeprecated (fun s x => { s with minDeprecated := x }) (fun _ => rfl) rfl]
  rw [piece_opt _ _ 3 .i64 s.nullCount (fun s o => { s with nullCount := o }) (fun _ _ => rfl) rfl]
  rw [piece_opt _ _ 4 .i64 s.distinctCount (fun s o => { s with distinctCount := o }) (fun _ _ => rfl) rfl]
  rw [piece_binNE _ _ 5 s.maxValue (fun s x => { s with maxValue := x }) (fun _ => rfl) rfl]
  rw [piece_binNE _ _ 6 s.minValue (fun s x => { s with minValue := x }) (fun _ => rfl) rfl]
  rfl

theorem stats_ok (R : Nat) (s : Statistics) : okFields tblStats R (statsFields s) := by
  simp only [statsFields, okFields_append]
  refine ⟨⟨⟨⟨⟨?_, ?_⟩, ?_⟩, ?_⟩, ?_⟩, ?_⟩
  · exact okFields_fBinNE _ _ _ _ ⟨_, rfl⟩
  · exact okFields_fBinNE _ _ _ _ ⟨_, rfl⟩
  · exact okFields_fOpt _ _ _ _ _ (fun x _ => ⟨x, rfl⟩)
  · exact okFields_fOpt _ _ _ _ _ (fun x _ => ⟨x, rfl⟩)
  · exact okFields_fBinNE _ _ _ _ ⟨_, rfl⟩
  · exact okFields_fBinNE _ _ _ _ ⟨_, rfl⟩

theorem wfFields_fBinNE (id : Int) (b : Bytes) (h0 : -32768 ≤ id) (h1 : id ≤ 32767) (hb : isBin b = true) :
    wfFields (fBinNonEmpty id b) = true := by
  unfold fBinNonEmpty; split
  · rfl
  · exact wfFields_f1 id _ h0 h1 (wf_bin hb)

theorem stats_wf (s : Statistics) (h : s.wf = true) : (statisticsTV s).wf = true := by
  simp only [Statistics.wf, Bool.and_eq_true] at h
  obtain ⟨⟨⟨⟨⟨h1, h2⟩, h3⟩, h4⟩, h5⟩, h6⟩ := h
  rw [statisticsTV_eq]
  simp only [TVal.wf, statsFields, wfFields_append, Bool.and_eq_true]
  refine ⟨⟨⟨⟨⟨?_, ?_⟩, ?_⟩, ?_⟩, ?_⟩, ?_⟩
  · exact wfFields_fBinNE 1 _ (by omega) (by omega) h1
  · exact wfFields_fBinNE 2 _ (by omega) (by omega) h2
  · exact wfFields_fOpt 3 _ _ (by omega) (by omega) (fun x hx => wf_i64 (okOpt_some h3 hx))
  · exact wfFields_fOpt 4 _ _ (by omega) (by omega) (fun x hx => wf_i64 (okOpt_some h4 hx))
  · exact wfFields_fBinNE 5 _ (by omega) (by omega) h5
  · exact wfFields_fBinNE 6 _ (by omega) (by omega) h6

/-! ### KeyValue -/

def kvFields (kv : KeyValue) : Fields := f1 1 (.binary (kv.key.getD [])) ++ fOpt 2 .binary kv.value

theorem keyValueTV_eq (kv : KeyValue) : keyValueTV kv = .struct (kvFields kv) := rfl

theorem kv_of (kv : KeyValue) (h : kv.wf = true) : ofFields tblKV {} (kvFields kv) = kv.norm := by
  simp only [KeyValue.wf, Bool.and_eq_true] at h
  have hk : cstr (kv.key.getD []) = kv.key.getD [] := by
    cases hkk : kv.key with
    | none => rfl
    | some b => exact cstr_of_okOpt kv.key h.1 b hkk
  simp only [kvFields, ofFields_append, piece_f1]
  have e1 : stepT tblKV ({} : KeyValue) 1 (.binary (kv.key.getD [])) = { key := some (kv.key.getD []), value := none } := by
    show ({ key := some (cstr (kv.key.getD [])), value := none } : KeyValue) = _
    rw [hk]
  rw [e1]
  rw [piece_opt _ _ 2 .binary kv.value (fun s o => { s with value := o })
    (fun x hx => by
      show ({ key := some (kv.key.getD []), value := some (cstr x) } : KeyValue) = _
      rw [cstr_of_okOpt kv.value h.2 x hx]) rfl]
  rfl

theorem kv_ok (R : Nat) (kv : KeyValue) : okFields tblKV R (kvFields kv) := by
  simp only [kvFields, okFields_append]
  exact ⟨okFields_f1 _ _ _ _ ⟨_, rfl⟩, okFields_fOpt _ _ _ _ _ (fun x _ => ⟨x, rfl⟩)⟩

theorem isStr_getD (o : Option Bytes) (h : okOpt isStr o = true) : isStr (o.getD []) = true := by
  cases o with
  | none => rfl
  | some b => exact h

theorem kv_wf (kv : KeyValue) (h : kv.wf = true) : (keyValueTV kv).wf = true := by
  simp only [KeyValue.wf, Bool.and_eq_true] at h
  rw [keyValueTV_eq]
  simp only [TVal.wf, kvFields, wfFields_append, Bool.and_eq_true]
  exact ⟨wfFields_f1 1 _ (by omega) (by omega) (wf_bin (isBin_of_isStr (isStr_getD _ h.1))),
    wfFields_fOpt 2 _ _ (by omega) (by omega) (fun x hx => wf_bin (isBin_of_isStr (okOpt_some h.2 hx)))⟩

/-! ### LogicalType -/

/-- the member list of the LogicalType union value -/
def logicalFields (lt : LogicalType) : Fields := asFields (logicalTypeTV lt)

theorem logicalTypeTV_eq (lt : LogicalType) : logicalTypeTV lt = .struct (logicalFields lt) := by
  cases lt <;> rfl

theorem logical_of (R : Nat) (lt : LogicalType) :
    ofFields (tblLogical R) (.unknown, false) (logicalFields lt) = (lt, false) := by
  cases lt with
  | time utc u => cases u <;> rfl
  | timestamp utc u => cases u <;> rfl
  | _ => rfl

theorem okT_skip {σ : Type} (tbl : Table σ) (R : Nat) (id : Int) (v : TVal) (f : σ → σ) (k : Nat)
    (hl : lookupT tbl id = some (semSkip k f)) (hd : v.depth ≤ k) : okT tbl R id v := by
  unfold okT; rw [hl]; exact hd

theorem okT_struct {σ β : Type} (tbl : Table σ) (R : Nat) (id : Int) (fs : Fields) (okf : Fields → Prop) (of : Fields → β)
    (set : σ → β → σ) (hl : lookupT tbl id = some (semStruct okf of set)) (h : okf fs) : okT tbl R id (.struct fs) := by
  unfold okT; rw [hl]; exact ⟨fs, rfl, h⟩

theorem emptyStruct_depth : (TVal.struct []).depth = 1 := rfl

theorem timeUnit_okFields (R : Nat) (hR : 1 ≤ R) (u : TimeUnit) : okTimeUnit R (asFields (timeUnitTV u)) := by
  cases u <;>
  · intro f hf
    simp only [timeUnitTV, asFields, f1, List.mem_singleton] at hf
    subst hf
    exact okT_skip _ _ _ _ _ R rfl (by rw [emptyStruct_depth]; exact hR)

theorem time_okFields (R : Nat) (hR : 1 ≤ R) (utc : Bool) (u : TimeUnit) : okFields (tblTime R) (R + 1) (asFields (timeTV utc u)) := by
  simp only [timeTV, asFields, okFields_append]
  refine ⟨okFields_f1 _ _ _ _ ⟨utc, rfl⟩, okFields_f1 _ _ _ _ ?_⟩
  cases u
  · exact ⟨_, rfl, timeUnit_okFields R hR .millis⟩
  · exact ⟨_, rfl, timeUnit_okFields R hR .micros⟩
  · exact ⟨_, rfl, timeUnit_okFields R hR .nanos⟩

theorem logical_okFields (R : Nat) (hR : 1 ≤ R) (lt : LogicalType) : okFields (tblLogical R) (R + 2) (logicalFields lt) := by
  have hskip : ∀ (id : Int) (f : LogicalType × Bool → LogicalType × Bool),
      lookupT (tblLogical R) id = some (semSkip (R + 2) f) → okFields (tblLogical R) (R + 2) (f1 id (.struct [])) :=
    fun id f hl => okFields_f1 _ _ _ _ (okT_skip _ _ _ _ _ (R + 2) hl (by rw [emptyStruct_depth]; omega))
  cases lt with
  | unknown => exact okFields_nil _ _
  | string => exact hskip 1 _ rfl
  | map => exact hskip 2 _ rfl
  | list => exact hskip 3 _ rfl
  | enum => exact hskip 4 _ rfl
  | decimal s p =>
    refine okFields_f1 _ _ _ _ (okT_struct _ _ 5 _ _ _ _ rfl ?_)
    exact (okFields_append _ _ _ _).mpr ⟨okFields_f1 _ _ _ _ ⟨s, rfl⟩, okFields_f1 _ _ _ _ ⟨p, rfl⟩⟩
  | date => exact hskip 6 _ rfl
  | time utc u => exact okFields_f1 _ _ _ _ (okT_struct _ _ 7 _ _ _ _ rfl (time_okFields R hR utc u))
  | timestamp utc u => exact okFields_f1 _ _ _ _ (okT_struct _ _ 8 _ _ _ _ rfl (time_okFields R hR utc u))
  | integer bw sg =>
    refine okFields_f1 _ _ _ _ (okT_struct _ _ 10 _ _ _ _ rfl ?_)
    exact (okFields_append _ _ _ _).mpr ⟨okFields_f1 _ _ _ _ ⟨bw, rfl⟩, okFields_f1 _ _ _ _ ⟨sg, rfl⟩⟩
  | null => exact hskip 11 _ rfl
  | json => exact hskip 12 _ rfl
  | bson => exact hskip 13 _ rfl
  | uuid => exact hskip 14 _ rfl
  | float16 => exact hskip 15 _ rfl

theorem logical_ok (R : Nat) (hR : 1 ≤ R) (lt : LogicalType) : okLogical R (logicalFields lt) :=
  ⟨logical_okFields R hR lt, by rw [logical_of]⟩

theorem logical_wf (lt : LogicalType) (h : lt.wf = true) : (logicalTypeTV lt).wf = true := by
  cases lt with
  | decimal s p =>
    simp only [LogicalType.wf, Bool.and_eq_true] at h
    have h1 := isI32_inI32 h.1
    have h2 := isI32_inI32 h.2
    simp [logicalTypeTV, f1, TVal.wf, wfFields, inI16, h1, h2]
  | integer bw sg =>
    simp only [LogicalType.wf] at h
    have h1 := isI8_inI8 h
    simp [logicalTypeTV, f1, TVal.wf, wfFields, inI16, h1]
  | time utc u => cases u <;> simp [logicalTypeTV, timeTV, timeUnitTV, f1, TVal.wf, wfFields, inI16]
  | timestamp utc u => cases u <;> simp [logicalTypeTV, timeTV, timeUnitTV, f1, TVal.wf, wfFields, inI16]
  | _ => simp [logicalTypeTV, TVal.wf, wfFields, inI16]

/-! ### SchemaElement -/

def schemaFields (s : SchemaElement) : Fields :=
  fOpt 1 .i32 s.type ++ fPos 2 s.typeLength ++ fOpt 3 .i32 s.repetition ++ fOpt 4 .binary s.name ++
    fPos 5 s.numChildren ++ fOpt 6 .i32 s.convertedType ++ fNonZero 7 s.scale ++ fNonZero 8 s.precision ++
    fOpt 9 .i32 s.fieldId ++ fLogical s.logicalType

theorem schemaElementTV_eq (s : SchemaElement) : schemaElementTV s = .struct (schemaFields s) := rfl

theorem piece_logical (R : Nat) (s : SchemaElement) (lt : Option LogicalType) (hn : s.logicalType = none) :
    ofFields (tblSchema R) s (fLogical lt) = { s with logicalType := normLogical lt } := by
  cases lt with
  | none => cases s; simp_all [fLogical, normLogical, ofFields]
  | some l =>
    by_cases hu : l = .unknown
    · subst hu; cases s; simp_all [fLogical, normLogical, ofFields]
    · have h2 : fLogical (some l) = f1 10 (logicalTypeTV l) := by cases l <;> first | contradiction | rfl
      have h3 : normLogical (some l) = some l := by cases l <;> first | contradiction | rfl
      rw [h2, h3, piece_f1, logicalTypeTV_eq]
      show ({ s with logicalType := some (ofFields (tblLogical R) (.unknown, false) (logicalFields l)).1 } : SchemaElement) = _
      rw [logical_of]

theorem schema_of (R : Nat) (s : SchemaElement) (h : s.wf = true) : ofFields (tblSchema R) {} (schemaFields s) = s.norm := by
  have hname : okOpt isStr s.name = true := by
    simp only [SchemaElement.wf, Bool.and_eq_true] at h; exact h.1.1.1.1.1.1.2
  simp only [schemaFields, ofFields_append]
  rw [piece_opt _ _ 1 .i32 s.type (fun s o => { s with type := o }) (fun _ _ => rfl) rfl]
  rw [piece_pos _ _ 2 s.typeLength (fun s x => { s with typeLength := x }) (fun _ => rfl) rfl]
  rw [piece_opt _ _ 3 .i32 s.repetition (fun s o => { s with repetition := o }) (fun _ _ => rfl) rfl]
  rw [piece_opt _ _ 4 .binary s.name (fun s o => { s with name := o })
    (fun x hx => by
      show ({ type := s.type, typeLength := if 0 < s.typeLength then s.typeLength else 0, repetition := s.repetition,
              name := some (cstr x) } : SchemaElement) = _
      rw [cstr_of_okOpt s.name hname x hx]) rfl]
  rw [piece_pos _ _ 5 s.numChildren (fun s x => { s with numChildren := x }) (fun _ => rfl) rfl]
  rw [piece_opt _ _ 6 .i32 s.convertedType (fun s o => { s with convertedType := o }) (fun _ _ => rfl) rfl]
  rw [piece_nonzero _ _ 7 s.scale (fun s x => { s with scale := x }) (fun _ => rfl) rfl]
  rw [piece_nonzero _ _ 8 s.precision (fun s x => { s with precision := x }) (fun _ => rfl) rfl]
  rw [piece_opt _ _ 9 .i32 s.fieldId (fun s o => { s with fieldId := o }) (fun _ _ => rfl) rfl]
  rw [piece_logical R _ s.logicalType rfl]
  rfl

theorem fLogical_cases (lt : Option LogicalType) : fLogical lt = [] ∨ ∃ l, lt = some l ∧ fLogical lt = f1 10 (logicalTypeTV l) := by
  cases lt with
  | none => exact Or.inl rfl
  | some l =>
    by_cases hu : l = .unknown
    · subst hu; exact Or.inl rfl
    · exact Or.inr ⟨l, rfl, by cases l <;> first | contradiction | rfl⟩

theorem schema_ok (R : Nat) (hR : 1 ≤ R) (s : SchemaElement) : okFields (tblSchema R) (R + 3) (schemaFields s) := by
  simp only [schemaFields, okFields_append]
  refine ⟨⟨⟨⟨⟨⟨⟨⟨⟨?_, ?_⟩, ?_⟩, ?_⟩, ?_⟩, ?_⟩, ?_⟩, ?_⟩, ?_⟩, ?_⟩
  · exact okFields_fOpt _ _ _ _ _ (fun x _ => ⟨x, rfl⟩)
  · exact okFields_fPos _ _ _ _ ⟨_, rfl⟩
  · exact okFields_fOpt _ _ _ _ _ (fun x _ => ⟨x, rfl⟩)
  · exact okFields_fOpt _ _ _ _ _ (fun x _ => ⟨x, rfl⟩)
  · exact okFields_fPos _ _ _ _ ⟨_, rfl⟩
  · exact okFields_fOpt _ _ _ _ _ (fun x _ => ⟨x, rfl⟩)
  · exact okFields_fNonZero _ _ _ _ ⟨_, rfl⟩
  · exact okFields_fNonZero _ _ _ _ ⟨_, rfl⟩
  · exact okFields_fOpt _ _ _ _ _ (fun x _ => ⟨x, rfl⟩)
  · rcases fLogical_cases s.logicalType with h | ⟨l, _, h⟩
    · rw [h]; exact okFields_nil _ _
    · rw [h, logicalTypeTV_eq]
      exact okFields_f1 _ _ _ _ (okT_struct _ _ 10 _ _ _ _ rfl (logical_ok R hR l))

theorem wfFields_fPos (id : Int) (v : Int) (h0 : -32768 ≤ id) (h1 : id ≤ 32767) (hv : isI32 v = true) : wfFields (fPos id v) = true := by
  unfold fPos; split
  · exact wfFields_f1 id _ h0 h1 (wf_i32 hv)
  · rfl
theorem wfFields_fNonZero (id : Int) (v : Int) (h0 : -32768 ≤ id) (h1 : id ≤ 32767) (hv : isI32 v = true) : wfFields (fNonZero id v) = true := by
  unfold fNonZero; split
  · rfl
  · exact wfFields_f1 id _ h0 h1 (wf_i32 hv)

theorem schema_wf (s : SchemaElement) (h : s.wf = true) : (schemaElementTV s).wf = true := by
  simp only [SchemaElement.wf, Bool.and_eq_true] at h
  obtain ⟨⟨⟨⟨⟨⟨⟨⟨⟨h1, h2⟩, h3⟩, h4⟩, h5⟩, h6⟩, h7⟩, h8⟩, h9⟩, h10⟩ := h
  rw [schemaElementTV_eq]
  simp only [TVal.wf, schemaFields, wfFields_append, Bool.and_eq_true]
  refine ⟨⟨⟨⟨⟨⟨⟨⟨⟨?_, ?_⟩, ?_⟩, ?_⟩, ?_⟩, ?_⟩, ?_⟩, ?_⟩, ?_⟩, ?_⟩
  · exact wfFields_fOpt 1 _ _ (by omega) (by omega) (fun x hx => wf_i32 (okOpt_some h1 hx))
  · exact wfFields_fPos 2 _ (by omega) (by omega) h2
  · exact wfFields_fOpt 3 _ _ (by omega) (by omega) (fun x hx => wf_i32 (okOpt_some h3 hx))
  · exact wfFields_fOpt 4 _ _ (by omega) (by omega) (fun x hx => wf_bin (isBin_of_isStr (okOpt_some h4 hx)))
  · exact wfFields_fPos 5 _ (by omega) (by omega) h5
  · exact wfFields_fOpt 6 _ _ (by omega) (by omega) (fun x hx => wf_i32 (okOpt_some h6 hx))
  · exact wfFields_fNonZero 7 _ (by omega) (by omega) h7
  · exact wfFields_fNonZero 8 _ (by omega) (by omega) h8
  · exact wfFields_fOpt 9 _ _ (by omega) (by omega) (fun x hx => wf_i32 (okOpt_some h9 hx))
  · rcases fLogical_cases s.logicalType with h | ⟨l, hl, h⟩
    · rw [h]; rfl
    · rw [h]; exact wfFields_f1 10 _ (by omega) (by omega) (logical_wf l (okOpt_some h10 hl))

/-! ### ColumnMetaData -/

def cmFields (m : ColumnMetaData) : Fields :=
  f1 1 (.i32 m.type) ++ f1 2 (.list .i32 (m.encodings.map .i32)) ++ f1 3 (.list .binary (m.pathInSchema.map .binary)) ++
    f1 4 (.i32 m.codec) ++ f1 5 (.i64 m.numValues) ++ f1 6 (.i64 m.totalUncompressedSize) ++ f1 7 (.i64 m.totalCompressedSize) ++
    f1 9 (.i64 m.dataPageOffset) ++ fOpt 10 .i64 m.indexPageOffset ++ fOpt 11 .i64 m.dictionaryPageOffset ++
    fOpt 12 statisticsTV m.statistics ++ fOpt 14 .i64 m.bloomFilterOffset ++ fOpt 15 .i32 m.bloomFilterLength

theorem columnMetaDataTV_eq (m : ColumnMetaData) : columnMetaDataTV m = .struct (cmFields m) := rfl

theorem map_i32_asInt (xs : List Int) : (xs.map TVal.i32).map asInt = xs := by
  rw [List.map_map]; exact List.map_id'' (fun _ => rfl) xs

theorem map_binary_cstr (xs : List Bytes) (h : xs.all isStr = true) : (xs.map TVal.binary).map (fun v => cstr (asBin v)) = xs := by
  simp only [List.all_eq_true] at h
  induction xs with
  | nil => rfl
  | cons x r ih =>
    show cstr x :: (r.map TVal.binary).map (fun v => cstr (asBin v)) = x :: r
    rw [cstr_of_isStr x (h x List.mem_cons_self), ih (fun y hy => h y (List.mem_cons_of_mem _ hy))]

theorem cm_of (R : Nat) (m : ColumnMetaData) (h : m.wf = true) : ofFields (tblColumnMeta R) {} (cmFields m) = m.norm := by
  have hpath : m.pathInSchema.all isStr = true := by
    simp only [ColumnMetaData.wf, Bool.and_eq_true] at h; exact h.1.1.1.1.1.1.1.1.1.1.1.2
  have hstats : okOpt Statistics.wf m.statistics = true := by
    simp only [ColumnMetaData.wf, Bool.and_eq_true] at h; exact h.1.1.2
  simp only [cmFields, ofFields_append, piece_f1]
  have e2 : ∀ s : ColumnMetaData, stepT (tblColumnMeta R) s 2 (.list .i32 (m.encodings.map .i32)) = { s with encodings := m.encodings } := by
    intro s
    show ({ s with encodings := (m.encodings.map TVal.i32).map asInt } : ColumnMetaData) = _
    rw [map_i32_asInt]
  have e3 : ∀ s : ColumnMetaData, stepT (tblColumnMeta R) s 3 (.list .binary (m.pathInSchema.map .binary)) = { s with pathInSchema := m.pathInSchema } := by
    intro s
    show ({ s with pathInSchema := (m.pathInSchema.map TVal.binary).map (fun v => cstr (asBin v)) } : ColumnMetaData) = _
    rw [map_binary_cstr _ hpath]
  have e12 : ∀ (s : ColumnMetaData) (x : Statistics),
      stepT (tblColumnMeta R) s 12 (statisticsTV x) = { s with statistics := some x.norm } := by
    intro s x
    show ({ s with statistics := some (ofFields tblStats {} (asFields (statisticsTV x))) } : ColumnMetaData) = _
    rw [statisticsTV_eq]
    simp only [asFields, stats_of]
  have e1 : ∀ (s : ColumnMetaData) x, stepT (tblColumnMeta R) s 1 (.i32 x) = { s with type := x } := fun _ _ => rfl
  have e4 : ∀ (s : ColumnMetaData) x, stepT (tblColumnMeta R) s 4 (.i32 x) = { s with codec := x } := fun _ _ => rfl
  have e5 : ∀ (s : ColumnMetaData) x, stepT (tblColumnMeta R) s 5 (.i64 x) = { s with numValues := x } := fun _ _ => rfl
  have e6 : ∀ (s : ColumnMetaData) x, stepT (tblColumnMeta R) s 6 (.i64 x) = { s with totalUncompressedSize := x } := fun _ _ => rfl
  have e7 : ∀ (s : ColumnMetaData) x, stepT (tblColumnMeta R) s 7 (.i64 x) = { s with totalCompressedSize := x } := fun _ _ => rfl
  have e9 : ∀ (s : ColumnMetaData) x, stepT (tblColumnMeta R) s 9 (.i64 x) = { s with dataPageOffset := x } := fun _ _ => rfl
  rw [e1, e2, e3, e4, e5, e6, e7, e9]
  try dsimp only
  rw [piece_opt _ _ 10 .i64 m.indexPageOffset (fun s o => { s with indexPageOffset := o }) (fun _ _ => rfl) rfl]
  try dsimp only
  rw [piece_opt _ _ 11 .i64 m.dictionaryPageOffset (fun s o => { s with dictionaryPageOffset := o }) (fun _ _ => rfl) rfl]
  try dsimp only
  rw [piece_opt _ _ 12 statisticsTV m.statistics (fun s o => { s with statistics := o.map Statistics.norm })
    (fun x _ => e12 _ x) rfl]
  try dsimp only
  rw [piece_opt _ _ 14 .i64 m.bloomFilterOffset (fun s o => { s with bloomFilterOffset := o }) (fun _ _ => rfl) rfl]
  try dsimp only
  rw [piece_opt _ _ 15 .i32 m.bloomFilterLength (fun s o => { s with bloomFilterLength := o }) (fun _ _ => rfl) rfl]
  try dsimp only
  rfl

theorem okT_list {σ β : Type} (tbl : Table σ) (R : Nat) (id : Int) (max : Int) (shapeE : TVal → Prop) (conv : TVal → β)
    (set : σ → List β → σ) (et : TType) (xs : List TVal)
    (hl : lookupT tbl id = some (semList max shapeE conv set)) (hmax : (xs.length : Int) ≤ max) (hx : ∀ x ∈ xs, shapeE x) :
    okT tbl R id (.list et xs) := by
  unfold okT; rw [hl]; exact ⟨et, xs, rfl, hmax, hx⟩

theorem cm_ok (R : Nat) (m : ColumnMetaData) (h : m.wf = true) : okFields (tblColumnMeta R) (R + 1) (cmFields m) := by
  simp only [ColumnMetaData.wf, Bool.and_eq_true, decide_eq_true_eq] at h
  obtain ⟨⟨⟨⟨⟨⟨⟨⟨⟨⟨⟨⟨⟨⟨_, _⟩, he⟩, _⟩, hp⟩, _⟩, _⟩, _⟩, _⟩, _⟩, _⟩, _⟩, _⟩, _⟩, _⟩ := h
  simp only [cmFields, okFields_append]
  refine ⟨⟨⟨⟨⟨⟨⟨⟨⟨⟨⟨⟨?_, ?_⟩, ?_⟩, ?_⟩, ?_⟩, ?_⟩, ?_⟩, ?_⟩, ?_⟩, ?_⟩, ?_⟩, ?_⟩, ?_⟩
  · exact okFields_f1 _ _ _ _ ⟨_, rfl⟩
  · refine okFields_f1 _ _ _ _ (okT_list _ _ 2 _ _ _ _ _ _ rfl (by simpa using he) ?_)
    intro x hx; obtain ⟨n, _, rfl⟩ := List.mem_map.mp hx; exact ⟨n, rfl⟩
  · refine okFields_f1 _ _ _ _ (okT_list _ _ 3 _ _ _ _ _ _ rfl (by simpa using hp) ?_)
    intro x hx; obtain ⟨n, _, rfl⟩ := List.mem_map.mp hx; exact ⟨n, rfl⟩
  · exact okFields_f1 _ _ _ _ ⟨_, rfl⟩
  · exact okFields_f1 _ _ _ _ ⟨_, rfl⟩
  · exact okFields_f1 _ _ _ _ ⟨_, rfl⟩
  · exact okFields_f1 _ _ _ _ ⟨_, rfl⟩
  · exact okFields_f1 _ _ _ _ ⟨_, rfl⟩
  · exact okFields_fOpt _ _ _ _ _ (fun x _ => ⟨x, rfl⟩)
  · exact okFields_fOpt _ _ _ _ _ (fun x _ => ⟨x, rfl⟩)
  · exact okFields_fOpt _ _ _ _ _ (fun x _ => okT_struct _ _ 12 _ _ _ _ rfl (stats_ok R x))
  · exact okFields_fOpt _ _ _ _ _ (fun x _ => ⟨x, rfl⟩)
  · exact okFields_fOpt _ _ _ _ _ (fun x _ => ⟨x, rfl⟩)

theorem wf_list {α : Type} (et : TType) (tv : α → TVal) (xs : List α) (hlen : xs.length < 2 ^ 31)
    (h : ∀ x ∈ xs, (tv x).ty = et ∧ (tv x).wf = true) : (TVal.list et (xs.map tv)).wf = true := by
  simp only [TVal.wf, List.length_map, Bool.and_eq_true, decide_eq_true_eq]
  exact ⟨hlen, wfElems_map et tv xs h⟩

theorem small_lt (n : Nat) (m : Int) (h : (n : Int) ≤ m) (hm : m ≤ 100000) : n < 2 ^ 31 := by
  have : (2:Nat)^31 = 2147483648 := by decide
  omega

theorem cm_wf (m : ColumnMetaData) (h : m.wf = true) : (columnMetaDataTV m).wf = true := by
  simp only [ColumnMetaData.wf, Bool.and_eq_true, decide_eq_true_eq] at h
  obtain ⟨⟨⟨⟨⟨⟨⟨⟨⟨⟨⟨⟨⟨⟨h1, h2⟩, he⟩, h3⟩, hp⟩, h4⟩, h5⟩, h6⟩, h7⟩, h9⟩, h10⟩, h11⟩, h12⟩, h14⟩, h15⟩ := h
  simp only [List.all_eq_true] at h2 h3
  rw [columnMetaDataTV_eq]
  simp only [TVal.wf, cmFields, wfFields_append, Bool.and_eq_true]
  refine ⟨⟨⟨⟨⟨⟨⟨⟨⟨⟨⟨⟨?_, ?_⟩, ?_⟩, ?_⟩, ?_⟩, ?_⟩, ?_⟩, ?_⟩, ?_⟩, ?_⟩, ?_⟩, ?_⟩, ?_⟩
  · exact wfFields_f1 1 _ (by omega) (by omega) (wf_i32 h1)
  · exact wfFields_f1 2 _ (by omega) (by omega)
      (wf_list .i32 .i32 _ (small_lt _ _ he (by simp [maxEncodings])) (fun x hx => ⟨rfl, wf_i32 (h2 x hx)⟩))
  · exact wfFields_f1 3 _ (by omega) (by omega)
      (wf_list .binary .binary _ (small_lt _ _ hp (by simp [maxPathElements])) (fun x hx => ⟨rfl, wf_bin (isBin_of_isStr (h3 x hx))⟩))
  · exact wfFields_f1 4 _ (by omega) (by omega) (wf_i32 h4)
  · exact wfFields_f1 5 _ (by omega) (by omega) (wf_i64 h5)
  · exact wfFields_f1 6 _ (by omega) (by omega) (wf_i64 h6)
  · exact wfFields_f1 7 _ (by omega) (by omega) (wf_i64 h7)
  · exact wfFields_f1 9 _ (by omega) (by omega) (wf_i64 h9)
  · exact wfFields_fOpt 10 _ _ (by omega) (by omega) (fun x hx => wf_i64 (okOpt_some h10 hx))
  · exact wfFields_fOpt 11 _ _ (by omega) (by omega) (fun x hx => wf_i64 (okOpt_some h11 hx))
  · exact wfFields_fOpt 12 _ _ (by omega) (by omega) (fun x hx => stats_wf x (okOpt_some h12 hx))
  · exact wfFields_fOpt 14 _ _ (by omega) (by omega) (fun x hx => wf_i64 (okOpt_some h14 hx))
  · exact wfFields_fOpt 15 _ _ (by omega) (by omega) (fun x hx => wf_i32 (okOpt_some h15 hx))

/-! ### ColumnChunk -/

def ccFields (c : ColumnChunk) : Fields :=
  fOpt 1 .binary c.filePath ++ f1 2 (.i64 c.fileOffset) ++ fOpt 3 columnMetaDataTV c.metaData ++
    fOpt 4 .i64 c.offsetIndexOffset ++ fOpt 5 .i32 c.offsetIndexLength ++ fOpt 6 .i64 c.columnIndexOffset ++
    fOpt 7 .i32 c.columnIndexLength

theorem columnChunkTV_eq (c : ColumnChunk) : columnChunkTV c = .struct (ccFields c) := rfl

theorem cc_of (R : Nat) (c : ColumnChunk) (h : c.wf = true) : ofFields (tblColumnChunk R) {} (ccFields c) = c.norm := by
  simp only [ColumnChunk.wf, Bool.and_eq_true] at h
  obtain ⟨⟨⟨⟨⟨⟨hp, _⟩, hm⟩, _⟩, _⟩, _⟩, _⟩ := h
  have e2 : ∀ (s : ColumnChunk) x, stepT (tblColumnChunk R) s 2 (.i64 x) = { s with fileOffset := x } := fun _ _ => rfl
  have e3 : ∀ (s : ColumnChunk) (x : ColumnMetaData), x.wf = true →
      stepT (tblColumnChunk R) s 3 (columnMetaDataTV x) = { s with metaData := some x.norm } := by
    intro s x hx
    show ({ s with metaData := some (ofFields (tblColumnMeta R) {} (asFields (columnMetaDataTV x))) } : ColumnChunk) = _
    rw [columnMetaDataTV_eq]
    simp only [asFields, cm_of R x hx]
  simp only [ccFields, ofFields_append, piece_f1]
  rw [piece_opt _ _ 1 .binary c.filePath (fun s o => { s with filePath := o })
    (fun x hx => by
      show ({ filePath := some (cstr x) } : ColumnChunk) = _
      rw [cstr_of_okOpt c.filePath hp x hx]) rfl]
  rw [e2]
  try dsimp only
  rw [piece_opt _ _ 3 columnMetaDataTV c.metaData (fun s o => { s with metaData := o.map ColumnMetaData.norm })
    (fun x hx => e3 _ x (okOpt_some hm hx)) rfl]
  try dsimp only
  rw [piece_opt _ _ 4 .i64 c.offsetIndexOffset (fun s o => { s with offsetIndexOffset := o }) (fun _ _ => rfl) rfl]
  try dsimp only
  rw [piece_opt _ _ 5 .i32 c.offsetIndexLength (fun s o => { s with offsetIndexLength := o }) (fun _ _ => rfl) rfl]
  try dsimp only
  rw [piece_opt _ _ 6 .i64 c.columnIndexOffset (fun s o => { s with columnIndexOffset := o }) (fun _ _ => rfl) rfl]
  try dsimp only
  rw [piece_opt _ _ 7 .i32 c.columnIndexLength (fun s o => { s with columnIndexLength := o }) (fun _ _ => rfl) rfl]
  rfl

theorem cc_ok (R : Nat) (c : ColumnChunk) (h : c.wf = true) : okFields (tblColumnChunk R) (R + 2) (ccFields c) := by
  simp only [ColumnChunk.wf, Bool.and_eq_true] at h
  obtain ⟨⟨⟨⟨⟨⟨_, _⟩, hm⟩, _⟩, _⟩, _⟩, _⟩ := h
  simp only [ccFields, okFields_append]
  refine ⟨⟨⟨⟨⟨⟨?_, ?_⟩, ?_⟩, ?_⟩, ?_⟩, ?_⟩, ?_⟩
  · exact okFields_fOpt _ _ _ _ _ (fun x _ => ⟨x, rfl⟩)
  · exact okFields_f1 _ _ _ _ ⟨_, rfl⟩
  · exact okFields_fOpt _ _ _ _ _ (fun x hx => okT_struct _ _ 3 _ _ _ _ rfl (cm_ok R x (okOpt_some hm hx)))
  · exact okFields_fOpt _ _ _ _ _ (fun x _ => ⟨x, rfl⟩)
  · exact okFields_fOpt _ _ _ _ _ (fun x _ => ⟨x, rfl⟩)
  · exact okFields_fOpt _ _ _ _ _ (fun x _ => ⟨x, rfl⟩)
  · exact okFields_fOpt _ _ _ _ _ (fun x _ => ⟨x, rfl⟩)

theorem cc_wf (c : ColumnChunk) (h : c.wf = true) : (columnChunkTV c).wf = true := by
  simp only [ColumnChunk.wf, Bool.and_eq_true] at h
  obtain ⟨⟨⟨⟨⟨⟨h1, h2⟩, h3⟩, h4⟩, h5⟩, h6⟩, h7⟩ := h
  rw [columnChunkTV_eq]
  simp only [TVal.wf, ccFields, wfFields_append, Bool.and_eq_true]
  refine ⟨⟨⟨⟨⟨⟨?_, ?_⟩, ?_⟩, ?_⟩, ?_⟩, ?_⟩, ?_⟩
  · exact wfFields_fOpt 1 _ _ (by omega) (by omega) (fun x hx => wf_bin (isBin_of_isStr (okOpt_some h1 hx)))
  · exact wfFields_f1 2 _ (by omega) (by omega) (wf_i64 h2)
  · exact wfFields_fOpt 3 _ _ (by omega) (by omega) (fun x hx => cm_wf x (okOpt_some h3 hx))
  · exact wfFields_fOpt 4 _ _ (by omega) (by omega) (fun x hx => wf_i64 (okOpt_some h4 hx))
  · exact wfFields_fOpt 5 _ _ (by omega) (by omega) (fun x hx => wf_i32 (okOpt_some h5 hx))
  · exact wfFields_fOpt 6 _ _ (by omega) (by omega) (fun x hx => wf_i64 (okOpt_some h6 hx))
  · exact wfFields_fOpt 7 _ _ (by omega) (by omega) (fun x hx => wf_i32 (okOpt_some h7 hx))

/-! ### RowGroup -/

def rgFields (g : RowGroup) : Fields :=
  f1 1 (.list .struct (g.columns.map columnChunkTV)) ++ f1 2 (.i64 g.totalByteSize) ++ f1 3 (.i64 g.numRows) ++
    fOpt 5 .i64 g.fileOffset ++ fOpt 6 .i64 g.totalCompressedSize ++ fOpt 7 .i16 g.ordinal

theorem rowGroupTV_eq (g : RowGroup) : rowGroupTV g = .struct (rgFields g) := rfl

theorem map_tv_of {α β : Type} (tv : α → TVal) (conv : TVal → β) (nrm : α → β) (xs : List α)
    (h : ∀ x ∈ xs, conv (tv x) = nrm x) : (xs.map tv).map conv = xs.map nrm := by
  rw [List.map_map]
  exact List.map_congr_left (fun x hx => h x hx)

theorem rg_of (R : Nat) (g : RowGroup) (h : g.wf = true) : ofFields (tblRowGroup R) {} (rgFields g) = g.norm := by
  simp only [RowGroup.wf, Bool.and_eq_true, List.all_eq_true] at h
  obtain ⟨⟨⟨⟨⟨⟨hc, _⟩, _⟩, _⟩, _⟩, _⟩, _⟩ := h
  have e1 : ∀ (s : RowGroup), stepT (tblRowGroup R) s 1 (.list .struct (g.columns.map columnChunkTV)) =
      { s with columns := g.columns.map ColumnChunk.norm } := by
    intro s
    show ({ s with columns := (g.columns.map columnChunkTV).map (fun v => ofFields (tblColumnChunk R) {} (asFields v)) } : RowGroup) = _
    rw [map_tv_of columnChunkTV _ ColumnChunk.norm g.columns (fun c hc' => by
      rw [columnChunkTV_eq]; exact cc_of R c (hc c hc'))]
  have e2 : ∀ (s : RowGroup) x, stepT (tblRowGroup R) s 2 (.i64 x) = { s with totalByteSize := x } := fun _ _ => rfl
  have e3 : ∀ (s : RowGroup) x, stepT (tblRowGroup R) s 3 (.i64 x) = { s with numRows := x } := fun _ _ => rfl
  simp only [rgFields, ofFields_append, piece_f1]
  rw [e1, e2, e3]
  try dsimp only
  rw [piece_opt _ _ 5 .i64 g.fileOffset (fun s o => { s with fileOffset := o }) (fun _ _ => rfl) rfl]
  try dsimp only
  rw [piece_opt _ _ 6 .i64 g.totalCompressedSize (fun s o => { s with totalCompressedSize := o }) (fun _ _ => rfl) rfl]
  try dsimp only
  rw [piece_opt _ _ 7 .i16 g.ordinal (fun s o => { s with ordinal := o }) (fun _ _ => rfl) rfl]
  rfl

theorem rg_ok (R : Nat) (g : RowGroup) (h : g.wf = true) : okFields (tblRowGroup R) (R + 3) (rgFields g) := by
  simp only [RowGroup.wf, Bool.and_eq_true, List.all_eq_true, decide_eq_true_eq] at h
  obtain ⟨⟨⟨⟨⟨⟨hc, hl⟩, _⟩, _⟩, _⟩, _⟩, _⟩ := h
  simp only [rgFields, okFields_append]
  refine ⟨⟨⟨⟨⟨?_, ?_⟩, ?_⟩, ?_⟩, ?_⟩, ?_⟩
  · refine okFields_f1 _ _ _ _ (okT_list _ _ 1 _ _ _ _ _ _ rfl (by simpa using hl) ?_)
    intro x hx
    obtain ⟨c, hc', rfl⟩ := List.mem_map.mp hx
    exact ⟨_, columnChunkTV_eq c, cc_ok R c (hc c hc')⟩
  · exact okFields_f1 _ _ _ _ ⟨_, rfl⟩
  · exact okFields_f1 _ _ _ _ ⟨_, rfl⟩
  · exact okFields_fOpt _ _ _ _ _ (fun x _ => ⟨x, rfl⟩)
  · exact okFields_fOpt _ _ _ _ _ (fun x _ => ⟨x, rfl⟩)
  · exact okFields_fOpt _ _ _ _ _ (fun x _ => ⟨x, rfl⟩)

theorem rg_wf (g : RowGroup) (h : g.wf = true) : (rowGroupTV g).wf = true := by
  simp only [RowGroup.wf, Bool.and_eq_true, List.all_eq_true, decide_eq_true_eq] at h
  obtain ⟨⟨⟨⟨⟨⟨hc, hl⟩, h2⟩, h3⟩, h5⟩, h6⟩, h7⟩ := h
  rw [rowGroupTV_eq]
  simp only [TVal.wf, rgFields, wfFields_append, Bool.and_eq_true]
  refine ⟨⟨⟨⟨⟨?_, ?_⟩, ?_⟩, ?_⟩, ?_⟩, ?_⟩
  · exact wfFields_f1 1 _ (by omega) (by omega)
      (wf_list .struct columnChunkTV _ (small_lt _ _ hl (by simp [maxColumnsPerRg])) (fun c hc' => ⟨rfl, cc_wf c (hc c hc')⟩))
  · exact wfFields_f1 2 _ (by omega) (by omega) (wf_i64 h2)
  · exact wfFields_f1 3 _ (by omega) (by omega) (wf_i64 h3)
  · exact wfFields_fOpt 5 _ _ (by omega) (by omega) (fun x hx => wf_i64 (okOpt_some h5 hx))
  · exact wfFields_fOpt 6 _ _ (by omega) (by omega) (fun x hx => wf_i64 (okOpt_some h6 hx))
  · exact wfFields_fOpt 7 _ _ (by omega) (by omega) (fun x hx => wf_i16 (okOpt_some h7 hx))

end Carquet.Proofs.Thrift
