import Carquet.Proofs.ParDict
/-
C07, cold start: (1) stdio sections and table steps do not interact — erasing the table steps of a
schedule changes nobody's bytes; (2) the invariants of the cold-start workers (`execCold`).
-/
namespace Carquet.Proofs.Par
open Carquet.Impl.Par

/-! ### layer 1: stdio sections and table steps are independent -/

theorem bytesOf_append (p q : Priv) : bytesOf (p ++ q) = bytesOf p ++ bytesOf q := by
  simp [bytesOf]

theorem tablesOf_append (p q : Priv) : tablesOf (p ++ q) = tablesOf p ++ tablesOf q := by
  simp [tablesOf]

theorem isReadOf_isIO (f : Nat) (x : Prim) (h : Prim.isReadOf f x = true) : x.isIO = true := by
  cases x <;> simp_all [Prim.isReadOf, Prim.isIO]

theorem atomicIO_isIO (a : Action) (h : a.atomicIO = true) : a.isIO = true := by
  cases a with
  | prim q => cases q <;> simp_all [Action.atomicIO, Action.isIO, Action.prims, Prim.isIO]
  | crit ps =>
    cases ps with
    | nil => simp [Action.atomicIO] at h
    | cons q rest =>
      cases q with
      | seek f o =>
        simp only [Action.atomicIO] at h
        simp only [Action.isIO, Action.prims, List.all_cons, Prim.isIO, Bool.true_and]
        rw [List.all_eq_true] at h ⊢
        intro x hx
        exact isReadOf_isIO f x (h x hx)
      | read _ _ => simp [Action.atomicIO] at h
      | load _ _ => simp [Action.atomicIO] at h
      | initCell _ _ => simp [Action.atomicIO] at h
      | setFlag => simp [Action.atomicIO] at h
      | useTable => simp [Action.atomicIO] at h

theorem runSP_io_rel (ps : List Prim) (hio : ps.all Prim.isIO = true) :
    ∀ (sh sh' : Shared) (p p' : Priv), sh.file = sh'.file → sh.filePos = sh'.filePos →
      bytesOf p = bytesOf p' →
      (runSP ps sh p).1.file = (runSP ps sh' p').1.file ∧
      (runSP ps sh p).1.filePos = (runSP ps sh' p').1.filePos ∧
      bytesOf (runSP ps sh p).2 = bytesOf (runSP ps sh' p').2 := by
  induction ps with
  | nil => intro sh sh' p p' hf hp hb; exact ⟨hf, hp, hb⟩
  | cons q ps ih =>
    intro sh sh' p p' hf hp hb
    simp only [List.all_cons, Bool.and_eq_true] at hio
    cases q with
    | seek g o =>
      simp only [runSP, stepPrim]
      exact ih hio.2 _ _ _ _ hf (by simp [hp]) hb
    | read g n =>
      simp only [runSP, stepPrim]
      refine ih hio.2 _ _ _ _ hf (by simp [hp, hf]) ?_
      rw [bytesOf_append, bytesOf_append, hb, hf, hp]
    | load o n =>
      simp only [runSP, stepPrim]
      refine ih hio.2 _ _ _ _ hf hp ?_
      rw [bytesOf_append, bytesOf_append, hb, hf]
    | initCell _ _ => simp [Prim.isIO] at hio
    | setFlag => simp [Prim.isIO] at hio
    | useTable => simp [Prim.isIO] at hio

theorem runSP_table_keeps (ps : List Prim) (ht : ps.all Prim.isTable = true) :
    ∀ (sh : Shared) (p : Priv),
      (runSP ps sh p).1.file = sh.file ∧ (runSP ps sh p).1.filePos = sh.filePos ∧
      bytesOf (runSP ps sh p).2 = bytesOf p := by
  induction ps with
  | nil => intro sh p; exact ⟨rfl, rfl, rfl⟩
  | cons q ps ih =>
    intro sh p
    simp only [List.all_cons, Bool.and_eq_true] at ht
    cases q with
    | seek _ _ => simp [Prim.isTable] at ht
    | read _ _ => simp [Prim.isTable] at ht
    | load _ _ => simp [Prim.isTable] at ht
    | initCell i v =>
      simp only [runSP, stepPrim]
      exact ih ht.2 _ _
    | setFlag =>
      simp only [runSP, stepPrim]
      exact ih ht.2 _ _
    | useTable =>
      simp only [runSP, stepPrim]
      have := ih ht.2 sh (p ++ [.table sh.flag sh.table])
      refine ⟨this.1, this.2.1, ?_⟩
      rw [this.2.2, bytesOf_append]
      simp [bytesOf, Obs.isBytes]

/-- same bytes, same stream positions, same bytes obtained by everybody -/
def RelIO (st st' : State) : Prop :=
  st.sh.file = st'.sh.file ∧ st.sh.filePos = st'.sh.filePos ∧ ∀ w, bytesOf (st.pr w) = bytesOf (st'.pr w)

/-- erasing the table steps of a schedule changes nobody's bytes -/
theorem erase_table_actions (s : List (Worker × Action))
    (hcls : ∀ e ∈ s, e.2.atomicIO = true ∨ e.2.isTable = true) :
    ∀ st st', RelIO st st' → RelIO (exec s st) (exec (s.filter (fun e => e.2.atomicIO)) st') := by
  induction s with
  | nil => intro st st' h; exact h
  | cons e s ih =>
    intro st st' h
    obtain ⟨w, a⟩ := e
    have hrest : ∀ e ∈ s, e.2.atomicIO = true ∨ e.2.isTable = true :=
      fun e he => hcls e (List.mem_cons_of_mem _ he)
    by_cases ha : a.atomicIO = true
    · have hf : ((w, a) :: s).filter (fun e => e.2.atomicIO) = (w, a) :: s.filter (fun e => e.2.atomicIO) := by
        simp [ha]
      rw [hf, exec_cons, exec_cons]
      apply ih hrest
      have hio := atomicIO_isIO a ha
      have := runSP_io_rel a.prims hio st.sh st'.sh (st.pr w) (st'.pr w) h.1 h.2.1 (h.2.2 w)
      refine ⟨by simpa using this.1, by simpa using this.2.1, ?_⟩
      intro w'
      by_cases hw : w' = w
      · subst hw; simpa using this.2.2
      · rw [run_pr_other _ _ _ _ hw, run_pr_other _ _ _ _ hw]; exact h.2.2 w'
    · have hf : ((w, a) :: s).filter (fun e => e.2.atomicIO) = s.filter (fun e => e.2.atomicIO) := by
        simp [ha]
      rw [hf, exec_cons]
      apply ih hrest
      have ht : a.isTable = true := by
        rcases hcls (w, a) (List.mem_cons_self ..) with h1 | h1
        · exact absurd h1 ha
        · exact h1
      have := runSP_table_keeps a.prims ht st.sh (st.pr w)
      refine ⟨by simpa [this.1] using h.1, by simpa [this.2.1] using h.2.1, ?_⟩
      intro w'
      by_cases hw : w' = w
      · subst hw; rw [run_pr_self, this.2.2]; exact h.2.2 w'
      · rw [run_pr_other _ _ _ _ hw]; exact h.2.2 w'

theorem relIO_refl (st : State) : RelIO st st := ⟨rfl, rfl, fun _ => rfl⟩

theorem proj_filter (w : Worker) (q : Action → Bool) (s : List (Worker × Action)) :
    proj w (s.filter (fun e => q e.2)) = (proj w s).filter q := by
  induction s with
  | nil => rfl
  | cons e s ih =>
    obtain ⟨w0, a⟩ := e
    by_cases hq : q a = true
    · have : ((w0, a) :: s).filter (fun e => q e.2) = (w0, a) :: s.filter (fun e => q e.2) := by simp [hq]
      rw [this]
      by_cases hw : w0 = w
      · subst hw; rw [proj_cons_self, proj_cons_self, ih]; simp [hq]
      · rw [proj_cons_other _ _ _ _ hw, proj_cons_other _ _ _ _ hw, ih]
    · have : ((w0, a) :: s).filter (fun e => q e.2) = s.filter (fun e => q e.2) := by simp [hq]
      rw [this, ih]
      by_cases hw : w0 = w
      · subst hw; rw [proj_cons_self]; simp [hq]
      · rw [proj_cons_other _ _ _ _ hw]

theorem solo_filter (w : Worker) (q : Action → Bool) (l : List Action) :
    (solo w l).filter (fun e => q e.2) = solo w (l.filter q) := by
  induction l with
  | nil => rfl
  | cons a l ih =>
    by_cases hq : q a = true
    · simp only [solo, List.map_cons] at ih ⊢
      simp [hq, ih]
    · simp only [solo, List.map_cons] at ih ⊢
      simp [hq, ih]

theorem mem_proj {α : Type} {w : Worker} {a : α} {s : List (Worker × α)} (h : a ∈ proj w s) : (w, a) ∈ s := by
  simp only [proj, List.mem_map, List.mem_filter, beq_iff_eq] at h
  obtain ⟨e, ⟨he, hw⟩, rfl⟩ := h
  have : e = (w, e.2) := by cases e; simp at hw; simp [hw]
  rw [← this]; exact he

/-- In a schedule made of atomic stdio sections and table steps, the bytes a worker obtains are the
bytes it obtains when its own actions of the schedule run alone.  `hsolo` is the statement for
schedules of atomic sections only (C07_fread_atomic_sections in its any-schedule form). -/
theorem mixed_schedule_bytes
    (hsolo : ∀ (s : List (Worker × Action)), (∀ e ∈ s, e.2.atomicIO = true) → ∀ (st : State) (w : Worker),
      (exec s st).pr w = (exec (solo w (proj w s)) st).pr w)
    (s : List (Worker × Action)) (hcls : ∀ e ∈ s, e.2.atomicIO = true ∨ e.2.isTable = true)
    (st : State) (w : Worker) :
    bytesOf ((exec s st).pr w) = bytesOf ((exec (solo w (proj w s)) st).pr w) ∧
    bytesOf ((exec s st).pr w) =
      bytesOf ((exec (solo w ((proj w s).filter (fun a => a.atomicIO))) st).pr w) := by
  have h1 := (erase_table_actions s hcls st st (relIO_refl st)).2.2 w
  have h2 := hsolo (s.filter (fun e => e.2.atomicIO)) (by
    intro e he; exact (List.mem_filter.1 he).2) st w
  rw [proj_filter w (fun a => a.atomicIO) s] at h2
  have hcls' : ∀ e ∈ solo w (proj w s), e.2.atomicIO = true ∨ e.2.isTable = true := by
    intro e he
    simp only [solo, List.mem_map] at he
    obtain ⟨a, ha, rfl⟩ := he
    exact hcls (w, a) (mem_proj ha)
  have h3 := (erase_table_actions (solo w (proj w s)) hcls' st st (relIO_refl st)).2.2 w
  rw [solo_filter w (fun a => a.atomicIO) (proj w s)] at h3
  refine ⟨?_, ?_⟩
  · rw [h1, h2, h3]
  · rw [h1, h2]

/-! ### layer 2: the cold-start workers -/

theorem execCold_append (init : List Action) (s t : List Worker) (cs : CState) :
    execCold init (s ++ t) cs =
      ((execCold init t (execCold init s cs).1).1,
       (execCold init s cs).2 ++ (execCold init t (execCold init s cs).1).2) := by
  induction s generalizing cs with
  | nil => simp [execCold]
  | cons w s ih => simp [execCold, ih, List.append_assoc]

/-- the (flag, table) pair every CRC call ends up using -/
def useObs (vals : List Nat) : Obs := .table true (vals.map some)

/-- 1 if a table use is pending (the flag check of a CRC call has been made, its use not yet) -/
def pend : List Instr → Nat
  | .use :: _ => 1
  | .initAt _ :: _ => 1
  | _ => 0

def userList (u : List Instr) : Bool := u.all Instr.isUser

/-- the three shapes a worker's remaining instructions can have -/
def shapeOK : List Instr → Bool
  | .use :: u => userList u
  | .initAt _ :: .use :: u => userList u
  | u => userList u

theorem usesOf_append_even (T : Priv) (c : Obs) (m : Nat) (h : T.length = 2 * m) :
    usesOf (T ++ [c]) = usesOf T := by
  induction m generalizing T with
  | zero => cases T with
    | nil => rfl
    | cons _ _ => simp at h
  | succ m ih =>
    match T, h with
    | a :: b :: T', h =>
      have : T'.length = 2 * m := by simp at h; omega
      simp [usesOf, ih T' this]

theorem usesOf_append_odd (T : Priv) (u : Obs) (m : Nat) (h : T.length = 2 * m + 1) :
    usesOf (T ++ [u]) = usesOf T ++ [u] := by
  induction m generalizing T with
  | zero =>
    match T, h with
    | [a], _ => rfl
  | succ m ih =>
    match T, h with
    | a :: b :: T', h =>
      have : T'.length = 2 * m + 1 := by simp at h; omega
      simp [usesOf, ih T' this]

theorem initDiscipline_append {n : Nat} {good : Nat → Nat → Prop} {l1 l2 : List Prim}
    (h1 : InitDiscipline n good l1) (h2 : InitDiscipline n good l2) : InitDiscipline n good (l1 ++ l2) := by
  refine ⟨?_, ?_⟩
  · intro i v hm
    rcases List.mem_append.1 hm with hm | hm
    · exact h1.1 i v hm
    · exact h2.1 i v hm
  · intro pre post e i hi
    rcases List.append_eq_append_iff.1 e with ⟨a', ha1, ha2⟩ | ⟨c', hc1, hc2⟩
    · -- pre = l1 ++ a', l2 = a' ++ setFlag :: post
      obtain ⟨v, hv⟩ := h2.2 a' post ha2 i hi
      exact ⟨v, by rw [ha1]; exact List.mem_append_right _ hv⟩
    · -- l1 = pre ++ c', setFlag :: post = c' ++ l2
      cases c' with
      | nil =>
        simp only [List.nil_append] at hc2
        obtain ⟨v, hv⟩ := h2.2 [] post hc2.symm i hi
        simp at hv
      | cons x xs =>
        simp only [List.cons_append, List.cons.injEq] at hc2
        obtain ⟨v, hv⟩ := h1.2 pre xs (by rw [hc1, hc2.1]) i hi
        exact ⟨v, hv⟩

theorem initDiscipline_tablefree {n : Nat} {good : Nat → Nat → Prop} (l : List Prim)
    (h : ∀ q ∈ l, (∀ i v, q ≠ Prim.initCell i v) ∧ q ≠ Prim.setFlag) : InitDiscipline n good l := by
  refine ⟨?_, ?_⟩
  · intro i v hm; exact absurd rfl ((h _ hm).1 i v)
  · intro pre post e
    have : Prim.setFlag ∈ l := by rw [e]; simp
    exact absurd rfl (h _ this).2

theorem prims_fileReadAt_tablefree (f o n : Nat) :
    ∀ q ∈ (fileReadAt f o n).prims, (∀ i v, q ≠ Prim.initCell i v) ∧ q ≠ Prim.setFlag := by
  intro q hq
  simp [fileReadAt, Action.prims] at hq
  rcases hq with rfl | rfl <;> simp

theorem prims_tableUse_tablefree :
    ∀ q ∈ tableUse.prims, (∀ i v, q ≠ Prim.initCell i v) ∧ q ≠ Prim.setFlag := by
  intro q hq
  simp [tableUse, Action.prims] at hq
  subst hq; simp

theorem proj_snoc_self {α : Type} (w : Worker) (s : List (Worker × α)) (a : α) :
    proj w (s ++ [(w, a)]) = proj w s ++ [a] := by
  rw [proj_append, proj_cons_self]; rfl

theorem proj_snoc_other {α : Type} (w w' : Worker) (s : List (Worker × α)) (a : α) (h : w' ≠ w) :
    proj w (s ++ [(w', a)]) = proj w s := by
  rw [proj_append, proj_cons_other _ _ _ _ h]; simp

/-- the flag is never cleared -/
theorem runSP_flag_mono (ps : List Prim) : ∀ (sh : Shared) (p : Priv), sh.flag = true → (runSP ps sh p).1.flag = true := by
  induction ps with
  | nil => intro sh p h; exact h
  | cons q ps ih =>
    intro sh p h
    cases q <;> simp only [runSP, stepPrim] <;> exact ih _ _ (by simpa using h)

theorem tableInitialiser_length (vals : List Nat) : (tableInitialiser vals).length = vals.length + 1 := by
  have : ∀ i, (cellsFrom i vals).length = vals.length := by
    induction vals with
    | nil => intro i; rfl
    | cons v vs ih => intro i; simp [cellsFrom, ih]
  simp [tableInitialiser, initialiser, this]

theorem tableInitialiser_last (vals : List Nat) (k : Nat) (a : Action) (hk : (tableInitialiser vals)[k]? = some a)
    (hlast : ¬ k + 1 < (tableInitialiser vals).length) : a = .prim .setFlag := by
  have hlen := tableInitialiser_length vals
  have hlt : k < (tableInitialiser vals).length := by
    rcases Nat.lt_or_ge k (tableInitialiser vals).length with h | h
    · exact h
    · simp [List.getElem?_eq_none h] at hk
  have hk' : k = (List.map (fun iv => Action.prim (Prim.initCell iv.1 iv.2)) (cellsFrom 0 vals)).length := by
    have h1 : (List.map (fun iv => Action.prim (Prim.initCell iv.1 iv.2)) (cellsFrom 0 vals)).length = vals.length := by
      have := hlen; simp [tableInitialiser, initialiser] at this; simpa using this
    omega
  unfold tableInitialiser initialiser at hk
  rw [hk'] at hk
  simp at hk
  exact hk.symm

/-- an action of the table initialiser is a table step, never an atomic stdio section, and logs nothing -/
theorem tableInitialiser_action (vals : List Nat) (k : Nat) (a : Action) (hk : (tableInitialiser vals)[k]? = some a) :
    a.atomicIO = false ∧ a.isTable = true ∧
    ∀ (sh : Shared) (p : Priv), (runSP a.prims sh p).2 = p := by
  have hm : a ∈ tableInitialiser vals := List.mem_of_getElem? hk
  simp only [tableInitialiser, initialiser, List.mem_append, List.mem_map, List.mem_singleton] at hm
  rcases hm with ⟨iv, _, rfl⟩ | rfl
  · exact ⟨rfl, rfl, fun sh p => rfl⟩
  · exact ⟨rfl, rfl, fun sh p => rfl⟩

theorem take_succ_flatMap_prims (init : List Action) (k : Nat) (a : Action) (hk : init[k]? = some a) :
    (init.take (k + 1)).flatMap Action.prims = (init.take k).flatMap Action.prims ++ a.prims := by
  rw [List.take_succ, hk]
  simp [List.flatMap_append]

/-! #### the invariant -/

def goodOf (vals : List Nat) : Nat → Nat → Prop := fun i v => vals[i]? = some v

/-- the conclusion of the lazy-initialisation theorem (C07_lazy_init_idempotent, second conjunct) that the
cold-start argument rests on: after ANY schedule whose workers follow the discipline, a set flag means the
table is complete and final -/
def LazySound (vals : List Nat) (file : List UInt8) : Prop :=
  ∀ s : List (Worker × Action),
    (∀ w, InitDiscipline vals.length (goodOf vals) ((proj w s).flatMap Action.prims)) →
    (exec s (initState file vals.length)).sh.flag = true →
    (exec s (initState file vals.length)).sh.table = vals.map some

theorem tableInitialiser_discipline (vals : List Nat) (k : Nat) :
    InitDiscipline vals.length (goodOf vals) (((tableInitialiser vals).take k).flatMap Action.prims) := by
  apply initialiser_discipline
  · intro iv hiv
    have := (mem_cellsFrom 0 vals iv.1 iv.2 hiv).2
    simp only [Nat.sub_zero] at this
    refine ⟨?_, this⟩
    rcases Nat.lt_or_ge iv.1 vals.length with h | h
    · exact h
    · simp [List.getElem?_eq_none h] at this
  · intro i hi
    obtain ⟨v, hv⟩ := cellsFrom_covers 0 vals i hi
    exact ⟨v, by simpa using hv⟩

/-- what is known about worker `w` after the action-level schedule `hist` has been executed -/
structure WInv (vals : List Nat) (progs : List (List Instr)) (w : Worker) (cs : CState)
    (hist : List (Worker × Action)) : Prop where
  disc : InitDiscipline vals.length (goodOf vals) ((proj w hist).flatMap Action.prims)
  shape : shapeOK (cs.todo w) = true
  initAt : ∀ k rest, cs.todo w = .initAt k :: rest →
    k < (tableInitialiser vals).length ∧
    ∃ l0, (proj w hist).flatMap Action.prims = l0 ++ ((tableInitialiser vals).take k).flatMap Action.prims ∧
      InitDiscipline vals.length (goodOf vals) l0
  flag : ∀ u, cs.todo w = .use :: u → cs.st.sh.flag = true
  obs : ∃ m, usesOf (tablesOf (cs.st.pr w)) = List.replicate m (useObs vals) ∧
        (tablesOf (cs.st.pr w)).length = 2 * m + pend (cs.todo w) ∧
        m + pend (cs.todo w) + instrCalls (cs.todo w) = instrCalls (progs.getD w [])
  io : (proj w hist).filter (fun a => a.atomicIO) ++ instrIO (cs.todo w) = instrIO (progs.getD w [])

structure CInv (vals : List Nat) (file : List UInt8) (progs : List (List Instr)) (cs : CState)
    (hist : List (Worker × Action)) : Prop where
  st : cs.st = exec hist (initState file vals.length)
  cls : ∀ e ∈ hist, e.2.atomicIO = true ∨ e.2.isTable = true
  wk : ∀ w, WInv vals progs w cs hist

theorem userList_cons (i : Instr) (u : List Instr) : userList (i :: u) = (i.isUser && userList u) := by
  simp [userList]

theorem shapeOK_user (u : List Instr) (h : userList u = true) : shapeOK u = true := by
  cases u with
  | nil => rfl
  | cons i r =>
    rw [userList_cons, Bool.and_eq_true] at h
    cases i with
    | io f o n => simp [shapeOK, userList_cons, Instr.isUser, h.2]
    | crcCall => simp [shapeOK, userList_cons, Instr.isUser, h.2]
    | initAt k => simp [Instr.isUser] at h
    | use => simp [Instr.isUser] at h

theorem pend_user (u : List Instr) (h : userList u = true) : pend u = 0 := by
  cases u with
  | nil => rfl
  | cons i r =>
    rw [userList_cons, Bool.and_eq_true] at h
    cases i with
    | io f o n => rfl
    | crcCall => rfl
    | initAt k => simp [Instr.isUser] at h
    | use => simp [Instr.isUser] at h

theorem user_not_initAt (u : List Instr) (h : userList u = true) (k : Nat) (r : List Instr) : u ≠ .initAt k :: r := by
  intro e; subst e
  rw [userList_cons] at h; simp [Instr.isUser] at h

theorem user_not_use (u : List Instr) (h : userList u = true) (r : List Instr) : u ≠ .use :: r := by
  intro e; subst e
  rw [userList_cons] at h; simp [Instr.isUser] at h

theorem setTodo_self (td : Worker → List Instr) (w : Worker) (v : List Instr) : setTodo td w v w = v := by
  simp [setTodo]

theorem setTodo_other (td : Worker → List Instr) (w w' : Worker) (v : List Instr) (h : w' ≠ w) :
    setTodo td w v w' = td w' := by
  simp [setTodo, h]

/-- a worker that did not move keeps its invariant -/
theorem winv_other {vals : List Nat} {progs : List (List Instr)} {w' : Worker} {cs : CState}
    {hist : List (Worker × Action)} (h : WInv vals progs w' cs hist) (w : Worker) (hw : w' ≠ w)
    (a : Action) (td' : List Instr) :
    WInv vals progs w' { st := cs.st.run w a.prims, todo := setTodo cs.todo w td' } (hist ++ [(w, a)]) := by
  have hp : proj w' (hist ++ [(w, a)]) = proj w' hist := proj_snoc_other w' w hist a (fun e => hw e.symm)
  refine ⟨?_, ?_, ?_, ?_, ?_, ?_⟩
  · rw [hp]; exact h.disc
  · simp only [setTodo_other _ _ _ _ hw]; exact h.shape
  · intro k rest e
    simp only [setTodo_other _ _ _ _ hw] at e
    rw [hp]; exact h.initAt k rest e
  · intro u e
    simp only [setTodo_other _ _ _ _ hw] at e
    simp only [run_sh]
    exact runSP_flag_mono _ _ _ (h.flag u e)
  · simp only [setTodo_other _ _ _ _ hw, run_pr_other _ _ _ _ hw]; exact h.obs
  · simp only [setTodo_other _ _ _ _ hw]; rw [hp]; exact h.io

theorem filter_snoc_atomic (l : List Action) (a : Action) :
    (l ++ [a]).filter (fun a => a.atomicIO) = l.filter (fun a => a.atomicIO) ++ (if a.atomicIO then [a] else []) := by
  by_cases h : a.atomicIO = true <;> simp [List.filter_append, h]

theorem tablesOf_bytes (p : Priv) (bs : List UInt8) : tablesOf (p ++ [.bytes bs]) = tablesOf p := by
  simp [tablesOf, Obs.isBytes]

theorem tablesOf_table (p : Priv) (fl : Bool) (cells : List (Option Nat)) :
    tablesOf (p ++ [.table fl cells]) = tablesOf p ++ [.table fl cells] := by
  simp [tablesOf, Obs.isBytes]

theorem instrCalls_append (a b : List Instr) : instrCalls (a ++ b) = instrCalls a + instrCalls b := by
  induction a with
  | nil => simp [instrCalls]
  | cons i a ih => cases i <;> simp [instrCalls, ih] <;> omega

theorem instrIO_append (a b : List Instr) : instrIO (a ++ b) = instrIO a ++ instrIO b := by
  induction a with
  | nil => simp [instrIO]
  | cons i a ih => cases i <;> simp [instrIO, ih]

/-- one turn keeps the invariant -/
theorem cinv_turn {vals : List Nat} {file : List UInt8} {progs : List (List Instr)}
    (hlazy : LazySound vals file) {cs : CState} {hist : List (Worker × Action)}
    (inv : CInv vals file progs cs hist) (w : Worker) :
    CInv vals file progs (cs.turn (tableInitialiser vals) w).1
      (hist ++ (match (cs.turn (tableInitialiser vals) w).2 with | some e => [e] | none => [])) := by
  have hW := inv.wk w
  -- what a step with action `a` and new instructions `td'` gives, once worker `w`'s own invariant is known
  have mk : ∀ (a : Action) (td' : List Instr), (a.atomicIO = true ∨ a.isTable = true) →
      WInv vals progs w { st := cs.st.run w a.prims, todo := setTodo cs.todo w td' } (hist ++ [(w, a)]) →
      CInv vals file progs { st := cs.st.run w a.prims, todo := setTodo cs.todo w td' } (hist ++ [(w, a)]) := by
    intro a td' hc hw
    refine ⟨?_, ?_, ?_⟩
    · simp only [exec_append, exec_cons, exec_nil, ← inv.st]
    · intro e he
      rcases List.mem_append.1 he with he | he
      · exact inv.cls e he
      · simp at he; subst he; exact hc
    · intro w'
      by_cases hw' : w' = w
      · subst hw'; exact hw
      · exact winv_other (inv.wk w') w hw' a td'
  have hpw : ∀ a : Action, proj w (hist ++ [(w, a)]) = proj w hist ++ [a] := fun a => proj_snoc_self w hist a
  unfold CState.turn
  cases htd : cs.todo w with
  | nil => simpa using inv
  | cons i rest =>
    simp only
    have hshape := hW.shape
    rw [htd] at hshape
    cases i with
    | io f o n =>
      have hur : userList rest = true := by
        have : userList (.io f o n :: rest) = true := by simpa [shapeOK] using hshape
        rw [userList_cons, Bool.and_eq_true] at this; exact this.2
      simp only [Instr.fire, List.nil_append]
      apply mk _ _ (Or.inl (atomicIO_fileReadAt f o n))
      have hrun := run_fileReadAt cs.st w f o n
      refine ⟨?_, ?_, ?_, ?_, ?_, ?_⟩
      · rw [hpw, List.flatMap_append]
        simp only [List.flatMap_cons, List.flatMap_nil, List.append_nil]
        exact initDiscipline_append hW.disc (initDiscipline_tablefree _ (prims_fileReadAt_tablefree f o n))
      · simp only [setTodo_self]; exact shapeOK_user rest hur
      · intro k r e; simp only [setTodo_self] at e; exact absurd e (user_not_initAt rest hur k r)
      · intro u e; simp only [setTodo_self] at e; exact absurd e (user_not_use rest hur u)
      · obtain ⟨m, h1, h2, h3⟩ := hW.obs
        rw [htd] at h2 h3
        refine ⟨m, ?_, ?_, ?_⟩
        · rw [hrun.1, tablesOf_bytes]; exact h1
        · simp only [setTodo_self]; rw [hrun.1, tablesOf_bytes, pend_user rest hur]; simpa [pend] using h2
        · simp only [setTodo_self]; rw [pend_user rest hur]; simpa [pend, instrCalls] using h3
      · have := hW.io
        rw [htd] at this
        simp only [setTodo_self]
        rw [hpw, filter_snoc_atomic, atomicIO_fileReadAt]
        simpa [instrIO, List.append_assoc] using this
    | crcCall =>
      have hur : userList rest = true := by
        have : userList (.crcCall :: rest) = true := by simpa [shapeOK] using hshape
        rw [userList_cons, Bool.and_eq_true] at this; exact this.2
      simp only [Instr.fire]
      apply mk _ _ (Or.inr rfl)
      have hprs : (cs.st.run w tableUse.prims).pr w = cs.st.pr w ++ [.table cs.st.sh.flag cs.st.sh.table] := by
        simp [tableUse, Action.prims, runSP, stepPrim]
      have hflag : (cs.st.run w tableUse.prims).sh.flag = cs.st.sh.flag := by
        simp [tableUse, Action.prims, runSP, stepPrim]
      have hdisc : InitDiscipline vals.length (goodOf vals) ((proj w (hist ++ [(w, tableUse)])).flatMap Action.prims) := by
        rw [hpw, List.flatMap_append]
        simp only [List.flatMap_cons, List.flatMap_nil, List.append_nil]
        exact initDiscipline_append hW.disc (initDiscipline_tablefree _ prims_tableUse_tablefree)
      refine ⟨hdisc, ?_, ?_, ?_, ?_, ?_⟩
      · simp only [setTodo_self]
        cases cs.st.sh.flag <;> simpa [shapeOK] using hur
      · intro k r e
        simp only [setTodo_self] at e
        cases hfl : cs.st.sh.flag with
        | true => simp [hfl] at e
        | false =>
          simp only [hfl, Bool.false_eq_true, if_false, List.cons_append, List.nil_append, List.cons.injEq,
            Instr.initAt.injEq] at e
          obtain ⟨hk, _⟩ := e
          subst hk
          refine ⟨by rw [tableInitialiser_length]; omega, _, ?_, hdisc⟩
          simp
      · intro u e
        simp only [setTodo_self] at e
        cases hfl : cs.st.sh.flag with
        | true => rw [hflag]; exact hfl
        | false => simp [hfl] at e
      · obtain ⟨m, h1, h2, h3⟩ := hW.obs
        rw [htd] at h2 h3
        have hpe : pend ((if cs.st.sh.flag = true then [Instr.use] else [Instr.initAt 0, Instr.use]) ++ rest) = 1 := by
          cases cs.st.sh.flag <;> rfl
        have hca : instrCalls ((if cs.st.sh.flag = true then [Instr.use] else [Instr.initAt 0, Instr.use]) ++ rest) = instrCalls rest := by
          cases cs.st.sh.flag <;> rfl
        have h2' : (tablesOf (cs.st.pr w)).length = 2 * m := by simpa [pend] using h2
        refine ⟨m, ?_, ?_, ?_⟩
        · rw [hprs, tablesOf_table, usesOf_append_even _ _ m h2']; exact h1
        · simp only [setTodo_self]; rw [hprs, tablesOf_table, hpe]; simp [h2']
        · simp only [setTodo_self]; rw [hpe, hca]; simp only [pend, instrCalls] at h3; omega
      · have := hW.io
        rw [htd] at this
        simp only [setTodo_self]
        rw [hpw, filter_snoc_atomic]
        have hio : instrIO ((if cs.st.sh.flag = true then [Instr.use] else [Instr.initAt 0, Instr.use]) ++ rest) = instrIO rest := by
          cases cs.st.sh.flag <;> rfl
        rw [hio]
        simpa [tableUse, Action.atomicIO, instrIO] using this
    | initAt k =>
      -- shape: rest = use :: u
      obtain ⟨u, hrest, hur⟩ : ∃ u, rest = .use :: u ∧ userList u = true := by
        cases rest with
        | nil => simp [shapeOK, userList, Instr.isUser] at hshape
        | cons j r =>
          cases j with
          | use => exact ⟨r, rfl, by simpa [shapeOK] using hshape⟩
          | io f o n => simp [shapeOK, userList, Instr.isUser] at hshape
          | crcCall => simp [shapeOK, userList, Instr.isUser] at hshape
          | initAt k' => simp [shapeOK, userList, Instr.isUser] at hshape
      subst hrest
      obtain ⟨hk, l0, hl0, hdl0⟩ := hW.initAt k (.use :: u) htd
      have hget : (tableInitialiser vals)[k]? = some ((tableInitialiser vals)[k]'hk) := List.getElem?_eq_getElem hk
      simp only [Instr.fire, hget]
      obtain ⟨hnat, htab, hlog⟩ := tableInitialiser_action vals k _ hget
      apply mk _ _ (Or.inr htab)
      have hdisc : InitDiscipline vals.length (goodOf vals)
          ((proj w (hist ++ [(w, (tableInitialiser vals)[k]'hk)])).flatMap Action.prims) := by
        rw [hpw, List.flatMap_append]
        simp only [List.flatMap_cons, List.flatMap_nil, List.append_nil]
        rw [hl0, List.append_assoc, ← take_succ_flatMap_prims _ k _ hget]
        exact initDiscipline_append hdl0 (tableInitialiser_discipline vals (k + 1))
      have hprs : (cs.st.run w ((tableInitialiser vals)[k]'hk).prims).pr w = cs.st.pr w := by
        rw [run_pr_self]; exact hlog _ _
      refine ⟨hdisc, ?_, ?_, ?_, ?_, ?_⟩
      · simp only [setTodo_self]
        by_cases hk1 : k + 1 < (tableInitialiser vals).length <;> simp [hk1, shapeOK, hur]
      · intro k' r e
        simp only [setTodo_self] at e
        by_cases hk1 : k + 1 < (tableInitialiser vals).length
        · simp only [hk1, if_true, List.cons_append, List.nil_append, List.cons.injEq, Instr.initAt.injEq] at e
          obtain ⟨hkk, _⟩ := e
          subst hkk
          refine ⟨hk1, l0, ?_, hdl0⟩
          rw [hpw, List.flatMap_append]
          simp only [List.flatMap_cons, List.flatMap_nil, List.append_nil]
          rw [hl0, List.append_assoc, ← take_succ_flatMap_prims _ k _ hget]
        · simp [hk1] at e
      · intro u' e
        simp only [setTodo_self] at e
        by_cases hk1 : k + 1 < (tableInitialiser vals).length
        · simp [hk1] at e
        · have hlast := tableInitialiser_last vals k _ hget hk1
          rw [hlast]
          simp [Action.prims, runSP, stepPrim]
      · obtain ⟨m, h1, h2, h3⟩ := hW.obs
        rw [htd] at h2 h3
        have hpe : pend ((if k + 1 < (tableInitialiser vals).length then [Instr.initAt (k + 1)] else []) ++ Instr.use :: u) = 1 := by
          by_cases hk1 : k + 1 < (tableInitialiser vals).length <;> simp [hk1, pend]
        have hca : instrCalls ((if k + 1 < (tableInitialiser vals).length then [Instr.initAt (k + 1)] else []) ++ Instr.use :: u) = instrCalls u := by
          by_cases hk1 : k + 1 < (tableInitialiser vals).length <;> simp [hk1, instrCalls]
        refine ⟨m, ?_, ?_, ?_⟩
        · rw [hprs]; exact h1
        · simp only [setTodo_self]; rw [hprs, hpe]; simpa [pend] using h2
        · simp only [setTodo_self]; rw [hpe, hca]; simpa [pend, instrCalls] using h3
      · have := hW.io
        rw [htd] at this
        simp only [setTodo_self]
        rw [hpw, filter_snoc_atomic, hnat]
        have hio : instrIO ((if k + 1 < (tableInitialiser vals).length then [Instr.initAt (k + 1)] else []) ++ Instr.use :: u) = instrIO u := by
          by_cases hk1 : k + 1 < (tableInitialiser vals).length <;> simp [hk1, instrIO]
        rw [hio]
        simpa [instrIO] using this
    | use =>
      have hur : userList rest = true := by simpa [shapeOK] using hshape
      simp only [Instr.fire, List.nil_append]
      apply mk _ _ (Or.inr rfl)
      have hfl : cs.st.sh.flag = true := hW.flag rest htd
      have htab : cs.st.sh.table = vals.map some := by
        have := hlazy hist (fun w' => (inv.wk w').disc)
        rw [← inv.st] at this
        exact this hfl
      have hprs : (cs.st.run w tableUse.prims).pr w = cs.st.pr w ++ [useObs vals] := by
        simp [tableUse, Action.prims, runSP, stepPrim, useObs, hfl, htab]
      refine ⟨?_, ?_, ?_, ?_, ?_, ?_⟩
      · rw [hpw, List.flatMap_append]
        simp only [List.flatMap_cons, List.flatMap_nil, List.append_nil]
        exact initDiscipline_append hW.disc (initDiscipline_tablefree _ prims_tableUse_tablefree)
      · simp only [setTodo_self]; exact shapeOK_user rest hur
      · intro k r e; simp only [setTodo_self] at e; exact absurd e (user_not_initAt rest hur k r)
      · intro u e; simp only [setTodo_self] at e; exact absurd e (user_not_use rest hur u)
      · obtain ⟨m, h1, h2, h3⟩ := hW.obs
        rw [htd] at h2 h3
        have h2' : (tablesOf (cs.st.pr w)).length = 2 * m + 1 := by simpa [pend] using h2
        refine ⟨m + 1, ?_, ?_, ?_⟩
        · rw [hprs]
          simp only [useObs, tablesOf_table]
          rw [usesOf_append_odd _ _ m h2', h1, List.replicate_succ']
          rfl
        · simp only [setTodo_self]
          rw [hprs]
          simp only [useObs, tablesOf_table]
          rw [pend_user rest hur]; simp [h2']; omega
        · simp only [setTodo_self]; rw [pend_user rest hur]; simp only [pend, instrCalls] at h3; omega
      · have := hW.io
        rw [htd] at this
        simp only [setTodo_self]
        rw [hpw, filter_snoc_atomic]
        simpa [tableUse, Action.atomicIO, instrIO] using this

theorem cinv_exec {vals : List Nat} {file : List UInt8} {progs : List (List Instr)}
    (hlazy : LazySound vals file) (turns : List Worker) :
    ∀ (cs : CState) (hist : List (Worker × Action)), CInv vals file progs cs hist →
      CInv vals file progs (execCold (tableInitialiser vals) turns cs).1
        (hist ++ (execCold (tableInitialiser vals) turns cs).2) := by
  induction turns with
  | nil => intro cs hist inv; simpa [execCold] using inv
  | cons w turns ih =>
    intro cs hist inv
    have h1 := cinv_turn hlazy inv w
    have h2 := ih _ _ h1
    simp only [execCold]
    rw [← List.append_assoc]
    exact h2

theorem cinv_init (vals : List Nat) (file : List UInt8) (progs : List (List Instr))
    (huser : ∀ l ∈ progs, userList l = true) : CInv vals file progs (coldInit file vals.length progs) [] := by
  have hu : ∀ w, userList (progs.getD w []) = true := by
    intro w
    simp only [List.getD_eq_getElem?_getD]
    cases hw : progs[w]? with
    | none => rfl
    | some l => exact huser l (List.mem_of_getElem? hw)
  refine ⟨rfl, (by intro e he; cases he), fun w => ⟨?_, ?_, ?_, ?_, ?_, ?_⟩⟩
  · exact initDiscipline_tablefree _ (by intro q hq; cases hq)
  · exact shapeOK_user _ (hu w)
  · intro k r e; exact absurd e (user_not_initAt _ (hu w) k r)
  · intro u e; exact absurd e (user_not_use _ (hu w) u)
  · refine ⟨0, rfl, ?_, ?_⟩
    · simp only [coldInit]; rw [pend_user _ (hu w)]; rfl
    · simp only [coldInit]; rw [pend_user _ (hu w)]; simp
  · simp [coldInit]

theorem solo_instrIO (w : Worker) (l : List Instr) (st : State) :
    (exec (solo w (instrIO l)) st).pr w = st.pr w ++ instrBytes st.sh.file l ∧
    (exec (solo w (instrIO l)) st).sh.file = st.sh.file := by
  induction l generalizing st with
  | nil => simp [instrIO, instrBytes, solo]
  | cons i l ih =>
    cases i with
    | io f o n =>
      have e : solo w (instrIO (.io f o n :: l)) = (w, fileReadAt f o n) :: solo w (instrIO l) := by
        simp [solo, instrIO]
      rw [e, exec_cons]
      have h := ih (st.run w (fileReadAt f o n).prims)
      have h0 := run_fileReadAt st w f o n
      refine ⟨?_, ?_⟩
      · rw [h.1, h0.1, h0.2]; simp [instrBytes]
      · rw [h.2, h0.2]
    | crcCall => simpa [instrIO, instrBytes] using ih st
    | initAt k => simpa [instrIO, instrBytes] using ih st
    | use => simpa [instrIO, instrBytes] using ih st

theorem bytesOf_instrBytes (file : List UInt8) (l : List Instr) : bytesOf (instrBytes file l) = instrBytes file l := by
  induction l with
  | nil => rfl
  | cons i l ih =>
    cases i with
    | io f o n => simp only [instrBytes, bytesOf, List.filter_cons, Obs.isBytes, if_true]; congr 1
    | crcCall => simpa [instrBytes] using ih
    | initAt k => simpa [instrBytes] using ih
    | use => simpa [instrBytes] using ih

/-- closed form of a finished worker's result -/
theorem cold_result {vals : List Nat} {file : List UInt8} {progs : List (List Instr)}
    (hlazy : LazySound vals file)
    (hsolo : ∀ (s : List (Worker × Action)), (∀ e ∈ s, e.2.atomicIO = true) → ∀ (st : State) (w : Worker),
      (exec s st).pr w = (exec (solo w (proj w s)) st).pr w)
    (huser : ∀ l ∈ progs, userList l = true) (turns : List Worker) (w : Worker)
    (hfin : (execCold (tableInitialiser vals) turns (coldInit file vals.length progs)).1.todo w = []) :
    coldResult ((execCold (tableInitialiser vals) turns (coldInit file vals.length progs)).1.st.pr w) =
      (instrBytes file (progs.getD w []), List.replicate (instrCalls (progs.getD w [])) (useObs vals)) := by
  have inv := cinv_exec hlazy turns _ _ (cinv_init vals file progs huser)
  simp only [List.nil_append] at inv
  have hW := inv.wk w
  obtain ⟨m, h1, _, h3⟩ := hW.obs
  rw [hfin] at h3
  have hm : m = instrCalls (progs.getD w []) := by simpa [pend, instrCalls] using h3
  have hio := hW.io
  rw [hfin] at hio
  simp only [instrIO, List.append_nil] at hio
  have hb := (mixed_schedule_bytes hsolo _ inv.cls (initState file vals.length) w).2
  rw [hio, (solo_instrIO w _ _).1] at hb
  simp only [coldResult, Prod.mk.injEq]
  refine ⟨?_, by rw [h1, hm]⟩
  rw [inv.st, hb]
  simp [initState, bytesOf_instrBytes]

/-! #### every worker that gets enough turns finishes -/

theorem coldFuel_append (n : Nat) (a b : List Instr) : coldFuel n (a ++ b) = coldFuel n a + coldFuel n b := by
  induction a with
  | nil => simp [coldFuel]
  | cons i a ih => cases i <;> simp [coldFuel, ih] <;> omega

theorem turn_todo_other (init : List Action) (cs : CState) (w w' : Worker) (h : w' ≠ w) :
    (cs.turn init w).1.todo w' = cs.todo w' := by
  unfold CState.turn
  cases cs.todo w with
  | nil => rfl
  | cons i rest =>
    simp only
    cases (i.fire init cs.st.sh.flag).1 <;> simp [setTodo_other _ _ _ _ h]

theorem turn_todo_self (init : List Action) (cs : CState) (w : Worker) :
    (cs.todo w = [] ∧ (cs.turn init w).1.todo w = []) ∨
    coldFuel init.length ((cs.turn init w).1.todo w) < coldFuel init.length (cs.todo w) := by
  unfold CState.turn
  cases htd : cs.todo w with
  | nil => left; simp [htd]
  | cons i rest =>
    right
    have key : coldFuel init.length ((i.fire init cs.st.sh.flag).2 ++ rest) < coldFuel init.length (i :: rest) := by
      rw [coldFuel_append]
      cases i with
      | io f o n => simp [Instr.fire, coldFuel]
      | crcCall => cases cs.st.sh.flag <;> simp [Instr.fire, coldFuel] <;> omega
      | initAt k =>
        by_cases hk : k + 1 < init.length <;> simp [Instr.fire, coldFuel, hk] <;> omega
      | use => simp [Instr.fire, coldFuel]
    simp only
    cases (i.fire init cs.st.sh.flag).1 <;> simpa [setTodo_self] using key

theorem cold_finishes (init : List Action) (turns : List Worker) (w : Worker) :
    ∀ cs : CState, coldFuel init.length (cs.todo w) ≤ turns.count w →
      (execCold init turns cs).1.todo w = [] := by
  induction turns with
  | nil =>
    intro cs h
    simp only [List.count_nil, Nat.le_zero] at h
    simp only [execCold]
    cases htd : cs.todo w with
    | nil => rfl
    | cons i r => rw [htd] at h; cases i <;> simp [coldFuel] at h
  | cons w0 turns ih =>
    intro cs h
    simp only [execCold]
    apply ih
    by_cases hw : w0 = w
    · subst hw
      simp only [List.count_cons_self] at h
      rcases turn_todo_self init cs w0 with ⟨_, h2⟩ | h2
      · rw [h2]; simp [coldFuel]
      · omega
    · rw [turn_todo_other init cs w0 w (fun e => hw e.symm)]
      rw [List.count_cons_of_ne hw] at h
      exact h

theorem count_seqTurns (n fuel w : Nat) : (seqTurns n fuel).count w = if w < n then fuel else 0 := by
  induction n with
  | zero => simp [seqTurns]
  | succ n ih =>
    have e : seqTurns (n + 1) fuel = seqTurns n fuel ++ List.replicate fuel n := by
      simp [seqTurns, List.range_succ, List.flatMap_append]
    rw [e, List.count_append, ih, List.count_replicate]
    by_cases h1 : w < n
    · have : ¬ n = w := by omega
      simp [h1, this]; omega
    · by_cases h2 : n = w
      · subst h2; simp
      · have : ¬ w < n + 1 := by omega
        simp [h1, h2, this]

/-! #### every schedule is a merge of its own projections -/

/-- one more than the largest worker id in the schedule -/
def workerBound {α : Type} : List (Worker × α) → Nat
  | [] => 0
  | e :: s => max (e.1 + 1) (workerBound s)

theorem lt_workerBound {α : Type} (s : List (Worker × α)) : ∀ e ∈ s, e.1 < workerBound s := by
  induction s with
  | nil => intro e he; cases he
  | cons x s ih =>
    intro e he
    rcases List.mem_cons.1 he with rfl | he
    · simp only [workerBound]; omega
    · have := ih e he
      simp only [workerBound]; omega

/-- the workers' lists a schedule is a merge of: its own projections -/
def projLists {α : Type} (s : List (Worker × α)) : List (List α) :=
  (List.range (workerBound s)).map (fun w => proj w s)

theorem isMerge_projLists {α : Type} (s : List (Worker × α)) : IsMerge (projLists s) s := by
  apply isMerge_of_proj
  · intro e he
    simpa [projLists] using lt_workerBound s e he
  · intro w hw
    simp only [projLists, List.length_map, List.length_range] at hw
    simp [projLists, List.getD_eq_getElem?_getD, hw]

end Carquet.Proofs.Par
