import Carquet.Proofs.SpecFileHdr
import Carquet.Proofs.SpecFileDict
/-
Page chaining and the chunk stage for ADMISSIBLE layouts (`pageAdm`, `dictAdm`): v1 data pages
with PLAIN or dictionary-encoded values, stored under any compression plan, headers with unknown
fields, optional CRC and statistics; an optional dictionary page first.
-/
namespace Carquet.Proofs.SpecFile
open Carquet.Spec Carquet.Spec.File Carquet.Spec.Thrift Carquet.Spec.ParquetThrift

structure PageAdm (pl : PageLayout) : Prop where
  kind : pl.kind = .v1
  damage : pl.damage = {}
  values : valuesOk pl.values = true
  comp : planOk pl.comp = true
  hdrExtra : extrasOk pageHeader pl.hdrExtra = true
  hdrExtraWf : wfFields pl.hdrExtra = true
  memberExtra : extrasOk dataPageHeader pl.memberExtra = true
  memberExtraWf : wfFields pl.memberExtra = true
  statsExtra : extrasOk statistics pl.statsExtra = true
  statsExtraWf : wfFields pl.statsExtra = true

theorem pageAdm_iff {pl : PageLayout} (h : pageAdm pl = true) : PageAdm pl := by
  unfold pageAdm at h
  simp only [Bool.and_eq_true, beq_iff_eq] at h
  obtain ⟨⟨⟨⟨⟨⟨⟨⟨⟨h1, h2⟩, h3⟩, h4⟩, h5⟩, h6⟩, h7⟩, h8⟩, h9⟩, h10⟩ := h
  exact ⟨h1, h2, h3, h4, h5, h6, h7, h8, h9, h10⟩

structure DictAdm (d : DictLayout) : Prop where
  encoding : d.encoding = 0 ∨ d.encoding = 2
  damage : d.damage = {}
  comp : planOk d.comp = true
  count : d.values.length < 2 ^ 31
  hdrExtra : extrasOk pageHeader d.hdrExtra = true
  hdrExtraWf : wfFields d.hdrExtra = true
  memberExtra : extrasOk dictionaryPageHeader d.memberExtra = true
  memberExtraWf : wfFields d.memberExtra = true

theorem dictAdm_iff {d : DictLayout} (h : dictAdm d = true) : DictAdm d := by
  unfold dictAdm at h
  simp only [Bool.and_eq_true, Bool.or_eq_true, beq_iff_eq, decide_eq_true_eq] at h
  obtain ⟨⟨⟨⟨⟨⟨⟨h1, h2⟩, h3⟩, h4⟩, h5⟩, h6⟩, h7⟩, h8⟩ := h
  exact ⟨h1, h2, h3, h4, h5, h6, h7, h8⟩

/-! ### data pages -/

/-- the header value of an admissible data page -/
def dataPageHdrTV (leaf : LeafInfo) (pl : PageLayout) (es : List Entry) (ulen : Nat) (comp : Bytes) : TVal :=
  pageHdrTV 0 ulen comp.length (if pl.crc then some (crcField comp) else none) 5
    (dataHdrTV ⟨es.length, valueEncTag pl.values, 3, 3,
                statsFor leaf pl.stats (es.map (·.dl)) (es.filterMap (·.val))⟩ pl.statsExtra pl.memberExtra)
    pl.hdrExtra

theorem damageValues_default (bs : Bytes) : damageValues {} bs = bs := by
  simp [damageValues, cutTail]

theorem damagedSize_default (n : Nat) : damagedSize {} n = n := by
  simp [damagedSize]

theorem writeDataPage_adm {leaf : LeafInfo} {dict : Option (List Bytes)} {pl : PageLayout} {es : List Entry} {w : Written}
    (hp : PageAdm pl) (hw : writeDataPage leaf dict pl es = some w) :
    ∃ repB defB valB comp, levelBytes leaf.maxRep pl.repRuns (es.map (·.rep)) = some repB ∧
      levelBytes leaf.maxDef pl.defRuns (es.map (·.dl)) = some defB ∧
      valueBytes leaf dict pl.values (es.filterMap (·.val)) = some valB ∧
      compressWith pl.comp (v1Body leaf .v1 es repB defB valB) = some comp ∧
      w.bytes = encodeValF pl.form (dataPageHdrTV leaf pl es (v1Body leaf .v1 es repB defB valB).length comp) ++ comp ∧
      w.oracle = oracleEntry pl.comp comp (v1Body leaf .v1 es repB defB valB) ∧
      w.usize = (encodeValF pl.form (dataPageHdrTV leaf pl es (v1Body leaf .v1 es repB defB valB).length comp)).length +
        (v1Body leaf .v1 es repB defB valB).length := by
  unfold writeDataPage at hw
  rw [hp.kind, hp.damage] at hw
  cases hr : levelBytes leaf.maxRep pl.repRuns (es.map (·.rep)) with
  | none => simp [hr] at hw
  | some repB =>
    cases hd : levelBytes leaf.maxDef pl.defRuns (es.map (·.dl)) with
    | none => simp [hr, hd] at hw
    | some defB =>
      cases hv : valueBytes leaf dict pl.values (es.filterMap (·.val)) with
      | none => simp [hr, hd, hv] at hw
      | some valB =>
        simp only [hr, hd, hv, Option.map_some, cutTail_zero, damageValues_default, damagedSize_default] at hw
        cases hc : compressWith pl.comp (v1Body leaf .v1 es repB defB valB) with
        | none => simp [hc] at hw
        | some comp =>
          simp only [hc, Option.some.injEq, levelEncTag, mkPage] at hw
          refine ⟨repB, defB, valB, comp, rfl, rfl, rfl, hc, ?_, ?_, ?_⟩ <;> rw [← hw] <;> simp [dataPageHdrTV]

theorem valueEncTag_inI32 {enc : ValueEnc} (h : valuesOk enc = true) : inI32 (valueEncTag enc) := by
  cases enc with
  | plain => unfold inI32; simp [valueEncTag]
  | other t p => cases h
  | dict tag w runs =>
    simp only [valuesOk, Bool.or_eq_true, beq_iff_eq] at h
    unfold inI32
    rcases h with rfl | rfl <;> simp [valueEncTag]

/-- values of a page are shorter than 2^31: they sit in the page body (PLAIN) or in the dictionary -/
theorem page_values_small (leaf : LeafInfo) (dict : Option (List Bytes)) (enc : ValueEnc) (vals : List Bytes) (valB : Bytes)
    (hv : valueBytes leaf dict enc vals = some valB) (hok : valuesOk enc = true)
    (hvalid : ∀ v ∈ vals, validValue leaf v = true) (hvb : valB.length < 2 ^ 31)
    (hdv : ∀ d, dict = some d → ∀ v ∈ d, v.length < 2 ^ 31) : ∀ v ∈ vals, v.length < 2 ^ 31 := by
  cases enc with
  | plain =>
    simp only [valueBytes, Option.some.injEq] at hv
    subst hv
    exact value_length_lt leaf vals hvalid hvb
  | other t p => cases hok
  | dict tag w runs =>
    cases dict with
    | none => simp [valueBytes] at hv
    | some d =>
      simp only [valueBytes] at hv
      split at hv
      · cases hv
      · rename_i hcond
        intro v hm
        have : vals.all (fun v => d.contains v) = true := by
          apply Classical.byContradiction; intro hn; exact hcond (Or.inr hn)
        rw [List.all_eq_true] at this
        exact hdv d rfl v (by simpa using this v hm)

/-- **one admissible data page** is read back: raw page (any codec plan) and its entries -/
theorem page_written_gen (cfg : Config) (leaf : LeafInfo) (dict : Option (List Bytes)) (pl : PageLayout) (es : List Entry)
    (a : Written) (rest : Bytes) (hp : PageAdm pl) (h1 : writeDataPage leaf dict pl es = some a)
    (hwf : ∀ e ∈ es, wellFormedEntry leaf e = true) (hlen : a.bytes.length < 2 ^ 31) (hus : a.usize < 2 ^ 31)
    (hes : es.length < 2 ^ 31)
    (hdv : ∀ d, dict = some d → ∀ v ∈ d, v.length < 2 ^ 31)
    (ho : ∀ e ∈ a.oracle, oracleLookup cfg.oracle e.1 = some e.2) :
    ∃ p : RawPage, readRawPage cfg pl.comp.codec (a.bytes ++ rest) = .ok p ∧ p.hdr.type = 0 ∧ p.rest = rest ∧
      RawPage.usize p = a.usize ∧
      ∃ dh, p.hdr.data = some dh ∧ dh.encoding = valueEncTag pl.values ∧ decodeDataPage leaf dict dh p.page = .ok es := by
  obtain ⟨repB, defB, valB, comp, hr, hd, hv, hc, hbytes, horacle, husize⟩ := writeDataPage_adm hp h1
  have hge := v1Body_length_ge leaf es repB defB valB
    (fun h0 => by rw [h0] at hr; exact levelBytes_zero hr) (fun h0 => by rw [h0] at hd; exact levelBytes_zero hd)
  have hvals : ∀ v ∈ es.filterMap (·.val), validValue leaf v = true := by
    intro v hv
    obtain ⟨e, he, hev⟩ := List.mem_filterMap.mp hv
    have := hwf e he
    unfold wellFormedEntry at this
    rw [hev] at this
    simp only [Bool.and_eq_true] at this
    exact this.2.2
  have hbody : (v1Body leaf .v1 es repB defB valB).length < 2 ^ 31 := by omega
  have hcomp : comp.length < 2 ^ 31 := by
    rw [hbytes] at hlen; simp only [List.length_append] at hlen; omega
  have hvl := page_values_small leaf dict pl.values (es.filterMap (·.val)) valB hv hp.values hvals (by omega) hdv
  have hst := statsFor_ok leaf pl.stats (es.map (·.dl)) (es.filterMap (·.val)) hvl (by simp; omega)
  have hdec := decodeDataPage_written_gen leaf dict es pl.repRuns pl.defRuns repB defB pl.stats pl.values valB hr hd hwf
    (by omega) (by omega) hv hp.values
  have hdecomp := decompress_compressWith cfg.oracle pl.comp _ comp hc hp.comp (by rw [← horacle]; exact ho)
  generalize hbd : v1Body leaf .v1 es repB defB valB = body at *
  generalize hstd : statsFor leaf pl.stats (es.map (·.dl)) (es.filterMap (·.val)) = st at *
  -- the header
  obtain ⟨dfs, hd1, hd2⟩ := dataHdrOf_TV_gen es.length (valueEncTag pl.values) st pl.statsExtra pl.memberExtra
    hp.statsExtra hp.memberExtra
  have hdwf := dataHdrTV_wf es.length (valueEncTag pl.values) st pl.statsExtra pl.memberExtra hes
    (valueEncTag_inI32 hp.values) hst hp.statsExtraWf hp.memberExtraWf
  rw [hd1] at hdwf
  obtain ⟨fs, hf1, hf2⟩ := pageHdrOf_data body.length comp.length (if pl.crc then some (crcField comp) else none)
    dfs _ hd2 pl.hdrExtra hp.hdrExtra
  have hpwf := pageHdrTV_wf 0 body.length comp.length (if pl.crc then some (crcField comp) else none) 5 (.struct dfs)
    pl.hdrExtra (by unfold inI32; omega) hbody hcomp (crc_inI32 pl.crc comp) (by unfold inI16; omega) hdwf hp.hdrExtraWf
  rw [hf1] at hpwf
  have hhdr : dataPageHdrTV leaf pl es body.length comp = .struct fs := by
    unfold dataPageHdrTV; rw [hstd, hd1, hf1]
  rw [hhdr] at hbytes
  have hraw := readRawPage_of cfg pl.comp.codec pl.form fs _ pl.crc body comp rest hpwf hf2 (Or.inl rfl) rfl rfl rfl hdecomp
  rw [← hbytes] at hraw
  refine ⟨_, hraw, rfl, rfl, ?_, _, rfl, rfl, hdec⟩
  rw [husize, hhdr]
  simp only [RawPage.usize]
  omega

theorem writeDataPage_ne_nil {leaf : LeafInfo} {dict : Option (List Bytes)} {pl : PageLayout} {es : List Entry} {w : Written}
    (hp : PageAdm pl) (hw : writeDataPage leaf dict pl es = some w) : w.bytes ≠ [] := by
  obtain ⟨repB, defB, valB, comp, _, _, _, _, hbytes, _, _⟩ := writeDataPage_adm hp hw
  rw [hbytes]
  intro h
  have := (List.append_eq_nil_iff.mp h).1
  unfold dataPageHdrTV pageHdrTV at this
  exact encodeValF_struct_ne_nil _ _ this

theorem writeDataPage_usize_ge {leaf : LeafInfo} {dict : Option (List Bytes)} {pl : PageLayout} {es : List Entry} {w : Written}
    (hp : PageAdm pl) (hw : writeDataPage leaf dict pl es = some w) : 0 < w.usize := by
  obtain ⟨repB, defB, valB, comp, _, _, _, _, _, _, husize⟩ := writeDataPage_adm hp hw
  rw [husize]
  have : (encodeValF pl.form (dataPageHdrTV leaf pl es (v1Body leaf .v1 es repB defB valB).length comp)) ≠ [] := by
    unfold dataPageHdrTV pageHdrTV
    exact encodeValF_struct_ne_nil _ _
  have := List.length_pos_iff.mpr this
  omega

/-- **page chaining, admissible pages**: the data pages the reference writer lays out back to back
are read back page by page and yield the entries they were written from. -/
theorem readDataPages_written_gen (cfg : Config) (codec : Nat) (leaf : LeafInfo) (dict : Option (List Bytes))
    (encodings : List Int) (hdv : ∀ d, dict = some d → ∀ v ∈ d, v.length < 2 ^ 31) :
    ∀ (pls : List PageLayout) (es : List Entry) (w : Written) (fuel : Nat),
      (∀ pl ∈ pls, encodings.contains (valueEncTag pl.values) = true) →
      (∀ pl ∈ pls, PageAdm pl ∧ pl.comp.codec = codec) → writeDataPages leaf dict pls es = some w →
      (∀ e ∈ es, wellFormedEntry leaf e = true) → w.bytes.length < 2 ^ 31 → w.usize < 2 ^ 31 → es.length < 2 ^ 31 →
      (∀ e ∈ w.oracle, oracleLookup cfg.oracle e.1 = some e.2) → pls.length < fuel →
      readDataPages cfg codec leaf encodings dict fuel w.bytes = .ok es
  | [], es, w, fuel, _, _, hw, _, _, _, _, _, hf => by
    simp only [writeDataPages] at hw
    split at hw
    · rename_i he
      cases hw
      cases fuel with
      | zero => simp at hf
      | succ f => simp [readDataPages, he]
    · cases hw
  | pl :: r, es, w, fuel, henc, hpl, hw, hwf, hlen, hus, hes, ho, hf => by
    simp only [writeDataPages] at hw
    split at hw
    · cases hw
    · rename_i hcount
      cases h1 : writeDataPage leaf dict pl (es.take pl.count) with
      | none => simp [h1] at hw
      | some a =>
        cases h2 : writeDataPages leaf dict r (es.drop pl.count) with
        | none => simp [h1, h2] at hw
        | some b =>
          simp only [h1, h2, Option.some.injEq] at hw
          subst hw
          simp only [List.length_append] at hlen
          simp only at hus ho
          have hwf1 : ∀ e ∈ es.take pl.count, wellFormedEntry leaf e = true := fun e he => hwf e (List.mem_of_mem_take he)
          have hwf2 : ∀ e ∈ es.drop pl.count, wellFormedEntry leaf e = true := fun e he => hwf e (List.mem_of_mem_drop he)
          obtain ⟨hadm, hcodec⟩ := hpl pl (by simp)
          cases fuel with
          | zero => simp at hf
          | succ f =>
            have ih := readDataPages_written_gen cfg codec leaf dict encodings hdv r (es.drop pl.count) b f
              (fun p hp => henc p (by simp [hp])) (fun p hp => hpl p (by simp [hp])) h2 hwf2 (by omega) (by omega)
              (by simp; omega) (fun e he => ho e (by simp [he])) (by simp at hf; omega)
            obtain ⟨p, hraw, hty, hrest, _, dh, hdh, hencd, hdec⟩ := page_written_gen cfg leaf dict pl (es.take pl.count) a
              b.bytes hadm h1 hwf1 (by omega) (by omega) (by simp; omega) hdv (fun e he => ho e (by simp [he]))
            rw [hcodec] at hraw
            have hne : a.bytes ++ b.bytes ≠ [] := by
              intro h
              exact writeDataPage_ne_nil hadm h1 (List.append_eq_nil_iff.mp h).1
            have hcont := henc pl (by simp)
            unfold readDataPages
            rw [if_neg hne, hraw]
            simp only [hty, hdh, hencd, hcont, hdec, hrest, ih, Bool.not_true, Bool.false_eq_true, if_false, if_true]
            simp [List.take_append_drop]

/-- **uncompressed size of the chained pages, admissible pages**: the independent reader's sum of page
headers and uncompressed page sizes over what `writeDataPages` laid out is the `usize` the reference
writer records -/
theorem chunkUsize_written_gen (cfg : Config) (codec : Nat) (leaf : LeafInfo) (dict : Option (List Bytes))
    (hdv : ∀ d, dict = some d → ∀ v ∈ d, v.length < 2 ^ 31) :
    ∀ (pls : List PageLayout) (es : List Entry) (w : Written) (fuel : Nat),
      (∀ pl ∈ pls, PageAdm pl ∧ pl.comp.codec = codec) → writeDataPages leaf dict pls es = some w →
      (∀ e ∈ es, wellFormedEntry leaf e = true) → w.bytes.length < 2 ^ 31 → w.usize < 2 ^ 31 → es.length < 2 ^ 31 →
      (∀ e ∈ w.oracle, oracleLookup cfg.oracle e.1 = some e.2) → pls.length < fuel →
      chunkUsize fuel w.bytes = some w.usize
  | [], es, w, fuel, _, hw, _, _, _, _, _, hf => by
    simp only [writeDataPages] at hw
    split at hw
    · cases hw
      cases fuel with
      | zero => simp at hf
      | succ f => simp [chunkUsize]
    · cases hw
  | pl :: r, es, w, fuel, hpl, hw, hwf, hlen, hus, hes, ho, hf => by
    simp only [writeDataPages] at hw
    split at hw
    · cases hw
    · rename_i hcount
      cases h1 : writeDataPage leaf dict pl (es.take pl.count) with
      | none => simp [h1] at hw
      | some a =>
        cases h2 : writeDataPages leaf dict r (es.drop pl.count) with
        | none => simp [h1, h2] at hw
        | some b =>
          simp only [h1, h2, Option.some.injEq] at hw
          subst hw
          simp only [List.length_append] at hlen
          simp only at hus ho
          have hwf1 : ∀ e ∈ es.take pl.count, wellFormedEntry leaf e = true := fun e he => hwf e (List.mem_of_mem_take he)
          have hwf2 : ∀ e ∈ es.drop pl.count, wellFormedEntry leaf e = true := fun e he => hwf e (List.mem_of_mem_drop he)
          obtain ⟨hadm, hcodec⟩ := hpl pl (by simp)
          cases fuel with
          | zero => simp at hf
          | succ f =>
            have ih := chunkUsize_written_gen cfg codec leaf dict hdv r (es.drop pl.count) b f
              (fun p hp => hpl p (by simp [hp])) h2 hwf2 (by omega) (by omega)
              (by simp; omega) (fun e he => ho e (by simp [he])) (by simp at hf; omega)
            obtain ⟨p, hraw, _, hrest, husz, _⟩ := page_written_gen cfg leaf dict pl (es.take pl.count) a
              b.bytes hadm h1 hwf1 (by omega) (by omega) (by simp; omega) hdv (fun e he => ho e (by simp [he]))
            have hne : a.bytes ++ b.bytes ≠ [] := by
              intro h
              exact writeDataPage_ne_nil hadm h1 (List.append_eq_nil_iff.mp h).1
            rw [chunkUsize_of_raw cfg _ _ p f hne hraw, hrest, ih, husz]
            rfl

theorem pages_count_le (leaf : LeafInfo) (dict : Option (List Bytes)) :
    ∀ (pls : List PageLayout) (es : List Entry) (w : Written), (∀ pl ∈ pls, PageAdm pl) →
      writeDataPages leaf dict pls es = some w → pls.length ≤ w.bytes.length
  | [], _, w, _, hw => by simp
  | pl :: r, es, w, hpl, hw => by
    simp only [writeDataPages] at hw
    split at hw
    · cases hw
    · cases h1 : writeDataPage leaf dict pl (es.take pl.count) with
      | none => simp [h1] at hw
      | some a =>
        cases h2 : writeDataPages leaf dict r (es.drop pl.count) with
        | none => simp [h1, h2] at hw
        | some b =>
          simp only [h1, h2, Option.some.injEq] at hw
          subst hw
          have ih := pages_count_le leaf dict r (es.drop pl.count) b (fun p hp => hpl p (by simp [hp])) h2
          have hpos : 0 < a.bytes.length := List.length_pos_iff.mpr (writeDataPage_ne_nil (hpl pl (by simp)) h1)
          simp only [List.length_cons, List.length_append]
          omega

/-- no pages, no bytes: then no entries -/
theorem pages_nil_entries (leaf : LeafInfo) (dict : Option (List Bytes)) (pls : List PageLayout) (es : List Entry) (w : Written)
    (hpl : ∀ pl ∈ pls, PageAdm pl) (hw : writeDataPages leaf dict pls es = some w) (hnil : w.bytes = []) :
    es = [] ∧ pls = [] := by
  have hcount := pages_count_le leaf dict pls es w hpl hw
  cases pls with
  | nil => simp only [writeDataPages] at hw; split at hw <;> simp_all
  | cons pl r => rw [hnil] at hcount; simp at hcount

/-- the first page of a non-empty page sequence is a data page -/
theorem first_page_data (cfg : Config) (codec : Nat) (leaf : LeafInfo) (dict : Option (List Bytes))
    (hdv : ∀ d, dict = some d → ∀ v ∈ d, v.length < 2 ^ 31)
    (pls : List PageLayout) (es : List Entry) (w : Written)
    (hpl : ∀ pl ∈ pls, PageAdm pl ∧ pl.comp.codec = codec) (hw : writeDataPages leaf dict pls es = some w)
    (hwf : ∀ e ∈ es, wellFormedEntry leaf e = true) (hlen : w.bytes.length < 2 ^ 31) (hus : w.usize < 2 ^ 31)
    (hes : es.length < 2 ^ 31) (ho : ∀ e ∈ w.oracle, oracleLookup cfg.oracle e.1 = some e.2) (hne : w.bytes ≠ []) :
    ∃ p, readRawPage cfg codec w.bytes = .ok p ∧ p.hdr.type = 0 := by
  cases pls with
  | nil =>
    simp only [writeDataPages] at hw
    split at hw
    · cases hw; simp at hne
    · cases hw
  | cons pl r =>
    simp only [writeDataPages] at hw
    split at hw
    · cases hw
    · cases h1 : writeDataPage leaf dict pl (es.take pl.count) with
      | none => simp [h1] at hw
      | some a =>
        cases h2 : writeDataPages leaf dict r (es.drop pl.count) with
        | none => simp [h1, h2] at hw
        | some b =>
          simp only [h1, h2, Option.some.injEq] at hw
          subst hw
          simp only [List.length_append] at hlen
          simp only at hus ho
          obtain ⟨hadm, hcodec⟩ := hpl pl (by simp)
          obtain ⟨p, hraw, hty, _, _⟩ := page_written_gen cfg leaf dict pl (es.take pl.count) a b.bytes
            hadm h1 (fun e he => hwf e (List.mem_of_mem_take he)) (by omega) (by omega) (by simp; omega) hdv
            (fun e he => ho e (by simp [he]))
          rw [hcodec] at hraw
          exact ⟨p, hraw, hty⟩

end Carquet.Proofs.SpecFile
