import Carquet.Proofs.DeltaSpec
/-
The steerable Spec encoder produces well-formed grammar streams that denote its input, for every
legal geometry and every steering; hence (with `decode_stream`) the Spec decoder inverts it.
-/
namespace Carquet.Spec.Delta

/-! chunks -/

theorem chunksAux_spec (n : Nat) (hn : 0 < n) (fuel : Nat) : ∀ (xs : List α), xs.length ≤ fuel →
    (chunksAux n fuel xs).flatten = xs ∧
    (∀ c ∈ chunksAux n fuel xs, 0 < c.length ∧ c.length ≤ n) ∧
    List.Pairwise (fun c _ => c.length = n) (chunksAux n fuel xs) ∧
    (chunksAux n fuel xs).length = (xs.length + n - 1) / n := by
  induction fuel with
  | zero =>
    intro xs h
    have : xs = [] := List.eq_nil_of_length_eq_zero (by omega)
    subst this
    simp only [chunksAux, List.flatten_nil, List.not_mem_nil, false_implies, implies_true, List.Pairwise.nil,
      List.length_nil, true_and]
    have : (0 + n - 1) / n = 0 := Nat.div_eq_of_lt (by omega)
    omega
  | succ fuel ih =>
    intro xs h
    simp only [chunksAux]
    by_cases hx : xs = []
    · subst hx
      simp only [if_true, List.flatten_nil, List.not_mem_nil, false_implies, implies_true, List.Pairwise.nil,
        List.length_nil, true_and]
      have : (0 + n - 1) / n = 0 := Nat.div_eq_of_lt (by omega)
      omega
    · rw [if_neg hx]
      have hpos : 0 < xs.length := List.length_pos_iff.mpr hx
      obtain ⟨h1, h2, h3, h4⟩ := ih (xs.drop n) (by rw [List.length_drop]; omega)
      refine ⟨?_, ?_, ?_, ?_⟩
      · simp [h1]
      · intro c hc
        simp only [List.mem_cons] at hc
        rcases hc with rfl | hc
        · simp only [List.length_take]; omega
        · exact h2 c hc
      · rw [List.pairwise_cons]
        refine ⟨?_, h3⟩
        intro c hc
        -- a later chunk exists, so the list was longer than n
        have hc' := (h2 c hc).1
        have hne : (chunksAux n fuel (xs.drop n)) ≠ [] := List.ne_nil_of_mem hc
        have hlen : 0 < (chunksAux n fuel (xs.drop n)).length := List.length_pos_iff.mpr hne
        rw [h4, List.length_drop] at hlen
        have : n < xs.length := by
          by_cases hh : n < xs.length
          · exact hh
          · have : xs.length - n = 0 := by omega
            rw [this] at hlen
            have : (0 + n - 1) / n = 0 := Nat.div_eq_of_lt (by omega)
            omega
        simp only [List.length_take]; omega
      · simp only [List.length_cons, h4, List.length_drop]
        by_cases hh : n ≤ xs.length
        · have : xs.length + n - 1 = (xs.length - n + n - 1) + n := by omega
          rw [this, Nat.add_div_right _ hn]
        · have e1 : xs.length - n = 0 := by omega
          rw [e1]
          have e2 : (0 + n - 1) / n = 0 := Nat.div_eq_of_lt (by omega)
          have e3 : (xs.length + n - 1) / n = 1 := by
            have : xs.length + n - 1 = (xs.length - 1) + n := by omega
            rw [this, Nat.add_div_right _ hn, Nat.div_eq_of_lt (by omega)]
          omega

/-! widths -/

theorem le_listMax (l : List Nat) : ∀ m : Nat, m ≤ listMax m l ∧ ∀ x ∈ l, x ≤ listMax m l := by
  induction l with
  | nil => intro m; simp [listMax]
  | cons d ds ih =>
    intro m
    simp only [listMax]
    by_cases h : m < d
    · rw [if_pos h]
      obtain ⟨h1, h2⟩ := ih d
      refine ⟨by omega, ?_⟩
      intro x hx
      simp only [List.mem_cons] at hx
      rcases hx with rfl | hx
      · exact h1
      · exact h2 x hx
    · rw [if_neg h]
      obtain ⟨h1, h2⟩ := ih m
      refine ⟨h1, ?_⟩
      intro x hx
      simp only [List.mem_cons] at hx
      rcases hx with rfl | hx
      · omega
      · exact h2 x hx

theorem listMax_lt (l : List Nat) (B : Nat) : ∀ m : Nat, m < B → (∀ x ∈ l, x < B) → listMax m l < B := by
  induction l with
  | nil => intro m hm _; simpa [listMax] using hm
  | cons d ds ih =>
    intro m hm h
    simp only [listMax]
    split
    · exact ih d (h d (by simp)) (fun x hx => h x (by simp [hx]))
    · exact ih m hm (fun x hx => h x (by simp [hx]))

theorem lt_two_pow_bitLen (n : Nat) : n < 2 ^ bitLen n := by
  cases n with
  | zero => simp [bitLen]
  | succ n => simp only [bitLen]; exact Nat.lt_log2_self

theorem bitLen_le (n W : Nat) (h : n < 2 ^ W) : bitLen n ≤ W := by
  cases n with
  | zero => simp [bitLen]
  | succ n =>
    simp only [bitLen]
    have : (n + 1).log2 < W := (Nat.log2_lt (by omega)).mpr h
    omega

theorem widthFor_spec (extra : Nat) (chunk : List Nat) (h : ∀ x ∈ chunk, x < 2 ^ 64) :
    widthFor extra chunk ≤ 64 ∧ ∀ x ∈ chunk, x < 2 ^ widthFor extra chunk := by
  have hmax : listMax 0 chunk < 2 ^ 64 := listMax_lt chunk _ 0 (by decide) h
  have hb := bitLen_le _ 64 hmax
  have hfit : ∀ x ∈ chunk, x < 2 ^ bitLen (listMax 0 chunk) := by
    intro x hx
    have := (le_listMax chunk 0).2 x hx
    have := lt_two_pow_bitLen (listMax 0 chunk)
    omega
  unfold widthFor
  split
  · rename_i hle
    refine ⟨hle, fun x hx => ?_⟩
    have := hfit x hx
    have : 2 ^ bitLen (listMax 0 chunk) ≤ 2 ^ (bitLen (listMax 0 chunk) + extra) :=
      Nat.pow_le_pow_right (by decide) (by omega)
    omega
  · exact ⟨hb, hfit⟩

/-- the chosen widths fit the padded adjusted deltas, whatever follows them in the width list -/
theorem fits_chunkWidths (vpm : Nat) (hv : 0 < vpm) (junk : List UInt8) (fuel : Nat) :
    ∀ (extra : List Nat) (xs : List Nat), xs.length ≤ fuel → (∀ x ∈ xs, x < 2 ^ 64) →
      fits vpm ((chunkWidths extra (chunksAux vpm fuel xs)).map UInt8.ofNat ++ junk) xs := by
  induction fuel with
  | zero =>
    intro extra xs h _
    have : xs = [] := List.eq_nil_of_length_eq_zero (by omega)
    subst this
    simp only [chunksAux, chunkWidths, List.map_nil, List.nil_append]
    cases junk <;> simp [fits]
  | succ fuel ih =>
    intro extra xs h hx
    simp only [chunksAux]
    by_cases hnil : xs = []
    · subst hnil
      simp only [if_true, chunkWidths, List.map_nil, List.nil_append]
      cases junk <;> simp [fits]
    · rw [if_neg hnil]
      simp only [chunkWidths, List.map_cons, List.cons_append, fits]
      right
      have hpos : 0 < xs.length := List.length_pos_iff.mpr hnil
      obtain ⟨h1, h2⟩ := widthFor_spec (extra.headD 0) (xs.take vpm) (fun x hm => hx x (List.mem_of_mem_take hm))
      rw [toNat_ofNat_lt _ (by omega)]
      exact ⟨h1, h2, ih extra.tail (xs.drop vpm) (by rw [List.length_drop]; omega)
        (fun x hm => hx x (List.mem_of_mem_drop hm))⟩

theorem length_chunkWidths (extra : List Nat) (cs : List (List Nat)) : (chunkWidths extra cs).length = cs.length := by
  induction cs generalizing extra with
  | nil => rfl
  | cons c cs ih => simp [chunkWidths, ih]

/-! one block -/

theorem ceil_facts (n v : Nat) (hv : 0 < v) : n ≤ (n + v - 1) / v * v ∧ (n + v - 1) / v * v < n + v := by
  have h1 := Nat.lt_div_mul_add (a := n + v - 1) hv
  have h2 := Nat.div_mul_le_self (n + v - 1) v
  omega

theorem adj_lt (W : Nat) (d md : Int) : ((d - md) % (2 ^ W : Int)).toNat < 2 ^ W := by
  have hp : (0 : Int) < 2 ^ W := Int.pow_pos (by decide)
  have h1 := Int.emod_nonneg (d - md) (Int.ne_of_gt hp)
  have h2 := Int.emod_lt_of_pos (d - md) hp
  have : (((d - md) % (2 ^ W : Int)).toNat : Int) < ((2 ^ W : Nat) : Int) := by
    rw [Int.toNat_of_nonneg h1]; simpa using h2
  exact Int.ofNat_lt.mp this

theorem encodeBlock_wf (W : Nat) (hW : W ≤ 64) (g : Geometry) (hg : g.legal) (c : Choice) (ds : List Int)
    (h1 : 0 < ds.length) (h2 : ds.length ≤ g.blockSize)
    (hmd : inI64 (c.minDelta.getD (listMin (ds.headD 0) ds))) :
    (encodeBlock W g c ds).wf g ∧ (encodeBlock W g c ds).adj.length = ds.length := by
  have hv := vpm_pos g hg
  have hvm := vpm_mul g hg
  obtain ⟨hc1, hc2⟩ := ceil_facts ds.length g.vpm hv
  have hpow : (2:Nat) ^ W ≤ 2 ^ 64 := Nat.pow_le_pow_right (by decide) hW
  simp only [encodeBlock, Block.wf, List.length_map, List.length_append, List.length_range, chunks,
    length_chunkWidths]
  have hxs : ds.length + ((ds.length + g.vpm - 1) / g.vpm * g.vpm - ds.length) =
      (ds.length + g.vpm - 1) / g.vpm * g.vpm := by omega
  obtain ⟨_, _, _, hlen⟩ := chunksAux_spec g.vpm hv
    (ds.length + ((ds.length + g.vpm - 1) / g.vpm * g.vpm - ds.length))
    (List.map (fun d => ((d - c.minDelta.getD (listMin (ds.headD 0) ds)) % (2 ^ W : Int)).toNat) ds ++
      List.map (fun i => c.pad[i]?.getD 0 % 2 ^ W) (List.range ((ds.length + g.vpm - 1) / g.vpm * g.vpm - ds.length)))
    (by simp)
  simp only [List.length_append, List.length_map, List.length_range] at hlen
  have hm : (ds.length + ((ds.length + g.vpm - 1) / g.vpm * g.vpm - ds.length) + g.vpm - 1) / g.vpm =
      (ds.length + g.vpm - 1) / g.vpm := by
    rw [hxs]
    have : (ds.length + g.vpm - 1) / g.vpm * g.vpm + g.vpm - 1 = (g.vpm - 1) + g.vpm * ((ds.length + g.vpm - 1) / g.vpm) := by
      rw [Nat.mul_comm]; omega
    rw [this, Nat.add_mul_div_left _ _ hv, Nat.div_eq_of_lt (by omega)]
    omega
  rw [hm] at hlen
  have hmle : (ds.length + g.vpm - 1) / g.vpm ≤ g.miniblocks := by
    have : ds.length + g.vpm - 1 < g.vpm * (g.miniblocks + 1) := by rw [Nat.mul_succ, hvm]; omega
    have := (Nat.div_lt_iff_lt_mul hv).mpr (by rw [Nat.mul_comm]; exact this)
    omega
  refine ⟨⟨?_, h1, h2, ?_, ?_, ?_, hmd⟩, trivial⟩
  · rw [hlen]; omega
  · rw [hxs]; exact Nat.mul_mod_left _ _
  · omega
  · apply fits_chunkWidths g.vpm hv _ _ _ _ (by simp)
    intro x hx
    simp only [List.mem_append, List.mem_map, List.mem_range] at hx
    rcases hx with ⟨d, _, rfl⟩ | ⟨i, _, rfl⟩
    · have := adj_lt W d (c.minDelta.getD (listMin (ds.headD 0) ds)); omega
    · have : c.pad[i]?.getD 0 % 2 ^ W < 2 ^ W := Nat.mod_lt _ (Nat.two_pow_pos W)
      omega

/-! the frame of reference the text prescribes (the minimum of wrapped deltas) fits 64 bits -/

theorem wrap_inI64 (W : Nat) (hW : W ≤ 64) (x : Int) : inI64 (wrap W x) := by
  unfold wrap inI64
  have hp : 0 < 2 ^ W := Nat.two_pow_pos W
  have h1 := @Int.le_bmod x (2 ^ W) hp
  have h2 := @Int.bmod_lt x (2 ^ W) hp
  have hle : (2:Nat) ^ W ≤ 2 ^ 64 := Nat.pow_le_pow_right (by decide) hW
  constructor <;> omega

theorem listMin_mem (l : List Int) : ∀ m : Int, listMin m l = m ∨ listMin m l ∈ l := by
  induction l with
  | nil => intro m; left; rfl
  | cons d ds ih =>
    intro m
    simp only [listMin]
    split
    · rcases ih d with h | h
      · right; rw [h]; simp
      · right; simp [h]
    · rcases ih m with h | h
      · left; exact h
      · right; simp [h]

theorem mem_deltasOf (W : Nat) (vs : List Int) : ∀ (last : Int), ∀ d ∈ deltasOf W last vs, ∃ x, d = wrap W x := by
  induction vs with
  | nil => intro last d hd; simp [deltasOf] at hd
  | cons v vs ih =>
    intro last d hd
    simp only [deltasOf, List.mem_cons] at hd
    rcases hd with rfl | hd
    · exact ⟨_, rfl⟩
    · exact ih v d hd

theorem length_deltasOf (W : Nat) (vs : List Int) (last : Int) : (deltasOf W last vs).length = vs.length := by
  induction vs generalizing last with
  | nil => rfl
  | cons v vs ih => simp [deltasOf, ih]

/-- steering is admissible when every explicitly chosen frame of reference fits 64 bits -/
def Params.ok (p : Params) : Prop := ∀ k x, (p.choice k).minDelta = some x → inI64 x

theorem minDelta_ok (W : Nat) (hW : W ≤ 64) (p : Params) (hp : p.ok) (k : Nat) (ds : List Int)
    (hne : ds ≠ []) (hds : ∀ d ∈ ds, ∃ x, d = wrap W x) :
    inI64 ((p.choice k).minDelta.getD (listMin (ds.headD 0) ds)) := by
  cases hc : (p.choice k).minDelta with
  | some x => exact hp k x hc
  | none =>
    simp only [Option.getD_none]
    cases ds with
    | nil => exact absurd rfl hne
    | cons d ds' =>
      simp only [List.headD_cons]
      rcases listMin_mem (d :: ds') d with h | h
      · rw [h]; obtain ⟨x, rfl⟩ := hds d (by simp); exact wrap_inI64 W hW x
      · obtain ⟨x, hx⟩ := hds _ h; rw [hx]; exact wrap_inI64 W hW x

theorem encodeBlocks_wf (W : Nat) (hW : W ≤ 64) (p : Params) (hg : p.geom.legal) (hp : p.ok)
    (cs : List (List Int)) : ∀ k : Nat,
    (∀ c ∈ cs, 0 < c.length ∧ c.length ≤ p.geom.blockSize) →
    (∀ c ∈ cs, ∀ d ∈ c, ∃ x, d = wrap W x) →
    List.Pairwise (fun c _ => c.length = p.geom.blockSize) cs →
    blocksWf p.geom (encodeBlocks W p k cs) ∧ totalDeltas (encodeBlocks W p k cs) = cs.flatten.length := by
  induction cs with
  | nil => intro k _ _ _; exact ⟨trivial, rfl⟩
  | cons c cs ih =>
    intro k h1 h2 h3
    rw [List.pairwise_cons] at h3
    have hc := h1 c (by simp)
    have hne : c ≠ [] := List.length_pos_iff.mp hc.1
    obtain ⟨hwf, hlen⟩ := encodeBlock_wf W hW p.geom hg (p.choice k) c hc.1 hc.2
      (minDelta_ok W hW p hp k c hne (h2 c (by simp)))
    obtain ⟨ih1, ih2⟩ := ih (k + 1) (fun x hx => h1 x (by simp [hx])) (fun x hx => h2 x (by simp [hx])) h3.2
    constructor
    · cases cs with
      | nil => exact hwf
      | cons c' cs' =>
        refine ⟨hwf, ?_, ih1⟩
        rw [hlen]; exact h3.1 c' (by simp)
    · simp only [encodeBlocks, totalDeltas, List.map_cons, List.sum_cons, List.flatten_cons, List.length_append]
      simp only [totalDeltas] at ih2
      rw [ih2, hlen]

/-- every stream the steerable encoder builds is in the grammar -/
theorem encodeStream_wf (W : Nat) (hW : W ≤ 64) (p : Params) (hg : p.geom.legal) (hp : p.ok)
    (hb : p.geom.blockSize < 2 ^ 64) (hm : p.geom.miniblocks < 2 ^ 64)
    (vs : List Int) (hlen : vs.length < 2 ^ 64) (hfirst : inI64 (vs.headD 0)) :
    (encodeStream W p vs).wf := by
  cases vs with
  | nil =>
    refine ⟨hg, trivial, Or.inr ⟨rfl, rfl⟩, hb, hm, ?_, ?_⟩
    · show (0 : Nat) < 2 ^ 64
      decide
    · show inI64 0
      decide
  | cons v rest =>
    simp only [encodeStream]
    have hbpos : 0 < p.geom.blockSize := hg.1
    obtain ⟨c1, c2, c3, _⟩ := chunksAux_spec p.geom.blockSize hbpos (deltasOf W v rest).length
      (deltasOf W v rest) (Nat.le_refl _)
    have hmem : ∀ c ∈ chunks p.geom.blockSize (deltasOf W v rest), ∀ d ∈ c, ∃ x, d = wrap W x := by
      intro c hc d hd
      apply mem_deltasOf W rest v d
      rw [← c1]
      exact List.mem_flatten.mpr ⟨c, hc, hd⟩
    obtain ⟨w1, w2⟩ := encodeBlocks_wf W hW p hg hp _ 0 c2 hmem c3
    refine ⟨hg, w1, Or.inl ?_, hb, hm, by simpa using hlen, by simpa using hfirst⟩
    show rest.length + 1 = totalDeltas (encodeBlocks W p 0 (chunks p.geom.blockSize (deltasOf W v rest))) + 1
    unfold chunks
    rw [w2, c1, length_deltasOf]

/-! the stream denotes the input -/

/-- equal modulo `2^W` -/
def cong (W : Nat) (a b : Int) : Prop := ∃ k : Int, a = b + ((2 ^ W : Nat) : Int) * k

/-- element-wise equal modulo `2^W` -/
def congList (W : Nat) : List Int → List Int → Prop
  | [], [] => True
  | a :: as, b :: bs => cong W a b ∧ congList W as bs
  | _, _ => False

theorem accum_congr (W : Nat) (as : List Int) : ∀ (bs : List Int), congList W as bs →
    ∀ x : Int, accum W x as = accum W x bs := by
  induction as with
  | nil =>
    intro bs h x
    cases bs with
    | nil => rfl
    | cons b bs => exact absurd h (by simp [congList])
  | cons a as ih =>
    intro bs h x
    cases bs with
    | nil => exact absurd h (by simp [congList])
    | cons b bs =>
      obtain ⟨⟨k, rfl⟩, hrest⟩ := h
      simp only [accum]
      have : wrap W (x + (b + ((2 ^ W : Nat) : Int) * k)) = wrap W (x + b) := by
        unfold wrap
        rw [← Int.add_assoc, Int.add_mul_bmod_self_left]
      rw [this, ih bs hrest]

theorem block_deltas_cong (W : Nat) (g : Geometry) (c : Choice) (ds : List Int) :
    congList W (encodeBlock W g c ds).deltas ds := by
  simp only [Block.deltas, encodeBlock, List.map_map]
  generalize c.minDelta.getD (listMin (ds.headD 0) ds) = md
  induction ds with
  | nil => trivial
  | cons d ds ih =>
    refine ⟨?_, ih⟩
    simp only [Function.comp_def, Int.ofNat_eq_natCast]
    have hp : (0 : Int) < 2 ^ W := Int.pow_pos (by decide)
    have h1 := Int.emod_nonneg (d - md) (Int.ne_of_gt hp)
    rw [Int.toNat_of_nonneg h1, Int.emod_def]
    refine ⟨-((d - md) / 2 ^ W), ?_⟩
    simp only [Int.natCast_pow, Int.cast_ofNat_Int]
    rw [Int.mul_neg]
    omega

theorem congList_append (W : Nat) (a1 : List Int) : ∀ (b1 a2 b2 : List Int),
    congList W a1 b1 → congList W a2 b2 → congList W (a1 ++ a2) (b1 ++ b2) := by
  induction a1 with
  | nil =>
    intro b1 a2 b2 h1 h2
    cases b1 with
    | nil => exact h2
    | cons b bs => exact absurd h1 (by simp [congList])
  | cons a as ih =>
    intro b1 a2 b2 h1 h2
    cases b1 with
    | nil => exact absurd h1 (by simp [congList])
    | cons b bs => exact ⟨h1.1, ih bs a2 b2 h1.2 h2⟩

theorem blocks_deltas_cong (W : Nat) (p : Params) (cs : List (List Int)) : ∀ k : Nat,
    congList W ((encodeBlocks W p k cs).flatMap Block.deltas) cs.flatten := by
  induction cs with
  | nil => intro k; trivial
  | cons c cs ih =>
    intro k
    simp only [encodeBlocks, List.flatMap_cons, List.flatten_cons]
    exact congList_append W _ _ _ _ (block_deltas_cong W p.geom (p.choice k) c) (ih (k + 1))

theorem accum_deltasOf (W : Nat) (vs : List Int) (hv : ∀ v ∈ vs, wrap W v = v) :
    ∀ last : Int, accum W last (deltasOf W last vs) = vs := by
  induction vs with
  | nil => intro last; rfl
  | cons v vs ih =>
    intro last
    simp only [deltasOf, accum]
    have : wrap W (last + wrap W (v - last)) = v := by
      unfold wrap
      rw [Int.add_bmod_bmod]
      have : last + (v - last) = v := by omega
      rw [this]
      exact hv v (by simp)
    rw [this, ih (fun x hx => hv x (by simp [hx]))]

/-- the stream the steerable encoder builds denotes its input (values within the column width) -/
theorem encodeStream_values (W : Nat) (p : Params) (hg : p.geom.legal) (vs : List Int)
    (hv : ∀ v ∈ vs, wrap W v = v) : (encodeStream W p vs).values W = vs := by
  cases vs with
  | nil => rfl
  | cons v rest =>
    simp only [encodeStream, Stream.values, Nat.add_one_ne_zero, ↓reduceIte]
    have hbpos : 0 < p.geom.blockSize := hg.1
    obtain ⟨c1, _, _, _⟩ := chunksAux_spec p.geom.blockSize hbpos (deltasOf W v rest).length
      (deltasOf W v rest) (Nat.le_refl _)
    have hc := blocks_deltas_cong W p (chunks p.geom.blockSize (deltasOf W v rest)) 0
    unfold chunks at hc
    rw [c1] at hc
    rw [hv v (by simp)]
    unfold chunks
    rw [accum_congr W _ _ hc, accum_deltasOf W rest (fun x hx => hv x (by simp [hx]))]

/-- Spec self-consistency: the reference decoder inverts the steerable reference encoder for every
legal geometry and every admissible steering, and stops at the end of the stream. -/
theorem decode_encode (W : Nat) (hW : W ≤ 64) (p : Params) (hg : p.geom.legal) (hp : p.ok)
    (hb : p.geom.blockSize < 2 ^ 64) (hm : p.geom.miniblocks < 2 ^ 64)
    (vs : List Int) (hlen : vs.length < 2 ^ 64) (hv : ∀ v ∈ vs, wrap W v = v) (tail : List UInt8) :
    decode W (encode W p vs ++ tail) = .ok (vs, tail) := by
  have hfirst : inI64 (vs.headD 0) := by
    cases vs with
    | nil => decide
    | cons v rest =>
      have := hv v (by simp)
      simp only [List.headD_cons]
      rw [← this]
      exact wrap_inI64 W hW v
  have hwf := encodeStream_wf W hW p hg hp hb hm vs hlen hfirst
  unfold encode
  rw [decode_stream W _ tail hwf, encodeStream_values W p hg vs hv]

end Carquet.Spec.Delta
