import Carquet.Proofs.ImplReadsDefs
import Carquet.Proofs.ReaderSteps
import Carquet.Proofs.ImplReadsPrefix3
/-
C06, implementation half — the fread header window (F53) is sound after fix F62: carquet's page-header
parser is PREFIX-MONOTONE — if it accepts a byte string it accepts every extension of it with the same
result and the same number of consumed bytes — hence a window that cuts a header short cannot be
accepted when the parser, given more bytes, consumes more than the window held.
-/
namespace Carquet.Proofs.ImplReads
open Carquet.Impl
open Carquet.Impl.Reader hiding Bytes
open Carquet.Impl.ThriftParquetReq (PageHdr parsePageHeaderC parsePageHeaderCX pageHdrBody)
open Carquet.Impl.Thrift Carquet.Impl.ThriftParquet
open Carquet.Proofs.ImplReads.Prefix

theorem topFinish_none {α : Type} (r : Top α × Dec) (h : (topFinish r).status = none) :
    r.1.abort = none ∧ r.2.status = none := by
  unfold topFinish at h
  split at h
  · cases h
  · rename_i hab; exact ⟨hab, h⟩

/-- the page-header parser, as a `ParseResult`, on an extension of an accepted input -/
theorem parsePageHeaderCX_mono (p x : List UInt8) (hst : (parsePageHeaderCX p).status = none) :
    parsePageHeaderCX (p ++ x) = parsePageHeaderCX p ∧ (parsePageHeaderCX p).consumed ≤ p.length := by
  unfold parsePageHeaderCX topParse at hst ⊢
  obtain ⟨hab, hs⟩ := topFinish_none _ hst
  have hsb : (structBegin (Dec.init p)).status = none := fieldLoop_st _ _ _ _ _ hs
  have hE0 : Ext x p.length (Dec.init p) (Dec.init (p ++ x)) :=
    Ext.intro' p 0 [] false false false (p.length + 1) ((p ++ x).length + 1) (by simp) (by simp)
  obtain ⟨h1, h2⟩ := fieldLoop_ext (fun s => s.abort.isSome) (pageHdrBody Cfg.fixed) pageHdrBody_st
    (fun ty fid s _ _ hE hs => pageHdrBody_ext ty fid s hE hs) (p.length + 1) ((p ++ x).length + 1) _ _
    ⟨⟨0, 0, 0, none, 0, 0⟩, none⟩ (by simp) (structBegin_ext hE0 hsb) hs
  have h3 : ∀ d : Dec, (structEnd d).status = d.status := fun _ => rfl
  refine ⟨?_, ?_⟩
  · unfold topFinish
    rw [h1]
    simp only [hab, h3, h2.st, h2.st', h2.pos, h2.ov]
  · unfold topFinish
    simp only [hab]
    have := h2.len
    omega

/-- **prefix monotonicity of `parquet_parse_page_header`** (code after fix F62) -/
theorem parsePageHeaderC_mono (p x : List UInt8) (r : PageHdr × Nat) (h : parsePageHeaderC p = .ok r) :
    parsePageHeaderC (p ++ x) = .ok r ∧ r.2 ≤ p.length := by
  unfold parsePageHeaderC at h ⊢
  split at h
  · cases h
  · rename_i hst
    obtain ⟨h1, h2⟩ := parsePageHeaderCX_mono p x hst
    simp only [Except.ok.injEq] at h
    rw [h1]
    simp only [hst]
    rw [← h]
    exact ⟨rfl, h2⟩

/-- a header that parses, with anything behind it, to its full length is not accepted from any window
that cuts it short -/
theorem windowOk_of_any (hb : List UInt8) (hdr : PageHdr) (hlen : hb.length ≤ headerWindowMax)
    (hany : ∀ rest, parsePageHeaderC (hb ++ rest) = .ok (hdr, hb.length)) : WindowOk hb := by
  refine ⟨hlen, ?_⟩
  intro k hk
  cases hp : parsePageHeaderC (hb.take (256 * 2 ^ k)) with
  | error e => exact ⟨e, rfl⟩
  | ok r =>
    exfalso
    obtain ⟨h1, h2⟩ := parsePageHeaderC_mono (hb.take (256 * 2 ^ k)) (hb.drop (256 * 2 ^ k)) r hp
    rw [List.take_append_drop] at h1
    have h3 := hany []
    rw [List.append_nil, h1] at h3
    simp only [Except.ok.injEq] at h3
    rw [h3] at h2
    simp only [List.length_take] at h2
    omega

end Carquet.Proofs.ImplReads
